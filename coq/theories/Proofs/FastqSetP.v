(** Refinement of the FASTQ reader model, part 3: record sets.

    Part A generalises the lemmas of FastqNextP.v about the work on one group
    of four lines ([fq_validate], [fq_check_end], [fq_resume], the search from
    the group start) to an arbitrary state label (the set loop runs in state
    [QPositioned], [next] in [QParsing]) and keeps track of the window offset
    (a resume that may not make room leaves the window where it is).

    Part B gives the invariant that holds between any two calls on one reader
    ([HQ]: fresh / a record was just returned / positioned at a group start /
    positioned in the middle of a group with a pending search / finished) and
    proves the loop [fq_set_loop]: the positions collected so far are the
    offsets of consecutive stream items relative to ONE window; the buffer is
    not moved while the set is non-empty.

    Part C: [fq_next] and [fq_read_set] continue the stream from every such
    state. *)
From SeqIO Require Import Model.Base Model.Fastq Model.Views Spec.FastaSpec Spec.FastqSpec
  Proofs.Window Proofs.FastaInv Proofs.FqSpecP Proofs.ViewsP Proofs.ViewShiftP Proofs.FastqInv
  Proofs.FastqNextP Proofs.FastqGrowP.

(* ------------------------------------------------------------------ *)
(** * Part A.  The work on one group, for any state label *)

(** fault-free seeks *)
Definition sitem_ok (i : sitem) : bool := match i with SOk => true | SFailI _ => false end.
Definition no_sfail (s : source) : Prop := forallb sitem_ok (s_ss s) = true.

(** window, end-of-input knowledge, policy, fault-free seek script *)
Definition QB (inp : list byte) (ffuel : nat) (r : fq) (off : nat) : Prop :=
  QBase inp ffuel r off /\ no_sfail (qsrc r).

Lemma QB_ext inp ffuel r r' off :
  qbuf r' = qbuf r -> qsrc r' = qsrc r -> qcap r' = qcap r -> qpolf r' = qpolf r ->
  QB inp ffuel r off -> QB inp ffuel r' off.
Proof.
  intros Hb Hs Hc Hp (B & S). split; [eapply QBase_ext; eassumption | rewrite Hs; exact S].
Qed.

Lemma QB_same inp ffuel r r' off : same_base r r' -> QB inp ffuel r off -> QB inp ffuel r' off.
Proof. intros (E1 & E2 & E3 & E4 & E5 & E6 & E7 & E8 & _). apply QB_ext; assumption. Qed.

(** the reader works on the group at absolute offset [a], line [l] *)
Definition Anch (inp : list byte) (ffuel : nat) (r : fq) (off a l : nat) : Prop :=
  QB inp ffuel r off /\ p0 r + off = a /\ qbyte r = a /\ qline r = l.

(** a record view over a window that starts at [off] shows item [i] *)
Definition rec_at_off (inp : list byte) (off : nat) (rc : fq_rec) (i : fq_item) : Prop :=
  fq_head rc = Some (qi_head i) /\ fq_seq rc = Some (qi_seq i) /\ fq_qual rc = Some (qi_qual i) /\
  FqRecWf rc /\ r0 rc + off = qi_byte i /\
  exists e, qrbuf rc = window inp off e /\ off <= e /\ e <= length inp.

(** a record view over some window of the input shows item [i] *)
Definition rec_at (inp : list byte) (rc : fq_rec) (i : fq_item) : Prop :=
  exists off, rec_at_off inp off rc i.

(** the record denoted by a stored position in a buffer *)
Definition rec_of (b : list byte) (bp : nat * nat * nat * nat * nat) : fq_rec :=
  match bp with (x0, x1, xs, xp, xq) => mkFqRec b x0 x1 xs xp xq end.

Lemma rec_of_bp r : rec_of (qbuf r) (fq_bp r) = fq_cur r.
Proof. reflexivity. Qed.

(** result of working on the group at absolute offset [a], line [l]; [off] is
    the window offset afterwards *)
Inductive GPost (inp : list byte) (ffuel : nat) (st : fq_state) (a l off : nat) (r' : fq)
  : qrres -> Prop :=
| GP_none :
    fq_parse (skipn a inp) l a = [] -> qst r' = QFinished -> Anch inp ffuel r' off a l ->
    GPost inp ffuel st a l off r' (QrOk false)
| GP_err e :
    fq_parse (skipn a inp) l a = [QErr e l a] -> qst r' = QFinished -> Anch inp ffuel r' off a l ->
    GPost inp ffuel st a l off r' (QrErr (fq_err_of e))
| GP_rec i :
    fq_parse (skipn a inp) l a =
      QRec i :: fq_parse (skipn (p1 r' + 1 + off) inp) (l + 4) (p1 r' + 1 + off) ->
    Anch inp ffuel r' off a l -> rec_at_off inp off (fq_cur r') i -> qi_line i = l ->
    p0 r' <= p1 r' ->
    ((qst r' = st /\ p1 r' + 1 <= length (qbuf r')) \/
     (qst r' = QFinished /\ p1 r' = length (qbuf r') /\ s_pos (qsrc r') = length inp)) ->
    GPost inp ffuel st a l off r' (QrOk true).

Definition vr (v : vres) : qrres :=
  match v with VOk => QrOk true | VErr e => QrErr e | VPanic x => QrPanic x end.

Lemma Anch_st inp ffuel r off a l v : Anch inp ffuel r off a l -> Anch inp ffuel (qset_st r v) off a l.
Proof.
  intros (B & H1 & H2 & H3). split; [|splits; assumption].
  eapply QB_ext; [| | | |exact B]; reflexivity.
Qed.

(** [validate] on a group of four lines whose fourth line ends at an LF
    (first alternative) or at the end of the input (second alternative) *)
Lemma gvalidate_post inp ffuel st r off a l b c d e' :
  QB inp ffuel r off -> p0 r + off = a -> qbyte r = a -> qline r = l ->
  pseq r + off = b -> psep r + off = c -> pqual r + off = d -> p1 r + off = e' ->
  abs_line inp a = Some b -> abs_line inp b = Some c -> abs_line inp c = Some d ->
  ((exists e, abs_line inp d = Some e /\ e' + 1 = e /\ e <= s_pos (qsrc r) /\ qst r = st)
   \/ (abs_line inp d = None /\ e' = length inp /\ s_pos (qsrc r) = length inp /\ qst r = QFinished)) ->
  exists r' v, fq_validate r = (r', v) /\ inc r' = inc r /\ qsrc r' = qsrc r /\
               (qst r' = qst r \/ qst r' = QFinished) /\
               GPost inp ffuel st a l off r' (vr v).
Proof.
  intros B Ha Hby Hln Hb Hc Hd He H1 H2 H3 Hcase.
  pose proof B as ((W & Eo & Pol & Cap) & Sk).
  pose proof (qwin_len _ _ _ _ W) as Hl. pose proof (qw_off _ _ _ _ W) as Ho.
  pose proof (qw_pos _ _ _ _ W) as Hp.
  pose proof (abs_line_cut _ _ _ H1) as (L1 & _ & _).
  pose proof (abs_line_cut _ _ _ H2) as (L2 & _ & _).
  pose proof (abs_line_cut _ _ _ H3) as (L3 & L3' & _).
  assert (HA : Anch inp ffuel r off a l) by (unfold Anch; splits; assumption).
  assert (Hspec :
    fq_parse (skipn a inp) l a =
      sverdict (hd LF (skipn a inp)) (hd LF (skipn c inp))
               (window inp a (b - 1)) (window inp b (c - 1)) (window inp d e') l a
               (fq_parse (skipn (e' + 1) inp) (l + 4) (e' + 1)) /\
    d <= e' /\ e' <= s_pos (qsrc r) /\
    ((qst r = st /\ p1 r + 1 <= length (qbuf r)) \/
     (qst r = QFinished /\ p1 r = length (qbuf r) /\ s_pos (qsrc r) = length inp))).
  { destruct Hcase as [(e & H4 & Hee & Hes & Hst)|(H4 & Hee & Hes & Hst)].
    - pose proof (abs_line_cut _ _ _ H4) as (L4 & _ & _).
      splits; try lia.
      + rewrite (parse_four_term inp a b c d e l H1 H2 H3 H4).
        replace (e - 1) with e' by lia. replace (e' + 1) with e by lia. reflexivity.
      + left. split; [exact Hst | lia].
    - splits; try lia.
      + rewrite (parse_four_last inp a b c d l H1 H2 H3 H4). rewrite Hee.
        rewrite (window_to_end inp d (length inp)) by lia.
        rewrite (skipn_all2 inp (n := length inp + 1)) by lia. rewrite fq_parse_nil. reflexivity.
      + right. splits; auto. lia. }
  destruct Hspec as (Hspec & Hde & Hes & Hfin).
  rewrite (validate_spec inp ffuel r off a b c d e' W Ha Hb Hc Hd He H1 H2 H3 Hde Hes).
  unfold mverdict. unfold sverdict in Hspec.
  destruct (negb (hd LF (skipn a inp) =? AT)) eqn:E1.
  { eexists _, _. split; [reflexivity|]. split; [reflexivity|]. split; [reflexivity|].
    split; [right; reflexivity|]. cbn [vr].
    rewrite Hln.
    apply (GP_err inp ffuel st a l off _ (EInvalidStart (hd LF (skipn a inp)) l)); auto.
    apply Anch_st; exact HA. }
  destruct (negb (hd LF (skipn c inp) =? PLUS)) eqn:E2.
  { eexists _, _. split; [reflexivity|]. split; [reflexivity|]. split; [reflexivity|].
    split; [right; reflexivity|]. cbn [vr].
    rewrite Hln.
    apply (GP_err inp ffuel st a l off _
             (EInvalidSep (hd LF (skipn c inp)) (l + 2) (err_id (window inp a (b - 1))))); auto.
    apply Anch_st; exact HA. }
  destruct (length (trim_cr (window inp b (c - 1))) =? length (trim_cr (window inp d e'))) eqn:E3.
  - eexists _, _. split; [reflexivity|]. split; [reflexivity|]. split; [reflexivity|].
    split; [left; reflexivity|]. cbn [vr].
    pose proof (abs_line_first _ _ _ H1 (eqb_AT_not_LF _ E1)) as L0.
    eapply GP_rec; [ | exact HA | | | lia | exact Hfin].
    + rewrite Hspec. replace (p1 r + 1 + off) with (e' + 1) by lia. reflexivity.
    + unfold rec_at_off. cbn [qi_head qi_seq qi_qual qi_line qi_byte].
      destruct (views_spec inp ffuel r off a b c d e' W Ha Hb Hc Hd He H1 H2 H3 Hde Hes
                  (eqb_AT_not_LF _ E1)) as (V1 & V2 & V3).
      splits; auto.
      * unfold FqRecWf, fq_cur. cbn [qrbuf r0 r1 rseq rsep rqual]. lia.
      * exists (s_pos (qsrc r)). cbn [fq_cur qrbuf]. splits; [apply (qw_buf _ _ _ _ W) | lia | lia].
    + reflexivity.
  - eexists _, _. split; [reflexivity|]. split; [reflexivity|]. split; [reflexivity|].
    split; [right; reflexivity|]. cbn [vr].
    rewrite Hln.
    apply (GP_err inp ffuel st a l off _
             (EUnequal (length (trim_cr (window inp b (c - 1)))) (length (trim_cr (window inp d e'))) l
                       (err_id (window inp a (b - 1))))); auto.
    apply Anch_st; exact HA.
Qed.

(* ------------------------------------------------------------------ *)
(** ** check_end: the end of the input inside a group *)

Lemma gcheck_end_post inp ffuel st r off a l s :
  QB inp ffuel r off -> s_pos (qsrc r) = length inp -> SInv inp r off s ->
  find_lf (skipn (sstart s r) (qbuf r)) = None ->
  p0 r + off = a -> qbyte r = a -> qline r = l -> qst r = QFinished ->
  exists r' rr, fq_check_end s r = (r', rr) /\ qsrc r' = qsrc r /\ inc r' = inc r /\
                qst r' = QFinished /\ GPost inp ffuel st a l off r' rr.
Proof.
  intros B Heof HS Hno Ha Hby Hln Hst.
  pose proof B as ((W & Eo & Pol & Cap) & Sk).
  pose proof (qwin_len _ _ _ _ W) as Hl. pose proof (qw_off _ _ _ _ W) as Ho.
  pose proof (SInv_start _ _ _ _ HS) as [Hs1 Hs2].
  pose proof (no_lf_eof inp ffuel r off _ W Hs2 Heof Hno) as Hnone.
  assert (HA : Anch inp ffuel r off a l) by (unfold Anch; splits; assumption).
  assert (Hrest : skipn (p0 r) (qbuf r) = skipn a inp).
  { rewrite (skipn_qbuf _ _ _ _ _ W) by lia. rewrite Heof, window_to_end by lia. f_equal. exact Ha. }
  assert (Hblank : forall rr0 k id,
    fq_parse (skipn a inp) l a = end_items (skipn a inp) k id l a ->
    fq_error_pos r (stage_num s) (negb (stage_leb s Head)) = Some (l + k, id) ->
    rr0 = (if length (qbuf r) <? p0 r then (r, QrPanic 41)
           else
             if forallb (fun x => match trim_cr x with [] => true | _ => false end)
                        (pieces (skipn (p0 r) (qbuf r)))
             then (r, QrOk false)
             else match fq_error_pos r (stage_num s) (negb (stage_leb s Head)) with
                  | Some (l0, id0) => (r, QrErr (FqUnexpectedEnd l0 id0))
                  | None => (r, QrPanic 42)
                  end) ->
    exists r' rr, rr0 = (r', rr) /\ qsrc r' = qsrc r /\ inc r' = inc r /\
                  qst r' = QFinished /\ GPost inp ffuel st a l off r' rr).
  { intros rr0 k id Hsp Hep ->.
    assert ((length (qbuf r) <? p0 r) = false) as -> by (apply Nat.ltb_ge; lia).
    rewrite Hrest, Hep. unfold end_items in Hsp.
    change (forallb (fun x => match trim_cr x with [] => true | _ => false end) (pieces (skipn a inp)))
      with (forallb blank (pieces (skipn a inp))).
    destruct (forallb blank (pieces (skipn a inp))).
    - eexists _, _. split; [reflexivity|]. split; [reflexivity|]. split; [reflexivity|].
      split; [exact Hst|]. apply GP_none; auto.
    - eexists _, _. split; [reflexivity|]. split; [reflexivity|]. split; [reflexivity|].
      split; [exact Hst|]. apply (GP_err inp ffuel st a l off r (EUnexpectedEnd (l + k) id)); auto. }
  destruct s; cbn [SInv sstart] in *.
  - (* Head *)
    eapply (Hblank _ 0 None); [| |reflexivity].
    + apply parse_eof_head. rewrite <- Ha. exact Hnone.
    + cbn [stage_num stage_leb Nat.leb negb]. rewrite error_pos_noid, Hln. reflexivity.
  - (* Seq *)
    destruct HS as (H1 & Hle).
    eapply (Hblank _ 1 (err_id (window inp a (pseq r + off - 1)))); [| |reflexivity].
    + apply parse_eof_seq; [rewrite <- Ha; exact H1 | exact Hnone].
    + cbn [stage_num stage_leb Nat.leb negb].
      rewrite (error_pos_id inp ffuel r off 1 a (pseq r + off) W Ha eq_refl Hle) by (rewrite <- Ha; exact H1).
      rewrite Hln. reflexivity.
  - (* Sep *)
    destruct HS as (H1 & H2 & Hle). pose proof (abs_line_cut _ _ _ H2) as (L2 & _ & _).
    eapply (Hblank _ 2 (err_id (window inp a (pseq r + off - 1)))); [| |reflexivity].
    + eapply parse_eof_sep; [rewrite <- Ha; exact H1 | exact H2 | exact Hnone].
    + cbn [stage_num stage_leb Nat.leb negb].
      rewrite (error_pos_id inp ffuel r off 2 a (pseq r + off) W Ha eq_refl) by (try lia; rewrite <- Ha; exact H1).
      rewrite Hln. reflexivity.
  - (* Qual: the fourth line runs to the end of the input *)
    destruct HS as (H1 & H2 & H3 & Hle). cbn [fq_check_end].
    set (rv := qset_p1 r (length (qbuf r))).
    assert (Bv : QB inp ffuel rv off) by (eapply QB_ext; [| | | |exact B]; reflexivity).
    destruct (gvalidate_post inp ffuel st rv off a l (pseq r + off) (psep r + off) (pqual r + off)
                (length (qbuf r) + off) Bv) as (r' & v & Hv & Hiv & Hsv & Hstv & HP);
      try reflexivity; try assumption; try (rewrite <- Ha; assumption).
    { right. unfold rv; cbn [qsrc qst qset_p1]. splits; auto. lia. }
    assert (Hf' : qst r' = QFinished).
    { destruct Hstv as [E|E]; [rewrite E; unfold rv; cbn [qst qset_p1]; exact Hst | exact E]. }
    rewrite Hv. destruct v; eexists _, _; (split; [reflexivity|]);
      (split; [exact Hsv|]); (split; [exact Hiv|]); (split; [exact Hf'|]); exact HP.
Qed.

(* ------------------------------------------------------------------ *)
(** ** resume_incomplete_search *)

(** [off'] is the window offset afterwards: unchanged when making room is not
    allowed; the source only advances *)
Lemma gresume_spec inp ffuel st a l mk : forall fuel r off s,
  QB inp ffuel r off -> SInv inp r off s ->
  find_lf (skipn (sstart s r) (qbuf r)) = None ->
  p0 r + off = a -> qbyte r = a -> qline r = l -> qst r = st ->
  (length inp - s_pos (qsrc r)) + (if length (qbuf r) <? qcap r then 0 else 1) < fuel ->
  exists r' rr off', fq_resume fuel ffuel s mk r = (r', rr) /\ GPost inp ffuel st a l off' r' rr /\
    (mk = false -> off' = off) /\ s_pos (qsrc r) <= s_pos (qsrc r') /\
    (qst r' = st -> st <> QFinished -> inc r' = None).
Proof.
  induction fuel as [|f IH]; intros r off s B HS Hno Ha Hby Hln Hst Hfuel; [lia|].
  cbn [fq_resume].
  pose proof B as ((W & Eo & Pol & Cap) & Sk).
  pose proof (qwin_len _ _ _ _ W) as Hl. pose proof (qw_off _ _ _ _ W) as Ho.
  pose proof (qw_pos _ _ _ _ W) as Hp. pose proof (qw_cap _ _ _ _ W) as Hc.
  pose proof (SInv_start _ _ _ _ HS) as [Hs1 Hs2].
  destruct (length (qbuf r) <? qcap r) eqn:Efull; [apply Nat.ltb_lt in Efull | apply Nat.ltb_ge in Efull].
  { (* the buffer is not full: the input has ended *)
    destruct (gcheck_end_post inp ffuel st (qset_st r QFinished) off a l s)
      as (r' & rr & Hce & Hsrc & Hinc & Hfin & HP); auto.
    { eapply QB_ext; [| | | |exact B]; reflexivity. }
    exists r', rr, off. split; [exact Hce|]. split; [exact HP|]. split; [reflexivity|].
    split; [rewrite Hsrc; cbn [qsrc qset_st]; lia|].
    intros Hst' Hnf. exfalso. congruence. }
  (* make room or grow *)
  assert (Hstep : exists r1 off1,
    (if negb mk || (p0 r =? 0) then fq_grow r else fq_make_room s r) = (r1, QGOk) /\
    QWin inp ffuel r1 off1 /\ qsrc r1 = qsrc r /\ length (qbuf r1) < qcap r1 /\
    PolOk1 (qpolf r1) /\ SInv inp r1 off1 s /\
    p0 r1 + off1 = a /\ qbyte r1 = a /\ qline r1 = l /\ qst r1 = st /\ (mk = false -> off1 = off)).
  { destruct (negb mk || (p0 r =? 0)) eqn:Eb.
    - destruct (fq_grow_ok r Pol ltac:(lia) Cap) as (n & Hn & _ & ->).
      eexists _, off. split; [reflexivity|].
      cbn [qbuf qsrc qcap p0 qbyte qline qst qpolf qset_cap qset_log qset_pol].
      split; [destruct W as [W1 W2 W3 W4 W5 W6 W7]; constructor;
              cbn [qbuf qsrc qcap qset_cap qset_log qset_pol]; auto; lia|].
      splits; auto; try lia.
    - apply orb_false_iff in Eb. destruct Eb as [Emk E0]. apply Nat.eqb_neq in E0.
      destruct (fq_make_room_ok inp r off s HS) as
        (r1 & -> & Eb1 & Ep1 & Ec1 & Es1 & El1 & Ey1 & Et1 & Ef1 & _ & _ & _ & HS1).
      exists r1, (off + p0 r). split; [reflexivity|].
      assert (Hlen1 : length (qbuf r1) = length (qbuf r) - p0 r) by (rewrite Eb1, skipn_length; reflexivity).
      split.
      { constructor; rewrite ?Es1, ?Ec1, ?Hlen1; try apply W; try lia.
        rewrite Eb1, (skipn_qbuf _ _ _ _ _ W) by lia. f_equal. lia. }
      splits; auto; try lia; try congruence.
      + rewrite Ef1. exact Pol.
      + intros ->. discriminate Emk. }
  destruct Hstep as (r1 & off1 & -> & W1 & Hsrc1 & Hroom & Pol1 & HS1 & Ha1 & Hby1 & Hln1 & Hst1 & Hoff1).
  destruct (fq_fill_ok _ _ _ _ W1) as (s' & lg' & Hfill & Hps' & Hds' & Hnf' & Hfu' & Hss' & _ & Hle').
  cbv zeta in Hfill. rewrite Hfill.
  set (e' := Nat.min (off1 + qcap r1) (length inp)) in *.
  set (r2 := qset_log (qset_src (qset_buf r1 (window inp off1 e')) s') lg').
  pose proof (qwin_len _ _ _ _ W1) as Hl1. pose proof (qw_off _ _ _ _ W1) as Ho1.
  pose proof (qw_pos _ _ _ _ W1) as Hp1.
  assert (Hwl : length (window inp off1 e') = e' - off1) by (apply window_length; unfold e'; lia).
  assert (W2 : QWin inp ffuel r2 off1).
  { constructor; unfold r2; cbn [qbuf qsrc qcap qset_log qset_src qset_buf];
      rewrite ?Hps', ?Hwl; auto; try (unfold e'; lia). }
  assert (B2 : QB inp ffuel r2 off1).
  { split; [split; [exact W2|]; splits|].
    - unfold QEof, r2; cbn [qbuf qsrc qcap qset_log qset_src qset_buf]. rewrite Hwl, Hps'. unfold e'. lia.
    - exact Pol1.
    - unfold r2; cbn [qcap qset_log qset_src qset_buf]. lia.
    - unfold no_sfail, r2; cbn [qsrc qset_log qset_src qset_buf]. rewrite Hss', Hsrc1. exact Sk. }
  assert (HS2 : SInv inp r2 off1 s).
  { eapply SInv_mono; [| | | | |exact HS1]; try reflexivity.
    unfold r2; cbn [qbuf qset_log qset_src qset_buf]. rewrite Hwl. lia. }
  assert (Hsp2 : s_pos (qsrc r) <= s_pos (qsrc r2)).
  { unfold r2; cbn [qsrc qset_log qset_src qset_buf]. rewrite Hps', <- Hsrc1. exact Hle'. }
  pose proof (search_spec inp ffuel off1 true s r2 W2 HS2) as Hsearch.
  destruct Hsearch as [(s3 & r3 & HX & Hb3 & HS3 & Hno3 & Hinc3)|(r3 & e & HX & Hb3 & Hinc3 & HS3 & H4 & He & Hle3)].
  - (* still incomplete: go round again *)
    rewrite HX.
    pose proof Hb3 as (E1 & E2 & E3 & E4 & E5 & E6 & E7 & E8 & _).
    destruct (IH r3 off1 s3) as (r' & rr & off' & Hres & HP & Hoff' & Hsp' & Hinc'); auto.
    + eapply QB_same; eassumption.
    + rewrite E4. exact Ha1.
    + rewrite E6. exact Hby1.
    + rewrite E5. exact Hln1.
    + rewrite E7. exact Hst1.
    + rewrite E1, E2, E3. unfold r2; cbn [qbuf qsrc qcap qset_log qset_src qset_buf].
      rewrite Hwl, Hps'. rewrite Hsrc1 in *.
      destruct (e' - off1 <? qcap r1) eqn:E9; [apply Nat.ltb_lt in E9 | apply Nat.ltb_ge in E9];
        unfold e' in *; lia.
    + exists r', rr, off'. splits; auto.
      * intros Hm. rewrite (Hoff' Hm). apply Hoff1. exact Hm.
      * rewrite E3 in Hsp'. lia.
  - (* four lines found *)
    pose proof Hb3 as (E1 & E2 & E3 & E4 & E5 & E6 & E7 & E8 & _).
    destruct HS3 as (L1 & L2 & L3 & Hq).
    assert (F4 : p0 r3 + off1 = a) by (rewrite E4; exact Ha1).
    assert (F6 : qbyte r3 = a) by (rewrite E6; exact Hby1).
    assert (F5 : qline r3 = l) by (rewrite E5; exact Hln1).
    assert (F7 : qst r3 = st) by (rewrite E7; exact Hst1).
    set (rv := qset_inc r3 None) in *.
    assert (Bv : QB inp ffuel rv off1).
    { eapply QB_ext; [| | | |eapply QB_same; [exact Hb3|exact B2]]; reflexivity. }
    destruct (gvalidate_post inp ffuel st rv off1 a l (pseq r3 + off1) (psep r3 + off1) (pqual r3 + off1)
                (p1 r3 + off1) Bv) as (r' & v & Hv & Hiv & Hsv & _ & HP);
      try reflexivity; unfold rv; cbn [p0 qbyte qline qset_inc]; try assumption;
      try (rewrite <- F4; assumption).
    { left. exists e. cbn [qsrc qst inc qset_inc]. splits; auto; try lia; try congruence.
      rewrite E3. unfold r2; cbn [qsrc qset_log qset_src qset_buf].
      rewrite E1 in Hle3. unfold r2 in Hle3; cbn [qbuf qset_log qset_src qset_buf] in Hle3.
      rewrite Hwl in Hle3. lia. }
    rewrite HX. fold rv. rewrite Hv.
    exists r', (vr v), off1.
    split; [destruct v; reflexivity|]. split; [exact HP|]. split; [exact Hoff1|].
    split; [rewrite Hsv; unfold rv; cbn [qsrc qset_inc]; rewrite E3; exact Hsp2|].
    intros _ _. rewrite Hiv. reflexivity.
Qed.

(* ------------------------------------------------------------------ *)
(** ** the search from the start of a group *)

Lemma gsearch_spec inp ffuel st r off a l :
  QB inp ffuel r off -> p0 r + off = a -> qbyte r = a -> qline r = l ->
  p0 r <= length (qbuf r) -> qst r = st ->
  (exists s3 r3, fq_search_from Head false r = (r3, QsIncomplete s3) /\ same_base r r3 /\
      SInv inp r3 off s3 /\ find_lf (skipn (sstart s3 r3) (qbuf r3)) = None /\ inc r3 = Some s3)
  \/ (exists r' v, fq_search_from Head false r = of_vres (r', v) /\ inc r' = inc r /\
        qsrc r' = qsrc r /\ qbuf r' = qbuf r /\ GPost inp ffuel st a l off r' (vr v)).
Proof.
  intros B Ha Hby Hln Hle Hst. pose proof B as ((W & Eo & Pol & Cap) & Sk).
  destruct (search_spec inp ffuel off false Head r W Hle)
    as [(s3 & r3 & HX & Hb3 & HS3 & Hno3 & Hinc3)|(r3 & e & HX & Hb3 & Hinc3 & HS3 & H4 & He & Hle3)].
  - left. exists s3, r3. splits; assumption.
  - right.
    pose proof Hb3 as (E1 & E2 & E3 & E4 & E5 & E6 & E7 & E8 & _).
    destruct HS3 as (L1 & L2 & L3 & Hq).
    assert (F4 : p0 r3 + off = a) by (rewrite E4; exact Ha).
    assert (F6 : qbyte r3 = a) by (rewrite E6; exact Hby).
    assert (F5 : qline r3 = l) by (rewrite E5; exact Hln).
    assert (F7 : qst r3 = st) by (rewrite E7; exact Hst).
    assert (B3 : QB inp ffuel r3 off) by (eapply QB_same; eassumption).
    destruct (gvalidate_post inp ffuel st r3 off a l (pseq r3 + off) (psep r3 + off) (pqual r3 + off)
                (p1 r3 + off) B3) as (r' & v & Hv & Hiv & Hsv & _ & HP);
      try reflexivity; try assumption; try (rewrite <- F4; assumption).
    { left. exists e. splits; auto; try lia.
      pose proof (qwin_len _ _ _ _ (proj1 (proj1 B3))). pose proof (qw_off _ _ _ _ (proj1 (proj1 B3))). lia. }
    exists r', v. cbv iota in HX. rewrite HX, Hv. splits; auto; try congruence.
    pose proof (fq_validate_buf r3) as [Hvb _]. rewrite Hv in Hvb. cbn [fst] in Hvb. congruence.
Qed.

(* ------------------------------------------------------------------ *)
(** * Part B.  The invariant between calls and the set loop *)

(** [items]: the items still to be delivered; [off]: the window offset *)
Inductive HQo (inp : list byte) (ffuel : nat) (r : fq) (off : nat) (items : list fq_sitem) : Prop :=
| HQ_new :
    qst r = QNew -> off = 0 -> QWin inp ffuel r 0 -> no_sfail (qsrc r) -> s_pos (qsrc r) = 0 ->
    p0 r = 0 -> inc r = None -> qline r = 1 -> qbyte r = 0 -> PolOk1 (qpolf r) -> 1 <= qcap r ->
    items = fq_parse inp 1 0 -> HQo inp ffuel r off items
(* a record was returned by [next]: the reader still stands on it *)
| HQ_parsing :
    qst r = QParsing -> QB inp ffuel r off -> inc r = None -> p0 r + off = qbyte r ->
    p0 r <= p1 r -> p1 r + 1 <= length (qbuf r) ->
    items = fq_parse (skipn (p1 r + 1 + off) inp) (qline r + 4) (p1 r + 1 + off) ->
    HQo inp ffuel r off items
(* positioned at the start of a group (after a seek, or after a set read that
   stopped behind a complete record) *)
| HQ_pos0 :
    qst r = QPositioned -> inc r = None -> QB inp ffuel r off -> p0 r + off = qbyte r ->
    p0 r <= length (qbuf r) ->
    items = fq_parse (skipn (qbyte r) inp) (qline r) (qbyte r) ->
    HQo inp ffuel r off items
(* positioned in the middle of a group: the search for the line of stage [s]
   found no LF in the buffer *)
| HQ_pos1 s :
    qst r = QPositioned -> inc r = Some s -> QB inp ffuel r off -> p0 r + off = qbyte r ->
    SInv inp r off s -> find_lf (skipn (sstart s r) (qbuf r)) = None ->
    items = fq_parse (skipn (qbyte r) inp) (qline r) (qbyte r) ->
    HQo inp ffuel r off items
| HQ_fin :
    qst r = QFinished -> QB inp ffuel r off -> p0 r + off = qbyte r -> items = [] ->
    HQo inp ffuel r off items.

Definition HQ (inp : list byte) (ffuel : nat) (r : fq) (items : list fq_sitem) : Prop :=
  exists off, HQo inp ffuel r off items.

(** ** views of stored positions survive an extension of the window *)

Lemma rec_at_off_ext inp off e e' bp i : e <= e' -> e' <= length inp -> off <= e ->
  rec_at_off inp off (rec_of (window inp off e) bp) i ->
  rec_at_off inp off (rec_of (window inp off e') bp) i.
Proof.
  intros H1 H2 H3. destruct bp as [[[[x0 x1] xs] xp] xq].
  unfold rec_at_off, rec_of. cbn [qrbuf r0].
  intros (Hh & Hs & Hq & Hwf & Hb & _).
  unfold FqRecWf in *. cbn [qrbuf r0 r1 rseq rsep rqual] in *.
  rewrite window_length in Hwf by lia.
  unfold fq_head, fq_seq, fq_qual, bp_head, bp_seq, bp_qual in *.
  cbn [qrbuf r0 r1 rseq rsep rqual] in *.
  rewrite (slice_window_eq inp off e) in Hh, Hs, Hq by lia.
  rewrite !(slice_window_eq inp off e') by lia.
  rewrite window_length by lia.
  splits; auto; try lia. exists e'. splits; auto; lia.
Qed.

Definition set_views (inp : list byte) (off : nat) (b : list byte)
           (ps : list (nat * nat * nat * nat * nat)) (recs : list fq_item) : Prop :=
  Forall2 (fun bp i => rec_at_off inp off (rec_of b bp) i) ps recs.

Lemma set_views_ext inp off e e' ps recs : e <= e' -> e' <= length inp -> off <= e ->
  set_views inp off (window inp off e) ps recs -> set_views inp off (window inp off e') ps recs.
Proof.
  intros H1 H2 H3 H. unfold set_views in *.
  induction H as [|bp i ps recs Hx _ IH]; constructor; [|exact IH].
  eapply rec_at_off_ext; eassumption.
Qed.

(** from one reader state to a later one with the same window offset *)
Lemma set_views_later inp ffuel off r r' ps recs :
  QB inp ffuel r off -> QB inp ffuel r' off -> s_pos (qsrc r) <= s_pos (qsrc r') ->
  set_views inp off (qbuf r) ps recs -> set_views inp off (qbuf r') ps recs.
Proof.
  intros ((W & _) & _) ((W' & _) & _) Hle H.
  rewrite (qw_buf _ _ _ _ W) in H. rewrite (qw_buf _ _ _ _ W').
  eapply set_views_ext; [exact Hle | apply (qw_pos _ _ _ _ W') | apply (qw_off _ _ _ _ W) | exact H].
Qed.

Lemma set_views_len inp off b ps recs : set_views inp off b ps recs -> length ps = length recs.
Proof. intros H. induction H as [|x y l l' _ _ IH]; cbn [length]; [reflexivity | rewrite IH; reflexivity]. Qed.

(* ------------------------------------------------------------------ *)
(** ** the loop of read_record_set_exact *)

Notation bpt := (nat * nat * nat * nat * nat)%type.

(** the continuation of the loop once a record has been found *)
Definition set_found (f rfuel ffuel : nat) (n : option nat) (is_new : bool) (ps : list bpt) (r : fq)
  : fq * list bpt * qlres :=
  let ps := ps ++ [fq_bp r] in
  match fq_increment r with
  | None => (r, ps, QLPanic 3)
  | Some r => if reached n (length ps) then (r, ps, QLDone)
              else fq_set_loop f rfuel ffuel n is_new r ps
  end.

Lemma set_loop_S f rfuel ffuel n is_new r ps :
  fq_set_loop (S f) rfuel ffuel n is_new r ps =
  if fq_state_eqb (qst r) QFinished then (r, ps, QLDone)
  else match inc r with
       | Some s =>
           let '(r1, rr) := fq_resume rfuel ffuel s is_new (qset_inc r None) in
           match rr with
           | QrErr e => (r1, ps, QLErr e)
           | QrPanic x => (r1, ps, QLPanic x)
           | QrFuel => (r1, ps, QLFuel)
           | QrOk false => match ps with [] => (r1, ps, QLNone) | _ => (r1, ps, QLDone) end
           | QrOk true => set_found f rfuel ffuel n is_new ps r1
           end
       | None =>
           match fq_search_from Head false r with
           | (r1, QsErr e) => (r1, ps, QLErr e)
           | (r1, QsPanic x) => (r1, ps, QLPanic x)
           | (r1, QsRec) => set_found f rfuel ffuel n is_new ps r1
           | (r1, QsIncomplete _) =>
               match ps with
               | [] => fq_set_loop f rfuel ffuel n is_new r1 ps
               | _ => if below n (length ps) then fq_set_loop f rfuel ffuel n false r1 ps
                      else (r1, ps, QLDone)
               end
           end
       end.
Proof. reflexivity. Qed.

(** an exact count not yet reached *)
Definition n_room (n : option nat) (k : nat) : Prop :=
  match n with Some nn => k < nn | None => True end.

(** result of the loop; [all] is the stream from the reader's position at the
    start of the call *)
Inductive SetRes (inp : list byte) (ffuel : nat) (n : option nat) (all : list fq_sitem)
          (r1 : fq) (ps1 : list bpt) : qlres -> Prop :=
| SR_done off1 recs1 items1 :
    all = map QRec recs1 ++ items1 -> set_views inp off1 (qbuf r1) ps1 recs1 ->
    HQo inp ffuel r1 off1 items1 -> (qst r1 = QPositioned \/ qst r1 = QFinished) -> ps1 <> [] ->
    (forall nn, n = Some nn -> length ps1 <= nn /\ (length ps1 < nn -> items1 = [])) ->
    SetRes inp ffuel n all r1 ps1 QLDone
| SR_err off1 recs1 e l a :
    all = map QRec recs1 ++ [QErr e l a] -> HQo inp ffuel r1 off1 [] -> qst r1 = QFinished ->
    qline r1 = l -> qbyte r1 = a -> n_room n (length recs1) ->
    SetRes inp ffuel n all r1 ps1 (QLErr (fq_err_of e))
| SR_none off1 :
    all = [] -> HQo inp ffuel r1 off1 [] -> qst r1 = QFinished -> ps1 = [] ->
    SetRes inp ffuel n all r1 ps1 QLNone.

Definition LoopSpec (inp : list byte) (ffuel rfuel : nat) (n : option nat) (all : list fq_sitem)
           (fuel : nat) : Prop :=
  forall is_new r ps off recs items,
  HQo inp ffuel r off items -> (qst r = QPositioned \/ qst r = QFinished) ->
  all = map QRec recs ++ items -> set_views inp off (qbuf r) ps recs ->
  (qst r = QFinished -> ps <> []) ->
  (qst r = QPositioned -> inc r <> None -> ps = [] \/ is_new = false) ->
  n_room n (length ps) ->
  2 * (length inp + 1 - qbyte r) + (match inc r with None => 1 | Some _ => 0 end) < fuel ->
  exists r1 ps1 lr, fq_set_loop fuel rfuel ffuel n is_new r ps = (r1, ps1, lr) /\
                    SetRes inp ffuel n all r1 ps1 lr.

Lemma snoc_not_nil {A} (l : list A) x : l ++ [x] <> [].
Proof. intros E. apply app_eq_nil in E. destruct E as [_ E]. discriminate E. Qed.

Lemma found_spec inp ffuel rfuel n all f : LoopSpec inp ffuel rfuel n all f ->
  forall is_new r' ps off' recs a l,
  GPost inp ffuel QPositioned a l off' r' (QrOk true) ->
  (qst r' = QPositioned -> inc r' = None) ->
  all = map QRec recs ++ fq_parse (skipn a inp) l a ->
  set_views inp off' (qbuf r') ps recs ->
  n_room n (length ps) ->
  2 * (length inp + 1 - a) < S f ->
  exists r1 ps1 lr, set_found f rfuel ffuel n is_new ps r' = (r1, ps1, lr) /\
                    SetRes inp ffuel n all r1 ps1 lr.
Proof.
  intros IH is_new r' ps off' recs a l HP Hinc Hall Hviews Hroom Hfuel.
  inversion HP as [ | |i Hparse HA Hrec Hli Hle Hcase]. clear HP.
  destruct HA as (B' & Ha' & Hby' & Hln').
  pose proof B' as ((W' & _) & _).
  pose proof (qwin_len _ _ _ _ W') as Hl'. pose proof (qw_off _ _ _ _ W') as Ho'.
  pose proof (qw_pos _ _ _ _ W') as Hp'.
  assert (Hab : a + 2 <= length inp).
  { destruct Hrec as (_ & _ & _ & Hwf & _). unfold FqRecWf, fq_cur in Hwf.
    cbn [qrbuf r0 r1 rseq rsep rqual] in Hwf. lia. }
  unfold set_found, fq_increment.
  assert ((p1 r' + 1 <? p0 r') = false) as -> by (apply Nat.ltb_ge; lia).
  set (r2 := qset_p0 (qset_line (qset_byte r' (qbyte r' + (p1 r' + 1 - p0 r'))) (qline r' + 4)) (p1 r' + 1)).
  cbv zeta. set (ps' := ps ++ [fq_bp r']).
  set (items' := fq_parse (skipn (p1 r' + 1 + off') inp) (l + 4) (p1 r' + 1 + off')) in *.
  assert (Hall' : all = map QRec (recs ++ [i]) ++ items').
  { rewrite Hall, Hparse, map_app, <- app_assoc. reflexivity. }
  assert (Hviews' : set_views inp off' (qbuf r2) ps' (recs ++ [i])).
  { change (qbuf r2) with (qbuf r').
    apply Forall2_app; [exact Hviews|]. constructor; [|constructor]. rewrite rec_of_bp. exact Hrec. }
  assert (B2 : QB inp ffuel r2 off') by (eapply QB_ext; [| | | |exact B']; reflexivity).
  assert (Hpb : p0 r2 + off' = qbyte r2).
  { unfold r2. cbn [p0 qbyte qset_p0 qset_line qset_byte]. lia. }
  assert (HQ2 : HQo inp ffuel r2 off' items' /\ (qst r2 = QPositioned \/ qst r2 = QFinished) /\
                (qst r2 = QPositioned -> inc r2 = None)).
  { destruct Hcase as [(Hst' & Hlt)|(Hst' & Hpe & Hse)].
    - split; [|split; [left; exact Hst' | intros _; exact (Hinc Hst')]].
      apply HQ_pos0; [exact Hst' | exact (Hinc Hst') | exact B2 | exact Hpb | |].
      + unfold r2. cbn [p0 qbuf qset_p0 qset_line qset_byte]. exact Hlt.
      + unfold items', r2. cbn [p0 qbyte qline qset_p0 qset_line qset_byte].
        rewrite Hln'. replace (qbyte r' + (p1 r' + 1 - p0 r')) with (p1 r' + 1 + off') by lia.
        reflexivity.
    - split; [|split; [right; exact Hst' | intros E; unfold r2 in E; cbn [qst qset_p0 qset_line qset_byte] in E; congruence]].
      apply HQ_fin; [exact Hst' | exact B2 | exact Hpb |]. unfold items'.
      rewrite (skipn_all2 inp (n := p1 r' + 1 + off')) by lia. apply fq_parse_nil. }
  destruct HQ2 as (HQ2 & Hst2 & Hinc2).
  change (ps ++ [fq_bp r']) with ps'.
  match goal with |- context [if ?c then _ else _] => destruct c eqn:Er end.
  - eexists _, _, _. split; [reflexivity|].
    eapply SR_done; [exact Hall' | exact Hviews' | exact HQ2 | exact Hst2 | apply snoc_not_nil|].
    intros nn ->. cbn [reached] in Er. apply Nat.eqb_eq in Er. split; lia.
  - apply (IH is_new r2 ps' off' (recs ++ [i]) items'); auto.
    + intros _. apply snoc_not_nil.
    + intros E1 E2. exfalso. apply E2. exact (Hinc2 E1).
    + unfold ps'. rewrite app_length. cbn [length].
      destruct n as [nn|]; cbn [n_room reached] in *; [|exact I].
      apply Nat.eqb_neq in Er. unfold ps' in Er. rewrite app_length in Er. cbn [length] in Er. lia.
    + assert (Hq2 : qbyte r2 = p1 r' + 1 + off').
      { unfold r2. cbn [qbyte qset_p0 qset_line qset_byte]. lia. }
      rewrite Hq2. destruct (inc r2); lia.
Qed.

Lemma sstart_inc s r v : sstart s (qset_inc r v) = sstart s r.
Proof. destruct s; reflexivity. Qed.

Lemma HQo_QB inp ffuel r off items : HQo inp ffuel r off items -> qst r <> QNew ->
  QB inp ffuel r off /\ p0 r + off = qbyte r.
Proof. intros [ | | | | ] Hn; try contradiction; split; assumption. Qed.

Lemma set_loop_spec inp ffuel rfuel n all : length inp + 2 <= rfuel ->
  forall fuel, LoopSpec inp ffuel rfuel n all fuel.
Proof.
  intros Hrf. induction fuel as [|f IH]; intros is_new r ps off recs items HQ Hst Hall Hviews Hfps Hnew Hroom Hfuel;
    [lia|].
  rewrite set_loop_S.
  destruct HQ as [Hq|Hq|Hq Hinc B Hpb Hle Hit|s Hq Hinc B Hpb HS Hno Hit|Hq B Hpb Hit];
    try (destruct Hst; congruence).
  - (* at the start of a group: search *)
    rewrite Hq. cbn [fq_state_eqb]. rewrite Hinc. rewrite Hinc in Hfuel.
    destruct (gsearch_spec inp ffuel QPositioned r off (qbyte r) (qline r) B Hpb eq_refl eq_refl Hle Hq)
      as [(s3 & r3 & HX & Hb3 & HS3 & Hno3 & Hinc3)|(r' & v & HX & Hiv & Hsv & Hbv & HP)].
    + (* the group is incomplete *)
      rewrite HX.
      pose proof Hb3 as (E1 & E2 & E3 & E4 & E5 & E6 & E7 & E8 & _).
      assert (HQ3 : HQo inp ffuel r3 off items).
      { apply (HQ_pos1 inp ffuel r3 off items s3);
          [congruence | exact Hinc3 | eapply QB_same; eassumption | congruence | exact HS3 | exact Hno3
          | rewrite E6, E5; exact Hit]. }
      assert (Hv3 : set_views inp off (qbuf r3) ps recs) by (rewrite E1; exact Hviews).
      assert (Hst3 : qst r3 = QPositioned) by congruence.
      assert (Hfu3 : 2 * (length inp + 1 - qbyte r3) + match inc r3 with None => 1 | Some _ => 0 end < f).
      { rewrite E6, Hinc3. lia. }
      destruct ps as [|bp ps0] eqn:Eps.
      * apply (IH is_new r3 [] off recs items); auto.
        intros E; congruence.
      * destruct (below n (length (bp :: ps0))) eqn:Ebl.
        -- apply (IH false r3 (bp :: ps0) off recs items); auto.
           intros E; congruence.
        -- eexists _, _, _. split; [reflexivity|].
           eapply SR_done; [exact Hall | exact Hv3 | exact HQ3 | left; exact Hst3 | discriminate|].
           intros nn ->. cbn [below n_room] in *. apply Nat.ltb_ge in Ebl. lia.
    + (* four lines found: validated *)
      rewrite HX. rewrite Hit in Hall.
      destruct v as [|e|x]; cbn [of_vres vr] in *.
      * apply (found_spec inp ffuel rfuel n all f IH is_new r' ps off recs (qbyte r) (qline r)); auto.
        -- intros _. congruence.
        -- rewrite Hbv. exact Hviews.
        -- lia.
      * inversion HP as [ |e0 Hparse Hf0 HA He0| ]. subst e.
        destruct HA as (B' & Ha' & Hby' & Hln').
        eexists _, _, _. split; [reflexivity|].
        eapply (SR_err inp ffuel n all r' ps off recs e0); eauto.
        -- rewrite Hall, Hparse. reflexivity.
        -- apply HQ_fin; auto. congruence.
        -- rewrite <- (set_views_len _ _ _ _ _ Hviews). exact Hroom.
      * inversion HP.
  - (* in the middle of a group: resume *)
    rewrite Hq. cbn [fq_state_eqb]. rewrite Hinc. rewrite Hinc in Hfuel.
    assert (B0 : QB inp ffuel (qset_inc r None) off) by (eapply QB_ext; [| | | |exact B]; reflexivity).
    assert (HS0 : SInv inp (qset_inc r None) off s).
    { eapply SInv_mono; [| | | | |exact HS]; try reflexivity; apply Nat.le_refl. }
    pose proof B as ((W & _) & _).
    destruct (gresume_spec inp ffuel QPositioned (qbyte r) (qline r) is_new rfuel (qset_inc r None) off s
                B0 HS0) as (r' & rr & off' & Hres & HP & Hoff' & Hsp' & Hinc');
      try reflexivity; try assumption.
    { cbn [qsrc qbuf qcap qset_inc]. pose proof (qw_pos _ _ _ _ W).
      destruct (length (qbuf r) <? qcap r); lia. }
    rewrite Hres. cbn [qsrc qset_inc] in Hsp'.
    rewrite Hit in Hall.
    (* the positions collected so far stay valid: the window was not moved *)
    assert (Hkeep : forall B', QB inp ffuel r' off' -> B' = tt -> set_views inp off' (qbuf r') ps recs).
    { intros _ Bq _.
      destruct ps as [|bp ps0].
      - inversion Hviews. constructor.
      - destruct (Hnew Hq ltac:(congruence)) as [E|E]; [discriminate|].
        rewrite (Hoff' E) in *. eapply set_views_later; [exact B | exact Bq | exact Hsp' | exact Hviews]. }
    inversion HP as [Hparse Hf0 HA Hrr|e0 Hparse Hf0 HA Hrr|i Hparse HA Hrec Hli Hle' Hcase Hrr]; subst rr.
    + (* end of input *)
      destruct HA as (B' & Ha' & Hby' & Hln').
      assert (HQf : HQo inp ffuel r' off' []) by (apply HQ_fin; auto; congruence).
      destruct ps as [|bp ps0].
      * eexists _, _, _. split; [reflexivity|].
        apply (SR_none inp ffuel n all r' [] off'); auto.
        rewrite Hall, Hparse. inversion Hviews. reflexivity.
      * eexists _, _, _. split; [reflexivity|].
        eapply (SR_done inp ffuel n all r' (bp :: ps0) off' recs []);
          [rewrite Hall, Hparse; reflexivity | exact (Hkeep tt B' eq_refl) | exact HQf | right; exact Hf0 | discriminate|].
        intros nn ->. cbn [n_room] in Hroom. split; [lia | intros _; reflexivity].
    + (* the group is invalid *)
      destruct HA as (B' & Ha' & Hby' & Hln').
      eexists _, _, _. split; [reflexivity|].
      eapply (SR_err inp ffuel n all r' ps off' recs e0); eauto.
      * rewrite Hall, Hparse. reflexivity.
      * apply HQ_fin; auto. congruence.
      * rewrite <- (set_views_len _ _ _ _ _ Hviews). exact Hroom.
    + (* a record *)
      apply (found_spec inp ffuel rfuel n all f IH is_new r' ps off' recs (qbyte r) (qline r)); auto.
      * intros E. apply Hinc'; [exact E | discriminate].
      * destruct HA as (B' & _). exact (Hkeep tt B' eq_refl).
      * lia.
  - (* finished: the loop ends *)
    rewrite Hq. cbn [fq_state_eqb].
    eexists _, _, _. split; [reflexivity|].
    eapply (SR_done inp ffuel n all r ps off recs items); auto.
    + apply HQ_fin; assumption.
    + intros nn ->. cbn [n_room] in Hroom. split; [lia | intros _; exact Hit].
Qed.

(* ------------------------------------------------------------------ *)
(** * Part C.  [next] and [read_record_set] from any state between calls *)

(** file coordinates of an item: (line, byte) of the first line of its group *)
Definition coords (it : fq_sitem) : nat * nat :=
  match it with QRec i => (qi_line i, qi_byte i) | QErr _ l b => (l, b) end.

(** the first item of a parse carries the coordinates the parse starts at *)
Lemma fq_parse_hd_coords X l b it rest : fq_parse X l b = it :: rest -> coords it = (l, b).
Proof.
  unfold fq_parse. rewrite fq_spec_S. unfold fq_step.
  destruct (cut_line X) as [[h r1]|].
  2:{ destruct (forallb blank (pieces X)); intros H; inversion H. reflexivity. }
  destruct (cut_line r1) as [[s r2]|].
  2:{ destruct (forallb blank (pieces X)); intros H; inversion H. reflexivity. }
  destruct (cut_line r2) as [[p r3]|].
  2:{ destruct (forallb blank (pieces X)); intros H; inversion H. reflexivity. }
  destruct (cut_line r3) as [[q r4]|]; cbv beta iota zeta;
    (destruct (negb (hd LF X =? AT)); [intros H; inversion H; reflexivity|]);
    (destruct (negb (hd LF r2 =? PLUS)); [intros H; inversion H; reflexivity|]);
    (destruct (_ =? _); intros H; inversion H; reflexivity).
Qed.

(** in the positioned states [position()] denotes the next unread item *)
Lemma HQo_position inp ffuel r off it rest :
  HQo inp ffuel r off (it :: rest) -> qst r = QPositioned -> fq_position r = coords it.
Proof.
  intros [Hq|Hq|Hq _ _ _ _ Hit|s Hq _ _ _ _ _ Hit|Hq] Hst; try congruence;
    symmetry in Hit; apply fq_parse_hd_coords in Hit; rewrite Hit; reflexivity.
Qed.

(** ** the first refill *)

(** the fields the refill of [init] does not touch *)
Definition same_pos (r r' : fq) : Prop :=
  qcap r' = qcap r /\ p0 r' = p0 r /\ p1 r' = p1 r /\ pseq r' = pseq r /\ psep r' = psep r /\
  pqual r' = pqual r /\ inc r' = inc r /\ qline r' = qline r /\ qbyte r' = qbyte r /\
  qst r' = qst r /\ qpolf r' = qpolf r /\ qpolh r' = qpolh r.

Lemma init_spec inp ffuel r :
  QWin inp ffuel r 0 -> no_sfail (qsrc r) -> s_pos (qsrc r) = 0 -> PolOk1 (qpolf r) -> 1 <= qcap r ->
  exists r2, QB inp ffuel r2 0 /\ same_pos r r2 /\
    ((inp = [] /\ fq_init ffuel r = (qset_st r2 QFinished, QIOk false)) \/
     (inp <> [] /\ fq_init ffuel r = (r2, QIOk true))).
Proof.
  intros W Sk Hp0 Pol Cap.
  destruct (fq_fill_ok _ _ _ _ W) as (s' & lg' & Hfill & Hps' & Hds' & Hnf' & Hfu' & Hss' & _ & Hle').
  cbv zeta in Hfill. rewrite Hp0, Nat.sub_0_r, Nat.add_0_l in Hfill.
  rewrite Nat.add_0_l in Hps'.
  set (e' := Nat.min (qcap r) (length inp)) in *.
  set (r2 := qset_log (qset_src (qset_buf r (window inp 0 e')) s') lg') in *.
  rewrite (fq_init_fill _ _ _ _ Hfill).
  assert (Hwl : length (window inp 0 e') = e') by (rewrite window_length; unfold e'; lia).
  pose proof (qw_pos _ _ _ _ W) as Hpos. pose proof (qw_cap _ _ _ _ W) as Hcap.
  exists r2.
  assert (W2 : QWin inp ffuel r2 0).
  { constructor; unfold r2; cbn [qbuf qsrc qcap qset_log qset_src qset_buf];
      rewrite ?Hps', ?Hwl; auto; try lia; unfold e'; lia. }
  split.
  { split; [split; [exact W2|]; splits|].
    - unfold QEof, r2; cbn [qbuf qsrc qcap qset_log qset_src qset_buf]. rewrite Hwl, Hps'. unfold e'. lia.
    - exact Pol.
    - exact Cap.
    - unfold no_sfail, r2; cbn [qsrc qset_log qset_src qset_buf]. rewrite Hss'. exact Sk. }
  split; [unfold same_pos, r2; splits; reflexivity|].
  destruct (e' =? 0) eqn:Ee; [apply Nat.eqb_eq in Ee | apply Nat.eqb_neq in Ee].
  - left. split; [|reflexivity]. apply length_zero_iff_nil. unfold e' in Ee. lia.
  - right. split; [|reflexivity]. intros ->. unfold e' in Ee. cbn [length] in Ee. lia.
Qed.

(* ------------------------------------------------------------------ *)
(** ** next *)

(** outcome of [next] against the items still to be delivered *)
Inductive NextOut (inp : list byte) (ffuel : nat) (items : list fq_sitem) (r' : fq) : fq_out -> Prop :=
| NO_rec i rest :
    items = QRec i :: rest -> rec_at inp (fq_cur r') i -> fq_position r' = (qi_line i, qi_byte i) ->
    HQ inp ffuel r' rest -> NextOut inp ffuel items r' (QORec (fq_cur r'))
| NO_err e l a :
    items = [QErr e l a] -> fq_position r' = (l, a) -> HQ inp ffuel r' [] -> qst r' = QFinished ->
    NextOut inp ffuel items r' (QOErr (fq_err_of e))
| NO_none :
    items = [] -> HQ inp ffuel r' [] -> qst r' = QFinished -> NextOut inp ffuel items r' QONone.

(** from the result of the work on a group to the outcome of [next] *)
Lemma GPost_next inp ffuel a l off r' rr :
  GPost inp ffuel QParsing a l off r' rr -> (qst r' = QParsing -> inc r' = None) ->
  NextOut inp ffuel (fq_parse (skipn a inp) l a) r' (qr_out r' rr).
Proof.
  intros HP Hinc.
  inversion HP as [Hparse Hf0 HA Hrr|e0 Hparse Hf0 HA Hrr|i Hparse HA Hrec Hli Hle Hcase Hrr]; subst rr;
    cbn [qr_out]; destruct HA as (B' & Ha' & Hby' & Hln').
  - apply NO_none; auto. exists off. apply HQ_fin; auto. congruence.
  - eapply NO_err; eauto.
    + unfold fq_position. congruence.
    + exists off. apply HQ_fin; auto. congruence.
  - eapply NO_rec; [exact Hparse | exists off; exact Hrec | |].
    + unfold fq_position. destruct Hrec as (_ & _ & _ & _ & Hb & _).
      cbn [fq_cur r0] in Hb. rewrite Hli. f_equal; congruence.
    + exists off. destruct Hcase as [(Hst' & Hlt)|(Hst' & Hpe & Hse)].
      * apply HQ_parsing; auto; try congruence; try (rewrite Hln'; reflexivity).
      * apply HQ_fin; auto; try congruence.
        pose proof B' as ((W' & _) & _).
        pose proof (qwin_len _ _ _ _ W'). pose proof (qw_off _ _ _ _ W').
        rewrite (skipn_all2 inp (n := p1 r' + 1 + off)) by lia. apply fq_parse_nil.
Qed.

Lemma next_tail_unfold fuel ffuel r :
  fq_next_tail fuel ffuel r =
  match inc r with
  | None =>
      match fq_search_from Head false r with
      | (r1, QsErr e) => (r1, QOErr e)
      | (r1, QsPanic x) => (r1, QOPanic x)
      | (r1, _) =>
          match inc r1 with
          | Some s => let '(r2, rr) := fq_resume fuel ffuel s true r1 in (r2, qr_out r2 rr)
          | None => (r1, QORec (fq_cur r1))
          end
      end
  | Some s => let '(r2, rr) := fq_resume fuel ffuel s true r in (r2, qr_out r2 rr)
  end.
Proof.
  unfold fq_next_tail. destruct (inc r) as [s|] eqn:Ei.
  - rewrite Ei. destruct (fq_resume fuel ffuel s true r) as [r2 [[|]|e|x|]]; reflexivity.
  - destruct (fq_search_from Head false r) as [r1 [|s|e|x]]; try reflexivity;
      (destruct (inc r1) as [s'|]; [|reflexivity]);
      destruct (fq_resume fuel ffuel s' true r1) as [r2 [[|]|e|x|]]; reflexivity.
Qed.

(** the part of [next] after the state dispatch, at a group start or with a
    pending search *)
Lemma gtail_spec inp ffuel fuel r off a l :
  QB inp ffuel r off -> p0 r + off = a -> qbyte r = a -> qline r = l -> qst r = QParsing ->
  length inp + 2 <= fuel ->
  ((inc r = None /\ p0 r <= length (qbuf r)) \/
   (exists s, inc r = Some s /\ SInv inp r off s /\ find_lf (skipn (sstart s r) (qbuf r)) = None)) ->
  exists r' o, fq_next_tail fuel ffuel r = (r', o) /\
               NextOut inp ffuel (fq_parse (skipn a inp) l a) r' o.
Proof.
  intros B Ha Hby Hln Hst Hfuel Hcase. rewrite next_tail_unfold.
  pose proof B as ((W & _) & _). pose proof (qw_pos _ _ _ _ W) as Hpos.
  destruct Hcase as [(Hinc & Hle)|(s & Hinc & HS & Hno)]; rewrite Hinc.
  - destruct (gsearch_spec inp ffuel QParsing r off a l B Ha Hby Hln Hle Hst)
      as [(s3 & r3 & HX & Hb3 & HS3 & Hno3 & Hinc3)|(r' & v & HX & Hiv & Hsv & Hbv & HP)].
    + rewrite HX, Hinc3.
      pose proof Hb3 as (E1 & E2 & E3 & E4 & E5 & E6 & E7 & E8 & _).
      destruct (gresume_spec inp ffuel QParsing a l true fuel r3 off s3)
        as (r' & rr & off' & Hres & HP & _ & _ & Hinc'); auto; try congruence.
      { eapply QB_same; eassumption. }
      { rewrite E3. destruct (length (qbuf r3) <? qcap r3); lia. }
      rewrite Hres. eexists _, _. split; [reflexivity|].
      eapply GPost_next; [exact HP|]. intros E. apply Hinc'; [exact E | discriminate].
    + rewrite HX. destruct v as [|e|x]; cbn [of_vres vr] in *.
      * rewrite Hiv, Hinc. eexists _, _. split; [reflexivity|].
        change (QORec (fq_cur r')) with (qr_out r' (QrOk true)).
        eapply GPost_next; [exact HP|]. intros _. congruence.
      * eexists _, _. split; [reflexivity|].
        change (QOErr e) with (qr_out r' (QrErr e)).
        eapply GPost_next; [exact HP|]. intros _. congruence.
      * inversion HP.
  - destruct (gresume_spec inp ffuel QParsing a l true fuel r off s)
      as (r' & rr & off' & Hres & HP & _ & _ & Hinc'); auto.
    { destruct (length (qbuf r) <? qcap r); lia. }
    rewrite Hres. eexists _, _. split; [reflexivity|].
    eapply GPost_next; [exact HP|]. intros E. apply Hinc'; [exact E | discriminate].
Qed.

(** [next] continues the stream from every state between calls *)
Lemma gnext_step inp ffuel fuel r items :
  HQ inp ffuel r items -> length inp + 2 <= fuel ->
  exists r' o, fq_next fuel ffuel r = (r', o) /\ NextOut inp ffuel items r' o.
Proof.
  intros (off & HQ) Hfuel. unfold fq_next.
  destruct HQ as [Hq Hoff W Sk Hp0 H0 Hinc Hln Hby Pol Cap Hit|Hq B Hinc Hpb Hle1 Hle2 Hit
                 |Hq Hinc B Hpb Hle Hit|s Hq Hinc B Hpb HS Hno Hit|Hq B Hpb Hit]; rewrite Hq.
  - (* New *)
    destruct (init_spec inp ffuel r W Sk Hp0 Pol Cap) as (r2 & B2 & Hsame & [(Hnil & ->)|(Hnn & ->)]);
      destruct Hsame as (S1 & S2 & S3 & S4 & S5 & S6 & S7 & S8 & S9 & S10 & S11 & S12).
    + eexists _, _. split; [reflexivity|]. subst items inp. rewrite fq_parse_nil.
      apply NO_none; auto. exists 0. apply HQ_fin; auto.
      * eapply QB_ext; [| | | |exact B2]; reflexivity.
      * cbn [p0 qbyte qset_st]. lia.
    + subst items.
      assert (B2' : QB inp ffuel (qset_st r2 QParsing) 0) by (eapply QB_ext; [| | | |exact B2]; reflexivity).
      destruct (gtail_spec inp ffuel fuel (qset_st r2 QParsing) 0 0 1 B2') as (r' & o & Ht & HN);
        cbn [p0 qbyte qline qbuf inc qst qset_st]; auto; try lia.
      { left. split; [congruence | lia]. }
      exists r', o. split; assumption.
  - (* Parsing: step over the record returned last *)
    rewrite Hinc. unfold fq_increment.
    assert ((p1 r + 1 <? p0 r) = false) as -> by (apply Nat.ltb_ge; lia).
    set (r1 := qset_p0 _ _). subst items.
    assert (B1 : QB inp ffuel r1 off) by (eapply QB_ext; [| | | |exact B]; reflexivity).
    destruct (gtail_spec inp ffuel fuel r1 off (p1 r + 1 + off) (qline r + 4) B1) as (r' & o & Ht & HN);
      unfold r1; cbn [p0 qbyte qline qbuf inc qst qset_p0 qset_line qset_byte]; auto; try lia.
    exists r', o. split; assumption.
  - (* Positioned at a group start *)
    subst items.
    assert (B1 : QB inp ffuel (qset_st r QParsing) off) by (eapply QB_ext; [| | | |exact B]; reflexivity).
    destruct (gtail_spec inp ffuel fuel (qset_st r QParsing) off (qbyte r) (qline r) B1) as (r' & o & Ht & HN);
      cbn [p0 qbyte qline qbuf inc qst qset_st]; auto.
    exists r', o. split; assumption.
  - (* Positioned inside a group *)
    subst items.
    assert (B1 : QB inp ffuel (qset_st r QParsing) off) by (eapply QB_ext; [| | | |exact B]; reflexivity).
    destruct (gtail_spec inp ffuel fuel (qset_st r QParsing) off (qbyte r) (qline r) B1) as (r' & o & Ht & HN);
      cbn [p0 qbyte qline qbuf inc qst qset_st]; auto.
    { right. exists s. splits; auto. }
    exists r', o. split; assumption.
  - subst items. exists r, QONone. split; [reflexivity|].
    apply NO_none; auto. exists off. apply HQ_fin; auto.
Qed.

(* ------------------------------------------------------------------ *)
(** ** read_record_set / read_record_set_exact *)

(** outcome of a set read against the items still to be delivered: a non-empty
    run of records, each a view of a window of the input, and the reader stands
    before the next unread item; or the error of the first invalid group ahead,
    with an EMPTY set; or the end *)
Inductive SetOut (inp : list byte) (ffuel : nat) (n : option nat) (items : list fq_sitem)
          (rs : fq_set) (r1 : fq) (rs1 : fq_set) : fq_out -> Prop :=
| SO_ok recs1 items1 :
    items = map QRec recs1 ++ items1 -> recs1 <> [] ->
    Forall2 (rec_at inp) (fq_set_records rs1) recs1 ->
    HQ inp ffuel r1 items1 ->
    (forall it rest, items1 = it :: rest -> fq_position r1 = coords it) ->
    (forall nn, n = Some nn -> length recs1 <= nn /\ (length recs1 < nn -> items1 = [])) ->
    SetOut inp ffuel n items rs r1 rs1 QOSetOk
| SO_err recs1 e l a :
    items = map QRec recs1 ++ [QErr e l a] -> qspos rs1 = [] -> HQ inp ffuel r1 [] ->
    qst r1 = QFinished -> fq_position r1 = (l, a) -> n_room n (length recs1) ->
    SetOut inp ffuel n items rs r1 rs1 (QOErr (fq_err_of e))
| SO_none :
    items = [] -> HQ inp ffuel r1 [] -> qst r1 = QFinished -> (rs1 = rs \/ qspos rs1 = []) ->
    SetOut inp ffuel n items rs r1 rs1 QONone.

(** the part of [read_record_set_exact] after the state dispatch *)
Definition set_go (fuel ffuel : nat) (n : option nat) (rs : fq_set) (r : fq) : fq * fq_set * fq_out :=
  let '(r1, ps, lr) := fq_set_loop fuel fuel ffuel n true r [] in
  match lr with
  | QLDone => (r1, mkFqSet (qbuf r1) ps, QOSetOk)
  | QLErr e => (r1, mkFqSet (qsbuf rs) [], QOErr e)
  | QLPanic x => (r1, mkFqSet (qsbuf rs) ps, QOPanic x)
  | QLFuel => (r1, mkFqSet (qsbuf rs) ps, QOFuel)
  | QLNone => (r1, mkFqSet (qsbuf rs) ps, QONone)
  end.

Lemma read_set_unfold fuel ffuel n r rs :
  fq_read_set fuel ffuel n r rs =
  match qst r with
  | QNew =>
      let '(r1, ir) := fq_init ffuel r in
      match ir with
      | QIErr e => (r1, rs, QOErr e)
      | QIFuel => (r1, rs, QOFuel)
      | QIOk false => (r1, rs, QONone)
      | QIOk true => set_go fuel ffuel n rs (qset_st r1 QPositioned)
      end
  | QFinished => (r, rs, QONone)
  | QParsing =>
      match inc r with
      | Some _ => set_go fuel ffuel n rs (qset_st r QPositioned)
      | None =>
          match fq_increment r with
          | None => (r, rs, QOPanic 3)
          | Some r1 => set_go fuel ffuel n rs (qset_st r1 QPositioned)
          end
      end
  | QPositioned => set_go fuel ffuel n rs r
  end.
Proof. reflexivity. Qed.

Lemma set_records_map b ps : fq_set_records (mkFqSet b ps) = map (rec_of b) ps.
Proof.
  unfold fq_set_records. cbn [qspos qsbuf]. apply map_ext. intros [[[[x0 x1] xs] xp] xq]. reflexivity.
Qed.

Lemma set_views_records inp off b ps recs : set_views inp off b ps recs ->
  Forall2 (rec_at inp) (fq_set_records (mkFqSet b ps)) recs.
Proof.
  intros H. rewrite set_records_map. unfold set_views in H.
  induction H as [|bp i ps recs Hx _ IH]; cbn [map]; constructor; [exists off; exact Hx | exact IH].
Qed.

(** [n >= 1] for an exact count *)
Definition n_ok (n : option nat) : Prop := match n with Some nn => 1 <= nn | None => True end.

Lemma go_spec inp ffuel fuel n rs r off items :
  HQo inp ffuel r off items -> qst r = QPositioned -> n_ok n -> 2 * length inp + 4 <= fuel ->
  exists r1 rs1 o, set_go fuel ffuel n rs r = (r1, rs1, o) /\ SetOut inp ffuel n items rs r1 rs1 o.
Proof.
  intros HQ Hst Hn Hfuel. unfold set_go.
  assert (Hroom0 : n_room n (@length bpt [])).
  { destruct n as [nn|]; cbn [n_room n_ok length] in *; [lia | exact I]. }
  assert (Hfu : 2 * (length inp + 1 - qbyte r) + match inc r with None => 1 | Some _ => 0 end < fuel).
  { destruct (inc r); lia. }
  destruct (set_loop_spec inp ffuel fuel n items ltac:(lia) fuel true r [] off [] items HQ
              (or_introl Hst) eq_refl (Forall2_nil _) ltac:(intros E; congruence)
              ltac:(intros _ _; left; reflexivity) Hroom0 Hfu)
    as (r1 & ps1 & lr & Hloop & HR).
  - rewrite Hloop.
    destruct HR as [off1 recs1 items1 Hall Hviews HQ1 Hst1 Hne Hcnt|off1 recs1 e l a Hall HQ1 Hf1 Hl1 Hb1 Hroom
                   |off1 Hall HQ1 Hf1 Hps1].
    + eexists _, _, _. split; [reflexivity|].
      pose proof (set_views_len _ _ _ _ _ Hviews) as Hlen.
      apply (SO_ok inp ffuel n items rs r1 _ recs1 items1);
        [exact Hall | | apply set_views_records with (off := off1); exact Hviews
        | exists off1; exact HQ1 | |].
      * intros ->. destruct ps1; [contradiction | discriminate].
      * intros it rest ->. destruct Hst1 as [E|E].
        -- eapply HQo_position; eassumption.
        -- destruct HQ1; congruence.
      * intros nn E. rewrite <- Hlen. apply Hcnt. exact E.
    + eexists _, _, _. split; [reflexivity|].
      apply (SO_err inp ffuel n items rs r1 _ recs1 e l a);
        [exact Hall | reflexivity | exists off1; exact HQ1 | exact Hf1
        | unfold fq_position; congruence | exact Hroom].
    + eexists _, _, _. split; [reflexivity|].
      apply SO_none; [exact Hall | exists off1; exact HQ1 | exact Hf1 | right; subst ps1; reflexivity].
Qed.

(** [read_record_set(_exact)] continues the stream from every state between calls *)
Lemma gset_step inp ffuel fuel n r rs items :
  HQ inp ffuel r items -> n_ok n -> 2 * length inp + 4 <= fuel ->
  exists r1 rs1 o, fq_read_set fuel ffuel n r rs = (r1, rs1, o) /\
                   SetOut inp ffuel n items rs r1 rs1 o.
Proof.
  intros (off & HQ) Hn Hfuel. rewrite read_set_unfold.
  destruct HQ as [Hq Hoff W Sk Hp0 H0 Hinc Hln Hby Pol Cap Hit|Hq B Hinc Hpb Hle1 Hle2 Hit
                 |Hq Hinc B Hpb Hle Hit|s Hq Hinc B Hpb HS Hno Hit|Hq B Hpb Hit]; rewrite Hq.
  - (* New *)
    destruct (init_spec inp ffuel r W Sk Hp0 Pol Cap) as (r2 & B2 & Hsame & [(Hnil & ->)|(Hnn & ->)]);
      destruct Hsame as (S1 & S2 & S3 & S4 & S5 & S6 & S7 & S8 & S9 & S10 & S11 & S12).
    + eexists _, _, _. split; [reflexivity|]. subst items inp. rewrite fq_parse_nil.
      apply SO_none; auto. exists 0. apply HQ_fin; auto.
      * eapply QB_ext; [| | | |exact B2]; reflexivity.
      * cbn [p0 qbyte qset_st]. lia.
    + apply (go_spec inp ffuel fuel n rs (qset_st r2 QPositioned) 0 items); auto.
      apply HQ_pos0; cbn [p0 qbyte qline qbuf inc qst qset_st]; auto; try congruence; try lia.
      * eapply QB_ext; [| | | |exact B2]; reflexivity.
      * rewrite S8, S9, Hln, Hby. exact Hit.
  - (* Parsing: step over the record returned last *)
    rewrite Hinc. unfold fq_increment.
    assert ((p1 r + 1 <? p0 r) = false) as -> by (apply Nat.ltb_ge; lia).
    set (r1 := qset_p0 _ _).
    apply (go_spec inp ffuel fuel n rs (qset_st r1 QPositioned) off items); auto.
    apply HQ_pos0; unfold r1; cbn [p0 qbyte qline qbuf inc qst qset_st qset_p0 qset_line qset_byte]; auto;
      try lia.
    + eapply QB_ext; [| | | |exact B]; reflexivity.
    + rewrite Hit. replace (qbyte r + (p1 r + 1 - p0 r)) with (p1 r + 1 + off) by lia. reflexivity.
  - apply (go_spec inp ffuel fuel n rs r off items); auto. apply HQ_pos0; auto.
  - apply (go_spec inp ffuel fuel n rs r off items); auto. eapply HQ_pos1; eauto.
  - subst items. eexists _, _, _. split; [reflexivity|].
    apply SO_none; auto. exists off. apply HQ_fin; auto.
Qed.

(* ------------------------------------------------------------------ *)
(** * Views of delivered records are views of the whole input *)

(** a delivered record (borrowed, or one of a record set) is a view of a window
    of the input: every accessor agrees with the view of the whole input at
    the absolute offsets ([fq_view_shift]), and the absolute view starts at
    the item's byte offset *)
Lemma rec_at_abs inp rc i : rec_at inp rc i ->
  exists off,
    let rc' := mkFqRec inp (r0 rc + off) (r1 rc + off) (rseq rc + off) (rsep rc + off) (rqual rc + off) in
    r0 rc' = qi_byte i /\ FqRecWf rc' /\ FqRecWf rc /\
    fq_head rc = fq_head rc' /\ fq_seq rc = fq_seq rc' /\ fq_qual rc = fq_qual rc' /\
    fq_to_owned rc = fq_to_owned rc' /\ fq_write_unchanged rc = fq_write_unchanged rc' /\
    fq_write rc = fq_write rc'.
Proof.
  intros (off & _ & _ & _ & Hwf & Hb & e & Hbuf & Hoe & Hel).
  exists off. cbv zeta. cbn [r0].
  assert (Hlen : length (qrbuf rc) = e - off) by (rewrite Hbuf; apply window_length; lia).
  assert (Hwf' : FqRecWf (mkFqRec inp (r0 rc + off) (r1 rc + off) (rseq rc + off) (rsep rc + off) (rqual rc + off))).
  { unfold FqRecWf in *. cbn [qrbuf r0 r1 rseq rsep rqual]. lia. }
  split; [exact Hb|]. split; [exact Hwf'|].
  assert (Hr1 : r1 rc <= length (qrbuf rc)) by (unfold FqRecWf in Hwf; lia).
  exact (fq_view_shift inp rc off e Hbuf Hel Hoe Hr1 _ eq_refl Hwf').
Qed.

Print Assumptions set_loop_spec.
Print Assumptions gnext_step.
Print Assumptions gset_step.
Print Assumptions rec_at_abs.
