(** Corollaries of the FASTQ refinement theorem: independence of the configuration. *)
From SeqIO Require Import Model.Base Model.Fastq Model.Views Spec.FastaSpec Spec.FastqSpec
     Proofs.Window Proofs.FastaInv Proofs.FastqInv Proofs.FastqNextP Proofs.FastaTopP.

(** two outcomes (with the positions reported after them) show the same thing to the caller *)
Definition fq_same_outcome (a b : fq_out * (nat * nat)) : Prop :=
  match fst a, fst b with
  | QORec ra, QORec rb =>
      fq_head ra = fq_head rb /\ fq_seq ra = fq_seq rb /\ fq_qual ra = fq_qual rb /\ snd a = snd b /\
      fq_head ra <> None /\ fq_seq ra <> None /\ fq_qual ra <> None
  | QOErr ea, QOErr eb => ea = eb /\ snd a = snd b
  | QONone, QONone => True
  | _, _ => False
  end.

Lemma fq_matches_same inp a b it : fq_matches inp a it -> fq_matches inp b it -> fq_same_outcome a b.
Proof.
  destruct a as [oa pa], b as [ob pb]. unfold fq_same_outcome. cbn [fst snd].
  destruct it as [[i|e l bt]|]; destruct oa as [|ra| | |ea| |], ob as [|rb| | |eb| |]; cbn; try contradiction; auto.
  - intros (H1 & S1 & Q1 & P1 & _) (H2 & S2 & Q2 & P2 & _).
    rewrite H1, H2, S1, S2, Q1, Q2, P1, P2. repeat split; auto; discriminate.
  - intros [-> ->] [-> ->]. auto.
Qed.

Theorem fq_config_independence inp n
        cap1 rs1 ss1 pol1 fuel1 ffuel1 cap2 rs2 ss2 pol2 fuel2 ffuel2 :
  1 <= cap1 -> forallb item_ok rs1 = true -> PolOk pol1 -> length rs1 + 2 <= ffuel1 -> length inp + 2 <= fuel1 ->
  1 <= cap2 -> forallb item_ok rs2 = true -> PolOk pol2 -> length rs2 + 2 <= ffuel2 -> length inp + 2 <= fuel2 ->
  Forall2 fq_same_outcome
          (fq_run fuel1 ffuel1 n (fq_new cap1 (mkSource inp 0 rs1 ss1) pol1))
          (fq_run fuel2 ffuel2 n (fq_new cap2 (mkSource inp 0 rs2 ss2) pol2)).
Proof.
  intros. eapply (Forall2_same (fq_matches inp) fq_same_outcome (fq_matches_same inp));
    apply fq_next_refines_spec_gen; auto using PolOk_PolOk1.
Qed.
