(** C14: source failures surface unchanged, interrupted reads are invisible.
    For EVERY reader state, fuel, policy and source script. *)
From SeqIO Require Import Model.Base Model.Fasta Model.Fastq Proofs.TraceP Proofs.FaTraceP Proofs.FqTraceP.

(* ------------------------------------------------------------------ *)
(** * From the adverse-event specification to "failures surface" *)

(** [FaultSurfaces added io]: [io] is the I/O-error kind reported by the call
    ([None]: the call did not report an I/O error).
    (1) a source failure of kind [k] was raised during the call iff the call
        reported the I/O error of kind [k];
    (2) a raised failure is the newest event of the call (nothing was read or
        sought after it) and the only failure of the call. *)
Definition FaultSurfaces (added : list ev) (io : option nat) : Prop :=
  (forall k, (exists e, In e added /\ ev_fail e = Some k) <-> io = Some k) /\
  (forall e k, In e added -> ev_fail e = Some k ->
     exists rest, added = e :: rest /\ Forall (fun e' => ev_fail e' = None) rest).

Definition adverse_io (a : option adverse) : option nat :=
  match a with Some (AIo k) => Some k | _ => None end.

Lemma ev_adverse_fail e k : ev_adverse e = Some (AIo k) <-> ev_fail e = Some k.
Proof.
  unfold ev_adverse. destruct (ev_fail e) as [k'|].
  - split; intros H; inversion H; reflexivity.
  - destruct (ev_refuse e); split; discriminate.
Qed.

Lemma ev_adverse_none_fail e : ev_adverse e = None -> ev_fail e = None.
Proof. unfold ev_adverse. destruct (ev_fail e); [discriminate|reflexivity]. Qed.

Lemma benign_no_fail l : benign l -> Forall (fun e => ev_fail e = None) l.
Proof. intros H. eapply Forall_impl; [|exact H]. intros e. apply ev_adverse_none_fail. Qed.

Lemma AdverseSpec_FaultSurfaces added a : AdverseSpec added a -> FaultSurfaces added (adverse_io a).
Proof.
  intros HS. split.
  - intros k. split.
    + intros (e & Hin & He). apply ev_adverse_fail in He.
      destruct (AdverseSpec_in _ _ _ _ HS Hin He) as [-> _]. reflexivity.
    + intros Hio. destruct a as [[k'|]|]; cbn [adverse_io] in Hio; try discriminate. inversion Hio; subst k'.
      destruct HS as (e & rest & -> & He & _). exists e. split; [left; reflexivity|]. apply ev_adverse_fail. exact He.
  - intros e k Hin He. apply ev_adverse_fail in He.
    destruct (AdverseSpec_in _ _ _ _ HS Hin He) as [_ (rest & -> & Hr)].
    exists rest. split; [reflexivity|]. apply benign_no_fail. exact Hr.
Qed.

Lemma Run_FaultSurfaces ex a b cls : Run ex a b cls ->
  c_log b = new_events (c_log b) (c_log a) ++ c_log a /\
  FaultSurfaces (new_events (c_log b) (c_log a)) (adverse_io cls).
Proof.
  intros R. destruct (Run_added _ _ _ _ R) as [S A]. split.
  - apply (s_log _ _ _ _ S).
  - apply AdverseSpec_FaultSurfaces. exact A.
Qed.

(* ------------------------------------------------------------------ *)
(** * [fill_buf] *)

Definition fill_io (r : fill_res) : option nat := match r with FillErr k => Some k | _ => None end.

(** [fill_buf] for every buffer, capacity, source and fuel: only read events
    are added; the result is [FillErr k] iff a read of the call failed with
    kind [k]; that read is the newest event (no later read) and the only
    failed read; [FillOk]/[FillFuel] results gain no failed read at all. *)
Lemma fill_buf_fault fuel buf cap s lg nr b s' lg' res :
  fill_buf fuel buf cap s lg nr = (b, s', lg', res) ->
  let added := new_events lg' lg in
  lg' = added ++ lg /\ forallb is_read added = true /\
  (forall k, res = FillErr k <-> exists o rest, added = EvRead o (RFailed k) :: rest) /\
  (forall o k, In (EvRead o (RFailed k)) added ->
     res = FillErr k /\ exists rest, added = EvRead o (RFailed k) :: rest /\
                                      forall o' k', ~ In (EvRead o' (RFailed k')) rest).
Proof.
  intros H. destruct (fill_buf_trace _ _ _ _ _ _ _ _ _ _ H) as (added & -> & Hr & Ha & _).
  rewrite new_events_app. cbv zeta.
  pose proof (AdverseSpec_FaultSurfaces _ _ Ha) as [F1 F2].
  assert (Hin : forall o k, In (EvRead o (RFailed k)) added ->
     res = FillErr k /\ exists rest, added = EvRead o (RFailed k) :: rest /\
                                      forall o' k', ~ In (EvRead o' (RFailed k')) rest).
  { intros o k Hi. split.
    - assert (Hio : adverse_io (fill_class res) = Some k) by (apply F1; exists (EvRead o (RFailed k)); auto).
      destruct res; cbn in Hio; try discriminate. inversion Hio; reflexivity.
    - destruct (F2 _ k Hi eq_refl) as (rest & -> & Hn). exists rest. split; [reflexivity|].
      intros o' k' Hi'. rewrite Forall_forall in Hn. specialize (Hn _ Hi'). discriminate. }
  splits; auto.
  intros k. split.
  - intros ->. cbn [fill_class AdverseSpec] in Ha. destruct Ha as (e & rest & -> & He & _).
    cbn [forallb] in Hr. apply andb_true_iff in Hr. destruct Hr as [He' _].
    apply ev_adverse_fail in He. destruct e as [o [n| |k']| |]; try discriminate.
    cbn in He. inversion He; subst. exists o, rest. reflexivity.
  - intros (o & rest & ->). apply (Hin o k). left; reflexivity.
Qed.

(** ** interrupted reads are invisible *)

Definition keep_item (i : ritem) : bool := match i with RInterrupt => false | _ => true end.
Definition strip_rs (l : list ritem) : list ritem := filter keep_item l.
(** the same source without the interrupted reads *)
Definition strip_src (s : source) : source := mkSource (s_data s) (s_pos s) (strip_rs (s_rs s)) (s_ss s).
Definition keep_ev (e : ev) : bool := match e with EvRead _ RInterrupted => false | _ => true end.
Definition strip_ev (l : list ev) : list ev := filter keep_ev l.

Lemma fill_buf_fuel_mono fuel : forall fuel' buf cap s lg nr x res,
  fill_buf fuel buf cap s lg nr = (x, res) -> res <> FillFuel -> fuel <= fuel' ->
  fill_buf fuel' buf cap s lg nr = (x, res).
Proof.
  induction fuel as [|f IH]; intros fuel' buf cap s lg nr x res H Hne Hle; cbn [fill_buf] in H.
  { inversion H; subst. congruence. }
  destruct fuel' as [|f']; [lia|]. cbn [fill_buf].
  destruct (length buf <? cap); [|exact H].
  destruct (src_read s (cap - length buf)) as [[s1 data] rr].
  destruct rr as [[|n]| |k]; try exact H; (apply IH; [exact H|exact Hne|lia]).
Qed.

Lemma fill_buf_enough_fuel fuel : forall buf cap s lg nr,
  length (s_rs s) + 2 <= fuel -> snd (fill_buf fuel buf cap s lg nr) <> FillFuel.
Proof.
  induction fuel as [|f IH]; intros buf cap s lg nr Hf; [lia|]. cbn [fill_buf].
  destruct (length buf <? cap) eqn:Efull; [apply Nat.ltb_lt in Efull|cbn; discriminate].
  unfold src_read.
  destruct (s_rs s) as [|[m| |k] rs] eqn:Ers; cbn [length] in Hf; cbv beta iota zeta.
  - (* script exhausted: at most one more read *)
    destruct (Nat.min (cap - length buf) (src_remaining s)) as [|n] eqn:En; [cbn; discriminate|].
    destruct f as [|f']; [lia|]. cbn [fill_buf].
    rewrite app_length, firstn_length, skipn_length.
    destruct (_ <? cap) eqn:E2; [apply Nat.ltb_lt in E2|cbn; discriminate].
    unfold src_read, src_remaining in *. cbn [s_rs s_data s_pos s_ss].
    replace (Nat.min (cap - (length buf + Nat.min (S n) (length (s_data s) - s_pos s)))
                     (length (s_data s) - (s_pos s + S n))) with 0 by lia.
    cbn; discriminate.
  - destruct (Nat.min (S m) (Nat.min (cap - length buf) (src_remaining s))) as [|n]; [cbn; discriminate|].
    apply IH. cbn [s_rs]. lia.
  - apply IH. cbn [s_rs]. lia.
  - cbn; discriminate.
Qed.

Lemma fill_buf_strip fuel : forall fuel2 buf cap s lg lg2 nr b s' lg' res,
  fill_buf fuel buf cap s lg nr = (b, s', lg', res) -> res <> FillFuel -> fuel <= fuel2 ->
  fill_buf fuel2 buf cap (strip_src s) lg2 nr = (b, strip_src s', strip_ev (new_events lg' lg) ++ lg2, res).
Proof.
  induction fuel as [|f IH]; intros fuel2 buf cap s lg lg2 nr b s' lg' res H Hne Hle; cbn [fill_buf] in H.
  { inversion H; subst. congruence. }
  destruct (length buf <? cap) eqn:Efull.
  2:{ inversion H; subst. rewrite new_events_refl. destruct fuel2 as [|f2]; [lia|]. cbn [fill_buf].
      rewrite Efull. reflexivity. }
  (* the events of the rest of the call sit on top of the first read event *)
  assert (Hrest : forall f0 bf sx e0 n0 , fill_buf f0 bf cap sx (e0 :: lg) n0 = (b, s', lg', res) ->
            new_events lg' lg = new_events lg' (e0 :: lg) ++ [e0]).
  { intros f0 bf sx e0 n0 Hq. destruct (fill_buf_trace _ _ _ _ _ _ _ _ _ _ Hq) as (ad & -> & _).
    rewrite new_events_app. change (ad ++ e0 :: lg) with (ad ++ [e0] ++ lg). rewrite app_assoc.
    apply new_events_app. }
  unfold src_read in H.
  destruct (s_rs s) as [|[m| |k] rs] eqn:Ers; cbv beta iota zeta in H.
  - (* script exhausted *)
    destruct fuel2 as [|f2]; [lia|]. cbn [fill_buf]. rewrite Efull.
    unfold src_read, src_remaining. change (s_rs (strip_src s)) with (strip_rs (s_rs s)); change (s_data (strip_src s)) with (s_data s); change (s_pos (strip_src s)) with (s_pos s); change (s_ss (strip_src s)) with (s_ss s). rewrite Ers. cbn [strip_rs filter].
    unfold src_remaining in *. cbn [s_data s_pos]. cbv beta iota zeta.
    destruct (Nat.min (cap - length buf) (length (s_data s) - s_pos s)) as [|n] eqn:En.
    + inversion H; subst. rewrite new_events_cons. reflexivity.
    + etransitivity; [exact (IH f2 _ _ _ _ (EvRead (cap - length buf) (RData (S n)) :: lg2) _ _ _ _ _ H Hne ltac:(lia))|].
      rewrite (Hrest _ _ _ _ _ H). unfold strip_ev. rewrite filter_app. cbn [filter keep_ev].
      rewrite <- app_assoc. reflexivity.
  - (* Deliver *)
    destruct fuel2 as [|f2]; [lia|]. cbn [fill_buf]. rewrite Efull.
    unfold src_read, src_remaining. change (s_rs (strip_src s)) with (strip_rs (s_rs s)); change (s_data (strip_src s)) with (s_data s); change (s_pos (strip_src s)) with (s_pos s); change (s_ss (strip_src s)) with (s_ss s). rewrite Ers. cbn [strip_rs filter keep_item].
    unfold src_remaining in *. cbn [s_data s_pos]. cbv beta iota zeta.
    destruct (Nat.min (S m) (Nat.min (cap - length buf) (length (s_data s) - s_pos s))) as [|n] eqn:En.
    + inversion H; subst. rewrite new_events_cons. reflexivity.
    + etransitivity; [exact (IH f2 _ _ _ _ (EvRead (cap - length buf) (RData (S n)) :: lg2) _ _ _ _ _ H Hne ltac:(lia))|].
      rewrite (Hrest _ _ _ _ _ H). unfold strip_ev. rewrite filter_app. cbn [filter keep_ev].
      rewrite <- app_assoc. reflexivity.
  - (* Interrupt: the stripped source does not see it *)
    replace (strip_src s) with (strip_src (mkSource (s_data s) (s_pos s) rs (s_ss s)))
      by (unfold strip_src; cbn [s_rs s_data s_pos s_ss]; rewrite Ers; reflexivity).
    rewrite (IH fuel2 _ _ _ _ lg2 _ _ _ _ _ H Hne ltac:(lia)).
    rewrite (Hrest _ _ _ _ _ H). unfold strip_ev. rewrite filter_app. cbn [filter keep_ev].
    rewrite app_nil_r. reflexivity.
  - (* Fail *)
    inversion H; subst.
    destruct fuel2 as [|f2]; [lia|]. cbn [fill_buf]. rewrite Efull.
    unfold src_read, src_remaining. change (s_rs (strip_src s)) with (strip_rs (s_rs s)); change (s_data (strip_src s)) with (s_data s); change (s_pos (strip_src s)) with (s_pos s); change (s_ss (strip_src s)) with (s_ss s). rewrite Ers. cbn [strip_rs filter keep_item].
    rewrite new_events_cons. reflexivity.
Qed.

(** Interrupted reads never change what [fill_buf] does: on the script with
    the [RInterrupt] items removed it produces the same buffer, the same source
    state (position, remaining script up to interrupts), the same result, and the same
    log up to the interrupted read events -- for every buffer, capacity, source,
    including scripts with failures, given the fuel that always suffices. *)
Lemma fill_buf_interrupts_invisible fuel fuel2 buf cap s lg lg2 nr :
  length (s_rs s) + 2 <= fuel -> length (strip_rs (s_rs s)) + 2 <= fuel2 ->
  exists b s' added res,
    fill_buf fuel buf cap s lg nr = (b, s', added ++ lg, res) /\
    fill_buf fuel2 buf cap (strip_src s) lg2 nr = (b, strip_src s', strip_ev added ++ lg2, res) /\
    res <> FillFuel.
Proof.
  intros Hf Hf2.
  destruct (fill_buf fuel buf cap s lg nr) as [[[b s'] lg'] res] eqn:E.
  pose proof (fill_buf_enough_fuel fuel buf cap s lg nr Hf) as Hne. rewrite E in Hne. cbn [snd] in Hne.
  destruct (fill_buf_trace _ _ _ _ _ _ _ _ _ _ E) as (added & -> & _).
  exists b, s', added, res. splits; auto.
  pose proof (fill_buf_strip _ (Nat.max fuel fuel2) _ _ _ _ lg2 _ _ _ _ _ E Hne ltac:(lia)) as Hs.
  rewrite new_events_app in Hs.
  destruct (fill_buf fuel2 buf cap (strip_src s) lg2 nr) as [x res2] eqn:E2.
  pose proof (fill_buf_enough_fuel fuel2 buf cap (strip_src s) lg2 nr Hf2) as Hne2. rewrite E2 in Hne2.
  cbn [snd] in Hne2.
  rewrite (fill_buf_fuel_mono _ (Nat.max fuel fuel2) _ _ _ _ _ _ _ E2 Hne2 ltac:(lia)) in Hs. exact Hs.
Qed.

(* ------------------------------------------------------------------ *)
(** * The entry points of both readers, every state *)

(** [ErrorSurfaces old new o io]: the call took the log from [old] to [new]
    and returned [o]; [io k] is the I/O-error outcome of kind [k].
    - the log was only extended;
    - the source raised a failure of kind [k] during the call (a failed read or
      a failed seek among the added events) IFF the outcome of this very call
      is the I/O error of kind [k] -- so it is not end of input, not a format
      or truncation error, not a record, and the kind is preserved;
    - the failure is the newest event: the call did not touch the source
      afterwards, and it is the only failure of the call. *)
Definition ErrorSurfaces {O : Type} (old new : list ev) (o : O) (io : nat -> O) : Prop :=
  let added := new_events new old in
  new = added ++ old /\
  (forall k, (exists e, In e added /\ ev_fail e = Some k) <-> o = io k) /\
  (forall e k, In e added -> ev_fail e = Some k ->
     exists rest, added = e :: rest /\ Forall (fun e' => ev_fail e' = None) rest).

Definition fa_out_io (o : fa_out) : option nat := match o with OErr (FaIo k) => Some k | _ => None end.
Definition fq_out_io (o : fq_out) : option nat := match o with QOErr (FqIo k) => Some k | _ => None end.

Lemma fa_out_io_class o : adverse_io (fa_out_class o) = fa_out_io o.
Proof. destruct o as [| | | |[k|l f|]| |]; reflexivity. Qed.
Lemma fq_out_io_class o : adverse_io (fq_out_class o) = fq_out_io o.
Proof. destruct o as [| | | |[]| |]; reflexivity. Qed.
Lemma fa_out_io_iff o k : fa_out_io o = Some k <-> o = OErr (FaIo k).
Proof. destruct o as [| | | |[k'|l f|]| |]; cbn; split; intros H; inversion H; reflexivity. Qed.
Lemma fq_out_io_iff o k : fq_out_io o = Some k <-> o = QOErr (FqIo k).
Proof. destruct o as [| | | |[]| |]; cbn; split; intros H; inversion H; reflexivity. Qed.

Lemma fa_Run_surfaces ex r r' o : Run ex (fa_core r) (fa_core r') (fa_out_class o) ->
  ErrorSurfaces (log r) (log r') o (fun k => OErr (FaIo k)).
Proof.
  intros R. destruct (Run_FaultSurfaces _ _ _ _ R) as [L [F1 F2]].
  cbn [fa_core c_log] in *. rewrite fa_out_io_class in F1. unfold ErrorSurfaces. cbv zeta. splits.
  - exact L.
  - intros k. rewrite (F1 k). apply fa_out_io_iff.
  - exact F2.
Qed.

Lemma fq_Run_surfaces ex r r' o : Run ex (fq_core r) (fq_core r') (fq_out_class o) ->
  ErrorSurfaces (qlog r) (qlog r') o (fun k => QOErr (FqIo k)).
Proof.
  intros R. destruct (Run_FaultSurfaces _ _ _ _ R) as [L [F1 F2]].
  cbn [fq_core c_log] in *. rewrite fq_out_io_class in F1. unfold ErrorSurfaces. cbv zeta. splits.
  - exact L.
  - intros k. rewrite (F1 k). apply fq_out_io_iff.
  - exact F2.
Qed.

Lemma no_ex (P : Prop) : false = true -> P.
Proof. discriminate. Qed.

Theorem fa_next_error_surfaces fuel ffuel r r' o : fa_next fuel ffuel r = (r', o) ->
  ErrorSurfaces (log r) (log r') o (fun k => OErr (FaIo k)).
Proof. intros H. eapply fa_Run_surfaces. apply (fa_next_run false _ _ _ _ _ H). apply no_ex. Qed.

Theorem fa_read_set_error_surfaces fuel ffuel n r rs r' rs' o :
  fa_read_set fuel ffuel n r rs = (r', rs', o) ->
  ErrorSurfaces (log r) (log r') o (fun k => OErr (FaIo k)).
Proof. intros H. eapply fa_Run_surfaces. apply (fa_read_set_run false _ _ _ _ _ _ _ _ H). apply no_ex. Qed.

Theorem fa_seek_error_surfaces ffuel r line byte_ r' o : fa_seek ffuel r line byte_ = (r', o) ->
  ErrorSurfaces (log r) (log r') o (fun k => OErr (FaIo k)).
Proof. intros H. eapply fa_Run_surfaces. apply (fa_seek_run false _ _ _ _ _ _ H). Qed.

Theorem fq_next_error_surfaces fuel ffuel r r' o : fq_next fuel ffuel r = (r', o) ->
  ErrorSurfaces (qlog r) (qlog r') o (fun k => QOErr (FqIo k)).
Proof. intros H. eapply fq_Run_surfaces. apply (fq_next_run false _ _ _ _ _ H). Qed.

Theorem fq_read_set_error_surfaces fuel ffuel n r rs r' rs' o :
  fq_read_set fuel ffuel n r rs = (r', rs', o) ->
  ErrorSurfaces (qlog r) (qlog r') o (fun k => QOErr (FqIo k)).
Proof. intros H. eapply fq_Run_surfaces. apply (fq_read_set_run false _ _ _ _ _ _ _ _ H). Qed.

Theorem fq_seek_error_surfaces ffuel r line byte_ r' o : fq_seek ffuel r line byte_ = (r', o) ->
  ErrorSurfaces (qlog r) (qlog r') o (fun k => QOErr (FqIo k)).
Proof. intros H. eapply fq_Run_surfaces. apply (fq_seek_run false _ _ _ _ _ _ H). Qed.

(** readable consequences: a failed read / failed seek during the call forces the outcome *)
Corollary ErrorSurfaces_read {O} old new (o : O) io off k :
  ErrorSurfaces old new o io -> In (EvRead off (RFailed k)) (new_events new old) -> o = io k.
Proof. intros (_ & H & _) Hin. apply H. exists (EvRead off (RFailed k)). split; [exact Hin|reflexivity]. Qed.

Corollary ErrorSurfaces_seek {O} old new (o : O) io tgt k :
  ErrorSurfaces old new o io -> In (EvSeek tgt (Some k)) (new_events new old) -> o = io k.
Proof. intros (_ & H & _) Hin. apply H. exists (EvSeek tgt (Some k)). split; [exact Hin|reflexivity]. Qed.

(** and an I/O-error outcome exhibits the failure event as the newest one *)
Corollary ErrorSurfaces_io {O} old new (o : O) io k :
  ErrorSurfaces old new o io -> o = io k ->
  exists e rest, new = e :: rest ++ old /\ ev_fail e = Some k /\ Forall (fun e' => ev_fail e' = None) rest.
Proof.
  intros (L & H & H2) Ho. apply H in Ho. destruct Ho as (e & Hin & He).
  destruct (H2 e k Hin He) as (rest & Hr & Hn). exists e, rest. splits; auto.
  rewrite L at 1. rewrite Hr. reflexivity.
Qed.

(* ------------------------------------------------------------------ *)
(** * fixtures for the non-vacuity examples in Props/C14.v and Props/C09.v *)
Definition c14_fa_input : list byte := [62;97;10;65;67;71;84;10;62;98;10;71;71;10].   (* >a ACGT >b GG *)
Definition c14_fa_reader : fa :=
  fa_new 4 (mkSource c14_fa_input 0 [RDeliver 3; RInterrupt; RDeliver 0; RFailI 7; RDeliver 5] [SFailI 9]) pol_std.
Definition c14_fq_input : list byte := [64;97;10;65;67;10;43;10;73;73;10;64;98;10;71;10;43;10;73;10].
Definition c14_fq_reader : fq :=
  fq_new 5 (mkSource c14_fq_input 0 [RDeliver 4; RDeliver 2; RFailI 3] [SFailI 9]) (pol_plus 4 12).
