(** C06: what an I/O error leaves behind.  For EVERY reader state, policy,
    capacity, input and fault script.
    - a failed source seek changes nothing but source and log;
    - a failed REFILL after a successful source seek finishes the reader (the
      buffer no longer matches any reported position): every later read returns
      end of input;
    - both readers: a failed refill inside [resume_incomplete_search] finishes the
      reader; a failed refill inside the initialisation ([init] / [first_byte])
      leaves it [New] (the call can be repeated). *)
From SeqIO Require Import Model.Base Model.Fasta Model.Fastq Proofs.SeqLinesP
     Proofs.TraceP Proofs.FaTraceP Proofs.FqTraceP Proofs.FaultP Proofs.GrowP.

(* ================================================================== *)
(** * FASTA *)

Lemma fa_fill_err_event ffuel r r' k : fa_fill ffuel r = (r', FillErr k) ->
  exists off rest, log r' = EvRead off (RFailed k) :: rest ++ log r.
Proof.
  unfold fa_fill. intros H.
  destruct (fill_buf ffuel (buf r) (cap r) (src r) (log r) 0) as [[[b s] lg] res] eqn:E.
  inversion H; subst. destruct (fill_buf_fault _ _ _ _ _ _ _ _ _ _ E) as (L & _ & Hk & _).
  destruct (proj1 (Hk k) eq_refl) as (o & rest & Ha). exists o, rest. fa_simpl. rewrite L at 1. rewrite Ha. reflexivity.
Qed.

Lemma fa_grow_err r r' e : fa_grow r = (r', GErr e) -> e = FaBufferLimit.
Proof.
  unfold fa_grow. destruct (polf r (polh r) (cap r)) as [n|]; [destruct (n <=? cap r)|]; intros H; inversion H; reflexivity.
Qed.

Lemma fa_resume_io_state ffuel mk : forall fuel r r' k,
  fa_resume fuel ffuel mk r = (r', RsErr (FaIo k)) -> st r' = FFinished /\ buf r' = [].
Proof.
  induction fuel as [|f IH]; intros r r' k H; cbn [fa_resume] in H; [discriminate|].
  destruct (if negb mk || (start r =? 0) then fa_grow r else fa_make_room r) as [r1 g] eqn:E1.
  assert (Hg : forall e, g = GErr e -> e = FaBufferLimit).
  { intros e ->. destruct (negb mk || (start r =? 0)).
    - apply (fa_grow_err _ _ _ E1).
    - destruct (fa_make_room_run false _ _ _ E1) as (_ & _ & _ & _ & _ & _ & Hne). exfalso. apply (Hne e). reflexivity. }
  destruct g as [|e|s]; [|inversion H; subst; discriminate (Hg _ eq_refl)|discriminate].
  destruct (fa_fill ffuel r1) as [r2 fr] eqn:E2.
  destruct fr as [n|k'|]; [|inversion H; subst; split; reflexivity|discriminate].
  destruct (fa_search r2) as [r3 sr] eqn:E3.
  destruct sr as [[|]|s]; try discriminate.
  apply (IH _ _ _ H).
Qed.

Lemma fa_init_io_state fuel ffuel r r' k : fa_init fuel ffuel r = (r', IErr (FaIo k)) -> st r' = st r.
Proof.
  unfold fa_init. intros H. destruct (fa_first_byte fuel ffuel r (pline r)) as [r1 fb] eqn:E1.
  destruct (fa_first_byte_run false _ _ _ _ _ _ E1) as [_ Hst].
  destruct fb as [ln pos b| |k'|]; try discriminate.
  - destruct (b =? GT); discriminate.
  - inversion H; subst. exact Hst.
Qed.

Lemma fa_next_tail_io_state fuel ffuel r r' k :
  fa_next_tail fuel ffuel r = (r', OErr (FaIo k)) -> st r' = FFinished /\ buf r' = [].
Proof.
  unfold fa_next_tail. intros H.
  destruct (if fa_state_eqb (st r) FIncomplete then (r, SFound true) else fa_search r) as [r1 sr].
  destruct sr as [b|s]; [|discriminate].
  destruct (fa_state_eqb (st r1) FIncomplete) eqn:Es; [|discriminate].
  destruct (fa_resume fuel ffuel true r1) as [r2 rr] eqn:E2.
  destruct rr as [[|]|e|s|]; try discriminate.
  inversion H; subst. apply (fa_resume_io_state _ _ _ _ _ _ E2).
Qed.

(** [next]: an I/O error finishes the reader and drops its buffer, unless it was
    raised by [init] (then the reader is still [New] and the call can be repeated) *)
Theorem fa_next_io_buffer fuel ffuel r r' k : fa_next fuel ffuel r = (r', OErr (FaIo k)) ->
  (st r = FNew /\ st r' = FNew) \/ (st r' = FFinished /\ buf r' = []).
Proof.
  unfold fa_next. intros H. destruct (st r) eqn:Es.
  - destruct (fa_init fuel ffuel r) as [r1 ir] eqn:E1.
    destruct ir as [[|]|e|]; try discriminate.
    + right. apply (fa_next_tail_io_state _ _ _ _ _ H).
    + inversion H; subst. left. split; [reflexivity|]. rewrite (fa_init_io_state _ _ _ _ _ E1). exact Es.
  - destruct (fa_increment r) as [r1|]; [|discriminate]. right. apply (fa_next_tail_io_state _ _ _ _ _ H).
  - right. apply (fa_next_tail_io_state _ _ _ _ _ H).
  - right. apply (fa_next_tail_io_state _ _ _ _ _ H).
  - discriminate.
Qed.

Theorem fa_next_io_state fuel ffuel r r' k : fa_next fuel ffuel r = (r', OErr (FaIo k)) ->
  (st r = FNew /\ st r' = FNew) \/ st r' = FFinished.
Proof. intros H. destruct (fa_next_io_buffer _ _ _ _ _ H) as [A|[A _]]; [left|right]; exact A. Qed.

Lemma fa_set_loop_io_state rfuel ffuel : forall fuel n is_new r rs r' rs' k,
  fa_set_loop fuel rfuel ffuel n is_new r rs = (r', rs', LErr (FaIo k)) -> st r' = FFinished /\ buf r' = [].
Proof.
  induction fuel as [|f IH]; intros n is_new r rs r' rs' k H; cbn [fa_set_loop] in H; [discriminate|].
  destruct (fa_state_eqb (st r) FFinished); [discriminate|].
  assert (Hfound : forall r2 rs2,
     (let rs3 := fa_set_put rs2 r2 in
      match fa_increment r2 with
      | None => (r2, rs3, LPanic 3)
      | Some r4 => if reached n (snpos rs3) then (r4, rs3, LDone)
                   else fa_set_loop f rfuel ffuel n is_new r4 rs3
      end) = (r', rs', LErr (FaIo k)) -> st r' = FFinished /\ buf r' = []).
  { intros r2 rs2 Hq. cbv zeta in Hq. destruct (fa_increment r2) as [r4|]; [|discriminate].
    destruct (reached n (snpos (fa_set_put rs2 r2))); [discriminate|]. apply (IH _ _ _ _ _ _ _ Hq). }
  destruct (fa_state_eqb (st r) FIncomplete) eqn:Einc.
  - destruct (fa_resume rfuel ffuel is_new r) as [r1 rr] eqn:E1.
    destruct rr as [[|]|e|s|]; try discriminate.
    + apply (Hfound _ _ H).
    + inversion H; subst. apply (fa_resume_io_state _ _ _ _ _ _ E1).
  - destruct (fa_search r) as [r1 sr]. destruct sr as [[|]|s]; try discriminate.
    + apply (Hfound _ _ H).
    + destruct (snpos rs =? 0); [apply (IH _ _ _ _ _ _ _ H)|].
      destruct (below n (snpos rs)); [apply (IH _ _ _ _ _ _ _ H)|discriminate].
Qed.

Theorem fa_read_set_io_buffer fuel ffuel n r rs r' rs' k :
  fa_read_set fuel ffuel n r rs = (r', rs', OErr (FaIo k)) ->
  (st r = FNew /\ st r' = FNew) \/ (st r' = FFinished /\ buf r' = []).
Proof.
  unfold fa_read_set. intros H.
  assert (Hgo : forall r0,
     fa_set_finish (fa_set_loop fuel fuel ffuel n true r0 (mkFaSet (sbuf rs) (spositions rs) 0)) = (r', rs', OErr (FaIo k)) ->
     st r' = FFinished /\ buf r' = []).
  { intros r0 Hq. destruct (fa_set_loop fuel fuel ffuel n true r0 (mkFaSet (sbuf rs) (spositions rs) 0)) as [[r1 rs1] lr] eqn:E.
    unfold fa_set_finish in Hq. destruct lr as [|e|s| |]; try discriminate. inversion Hq; subst.
    apply (fa_set_loop_io_state _ _ _ _ _ _ _ _ _ _ E). }
  destruct (st r) eqn:Es.
  - destruct (fa_init fuel ffuel r) as [r1 ir] eqn:E1.
    destruct ir as [[|]|e|]; try discriminate.
    + right. apply (Hgo _ H).
    + inversion H; subst. left. split; [reflexivity|]. rewrite (fa_init_io_state _ _ _ _ _ E1). exact Es.
  - destruct (fa_increment r) as [r1|]; [|discriminate]. right. apply (Hgo _ H).
  - right. apply (Hgo _ H).
  - right. apply (Hgo _ H).
  - discriminate.
Qed.

Theorem fa_read_set_io_state fuel ffuel n r rs r' rs' k :
  fa_read_set fuel ffuel n r rs = (r', rs', OErr (FaIo k)) ->
  (st r = FNew /\ st r' = FNew) \/ st r' = FFinished.
Proof. intros H. destruct (fa_read_set_io_buffer _ _ _ _ _ _ _ _ H) as [A|[A _]]; [left|right]; exact A. Qed.

(** [seek]: an I/O error is either the failed source seek -- then nothing but
    source and log changed -- or the failed refill after it -- then the reader is finished *)
Theorem fa_seek_io_state ffuel r line byte_ r' k : fa_seek ffuel r line byte_ = (r', OErr (FaIo k)) ->
  (log r' = EvSeek byte_ (Some k) :: log r /\ r' = set_log (set_src r (src r')) (log r')) \/
  (exists off rest, log r' = EvRead off (RFailed k) :: rest ++ EvSeek byte_ None :: log r /\ st r' = FFinished /\ buf r' = []).
Proof.
  unfold fa_seek. intros H.
  destruct ((0 <=? Z.of_nat (start r) + (Z.of_nat byte_ - Z.of_nat (pbyte r)))%Z &&
            (Z.of_nat (start r) + (Z.of_nat byte_ - Z.of_nat (pbyte r)) <? Z.of_nat (length (buf r)))%Z && negb (fa_state_eqb (st r) FNew)); [discriminate|].
  destruct (src_seek (src r) byte_) as [s' res] eqn:Es.
  destruct res as [k'|].
  - inversion H; subst. left. fa_simpl. split; reflexivity.
  - match type of H with (let '(r1, fr) := fa_fill ffuel ?R in _) = _ => set (r0 := R) in * end.
    destruct (fa_fill ffuel r0) as [r1 fr] eqn:E1.
    destruct fr as [n|k'|]; try discriminate. inversion H; subst. right.
    destruct (fa_fill_err_event _ _ _ _ E1) as (off & rest & L). exists off, rest. fa_simpl. splits; [exact L|reflexivity|reflexivity].
Qed.

Lemma fa_read_set_finished_sticky fuel ffuel n r rs : st r = FFinished -> fa_read_set fuel ffuel n r rs = (r, rs, ONone).
Proof. intros H. unfold fa_read_set. rewrite H. reflexivity. Qed.

(** after the failed refill of a seek every later read returns end of input *)
Theorem fa_seek_refill_error_final ffuel r line byte_ r' k off rest :
  fa_seek ffuel r line byte_ = (r', OErr (FaIo k)) -> log r' = EvRead off (RFailed k) :: rest ->
  st r' = FFinished /\
  (forall fuel ffuel2, fa_next fuel ffuel2 r' = (r', ONone)) /\
  (forall fuel ffuel2 n rs, fa_read_set fuel ffuel2 n r' rs = (r', rs, ONone)).
Proof.
  intros H L. destruct (fa_seek_io_state _ _ _ _ _ _ H) as [[L' _]|(o & rs & _ & Hst & _)]; [congruence|].
  splits; [exact Hst| |].
  - intros. apply fa_finished_sticky. exact Hst.
  - intros. apply fa_read_set_finished_sticky. exact Hst.
Qed.

Lemma fa_finished_final r : st r = FFinished ->
  (forall fuel ffuel, fa_next fuel ffuel r = (r, ONone)) /\
  (forall fuel ffuel n rs, fa_read_set fuel ffuel n r rs = (r, rs, ONone)).
Proof.
  intros H. split; intros; [apply fa_finished_sticky|apply fa_read_set_finished_sticky]; exact H.
Qed.

(** a started FASTA reader: an I/O error of [next] / [read_record_set] is final *)
Theorem fa_next_io_error_final fuel ffuel r r' k :
  fa_next fuel ffuel r = (r', OErr (FaIo k)) -> st r <> FNew ->
  st r' = FFinished /\
  (forall fuel2 ffuel2, fa_next fuel2 ffuel2 r' = (r', ONone)) /\
  (forall fuel2 ffuel2 n rs, fa_read_set fuel2 ffuel2 n r' rs = (r', rs, ONone)).
Proof.
  intros H Hn. destruct (fa_next_io_state _ _ _ _ _ H) as [[Hq _]|Hst]; [contradiction|].
  split; [exact Hst|]. apply fa_finished_final. exact Hst.
Qed.

Theorem fa_read_set_io_error_final fuel ffuel n r rs r' rs' k :
  fa_read_set fuel ffuel n r rs = (r', rs', OErr (FaIo k)) -> st r <> FNew ->
  st r' = FFinished /\
  (forall fuel2 ffuel2, fa_next fuel2 ffuel2 r' = (r', ONone)) /\
  (forall fuel2 ffuel2 n2 rs2, fa_read_set fuel2 ffuel2 n2 r' rs2 = (r', rs2, ONone)).
Proof.
  intros H Hn. destruct (fa_read_set_io_state _ _ _ _ _ _ _ _ H) as [[Hq _]|Hst]; [contradiction|].
  split; [exact Hst|]. apply fa_finished_final. exact Hst.
Qed.

(* ================================================================== *)
(** * FASTQ *)

Lemma fq_fill_err_event ffuel r r' k : fq_fill ffuel r = (r', FillErr k) ->
  exists off rest, qlog r' = EvRead off (RFailed k) :: rest ++ qlog r.
Proof.
  unfold fq_fill. intros H.
  destruct (fill_buf ffuel (qbuf r) (qcap r) (qsrc r) (qlog r) 0) as [[[b s] lg] res] eqn:E.
  inversion H; subst. destruct (fill_buf_fault _ _ _ _ _ _ _ _ _ _ E) as (L & _ & Hk & _).
  destruct (proj1 (Hk k) eq_refl) as (o & rest & Ha). exists o, rest. fq_simpl. rewrite L at 1. rewrite Ha. reflexivity.
Qed.

Lemma fq_grow_err r r' e : fq_grow r = (r', QGErr e) -> e = FqBufferLimit.
Proof.
  unfold fq_grow. destruct (qpolf r (qpolh r) (qcap r)) as [n|]; [destruct (n <=? qcap r)|]; intros H; inversion H; reflexivity.
Qed.

Lemma fq_resume_io_state ffuel mk : forall fuel s r r' k,
  fq_resume fuel ffuel s mk r = (r', QrErr (FqIo k)) -> qst r' = QFinished /\ qbuf r' = [].
Proof.
  induction fuel as [|f IH]; intros s r r' k H; cbn [fq_resume] in H; [discriminate|].
  destruct (length (qbuf r) <? qcap r).
  { destruct (fq_check_end_facts _ _ _ _ H) as [_ Hn]. discriminate Hn. }
  destruct (if negb mk || (p0 r =? 0) then fq_grow r else fq_make_room s r) as [r1 g] eqn:E1.
  assert (Hg : forall e, g = QGErr e -> e = FqBufferLimit).
  { intros e ->. destruct (negb mk || (p0 r =? 0)).
    - apply (fq_grow_err _ _ _ E1).
    - destruct (fq_make_room_facts _ _ _ _ E1) as (_ & _ & _ & Hne & _). exfalso. apply (Hne e). reflexivity. }
  destruct g as [|e|x]; [|inversion H; subst; discriminate (Hg _ eq_refl)|discriminate].
  destruct (fq_fill ffuel r1) as [r2 fr] eqn:E2.
  destruct fr as [n|k'|]; [|inversion H; subst; split; reflexivity|discriminate].
  destruct (fq_search_from s true r2) as [r3 sr] eqn:E3.
  destruct (fq_search_from_facts _ _ _ _ _ E3) as (_ & _ & Hcls & _).
  destruct sr as [|s'|e|x]; try discriminate.
  - apply (IH _ _ _ _ H).
  - inversion H; subst. discriminate Hcls.
Qed.

Lemma fq_next_tail_io_state fuel ffuel r r' k :
  fq_next_tail fuel ffuel r = (r', QOErr (FqIo k)) -> qst r' = QFinished /\ qbuf r' = [].
Proof.
  unfold fq_next_tail. intros H.
  destruct (match inc r with None => fq_search_from Head false r | Some _ => (r, QsRec) end) as [r1 sr] eqn:E1.
  assert (Hcls : qsres_class sr = None).
  { destruct (inc r); [inversion E1; reflexivity|]. apply (fq_search_from_facts _ _ _ _ _ E1). }
  assert (Hrest : match inc r1 with
      | Some s =>
          let '(r2, rr) := fq_resume fuel ffuel s true r1 in
          match rr with
          | QrErr e => (r2, QOErr e)
          | QrPanic x => (r2, QOPanic x)
          | QrFuel => (r2, QOFuel)
          | QrOk false => (r2, QONone)
          | QrOk true => (r2, QORec (fq_cur r2))
          end
      | None => (r1, QORec (fq_cur r1))
      end = (r', QOErr (FqIo k)) -> qst r' = QFinished /\ qbuf r' = []).
  { intros Hq. destruct (inc r1) as [s|]; [|discriminate].
    destruct (fq_resume fuel ffuel s true r1) as [r2 rr] eqn:E2.
    destruct rr as [[|]|e|x|]; try discriminate. inversion Hq; subst. apply (fq_resume_io_state _ _ _ _ _ _ _ E2). }
  destruct sr as [|s|e|x]; try (apply Hrest; exact H); try discriminate.
  inversion H; subst. discriminate Hcls.
Qed.

(** [next]: an I/O error finishes the reader and drops its buffer, unless it was
    raised by [init] (then the reader is still [New] and the call can be repeated) *)
Theorem fq_next_io_buffer fuel ffuel r r' k : fq_next fuel ffuel r = (r', QOErr (FqIo k)) ->
  (qst r = QNew /\ qst r' = QNew) \/ (qst r' = QFinished /\ qbuf r' = []).
Proof.
  unfold fq_next. intros H. destruct (qst r) eqn:Es.
  - destruct (fq_init ffuel r) as [r1 ir] eqn:E1.
    destruct ir as [[|]|e|]; try discriminate.
    + right. apply (fq_next_tail_io_state _ _ _ _ _ H).
    + inversion H; subst. left. split; [reflexivity|].
      unfold fq_init in E1. destruct (fq_fill ffuel r) as [r1 fr] eqn:E2.
      destruct (fq_fill_run false _ _ _ _ E2) as (_ & _ & Hst & _).
      destruct fr as [[|n]|k'|]; inversion E1; subst. congruence.
  - right. destruct (inc r); [apply (fq_next_tail_io_state _ _ _ _ _ H)|].
    destruct (fq_increment r) as [r1|]; [|discriminate]. apply (fq_next_tail_io_state _ _ _ _ _ H).
  - right. apply (fq_next_tail_io_state _ _ _ _ _ H).
  - discriminate.
Qed.

Theorem fq_next_io_state fuel ffuel r r' k : fq_next fuel ffuel r = (r', QOErr (FqIo k)) ->
  (qst r = QNew /\ qst r' = QNew) \/ qst r' = QFinished.
Proof. intros H. destruct (fq_next_io_buffer _ _ _ _ _ H) as [A|[A _]]; [left|right]; exact A. Qed.

Lemma fq_set_loop_io_state rfuel ffuel : forall fuel n is_new r ps r' ps' k,
  fq_set_loop fuel rfuel ffuel n is_new r ps = (r', ps', QLErr (FqIo k)) -> qst r' = QFinished /\ qbuf r' = [].
Proof.
  induction fuel as [|f IH]; intros n is_new r ps r' ps' k H; cbn [fq_set_loop] in H; [discriminate|].
  destruct (fq_state_eqb (qst r) QFinished); [discriminate|].
  assert (Hfound : forall r2,
     (let ps2 := ps ++ [fq_bp r2] in
      match fq_increment r2 with
      | None => (r2, ps2, QLPanic 3)
      | Some r4 => if reached n (length ps2) then (r4, ps2, QLDone)
                   else fq_set_loop f rfuel ffuel n is_new r4 ps2
      end) = (r', ps', QLErr (FqIo k)) -> qst r' = QFinished /\ qbuf r' = []).
  { intros r2 Hq. cbv zeta in Hq. destruct (fq_increment r2) as [r4|]; [|discriminate].
    destruct (reached n (length (ps ++ [fq_bp r2]))); [discriminate|]. apply (IH _ _ _ _ _ _ _ Hq). }
  destruct (inc r) as [s|].
  - destruct (fq_resume rfuel ffuel s is_new (qset_inc r None)) as [r1 rr] eqn:E1.
    destruct rr as [[|]|e|x|]; try discriminate.
    + apply (Hfound _ H).
    + destruct ps; discriminate.
    + inversion H; subst. apply (fq_resume_io_state _ _ _ _ _ _ _ E1).
  - destruct (fq_search_from Head false r) as [r1 sr] eqn:E1.
    destruct (fq_search_from_facts _ _ _ _ _ E1) as (_ & _ & Hcls & _).
    destruct sr as [|s|e|x]; try discriminate.
    + apply (Hfound _ H).
    + destruct ps as [|p ps0]; [apply (IH _ _ _ _ _ _ _ H)|].
      destruct (below n (length (p :: ps0))); [apply (IH _ _ _ _ _ _ _ H)|discriminate].
    + inversion H; subst. discriminate Hcls.
Qed.

Theorem fq_read_set_io_buffer fuel ffuel n r rs r' rs' k :
  fq_read_set fuel ffuel n r rs = (r', rs', QOErr (FqIo k)) ->
  (qst r = QNew /\ qst r' = QNew) \/ (qst r' = QFinished /\ qbuf r' = []).
Proof.
  unfold fq_read_set. intros H.
  assert (Hgo : forall r0,
     (let '(r1, ps, lr) := fq_set_loop fuel fuel ffuel n true r0 [] in
      match lr with
      | QLDone => (r1, mkFqSet (qbuf r1) ps, QOSetOk)
      | QLErr e => (r1, mkFqSet (qsbuf rs) [], QOErr e)
      | QLPanic x => (r1, mkFqSet (qsbuf rs) ps, QOPanic x)
      | QLFuel => (r1, mkFqSet (qsbuf rs) ps, QOFuel)
      | QLNone => (r1, mkFqSet (qsbuf rs) ps, QONone)
      end) = (r', rs', QOErr (FqIo k)) -> qst r' = QFinished /\ qbuf r' = []).
  { intros r0 Hq. destruct (fq_set_loop fuel fuel ffuel n true r0 []) as [[r1 ps1] lr] eqn:E.
    destruct lr as [|e|x| |]; try discriminate. inversion Hq; subst.
    apply (fq_set_loop_io_state _ _ _ _ _ _ _ _ _ _ E). }
  destruct (qst r) eqn:Es.
  - destruct (fq_init ffuel r) as [r1 ir] eqn:E1.
    destruct ir as [[|]|e|]; try discriminate.
    + right. apply (Hgo _ H).
    + inversion H; subst. left. split; [reflexivity|].
      unfold fq_init in E1. destruct (fq_fill ffuel r) as [r1 fr] eqn:E2.
      destruct (fq_fill_run false _ _ _ _ E2) as (_ & _ & Hst & _).
      destruct fr as [[|n']|k'|]; inversion E1; subst. congruence.
  - right. destruct (inc r); [apply (Hgo _ H)|].
    destruct (fq_increment r) as [r1|]; [|discriminate]. apply (Hgo _ H).
  - right. apply (Hgo _ H).
  - discriminate.
Qed.

Theorem fq_read_set_io_state fuel ffuel n r rs r' rs' k :
  fq_read_set fuel ffuel n r rs = (r', rs', QOErr (FqIo k)) ->
  (qst r = QNew /\ qst r' = QNew) \/ qst r' = QFinished.
Proof. intros H. destruct (fq_read_set_io_buffer _ _ _ _ _ _ _ _ H) as [A|[A _]]; [left|right]; exact A. Qed.

Theorem fq_seek_io_state ffuel r line byte_ r' k : fq_seek ffuel r line byte_ = (r', QOErr (FqIo k)) ->
  (qlog r' = EvSeek byte_ (Some k) :: qlog r /\ r' = qset_log (qset_src r (qsrc r')) (qlog r')) \/
  (exists off rest, qlog r' = EvRead off (RFailed k) :: rest ++ EvSeek byte_ None :: qlog r /\ qst r' = QFinished /\ qbuf r' = []).
Proof.
  unfold fq_seek. intros H.
  destruct ((0 <=? Z.of_nat (p0 r) + (Z.of_nat byte_ - Z.of_nat (qbyte r)))%Z &&
            (Z.of_nat (p0 r) + (Z.of_nat byte_ - Z.of_nat (qbyte r)) <? Z.of_nat (length (qbuf r)))%Z && negb (fq_state_eqb (qst r) QNew)); [discriminate|].
  destruct (src_seek (qsrc r) byte_) as [s' res] eqn:Es.
  destruct res as [k'|].
  - inversion H; subst. left. fq_simpl. split; reflexivity.
  - match type of H with (let '(r1, fr) := fq_fill ffuel ?R in _) = _ => set (r0 := R) in * end.
    destruct (fq_fill ffuel r0) as [r1 fr] eqn:E1.
    destruct fr as [n|k'|]; try discriminate. inversion H; subst. right.
    destruct (fq_fill_err_event _ _ _ _ E1) as (off & rest & L). exists off, rest. fq_simpl. splits; [exact L|reflexivity|reflexivity].
Qed.

Lemma fq_read_set_finished_sticky fuel ffuel n r rs : qst r = QFinished -> fq_read_set fuel ffuel n r rs = (r, rs, QONone).
Proof. intros H. unfold fq_read_set. rewrite H. reflexivity. Qed.

(** once finished, every later read returns end of input *)
Lemma fq_finished_final r : qst r = QFinished ->
  (forall fuel ffuel, fq_next fuel ffuel r = (r, QONone)) /\
  (forall fuel ffuel n rs, fq_read_set fuel ffuel n r rs = (r, rs, QONone)).
Proof.
  intros H. split; intros; [apply fq_finished_sticky|apply fq_read_set_finished_sticky]; exact H.
Qed.

Theorem fq_seek_refill_error_final ffuel r line byte_ r' k off rest :
  fq_seek ffuel r line byte_ = (r', QOErr (FqIo k)) -> qlog r' = EvRead off (RFailed k) :: rest ->
  qst r' = QFinished /\
  (forall fuel ffuel2, fq_next fuel ffuel2 r' = (r', QONone)) /\
  (forall fuel ffuel2 n rs, fq_read_set fuel ffuel2 n r' rs = (r', rs, QONone)).
Proof.
  intros H L. destruct (fq_seek_io_state _ _ _ _ _ _ H) as [[L' _]|(o & rs & _ & Hst & _)]; [congruence|].
  split; [exact Hst|]. apply fq_finished_final. exact Hst.
Qed.

(** a started FASTQ reader: an I/O error of [next] / [read_record_set] is final *)
Theorem fq_next_io_error_final fuel ffuel r r' k :
  fq_next fuel ffuel r = (r', QOErr (FqIo k)) -> qst r <> QNew ->
  qst r' = QFinished /\
  (forall fuel2 ffuel2, fq_next fuel2 ffuel2 r' = (r', QONone)) /\
  (forall fuel2 ffuel2 n rs, fq_read_set fuel2 ffuel2 n r' rs = (r', rs, QONone)).
Proof.
  intros H Hn. destruct (fq_next_io_state _ _ _ _ _ H) as [[Hq _]|Hst]; [contradiction|].
  split; [exact Hst|]. apply fq_finished_final. exact Hst.
Qed.

Theorem fq_read_set_io_error_final fuel ffuel n r rs r' rs' k :
  fq_read_set fuel ffuel n r rs = (r', rs', QOErr (FqIo k)) -> qst r <> QNew ->
  qst r' = QFinished /\
  (forall fuel2 ffuel2, fq_next fuel2 ffuel2 r' = (r', QONone)) /\
  (forall fuel2 ffuel2 n2 rs2, fq_read_set fuel2 ffuel2 n2 r' rs2 = (r', rs2, QONone)).
Proof.
  intros H Hn. destruct (fq_read_set_io_state _ _ _ _ _ _ _ _ H) as [[Hq _]|Hst]; [contradiction|].
  split; [exact Hst|]. apply fq_finished_final. exact Hst.
Qed.

(* ================================================================== *)
(** * A seek from a reader whose buffer was dropped never takes the in-buffer shortcut *)

(** with an empty buffer no target lies "inside the buffer": [seek] performs the
    source seek (an [EvSeek] event is logged) for every target *)
(** whenever the shortcut condition is false, [seek] performs the source seek *)
Lemma fa_seek_real_seeks_source ffuel r line byte_ :
  ((0 <=? Z.of_nat (start r) + (Z.of_nat byte_ - Z.of_nat (pbyte r)))%Z &&
   (Z.of_nat (start r) + (Z.of_nat byte_ - Z.of_nat (pbyte r)) <? Z.of_nat (length (buf r)))%Z &&
   negb (fa_state_eqb (st r) FNew)) = false ->
  exists added, log (fst (fa_seek ffuel r line byte_)) =
                added ++ EvSeek byte_ (snd (src_seek (src r) byte_)) :: log r.
Proof.
  intros E. unfold fa_seek.
  rewrite E. destruct (src_seek (src r) byte_) as [s' res] eqn:Es. cbn [snd].
  destruct res as [k|]; [exists []; reflexivity|].
  match goal with |- context [fa_fill ffuel ?R] => set (r0 := R) end.
  destruct (fa_fill ffuel r0) as [r1 fr] eqn:E1.
  destruct (fa_fill_reads _ _ _ _ E1) as (added & L & _).
  exists added. destruct fr; cbn [fst]; fa_simpl; rewrite L; unfold r0; fa_simpl; reflexivity.
Qed.

Theorem fa_seek_empty_buffer_seeks_source ffuel r line byte_ : buf r = [] ->
  exists added, log (fst (fa_seek ffuel r line byte_)) =
                added ++ EvSeek byte_ (snd (src_seek (src r) byte_)) :: log r.
Proof.
  intros Hb. apply fa_seek_real_seeks_source. rewrite Hb. cbn [length].
  apply andb_false_iff. left.
  apply andb_false_iff. destruct (Z.leb_spec 0 (Z.of_nat (start r) + (Z.of_nat byte_ - Z.of_nat (pbyte r))));
    [right; apply Z.ltb_ge; lia|left; reflexivity].
Qed.

(** a reader that is still New (its buffer, if any, is the partial result of a failed
    first refill) never takes the shortcut either *)
Theorem fa_seek_new_seeks_source ffuel r line byte_ : st r = FNew ->
  exists added, log (fst (fa_seek ffuel r line byte_)) =
                added ++ EvSeek byte_ (snd (src_seek (src r) byte_)) :: log r.
Proof.
  intros Hs. apply fa_seek_real_seeks_source. rewrite Hs. cbn [fa_state_eqb negb]. apply andb_false_r.
Qed.

Lemma fq_seek_real_seeks_source ffuel r line byte_ :
  ((0 <=? Z.of_nat (p0 r) + (Z.of_nat byte_ - Z.of_nat (qbyte r)))%Z &&
   (Z.of_nat (p0 r) + (Z.of_nat byte_ - Z.of_nat (qbyte r)) <? Z.of_nat (length (qbuf r)))%Z &&
   negb (fq_state_eqb (qst r) QNew)) = false ->
  exists added, qlog (fst (fq_seek ffuel r line byte_)) =
                added ++ EvSeek byte_ (snd (src_seek (qsrc r) byte_)) :: qlog r.
Proof.
  intros E. unfold fq_seek.
  rewrite E. destruct (src_seek (qsrc r) byte_) as [s' res] eqn:Es. cbn [snd].
  destruct res as [k|]; [exists []; reflexivity|].
  match goal with |- context [fq_fill ffuel ?R] => set (r0 := R) end.
  destruct (fq_fill ffuel r0) as [r1 fr] eqn:E1.
  destruct (fq_fill_reads _ _ _ _ E1) as (added & L & _).
  exists added. destruct fr; cbn [fst]; fq_simpl; rewrite L; unfold r0; fq_simpl; reflexivity.
Qed.

Theorem fq_seek_empty_buffer_seeks_source ffuel r line byte_ : qbuf r = [] ->
  exists added, qlog (fst (fq_seek ffuel r line byte_)) =
                added ++ EvSeek byte_ (snd (src_seek (qsrc r) byte_)) :: qlog r.
Proof.
  intros Hb. apply fq_seek_real_seeks_source. rewrite Hb. cbn [length].
  apply andb_false_iff. left.
  apply andb_false_iff. destruct (Z.leb_spec 0 (Z.of_nat (p0 r) + (Z.of_nat byte_ - Z.of_nat (qbyte r))));
    [right; apply Z.ltb_ge; lia|left; reflexivity].
Qed.

Theorem fq_seek_new_seeks_source ffuel r line byte_ : qst r = QNew ->
  exists added, qlog (fst (fq_seek ffuel r line byte_)) =
                added ++ EvSeek byte_ (snd (src_seek (qsrc r) byte_)) :: qlog r.
Proof.
  intros Hs. apply fq_seek_real_seeks_source. rewrite Hs. cbn [fq_state_eqb negb]. apply andb_false_r.
Qed.
