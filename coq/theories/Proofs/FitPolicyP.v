(** C03 (policies): when every record fits, the growth policy is irrelevant.

    Two readers that differ ONLY in their policy function ([fa_peq] / [fq_peq]: same
    buffer, capacity, source, offsets, position, state flag, consultation history and
    event log) run in lockstep -- same outcome, same record set, related states -- through
    every entry point, UNLESS the first of the two consults its policy during the call,
    i.e. logs an [EvGrow] event ([ngrow] of its log increases).  The policy function is
    used in [grow] only, and [grow] logs the consultation before anything else.

    Hence: if a history under policy [pol1] never logs a grow event, the history under
    ANY policy [pol2] (one that refuses everything, or answers nonsense) shows the same
    observations and ends in the same state up to the policy function
    ([fa_unconsulted_policy_irrelevant] / [fq_unconsulted_policy_irrelevant]; every
    operation, also exact-count reads and seeks).

    With FitSetsP.v (a fitting input never makes a never-refusing policy grow) and the
    never-refusing completion [pol_complete] of LimitPrefixP.v: on an input whose records
    all fit the initial capacity, every policy is never consulted, never refuses, and all
    policies give the same observations, which are a run of the cursor machine over the
    specification stream. *)
From SeqIO Require Import Model.Base Model.Fasta Model.Alloc Model.Views Spec.FastaSpec Spec.Cursor
     Proofs.Window Proofs.FastaScanP Proofs.FastaInv Proofs.FastaStream Proofs.FastaNextP
     Proofs.FastaInitP Proofs.ViewsP Proofs.ViewShiftP Proofs.FastaPosP Proofs.FastaTopP
     Proofs.FastaSetP Proofs.FastaSeekP
     Proofs.TraceP Proofs.FaultP Proofs.GrowP Proofs.InterruptP Proofs.FastaHistP
     Proofs.AllocP Proofs.AllocSetP Proofs.AllocFitP Proofs.FitSetsP
     Proofs.FaPrefixP Proofs.LimitPrefixP.

(* ================================================================== *)
(** * Counting consultations in a log *)

Definition ngrow (l : list ev) : nat := length (filter ev_is_grow l).

Lemma ngrow_app a b : ngrow (a ++ b) = ngrow a + ngrow b.
Proof. unfold ngrow. rewrite filter_app, app_length. reflexivity. Qed.

Lemma ngrow_zero l : filter ev_is_grow l = [] -> ngrow l = 0.
Proof. unfold ngrow. intros ->. reflexivity. Qed.

Lemma ngrow_zero_inv l : ngrow l = 0 -> filter ev_is_grow l = [].
Proof. unfold ngrow. destruct (filter ev_is_grow l); [reflexivity|discriminate]. Qed.

Lemma Ext_ngrow r r' : Ext r r' -> ngrow (log r) <= ngrow (log r').
Proof. intros (ad & L & _). rewrite L, ngrow_app. lia. Qed.

Lemma fa_grow_ngrow r r' g : fa_grow r = (r', g) -> ngrow (log r') = S (ngrow (log r)).
Proof.
  intros H. pose proof (fa_grow_spec r) as S. cbv zeta in S. rewrite H in S. cbn [fst] in S.
  destruct S as (L & _). rewrite L. reflexivity.
Qed.

(* ================================================================== *)
(** * FASTA *)

(** the same reader state; only the policy FUNCTION may differ *)
Definition fa_peq (a b : fa) : Prop := exists q, b = set_pol a q (polh a).

Lemma fa_peq_refl a : fa_peq a a.
Proof. exists (polf a). destruct a; reflexivity. Qed.

Lemma fa_peq_new cap0 s p1 p2 : fa_peq (fa_new cap0 s p1) (fa_new cap0 s p2).
Proof. exists p2. reflexivity. Qed.

Lemma fa_peq_fields a b : fa_peq a b ->
  buf b = buf a /\ cap b = cap a /\ src b = src a /\ start b = start a /\ seqpos b = seqpos a /\
  pline b = pline a /\ pbyte b = pbyte a /\ spos b = spos a /\ st b = st a /\ polh b = polh a /\
  log b = log a.
Proof. intros (q & ->). repeat split; reflexivity. Qed.

Lemma fa_peq_twin a b : fa_peq a b -> b = set_pol a (polf b) (polh a).
Proof. intros (q & ->). reflexivity. Qed.

Lemma polind_peq {X} (f : fa -> fa * X) : PolInd f -> forall a b, fa_peq a b ->
  snd (f b) = snd (f a) /\ fa_peq (fst (f a)) (fst (f b)).
Proof.
  intros Hf a b (q & ->). destruct (Hf q (polh a) a) as (E & Ef & Eh). rewrite E. cbn [fst snd].
  split; [reflexivity|]. exists q. rewrite Eh. reflexivity.
Qed.

Lemma fa_peq_set (g : fa -> fa) a b :
  (forall q h x, g (set_pol x q h) = set_pol (g x) q h) -> (forall x, polh (g x) = polh x) ->
  fa_peq a b -> fa_peq (g a) (g b).
Proof. intros Hg Hp (q & ->). exists q. rewrite Hg, Hp. reflexivity. Qed.

Lemma fa_peq_st a b x : fa_peq a b -> fa_peq (set_st a x) (set_st b x).
Proof. apply (fa_peq_set (fun y => set_st y x)); [reflexivity|reflexivity]. Qed.

Lemma fa_increment_peq a b : fa_peq a b ->
  match fa_increment a, fa_increment b with
  | Some a1, Some b1 => fa_peq a1 b1
  | None, None => True
  | _, _ => False
  end.
Proof.
  intros (q & ->). unfold fa_increment. fa_simpl.
  destruct (spos a <? start a); [exact I|]. exists q. reflexivity.
Qed.

Lemma fa_set_put_peq rs a b : fa_peq a b -> fa_set_put rs b = fa_set_put rs a.
Proof. intros (q & ->). reflexivity. Qed.

Lemma fa_position_peq a b : fa_peq a b -> fa_position b = fa_position a.
Proof. intros (q & ->). reflexivity. Qed.

(** two results: equal outcome and related states -- or the first reader consulted its
    policy since [base] *)
Definition GRel {X} (base : fa) (xa xb : fa * X) : Prop :=
  (snd xb = snd xa /\ fa_peq (fst xa) (fst xb)) \/ ngrow (log base) < ngrow (log (fst xa)).

Lemma GRel_same {X} base a b (x : X) : fa_peq a b -> GRel base (a, x) (b, x).
Proof. intros H. left. split; [reflexivity|exact H]. Qed.

Lemma fa_resume_grel ffuel mk : forall fuel base a b, fa_peq a b -> ngrow (log base) <= ngrow (log a) ->
  GRel base (fa_resume fuel ffuel mk a) (fa_resume fuel ffuel mk b).
Proof.
  induction fuel as [|f IH]; intros base a b Hr Hm; cbn [fa_resume]; [apply GRel_same; exact Hr|].
  destruct (fa_peq_fields _ _ Hr) as (_ & _ & _ & Es & _). rewrite Es.
  destruct (negb mk || (start a =? 0)).
  - (* the policy is consulted *)
    right. destruct (fa_grow a) as [a1 g] eqn:Eg. pose proof (fa_grow_ngrow _ _ _ Eg) as G1.
    destruct g as [|e|x]; cbn [fst]; try lia.
    destruct (fa_fill ffuel a1) as [a2 fr] eqn:Ef. pose proof (Ext_ngrow _ _ (fa_fill_ext _ _ _ _ Ef)) as G2.
    destruct fr as [n|k|]; cbn [fst]; fa_simpl; try lia.
    destruct (fa_search a2) as [a3 sr] eqn:Es3. pose proof (Ext_ngrow _ _ (fa_search_ext _ _ _ Es3)) as G3.
    destruct sr as [[|]|x]; cbn [fst]; try lia.
    destruct (fa_resume f ffuel mk a3) as [a4 rr] eqn:Er.
    pose proof (Ext_ngrow _ _ (fa_resume_ext _ _ _ _ _ _ Er)) as G4. cbn [fst]. lia.
  - destruct (polind_peq fa_make_room fa_make_room_pi a b Hr) as [Hg Hr1].
    destruct (fa_make_room a) as [a1 g0] eqn:E1. destruct (fa_make_room b) as [b1 g]. cbn [fst snd] in *. subst g.
    pose proof (Ext_ngrow _ _ (fa_make_room_ext _ _ _ E1)) as G1.
    destruct g0 as [|e|x]; try (apply GRel_same; exact Hr1).
    destruct (polind_peq (fa_fill ffuel) (fa_fill_pi ffuel) a1 b1 Hr1) as [Hfr Hr2].
    destruct (fa_fill ffuel a1) as [a2 fr0] eqn:E2. destruct (fa_fill ffuel b1) as [b2 fr]. cbn [fst snd] in *. subst fr.
    pose proof (Ext_ngrow _ _ (fa_fill_ext _ _ _ _ E2)) as G2.
    destruct fr0 as [n|k|].
    + destruct (polind_peq fa_search fa_search_pi a2 b2 Hr2) as [Hs Hr3].
      destruct (fa_search a2) as [a3 sr0] eqn:E3. destruct (fa_search b2) as [b3 sr]. cbn [fst snd] in *. subst sr.
      pose proof (Ext_ngrow _ _ (fa_search_ext _ _ _ E3)) as G3.
      destruct sr0 as [[|]|x]; try (apply GRel_same; exact Hr3).
      apply IH; [exact Hr3|lia].
    + apply GRel_same. apply fa_peq_st.
      apply (fa_peq_set (fun y => set_buf y [])); [reflexivity|reflexivity|exact Hr2].
    + apply GRel_same. exact Hr2.
Qed.

Lemma fa_next_tail_grel fuel ffuel base a b : fa_peq a b -> ngrow (log base) <= ngrow (log a) ->
  GRel base (fa_next_tail fuel ffuel a) (fa_next_tail fuel ffuel b).
Proof.
  intros Hr Hm. unfold fa_next_tail.
  destruct (fa_peq_fields _ _ Hr) as (_ & _ & _ & _ & _ & _ & _ & _ & Est & _). rewrite Est.
  assert (H1 : snd (if fa_state_eqb (st a) FIncomplete then (b, SFound true) else fa_search b) =
               snd (if fa_state_eqb (st a) FIncomplete then (a, SFound true) else fa_search a) /\
               fa_peq (fst (if fa_state_eqb (st a) FIncomplete then (a, SFound true) else fa_search a))
                      (fst (if fa_state_eqb (st a) FIncomplete then (b, SFound true) else fa_search b)) /\
               ngrow (log a) <=
               ngrow (log (fst (if fa_state_eqb (st a) FIncomplete then (a, SFound true) else fa_search a)))).
  { destruct (fa_state_eqb (st a) FIncomplete); [split; [reflexivity|split; [exact Hr|cbn [fst]; lia]]|].
    destruct (polind_peq fa_search fa_search_pi a b Hr) as [H1 H2]. split; [exact H1|split; [exact H2|]].
    apply Ext_ngrow. eapply fa_search_ext. apply surjective_pairing. }
  destruct H1 as (Hs & Hr1 & G1).
  destruct (if fa_state_eqb (st a) FIncomplete then (a, SFound true) else fa_search a) as [a1 sr0].
  destruct (if fa_state_eqb (st a) FIncomplete then (b, SFound true) else fa_search b) as [b1 sr].
  cbn [fst snd] in *. subst sr.
  destruct sr0 as [x|x]; [|apply GRel_same; exact Hr1].
  destruct (fa_peq_fields _ _ Hr1) as (Eb1 & _ & _ & Es1 & Eq1 & _ & _ & _ & Est1 & _).
  rewrite Est1. unfold fa_cur. rewrite Eb1, Es1, Eq1.
  destruct (fa_state_eqb (st a1) FIncomplete); [|apply GRel_same; exact Hr1].
  destruct (fa_resume_grel ffuel true fuel base a1 b1 Hr1 ltac:(lia)) as [[Hrr Hr2]|Hg].
  2:{ right. destruct (fa_resume fuel ffuel true a1) as [a2 rr0]. cbn [fst] in Hg.
      destruct rr0 as [[|]|e|x0|]; cbn [fst]; try exact Hg.
      destruct (fa_state_eqb (st a2) FFinished); fa_simpl; exact Hg. }
  destruct (fa_resume fuel ffuel true a1) as [a2 rr0]. destruct (fa_resume fuel ffuel true b1) as [b2 rr].
  cbn [fst snd] in *. subst rr.
  destruct rr0 as [[|]|e|x0|]; try (apply GRel_same; exact Hr2).
  destruct (fa_peq_fields _ _ Hr2) as (Eb2 & _ & _ & Es2 & Eq2 & _ & _ & _ & Est2 & _).
  rewrite Est2. destruct (fa_state_eqb (st a2) FFinished).
  - rewrite Eb2, Es2, Eq2. apply GRel_same. exact Hr2.
  - fa_simpl. rewrite Eb2, Es2, Eq2. apply GRel_same. apply fa_peq_st. exact Hr2.
Qed.

Lemma fa_init_ngrow fuel ffuel r : ngrow (log r) <= ngrow (log (fst (fa_init fuel ffuel r))).
Proof.
  apply Ext_ngrow. destruct (fa_init fuel ffuel r) as [r1 ir] eqn:E. cbn [fst].
  apply (proj1 (fa_init_ext _ _ _ _ _ E)).
Qed.

Lemma fa_increment_ngrow r r1 : fa_increment r = Some r1 -> ngrow (log r1) = ngrow (log r).
Proof. intros H. destruct (fa_increment_same _ _ H) as (L & _). rewrite L. reflexivity. Qed.

Theorem fa_next_grel fuel ffuel a b : fa_peq a b ->
  GRel a (fa_next fuel ffuel a) (fa_next fuel ffuel b).
Proof.
  intros Hr. unfold fa_next.
  destruct (fa_peq_fields _ _ Hr) as (_ & _ & _ & _ & _ & _ & _ & _ & Est & _). rewrite Est.
  destruct (st a).
  - destruct (polind_peq (fa_init fuel ffuel) (fa_init_pi fuel ffuel) a b Hr) as [Hi Hr1].
    pose proof (fa_init_ngrow fuel ffuel a) as G1.
    destruct (fa_init fuel ffuel a) as [a1 ir0]. destruct (fa_init fuel ffuel b) as [b1 ir].
    cbn [fst snd] in *. subst ir.
    destruct ir0 as [[|]|e|]; try (apply GRel_same; exact Hr1).
    apply fa_next_tail_grel; [apply fa_peq_st; exact Hr1|exact G1].
  - pose proof (fa_increment_peq a b Hr) as Hi.
    destruct (fa_increment a) as [a1|] eqn:Ea; destruct (fa_increment b) as [b1|]; try contradiction.
    + apply fa_next_tail_grel; [exact Hi|]. rewrite (fa_increment_ngrow _ _ Ea). lia.
    + apply GRel_same. exact Hr.
  - apply fa_next_tail_grel; [exact Hr|lia].
  - apply fa_next_tail_grel; [apply fa_peq_st; exact Hr|fa_simpl; lia].
  - apply GRel_same. exact Hr.
Qed.

(* ------------------------------------------------------------------ *)
(** ** record sets *)

Definition GRel3 {X Y} (base : fa) (xa xb : fa * X * Y) : Prop :=
  (snd xb = snd xa /\ snd (fst xb) = snd (fst xa) /\ fa_peq (fst (fst xa)) (fst (fst xb))) \/
  ngrow (log base) < ngrow (log (fst (fst xa))).

Lemma GRel3_same {X Y} base a b (p : X) (y : Y) : fa_peq a b -> GRel3 base (a, p, y) (b, p, y).
Proof. intros H. left. cbn [fst snd]. auto. Qed.

(** the log of the set loop only gets longer *)
Lemma fa_set_loop_ngrow rfuel ffuel : forall fuel n is_new r rs,
  ngrow (log r) <= ngrow (log (fst (fst (fa_set_loop fuel rfuel ffuel n is_new r rs)))).
Proof.
  induction fuel as [|f IH]; intros n is_new r rs; [cbn [fa_set_loop fst]; lia|].
  assert (Hfound : forall a rs2, ngrow (log a) <= ngrow (log (fst (fst (sl_found f rfuel ffuel n is_new a rs2))))).
  { intros a rs2. unfold sl_found. destruct (fa_increment a) as [a1|] eqn:Ea; [|cbn [fst]; lia].
    rewrite <- (fa_increment_ngrow _ _ Ea).
    destruct (reached n (snpos (fa_set_put rs2 a))); [cbn [fst]; lia|apply IH]. }
  rewrite fa_set_loop_S.
  destruct (fa_state_eqb (st r) FFinished); [cbn [fst]; lia|].
  destruct (fa_state_eqb (st r) FIncomplete).
  - destruct (fa_resume rfuel ffuel is_new r) as [r1 rr] eqn:Er.
    pose proof (Ext_ngrow _ _ (fa_resume_ext _ _ _ _ _ _ Er)) as G1.
    destruct rr as [[|]|e|x|]; cbn [fst]; try lia.
    eapply Nat.le_trans; [|apply Hfound].
    destruct (fa_state_eqb (st r1) FFinished); fa_simpl; lia.
  - destruct (fa_search r) as [r1 sr] eqn:Es.
    pose proof (Ext_ngrow _ _ (fa_search_ext _ _ _ Es)) as G1.
    destruct sr as [[|]|x]; cbn [fst]; try lia.
    + eapply Nat.le_trans; [exact G1|apply Hfound].
    + destruct (snpos rs =? 0); [eapply Nat.le_trans; [exact G1|apply IH]|].
      destruct (below n (snpos rs)); [eapply Nat.le_trans; [exact G1|apply IH]|cbn [fst]; lia].
Qed.

Lemma fa_set_loop_grel rfuel ffuel : forall fuel n is_new base a b rs, fa_peq a b ->
  ngrow (log base) <= ngrow (log a) ->
  GRel3 base (fa_set_loop fuel rfuel ffuel n is_new a rs) (fa_set_loop fuel rfuel ffuel n is_new b rs).
Proof.
  induction fuel as [|f IH]; intros n is_new base a b rs Hr Hm.
  { cbn [fa_set_loop]. apply GRel3_same. exact Hr. }
  assert (Hfound : forall a1 b1 rs2, fa_peq a1 b1 -> ngrow (log base) <= ngrow (log a1) ->
            GRel3 base (sl_found f rfuel ffuel n is_new a1 rs2) (sl_found f rfuel ffuel n is_new b1 rs2)).
  { intros a1 b1 rs2 Ha G. unfold sl_found. rewrite (fa_set_put_peq rs2 a1 b1 Ha).
    pose proof (fa_increment_peq a1 b1 Ha) as Hi.
    destruct (fa_increment a1) as [a2|] eqn:Ea; destruct (fa_increment b1) as [b2|]; try contradiction.
    - destruct (reached n (snpos (fa_set_put rs2 a1))); [apply GRel3_same; exact Hi|].
      apply IH; [exact Hi|]. rewrite (fa_increment_ngrow _ _ Ea). exact G.
    - apply GRel3_same. exact Ha. }
  rewrite !fa_set_loop_S.
  destruct (fa_peq_fields _ _ Hr) as (_ & _ & _ & _ & _ & _ & _ & _ & Est & _). rewrite Est.
  destruct (fa_state_eqb (st a) FFinished); [apply GRel3_same; exact Hr|].
  destruct (fa_state_eqb (st a) FIncomplete).
  - destruct (fa_resume_grel ffuel is_new rfuel base a b Hr Hm) as [[Hrr Hr1]|Hg].
    2:{ right. destruct (fa_resume rfuel ffuel is_new a) as [a1 rr0]. cbn [fst] in Hg.
        destruct rr0 as [[|]|e|x|]; cbn [fst]; try exact Hg.
        eapply Nat.lt_le_trans; [exact Hg|].
        match goal with |- _ <= ngrow (log (fst (fst (sl_found _ _ _ _ _ ?A _)))) =>
          apply (Nat.le_trans _ (ngrow (log A))) end.
        - destruct (fa_state_eqb (st a1) FFinished); fa_simpl; lia.
        - unfold sl_found.
          match goal with |- context [fa_increment ?A] => destruct (fa_increment A) as [a2|] eqn:Ea end;
            [|cbn [fst]; lia].
          rewrite <- (fa_increment_ngrow _ _ Ea).
          match goal with |- context [reached ?N ?M] => destruct (reached N M) end; [cbn [fst]; lia|].
          apply fa_set_loop_ngrow. }
    pose proof (Ext_ngrow a (fst (fa_resume rfuel ffuel is_new a))) as G1.
    destruct (fa_resume rfuel ffuel is_new a) as [a1 rr0] eqn:Era. destruct (fa_resume rfuel ffuel is_new b) as [b1 rr].
    cbn [fst snd] in *. subst rr. specialize (G1 (fa_resume_ext _ _ _ _ _ _ Era)).
    destruct rr0 as [[|]|e|x|]; try (apply GRel3_same; exact Hr1).
    destruct (fa_peq_fields _ _ Hr1) as (_ & _ & _ & _ & _ & _ & _ & _ & Est1 & _). rewrite Est1.
    destruct (fa_state_eqb (st a1) FFinished).
    + apply Hfound; [exact Hr1|lia].
    + apply Hfound; [apply fa_peq_st; exact Hr1|fa_simpl; lia].
  - destruct (polind_peq fa_search fa_search_pi a b Hr) as [Hs Hr1].
    destruct (fa_search a) as [a1 sr0] eqn:Esa. destruct (fa_search b) as [b1 sr]. cbn [fst snd] in *. subst sr.
    pose proof (Ext_ngrow _ _ (fa_search_ext _ _ _ Esa)) as G1.
    destruct sr0 as [[|]|x].
    + apply Hfound; [exact Hr1|lia].
    + destruct (snpos rs =? 0); [apply IH; [exact Hr1|lia]|].
      destruct (below n (snpos rs)); [apply IH; [exact Hr1|lia]|].
      apply GRel3_same. exact Hr1.
    + apply GRel3_same. exact Hr1.
Qed.

Theorem fa_read_set_grel fuel ffuel n a b rs : fa_peq a b ->
  GRel3 a (fa_read_set fuel ffuel n a rs) (fa_read_set fuel ffuel n b rs).
Proof.
  intros Hr. unfold fa_read_set.
  assert (Hgo : forall a1 b1, fa_peq a1 b1 -> ngrow (log a) <= ngrow (log a1) ->
    GRel3 a (fa_set_finish (fa_set_loop fuel fuel ffuel n true a1 (mkFaSet (sbuf rs) (spositions rs) 0)))
            (fa_set_finish (fa_set_loop fuel fuel ffuel n true b1 (mkFaSet (sbuf rs) (spositions rs) 0)))).
  { intros a1 b1 Ha G.
    destruct (fa_set_loop_grel fuel ffuel fuel n true a a1 b1 (mkFaSet (sbuf rs) (spositions rs) 0) Ha G)
      as [(Hlr & Hps & Hr1)|Hg].
    2:{ right. destruct (fa_set_loop fuel fuel ffuel n true a1 (mkFaSet (sbuf rs) (spositions rs) 0)) as [[a2 ps2] lr].
        cbn [fst] in Hg. unfold fa_set_finish. destruct lr; cbn [fst]; exact Hg. }
    destruct (fa_set_loop fuel fuel ffuel n true a1 (mkFaSet (sbuf rs) (spositions rs) 0)) as [[a2 ps2] lr0].
    destruct (fa_set_loop fuel fuel ffuel n true b1 (mkFaSet (sbuf rs) (spositions rs) 0)) as [[b2 ps1] lr].
    cbn [fst snd] in *. subst lr ps1. unfold fa_set_finish.
    destruct (fa_peq_fields _ _ Hr1) as (Eb & _).
    destruct lr0; try rewrite Eb; apply GRel3_same; exact Hr1. }
  destruct (fa_peq_fields _ _ Hr) as (_ & _ & _ & _ & _ & _ & _ & _ & Est & _). rewrite Est.
  destruct (st a).
  - destruct (polind_peq (fa_init fuel ffuel) (fa_init_pi fuel ffuel) a b Hr) as [Hi Hr1].
    pose proof (fa_init_ngrow fuel ffuel a) as G1.
    destruct (fa_init fuel ffuel a) as [a1 ir0]. destruct (fa_init fuel ffuel b) as [b1 ir].
    cbn [fst snd] in *. subst ir.
    destruct ir0 as [[|]|e|]; try (apply GRel3_same; exact Hr1).
    apply Hgo; [apply fa_peq_st; exact Hr1|exact G1].
  - pose proof (fa_increment_peq a b Hr) as Hi.
    destruct (fa_increment a) as [a1|] eqn:Ea; destruct (fa_increment b) as [b1|]; try contradiction.
    + apply Hgo; [apply fa_peq_st; exact Hi|]. fa_simpl. rewrite (fa_increment_ngrow _ _ Ea). lia.
    + apply GRel3_same. exact Hr.
  - apply Hgo; [exact Hr|lia].
  - apply Hgo; [exact Hr|lia].
  - apply GRel3_same. exact Hr.
Qed.

(* ------------------------------------------------------------------ *)
(** ** seek; the buffer-limit error is a logged consultation *)

Lemma ngrow_cons_seek b res l : ngrow (EvSeek b res :: l) = ngrow l.
Proof. reflexivity. Qed.

Lemma fa_seek_ngrow ffuel r line byte_ :
  ngrow (log r) <= ngrow (log (fst (fa_seek ffuel r line byte_))).
Proof.
  unfold fa_seek.
  destruct (((0 <=? Z.of_nat (start r) + (Z.of_nat byte_ - Z.of_nat (pbyte r)))%Z &&
            (Z.of_nat (start r) + (Z.of_nat byte_ - Z.of_nat (pbyte r)) <? Z.of_nat (length (buf r)))%Z) &&
            negb (fa_state_eqb (st r) FNew)).
  { cbn [fst]. fa_simpl. lia. }
  destruct (src_seek (src r) byte_) as [s' res].
  destruct res as [k|]; [cbn [fst]; fa_simpl; rewrite ngrow_cons_seek; lia|].
  match goal with |- _ <= ngrow (log (fst (let '(_, _) := fa_fill ffuel ?B in _))) =>
    destruct (fa_fill ffuel B) as [r1 fr] eqn:Ef;
    pose proof (Ext_ngrow _ _ (fa_fill_ext _ _ _ _ Ef)) as G
  end.
  fa_simpl_in G. rewrite ngrow_cons_seek in G.
  destruct fr; cbn [fst]; fa_simpl; exact G.
Qed.

Lemma fa_seek_no_limit ffuel r line byte_ : snd (fa_seek ffuel r line byte_) <> OErr FaBufferLimit.
Proof.
  unfold fa_seek.
  destruct (((0 <=? Z.of_nat (start r) + (Z.of_nat byte_ - Z.of_nat (pbyte r)))%Z &&
            (Z.of_nat (start r) + (Z.of_nat byte_ - Z.of_nat (pbyte r)) <? Z.of_nat (length (buf r)))%Z) &&
            negb (fa_state_eqb (st r) FNew)); [discriminate|].
  destruct (src_seek (src r) byte_) as [s' res].
  destruct res as [k|]; [discriminate|].
  match goal with |- snd (let '(_, _) := fa_fill ffuel ?B in _) <> _ => destruct (fa_fill ffuel B) as [r1 fr] end.
  destruct fr; discriminate.
Qed.

Lemma refuse_is_grow e : ev_refuse e = true -> ev_is_grow e = true.
Proof. destruct e as [? ?|? ?|c [n|]]; cbn; auto; discriminate. Qed.

Lemma ngrow_in e l : In e l -> ev_is_grow e = true -> 1 <= ngrow l.
Proof.
  intros Hin He. unfold ngrow.
  assert (H : In e (filter ev_is_grow l)) by (apply filter_In; split; assumption).
  destruct (filter ev_is_grow l); [destruct H|cbn [length]; lia].
Qed.

Lemma limit_surfaces_grows {O} (old new : list ev) (o lim : O) ad :
  LimitSurfaces old new o lim -> new = ad ++ old -> o = lim -> ngrow old < ngrow new.
Proof.
  intros [L _] -> Ho. cbv zeta in L. rewrite new_events_app in L.
  destruct (proj2 L Ho) as (e & Hin & He).
  rewrite ngrow_app. pose proof (ngrow_in e ad Hin (refuse_is_grow e He)). lia.
Qed.

Lemma fa_next_limit_grows fuel ffuel r :
  snd (fa_next fuel ffuel r) = OErr FaBufferLimit ->
  ngrow (log r) < ngrow (log (fst (fa_next fuel ffuel r))).
Proof.
  destruct (fa_next fuel ffuel r) as [r' o] eqn:E. cbn [fst snd]. intros Ho.
  destruct (fa_next_ext _ _ _ _ _ E) as [(ad & L & _) _].
  eapply limit_surfaces_grows; [eapply fa_next_limit_iff_refuse; exact E|exact L|exact Ho].
Qed.

Lemma fa_read_set_limit_grows fuel ffuel n r rs :
  snd (fa_read_set fuel ffuel n r rs) = OErr FaBufferLimit ->
  ngrow (log r) < ngrow (log (fst (fst (fa_read_set fuel ffuel n r rs)))).
Proof.
  destruct (fa_read_set fuel ffuel n r rs) as [[r' rs'] o] eqn:E. cbn [fst snd]. intros Ho.
  destruct (fa_read_set_frame _ _ _ _ _ _ _ _ E) as [(ad & L & _) _].
  eapply limit_surfaces_grows; [eapply fa_read_set_limit_iff_refuse; exact E|exact L|exact Ho].
Qed.

(* ------------------------------------------------------------------ *)
(** ** histories *)

Definition h_peq (h1 h2 : hstate) : Prop :=
  fa_peq (h_r h1) (h_r h2) /\ h_s0 h2 = h_s0 h1 /\ h_s1 h2 = h_s1 h1.

Lemma h_init_peq inp cap0 rs sks p1 p2 : h_peq (h_init inp cap0 rs sks p1) (h_init inp cap0 rs sks p2).
Proof. unfold h_peq, h_init. cbn [h_r h_s0 h_s1]. split; [apply fa_peq_new|split; reflexivity]. Qed.

Lemma h_r_put' h slot rs' : h_r (h_put h slot rs') = h_r h.
Proof. destruct slot; reflexivity. Qed.

(** the log of the reader only gets longer *)
Lemma fa_hstep_ngrow fuel ffuel tgt h op :
  ngrow (log (h_r h)) <= ngrow (log (h_r (fst (fa_hstep fuel ffuel tgt h op)))).
Proof.
  destruct op as [| |slot|slot n|slot| |k]; cbn [fa_hstep].
  - destruct (fa_next fuel ffuel (h_r h)) as [r' o] eqn:E. cbn [fst h_with h_r].
    apply Ext_ngrow. apply (proj1 (fa_next_ext _ _ _ _ _ E)).
  - destruct (fa_next fuel ffuel (h_r h)) as [r' o] eqn:E. cbn [fst h_with h_r].
    apply Ext_ngrow. apply (proj1 (fa_next_ext _ _ _ _ _ E)).
  - destruct (fa_read_set fuel ffuel None (h_r h) (h_get h slot)) as [[r' rs'] o] eqn:E. cbn [fst].
    rewrite h_r_put'. cbn [h_with h_r]. apply Ext_ngrow. apply (proj1 (fa_read_set_frame _ _ _ _ _ _ _ _ E)).
  - destruct (fa_read_set fuel ffuel (Some n) (h_r h) (h_get h slot)) as [[r' rs'] o] eqn:E. cbn [fst].
    rewrite h_r_put'. cbn [h_with h_r]. apply Ext_ngrow. apply (proj1 (fa_read_set_frame _ _ _ _ _ _ _ _ E)).
  - cbn [fst]. lia.
  - cbn [fst]. lia.
  - destruct (tgt k) as [[line byte_]|]; [|cbn [fst]; lia].
    pose proof (fa_seek_ngrow ffuel (h_r h) line byte_) as G.
    destruct (fa_seek ffuel (h_r h) line byte_) as [r' o]. cbn [fst h_with h_r] in *. exact G.
Qed.

Lemma fa_hist_ngrow fuel ffuel tgt : forall ops h,
  ngrow (log (h_r h)) <= ngrow (log (h_r (snd (fa_hist fuel ffuel tgt ops h)))).
Proof.
  induction ops as [|op ops IH]; intros h; [cbn [fa_hist snd]; lia|].
  rewrite fa_hist_snd_cons. eapply Nat.le_trans; [apply (fa_hstep_ngrow fuel ffuel tgt h op)|apply IH].
Qed.

(** a buffer-limit observation is a consultation logged in that very call *)
Lemma fa_hstep_limit_grows fuel ffuel tgt h op :
  snd (fa_hstep fuel ffuel tgt h op) = HoErr FaBufferLimit ->
  ngrow (log (h_r h)) < ngrow (log (h_r (fst (fa_hstep fuel ffuel tgt h op)))).
Proof.
  assert (Hout : forall o, out_obs o = HoErr FaBufferLimit -> o = OErr FaBufferLimit).
  { intros o. destruct o; cbn [out_obs]; intros H; try discriminate. inversion H; reflexivity. }
  destruct op as [| |slot|slot n|slot| |k]; cbn [fa_hstep].
  - pose proof (fa_next_limit_grows fuel ffuel (h_r h)) as G.
    destruct (fa_next fuel ffuel (h_r h)) as [r' o]. cbn [fst snd h_with h_r] in *.
    intros H. apply G. apply Hout. exact H.
  - pose proof (fa_next_limit_grows fuel ffuel (h_r h)) as G.
    destruct (fa_next fuel ffuel (h_r h)) as [r' o]. cbn [fst snd h_with h_r] in *.
    intros H. apply G. destruct o; try discriminate; apply Hout; exact H.
  - pose proof (fa_read_set_limit_grows fuel ffuel None (h_r h) (h_get h slot)) as G.
    destruct (fa_read_set fuel ffuel None (h_r h) (h_get h slot)) as [[r' rs'] o]. cbn [fst snd] in *.
    rewrite h_r_put'. cbn [h_with h_r]. intros H. apply G. destruct o; try discriminate; apply Hout; exact H.
  - pose proof (fa_read_set_limit_grows fuel ffuel (Some n) (h_r h) (h_get h slot)) as G.
    destruct (fa_read_set fuel ffuel (Some n) (h_r h) (h_get h slot)) as [[r' rs'] o]. cbn [fst snd] in *.
    rewrite h_r_put'. cbn [h_with h_r]. intros H. apply G. destruct o; try discriminate; apply Hout; exact H.
  - cbn [snd]. discriminate.
  - cbn [snd]. discriminate.
  - destruct (tgt k) as [[line byte_]|]; [|cbn [snd]; discriminate].
    pose proof (fa_seek_no_limit ffuel (h_r h) line byte_) as G.
    destruct (fa_seek ffuel (h_r h) line byte_) as [r' o]. cbn [fst snd] in *.
    intros H. exfalso. apply G. apply Hout. exact H.
Qed.

(** one operation on two readers that differ in the policy function only *)
Lemma fa_hstep_grel fuel ffuel tgt h1 h2 op : h_peq h1 h2 ->
  (snd (fa_hstep fuel ffuel tgt h2 op) = snd (fa_hstep fuel ffuel tgt h1 op) /\
   h_peq (fst (fa_hstep fuel ffuel tgt h1 op)) (fst (fa_hstep fuel ffuel tgt h2 op))) \/
  ngrow (log (h_r h1)) < ngrow (log (h_r (fst (fa_hstep fuel ffuel tgt h1 op)))).
Proof.
  destruct h1 as [a x y], h2 as [b x2 y2]. unfold h_peq. cbn [h_r h_s0 h_s1]. intros (Hr & -> & ->).
  assert (Hget : forall slot, h_get (mkH b x y) slot = h_get (mkH a x y) slot) by (intros [|slot]; reflexivity).
  assert (Hset : forall n slot,
    let xa := fa_read_set fuel ffuel n a (h_get (mkH a x y) slot) in
    let xb := fa_read_set fuel ffuel n b (h_get (mkH a x y) slot) in
    ((match snd xb with OSetOk => HoSet (fa_set_records (snd (fst xb))) | _ => out_obs (snd xb) end) =
     (match snd xa with OSetOk => HoSet (fa_set_records (snd (fst xa))) | _ => out_obs (snd xa) end) /\
     h_peq (h_put (h_with (mkH a x y) (fst (fst xa))) slot (snd (fst xa)))
           (h_put (h_with (mkH b x y) (fst (fst xb))) slot (snd (fst xb)))) \/
    ngrow (log a) < ngrow (log (h_r (h_put (h_with (mkH a x y) (fst (fst xa))) slot (snd (fst xa)))))).
  { intros n slot. cbv zeta.
    destruct (fa_read_set_grel fuel ffuel n a b (h_get (mkH a x y) slot) Hr) as [(Ho & Hx & Hr')|Hg].
    - destruct (fa_read_set fuel ffuel n a (h_get (mkH a x y) slot)) as [[a' rsa'] oa].
      destruct (fa_read_set fuel ffuel n b (h_get (mkH a x y) slot)) as [[b' rsb'] ob].
      cbn [fst snd] in *. subst ob rsb'. left. split; [reflexivity|].
      unfold h_peq, h_with, h_put. destruct slot; cbn [h_r h_s0 h_s1]; auto.
    - right. rewrite h_r_put'. cbn [h_with h_r]. exact Hg. }
  destruct op as [| |slot|slot n|slot| |k]; cbn [fa_hstep h_r].
  - destruct (fa_next_grel fuel ffuel a b Hr) as [[Ho Hr']|Hg].
    + destruct (fa_next fuel ffuel a) as [a' oa]. destruct (fa_next fuel ffuel b) as [b' ob].
      cbn [fst snd] in *. subst ob. left. split; [reflexivity|].
      unfold h_peq, h_with. cbn [h_r h_s0 h_s1]. auto.
    + right. destruct (fa_next fuel ffuel a) as [a' oa]. cbn [fst snd h_with h_r] in *. exact Hg.
  - destruct (fa_next_grel fuel ffuel a b Hr) as [[Ho Hr']|Hg].
    + destruct (fa_next fuel ffuel a) as [a' oa]. destruct (fa_next fuel ffuel b) as [b' ob].
      cbn [fst snd] in *. subst ob. left. split; [reflexivity|].
      unfold h_peq, h_with. cbn [h_r h_s0 h_s1]. auto.
    + right. destruct (fa_next fuel ffuel a) as [a' oa]. cbn [fst snd h_with h_r] in *. exact Hg.
  - rewrite Hget. specialize (Hset None slot). cbv zeta in Hset.
    destruct (fa_read_set fuel ffuel None a (h_get (mkH a x y) slot)) as [[a' rsa'] oa].
    destruct (fa_read_set fuel ffuel None b (h_get (mkH a x y) slot)) as [[b' rsb'] ob].
    exact Hset.
  - rewrite Hget. specialize (Hset (Some n) slot). cbv zeta in Hset.
    destruct (fa_read_set fuel ffuel (Some n) a (h_get (mkH a x y) slot)) as [[a' rsa'] oa].
    destruct (fa_read_set fuel ffuel (Some n) b (h_get (mkH a x y) slot)) as [[b' rsb'] ob].
    exact Hset.
  - left. cbn [fst snd]. rewrite Hget. split; [reflexivity|]. unfold h_peq. cbn [h_r h_s0 h_s1]. auto.
  - left. cbn [fst snd]. split; [reflexivity|]. unfold h_peq. cbn [h_r h_s0 h_s1]. auto.
  - destruct (tgt k) as [[line byte_]|].
    + destruct (polind_peq (fun z => fa_seek ffuel z line byte_) (fa_seek_pi ffuel line byte_) a b Hr) as [Ho Hr'].
      cbv beta in Ho, Hr'.
      destruct (fa_seek ffuel a line byte_) as [a' oa]. destruct (fa_seek ffuel b line byte_) as [b' ob].
      cbn [fst snd] in *. subst ob. left. split; [reflexivity|].
      unfold h_peq, h_with. cbn [h_r h_s0 h_s1]. auto.
    + left. cbn [fst snd]. split; [reflexivity|]. unfold h_peq. cbn [h_r h_s0 h_s1]. auto.
Qed.

(** a history in which the first reader never consults its policy: the second reader --
    whatever its policy function -- shows the same observations, none of them the
    buffer-limit error, and ends in the same state up to the policy function *)
Lemma fa_hist_grel fuel ffuel tgt : forall ops h1 h2, h_peq h1 h2 ->
  ngrow (log (h_r (snd (fa_hist fuel ffuel tgt ops h1)))) <= ngrow (log (h_r h1)) ->
  fst (fa_hist fuel ffuel tgt ops h2) = fst (fa_hist fuel ffuel tgt ops h1) /\
  h_peq (snd (fa_hist fuel ffuel tgt ops h1)) (snd (fa_hist fuel ffuel tgt ops h2)) /\
  (forall p, ~ In (HoErr FaBufferLimit, p) (fst (fa_hist fuel ffuel tgt ops h1))).
Proof.
  induction ops as [|op ops IH]; intros h1 h2 Hc Hn.
  { cbn [fa_hist fst snd]. split; [reflexivity|]. split; [exact Hc|]. intros p []. }
  rewrite !fa_hist_fst_cons, !fa_hist_snd_cons. rewrite fa_hist_snd_cons in Hn.
  pose proof (fa_hstep_ngrow fuel ffuel tgt h1 op) as G1.
  pose proof (fa_hist_ngrow fuel ffuel tgt ops (fst (fa_hstep fuel ffuel tgt h1 op))) as G2.
  destruct (fa_hstep_grel fuel ffuel tgt h1 h2 op Hc) as [(Ho & Hc')|Hg]; [|lia].
  destruct (IH _ _ Hc' ltac:(lia)) as (I1 & I2 & I3).
  split; [|split].
  - rewrite Ho, I1. rewrite (fa_position_peq _ _ (proj1 Hc')). reflexivity.
  - exact I2.
  - intros p [Heq|Hin]; [|exact (I3 p Hin)].
    inversion Heq as [[H1 H2]].
    pose proof (fa_hstep_limit_grows fuel ffuel tgt h1 op H1). lia.
Qed.

(** the policy function of a reader never changes *)
Lemma fa_hist_polf fuel ffuel tgt : forall ops h,
  polf (h_r (snd (fa_hist fuel ffuel tgt ops h))) = polf (h_r h).
Proof.
  induction ops as [|op ops IH]; intros h0; [reflexivity|].
  rewrite fa_hist_snd_cons, IH. clear IH.
  destruct op as [| |slot|slot n|slot| |k]; cbn [fa_hstep].
  - destruct (fa_next fuel ffuel (h_r h0)) as [r' o] eqn:E. cbn [fst h_with h_r].
    destruct (proj1 (fa_next_ext _ _ _ _ _ E)) as (ad & _ & P & _). exact P.
  - destruct (fa_next fuel ffuel (h_r h0)) as [r' o] eqn:E. cbn [fst h_with h_r].
    destruct (proj1 (fa_next_ext _ _ _ _ _ E)) as (ad & _ & P & _). exact P.
  - destruct (fa_read_set fuel ffuel None (h_r h0) (h_get h0 slot)) as [[r' rs'] o] eqn:E. cbn [fst].
    rewrite h_r_put'. cbn [h_with h_r].
    destruct (proj1 (fa_read_set_frame _ _ _ _ _ _ _ _ E)) as (ad & _ & P & _). exact P.
  - destruct (fa_read_set fuel ffuel (Some n) (h_r h0) (h_get h0 slot)) as [[r' rs'] o] eqn:E. cbn [fst].
    rewrite h_r_put'. cbn [h_with h_r].
    destruct (proj1 (fa_read_set_frame _ _ _ _ _ _ _ _ E)) as (ad & _ & P & _). exact P.
  - reflexivity.
  - reflexivity.
  - destruct (tgt k) as [[line byte_]|]; [|reflexivity].
    destruct (fa_seek ffuel (h_r h0) line byte_) as [r' o] eqn:E. cbn [fst h_with h_r].
    apply (fa_seek_policy_untouched _ _ _ _ _ _ E).
Qed.

Theorem fa_unconsulted_policy_irrelevant inp cap0 rs sks pol1 pol2 fuel ffuel tgt ops :
  let run1 := fa_hist fuel ffuel tgt ops (h_init inp cap0 rs sks pol1) in
  let run2 := fa_hist fuel ffuel tgt ops (h_init inp cap0 rs sks pol2) in
  filter ev_is_grow (log (h_r (snd run1))) = [] ->
  fst run2 = fst run1 /\
  (forall p, ~ In (HoErr FaBufferLimit, p) (fst run2)) /\
  log (h_r (snd run2)) = log (h_r (snd run1)) /\ cap (h_r (snd run2)) = cap (h_r (snd run1)) /\
  h_r (snd run2) = set_pol (h_r (snd run1)) pol2 (polh (h_r (snd run1))) /\
  h_s0 (snd run2) = h_s0 (snd run1) /\ h_s1 (snd run2) = h_s1 (snd run1).
Proof.
  cbv zeta. intros Hg.
  destruct (fa_hist_grel fuel ffuel tgt ops _ _ (h_init_peq inp cap0 rs sks pol1 pol2)) as (H1 & (H2 & H3 & H4) & H5).
  { rewrite (ngrow_zero _ Hg). lia. }
  destruct (fa_peq_fields _ _ H2) as (_ & Ec & _ & _ & _ & _ & _ & _ & _ & _ & El).
  split; [exact H1|]. split; [rewrite H1; exact H5|]. split; [exact El|]. split; [exact Ec|].
  split; [|split; assumption].
  rewrite (fa_peq_twin _ _ H2). f_equal.
  rewrite fa_hist_polf. reflexivity.
Qed.

(** plain histories do not use the seek-target table *)
Lemma fa_hist_plain_tgt fuel ffuel tgt1 tgt2 : forall ops h, Forall plain_op ops ->
  fa_hist fuel ffuel tgt1 ops h = fa_hist fuel ffuel tgt2 ops h.
Proof.
  induction ops as [|op ops IH]; intros h Hops; [reflexivity|].
  inversion Hops as [|? ? Hop Hops']; subst. cbn [fa_hist].
  assert (E : fa_hstep fuel ffuel tgt1 h op = fa_hstep fuel ffuel tgt2 h op).
  { destruct Hop as [->|[->|[(s & ->)|[(s & ->)| ->]]]]; reflexivity. }
  rewrite E. destruct (fa_hstep fuel ffuel tgt2 h op) as [h1 ob]. rewrite (IH h1 Hops'). reflexivity.
Qed.

Lemma plain_hop_ok ops : Forall plain_op ops -> Forall hop_ok ops.
Proof.
  intros H. eapply Forall_impl; [|exact H].
  intros op [->|[->|[(s & ->)|[(s & ->)| ->]]]]; exact I.
Qed.

(* ------------------------------------------------------------------ *)
(** ** the theorems (FASTA) *)

Section FaFitPolicy.
  Variables (inp : list byte) (cap0 : nat) (rs : list ritem) (sks : list sitem) (fuel ffuel : nat).
  Variables (tgt : nat -> option (nat * nat)) (ops : list hop).
  Hypothesis Hcap : 3 <= cap0.
  Hypothesis Hrs : forallb item_ok rs = true.
  Hypothesis Hff : length rs + 2 <= ffuel.
  Hypothesis Hfuel : length inp + 2 <= fuel.
  Hypothesis Hops : Forall plain_op ops.
  Hypothesis Hfit : FaAllRecordsFit inp cap0.

  (** the reference run: the never-refusing completion of any policy *)
  Lemma fa_fit_reference pol0 pol :
    let run0 := fa_hist fuel ffuel tgt ops (h_init inp cap0 rs sks (pol_complete pol0)) in
    let run := fa_hist fuel ffuel tgt ops (h_init inp cap0 rs sks pol) in
    fst run = fst run0 /\
    (forall p, ~ In (HoErr FaBufferLimit, p) (fst run)) /\
    filter ev_is_grow (log (h_r (snd run))) = [] /\ cap (h_r (snd run)) = cap0.
  Proof.
    cbv zeta.
    destruct (fa_fitting_input_never_grows_sets inp cap0 rs sks (pol_complete pol0) fuel ffuel tgt ops
                Hcap Hrs (pol_complete_PolOk pol0) Hff Hfuel Hops Hfit) as [Hg Hc].
    cbv zeta in Hg, Hc.
    destruct (fa_unconsulted_policy_irrelevant inp cap0 rs sks (pol_complete pol0) pol fuel ffuel tgt ops Hg)
      as (H1 & H2 & H3 & H4 & _).
    split; [exact H1|]. split; [exact H2|]. split; [rewrite H3; exact Hg|]. rewrite H4. exact Hc.
  Qed.

  Theorem fa_fitting_input_never_refused pol :
    let run := fa_hist fuel ffuel tgt ops (h_init inp cap0 rs sks pol) in
    (forall p, ~ In (HoErr FaBufferLimit, p) (fst run)) /\
    filter ev_is_grow (log (h_r (snd run))) = [] /\ cap (h_r (snd run)) = cap0.
  Proof. cbv zeta. apply (fa_fit_reference pol pol). Qed.

  Theorem fa_fitting_input_policy_irrelevant pol1 pol2 :
    fst (fa_hist fuel ffuel tgt ops (h_init inp cap0 rs sks pol1)) =
    fst (fa_hist fuel ffuel tgt ops (h_init inp cap0 rs sks pol2)).
  Proof.
    rewrite (proj1 (fa_fit_reference pol1 pol1)), (proj1 (fa_fit_reference pol1 pol2)). reflexivity.
  Qed.

  (** more: the final states agree in everything but the policy function *)
  Theorem fa_fitting_input_policy_irrelevant_state pol1 pol2 :
    let h1 := snd (fa_hist fuel ffuel tgt ops (h_init inp cap0 rs sks pol1)) in
    let h2 := snd (fa_hist fuel ffuel tgt ops (h_init inp cap0 rs sks pol2)) in
    h_r h2 = set_pol (h_r h1) pol2 (polh (h_r h1)) /\ h_s0 h2 = h_s0 h1 /\ h_s1 h2 = h_s1 h1.
  Proof.
    cbv zeta.
    destruct (fa_fitting_input_never_refused pol1) as (_ & Hg & _). cbv zeta in Hg.
    destruct (fa_unconsulted_policy_irrelevant inp cap0 rs sks pol1 pol2 fuel ffuel tgt ops Hg)
      as (_ & _ & _ & _ & H5 & H6 & H7).
    auto.
  Qed.

  Theorem fa_fitting_input_any_policy_spec pol : forallb sitem_ok sks = true ->
    let obs := fst (fa_hist fuel ffuel tgt ops (h_init inp cap0 rs sks pol)) in
    exists items c' g',
      FaOSpec inp items /\ Forall2 (item_rel inp) items (fa_spec inp) /\
      hrun_ok inp (map to_citem items) (CAt 0) ([], []) ops obs c' g'.
  Proof.
    intros Hsks. cbv zeta.
    destruct (fa_hist_refines_spec inp cap0 rs sks (pol_complete pol) fuel ffuel ops Hcap Hrs Hsks
                (pol_complete_PolOk pol) Hff Hfuel (plain_hop_ok ops Hops)) as (items & c' & g' & Hspec & Hrel & Hrun).
    exists items, c', g'. split; [exact Hspec|]. split; [exact Hrel|].
    rewrite (proj1 (fa_fit_reference pol pol)).
    rewrite (fa_hist_plain_tgt fuel ffuel tgt (tgt_spec inp) ops _ Hops). exact Hrun.
  Qed.
End FaFitPolicy.

(** display of observations in the examples of Props/C03p.v *)
Definition c03p_show (o : hobs * option (nat * nat)) : nat :=
  match fst o with
  | HoSet l => length l | HoRec _ => 10 | HoOwned _ => 11 | HoPos => 12 | HoEnd => 13 | HoOk => 14
  | HoErr FaBufferLimit => 77 | _ => 99
  end.

(* ================================================================== *)
(** * FASTQ *)
From SeqIO Require Import Model.Fastq Spec.FastqSpec Spec.CursorQ
  Proofs.FqSpecP Proofs.FastqInv Proofs.FastqNextP Proofs.FastqGrowP Proofs.FastqSetP Proofs.FastqSeekP
  Proofs.CursorP Proofs.CursorBridgeP Proofs.FastqHistP Proofs.AllocFqFitP.

Lemma QExt_ngrow r r' : QExt r r' -> ngrow (qlog r) <= ngrow (qlog r').
Proof. intros (ad & L & _). rewrite L, ngrow_app. lia. Qed.

Lemma frame_ngrow r r' : qframe r' = qframe r -> ngrow (qlog r') = ngrow (qlog r).
Proof. unfold qframe. intros H. inversion H. reflexivity. Qed.

Lemma fq_grow_ngrow r r' g : fq_grow r = (r', g) -> ngrow (qlog r') = S (ngrow (qlog r)).
Proof.
  intros H. pose proof (fq_grow_spec r) as S. cbv zeta in S. rewrite H in S. cbn [fst] in S.
  destruct S as (L & _). rewrite L. reflexivity.
Qed.

Definition fq_peq (a b : fq) : Prop := exists q, b = qpw q (qpolh a) a.

Lemma fq_peq_new cap0 s p1 p2 : fq_peq (fq_new cap0 s p1) (fq_new cap0 s p2).
Proof. exists p2. reflexivity. Qed.

Lemma fq_peq_fields a b : fq_peq a b ->
  qbuf b = qbuf a /\ qcap b = qcap a /\ p0 b = p0 a /\ inc b = inc a /\ qst b = qst a /\
  qline b = qline a /\ qbyte b = qbyte a /\ fq_cur b = fq_cur a /\ fq_bp b = fq_bp a /\
  qlog b = qlog a /\ qpolh b = qpolh a.
Proof. intros (q & ->). repeat split; reflexivity. Qed.

Lemma fq_peq_twin a b : fq_peq a b -> b = qset_pol a (qpolf b) (qpolh a).
Proof. intros (q & ->). reflexivity. Qed.

Lemma qpolind_peq {X} (f : fq -> fq * X) : QPolInd f -> forall a b, fq_peq a b ->
  snd (f b) = snd (f a) /\ fq_peq (fst (f a)) (fst (f b)).
Proof.
  intros Hf a b (q & ->). destruct (Hf q (qpolh a) a) as (E & Ef & Eh). rewrite E. cbn [fst snd].
  split; [reflexivity|]. exists q. rewrite Eh. reflexivity.
Qed.

Lemma fq_peq_set (g : fq -> fq) a b :
  (forall q h x, g (qpw q h x) = qpw q h (g x)) -> (forall x, qpolh (g x) = qpolh x) ->
  fq_peq a b -> fq_peq (g a) (g b).
Proof. intros Hg Hp (q & ->). exists q. rewrite Hg, Hp. reflexivity. Qed.

Lemma fq_peq_st a b x : fq_peq a b -> fq_peq (qset_st a x) (qset_st b x).
Proof. apply (fq_peq_set (fun y => qset_st y x)); reflexivity. Qed.

Lemma fq_peq_inc a b x : fq_peq a b -> fq_peq (qset_inc a x) (qset_inc b x).
Proof. apply (fq_peq_set (fun y => qset_inc y x)); reflexivity. Qed.

Lemma fq_increment_peq a b : fq_peq a b ->
  match fq_increment a, fq_increment b with
  | Some a1, Some b1 => fq_peq a1 b1
  | None, None => True
  | _, _ => False
  end.
Proof.
  intros (q & ->). unfold fq_increment, qpw. fq_simpl.
  destruct (p1 a + 1 <? p0 a); [exact I|]. exists q. reflexivity.
Qed.

Lemma fq_increment_ngrow r r1 : fq_increment r = Some r1 -> ngrow (qlog r1) = ngrow (qlog r).
Proof. intros H. apply frame_ngrow. apply fq_increment_frame. exact H. Qed.

Lemma fq_position_peq a b : fq_peq a b -> fq_position b = fq_position a.
Proof. intros (q & ->). reflexivity. Qed.

Definition QGRel {X} (base : fq) (xa xb : fq * X) : Prop :=
  (snd xb = snd xa /\ fq_peq (fst xa) (fst xb)) \/ ngrow (qlog base) < ngrow (qlog (fst xa)).

Lemma QGRel_same {X} base a b (x : X) : fq_peq a b -> QGRel base (a, x) (b, x).
Proof. intros H. left. split; [reflexivity|exact H]. Qed.

Lemma fq_resume_grel ffuel mk : forall fuel st base a b, fq_peq a b -> ngrow (qlog base) <= ngrow (qlog a) ->
  QGRel base (fq_resume fuel ffuel st mk a) (fq_resume fuel ffuel st mk b).
Proof.
  induction fuel as [|f IH]; intros st base a b Hr Hm; cbn [fq_resume]; [apply QGRel_same; exact Hr|].
  destruct (fq_peq_fields _ _ Hr) as (Eb & Ec & Ep & _). rewrite Eb, Ec, Ep.
  destruct (length (qbuf a) <? qcap a).
  { left. apply (qpolind_peq (fq_check_end st) (fq_check_end_pi st)). apply fq_peq_st. exact Hr. }
  destruct (negb mk || (p0 a =? 0)).
  - (* the policy is consulted *)
    right. destruct (fq_grow a) as [a1 g] eqn:Eg. pose proof (fq_grow_ngrow _ _ _ Eg) as G1.
    destruct g as [|e|x]; cbn [fst]; try lia.
    destruct (fq_fill ffuel a1) as [a2 fr] eqn:Ef. pose proof (QExt_ngrow _ _ (fq_fill_ext _ _ _ _ Ef)) as G2.
    destruct fr as [n|k|]; cbn [fst]; fq_simpl; try lia.
    pose proof (frame_ngrow _ _ (fq_search_from_frame st true a2)) as G3.
    destruct (fq_search_from st true a2) as [a3 sr]. cbn [fst] in G3.
    destruct sr as [|st'|e|x]; cbn [fst]; try lia.
    destruct (fq_resume f ffuel st' mk a3) as [a4 rr] eqn:Er.
    pose proof (QExt_ngrow _ _ (fq_resume_ext _ _ _ _ _ _ _ Er)) as G4. cbn [fst]. lia.
  - destruct (qpolind_peq (fq_make_room st) (fq_make_room_pi st) a b Hr) as [Hg Hr1].
    pose proof (frame_ngrow _ _ (fq_make_room_frame st a)) as G1.
    destruct (fq_make_room st a) as [a1 g0]. destruct (fq_make_room st b) as [b1 g]. cbn [fst snd] in *. subst g.
    destruct g0 as [|e|x]; try (apply QGRel_same; exact Hr1).
    destruct (qpolind_peq (fq_fill ffuel) (fq_fill_pi ffuel) a1 b1 Hr1) as [Hfr Hr2].
    destruct (fq_fill ffuel a1) as [a2 fr0] eqn:E2. destruct (fq_fill ffuel b1) as [b2 fr]. cbn [fst snd] in *. subst fr.
    pose proof (QExt_ngrow _ _ (fq_fill_ext _ _ _ _ E2)) as G2.
    destruct fr0 as [n|k|].
    + destruct (qpolind_peq (fq_search_from st true) (fq_search_from_pi st true) a2 b2 Hr2) as [Hs Hr3].
      pose proof (frame_ngrow _ _ (fq_search_from_frame st true a2)) as G3.
      destruct (fq_search_from st true a2) as [a3 sr0]. destruct (fq_search_from st true b2) as [b3 sr].
      cbn [fst snd] in *. subst sr.
      destruct sr0 as [|st'|e|x]; try (apply QGRel_same; exact Hr3).
      apply IH; [exact Hr3|lia].
    + apply QGRel_same. apply fq_peq_st.
      apply (fq_peq_set (fun y => qset_buf y [])); [reflexivity|reflexivity|exact Hr2].
    + apply QGRel_same. exact Hr2.
Qed.

Lemma fq_next_tail_grel fuel ffuel base a b : fq_peq a b -> ngrow (qlog base) <= ngrow (qlog a) ->
  QGRel base (fq_next_tail fuel ffuel a) (fq_next_tail fuel ffuel b).
Proof.
  intros Hr Hm. unfold fq_next_tail.
  destruct (fq_peq_fields _ _ Hr) as (_ & _ & _ & Ei & _). rewrite Ei.
  assert (H1 : snd (match inc a with None => fq_search_from Head false b | Some _ => (b, QsRec) end) =
               snd (match inc a with None => fq_search_from Head false a | Some _ => (a, QsRec) end) /\
               fq_peq (fst (match inc a with None => fq_search_from Head false a | Some _ => (a, QsRec) end))
                      (fst (match inc a with None => fq_search_from Head false b | Some _ => (b, QsRec) end)) /\
               ngrow (qlog (fst (match inc a with None => fq_search_from Head false a | Some _ => (a, QsRec) end)))
               = ngrow (qlog a)).
  { destruct (inc a); [split; [reflexivity|split; [exact Hr|reflexivity]]|].
    destruct (qpolind_peq (fq_search_from Head false) (fq_search_from_pi Head false) a b Hr) as [H1 H2].
    split; [exact H1|split; [exact H2|]]. apply frame_ngrow. apply fq_search_from_frame. }
  destruct H1 as (Hs & Hr1 & G1).
  destruct (match inc a with None => fq_search_from Head false a | Some _ => (a, QsRec) end) as [a1 sr0].
  destruct (match inc a with None => fq_search_from Head false b | Some _ => (b, QsRec) end) as [b1 sr].
  cbn [fst snd] in *. subst sr.
  assert (Hrest : QGRel base
    (match inc a1 with
     | Some s =>
        let '(r2, rr) := fq_resume fuel ffuel s true a1 in
        match rr with
        | QrErr e => (r2, QOErr e)
        | QrPanic x => (r2, QOPanic x)
        | QrFuel => (r2, QOFuel)
        | QrOk false => (r2, QONone)
        | QrOk true => (r2, QORec (fq_cur r2))
        end
     | None => (a1, QORec (fq_cur a1))
     end)
    (match inc b1 with
     | Some s =>
        let '(r2, rr) := fq_resume fuel ffuel s true b1 in
        match rr with
        | QrErr e => (r2, QOErr e)
        | QrPanic x => (r2, QOPanic x)
        | QrFuel => (r2, QOFuel)
        | QrOk false => (r2, QONone)
        | QrOk true => (r2, QORec (fq_cur r2))
        end
     | None => (b1, QORec (fq_cur b1))
     end)).
  { destruct (fq_peq_fields _ _ Hr1) as (_ & _ & _ & Ei1 & _ & _ & _ & Ecur1 & _). rewrite Ei1, Ecur1.
    destruct (inc a1) as [s|]; [|apply QGRel_same; exact Hr1].
    destruct (fq_resume_grel ffuel true fuel s base a1 b1 Hr1 ltac:(lia)) as [[Hrr Hr2]|Hg].
    2:{ right. destruct (fq_resume fuel ffuel s true a1) as [a2 rr0]. cbn [fst] in Hg.
        destruct rr0 as [[|]|e|x|]; cbn [fst]; exact Hg. }
    destruct (fq_resume fuel ffuel s true a1) as [a2 rr0]. destruct (fq_resume fuel ffuel s true b1) as [b2 rr].
    cbn [fst snd] in *. subst rr.
    destruct (fq_peq_fields _ _ Hr2) as (_ & _ & _ & _ & _ & _ & _ & Ecur2 & _).
    destruct rr0 as [[|]|e|x|]; try rewrite Ecur2; apply QGRel_same; exact Hr2. }
  destruct sr0 as [|s|e|x]; try exact Hrest; apply QGRel_same; exact Hr1.
Qed.

Lemma fq_init_ngrow ffuel r : ngrow (qlog r) <= ngrow (qlog (fst (fq_init ffuel r))).
Proof.
  apply QExt_ngrow. destruct (fq_init ffuel r) as [r1 ir] eqn:E. cbn [fst]. eapply fq_init_ext; exact E.
Qed.

Theorem fq_next_grel fuel ffuel a b : fq_peq a b ->
  QGRel a (fq_next fuel ffuel a) (fq_next fuel ffuel b).
Proof.
  intros Hr. unfold fq_next.
  destruct (fq_peq_fields _ _ Hr) as (_ & _ & _ & Ei & Est & _). rewrite Ei, Est.
  destruct (qst a).
  - destruct (qpolind_peq (fq_init ffuel) (fq_init_pi ffuel) a b Hr) as [Hir Hr1].
    pose proof (fq_init_ngrow ffuel a) as G1.
    destruct (fq_init ffuel a) as [a1 ir0]. destruct (fq_init ffuel b) as [b1 ir].
    cbn [fst snd] in *. subst ir.
    destruct ir0 as [[|]|e|]; try (apply QGRel_same; exact Hr1).
    apply fq_next_tail_grel; [apply fq_peq_st; exact Hr1|exact G1].
  - destruct (inc a); [apply fq_next_tail_grel; [exact Hr|lia]|].
    pose proof (fq_increment_peq a b Hr) as Hi.
    destruct (fq_increment a) as [a1|] eqn:Ea; destruct (fq_increment b) as [b1|]; try contradiction.
    + apply fq_next_tail_grel; [exact Hi|]. rewrite (fq_increment_ngrow _ _ Ea). lia.
    + apply QGRel_same. exact Hr.
  - apply fq_next_tail_grel; [apply fq_peq_st; exact Hr|fq_simpl; lia].
  - apply QGRel_same. exact Hr.
Qed.

(* ------------------------------------------------------------------ *)
(** ** record sets (FASTQ) *)

Definition QGRel3 {X Y} (base : fq) (xa xb : fq * X * Y) : Prop :=
  (snd xb = snd xa /\ snd (fst xb) = snd (fst xa) /\ fq_peq (fst (fst xa)) (fst (fst xb))) \/
  ngrow (qlog base) < ngrow (qlog (fst (fst xa))).

Lemma QGRel3_same {X Y} base a b (p : X) (y : Y) : fq_peq a b -> QGRel3 base (a, p, y) (b, p, y).
Proof. intros H. left. cbn [fst snd]. auto. Qed.

Lemma fq_set_loop_ngrow fuel rfuel ffuel n is_new r ps :
  ngrow (qlog r) <= ngrow (qlog (fst (fst (fq_set_loop fuel rfuel ffuel n is_new r ps)))).
Proof.
  apply QExt_ngrow. destruct (fq_set_loop fuel rfuel ffuel n is_new r ps) as [[r' ps'] lr] eqn:E.
  cbn [fst]. eapply fq_set_loop_ext; exact E.
Qed.

Lemma fq_set_loop_grel rfuel ffuel : forall fuel n is_new base a b ps, fq_peq a b ->
  ngrow (qlog base) <= ngrow (qlog a) ->
  QGRel3 base (fq_set_loop fuel rfuel ffuel n is_new a ps) (fq_set_loop fuel rfuel ffuel n is_new b ps).
Proof.
  induction fuel as [|f IH]; intros n is_new base a b ps Hr Hm; cbn [fq_set_loop]; [apply QGRel3_same; exact Hr|].
  destruct (fq_peq_fields _ _ Hr) as (_ & _ & _ & Ei & Est & _). rewrite Ei, Est.
  destruct (fq_state_eqb (qst a) QFinished); [apply QGRel3_same; exact Hr|].
  (* the tracked side of [found] only extends its log *)
  assert (Hfm : forall a1, ngrow (qlog a1) <=
      ngrow (qlog (fst (fst (let ps2 := ps ++ [fq_bp a1] in
       match fq_increment a1 with
       | None => (a1, ps2, QLPanic 3)
       | Some r4 => if reached n (length ps2) then (r4, ps2, QLDone)
                    else fq_set_loop f rfuel ffuel n is_new r4 ps2
       end))))).
  { intros a1. cbv zeta. destruct (fq_increment a1) as [a2|] eqn:Ea; [|cbn [fst]; lia].
    rewrite <- (fq_increment_ngrow _ _ Ea).
    destruct (reached n (length (ps ++ [fq_bp a1]))); [cbn [fst]; lia|apply fq_set_loop_ngrow]. }
  assert (Hfound : forall a1 b1, fq_peq a1 b1 -> ngrow (qlog base) <= ngrow (qlog a1) ->
    QGRel3 base
      (let ps2 := ps ++ [fq_bp a1] in
       match fq_increment a1 with
       | None => (a1, ps2, QLPanic 3)
       | Some r4 => if reached n (length ps2) then (r4, ps2, QLDone)
                    else fq_set_loop f rfuel ffuel n is_new r4 ps2
       end)
      (let ps2 := ps ++ [fq_bp b1] in
       match fq_increment b1 with
       | None => (b1, ps2, QLPanic 3)
       | Some r4 => if reached n (length ps2) then (r4, ps2, QLDone)
                    else fq_set_loop f rfuel ffuel n is_new r4 ps2
       end)).
  { intros a1 b1 Hb G. cbv zeta.
    destruct (fq_peq_fields _ _ Hb) as (_ & _ & _ & _ & _ & _ & _ & _ & Ebp & _). rewrite Ebp.
    pose proof (fq_increment_peq a1 b1 Hb) as Hi.
    destruct (fq_increment a1) as [a2|] eqn:Ea; destruct (fq_increment b1) as [b2|]; try contradiction.
    - destruct (reached n (length (ps ++ [fq_bp a1]))); [apply QGRel3_same; exact Hi|].
      apply IH; [exact Hi|]. rewrite (fq_increment_ngrow _ _ Ea). exact G.
    - apply QGRel3_same. exact Hb. }
  destruct (inc a) as [s|].
  - destruct (fq_resume_grel ffuel is_new rfuel s base (qset_inc a None) (qset_inc b None) (fq_peq_inc _ _ None Hr) Hm)
      as [[Hrr Hr1]|Hg].
    2:{ right. destruct (fq_resume rfuel ffuel s is_new (qset_inc a None)) as [a1 rr0]. cbn [fst] in Hg.
        destruct rr0 as [[|]|e|x|]; cbn [fst]; try exact Hg.
        - eapply Nat.lt_le_trans; [exact Hg|apply Hfm].
        - destruct ps; cbn [fst]; exact Hg. }
    pose proof (QExt_ngrow (qset_inc a None) (fst (fq_resume rfuel ffuel s is_new (qset_inc a None)))) as G1.
    destruct (fq_resume rfuel ffuel s is_new (qset_inc a None)) as [a1 rr0] eqn:Era.
    destruct (fq_resume rfuel ffuel s is_new (qset_inc b None)) as [b1 rr].
    cbn [fst snd] in *. subst rr. specialize (G1 (fq_resume_ext _ _ _ _ _ _ _ Era)). fq_simpl_in G1.
    destruct rr0 as [[|]|e|x|]; try (apply QGRel3_same; exact Hr1).
    + apply (Hfound a1 b1 Hr1). fq_simpl_in Hm. lia.
    + destruct ps; apply QGRel3_same; exact Hr1.
  - destruct (qpolind_peq (fq_search_from Head false) (fq_search_from_pi Head false) a b Hr) as [Hs Hr1].
    pose proof (frame_ngrow _ _ (fq_search_from_frame Head false a)) as G1.
    destruct (fq_search_from Head false a) as [a1 sr0]. destruct (fq_search_from Head false b) as [b1 sr].
    cbn [fst snd] in *. subst sr.
    destruct sr0 as [|s|e|x]; try (apply QGRel3_same; exact Hr1).
    + apply (Hfound a1 b1 Hr1). lia.
    + destruct ps as [|p ps0]; [apply IH; [exact Hr1|lia]|].
      destruct (below n (length (p :: ps0))); [apply IH; [exact Hr1|lia]|].
      apply QGRel3_same. exact Hr1.
Qed.

Theorem fq_read_set_grel fuel ffuel n a b rs : fq_peq a b ->
  QGRel3 a (fq_read_set fuel ffuel n a rs) (fq_read_set fuel ffuel n b rs).
Proof.
  intros Hr. unfold fq_read_set.
  assert (Hgo : forall a1 b1, fq_peq a1 b1 -> ngrow (qlog a) <= ngrow (qlog a1) ->
    QGRel3 a
      (let '(r1, ps, lr) := fq_set_loop fuel fuel ffuel n true a1 [] in
       match lr with
       | QLDone => (r1, mkFqSet (qbuf r1) ps, QOSetOk)
       | QLErr e => (r1, mkFqSet (qsbuf rs) [], QOErr e)
       | QLPanic x => (r1, mkFqSet (qsbuf rs) ps, QOPanic x)
       | QLFuel => (r1, mkFqSet (qsbuf rs) ps, QOFuel)
       | QLNone => (r1, mkFqSet (qsbuf rs) ps, QONone)
       end)
      (let '(r1, ps, lr) := fq_set_loop fuel fuel ffuel n true b1 [] in
       match lr with
       | QLDone => (r1, mkFqSet (qbuf r1) ps, QOSetOk)
       | QLErr e => (r1, mkFqSet (qsbuf rs) [], QOErr e)
       | QLPanic x => (r1, mkFqSet (qsbuf rs) ps, QOPanic x)
       | QLFuel => (r1, mkFqSet (qsbuf rs) ps, QOFuel)
       | QLNone => (r1, mkFqSet (qsbuf rs) ps, QONone)
       end)).
  { intros a1 b1 Hb G.
    destruct (fq_set_loop_grel fuel ffuel fuel n true a a1 b1 [] Hb G) as [(Hlr & Hps & Hr1)|Hg].
    2:{ right. destruct (fq_set_loop fuel fuel ffuel n true a1 []) as [[a2 ps2] lr]. cbn [fst] in Hg.
        destruct lr; cbn [fst]; exact Hg. }
    destruct (fq_set_loop fuel fuel ffuel n true a1 []) as [[a2 ps2] lr0].
    destruct (fq_set_loop fuel fuel ffuel n true b1 []) as [[b2 ps1] lr].
    cbn [fst snd] in *. subst lr ps1.
    destruct (fq_peq_fields _ _ Hr1) as (Eb & _).
    destruct lr0; try rewrite Eb; apply QGRel3_same; exact Hr1. }
  destruct (fq_peq_fields _ _ Hr) as (_ & _ & _ & Ei & Est & _). rewrite Ei, Est.
  destruct (qst a).
  - destruct (qpolind_peq (fq_init ffuel) (fq_init_pi ffuel) a b Hr) as [Hir Hr1].
    pose proof (fq_init_ngrow ffuel a) as G1.
    destruct (fq_init ffuel a) as [a1 ir0]. destruct (fq_init ffuel b) as [b1 ir].
    cbn [fst snd] in *. subst ir.
    destruct ir0 as [[|]|e|]; try (apply QGRel3_same; exact Hr1).
    apply Hgo; [apply fq_peq_st; exact Hr1|exact G1].
  - destruct (inc a); [apply Hgo; [apply fq_peq_st; exact Hr|fq_simpl; lia]|].
    pose proof (fq_increment_peq a b Hr) as Hi.
    destruct (fq_increment a) as [a1|] eqn:Ea; destruct (fq_increment b) as [b1|]; try contradiction.
    + apply Hgo; [apply fq_peq_st; exact Hi|]. fq_simpl. rewrite (fq_increment_ngrow _ _ Ea). lia.
    + apply QGRel3_same. exact Hr.
  - apply Hgo; [exact Hr|lia].
  - apply QGRel3_same. exact Hr.
Qed.

(* ------------------------------------------------------------------ *)
(** ** seek; the buffer-limit error is a logged consultation (FASTQ) *)

Lemma fq_seek_ngrow ffuel r line byte_ :
  ngrow (qlog r) <= ngrow (qlog (fst (fq_seek ffuel r line byte_))).
Proof.
  unfold fq_seek.
  destruct ((0 <=? Z.of_nat (p0 r) + (Z.of_nat byte_ - Z.of_nat (qbyte r)))%Z &&
            (Z.of_nat (p0 r) + (Z.of_nat byte_ - Z.of_nat (qbyte r)) <? Z.of_nat (length (qbuf r)))%Z &&
            negb (fq_state_eqb (qst r) QNew)).
  { cbn [fst]. fq_simpl. lia. }
  destruct (src_seek (qsrc r) byte_) as [s' res].
  destruct res as [k|]; [cbn [fst]; fq_simpl; rewrite ngrow_cons_seek; lia|].
  match goal with |- _ <= ngrow (qlog (fst (let '(_, _) := fq_fill ffuel ?B in _))) =>
    destruct (fq_fill ffuel B) as [r1 fr] eqn:Ef;
    pose proof (QExt_ngrow _ _ (fq_fill_ext _ _ _ _ Ef)) as G
  end.
  fq_simpl_in G. rewrite ngrow_cons_seek in G.
  destruct fr; cbn [fst]; fq_simpl; exact G.
Qed.

Lemma fq_next_limit_grows fuel ffuel r :
  snd (fq_next fuel ffuel r) = QOErr FqBufferLimit ->
  ngrow (qlog r) < ngrow (qlog (fst (fq_next fuel ffuel r))).
Proof.
  destruct (fq_next fuel ffuel r) as [r' o] eqn:E. cbn [fst snd]. intros Ho.
  destruct (fq_next_ext _ _ _ _ _ E) as [(ad & L & _) _].
  eapply limit_surfaces_grows; [eapply fq_next_limit_iff_refuse; exact E|exact L|exact Ho].
Qed.

Lemma fq_read_set_limit_grows fuel ffuel n r rs :
  snd (fq_read_set fuel ffuel n r rs) = QOErr FqBufferLimit ->
  ngrow (qlog r) < ngrow (qlog (fst (fst (fq_read_set fuel ffuel n r rs)))).
Proof.
  destruct (fq_read_set fuel ffuel n r rs) as [[r' rs'] o] eqn:E. cbn [fst snd]. intros Ho.
  destruct (fq_read_set_ext _ _ _ _ _ _ _ _ E) as [(ad & L & _) _].
  eapply limit_surfaces_grows; [eapply fq_read_set_limit_iff_refuse; exact E|exact L|exact Ho].
Qed.

(* ------------------------------------------------------------------ *)
(** ** histories (FASTQ) *)

Definition QCPeq (c1 c2 : hconf) : Prop :=
  fq_peq (c_rd c1) (c_rd c2) /\ snd (fst c2) = snd (fst c1) /\ snd c2 = snd c1.

Lemma QCPeq_init cap0 inp rs ss p1 p2 : QCPeq (fq_hconf0 cap0 inp rs ss p1) (fq_hconf0 cap0 inp rs ss p2).
Proof. unfold QCPeq, fq_hconf0. cbn [c_rd fst snd]. split; [apply fq_peq_new|split; reflexivity]. Qed.

Lemma c_rd_put' c r s x : c_rd (c_put c r s x) = r.
Proof. destruct s; reflexivity. Qed.

Lemma fq_hstep_ngrow inp fuel ffuel op c :
  ngrow (qlog (c_rd c)) <= ngrow (qlog (c_rd (fst (fq_hstep inp fuel ffuel op c)))).
Proof.
  destruct op as [| |s|s n|s| |k]; cbn [fq_hstep].
  - destruct (fq_next fuel ffuel (c_rd c)) as [r' o] eqn:E. cbn [fst c_rd c_rd_put].
    apply QExt_ngrow. apply (proj1 (fq_next_ext _ _ _ _ _ E)).
  - destruct (fq_next fuel ffuel (c_rd c)) as [r' o] eqn:E. cbn [fst c_rd c_rd_put].
    apply QExt_ngrow. apply (proj1 (fq_next_ext _ _ _ _ _ E)).
  - destruct (fq_read_set fuel ffuel None (c_rd c) (c_slot c s)) as [[r' x] o] eqn:E. cbn [fst].
    rewrite c_rd_put'. apply QExt_ngrow. apply (proj1 (fq_read_set_ext _ _ _ _ _ _ _ _ E)).
  - destruct (fq_read_set fuel ffuel (Some n) (c_rd c) (c_slot c s)) as [[r' x] o] eqn:E. cbn [fst].
    rewrite c_rd_put'. apply QExt_ngrow. apply (proj1 (fq_read_set_ext _ _ _ _ _ _ _ _ E)).
  - cbn [fst]. lia.
  - cbn [fst]. lia.
  - destruct (nth_error (fq_spec_all inp) k) as [it|]; [|cbn [fst]; lia].
    pose proof (fq_seek_ngrow ffuel (c_rd c) (fst (coords it)) (snd (coords it))) as G.
    destruct (fq_seek ffuel (c_rd c) (fst (coords it)) (snd (coords it))) as [r' o].
    cbn [fst c_rd c_rd_put] in *. exact G.
Qed.

Lemma fq_hrun_snd_cons' inp fuel ffuel op ops c :
  snd (fq_hrun inp fuel ffuel (op :: ops) c) =
  snd (fq_hrun inp fuel ffuel ops (fst (fq_hstep inp fuel ffuel op c))).
Proof.
  cbn [fq_hrun]. destruct (fq_hstep inp fuel ffuel op c) as [c1 o1]. cbn [fst].
  destruct (fq_hrun inp fuel ffuel ops c1) as [os c2]. reflexivity.
Qed.

Lemma fq_hrun_fst_cons inp fuel ffuel op ops c :
  fst (fq_hrun inp fuel ffuel (op :: ops) c) =
  snd (fq_hstep inp fuel ffuel op c) :: fst (fq_hrun inp fuel ffuel ops (fst (fq_hstep inp fuel ffuel op c))).
Proof.
  cbn [fq_hrun]. destruct (fq_hstep inp fuel ffuel op c) as [c1 o1]. cbn [fst snd].
  destruct (fq_hrun inp fuel ffuel ops c1) as [os c2]. reflexivity.
Qed.

Lemma fq_hrun_ngrow inp fuel ffuel : forall ops c,
  ngrow (qlog (c_rd c)) <= ngrow (qlog (c_rd (snd (fq_hrun inp fuel ffuel ops c)))).
Proof.
  induction ops as [|op ops IH]; intros c; [cbn [fq_hrun snd]; lia|].
  rewrite fq_hrun_snd_cons'. eapply Nat.le_trans; [apply (fq_hstep_ngrow inp fuel ffuel op c)|apply IH].
Qed.

Lemma fq_hstep_limit_grows inp fuel ffuel op c :
  snd (fq_hstep inp fuel ffuel op c) = OErr FqBufferLimit ->
  ngrow (qlog (c_rd c)) < ngrow (qlog (c_rd (fst (fq_hstep inp fuel ffuel op c)))).
Proof.
  assert (Hread : forall o, read_obs o = OErr FqBufferLimit -> o = QOErr FqBufferLimit).
  { intros o. destruct o; cbn [read_obs]; intros H; try discriminate. inversion H; reflexivity. }
  destruct op as [| |s|s n|s| |k]; cbn [fq_hstep].
  - pose proof (fq_next_limit_grows fuel ffuel (c_rd c)) as G.
    destruct (fq_next fuel ffuel (c_rd c)) as [r' o]. cbn [fst snd c_rd c_rd_put] in *.
    intros H. apply G. apply Hread. exact H.
  - pose proof (fq_next_limit_grows fuel ffuel (c_rd c)) as G.
    destruct (fq_next fuel ffuel (c_rd c)) as [r' o]. cbn [fst snd c_rd c_rd_put] in *.
    intros H. apply G. destruct o; try discriminate; apply Hread; exact H.
  - pose proof (fq_read_set_limit_grows fuel ffuel None (c_rd c) (c_slot c s)) as G.
    destruct (fq_read_set fuel ffuel None (c_rd c) (c_slot c s)) as [[r' x] o]. cbn [fst snd] in *.
    rewrite c_rd_put'. intros H. apply G. destruct o; try discriminate; apply Hread; exact H.
  - pose proof (fq_read_set_limit_grows fuel ffuel (Some n) (c_rd c) (c_slot c s)) as G.
    destruct (fq_read_set fuel ffuel (Some n) (c_rd c) (c_slot c s)) as [[r' x] o]. cbn [fst snd] in *.
    rewrite c_rd_put'. intros H. apply G. destruct o; try discriminate; apply Hread; exact H.
  - cbn [snd]. discriminate.
  - cbn [snd]. discriminate.
  - destruct (nth_error (fq_spec_all inp) k) as [it|]; [|cbn [snd]; discriminate].
    destruct (fq_seek ffuel (c_rd c) (fst (coords it)) (snd (coords it))) as [r' o]. cbn [snd].
    destruct o; discriminate.
Qed.

Lemma fq_hstep_grel inp fuel ffuel op c1 c2 : QCPeq c1 c2 ->
  (snd (fq_hstep inp fuel ffuel op c2) = snd (fq_hstep inp fuel ffuel op c1) /\
   QCPeq (fst (fq_hstep inp fuel ffuel op c1)) (fst (fq_hstep inp fuel ffuel op c2))) \/
  ngrow (qlog (c_rd c1)) < ngrow (qlog (c_rd (fst (fq_hstep inp fuel ffuel op c1)))).
Proof.
  destruct c1 as [[a x0] y0]. destruct c2 as [[b x] y]. unfold QCPeq. cbn [c_rd fst snd].
  intros (Hr & -> & ->).
  assert (Hnext : forall (f : fq_out -> hobs),
    (snd (let '(r', o) := fq_next fuel ffuel b in (c_rd_put (b, x0, y0) r', f o)) =
     snd (let '(r', o) := fq_next fuel ffuel a in (c_rd_put (a, x0, y0) r', f o)) /\
     QCPeq (fst (let '(r', o) := fq_next fuel ffuel a in (c_rd_put (a, x0, y0) r', f o)))
           (fst (let '(r', o) := fq_next fuel ffuel b in (c_rd_put (b, x0, y0) r', f o)))) \/
    ngrow (qlog a) < ngrow (qlog (c_rd (fst (let '(r', o) := fq_next fuel ffuel a in (c_rd_put (a, x0, y0) r', f o)))))).
  { intros f. destruct (fq_next_grel fuel ffuel a b Hr) as [[Ho Hc]|Hg].
    - destruct (fq_next fuel ffuel a) as [a' oa]. destruct (fq_next fuel ffuel b) as [b' ob].
      cbn [fst snd] in *. subst ob. left. split; [reflexivity|].
      unfold QCPeq, c_rd_put. cbn [c_rd fst snd]. auto.
    - right. destruct (fq_next fuel ffuel a) as [a' oa]. cbn [fst snd c_rd c_rd_put] in *. exact Hg. }
  assert (Hset : forall n s,
    (snd (let '(r', z, o) := fq_read_set fuel ffuel n b (c_slot (b, x0, y0) s) in (c_put (b, x0, y0) r' s z, set_obs z o)) =
     snd (let '(r', z, o) := fq_read_set fuel ffuel n a (c_slot (a, x0, y0) s) in (c_put (a, x0, y0) r' s z, set_obs z o)) /\
     QCPeq (fst (let '(r', z, o) := fq_read_set fuel ffuel n a (c_slot (a, x0, y0) s) in (c_put (a, x0, y0) r' s z, set_obs z o)))
           (fst (let '(r', z, o) := fq_read_set fuel ffuel n b (c_slot (b, x0, y0) s) in (c_put (b, x0, y0) r' s z, set_obs z o)))) \/
    ngrow (qlog a) <
    ngrow (qlog (c_rd (fst (let '(r', z, o) := fq_read_set fuel ffuel n a (c_slot (a, x0, y0) s) in
                            (c_put (a, x0, y0) r' s z, set_obs z o)))))).
  { intros n s. change (c_slot (b, x0, y0) s) with (c_slot (a, x0, y0) s).
    destruct (fq_read_set_grel fuel ffuel n a b (c_slot (a, x0, y0) s) Hr) as [(Ho & Hx & Hc)|Hg].
    - destruct (fq_read_set fuel ffuel n a (c_slot (a, x0, y0) s)) as [[a' za] oa].
      destruct (fq_read_set fuel ffuel n b (c_slot (a, x0, y0) s)) as [[b' zb] ob].
      cbn [fst snd] in *. subst ob zb. left. split; [reflexivity|].
      unfold QCPeq, c_put. destruct s; cbn [c_rd fst snd]; auto.
    - right. destruct (fq_read_set fuel ffuel n a (c_slot (a, x0, y0) s)) as [[a' za] oa].
      cbn [fst snd] in *. rewrite c_rd_put'. exact Hg. }
  destruct op as [| |s|s n|s| |k]; cbn [fq_hstep c_rd fst snd].
  - apply (Hnext read_obs).
  - apply (Hnext owned_obs).
  - apply (Hset None s).
  - apply (Hset (Some n) s).
  - left. split; [reflexivity|]. unfold QCPeq. cbn [c_rd fst snd]. auto.
  - left. split; [rewrite (fq_position_peq a b Hr); reflexivity|]. unfold QCPeq. cbn [c_rd fst snd]. auto.
  - destruct (nth_error (fq_spec_all inp) k) as [it|].
    2:{ left. split; [reflexivity|]. unfold QCPeq. cbn [c_rd fst snd]. auto. }
    destruct (qpolind_peq (fun z => fq_seek ffuel z (fst (coords it)) (snd (coords it)))
                (fq_seek_pi ffuel (fst (coords it)) (snd (coords it))) a b Hr) as [Ho Hc].
    cbv beta in Ho, Hc.
    destruct (fq_seek ffuel a (fst (coords it)) (snd (coords it))) as [a' oa].
    destruct (fq_seek ffuel b (fst (coords it)) (snd (coords it))) as [b' ob].
    cbn [fst snd] in *. subst ob. left. split; [reflexivity|].
    unfold QCPeq, c_rd_put. cbn [c_rd fst snd]. auto.
Qed.

Lemma fq_hrun_grel inp fuel ffuel : forall ops c1 c2, QCPeq c1 c2 ->
  ngrow (qlog (c_rd (snd (fq_hrun inp fuel ffuel ops c1)))) <= ngrow (qlog (c_rd c1)) ->
  fst (fq_hrun inp fuel ffuel ops c2) = fst (fq_hrun inp fuel ffuel ops c1) /\
  QCPeq (snd (fq_hrun inp fuel ffuel ops c1)) (snd (fq_hrun inp fuel ffuel ops c2)) /\
  ~ In (OErr FqBufferLimit) (fst (fq_hrun inp fuel ffuel ops c1)).
Proof.
  induction ops as [|op ops IH]; intros c1 c2 Hc Hn.
  { cbn [fq_hrun fst snd]. split; [reflexivity|]. split; [exact Hc|]. intros []. }
  rewrite !fq_hrun_fst_cons, !fq_hrun_snd_cons'. rewrite fq_hrun_snd_cons' in Hn.
  pose proof (fq_hstep_ngrow inp fuel ffuel op c1) as G1.
  pose proof (fq_hrun_ngrow inp fuel ffuel ops (fst (fq_hstep inp fuel ffuel op c1))) as G2.
  destruct (fq_hstep_grel inp fuel ffuel op c1 c2 Hc) as [(Ho & Hc')|Hg]; [|lia].
  destruct (IH _ _ Hc' ltac:(lia)) as (I1 & I2 & I3).
  split; [|split].
  - rewrite Ho, I1. reflexivity.
  - exact I2.
  - intros [Heq|Hin]; [|exact (I3 Hin)].
    pose proof (fq_hstep_limit_grows inp fuel ffuel op c1 Heq). lia.
Qed.

(** the policy function of a reader never changes *)
Lemma fq_hrun_polf inp fuel ffuel : forall ops c,
  qpolf (c_rd (snd (fq_hrun inp fuel ffuel ops c))) = qpolf (c_rd c).
Proof.
  induction ops as [|op ops IH]; intros c; [reflexivity|].
  rewrite fq_hrun_snd_cons', IH. clear IH.
  destruct op as [| |s|s n|s| |k]; cbn [fq_hstep].
  - destruct (fq_next fuel ffuel (c_rd c)) as [r' o] eqn:E. cbn [fst c_rd c_rd_put].
    destruct (proj1 (fq_next_ext _ _ _ _ _ E)) as (ad & _ & P & _). exact P.
  - destruct (fq_next fuel ffuel (c_rd c)) as [r' o] eqn:E. cbn [fst c_rd c_rd_put].
    destruct (proj1 (fq_next_ext _ _ _ _ _ E)) as (ad & _ & P & _). exact P.
  - destruct (fq_read_set fuel ffuel None (c_rd c) (c_slot c s)) as [[r' x] o] eqn:E. cbn [fst].
    rewrite c_rd_put'. destruct (proj1 (fq_read_set_ext _ _ _ _ _ _ _ _ E)) as (ad & _ & P & _). exact P.
  - destruct (fq_read_set fuel ffuel (Some n) (c_rd c) (c_slot c s)) as [[r' x] o] eqn:E. cbn [fst].
    rewrite c_rd_put'. destruct (proj1 (fq_read_set_ext _ _ _ _ _ _ _ _ E)) as (ad & _ & P & _). exact P.
  - reflexivity.
  - reflexivity.
  - destruct (nth_error (fq_spec_all inp) k) as [it|]; [|reflexivity].
    destruct (fq_seek ffuel (c_rd c) (fst (coords it)) (snd (coords it))) as [r' o] eqn:E.
    cbn [fst c_rd c_rd_put]. apply (fq_seek_policy_untouched _ _ _ _ _ _ E).
Qed.

Theorem fq_unconsulted_policy_irrelevant inp cap0 rs ss pol1 pol2 fuel ffuel ops :
  let run1 := fq_hrun inp fuel ffuel ops (fq_hconf0 cap0 inp rs ss pol1) in
  let run2 := fq_hrun inp fuel ffuel ops (fq_hconf0 cap0 inp rs ss pol2) in
  filter ev_is_grow (qlog (c_rd (snd run1))) = [] ->
  fst run2 = fst run1 /\
  ~ In (OErr FqBufferLimit) (fst run2) /\
  qlog (c_rd (snd run2)) = qlog (c_rd (snd run1)) /\ qcap (c_rd (snd run2)) = qcap (c_rd (snd run1)) /\
  c_rd (snd run2) = qset_pol (c_rd (snd run1)) pol2 (qpolh (c_rd (snd run1))) /\
  c_slot (snd run2) false = c_slot (snd run1) false /\ c_slot (snd run2) true = c_slot (snd run1) true.
Proof.
  cbv zeta. intros Hg.
  destruct (fq_hrun_grel inp fuel ffuel ops _ _ (QCPeq_init cap0 inp rs ss pol1 pol2)) as (H1 & (H2 & H3 & H4) & H5).
  { rewrite (ngrow_zero _ Hg). lia. }
  destruct (fq_peq_fields _ _ H2) as (_ & Ec & _ & _ & _ & _ & _ & _ & _ & El & _).
  split; [exact H1|]. split; [rewrite H1; exact H5|]. split; [exact El|]. split; [exact Ec|].
  split; [|split; assumption].
  rewrite (fq_peq_twin _ _ H2). f_equal. rewrite fq_hrun_polf. reflexivity.
Qed.

Lemma qplain_hist_ok inp ops : Forall qplain_op ops -> hist_ok inp ops.
Proof.
  intros H. unfold hist_ok. eapply Forall_impl; [|exact H].
  intros op [->|[->|[(s & ->)|[(s & ->)| ->]]]]; exact I.
Qed.

(* ------------------------------------------------------------------ *)
(** ** the theorems (FASTQ) *)

Section FqFitPolicy.
  Variables (inp : list byte) (cap0 : nat) (rs : list ritem) (ss : list sitem) (fuel ffuel : nat).
  Variables (ops : list hop).
  Hypothesis Hcap : 1 <= cap0.
  Hypothesis Hrs : forallb item_ok rs = true.
  Hypothesis Hss : forallb sitem_ok ss = true.
  Hypothesis Hff : length rs + 2 <= ffuel.
  Hypothesis Hfuel : 2 * length inp + 4 <= fuel.
  Hypothesis Hops : Forall qplain_op ops.
  Hypothesis Hfit : FqAllRecordsFit inp cap0.

  Lemma fq_fit_reference pol0 pol :
    let run0 := fq_hrun inp fuel ffuel ops (fq_hconf0 cap0 inp rs ss (pol_complete pol0)) in
    let run := fq_hrun inp fuel ffuel ops (fq_hconf0 cap0 inp rs ss pol) in
    fst run = fst run0 /\
    ~ In (OErr FqBufferLimit) (fst run) /\
    filter ev_is_grow (qlog (c_rd (snd run))) = [] /\ qcap (c_rd (snd run)) = cap0.
  Proof.
    cbv zeta.
    destruct (fq_fitting_input_never_grows_sets inp cap0 rs ss (pol_complete pol0) fuel ffuel ops
                Hcap Hrs Hss (pol_complete_PolOk1 pol0) Hff Hfuel Hops Hfit) as [Hg Hc].
    cbv zeta in Hg, Hc.
    destruct (fq_unconsulted_policy_irrelevant inp cap0 rs ss (pol_complete pol0) pol fuel ffuel ops Hg)
      as (H1 & H2 & H3 & H4 & _).
    split; [exact H1|]. split; [exact H2|]. split; [rewrite H3; exact Hg|]. rewrite H4. exact Hc.
  Qed.

  Theorem fq_fitting_input_never_refused pol :
    let run := fq_hrun inp fuel ffuel ops (fq_hconf0 cap0 inp rs ss pol) in
    ~ In (OErr FqBufferLimit) (fst run) /\
    filter ev_is_grow (qlog (c_rd (snd run))) = [] /\ qcap (c_rd (snd run)) = cap0.
  Proof. cbv zeta. apply (fq_fit_reference pol pol). Qed.

  Theorem fq_fitting_input_policy_irrelevant pol1 pol2 :
    fst (fq_hrun inp fuel ffuel ops (fq_hconf0 cap0 inp rs ss pol1)) =
    fst (fq_hrun inp fuel ffuel ops (fq_hconf0 cap0 inp rs ss pol2)).
  Proof.
    rewrite (proj1 (fq_fit_reference pol1 pol1)), (proj1 (fq_fit_reference pol1 pol2)). reflexivity.
  Qed.

  Theorem fq_fitting_input_policy_irrelevant_state pol1 pol2 :
    let c1 := snd (fq_hrun inp fuel ffuel ops (fq_hconf0 cap0 inp rs ss pol1)) in
    let c2 := snd (fq_hrun inp fuel ffuel ops (fq_hconf0 cap0 inp rs ss pol2)) in
    c_rd c2 = qset_pol (c_rd c1) pol2 (qpolh (c_rd c1)) /\
    c_slot c2 false = c_slot c1 false /\ c_slot c2 true = c_slot c1 true.
  Proof.
    cbv zeta.
    destruct (fq_fitting_input_never_refused pol1) as (_ & Hg & _). cbv zeta in Hg.
    destruct (fq_unconsulted_policy_irrelevant inp cap0 rs ss pol1 pol2 fuel ffuel ops Hg)
      as (_ & _ & _ & _ & H5 & H6 & H7).
    auto.
  Qed.

  Theorem fq_fitting_input_any_policy_spec pol :
    let obs := fst (fq_hrun inp fuel ffuel ops (fq_hconf0 cap0 inp rs ss pol)) in
    exists os h', hrun fq_sitem fq_is_rec (fq_spec_all inp) h_init ops os h' /\
                  Forall2 (obs_match inp) obs os.
  Proof.
    cbv zeta.
    destruct (fq_hist_refines_cursor inp cap0 rs ss (pol_complete pol) fuel ffuel ops Hcap Hrs Hss
                (pol_complete_PolOk1 pol) Hff Hfuel (qplain_hist_ok inp ops Hops)) as (os & h' & Hr & Hm).
    exists os, h'. split; [exact Hr|]. rewrite (proj1 (fq_fit_reference pol pol)). exact Hm.
  Qed.
End FqFitPolicy.

(* ================================================================== *)
(** * One call: a policy that is not consulted is irrelevant (every state) *)

Lemma filter_eq_ngrow l l' : filter ev_is_grow l' = filter ev_is_grow l -> ngrow l' = ngrow l.
Proof. unfold ngrow. intros ->. reflexivity. Qed.

Theorem fa_next_policy_unconsulted fuel ffuel a q a' o :
  fa_next fuel ffuel a = (a', o) -> filter ev_is_grow (log a') = filter ev_is_grow (log a) ->
  fa_next fuel ffuel (set_pol a q (polh a)) = (set_pol a' q (polh a'), o).
Proof.
  intros H Hg. apply filter_eq_ngrow in Hg.
  pose proof (fa_next_grel fuel ffuel a (set_pol a q (polh a)) (ex_intro _ q eq_refl)) as G.
  pose proof (fa_next_polf fuel ffuel (set_pol a q (polh a))) as Hp.
  rewrite H in G. destruct G as [[Ho Hr]|G]; [|cbn [fst] in G; lia].
  destruct (fa_next fuel ffuel (set_pol a q (polh a))) as [b' ob]. cbn [fst snd] in *. subst ob.
  rewrite (fa_peq_twin _ _ Hr), Hp. reflexivity.
Qed.

Theorem fa_read_set_policy_unconsulted fuel ffuel n a rs q a' rs' o :
  fa_read_set fuel ffuel n a rs = (a', rs', o) -> filter ev_is_grow (log a') = filter ev_is_grow (log a) ->
  fa_read_set fuel ffuel n (set_pol a q (polh a)) rs = (set_pol a' q (polh a'), rs', o).
Proof.
  intros H Hg. apply filter_eq_ngrow in Hg.
  pose proof (fa_read_set_grel fuel ffuel n a (set_pol a q (polh a)) rs (ex_intro _ q eq_refl)) as G.
  rewrite H in G. destruct G as [(Ho & Hx & Hr)|G]; [|cbn [fst] in G; lia].
  destruct (fa_read_set fuel ffuel n (set_pol a q (polh a)) rs) as [[b' rsb] ob] eqn:E.
  cbn [fst snd] in *. subst ob rsb.
  destruct (proj1 (fa_read_set_frame _ _ _ _ _ _ _ _ E)) as (ad & _ & Hp & _). cbn [polf set_pol] in Hp.
  rewrite (fa_peq_twin _ _ Hr), Hp. reflexivity.
Qed.

Theorem fq_next_policy_unconsulted fuel ffuel a q a' o :
  fq_next fuel ffuel a = (a', o) -> filter ev_is_grow (qlog a') = filter ev_is_grow (qlog a) ->
  fq_next fuel ffuel (qset_pol a q (qpolh a)) = (qset_pol a' q (qpolh a'), o).
Proof.
  intros H Hg. apply filter_eq_ngrow in Hg.
  pose proof (fq_next_grel fuel ffuel a (qset_pol a q (qpolh a)) (ex_intro _ q eq_refl)) as G.
  pose proof (fq_next_polf fuel ffuel (qset_pol a q (qpolh a))) as Hp.
  rewrite H in G. destruct G as [[Ho Hr]|G]; [|cbn [fst] in G; lia].
  destruct (fq_next fuel ffuel (qset_pol a q (qpolh a))) as [b' ob]. cbn [fst snd] in *. subst ob.
  rewrite (fq_peq_twin _ _ Hr), Hp. reflexivity.
Qed.

Theorem fq_read_set_policy_unconsulted fuel ffuel n a rs q a' rs' o :
  fq_read_set fuel ffuel n a rs = (a', rs', o) -> filter ev_is_grow (qlog a') = filter ev_is_grow (qlog a) ->
  fq_read_set fuel ffuel n (qset_pol a q (qpolh a)) rs = (qset_pol a' q (qpolh a'), rs', o).
Proof.
  intros H Hg. apply filter_eq_ngrow in Hg.
  pose proof (fq_read_set_grel fuel ffuel n a (qset_pol a q (qpolh a)) rs (ex_intro _ q eq_refl)) as G.
  rewrite H in G. destruct G as [(Ho & Hx & Hr)|G]; [|cbn [fst] in G; lia].
  destruct (fq_read_set fuel ffuel n (qset_pol a q (qpolh a)) rs) as [[b' rsb] ob] eqn:E.
  cbn [fst snd] in *. subst ob rsb.
  destruct (proj1 (fq_read_set_ext _ _ _ _ _ _ _ _ E)) as (ad & _ & Hp & _). cbn [qpolf qset_pol] in Hp.
  rewrite (fq_peq_twin _ _ Hr), Hp. reflexivity.
Qed.

(* ================================================================== *)
(** * Concrete data for the examples of Props/C03p.v *)

(** FASTA: one record ">a\nCCCCCC\n" of 10 bytes; needed window 11 *)
Definition c03p_one : list byte := [62; 97; 10; 67; 67; 67; 67; 67; 67; 10].

Lemma c03p_one_not_fits c : c < 11 -> ~ FaAllRecordsFit c03p_one c.
Proof.
  intros Hc H.
  assert (Hs : FaStream c03p_one 0 1 [(0, 1, [2] ++ [9])]).
  { apply (FS_last c03p_one 0 1 9 [2]). vm_compute. reflexivity. }
  specialize (H 0 1 _ ltac:(vm_compute; reflexivity) Hs).
  cbn [fa_needed app] in H. inversion H as [|? ? Hle _]; subst. cbn [length c03p_one] in Hle. lia.
Qed.

(** FASTQ: one record "@a\nCCCC\n+\nIIII\n" of 15 bytes *)
Definition c03p_qone : list byte := [64; 97; 10; 67; 67; 67; 67; 10; 43; 10; 73; 73; 73; 73; 10].

Lemma c03p_qone_not_fits c : c < 15 -> ~ FqAllRecordsFit c03p_qone c.
Proof.
  intros Hc H. specialize (H 0 (FG_first _)). unfold fq_fits in H.
  change (fq_group_end c03p_qone 0) with (Some 15) in H. cbv iota in H. lia.
Qed.

Definition c03p_qshow (o : hobs) : nat :=
  match o with
  | OSetOk l => length l | ORec _ => 10 | OOwned _ => 11 | OPos _ => 12 | OEnd => 13
  | OIter l => 20 + length l | OErr FqBufferLimit => 77 | _ => 99
  end.

Print Assumptions fa_fitting_input_never_refused.
Print Assumptions fa_fitting_input_any_policy_spec.
Print Assumptions fq_fitting_input_never_refused.
Print Assumptions fq_fitting_input_any_policy_spec.
