(** C09, end to end for record-set reads: when every record of the input
    fits the capacity of the reader (needed window, DESIGN §7), a history of
    [next()] calls, plain record-set reads, re-iterations and position
    queries never consults the growth policy: the log holds no [EvGrow] and
    the capacity is the initial one.  Fault-free sources, never-refusing
    policies.  FASTA first, FASTQ second. *)
From Coq Require Import Sorting.Sorted.
From SeqIO Require Import Model.Base Model.Fasta Model.Alloc Spec.Cursor
     Proofs.Window Proofs.FastaScanP Proofs.FastaInv Proofs.FastaStream Proofs.FastaNextP
     Proofs.FastaInitP Proofs.FastaPosP Proofs.FastaSetP Proofs.FastaSeekP Proofs.FastaHistP
     Proofs.AllocP Proofs.AllocSetP Proofs.AllocFitP.

(* ================================================================== *)
(** * FASTA *)

(* ------------------------------------------------------------------ *)
(** ** logs *)

Lemma only_reads_filter old new : only_reads old new ->
  filter ev_is_grow new = filter ev_is_grow old.
Proof.
  intros (added & -> & Hf). rewrite filter_app.
  induction Hf as [|e l He _ IH]; [reflexivity|].
  cbn [filter app]. destruct e; try contradiction. cbn [ev_is_grow]. exact IH.
Qed.

Lemma only_reads_eq a b : b = a -> only_reads a b.
Proof. intros ->. apply only_reads_refl. Qed.

(** an incomplete search has looked at the whole buffer (up to a final LF) *)
Definition Tight (r : fa) : Prop := st r = FIncomplete -> length (buf r) <= spos r + 1.

Lemma Tight_not_inc r : st r <> FIncomplete -> Tight r.
Proof. intros H Hs. contradiction. Qed.

Lemma fa_search_tight r r' b : fa_search r = (r', SFound b) -> st r <> FIncomplete -> Tight r'.
Proof.
  intros H Hst. destruct b.
  - unfold fa_search in H. destruct (length (buf r) <? spos r); [discriminate|].
    destruct (fa_scan (skipn (spos r) (buf r)) (spos r) (seqpos r)) as [[f sp] sq].
    destruct f.
    + inversion H; subst. intros Hs. cbn [st set_seqpos set_spos] in Hs. contradiction.
    + cbn [buf cap set_seqpos set_spos] in H.
      destruct (length (buf r) <? cap r); [|discriminate].
      inversion H; subst. intros Hs. cbn [st set_seqpos set_st] in Hs. discriminate.
  - destruct (fa_search_incomplete _ _ H) as [_ Hend]. intros _.
    destruct (fa_search_same _ _ _ H) as (_ & _ & _ & _ & Hb & _). rewrite Hb. exact Hend.
Qed.

(* ------------------------------------------------------------------ *)
(** ** the needed windows of a stream and [FitT] *)

Definition FitsAll (inp : list byte) (its : list (nat * nat * list nat)) (c : nat) : Prop :=
  Forall (fun nd => nd <= c) (fa_needed (length inp) its).

Lemma FitsAll_skipn inp its c k : FitsAll inp its c -> FitsAll inp (skipn k its) c.
Proof.
  unfold FitsAll. intros H. rewrite <- fa_needed_skipn.
  rewrite Forall_forall in *. intros x Hx. apply H. eapply In_skipn_my; exact Hx.
Qed.

Lemma fit_head inp s line its c :
  FaStream inp s line its -> FitsAll inp its c -> s <= length inp ->
  FitT inp (scan_abs inp (S s) []) s c.
Proof.
  intros Hs Hfit Hle. destruct its as [|cur rest]; [inversion Hs|].
  destruct (FaStream_inv _ _ _ _ _ Hs) as [Hcur Hrest]. subst cur.
  unfold FitsAll in Hfit. cbn [fa_needed] in Hfit. inversion Hfit as [|? ? Hnd _]; subst.
  destruct (scan_abs inp (S s) []) as [[f p] a] eqn:HT. destruct f; cbn [FitT].
  - destruct Hrest as [Hrest Hne]. destruct rest as [|it' rest']; [congruence|].
    destruct (FaStream_inv _ _ _ _ _ Hrest) as [Hit' _]. subst it'.
    apply scan_abs_found_lt in HT. lia.
  - subst rest. lia.
Qed.

Lemma fit_tail inp s line cur rest c :
  FaStream inp s line (cur :: rest) -> FitsAll inp (cur :: rest) c -> FitsAll inp rest c.
Proof. intros _ H. apply (FitsAll_skipn inp (cur :: rest) c 1 H). Qed.

(* ------------------------------------------------------------------ *)
(** ** the set loop on fitting records: reads only *)

Lemma set_loop_finished f rfuel ffuel n is_new r rs : st r = FFinished ->
  fst (fst (fa_set_loop f rfuel ffuel n is_new r rs)) = r.
Proof. destruct f; [reflexivity|]. rewrite fa_set_loop_S. intros ->. reflexivity. Qed.

Lemma IncAt_inside inp ffuel r off s line : IncAt inp ffuel r off s line -> s < length inp.
Proof.
  intros [[W _ _ _ _] _ Hs _ _ Hlt Hle _ _].
  pose proof (win_len _ _ _ _ W). pose proof (w_pos _ _ _ _ W). pose proof (w_off _ _ _ _ W). lia.
Qed.

Lemma PosAt_inside inp ffuel r off s line : PosAt inp ffuel r off s line -> s < length inp.
Proof.
  intros H. apply nth_error_Some. rewrite (pa_gt _ _ _ _ _ _ H). discriminate.
Qed.

(** [resume_incomplete_search(true)] from an incomplete state whose record fits *)
Lemma resume_fit_cap inp ffuel fuel r off s line :
  IncAt inp ffuel r off s line -> Tight r -> FitT inp (scan_abs inp (S s) []) s (cap r) ->
  only_reads (log r) (log (fst (fa_resume fuel ffuel true r))) /\
  cap (fst (fa_resume fuel ffuel true r)) = cap r.
Proof.
  intros Hinc Ht Hfit.
  assert (Hor : only_reads (log r) (log (fst (fa_resume fuel ffuel true r)))).
  { destruct Hinc as [[W He Hpol Hcap W3] Hst Hs Hpl Hfull Hlt Hle Hwf Hscan].
    apply (resume_fit inp ffuel fuel r off (scan_abs inp (S s) [])); auto.
    rewrite Hs. exact Hfit. }
  split; [exact Hor|].
  destruct (fa_resume fuel ffuel true r) as [r1 rr] eqn:E. cbn [fst] in *.
  pose proof (fa_resume_ext _ _ _ _ _ _ E) as Hext.
  destruct (Ext_consulted _ _ Hext (only_reads_no_grow _ _ Hor)) as (Hc & _). exact Hc.
Qed.

Lemma set_loop_fit inp ffuel rfuel : length inp < rfuel ->
  forall lf r rs off s line its,
  (PosAt inp ffuel r off s line /\ length inp - s + 2 <= lf) \/
  (IncAt inp ffuel r off s line /\ Tight r /\ length inp - s + 1 <= lf) ->
  FaStream inp s line its -> FitsAll inp its (cap r) ->
  only_reads (log r) (log (fst (fst (fa_set_loop lf rfuel ffuel None true r rs)))).
Proof.
  intros Hrfuel. induction lf as [|f IH]; intros r rs off s line its Hstate Hstream Hfit.
  { destruct Hstate as [[_ H]|[_ [_ H]]]; lia. }
  rewrite fa_set_loop_S.
  destruct its as [|cur rest]; [inversion Hstream|].
  destruct (FaStream_inv _ _ _ _ _ Hstream) as [Hcur Hrest].
  assert (Hcont : forall r1 off1 rs1,
    FoundAt inp ffuel r1 off1 s line (scan_abs inp (S s) []) -> cap r1 = cap r ->
    length inp - s <= f ->
    only_reads (log r1)
      (log (fst (fst (set_found (fa_set_loop f rfuel ffuel None true) None r1 rs1))))).
  { intros r1 off1 rs1 Hfo Hc Hf.
    pose proof (FoundAt_inside _ _ _ _ _ _ _ Hfo) as Hins.
    destruct (found_step _ _ _ _ _ _ _ Hfo eq_refl) as (r2 & Hinc & Hb2 & Hsrc2 & Hst2 & Hs12 & Hs2 & Hentry & Hafter).
    destruct (fa_increment_same _ _ Hinc) as (Hl2 & Hc2 & _).
    unfold set_found. rewrite Hinc. cbn [reached].
    destruct (scan_abs inp (S s) []) as [[fl p] a] eqn:HT. destruct fl.
    - destruct Hrest as [Hrest Hne].
      destruct (scan_abs_found_gt _ _ _ _ _ HT) as [Hsp Hgtp].
      assert (Hpin : p < length inp) by (apply nth_error_Some; rewrite Hgtp; discriminate).
      rewrite <- Hl2. apply (IH r2 _ off1 p (line + length a) rest).
      + left. split; [exact Hafter|lia].
      + exact Hrest.
      + rewrite Hc2, Hc. eapply fit_tail; eassumption.
    - rewrite set_loop_finished by (apply (ea_st _ _ _ _ Hafter)). apply only_reads_eq. exact Hl2. }
  destruct Hstate as [[Hpos Hf]|[Hinc [Ht Hf]]].
  - rewrite (pa_st _ _ _ _ _ _ Hpos). cbn [fa_state_eqb].
    destruct (pos_search _ _ _ _ _ _ Hpos) as (r1 & b & Hsearch & Hs1 & Hcase).
    rewrite Hsearch.
    destruct (fa_search_same _ _ _ Hsearch) as (Hl1 & Hc1 & _).
    destruct b.
    + rewrite <- Hl1. apply (Hcont r1 off rs Hcase Hc1). lia.
    + assert (Ht1 : Tight r1).
      { eapply fa_search_tight; [exact Hsearch|]. rewrite (pa_st _ _ _ _ _ _ Hpos). discriminate. }
      destruct (snpos rs =? 0).
      * rewrite <- Hl1. apply (IH r1 rs off s line (cur :: rest)).
        -- right. split; [exact Hcase|]. split; [exact Ht1|lia].
        -- exact Hstream.
        -- rewrite Hc1. exact Hfit.
      * cbn [below fst]. apply only_reads_eq. exact Hl1.
  - rewrite (ia_st _ _ _ _ _ _ Hinc). cbn [fa_state_eqb].
    destruct (inc_resume_set inp ffuel rfuel true r off s line Hinc Hrfuel) as (r1 & off1 & Heq & Hmk & Hfo).
    pose proof (IncAt_inside _ _ _ _ _ _ Hinc) as Hins.
    destruct (resume_fit_cap inp ffuel rfuel r off s line Hinc Ht) as [Hor Hcap].
    { eapply fit_head; [exact Hstream|exact Hfit|lia]. }
    rewrite Heq in Hor, Hcap. cbn [fst] in Hor, Hcap. rewrite Heq.
    eapply only_reads_trans; [exact Hor|].
    set (r1' := if fa_state_eqb (st r1) FFinished then r1 else set_st r1 FPositioned) in *.
    assert (Hl1' : log r1' = log r1) by (unfold r1'; destruct (fa_state_eqb (st r1) FFinished); reflexivity).
    assert (Hc1' : cap r1' = cap r1) by (unfold r1'; destruct (fa_state_eqb (st r1) FFinished); reflexivity).
    rewrite <- Hl1'. apply (Hcont r1' off1 rs Hfo); [congruence|lia].
Qed.

(* ------------------------------------------------------------------ *)
(** ** a successful set read leaves a tight state (every state, every source) *)

Lemma fa_search_found_st r r1 : fa_search r = (r1, SFound true) -> st r <> FIncomplete -> st r1 <> FIncomplete.
Proof.
  unfold fa_search. destruct (length (buf r) <? spos r); [discriminate|].
  destruct (fa_scan (skipn (spos r) (buf r)) (spos r) (seqpos r)) as [[f sp] sq].
  destruct f.
  - intros H Hs; inversion H; subst. exact Hs.
  - cbn [buf cap set_seqpos set_spos]. destruct (length (buf r) <? cap r); [|discriminate].
    intros H _; inversion H; subst. cbn [st set_seqpos set_st]. discriminate.
Qed.

Lemma fa_increment_st r r1 : fa_increment r = Some r1 -> st r1 = st r.
Proof.
  unfold fa_increment. destruct (spos r <? start r); [discriminate|].
  intros H; inversion H; reflexivity.
Qed.

Lemma set_found_tight cont n r2 rs r' rs' :
  (forall r rs r' rs', cont r rs = (r', rs', LDone) -> Tight r') ->
  st r2 <> FIncomplete -> set_found cont n r2 rs = (r', rs', LDone) -> Tight r'.
Proof.
  intros Hcont Hst. unfold set_found.
  destruct (fa_increment r2) as [r3|] eqn:Ei; [|discriminate].
  destruct (reached n (snpos (fa_set_put rs r2))).
  - intros H; inversion H; subst. apply Tight_not_inc. rewrite (fa_increment_st _ _ Ei). exact Hst.
  - apply Hcont.
Qed.

Lemma set_loop_tight rfuel ffuel n : forall fuel is_new r rs r' rs',
  fa_set_loop fuel rfuel ffuel n is_new r rs = (r', rs', LDone) -> Tight r'.
Proof.
  induction fuel as [|f IH]; intros is_new r rs r' rs' H; [discriminate|].
  rewrite fa_set_loop_S in H.
  destruct (fa_state_eqb (st r) FFinished) eqn:Efin.
  { inversion H; subst. apply Tight_not_inc. destruct (st r'); discriminate. }
  destruct (fa_state_eqb (st r) FIncomplete) eqn:Einc.
  - destruct (fa_resume rfuel ffuel is_new r) as [r1 rr].
    destruct rr as [[|]|e|x|]; try discriminate.
    eapply set_found_tight; [intros ? ? ? ?; apply IH| |exact H].
    destruct (fa_state_eqb (st r1) FFinished) eqn:E1; [destruct (st r1); discriminate|].
    cbn [st set_st]. discriminate.
  - assert (Hni : st r <> FIncomplete) by (intros E; rewrite E in Einc; discriminate).
    destruct (fa_search r) as [r1 sr] eqn:Es. destruct sr as [[|]|x]; [| |discriminate].
    + eapply set_found_tight; [intros ? ? ? ?; apply IH| |exact H].
      eapply fa_search_found_st; eassumption.
    + destruct (snpos rs =? 0); [eapply IH; exact H|].
      destruct (below n (snpos rs)); [eapply IH; exact H|].
      inversion H; subst. eapply fa_search_tight; eassumption.
Qed.

Lemma read_set_tight fuel ffuel n r rs r' rs' :
  fa_read_set fuel ffuel n r rs = (r', rs', OSetOk) -> Tight r'.
Proof.
  unfold fa_read_set.
  assert (Hgo : forall r0 rs0, fa_set_finish (fa_set_loop fuel fuel ffuel n true r0 rs0) = (r', rs', OSetOk) -> Tight r').
  { intros r0 rs0 H. destruct (fa_set_loop fuel fuel ffuel n true r0 rs0) as [[r1 rs1] lr] eqn:E.
    unfold fa_set_finish in H. destruct lr; inversion H; subst.
    eapply set_loop_tight; exact E. }
  destruct (st r).
  - destruct (fa_init fuel ffuel r) as [r1 ir]. destruct ir as [[|]|e|]; try discriminate. apply Hgo.
  - destruct (fa_increment r) as [r1|]; [apply Hgo|discriminate].
  - apply Hgo.
  - apply Hgo.
  - discriminate.
Qed.

(** a record returned by [next] never leaves the reader in the middle of a search *)
Lemma next_tail_rec_st fuel ffuel r r' rc : fa_next_tail fuel ffuel r = (r', ORec rc) -> st r' <> FIncomplete.
Proof.
  unfold fa_next_tail.
  destruct (if fa_state_eqb (st r) FIncomplete then (r, SFound true) else fa_search r) as [r1 sr].
  destruct sr as [b|x]; [|discriminate].
  destruct (fa_state_eqb (st r1) FIncomplete) eqn:E1.
  - destruct (fa_resume fuel ffuel true r1) as [r2 rr]. destruct rr as [[|]|e|x|]; try discriminate.
    intros H; inversion H; subst.
    destruct (fa_state_eqb (st r2) FFinished) eqn:E2; [destruct (st r2); discriminate|].
    cbn [st set_st]. discriminate.
  - intros H; inversion H; subst. intros E; rewrite E in E1; discriminate.
Qed.

Lemma next_rec_st fuel ffuel r r' rc : fa_next fuel ffuel r = (r', ORec rc) -> st r' <> FIncomplete.
Proof.
  unfold fa_next. destruct (st r).
  - destruct (fa_init fuel ffuel r) as [r1 ir]. destruct ir as [[|]|e|]; try discriminate. apply next_tail_rec_st.
  - destruct (fa_increment r); [apply next_tail_rec_st|discriminate].
  - apply next_tail_rec_st.
  - apply next_tail_rec_st.
  - discriminate.
Qed.

(* ------------------------------------------------------------------ *)
(** ** one operation from a state between two operations ([Live], FastaHistP.v) *)

Lemma set_finish_fst x : fst (fst (fa_set_finish x)) = fst (fst x).
Proof. destruct x as [[r rs] lr]. destruct lr; reflexivity. Qed.

Lemma set_go_fit inp ffuel fuel r rs1 off s line its :
  length inp + 2 <= fuel ->
  PosAt inp ffuel r off s line \/ (IncAt inp ffuel r off s line /\ Tight r) ->
  FaStream inp s line its -> FitsAll inp its (cap r) ->
  only_reads (log r) (log (fst (fst (fa_set_finish (fa_set_loop fuel fuel ffuel None true r rs1))))).
Proof.
  intros Hfuel Hstate Hstream Hfit. rewrite set_finish_fst.
  apply (set_loop_fit inp ffuel fuel ltac:(lia) fuel r rs1 off s line its); auto.
  destruct Hstate as [H|[H Ht]]; [left|right]; (split; [exact H|]); [lia|split; [exact Ht|lia]].
Qed.

Section FaLive.
  Variables (inp : list byte) (fuel ffuel cap0 : nat) (rs : list ritem) (sks : list sitem) (pol : policy).
  Variables (pos0 ln0 : nat) (its : list (nat * nat * list nat)).
  Hypothesis Hcap : 3 <= cap0.
  Hypothesis Hrs : forallb item_ok rs = true.
  Hypothesis Hpol : PolOk pol.
  Hypothesis Hffuel : length rs + 2 <= ffuel.
  Hypothesis Hfuel : length inp + 2 <= fuel.
  Hypothesis Hstart : fa_ostart_of inp = OsRecs pos0 ln0.
  Hypothesis Hstream : FaStream inp pos0 ln0 its.
  Hypothesis Hfit : FitsAll inp its cap0.

  Let r0 : fa := fa_new cap0 (mkSource inp 0 rs sks) pol.
  Let LiveS := Live inp ffuel cap0 rs sks pol its.

  Lemma item_facts' k it : nth_error its k = Some it ->
    k < length its /\
    FaStream inp (i_s it) (i_line it) (skipn k its) /\
    i_ends it = FastaNextP.ends_of (scan_abs inp (S (i_s it)) []) /\
    match scan_abs inp (S (i_s it)) [] with
    | (true, p, a) =>
        exists it', nth_error its (S k) = Some it' /\ i_s it' = p /\ i_line it' = i_line it + length a /\
                    FaStream inp p (i_line it + length a) (skipn (S k) its)
    | (false, _, _) => S k = length its
    end.
  Proof. exact (item_facts inp fuel ffuel cap0 rs pos0 ln0 its Hcap Hffuel Hfuel Hstream k it). Qed.

  Lemma item_inside k it : nth_error its k = Some it -> i_s it < length inp.
  Proof.
    intros Hn. apply nth_error_Some.
    pose proof (Forall_nth_error _ _ _ _ (FaStream_gt inp its pos0 ln0 Hstream
                  (fa_ostart_recs_pos _ _ _ Hstart)) Hn) as H.
    cbv beta in H. rewrite H. discriminate.
  Qed.

  Lemma item_fits_rest k it : nth_error its k = Some it -> FitsAll inp (skipn k its) cap0.
  Proof. intros _. apply FitsAll_skipn. exact Hfit. Qed.

  Lemma item_fit k it : nth_error its k = Some it ->
    FitT inp (scan_abs inp (S (i_s it)) []) (i_s it) cap0.
  Proof.
    intros Hn. destruct (item_facts' k it Hn) as (_ & Hs & _).
    pose proof (item_inside k it Hn).
    eapply fit_head; [exact Hs|eapply item_fits_rest; exact Hn|lia].
  Qed.

  (** [next] *)
  Lemma live_next_fit r k : LiveS r k -> Tight r -> cap r = cap0 ->
    only_reads (log r) (log (fst (fa_next fuel ffuel r))).
  Proof.
    intros HL Ht Hc. destruct HL as [|j r off it Hn Hat|k r off it Hn Hpos|k r off it Hn Hinc|r off Hend].
    - (* fresh reader *)
      pose proof (fa_init_spec inp cap0 rs sks pol fuel ffuel Hcap Hrs Hffuel Hfuel) as Hinit.
      cbv zeta in Hinit. rewrite Hstart in Hinit.
      destruct Hinit as (r1 & off & Heq & W & He & Hs & Hsp & Hlt & Hgt & Hsq & Hpl & Hpb & Hst1 & Hc1 & Hpf & _ & Hlog).
      destruct (its_first inp pos0 ln0 its Hstream) as (it & Hn & His & Hil).
      unfold fa_next. cbn [st fa_new]. rewrite Heq.
      eapply only_reads_trans; [exact Hlog|].
      apply (next_tail_fit inp ffuel fuel (set_st r1 FParsing) off pos0);
        cbn [buf src cap start spos seqpos st log set_st]; auto; try lia.
      + eapply Win_ext; [| | |exact W]; reflexivity.
      + rewrite Hc1, <- His. eapply item_fit; exact Hn.
    - (* after a returned record *)
      destruct (item_facts' j it Hn) as (_ & _ & _ & Hnext).
      destruct (scan_abs inp (S (i_s it)) []) as [[f p] a] eqn:HT. destruct f.
      + destruct Hnext as (it' & Hn' & His & _).
        apply (next_fit inp ffuel fuel r off (i_s it) (i_line it) p a Hat).
        rewrite Hc, <- His. eapply item_fit; exact Hn'.
      + rewrite (next_after_last _ _ fuel _ _ _ _ _ _ Hat). apply only_reads_refl.
    - (* positioned *)
      destruct Hpos as [[W He Hpol' Hcap' W3] Hst Hs Hpl Hsq Hsp Hlt Hgt].
      unfold fa_next. rewrite Hst.
      apply (next_tail_fit inp ffuel fuel (set_st r FParsing) off (i_s it));
        cbn [buf src cap start spos seqpos st log set_st]; auto; try lia.
      + eapply Win_ext; [| | |exact W]; reflexivity.
      + rewrite Hc. eapply item_fit; exact Hn.
    - (* incomplete *)
      destruct (resume_fit_cap inp ffuel fuel r off (i_s it) (i_line it) Hinc Ht) as [Hor _].
      { rewrite Hc. eapply item_fit; exact Hn. }
      unfold fa_next. rewrite (ia_st _ _ _ _ _ _ Hinc).
      unfold fa_next_tail. rewrite (ia_st _ _ _ _ _ _ Hinc). cbn [fa_state_eqb].
      rewrite (ia_st _ _ _ _ _ _ Hinc). cbn [fa_state_eqb].
      destruct (fa_resume fuel ffuel true r) as [r2 rr]. cbn [fst] in Hor.
      destruct rr as [[|]|e|x|]; cbn [fst]; try exact Hor.
      destruct (fa_state_eqb (st r2) FFinished); exact Hor.
    - rewrite (next_finished fuel ffuel _ (ea_st _ _ _ _ Hend)). apply only_reads_refl.
  Qed.

  (** [read_record_set] *)
  Lemma live_set_fit r k rs0 : LiveS r k -> Tight r -> cap r = cap0 ->
    only_reads (log r) (log (fst (fst (fa_read_set fuel ffuel None r rs0)))).
  Proof.
    intros HL Ht Hc. destruct HL as [|j r off it Hn Hat|k r off it Hn Hpos|k r off it Hn Hinc|r off Hend].
    - (* fresh reader *)
      pose proof (fa_init_spec inp cap0 rs sks pol fuel ffuel Hcap Hrs Hffuel Hfuel) as Hinit.
      cbv zeta in Hinit. rewrite Hstart in Hinit.
      destruct Hinit as (r1 & off & Heq & W & He & Hs & Hsp & Hlt & Hgt & Hsq & Hpl & Hpb & Hst1 & Hc1 & Hpf & _ & Hlog).
      destruct (its_first inp pos0 ln0 its Hstream) as (it & Hn & His & Hil).
      unfold fa_read_set. cbn [st fa_new]. rewrite Heq.
      eapply only_reads_trans; [exact Hlog|].
      change (log r1) with (log (set_st r1 FPositioned)).
      apply (set_go_fit inp ffuel fuel (set_st r1 FPositioned) _ off pos0 ln0 its Hfuel); auto.
      + left. constructor; cbn [buf src cap start spos seqpos pline pbyte polf st set_st]; auto; try lia.
        constructor; cbn [buf src cap start spos seqpos pline pbyte polf st set_st]; auto; try lia.
        * eapply Win_ext; [| | |exact W]; reflexivity.
        * rewrite Hpf; exact Hpol.
      + cbn [cap set_st]. rewrite Hc1. exact Hfit.
    - (* after a returned record *)
      destruct (item_facts' j it Hn) as (_ & _ & _ & Hnext).
      destruct (scan_abs inp (S (i_s it)) []) as [[f p] a] eqn:HT. destruct f.
      + destruct Hnext as (it' & Hn' & His & Hil & Hs').
        pose proof (AtRec_common _ _ _ _ _ _ _ Hat) as [W He Hpol' Hcap' W3].
        destruct Hat as [_ _ HT' Hs Hpb Hpl _ _ Hlt Hle Hres].
        destruct Hres as [(HTe & Hst & Hw & Hne & Hlt2) | (sq & HTe & _)]; [|discriminate].
        inversion HTe as [[Hp Ha]]. clear HTe.
        destruct (scan_abs_found_gt _ _ _ _ _ HT') as [Hsp Hgt].
        unfold fa_read_set. rewrite Hst. unfold fa_increment.
        assert ((spos r <? start r) = false) as -> by (apply Nat.ltb_ge; lia).
        match goal with |- only_reads _ (log (fst (fst (fa_set_finish (fa_set_loop _ _ _ _ _ ?R _))))) => set (r1 := R) end.
        change (log r) with (log r1).
        apply (set_go_fit inp ffuel fuel r1 _ off p (i_line it + length a) (skipn (S j) its) Hfuel); auto.
        * left. unfold r1.
          constructor; cbn [buf src st start spos seqpos pline pbyte polf cap set_st set_seqpos set_start set_pbyte set_pline]; auto; try lia.
          -- constructor; cbn [buf src st start spos seqpos pline pbyte polf cap set_st set_seqpos set_start set_pbyte set_pline]; auto.
             ++ eapply Win_ext; [| | |exact W]; reflexivity.
             ++ lia.
          -- rewrite Ha. unfold shift. rewrite map_length. lia.
        * unfold r1. cbn [cap set_st set_seqpos set_start set_pbyte set_pline]. rewrite Hc.
          eapply item_fits_rest; exact Hn'.
      + assert (Hst : st r = FFinished).
        { destruct Hat as [_ _ _ _ _ _ _ _ _ _ Hres].
          destruct Hres as [(HTe & _) | (sq & _ & _ & Hst & _)]; [discriminate|exact Hst]. }
        rewrite (read_set_finished fuel ffuel None r rs0 Hst). apply only_reads_refl.
    - destruct (item_facts' k it Hn) as (_ & Hs & _ & _).
      unfold fa_read_set. rewrite (pa_st _ _ _ _ _ _ Hpos).
      apply (set_go_fit inp ffuel fuel r _ off (i_s it) (i_line it) (skipn k its) Hfuel); auto.
      rewrite Hc. eapply item_fits_rest; exact Hn.
    - destruct (item_facts' k it Hn) as (_ & Hs & _ & _).
      unfold fa_read_set. rewrite (ia_st _ _ _ _ _ _ Hinc).
      apply (set_go_fit inp ffuel fuel r _ off (i_s it) (i_line it) (skipn k its) Hfuel); auto.
      rewrite Hc. eapply item_fits_rest; exact Hn.
    - rewrite (read_set_finished fuel ffuel None r rs0 (ea_st _ _ _ _ Hend)). apply only_reads_refl.
  Qed.

  (** ** histories *)

  (** the invariant between two operations *)
  Definition HFit (h : hstate) : Prop :=
    exists k, LiveS (h_r h) k /\ Tight (h_r h) /\ cap (h_r h) = cap0 /\
              filter ev_is_grow (log (h_r h)) = [].

  Lemma after_reads r r' : only_reads (log r) (log r') -> Ext r r' ->
    cap r = cap0 -> filter ev_is_grow (log r) = [] ->
    cap r' = cap0 /\ filter ev_is_grow (log r') = [].
  Proof.
    intros Hor Hext Hc Hg.
    destruct (Ext_consulted _ _ Hext (only_reads_no_grow _ _ Hor)) as (Hc' & _).
    split; [congruence|]. rewrite (only_reads_filter _ _ Hor). exact Hg.
  Qed.

  Lemma h_r_put h r' slot rs' : h_r (h_put (h_with h r') slot rs') = r'.
  Proof. destruct slot; reflexivity. Qed.

  Lemma hstep_next_fit tgt (owned : bool) h : HFit h ->
    HFit (fst (fa_hstep fuel ffuel tgt h (if owned then HOwned else HNext))).
  Proof.
    intros (k & HL & Ht & Hc & Hg).
    assert (Hstep : h_r (fst (fa_hstep fuel ffuel tgt h (if owned then HOwned else HNext))) =
                    fst (fa_next fuel ffuel (h_r h))).
    { destruct owned; cbn [fa_hstep]; destruct (fa_next fuel ffuel (h_r h)) as [r' o]; reflexivity. }
    unfold HFit. rewrite Hstep.
    pose proof (live_next_fit _ _ HL Ht Hc) as Hor.
    destruct (live_next inp fuel ffuel cap0 rs sks pol pos0 ln0 its Hcap Hrs Hpol Hffuel Hfuel Hstart Hstream _ _ HL)
      as [(r' & it & Hn & Heq & _ & _ & HL') | (Hk & Heq)]; rewrite Heq in *; cbn [fst] in *.
    - destruct (fa_next_ext _ _ _ _ _ Heq) as [Hext _].
      destruct (after_reads _ _ Hor Hext Hc Hg) as [Hc' Hg'].
      exists (S k). split; [exact HL'|]. split; [|split; assumption].
      apply Tight_not_inc. eapply next_rec_st; exact Heq.
    - exists k. repeat split; assumption.
  Qed.

  Lemma hstep_set_fit tgt slot h : HFit h -> HFit (fst (fa_hstep fuel ffuel tgt h (HSet slot))).
  Proof.
    intros (k & HL & Ht & Hc & Hg).
    assert (Hstep : h_r (fst (fa_hstep fuel ffuel tgt h (HSet slot))) =
                    fst (fst (fa_read_set fuel ffuel None (h_r h) (h_get h slot)))).
    { cbn [fa_hstep]. destruct (fa_read_set fuel ffuel None (h_r h) (h_get h slot)) as [[r' rs'] o].
      cbn [fst]. apply h_r_put. }
    unfold HFit. rewrite Hstep.
    pose proof (live_set_fit _ _ (h_get h slot) HL Ht Hc) as Hor.
    destruct (live_set inp fuel ffuel cap0 rs sks pol pos0 ln0 its Hcap Hrs Hpol Hffuel Hfuel Hstart Hstream
                None (h_get h slot) _ _ ltac:(intros nn E; discriminate) HL)
      as [(Hklt & r' & rs' & m & Heq & _ & _ & _ & _ & HL' & _) | (Hk & Heq)]; rewrite Heq in *; cbn [fst] in *.
    - destruct (fa_read_set_frame _ _ _ _ _ _ _ _ Heq) as [Hext _].
      destruct (after_reads _ _ Hor Hext Hc Hg) as [Hc' Hg'].
      exists (k + m). split; [exact HL'|]. split; [|split; assumption].
      eapply read_set_tight; exact Heq.
    - exists k. repeat split; assumption.
  Qed.

  Definition plain_op (op : hop) : Prop :=
    op = HNext \/ op = HOwned \/ (exists s, op = HSet s) \/ (exists s, op = HIter s) \/ op = HPos.

  Lemma hstep_fit tgt h op : plain_op op -> HFit h -> HFit (fst (fa_hstep fuel ffuel tgt h op)).
  Proof.
    intros [->|[->|[(s & ->)|[(s & ->)| ->]]]] H.
    - exact (hstep_next_fit tgt false h H).
    - exact (hstep_next_fit tgt true h H).
    - exact (hstep_set_fit tgt s h H).
    - exact H.
    - exact H.
  Qed.

  Lemma hist_fit tgt : forall ops h, Forall plain_op ops -> HFit h ->
    HFit (snd (fa_hist fuel ffuel tgt ops h)).
  Proof.
    induction ops as [|op ops IH]; intros h Hops H; [exact H|].
    inversion Hops as [|? ? Hop Hops']; subst.
    rewrite fa_hist_snd_cons. apply IH; [exact Hops'|]. apply hstep_fit; assumption.
  Qed.

  Lemma HFit_init : HFit (h_init inp cap0 rs sks pol).
  Proof.
    exists 0. unfold h_init. cbn [h_r]. split; [constructor|].
    split; [apply Tight_not_inc; discriminate|]. split; reflexivity.
  Qed.
End FaLive.

(* ------------------------------------------------------------------ *)
(** ** inputs without records *)

Lemma existsb_filter_nil (l : list ev) : existsb ev_is_grow l = false -> filter ev_is_grow l = [].
Proof.
  induction l as [|e l IH]; [reflexivity|]. cbn [existsb filter]. intros H.
  apply orb_false_iff in H. destruct H as [He Hl]. rewrite He. apply IH; exact Hl.
Qed.

Section FaDead.
  Variables (inp : list byte) (fuel ffuel cap0 : nat) (rs : list ritem) (sks : list sitem) (pol : policy).
  Let r0 : fa := fa_new cap0 (mkSource inp 0 rs sks) pol.
  Variables (r1 : fa) (ir : ires) (first : fa_out).
  Hypothesis Hinit : fa_init fuel ffuel r0 = (r1, ir).
  Hypothesis Hir : match ir with IOk false => first = ONone | IErr e => first = OErr e | _ => False end.
  Hypothesis Hfin : st r1 = FFinished.

  Definition DFit (h : hstate) : Prop :=
    (h_r h = r0 \/ st (h_r h) = FFinished) /\ cap (h_r h) = cap0 /\ filter ev_is_grow (log (h_r h)) = [].

  Lemma dead_r1 : cap r1 = cap0 /\ filter ev_is_grow (log r1) = [].
  Proof.
    destruct (fa_init_extR _ _ _ _ _ Hinit) as (ad & L & G & C & _).
    split; [exact C|]. rewrite L. unfold r0. cbn [log fa_new]. rewrite app_nil_r.
    apply existsb_filter_nil. exact G.
  Qed.

  Lemma dstep_fit tgt h op : plain_op op -> DFit h -> DFit (fst (fa_hstep fuel ffuel tgt h op)).
  Proof.
    intros Hop (Hr & Hc & Hg).
    destruct (init_dead_next fuel ffuel r0 r1 ir first eq_refl Hinit Hir) as [Hn Hs].
    destruct dead_r1 as [Hc1 Hg1].
    destruct Hop as [->|[->|[(s & ->)|[(s & ->)| ->]]]]; cbn [fa_hstep fst].
    - destruct Hr as [Hr|Hr].
      + rewrite Hr, Hn. cbn [fst h_with h_r]. unfold DFit. cbn [h_r]. auto.
      + rewrite (next_finished fuel ffuel _ Hr). cbn [fst h_with h_r]. unfold DFit. cbn [h_r]. auto.
    - destruct Hr as [Hr|Hr].
      + rewrite Hr, Hn. cbn [fst h_with h_r]. unfold DFit. cbn [h_r]. auto.
      + rewrite (next_finished fuel ffuel _ Hr). cbn [fst h_with h_r]. unfold DFit. cbn [h_r]. auto.
    - destruct Hr as [Hr|Hr].
      + rewrite Hr, Hs. cbn [fst]. unfold DFit. rewrite h_r_put. auto.
      + rewrite (read_set_finished fuel ffuel None _ _ Hr). cbn [fst]. unfold DFit. rewrite h_r_put. auto.
    - unfold DFit. auto.
    - unfold DFit. auto.
  Qed.

  Lemma dhist_fit tgt : forall ops h, Forall plain_op ops -> DFit h ->
    DFit (snd (fa_hist fuel ffuel tgt ops h)).
  Proof.
    induction ops as [|op ops IH]; intros h Hops H; [exact H|].
    inversion Hops as [|? ? Hop Hops']; subst.
    rewrite fa_hist_snd_cons. apply IH; [exact Hops'|]. apply dstep_fit; assumption.
  Qed.
End FaDead.

(* ------------------------------------------------------------------ *)
(** ** the theorem (FASTA) *)

(** every record of the input fits capacity [c]: needed windows ([fa_needed],
    AllocFitP.v) of the records of the specification stream *)
Definition FaAllRecordsFit (inp : list byte) (c : nat) : Prop :=
  forall pos ln its, fa_ostart_of inp = OsRecs pos ln -> FaStream inp pos ln its ->
    Forall (fun nd => nd <= c) (fa_needed (length inp) its).

Theorem fa_fitting_input_never_grows_sets inp cap0 rs sks pol fuel ffuel tgt ops :
  3 <= cap0 -> forallb item_ok rs = true -> PolOk pol ->
  length rs + 2 <= ffuel -> length inp + 2 <= fuel ->
  Forall plain_op ops ->
  FaAllRecordsFit inp cap0 ->
  let h' := snd (fa_hist fuel ffuel tgt ops (h_init inp cap0 rs sks pol)) in
  filter ev_is_grow (log (h_r h')) = [] /\ cap (h_r h') = cap0.
Proof.
  intros Hcap Hrs Hpol Hff Hfuel Hops Hfit. cbv zeta.
  pose proof (fa_init_spec inp cap0 rs sks pol fuel ffuel Hcap Hrs Hff Hfuel) as Hinit.
  cbv zeta in Hinit.
  destruct (fa_ostart_of inp) as [|ln b|pos ln] eqn:Hos.
  - destruct Hinit as (r1 & Heq & Hfin).
    destruct (dhist_fit inp fuel ffuel cap0 rs sks pol r1 (IOk false) ONone Heq eq_refl Hfin tgt ops
                (h_init inp cap0 rs sks pol) Hops) as (_ & Hc & Hg).
    { unfold DFit, h_init. cbn [h_r]. split; [left; reflexivity|]. split; reflexivity. }
    split; assumption.
  - destruct Hinit as (r1 & Heq & Hfin).
    destruct (dhist_fit inp fuel ffuel cap0 rs sks pol r1 (IErr (FaInvalidStart ln b)) (OErr (FaInvalidStart ln b))
                Heq eq_refl Hfin tgt ops (h_init inp cap0 rs sks pol) Hops) as (_ & Hc & Hg).
    { unfold DFit, h_init. cbn [h_r]. split; [left; reflexivity|]. split; reflexivity. }
    split; assumption.
  - destruct (fa_stream_total inp pos ln) as (its & Hstream).
    destruct (hist_fit inp fuel ffuel cap0 rs sks pol pos ln its Hcap Hrs Hpol Hff Hfuel Hos Hstream
                (Hfit pos ln its Hos Hstream) tgt ops (h_init inp cap0 rs sks pol) Hops
                (HFit_init inp ffuel cap0 rs sks pol its))
      as (k & _ & _ & Hc & Hg).
    split; assumption.
Qed.

Print Assumptions fa_fitting_input_never_grows_sets.

(* ================================================================== *)
(** * FASTQ *)
From SeqIO Require Import Model.Fastq Spec.FastaSpec Spec.FastqSpec Spec.CursorQ
  Proofs.FqSpecP Proofs.FastqInv Proofs.FastqNextP Proofs.FastqGrowP Proofs.FastqSetP Proofs.FastqSeekP
  Proofs.CursorP Proofs.CursorBridgeP Proofs.FastqHistP Proofs.AllocFqFitP.

(* ------------------------------------------------------------------ *)
(** ** the groups of four lines the reader works on, as a property of the input *)

(** the group of four terminated lines at [a] is a valid record: '@', '+',
    sequence and quality of equal length (the conditions of [validate], and of
    the specification [fq_spec]) *)
Definition fq_group_valid (inp : list byte) (a : nat) : bool :=
  match abs_line inp a with
  | Some b =>
      match abs_line inp b with
      | Some c =>
          match abs_line inp c with
          | Some d =>
              match abs_line inp d with
              | Some e =>
                  (hd LF (skipn a inp) =? AT) && (hd LF (skipn c inp) =? PLUS) &&
                  (length (trim_cr (window inp b (c - 1))) =? length (trim_cr (window inp d (e - 1))))
              | None => false
              end
          | None => false
          end
      | None => false
      end
  | None => false
  end.

(** the offsets at which the reader starts to work on a group: 0, and the end
    of every valid terminated group reached that way (after an invalid group,
    or after a last record without terminator, the reader is finished) *)
Inductive FqGroupAt (inp : list byte) : nat -> Prop :=
| FG_first : FqGroupAt inp 0
| FG_next a e : FqGroupAt inp a -> fq_group_end inp a = Some e -> fq_group_valid inp a = true ->
    FqGroupAt inp e.

(** every group the reader works on fits capacity [c] ([fq_fits], AllocFqFitP.v:
    the four lines with their terminators; one position more when the fourth
    terminator is missing, which includes what follows the last record) *)
Definition FqAllRecordsFit (inp : list byte) (c : nat) : Prop :=
  forall a, FqGroupAt inp a -> fq_fits inp a c.

(* ------------------------------------------------------------------ *)
(** ** [validate] on four found lines *)

Lemma found_validate inp ffuel r off e :
  QWin inp ffuel r off -> SInv inp r off Qual ->
  abs_line inp (pqual r + off) = Some e -> p1 r + 1 + off = e -> p1 r + 1 <= length (qbuf r) ->
  (snd (fq_validate r) = VOk ->
     fst (fq_validate r) = r /\ p0 r <= p1 r /\
     fq_group_end inp (p0 r + off) = Some e /\ fq_group_valid inp (p0 r + off) = true) /\
  (forall err, snd (fq_validate r) = VErr err -> qst (fst (fq_validate r)) = QFinished) /\
  (forall x, snd (fq_validate r) <> VPanic x).
Proof.
  intros W (H1 & H2 & H3 & Hq) H4 He Hle.
  pose proof (qwin_len _ _ _ _ W) as Hl. pose proof (qw_off _ _ _ _ W) as Ho.
  pose proof (abs_line_cut _ _ _ H1) as (L1 & _ & _).
  pose proof (abs_line_cut _ _ _ H2) as (L2 & _ & _).
  pose proof (abs_line_cut _ _ _ H3) as (L3 & _ & _).
  pose proof (abs_line_cut _ _ _ H4) as (L4 & _ & _).
  rewrite (validate_spec inp ffuel r off (p0 r + off) (pseq r + off) (psep r + off) (pqual r + off) (p1 r + off) W)
    by (auto; lia).
  unfold mverdict.
  assert (Hge : fq_group_end inp (p0 r + off) = Some e).
  { unfold fq_group_end. rewrite H1, H2, H3. exact H4. }
  destruct (negb (hd LF (skipn (p0 r + off) inp) =? AT)) eqn:E1.
  { cbn [fst snd]. split; [discriminate|]. split; [reflexivity|discriminate]. }
  destruct (negb (hd LF (skipn (psep r + off) inp) =? PLUS)) eqn:E2.
  { cbn [fst snd]. split; [discriminate|]. split; [reflexivity|discriminate]. }
  destruct (length (trim_cr (window inp (pseq r + off) (psep r + off - 1))) =?
            length (trim_cr (window inp (pqual r + off) (p1 r + off)))) eqn:E3.
  - cbn [fst snd]. split; [|split; discriminate]. intros _.
    split; [reflexivity|]. split; [lia|]. split; [exact Hge|].
    unfold fq_group_valid. rewrite H1, H2, H3, H4.
    apply negb_false_iff in E1. apply negb_false_iff in E2. rewrite E1, E2.
    replace (e - 1) with (p1 r + off) by lia. rewrite E3. reflexivity.
  - cbn [fst snd]. split; [discriminate|]. split; [reflexivity|discriminate].
Qed.

(* ------------------------------------------------------------------ *)
(** ** the search, with what it tells about the input *)

Lemma search_trace inp ffuel off clear s r r1 sr :
  QWin inp ffuel r off -> SInv inp r off s ->
  fq_search_from s clear r = (r1, sr) ->
  match sr with
  | QsIncomplete s3 =>
      same_base r r1 /\ SInv inp r1 off s3 /\ find_lf (skipn (sstart s3 r1) (qbuf r1)) = None /\
      inc r1 = Some s3
  | QsRec =>
      same_base r r1 /\ inc r1 = (if clear then None else inc r) /\
      p0 r1 <= p1 r1 /\ p1 r1 + 1 <= length (qbuf r1) /\
      fq_group_end inp (p0 r + off) = Some (p1 r1 + 1 + off) /\ fq_group_valid inp (p0 r + off) = true
  | QsErr _ => qst r1 = QFinished
  | QsPanic _ => False
  end.
Proof.
  intros W HS H.
  destruct (search_spec inp ffuel off clear s r W HS)
    as [(s3 & r3 & HX & Hb3 & HS3 & Hno3 & Hinc3)|(r3 & e & HX & Hb3 & Hinc3 & HS3 & H4 & He & Hle3)];
    rewrite HX in H.
  - inversion H; subst. auto.
  - set (rv := if clear then qset_inc r3 None else r3) in *.
    pose proof Hb3 as (E1 & E2 & E3 & E4 & E5 & E6 & E7 & E8 & E9 & E10).
    assert (Wv : QWin inp ffuel rv off).
    { eapply (QWin_ext inp ffuel r); [| | |exact W]; unfold rv; destruct clear; cbn [qbuf qsrc qcap qset_inc]; assumption. }
    assert (HSv : SInv inp rv off Qual).
    { eapply SInv_mono; [| | | | |exact HS3]; unfold rv; destruct clear; try reflexivity; apply Nat.le_refl. }
    assert (Fq : pqual rv = pqual r3) by (unfold rv; destruct clear; reflexivity).
    assert (F1 : p1 rv = p1 r3) by (unfold rv; destruct clear; reflexivity).
    assert (F0 : p0 rv = p0 r3) by (unfold rv; destruct clear; reflexivity).
    assert (Fb : qbuf rv = qbuf r3) by (unfold rv; destruct clear; reflexivity).
    destruct (found_validate inp ffuel rv off e Wv HSv) as (Hok & Herr & Hpanic);
      rewrite ?Fq, ?F1, ?Fb; auto.
    destruct (fq_validate rv) as [r' v] eqn:Ev. cbn [fst snd] in *.
    destruct v as [|err|x]; cbn [of_vres] in H; inversion H; subst r1 sr.
    + destruct (Hok eq_refl) as (Hr & Hp & Hge & Hval). subst r'.
      rewrite F0, E4 in Hge, Hval. rewrite F0, F1 in Hp.
      split.
      { unfold same_base, rv. destruct clear; cbn [qbuf qcap qsrc p0 qline qbyte qst qpolf qpolh qlog qset_inc];
          unfold same_base in Hb3; exact Hb3. }
      split; [unfold rv; destruct clear; [reflexivity|exact Hinc3]|].
      rewrite F0, F1, Fb. split; [exact Hp|]. split; [exact Hle3|]. split; [rewrite He; exact Hge|exact Hval].
    + apply (Herr err eq_refl).
    + apply (Hpanic x eq_refl).
Qed.

Lemma fq_validate_st r : qst r = QFinished -> qst (fst (fq_validate r)) = QFinished.
Proof. unfold fq_validate. intros H. dm; cbn [fst qst qset_st]; auto. Qed.

Lemma fq_check_end_st s r : qst r = QFinished -> qst (fst (fq_check_end s r)) = QFinished.
Proof.
  intros H. unfold fq_check_end.
  assert (HQ : qst (fst (match fq_validate (qset_p1 r (length (qbuf r))) with
                         | (r0, VOk) => (r0, QrOk true)
                         | (r0, VErr e) => (r0, QrErr e)
                         | (r0, VPanic x) => (r0, QrPanic x)
                         end)) = QFinished).
  { pose proof (fq_validate_st (qset_p1 r (length (qbuf r))) H) as Hv.
    destruct (fq_validate (qset_p1 r (length (qbuf r)))) as [r0 v]. destruct v; exact Hv. }
  destruct s; try exact HQ;
    (destruct (length (qbuf r) <? p0 r); [exact H|];
     match goal with |- context [if ?c then _ else _] => destruct c end; [exact H|];
     match goal with |- context [fq_error_pos ?a ?b ?c] => destruct (fq_error_pos a b c) as [[? ?]|] end;
     exact H).
Qed.

(* ------------------------------------------------------------------ *)
(** ** [resume_incomplete_search(.., true)] for a group that fits *)

(** the reader [r'] holds the complete, valid, terminated group at [a] *)
Definition GroupDone (inp : list byte) (ffuel a : nat) (st : fq_state) (by_ : nat) (r' : fq) : Prop :=
  exists off', QBase inp ffuel r' off' /\ p0 r' + off' = a /\ p0 r' <= p1 r' /\
    p1 r' + 1 <= length (qbuf r') /\ inc r' = None /\ qst r' = st /\ qbyte r' = by_ /\
    fq_group_end inp a = Some (p1 r' + 1 + off') /\ fq_group_valid inp a = true.

Lemma resume_trace inp ffuel a : forall fuel r off s r' rr,
  QBase inp ffuel r off -> SInv inp r off s ->
  find_lf (skipn (sstart s r) (qbuf r)) = None ->
  p0 r + off = a -> fq_fits inp a (qcap r) ->
  fq_resume fuel ffuel s true r = (r', rr) ->
  (rr = QrOk true -> qst r' <> QFinished -> GroupDone inp ffuel a (qst r) (qbyte r) r') /\
  (forall e, rr = QrErr e -> qst r' = QFinished) /\ (rr = QrOk false -> qst r' = QFinished).
Proof.
  induction fuel as [|f IH]; intros r off s r' rr B HS Hno Ha Hfit H.
  { cbn [fq_resume] in H. inversion H; subst. splits; intros; discriminate. }
  cbn [fq_resume] in H.
  pose proof B as (W & Eo & Pol & Cap).
  pose proof (qwin_len _ _ _ _ W) as Hl. pose proof (qw_off _ _ _ _ W) as Ho.
  pose proof (qw_pos _ _ _ _ W) as Hp. pose proof (qw_cap _ _ _ _ W) as Hc.
  pose proof (SInv_start _ _ _ _ HS) as [Hs1 Hs2].
  destruct (length (qbuf r) <? qcap r) eqn:Efull; [apply Nat.ltb_lt in Efull | apply Nat.ltb_ge in Efull].
  { assert (Hf : qst r' = QFinished).
    { pose proof (fq_check_end_st s (qset_st r QFinished) eq_refl) as Hce. rewrite H in Hce. exact Hce. }
    splits; intros; auto. contradiction. }
  cbn [negb orb] in H.
  destruct (p0 r =? 0) eqn:E0; [apply Nat.eqb_eq in E0 | apply Nat.eqb_neq in E0].
  { exfalso. apply (fq_full_notfit inp ffuel r off s W HS Hno); auto; try lia.
    replace off with a by lia. exact Hfit. }
  destruct (fq_make_room_ok inp r off s HS) as
    (r1 & Hmr & Eb1 & Ep1 & Ec1 & Es1 & El1 & Ey1 & Et1 & Ef1 & Eh1 & Elog1 & _ & HS1).
  rewrite Hmr in H.
  set (off1 := off + p0 r) in *.
  assert (Hlen1 : length (qbuf r1) = length (qbuf r) - p0 r) by (rewrite Eb1, skipn_length; reflexivity).
  assert (W1 : QWin inp ffuel r1 off1).
  { constructor; rewrite ?Es1, ?Ec1, ?Hlen1; try apply W; unfold off1; try lia.
    rewrite Eb1, (skipn_qbuf _ _ _ _ _ W) by lia. f_equal. lia. }
  destruct (fq_fill_ok _ _ _ _ W1) as (s' & lg' & Hfill & Hps' & Hds' & Hnf' & Hfu' & _ & Hor & Hle').
  cbv zeta in Hfill. rewrite Hfill in H.
  set (e' := Nat.min (off1 + qcap r1) (length inp)) in *.
  set (r2 := qset_log (qset_src (qset_buf r1 (window inp off1 e')) s') lg') in *.
  pose proof (qwin_len _ _ _ _ W1) as Hl1. pose proof (qw_off _ _ _ _ W1) as Ho1.
  pose proof (qw_pos _ _ _ _ W1) as Hp1.
  assert (Hwl : length (window inp off1 e') = e' - off1) by (apply window_length; unfold e'; lia).
  assert (W2 : QWin inp ffuel r2 off1).
  { constructor; unfold r2; cbn [qbuf qsrc qcap qset_log qset_src qset_buf];
      rewrite ?Hps', ?Hwl; auto; try (unfold e'; lia). }
  assert (B2 : QBase inp ffuel r2 off1).
  { split; [exact W2|]. splits.
    - unfold QEof, r2; cbn [qbuf qsrc qcap qset_log qset_src qset_buf]. rewrite Hwl, Hps'. unfold e'. lia.
    - unfold r2; cbn [qpolf qset_log qset_src qset_buf]. rewrite Ef1. exact Pol.
    - unfold r2; cbn [qcap qset_log qset_src qset_buf]. lia. }
  assert (HS2 : SInv inp r2 off1 s).
  { eapply SInv_mono; [| | | | |exact HS1]; try reflexivity.
    unfold r2; cbn [qbuf qset_log qset_src qset_buf]. rewrite Hwl. rewrite Es1 in *. unfold e'. lia. }
  assert (F0 : p0 r2 + off1 = a).
  { unfold r2; cbn [p0 qset_log qset_src qset_buf]. rewrite Ep1. unfold off1. lia. }
  assert (Fc : qcap r2 = qcap r) by (unfold r2; cbn [qcap qset_log qset_src qset_buf]; exact Ec1).
  assert (Fst : qst r2 = qst r) by (unfold r2; cbn [qst qset_log qset_src qset_buf]; exact Et1).
  assert (Fby : qbyte r2 = qbyte r) by (unfold r2; cbn [qbyte qset_log qset_src qset_buf]; exact Ey1).
  destruct (fq_search_from s true r2) as [r3 sr] eqn:Es.
  pose proof (search_trace inp ffuel off1 true s r2 r3 sr W2 HS2 Es) as Hst.
  destruct sr as [|s3|e|x].
  - inversion H; subst r' rr. destruct Hst as (Hb3 & Hinc3 & Hp3 & Hle3 & Hge & Hval).
    pose proof Hb3 as (E1 & E2 & E3 & E4 & E5 & E6 & E7 & E8 & E9 & E10).
    split; [|split; intros; discriminate]. intros _ _. exists off1.
    rewrite F0 in Hge, Hval.
    splits; auto; try congruence. eapply QBase_same; eassumption.
  - destruct Hst as (Hb3 & HS3 & Hno3 & Hinc3).
    pose proof Hb3 as (E1 & E2 & E3 & E4 & E5 & E6 & E7 & E8 & E9 & E10).
    destruct (IH r3 off1 s3 r' rr) as (I1 & I2 & I3); auto.
    + eapply QBase_same; eassumption.
    + rewrite E4. exact F0.
    + rewrite E2, Fc. exact Hfit.
    + splits; auto. intros Hrr Hnf. rewrite E7, Fst, E6, Fby in I1. apply I1; assumption.
  - inversion H; subst r' rr. splits; try (intros; discriminate). intros e0 _. exact Hst.
  - destruct Hst.
Qed.

Lemma resume_reads inp ffuel a fuel r off s :
  QBase inp ffuel r off -> SInv inp r off s ->
  find_lf (skipn (sstart s r) (qbuf r)) = None ->
  p0 r + off = a -> fq_fits inp a (qcap r) ->
  only_reads (qlog r) (qlog (fst (fq_resume fuel ffuel s true r))) /\
  qcap (fst (fq_resume fuel ffuel s true r)) = qcap r.
Proof.
  intros B HS Hno Ha Hfit.
  pose proof (fq_resume_fit inp ffuel a fuel r off s B HS Hno Ha Hfit) as Hor.
  split; [exact Hor|].
  destruct (fq_resume fuel ffuel s true r) as [r' rr] eqn:E. cbn [fst] in *.
  pose proof (fq_resume_ext _ _ _ _ _ _ _ E) as Hext.
  destruct (QExt_consulted _ _ Hext (only_reads_no_grow _ _ Hor)) as (Hc & _). exact Hc.
Qed.

(* ------------------------------------------------------------------ *)
(** ** [next] *)

(** where the group the next call works on starts (absolute offset) *)
Definition fq_work_start (r : fq) : nat :=
  match qst r with
  | QNew => 0
  | QParsing => qbyte r + (p1 r + 1 - p0 r)
  | _ => qbyte r
  end.

Lemma tail_trace inp ffuel fuel r off a r' o :
  QBase inp ffuel r off -> p0 r + off = a -> fq_fits inp a (qcap r) ->
  ((inc r = None /\ p0 r <= length (qbuf r)) \/
   (exists s, inc r = Some s /\ SInv inp r off s /\ find_lf (skipn (sstart s r) (qbuf r)) = None)) ->
  fq_next_tail fuel ffuel r = (r', o) ->
  only_reads (qlog r) (qlog r') /\
  (forall rc, o = QORec rc -> qst r' <> QFinished -> GroupDone inp ffuel a (qst r) (qbyte r) r').
Proof.
  intros B Ha Hfit Hcase H. pose proof B as (W & Eo & Pol & Cap).
  rewrite next_tail_unfold in H.
  destruct Hcase as [(Hinc & Hle)|(s & Hinc & HS & Hno)]; rewrite Hinc in H.
  - destruct (fq_search_from Head false r) as [r1 sr] eqn:Es.
    pose proof (search_trace inp ffuel off false Head r r1 sr W Hle Es) as Hst.
    destruct sr as [|s3|e|x].
    + destruct Hst as (Hb3 & Hinc3 & Hp3 & Hle3 & Hge & Hval).
      pose proof Hb3 as (E1 & E2 & E3 & E4 & E5 & E6 & E7 & E8 & E9 & E10).
      rewrite Hinc3, Hinc in H. inversion H; subst r' o.
      split; [apply only_reads_eq; exact E10|].
      intros rc _ _. exists off. rewrite Ha in Hge, Hval.
      splits; auto; try congruence. eapply QBase_same; eassumption.
    + destruct Hst as (Hb3 & HS3 & Hno3 & Hinc3).
      pose proof Hb3 as (E1 & E2 & E3 & E4 & E5 & E6 & E7 & E8 & E9 & E10).
      rewrite Hinc3 in H.
      assert (B3 : QBase inp ffuel r1 off) by (eapply QBase_same; eassumption).
      destruct (resume_reads inp ffuel a fuel r1 off s3 B3 HS3 Hno3) as [Hor _];
        [congruence | rewrite E2; exact Hfit |].
      destruct (fq_resume fuel ffuel s3 true r1) as [r2 rr] eqn:Er. cbn [fst] in Hor.
      inversion H; subst r' o. rewrite E10 in Hor. split; [exact Hor|].
      intros rc Hrc Hnf.
      destruct (resume_trace inp ffuel a fuel r1 off s3 r2 rr B3 HS3 Hno3) as (I1 & _);
        [congruence | rewrite E2; exact Hfit | exact Er |].
      rewrite E7, E6 in I1. apply I1; [|exact Hnf].
      destruct rr as [[|]|e|x|]; cbn [qr_out] in Hrc; try discriminate. reflexivity.
    + inversion H; subst r' o. split; [|intros rc Hrc; discriminate].
      pose proof (fq_search_from_frame Head false r) as Hf. rewrite Es in Hf. cbn [fst] in Hf.
      apply only_reads_eq. apply (qframe_log _ _ Hf).
    + destruct Hst.
  - destruct (resume_reads inp ffuel a fuel r off s B HS Hno Ha Hfit) as [Hor _].
    destruct (fq_resume fuel ffuel s true r) as [r2 rr] eqn:Er. cbn [fst] in Hor.
    inversion H; subst r' o. split; [exact Hor|].
    intros rc Hrc Hnf.
    destruct (resume_trace inp ffuel a fuel r off s r2 rr B HS Hno Ha Hfit Er) as (I1 & _).
    apply I1; [|exact Hnf].
    destruct rr as [[|]|e|x|]; cbn [qr_out] in Hrc; try discriminate. reflexivity.
Qed.

Lemma GroupDone_next inp ffuel a r' :
  GroupDone inp ffuel a QParsing a r' -> FqGroupAt inp a -> FqGroupAt inp (fq_work_start r').
Proof.
  intros (off' & _ & Hp0 & Hle & _ & _ & Hst & Hby & Hge & Hval) HG.
  unfold fq_work_start. rewrite Hst, Hby.
  replace (a + (p1 r' + 1 - p0 r')) with (p1 r' + 1 + off') by lia.
  eapply FG_next; eassumption.
Qed.

(** the first refill *)
Lemma init_trace inp ffuel r :
  QWin inp ffuel r 0 -> s_pos (qsrc r) = 0 -> PolOk1 (qpolf r) -> 1 <= qcap r ->
  exists r2, only_reads (qlog r) (qlog r2) /\ QBase inp ffuel r2 0 /\ same_pos r r2 /\
    0 < length (qbuf r2) + (if length inp =? 0 then 1 else 0) /\
    (fq_init ffuel r = (qset_st r2 QFinished, QIOk false) \/ fq_init ffuel r = (r2, QIOk true)).
Proof.
  intros W Hp0 Pol Cap.
  destruct (fq_fill_ok _ _ _ _ W) as (s' & lg' & Hfill & Hps' & Hds' & Hnf' & Hfu' & Hss' & Hor & Hle').
  cbv zeta in Hfill. rewrite Hp0, Nat.sub_0_r, Nat.add_0_l in Hfill.
  rewrite Nat.add_0_l in Hps'.
  set (e' := Nat.min (qcap r) (length inp)) in *.
  set (r2 := qset_log (qset_src (qset_buf r (window inp 0 e')) s') lg') in *.
  rewrite (fq_init_fill _ _ _ _ Hfill).
  assert (Hwl : length (window inp 0 e') = e') by (rewrite window_length; unfold e'; lia).
  pose proof (qw_pos _ _ _ _ W) as Hpos. pose proof (qw_cap _ _ _ _ W) as Hcap.
  exists r2.
  assert (W2 : QWin inp ffuel r2 0).
  { constructor; unfold r2; cbn [qbuf qsrc qcap qset_log qset_src qset_buf];
      rewrite ?Hps', ?Hwl; auto; try lia; unfold e'; lia. }
  split; [unfold r2; cbn [qlog qset_log]; exact Hor|].
  split.
  { split; [exact W2|]. splits.
    - unfold QEof, r2; cbn [qbuf qsrc qcap qset_log qset_src qset_buf]. rewrite Hwl, Hps'. unfold e'. lia.
    - exact Pol.
    - exact Cap. }
  split; [unfold same_pos, r2; splits; reflexivity|].
  split.
  { unfold r2; cbn [qbuf qset_log qset_src qset_buf]. rewrite Hwl. unfold e'.
    destruct (length inp =? 0) eqn:E; [lia|]. apply Nat.eqb_neq in E. lia. }
  destruct (e' =? 0); [left|right]; reflexivity.
Qed.

Section FqFit.
  Variables (inp : list byte) (ffuel fuel c : nat).
  Hypothesis Hfit : FqAllRecordsFit inp c.
  Hypothesis Hfuel : 2 * length inp + 4 <= fuel.

  (** what is kept between two operations, besides the refinement invariant [HQ] *)
  Definition QG (r : fq) : Prop :=
    (qst r <> QFinished -> FqGroupAt inp (fq_work_start r)) /\ qcap r = c.

  Lemma hq_next_core r off items r' o :
    HQo inp ffuel r off items -> QG r -> fq_next fuel ffuel r = (r', o) ->
    only_reads (qlog r) (qlog r') /\
    (forall rc, o = QORec rc -> qst r' <> QFinished -> FqGroupAt inp (fq_work_start r')).
  Proof.
    intros HQ [HG Hc] H. unfold fq_next in H.
    destruct HQ as [Hq Hoff W Sk Hp0 H0 Hinc Hln Hby Pol Cap Hit|Hq B Hinc Hpb Hle1 Hle2 Hit
                   |Hq Hinc B Hpb Hle Hit|s Hq Hinc B Hpb HS Hno Hit|Hq B Hpb Hit]; rewrite Hq in H.
    - (* New *)
      destruct (init_trace inp ffuel r W Hp0 Pol Cap) as (r2 & Hor & B2 & Hsame & Hne & [Hi|Hi]);
        destruct Hsame as (S1 & S2 & S3 & S4 & S5 & S6 & S7 & S8 & S9 & S10 & S11 & S12);
        rewrite Hi in H.
      + inversion H; subst r' o. split; [exact Hor|]. intros rc Hrc; discriminate.
      + assert (B2' : QBase inp ffuel (qset_st r2 QParsing) 0) by (eapply QBase_ext; [| | | |exact B2]; reflexivity).
        destruct (tail_trace inp ffuel fuel (qset_st r2 QParsing) 0 0 r' o B2') as [Hor2 Hgd];
          cbn [p0 qcap inc qbuf qset_st]; auto; try lia.
        { rewrite S1, Hc. apply Hfit. constructor. }
        { left. split; [congruence|lia]. }
        split; [eapply only_reads_trans; [exact Hor|exact Hor2]|].
        intros rc Hrc Hnf. specialize (Hgd rc Hrc Hnf). cbn [qst qbyte qset_st] in Hgd.
        rewrite S9, Hby in Hgd. apply (GroupDone_next inp ffuel 0 r' Hgd). constructor.
    - (* Parsing: step over the record returned last *)
      rewrite Hinc in H. unfold fq_increment in H.
      assert ((p1 r + 1 <? p0 r) = false) as E by (apply Nat.ltb_ge; lia). rewrite E in H. clear E.
      match type of H with fq_next_tail _ _ ?R = _ => set (r1 := R) in * end.
      assert (B1 : QBase inp ffuel r1 off) by (eapply QBase_ext; [| | | |exact (proj1 B)]; reflexivity).
      assert (Hws : fq_work_start r = p1 r + 1 + off) by (unfold fq_work_start; rewrite Hq; lia).
      assert (HGa : FqGroupAt inp (p1 r + 1 + off)) by (rewrite <- Hws; apply HG; congruence).
      destruct (tail_trace inp ffuel fuel r1 off (p1 r + 1 + off) r' o B1) as [Hor Hgd];
        unfold r1; cbn [p0 qcap inc qbuf qlog qset_p0 qset_line qset_byte]; auto; try lia.
      { rewrite Hc. apply Hfit. exact HGa. }
      split; [exact Hor|].
      intros rc Hrc Hnf. specialize (Hgd rc Hrc Hnf).
      unfold r1 in Hgd. cbn [qst qbyte qset_p0 qset_line qset_byte] in Hgd. rewrite Hq in Hgd.
      replace (qbyte r + (p1 r + 1 - p0 r)) with (p1 r + 1 + off) in Hgd by lia.
      apply (GroupDone_next inp ffuel _ r' Hgd HGa).
    - (* Positioned at a group start *)
      assert (B1 : QBase inp ffuel (qset_st r QParsing) off) by (eapply QBase_ext; [| | | |exact (proj1 B)]; reflexivity).
      assert (HGa : FqGroupAt inp (qbyte r)).
      { replace (qbyte r) with (fq_work_start r) by (unfold fq_work_start; rewrite Hq; reflexivity).
        apply HG; congruence. }
      destruct (tail_trace inp ffuel fuel (qset_st r QParsing) off (qbyte r) r' o B1) as [Hor Hgd];
        cbn [p0 qcap inc qbuf qlog qset_st]; auto.
      { rewrite Hc. apply Hfit. exact HGa. }
      split; [exact Hor|].
      intros rc Hrc Hnf. specialize (Hgd rc Hrc Hnf). cbn [qst qbyte qset_st] in Hgd.
      apply (GroupDone_next inp ffuel _ r' Hgd HGa).
    - (* Positioned inside a group *)
      assert (B1 : QBase inp ffuel (qset_st r QParsing) off) by (eapply QBase_ext; [| | | |exact (proj1 B)]; reflexivity).
      assert (HGa : FqGroupAt inp (qbyte r)).
      { replace (qbyte r) with (fq_work_start r) by (unfold fq_work_start; rewrite Hq; reflexivity).
        apply HG; congruence. }
      destruct (tail_trace inp ffuel fuel (qset_st r QParsing) off (qbyte r) r' o B1) as [Hor Hgd];
        cbn [p0 qcap inc qbuf qlog qset_st]; auto.
      { rewrite Hc. apply Hfit. exact HGa. }
      { right. exists s. splits; auto. }
      split; [exact Hor|].
      intros rc Hrc Hnf. specialize (Hgd rc Hrc Hnf). cbn [qst qbyte qset_st] in Hgd.
      apply (GroupDone_next inp ffuel _ r' Hgd HGa).
    - inversion H; subst r' o. split; [apply only_reads_refl|]. intros rc Hrc; discriminate.
  Qed.

  (** ** the loop of [read_record_set] *)

  Lemma loop_finished f rfuel n is_new r ps r1 ps1 lr : qst r = QFinished ->
    fq_set_loop f rfuel ffuel n is_new r ps = (r1, ps1, lr) -> r1 = r.
  Proof.
    intros Hq H. destruct f as [|f]; [inversion H; reflexivity|].
    rewrite set_loop_S, Hq in H. cbn [fq_state_eqb] in H. inversion H; reflexivity.
  Qed.

  Lemma found_finished f rfuel n is_new ps r' r1 ps1 lr : qst r' = QFinished ->
    set_found f rfuel ffuel n is_new ps r' = (r1, ps1, lr) -> qlog r1 = qlog r' /\ qst r1 = QFinished.
  Proof.
    intros Hq H. unfold set_found in H.
    destruct (fq_increment r') as [r2|] eqn:Ei; [|inversion H; subst; auto].
    assert (Hq2 : qst r2 = QFinished /\ qlog r2 = qlog r').
    { unfold fq_increment in Ei. destruct (p1 r' + 1 <? p0 r'); [discriminate|].
      inversion Ei; subst r2. split; [exact Hq|reflexivity]. }
    destruct Hq2 as [Hq2 Hl2].
    destruct (reached n (length (ps ++ [fq_bp r']))); [inversion H; subst; auto|].
    apply (loop_finished _ _ _ _ _ _ _ _ _ Hq2) in H. subst r1. auto.
  Qed.

  Definition AtGroup (r : fq) (off : nat) : Prop :=
    (inc r = None /\ p0 r <= length (qbuf r)) \/
    (exists s, inc r = Some s /\ SInv inp r off s /\ find_lf (skipn (sstart s r) (qbuf r)) = None).

  Lemma set_loop_trace rfuel : forall f r ps off r1 ps1 lr,
    QBase inp ffuel r off -> p0 r + off = qbyte r -> qst r = QPositioned -> AtGroup r off ->
    FqGroupAt inp (qbyte r) -> qcap r = c ->
    fq_set_loop f rfuel ffuel None true r ps = (r1, ps1, lr) ->
    only_reads (qlog r) (qlog r1) /\
    (lr = QLDone -> qst r1 <> QFinished -> qst r1 = QPositioned /\ FqGroupAt inp (qbyte r1)).
  Proof.
    induction f as [|f IH]; intros r ps off r1 ps1 lr B Hpb Hq Hat HG Hc H.
    { inversion H; subst. split; [apply only_reads_refl|discriminate]. }
    rewrite set_loop_S, Hq in H. cbn [fq_state_eqb] in H.
    pose proof B as (W & Eo & Pol & Cap).
    (* the continuation once the group at [qbyte r] is complete *)
    assert (Hcont : forall r' ps',
      GroupDone inp ffuel (qbyte r) QPositioned (qbyte r) r' -> qcap r' = c ->
      set_found f rfuel ffuel None true ps' r' = (r1, ps1, lr) ->
      only_reads (qlog r') (qlog r1) /\
      (lr = QLDone -> qst r1 <> QFinished -> qst r1 = QPositioned /\ FqGroupAt inp (qbyte r1))).
    { intros r' ps' (off' & B' & Hp0' & Hle' & Hlen' & Hinc' & Hst' & Hby' & Hge & Hval) Hc' Hx.
      unfold set_found, fq_increment in Hx.
      assert ((p1 r' + 1 <? p0 r') = false) as E by (apply Nat.ltb_ge; lia). rewrite E in Hx. clear E.
      cbn [reached] in Hx.
      match type of Hx with fq_set_loop _ _ _ _ _ ?R _ = _ => set (r2 := R) in * end.
      assert (B2 : QBase inp ffuel r2 off') by (eapply QBase_ext; [| | | |exact B']; reflexivity).
      assert (Hq2 : qbyte r2 = p1 r' + 1 + off').
      { unfold r2. cbn [qbyte qset_p0 qset_line qset_byte]. lia. }
      apply (IH r2 (ps' ++ [fq_bp r']) off' r1 ps1 lr B2); auto.
      - left. unfold r2. cbn [inc p0 qbuf qset_p0 qset_line qset_byte]. split; [exact Hinc'|exact Hlen'].
      - rewrite Hq2. eapply FG_next; eassumption. }
    destruct Hat as [(Hinc & Hle)|(s & Hinc & HS & Hno)]; rewrite Hinc in H.
    - (* at the start of a group: search *)
      destruct (fq_search_from Head false r) as [r3 sr] eqn:Es.
      pose proof (search_trace inp ffuel off false Head r r3 sr W Hle Es) as Hst.
      destruct sr as [|s3|e|x].
      + destruct Hst as (Hb3 & Hinc3 & Hp3 & Hle3 & Hge & Hval).
        pose proof Hb3 as (E1 & E2 & E3 & E4 & E5 & E6 & E7 & E8 & E9 & E10).
        rewrite <- E10. apply (Hcont r3 ps); [|congruence|exact H].
        exists off. rewrite Hpb in Hge, Hval. rewrite Hinc in Hinc3.
        splits; auto; try congruence. eapply QBase_same; eassumption.
      + destruct Hst as (Hb3 & HS3 & Hno3 & Hinc3).
        pose proof Hb3 as (E1 & E2 & E3 & E4 & E5 & E6 & E7 & E8 & E9 & E10).
        assert (B3 : QBase inp ffuel r3 off) by (eapply QBase_same; eassumption).
        destruct ps as [|bp ps0].
        * rewrite <- E10. apply (IH r3 [] off r1 ps1 lr B3); auto; try congruence.
          right. exists s3. splits; auto.
        * cbn [below] in H. inversion H; subst r1 ps1 lr.
          split; [apply only_reads_eq; exact E10|]. intros _ _. split; [congruence|]. rewrite E6. exact HG.
      + inversion H; subst r1 ps1 lr. split; [|discriminate].
        pose proof (fq_search_from_frame Head false r) as Hf. rewrite Es in Hf. cbn [fst] in Hf.
        apply only_reads_eq. apply (qframe_log _ _ Hf).
      + destruct Hst.
    - (* in the middle of a group: resume *)
      set (r0 := qset_inc r None) in *.
      assert (B0 : QBase inp ffuel r0 off) by (eapply QBase_ext; [| | | |exact B]; reflexivity).
      assert (HS0 : SInv inp r0 off s).
      { eapply SInv_mono; [| | | | |exact HS]; try reflexivity; apply Nat.le_refl. }
      assert (Hno0 : find_lf (skipn (sstart s r0) (qbuf r0)) = None).
      { unfold r0. rewrite sstart_inc. exact Hno. }
      assert (Hfit0 : fq_fits inp (qbyte r) (qcap r0)).
      { unfold r0. cbn [qcap qset_inc]. rewrite Hc. apply Hfit. exact HG. }
      destruct (resume_reads inp ffuel (qbyte r) rfuel r0 off s B0 HS0 Hno0 Hpb Hfit0) as [Hor Hcap].
      destruct (fq_resume rfuel ffuel s true r0) as [r' rr] eqn:Er. cbn [fst] in Hor, Hcap.
      destruct (resume_trace inp ffuel (qbyte r) rfuel r0 off s r' rr B0 HS0 Hno0 Hpb Hfit0 Er) as (I1 & I2 & I3).
      change (qlog r0) with (qlog r) in Hor. change (qcap r0) with (qcap r) in Hcap.
      change (qst r0) with (qst r) in I1. change (qbyte r0) with (qbyte r) in I1. rewrite Hq in I1.
      destruct rr as [[|]|e|x|].
      + assert (Hdec : qst r' = QFinished \/ qst r' <> QFinished)
          by (destruct (qst r'); auto; right; discriminate).
        destruct Hdec as [Hf|Hnf].
        * destruct (found_finished _ _ _ _ _ _ _ _ _ Hf H) as [Hl1 Hq1].
          split; [rewrite Hl1; exact Hor|]. intros _ Hn. contradiction.
        * destruct (Hcont r' ps (I1 eq_refl Hnf) ltac:(congruence) H) as [Hor2 Hres].
          split; [eapply only_reads_trans; eassumption|exact Hres].
      + specialize (I3 eq_refl).
        destruct ps as [|bp ps0]; inversion H; subst r1 ps1 lr; (split; [exact Hor|]);
          [discriminate|intros _ Hn; contradiction].
      + inversion H; subst r1 ps1 lr. split; [exact Hor|discriminate].
      + inversion H; subst r1 ps1 lr. split; [exact Hor|discriminate].
      + inversion H; subst r1 ps1 lr. split; [exact Hor|discriminate].
  Qed.

  Lemma go_trace r off rs r' rs' o :
    QBase inp ffuel r off -> p0 r + off = qbyte r -> qst r = QPositioned -> AtGroup r off ->
    FqGroupAt inp (qbyte r) -> qcap r = c ->
    set_go fuel ffuel None rs r = (r', rs', o) ->
    only_reads (qlog r) (qlog r') /\
    (o = QOSetOk -> qst r' <> QFinished -> FqGroupAt inp (fq_work_start r')).
  Proof.
    intros B Hpb Hq Hat HG Hc H. unfold set_go in H.
    destruct (fq_set_loop fuel fuel ffuel None true r []) as [[r1 ps1] lr] eqn:El.
    destruct (set_loop_trace fuel fuel r [] off r1 ps1 lr B Hpb Hq Hat HG Hc El) as [Hor Hres].
    destruct lr; inversion H; subst r' rs' o; (split; [exact Hor|]); try discriminate.
    intros _ Hnf. destruct (Hres eq_refl Hnf) as [Hq1 HG1].
    unfold fq_work_start. rewrite Hq1. exact HG1.
  Qed.

  Lemma hq_set_core r off items rs r' rs' o :
    HQo inp ffuel r off items -> QG r -> fq_read_set fuel ffuel None r rs = (r', rs', o) ->
    only_reads (qlog r) (qlog r') /\
    (o = QOSetOk -> qst r' <> QFinished -> FqGroupAt inp (fq_work_start r')).
  Proof.
    intros HQ [HG Hc] H. rewrite read_set_unfold in H.
    destruct HQ as [Hq Hoff W Sk Hp0 H0 Hinc Hln Hby Pol Cap Hit|Hq B Hinc Hpb Hle1 Hle2 Hit
                   |Hq Hinc B Hpb Hle Hit|s Hq Hinc B Hpb HS Hno Hit|Hq B Hpb Hit]; rewrite Hq in H.
    - (* New *)
      destruct (init_trace inp ffuel r W Hp0 Pol Cap) as (r2 & Hor & B2 & Hsame & Hne & [Hi|Hi]);
        destruct Hsame as (S1 & S2 & S3 & S4 & S5 & S6 & S7 & S8 & S9 & S10 & S11 & S12);
        rewrite Hi in H.
      + inversion H; subst r' rs' o. split; [exact Hor|discriminate].
      + assert (B2' : QBase inp ffuel (qset_st r2 QPositioned) 0) by (eapply QBase_ext; [| | | |exact B2]; reflexivity).
        destruct (go_trace (qset_st r2 QPositioned) 0 rs r' rs' o B2') as [Hor2 Hres];
          cbn [p0 qbyte qst qcap qset_st]; auto; try lia; try congruence.
        { left. cbn [inc p0 qbuf qset_st]. split; [congruence|lia]. }
        { rewrite S9, Hby. constructor. }
        split; [eapply only_reads_trans; [exact Hor|exact Hor2]|exact Hres].
    - (* Parsing: step over the record returned last *)
      rewrite Hinc in H. unfold fq_increment in H.
      assert ((p1 r + 1 <? p0 r) = false) as E by (apply Nat.ltb_ge; lia). rewrite E in H. clear E.
      match type of H with set_go _ _ _ _ (qset_st ?R _) = _ => set (r1 := R) in * end.
      assert (B1 : QBase inp ffuel (qset_st r1 QPositioned) off)
        by (eapply QBase_ext; [| | | |exact (proj1 B)]; reflexivity).
      assert (Hws : fq_work_start r = p1 r + 1 + off) by (unfold fq_work_start; rewrite Hq; lia).
      assert (HGa : FqGroupAt inp (p1 r + 1 + off)) by (rewrite <- Hws; apply HG; congruence).
      apply (go_trace (qset_st r1 QPositioned) off rs r' rs' o B1);
        unfold r1; cbn [p0 qbyte qst qcap inc qbuf qset_st qset_p0 qset_line qset_byte]; auto; try lia.
      + left. cbn [p0 qbyte qst qcap inc qbuf qset_st qset_p0 qset_line qset_byte]. split; [exact Hinc|lia].
      + replace (qbyte r + (p1 r + 1 - p0 r)) with (p1 r + 1 + off) by lia. exact HGa.
    - apply (go_trace r off rs r' rs' o (proj1 B)); auto.
      + left. split; assumption.
      + replace (qbyte r) with (fq_work_start r) by (unfold fq_work_start; rewrite Hq; reflexivity).
        apply HG; congruence.
    - apply (go_trace r off rs r' rs' o (proj1 B)); auto.
      + right. exists s. splits; auto.
      + replace (qbyte r) with (fq_work_start r) by (unfold fq_work_start; rewrite Hq; reflexivity).
        apply HG; congruence.
    - inversion H; subst r' rs' o. split; [apply only_reads_refl|discriminate].
  Qed.
End FqFit.

(* ------------------------------------------------------------------ *)
(** ** histories (FASTQ) *)

Section FqHist.
  Variables (inp : list byte) (ffuel fuel cap0 : nat).
  Hypothesis Hfit : FqAllRecordsFit inp cap0.
  Hypothesis Hfuel : 2 * length inp + 4 <= fuel.

  Definition QKeep (r : fq) : Prop :=
    QG inp cap0 r /\ filter ev_is_grow (qlog r) = [].

  Lemma qafter_reads r r' : only_reads (qlog r) (qlog r') -> QExt r r' ->
    qcap r = cap0 -> filter ev_is_grow (qlog r) = [] ->
    qcap r' = cap0 /\ filter ev_is_grow (qlog r') = [].
  Proof.
    intros Hor Hext Hc Hg.
    destruct (QExt_consulted _ _ Hext (only_reads_no_grow _ _ Hor)) as (Hc' & _).
    split; [congruence|]. rewrite (only_reads_filter _ _ Hor). exact Hg.
  Qed.

  Lemma next_keeps r items r' o : HQ inp ffuel r items -> QKeep r ->
    fq_next fuel ffuel r = (r', o) -> QKeep r'.
  Proof.
    intros (off & HQ) [HG Hg] H.
    destruct (hq_next_core inp ffuel fuel cap0 Hfit Hfuel r off items r' o HQ HG H) as [Hor Hrec].
    destruct (fq_next_ext _ _ _ _ _ H) as [Hext _].
    destruct (qafter_reads _ _ Hor Hext (proj2 HG) Hg) as [Hc' Hg'].
    split; [|exact Hg']. split; [|exact Hc'].
    intros Hnf.
    destruct (gnext_step inp ffuel fuel r items (ex_intro _ off HQ) ltac:(lia)) as (r'' & o'' & Heq & HN).
    rewrite H in Heq. inversion Heq; subst r'' o''.
    destruct HN as [i rest Hit Hrc Hpos HQ'|e l a Hit Hpos HQ' Hf|Hit HQ' Hf]; try contradiction.
    eapply Hrec; [reflexivity|exact Hnf].
  Qed.

  Lemma set_keeps r items rs r' rs' o : HQ inp ffuel r items -> QKeep r ->
    fq_read_set fuel ffuel None r rs = (r', rs', o) -> QKeep r'.
  Proof.
    intros (off & HQ) [HG Hg] H.
    destruct (hq_set_core inp ffuel fuel cap0 Hfit Hfuel r off items rs r' rs' o HQ HG H) as [Hor Hres].
    destruct (fq_read_set_ext _ _ _ _ _ _ _ _ H) as [Hext _].
    destruct (qafter_reads _ _ Hor Hext (proj2 HG) Hg) as [Hc' Hg'].
    split; [|exact Hg']. split; [|exact Hc'].
    intros Hnf.
    destruct (gset_step inp ffuel fuel None r rs items (ex_intro _ off HQ) I Hfuel) as (r'' & rs'' & o'' & Heq & HO).
    rewrite H in Heq. inversion Heq; subst r'' rs'' o''.
    destruct HO as [recs1 items1 Hit Hne Hrecs HQ1 Hpos Hcnt|recs1 e l a Hit Hps HQ1 Hf Hpos Hroom|Hit HQ1 Hf Hrs];
      try contradiction.
    apply Hres; [reflexivity|exact Hnf].
  Qed.

  (** the operations of the histories considered: no exact-count reads, no seeks *)
  Definition qplain_op (op : hop) : Prop :=
    op = HNext \/ op = HOwned \/ (exists s, op = HSet s) \/ (exists s, op = HIter s) \/ op = HPos.

  Definition QFitInv (c : hconf) : Prop :=
    (exists h, Sim inp ffuel c h) /\ QKeep (c_rd c).

  Lemma c_rd_put_rd c r s x : c_rd (c_put c r s x) = r.
  Proof. destruct s; reflexivity. Qed.

  Lemma qstep_fit c op : qplain_op op -> QFitInv c -> QFitInv (fst (fq_hstep inp fuel ffuel op c)).
  Proof.
    intros Hop ((h & HS) & HK).
    assert (Hok : hop_ok fq_sitem (fq_spec_all inp) op)
      by (destruct Hop as [->|[->|[(s & ->)|[(s & ->)| ->]]]]; exact I).
    destruct (sim_step inp ffuel fuel c h op HS Hok Hfuel) as (a & h' & _ & _ & HS').
    split; [exists h'; exact HS'|].
    pose proof (sim_rd _ _ _ _ HS) as HQ.
    destruct Hop as [->|[->|[(s & ->)|[(s & ->)| ->]]]]; cbn [fq_hstep].
    - destruct (fq_next fuel ffuel (c_rd c)) as [r' o] eqn:En. cbn [fst c_rd c_rd_put].
      eapply next_keeps; eassumption.
    - destruct (fq_next fuel ffuel (c_rd c)) as [r' o] eqn:En. cbn [fst c_rd c_rd_put].
      eapply next_keeps; eassumption.
    - destruct (fq_read_set fuel ffuel None (c_rd c) (c_slot c s)) as [[r' x] o] eqn:En. cbn [fst].
      rewrite c_rd_put_rd. eapply set_keeps; eassumption.
    - exact HK.
    - exact HK.
  Qed.

  Lemma fq_hrun_snd_cons op ops c :
    snd (fq_hrun inp fuel ffuel (op :: ops) c) =
    snd (fq_hrun inp fuel ffuel ops (fst (fq_hstep inp fuel ffuel op c))).
  Proof.
    cbn [fq_hrun]. destruct (fq_hstep inp fuel ffuel op c) as [c1 o1]. cbn [fst].
    destruct (fq_hrun inp fuel ffuel ops c1) as [os c2]. reflexivity.
  Qed.

  Lemma qhist_fit : forall ops c, Forall qplain_op ops -> QFitInv c ->
    QFitInv (snd (fq_hrun inp fuel ffuel ops c)).
  Proof.
    induction ops as [|op ops IH]; intros c Hops H; [exact H|].
    inversion Hops as [|? ? Hop Hops']; subst.
    rewrite fq_hrun_snd_cons. apply IH; [exact Hops'|]. apply qstep_fit; assumption.
  Qed.
End FqHist.

Theorem fq_fitting_input_never_grows_sets inp cap0 rs ss pol fuel ffuel ops :
  1 <= cap0 -> forallb item_ok rs = true -> forallb sitem_ok ss = true -> PolOk1 pol ->
  length rs + 2 <= ffuel -> 2 * length inp + 4 <= fuel ->
  Forall qplain_op ops ->
  FqAllRecordsFit inp cap0 ->
  let c' := snd (fq_hrun inp fuel ffuel ops (fq_hconf0 cap0 inp rs ss pol)) in
  filter ev_is_grow (qlog (c_rd c')) = [] /\ qcap (c_rd c') = cap0.
Proof.
  intros Hc Hrs Hss Hp Hf Hfu Hops Hfit. cbv zeta.
  destruct (qhist_fit inp ffuel fuel cap0 Hfit Hfu ops (fq_hconf0 cap0 inp rs ss pol) Hops)
    as (_ & (_ & Hcap) & Hg).
  - split; [exists h_init; apply Sim_init; assumption|].
    unfold fq_hconf0, QKeep, QG, c_rd, fq_new. cbn [fst qst qcap qlog].
    split; [split; [intros _; unfold fq_work_start; cbn [qst]; constructor|reflexivity]|reflexivity].
  - split; assumption.
Qed.

Print Assumptions fq_fitting_input_never_grows_sets.

(* ------------------------------------------------------------------ *)
(** ** [fq_group_valid] against the specification; helpers for concrete inputs *)

(** a terminated group is valid exactly when the specification [fq_spec]
    (started at that group, on any line number) yields a record there and goes
    on behind the group; otherwise it yields the error and stops *)
Lemma fq_group_valid_spec inp a e l : fq_group_end inp a = Some e ->
  (fq_group_valid inp a = true ->
     exists i, fq_parse (skipn a inp) l a = QRec i :: fq_parse (skipn e inp) (l + 4) e) /\
  (fq_group_valid inp a = false -> exists err, fq_parse (skipn a inp) l a = [QErr err l a]).
Proof.
  unfold fq_group_end, fq_group_valid.
  destruct (abs_line inp a) as [b|] eqn:H1; [|discriminate].
  destruct (abs_line inp b) as [c|] eqn:H2; [|discriminate].
  destruct (abs_line inp c) as [d|] eqn:H3; [|discriminate].
  intros H4. rewrite H4.
  rewrite (parse_four_term inp a b c d e l H1 H2 H3 H4). unfold sverdict.
  destruct (hd LF (skipn a inp) =? AT); cbn [negb andb].
  2:{ split; [discriminate|]. intros _. eexists; reflexivity. }
  destruct (hd LF (skipn c inp) =? PLUS); cbn [negb andb].
  2:{ split; [discriminate|]. intros _. eexists; reflexivity. }
  destruct (length (trim_cr (window inp b (c - 1))) =? length (trim_cr (window inp d (e - 1)))).
  - split; [|discriminate]. intros _. eexists; reflexivity.
  - split; [discriminate|]. intros _. eexists; reflexivity.
Qed.

(** the group starts of a concrete input can be enumerated *)
Lemma FqGroupAt_in inp (l : list nat) :
  In 0 l ->
  (forall a e, In a l -> fq_group_end inp a = Some e -> fq_group_valid inp a = true -> In e l) ->
  forall a, FqGroupAt inp a -> In a l.
Proof.
  intros H0 Hstep a H. induction H as [|a e _ IH He Hv]; [exact H0|].
  eapply Hstep; eassumption.
Qed.

(** the stream of a concrete input is unique *)
Lemma FaStream_det inp : forall its1 s line its2,
  FaStream inp s line its1 -> FaStream inp s line its2 -> its1 = its2.
Proof.
  intros its1 s line its2 H1. revert its2.
  induction H1 as [s line p a Hscan | s line p a rest Hscan Hrest IH]; intros its2 H2;
    inversion H2 as [s0 l0 p0 a0 Hscan2 | s0 l0 p0 a0 rest0 Hscan2 Hrest2]; subst;
    rewrite Hscan in Hscan2; inversion Hscan2; subst; try reflexivity.
  f_equal. apply IH. exact Hrest2.
Qed.

Lemma FaAllRecordsFit_of inp c pos ln its :
  fa_ostart_of inp = OsRecs pos ln -> FaStream inp pos ln its ->
  Forall (fun nd => nd <= c) (fa_needed (length inp) its) -> FaAllRecordsFit inp c.
Proof.
  intros Hos Hs Hf pos' ln' its' Hos' Hs'. rewrite Hos in Hos'. inversion Hos'; subst pos' ln'.
  rewrite (FaStream_det inp its' pos ln its Hs' Hs). exact Hf.
Qed.

Print Assumptions fq_group_valid_spec.

(** the predicates, unfolded *)
Lemma FaAllRecordsFit_unfold inp c : FaAllRecordsFit inp c <->
  (forall pos ln its, fa_ostart_of inp = OsRecs pos ln -> FaStream inp pos ln its ->
     Forall (fun nd => nd <= c) (fa_needed (length inp) its)).
Proof. split; intros H; exact H. Qed.

Lemma FqAllRecordsFit_unfold inp c : FqAllRecordsFit inp c <-> (forall a, FqGroupAt inp a -> fq_fits inp a c).
Proof. split; intros H; exact H. Qed.

Lemma FqGroupAt_unfold inp a : FqGroupAt inp a <->
  (a = 0 \/ exists a0, FqGroupAt inp a0 /\ fq_group_end inp a0 = Some a /\ fq_group_valid inp a0 = true).
Proof.
  split.
  - intros H. destruct H as [|a0 e H0 He Hv]; [left; reflexivity|]. right. exists a0. auto.
  - intros [->|(a0 & H0 & He & Hv)]; [constructor|]. eapply FG_next; eassumption.
Qed.

Lemma Tight_unfold r : Tight r <-> (st r = FIncomplete -> length (buf r) <= spos r + 1).
Proof. split; intros H; exact H. Qed.

(* ================================================================== *)
(** * Concrete data for the non-vacuity examples of Props/C09s.v *)

(** FASTA: four records ">a\nC\n" of 5 bytes; needed windows 6, 6, 6, 6 *)
Definition c09s_inp : list byte :=
  [62;97;10;67;10; 62;97;10;67;10; 62;97;10;67;10; 62;97;10;67;10].
Definition c09s_items : list (nat * nat * list nat) :=
  [(0, 1, [2;4]); (5, 3, [7;9]); (10, 5, [12;14]); (15, 7, [17;19])].

Lemma c09s_stream : FaStream c09s_inp 0 1 c09s_items.
Proof.
  unfold c09s_items.
  apply (FS_more c09s_inp 0 1 5 [2;4]); [vm_compute; reflexivity|].
  apply (FS_more c09s_inp 5 (1 + length [2;4]) 10 [7;9]); [vm_compute; reflexivity|].
  apply (FS_more c09s_inp 10 (1 + length [2;4] + length [7;9]) 15 [12;14]); [vm_compute; reflexivity|].
  apply (FS_last c09s_inp 15 (1 + length [2;4] + length [7;9] + length [12;14]) 19 [17]).
  vm_compute; reflexivity.
Qed.

Lemma c09s_needed : fa_needed (length c09s_inp) c09s_items = [6; 6; 6; 6].
Proof. vm_compute. reflexivity. Qed.

Lemma c09s_fits c : 6 <= c -> FaAllRecordsFit c09s_inp c.
Proof.
  intros Hc. apply (FaAllRecordsFit_of c09s_inp c 0 1 c09s_items); [vm_compute; reflexivity|exact c09s_stream|].
  rewrite c09s_needed. repeat constructor; exact Hc.
Qed.

Lemma c09s_not_fits c : c < 6 -> ~ FaAllRecordsFit c09s_inp c.
Proof.
  intros Hc H. specialize (H 0 1 c09s_items ltac:(vm_compute; reflexivity) c09s_stream).
  rewrite c09s_needed in H. inversion H; subst. lia.
Qed.

(** FASTQ: four records "@a\nC\n+\nI\n" of 9 bytes; groups start at 0, 9, 18, 27,
    and the end of the input (36) is looked at last *)
Definition c09s_qinp : list byte :=
  [64;97;10;67;10;43;10;73;10; 64;97;10;67;10;43;10;73;10;
   64;97;10;67;10;43;10;73;10; 64;97;10;67;10;43;10;73;10].

Lemma c09s_qstarts a : FqGroupAt c09s_qinp a -> In a [0; 9; 18; 27; 36].
Proof.
  apply FqGroupAt_in; [left; reflexivity|].
  intros x e Hin He _. cbn [In] in Hin.
  destruct Hin as [<-|[<-|[<-|[<-|[<-|[]]]]]]; vm_compute in He; inversion He; subst e; cbn [In]; auto 10.
Qed.

Lemma c09s_qfits c : 9 <= c -> FqAllRecordsFit c09s_qinp c.
Proof.
  intros Hc a Ha. apply c09s_qstarts in Ha. cbn [In] in Ha. unfold fq_fits.
  destruct Ha as [<-|[<-|[<-|[<-|[<-|[]]]]]];
    match goal with |- match ?X with _ => _ end => let v := eval vm_compute in X in change X with v end;
    cbv iota; try change (length c09s_qinp) with 36; lia.
Qed.

Lemma c09s_qnot_fits c : c < 9 -> ~ FqAllRecordsFit c09s_qinp c.
Proof.
  intros Hc H. specialize (H 0 (FG_first _)). unfold fq_fits in H.
  change (fq_group_end c09s_qinp 0) with (Some 9) in H. cbv iota in H. lia.
Qed.

(** the FASTQ theorem for the capacities the library allows and [PolOk] policies *)
Theorem fq_fitting_input_never_grows_sets_lib inp cap0 rs ss pol fuel ffuel ops :
  3 <= cap0 -> forallb item_ok rs = true -> forallb sitem_ok ss = true -> PolOk pol ->
  length rs + 2 <= ffuel -> 2 * length inp + 4 <= fuel ->
  Forall qplain_op ops ->
  FqAllRecordsFit inp cap0 ->
  let c' := snd (fq_hrun inp fuel ffuel ops (fq_hconf0 cap0 inp rs ss pol)) in
  filter ev_is_grow (qlog (c_rd c')) = [] /\ qcap (c_rd c') = cap0.
Proof.
  intros Hc Hrs Hss Hp Hf Hfu Hops Hfit.
  apply fq_fitting_input_never_grows_sets; auto using PolOk_PolOk1. lia.
Qed.
