(** C09 "only when needed" for the FASTQ reader at the level of the entry
    points.  The loop-level fact ([fq_grow_only_when_full], over the
    instrumented [fq_resume_g]) is in FastqGrowP.v; here the states listed by
    [fq_resume_g] are tied to the [EvGrow] events of the log, lifted to [next]
    and to record sets, and the buffer/capacity condition they need is shown to
    be kept by every operation. *)
From SeqIO Require Import Model.Base Model.Fastq Proofs.FastqGrowP
     Proofs.TraceP Proofs.FqTraceP Proofs.GrowP Proofs.GrowSitesP.

Definition QBufFits (r : fq) : Prop := length (qbuf r) <= qcap r.

(** the policy consultation made by [fq_grow] in state [s] *)
Definition fq_site_event (s : fq) : ev := EvGrow (qcap s) (qpolf s (qpolh s) (qcap s)).

Definition QGrowSite (s : fq) : Prop := p0 s = 0 /\ length (qbuf s) = qcap s.

Definition fq_resume_sites (fuel ffuel : nat) (s : stage) (mk : bool) (r : fq) : list fq :=
  snd (fq_resume_g fuel ffuel s mk r).

Definition fq_next_tail_sites (fuel ffuel : nat) (r : fq) : list fq :=
  let '(r1, sr) :=
    match inc r with
    | None => fq_search_from Head false r
    | Some _ => (r, QsRec)
    end in
  match sr with
  | QsErr _ | QsPanic _ => []
  | _ => match inc r1 with Some s => fq_resume_sites fuel ffuel s true r1 | None => [] end
  end.

Definition fq_next_sites (fuel ffuel : nat) (r : fq) : list fq :=
  match qst r with
  | QNew =>
      let '(r1, ir) := fq_init ffuel r in
      match ir with QIOk true => fq_next_tail_sites fuel ffuel (qset_st r1 QParsing) | _ => [] end
  | QPositioned => fq_next_tail_sites fuel ffuel (qset_st r QParsing)
  | QFinished => []
  | QParsing =>
      match inc r with
      | Some _ => fq_next_tail_sites fuel ffuel r
      | None => match fq_increment r with None => [] | Some r1 => fq_next_tail_sites fuel ffuel r1 end
      end
  end.

Fixpoint fq_set_loop_sites (fuel rfuel ffuel : nat) (n : option nat) (is_new : bool) (r : fq)
         (ps : list (nat * nat * nat * nat * nat)) : list fq :=
  match fuel with
  | 0 => []
  | S f =>
      if fq_state_eqb (qst r) QFinished then []
      else
        let found (r : fq) :=
          let ps := ps ++ [fq_bp r] in
          match fq_increment r with
          | None => []
          | Some r => if reached n (length ps) then [] else fq_set_loop_sites f rfuel ffuel n is_new r ps
          end in
        match inc r with
        | Some s =>
            let '(r1, rr) := fq_resume rfuel ffuel s is_new (qset_inc r None) in
            fq_resume_sites rfuel ffuel s is_new (qset_inc r None) ++
            match rr with QrOk true => found r1 | _ => [] end
        | None =>
            match fq_search_from Head false r with
            | (r1, QsRec) => found r1
            | (r1, QsIncomplete _) =>
                match ps with
                | [] => fq_set_loop_sites f rfuel ffuel n is_new r1 ps
                | _ => if below n (length ps) then fq_set_loop_sites f rfuel ffuel n false r1 ps else []
                end
            | _ => []
            end
        end
  end.

Definition fq_read_set_sites (fuel ffuel : nat) (n : option nat) (r : fq) : list fq :=
  let go (r : fq) := fq_set_loop_sites fuel fuel ffuel n true r [] in
  match qst r with
  | QNew =>
      let '(r1, ir) := fq_init ffuel r in
      match ir with QIOk true => go (qset_st r1 QPositioned) | _ => [] end
  | QFinished => []
  | QParsing =>
      match inc r with
      | Some _ => go (qset_st r QPositioned)
      | None => match fq_increment r with None => [] | Some r1 => go (qset_st r1 QPositioned) end
      end
  | QPositioned => go r
  end.

(* ------------------------------------------------------------------ *)
(** ** the link to the log *)

Lemma fq_grow_link r : GrowLink (qlog r) (qlog (fst (fq_grow r))) [fq_site_event r].
Proof.
  exists [fq_site_event r]. unfold fq_grow, fq_site_event.
  destruct (qpolf r (qpolh r) (qcap r)) as [n|]; [destruct (n <=? qcap r)|]; cbn [fst]; fq_simpl; split; reflexivity.
Qed.

Lemma fq_fill_link ffuel r r' fr : fq_fill ffuel r = (r', fr) -> GrowLink (qlog r) (qlog r') [].
Proof.
  intros H. destruct (fq_fill_reads _ _ _ _ H) as (added & L & Hr & _).
  eapply GrowLink_no_grow; [exact L|]. apply reads_no_grow; exact Hr.
Qed.

Lemma core_log a b : fq_core a = fq_core b -> qlog a = qlog b.
Proof. intros H. apply (f_equal c_log H). Qed.

Lemma fq_resume_link ffuel mk : forall fuel s r r' res, fq_resume fuel ffuel s mk r = (r', res) ->
  GrowLink (qlog r) (qlog r') (map fq_site_event (fq_resume_sites fuel ffuel s mk r)).
Proof.
  unfold fq_resume_sites.
  induction fuel as [|f IH]; intros s r r' res H; cbn [fq_resume fq_resume_g] in *.
  { inversion H; subst. apply GrowLink_refl. }
  destruct (length (qbuf r) <? qcap r).
  { cbn [snd map]. destruct (fq_check_end_facts _ _ _ _ H) as [Hc _]. apply GrowLink_eq. apply (core_log _ _ Hc). }
  cbv zeta. destruct (negb mk || (p0 r =? 0)).
  - pose proof (fq_grow_link r) as L1. destruct (fq_grow r) as [r1 g]. cbn [fst] in L1.
    destruct g as [|e|x]; try (inversion H; subst; exact L1).
    destruct (fq_fill ffuel r1) as [r2 fr] eqn:E2. pose proof (fq_fill_link _ _ _ _ E2) as L2.
    destruct fr as [n|k|]; try (inversion H; subst; apply (GrowLink_trans _ _ _ _ _ L1 L2)).
    destruct (fq_search_from s true r2) as [r3 sr] eqn:E3.
    destruct (fq_search_from_facts _ _ _ _ _ E3) as (Hc & _). apply core_log in Hc.
    assert (L13 : GrowLink (qlog r) (qlog r3) [fq_site_event r]).
    { rewrite Hc. apply (GrowLink_trans _ _ _ _ _ L1 L2). }
    destruct sr as [|s'|e|x]; try (inversion H; subst; exact L13).
    specialize (IH _ _ _ _ H). destruct (fq_resume_g f ffuel s' mk r3) as [res0 gs']. cbn [snd] in *.
    rewrite map_app. apply (GrowLink_trans _ _ _ _ _ L13 IH).
  - destruct (fq_make_room s r) as [r1 g] eqn:E1. destruct (fq_make_room_facts _ _ _ _ E1) as (Hc1 & _).
    apply core_log in Hc1.
    destruct g as [|e|x]; try (inversion H; subst; apply GrowLink_eq; exact Hc1).
    destruct (fq_fill ffuel r1) as [r2 fr] eqn:E2. pose proof (fq_fill_link _ _ _ _ E2) as L2. rewrite Hc1 in L2.
    destruct fr as [n|k|]; try (inversion H; subst; exact L2).
    destruct (fq_search_from s true r2) as [r3 sr] eqn:E3.
    destruct (fq_search_from_facts _ _ _ _ _ E3) as (Hc & _). apply core_log in Hc. rewrite <- Hc in L2.
    destruct sr as [|s'|e|x]; try (inversion H; subst; exact L2).
    specialize (IH _ _ _ _ H). destruct (fq_resume_g f ffuel s' mk r3) as [res0 gs']. cbn [snd app] in *.
    apply (GrowLink_trans_nil_l _ _ _ _ L2 IH).
Qed.

Lemma fq_init_link ffuel r r' res : fq_init ffuel r = (r', res) -> GrowLink (qlog r) (qlog r') [].
Proof.
  unfold fq_init. intros H. destruct (fq_fill ffuel r) as [r1 fr] eqn:E1.
  pose proof (fq_fill_link _ _ _ _ E1) as L1. destruct fr as [[|n]|k|]; inversion H; subst; exact L1.
Qed.

Lemma fq_next_tail_link fuel ffuel r r' o : fq_next_tail fuel ffuel r = (r', o) ->
  GrowLink (qlog r) (qlog r') (map fq_site_event (fq_next_tail_sites fuel ffuel r)).
Proof.
  unfold fq_next_tail, fq_next_tail_sites. intros H.
  destruct (match inc r with None => fq_search_from Head false r | Some _ => (r, QsRec) end) as [r1 sr] eqn:E1.
  assert (L1 : qlog r1 = qlog r).
  { destruct (inc r); [inversion E1; reflexivity|].
    destruct (fq_search_from_facts _ _ _ _ _ E1) as (Hc & _). apply (core_log _ _ Hc). }
  assert (Hrest : match inc r1 with
      | Some s =>
          let '(r2, rr) := fq_resume fuel ffuel s true r1 in
          match rr with
          | QrErr e => (r2, QOErr e)
          | QrPanic x => (r2, QOPanic x)
          | QrFuel => (r2, QOFuel)
          | QrOk false => (r2, QONone)
          | QrOk true => (r2, QORec (fq_cur r2))
          end
      | None => (r1, QORec (fq_cur r1))
      end = (r', o) ->
      GrowLink (qlog r) (qlog r')
        (map fq_site_event match inc r1 with Some s => fq_resume_sites fuel ffuel s true r1 | None => [] end)).
  { intros Hq. destruct (inc r1) as [s|]; [|inversion Hq; subst; apply GrowLink_eq; exact L1].
    destruct (fq_resume fuel ffuel s true r1) as [r2 rr] eqn:E2.
    pose proof (fq_resume_link _ _ _ _ _ _ _ E2) as L2. rewrite L1 in L2.
    destruct rr as [[|]|e|x|]; inversion Hq; subst; exact L2. }
  destruct sr as [|s|e|x]; try (apply Hrest; exact H); inversion H; subst; apply GrowLink_eq; exact L1.
Qed.

Lemma fq_increment_log r r' : fq_increment r = Some r' -> qlog r' = qlog r.
Proof. intros H. destruct (fq_increment_facts _ _ H) as (Hc & _). apply (core_log _ _ Hc). Qed.

Lemma fq_next_link fuel ffuel r r' o : fq_next fuel ffuel r = (r', o) ->
  GrowLink (qlog r) (qlog r') (map fq_site_event (fq_next_sites fuel ffuel r)).
Proof.
  unfold fq_next, fq_next_sites. intros H. destruct (qst r).
  - destruct (fq_init ffuel r) as [r1 ir] eqn:E1. pose proof (fq_init_link _ _ _ _ E1) as L1.
    destruct ir as [[|]|e|]; try (inversion H; subst; exact L1).
    apply (GrowLink_trans_nil_l _ _ _ _ L1). apply (fq_next_tail_link fuel ffuel (qset_st r1 QParsing) _ _ H).
  - destruct (inc r); [apply (fq_next_tail_link _ _ _ _ _ H)|].
    destruct (fq_increment r) as [r1|] eqn:E1; [|inversion H; subst; apply GrowLink_refl].
    rewrite <- (fq_increment_log _ _ E1). apply (fq_next_tail_link _ _ _ _ _ H).
  - apply (fq_next_tail_link fuel ffuel (qset_st r QParsing) _ _ H).
  - inversion H; subst. apply GrowLink_refl.
Qed.

Lemma fq_set_loop_link rfuel ffuel : forall fuel n is_new r ps r' ps' res,
  fq_set_loop fuel rfuel ffuel n is_new r ps = (r', ps', res) ->
  GrowLink (qlog r) (qlog r') (map fq_site_event (fq_set_loop_sites fuel rfuel ffuel n is_new r ps)).
Proof.
  induction fuel as [|f IH]; intros n is_new r ps r' ps' res H; cbn [fq_set_loop fq_set_loop_sites] in *.
  { inversion H; subst; apply GrowLink_refl. }
  destruct (fq_state_eqb (qst r) QFinished); [inversion H; subst; apply GrowLink_refl|].
  assert (Hfound : forall r2 g, GrowLink (qlog r) (qlog r2) g ->
     (let ps2 := ps ++ [fq_bp r2] in
      match fq_increment r2 with
      | None => (r2, ps2, QLPanic 3)
      | Some r4 => if reached n (length ps2) then (r4, ps2, QLDone)
                   else fq_set_loop f rfuel ffuel n is_new r4 ps2
      end) = (r', ps', res) ->
     GrowLink (qlog r) (qlog r')
       (g ++ map fq_site_event
          (let ps2 := ps ++ [fq_bp r2] in
           match fq_increment r2 with
           | None => []
           | Some r4 => if reached n (length ps2) then [] else fq_set_loop_sites f rfuel ffuel n is_new r4 ps2
           end))).
  { intros r2 g L2 Hq. cbv zeta in *.
    destruct (fq_increment r2) as [r4|] eqn:Ei.
    2:{ inversion Hq; subst. cbn [map]. rewrite app_nil_r. exact L2. }
    rewrite <- (fq_increment_log _ _ Ei) in L2.
    destruct (reached n (length (ps ++ [fq_bp r2]))).
    { inversion Hq; subst. cbn [map]. rewrite app_nil_r. exact L2. }
    apply (GrowLink_trans _ _ _ _ _ L2). apply (IH _ _ _ _ _ _ _ Hq). }
  destruct (inc r) as [s|].
  - destruct (fq_resume rfuel ffuel s is_new (qset_inc r None)) as [r1 rr] eqn:E1.
    pose proof (fq_resume_link _ _ _ _ _ _ _ E1) as L1. change (qlog (qset_inc r None)) with (qlog r) in L1.
    rewrite map_app.
    destruct rr as [[|]|e|x|]; try (inversion H; subst; cbn [map]; rewrite app_nil_r; exact L1).
    + apply (Hfound r1 _ L1 H).
    + cbn [map]. rewrite app_nil_r. destruct ps; inversion H; subst; exact L1.
  - destruct (fq_search_from Head false r) as [r1 sr] eqn:E1.
    destruct (fq_search_from_facts _ _ _ _ _ E1) as (Hc & _). apply core_log in Hc.
    destruct sr as [|s|e|x]; try (inversion H; subst; apply GrowLink_eq; exact Hc).
    + apply (Hfound r1 []); [apply GrowLink_eq; exact Hc|exact H].
    + destruct ps as [|p ps0]; [rewrite <- Hc; apply (IH _ _ _ _ _ _ _ H)|].
      destruct (below n (length (p :: ps0))); [rewrite <- Hc; apply (IH _ _ _ _ _ _ _ H)|].
      inversion H; subst; apply GrowLink_eq; exact Hc.
Qed.

Lemma fq_read_set_link fuel ffuel n r rs r' rs' o : fq_read_set fuel ffuel n r rs = (r', rs', o) ->
  GrowLink (qlog r) (qlog r') (map fq_site_event (fq_read_set_sites fuel ffuel n r)).
Proof.
  unfold fq_read_set, fq_read_set_sites. intros H.
  assert (Hgo : forall r0, GrowLink (qlog r) (qlog r0) [] ->
     (let '(r1, ps, lr) := fq_set_loop fuel fuel ffuel n true r0 [] in
      match lr with
      | QLDone => (r1, mkFqSet (qbuf r1) ps, QOSetOk)
      | QLErr e => (r1, mkFqSet (qsbuf rs) [], QOErr e)
      | QLPanic x => (r1, mkFqSet (qsbuf rs) ps, QOPanic x)
      | QLFuel => (r1, mkFqSet (qsbuf rs) ps, QOFuel)
      | QLNone => (r1, mkFqSet (qsbuf rs) ps, QONone)
      end) = (r', rs', o) ->
     GrowLink (qlog r) (qlog r') (map fq_site_event (fq_set_loop_sites fuel fuel ffuel n true r0 []))).
  { intros r0 L0 Hq.
    destruct (fq_set_loop fuel fuel ffuel n true r0 []) as [[r1 ps1] lr] eqn:E.
    pose proof (fq_set_loop_link _ _ _ _ _ _ _ _ _ _ E) as L1.
    assert (r1 = r') by (destruct lr; inversion Hq; reflexivity). subst r1.
    apply (GrowLink_trans_nil_l _ _ _ _ L0 L1). }
  destruct (qst r).
  - destruct (fq_init ffuel r) as [r1 ir] eqn:E1. pose proof (fq_init_link _ _ _ _ E1) as L1.
    destruct ir as [[|]|e|]; try (inversion H; subst; exact L1).
    apply (Hgo (qset_st r1 QPositioned)); [exact L1|exact H].
  - destruct (inc r).
    + apply (Hgo (qset_st r QPositioned)); [apply GrowLink_refl|exact H].
    + destruct (fq_increment r) as [r1|] eqn:E1; [|inversion H; subst; apply GrowLink_refl].
      apply (Hgo (qset_st r1 QPositioned)); [apply GrowLink_eq; apply (fq_increment_log _ _ E1)|exact H].
  - apply (Hgo r); [apply GrowLink_refl|exact H].
  - inversion H; subst. apply GrowLink_refl.
Qed.

(* ------------------------------------------------------------------ *)
(** ** the buffer never exceeds the capacity; the listed states need the growth *)

Lemma fq_check_end_buf s r r' rr : fq_check_end s r = (r', rr) -> qbuf r' = qbuf r /\ qcap r' = qcap r.
Proof.
  unfold fq_check_end. intros H. destruct s;
    try (destruct (length (qbuf r) <? p0 r); [inversion H; subst; auto|];
         destruct (forallb _ _); [inversion H; subst; auto|];
         destruct (fq_error_pos _ _ _) as [[l id]|]; inversion H; subst; auto).
  pose proof (fq_validate_buf (qset_p1 r (length (qbuf r)))) as [Hb Hc].
  destruct (fq_validate (qset_p1 r (length (qbuf r)))) as [r1 v]. cbn [fst] in *.
  destruct v; inversion H; subst; auto.
Qed.

Lemma fq_search_from_fits s clear r r' sr : fq_search_from s clear r = (r', sr) -> QBufFits r -> QBufFits r'.
Proof.
  intros H Hf. pose proof (fq_search_from_buf s clear r) as [Hb Hc]. rewrite H in Hb, Hc. cbn [fst] in *.
  unfold QBufFits in *. rewrite Hb, Hc. exact Hf.
Qed.

Lemma fq_increment_fits r r' : fq_increment r = Some r' -> QBufFits r -> QBufFits r'.
Proof.
  intros H Hf. destruct (fq_increment_facts _ _ H) as (Hc & Hb & _). unfold QBufFits in *.
  rewrite Hb, (f_equal c_cap Hc : qcap r' = qcap r). exact Hf.
Qed.

Lemma fq_grow_fits r r' g : fq_grow r = (r', g) -> QBufFits r -> QBufFits r'.
Proof.
  intros H Hf. destruct (fq_grow_run false _ _ _ H (no_ex' _)) as (_ & _ & _ & _ & _ & _ & _ & _ & Hb & _ & _ & Hc & _).
  unfold QBufFits in *. rewrite Hb. lia.
Qed.

Lemma fq_resume_fits ffuel mk : forall fuel s r r' res, fq_resume fuel ffuel s mk r = (r', res) ->
  QBufFits r -> QBufFits r'.
Proof.
  induction fuel as [|f IH]; intros s r r' res H Hf; cbn [fq_resume] in H.
  { inversion H; subst. exact Hf. }
  destruct (length (qbuf r) <? qcap r).
  { destruct (fq_check_end_buf _ _ _ _ H) as [Hb Hc]. unfold QBufFits in *. rewrite Hb, Hc. exact Hf. }
  destruct (if negb mk || (p0 r =? 0) then fq_grow r else fq_make_room s r) as [r1 g] eqn:E1.
  assert (Hf1 : QBufFits r1).
  { destruct (negb mk || (p0 r =? 0)); [apply (fq_grow_fits _ _ _ E1 Hf)|apply (fq_make_room_len _ _ _ _ E1 Hf)]. }
  destruct g; try (inversion H; subst; exact Hf1).
  destruct (fq_fill ffuel r1) as [r2 fr] eqn:E2. pose proof (fq_fill_len _ _ _ _ E2 Hf1) as Hf2.
  destruct fr; [|inversion H; subst; unfold QBufFits; fq_simpl; cbn [length]; lia|inversion H; subst; exact Hf2].
  destruct (fq_search_from s true r2) as [r3 sr] eqn:E3. pose proof (fq_search_from_fits _ _ _ _ _ E3 Hf2) as Hf3.
  destruct sr; try (inversion H; subst; exact Hf3).
  apply (IH _ _ _ _ H Hf3).
Qed.

Lemma fq_resume_sites_ok fuel ffuel s mk r : QBufFits r ->
  Forall (fun g => length (qbuf g) = qcap g /\ (mk = true -> p0 g = 0)) (fq_resume_sites fuel ffuel s mk r).
Proof.
  intros Hf. eapply Forall_impl; [|apply (fq_grow_only_when_full fuel ffuel s mk r Hf)].
  intros g [Hfull [Hm|Hp]]; split; auto. intros ->. discriminate.
Qed.

Lemma fq_init_fits ffuel r r' res : fq_init ffuel r = (r', res) -> QBufFits r -> QBufFits r'.
Proof.
  unfold fq_init. intros H Hf. destruct (fq_fill ffuel r) as [r1 fr] eqn:E1.
  pose proof (fq_fill_len _ _ _ _ E1 Hf) as Hf1. destruct fr as [[|n]|k|]; inversion H; subst; exact Hf1.
Qed.

Lemma fq_next_tail_post fuel ffuel r r' o : fq_next_tail fuel ffuel r = (r', o) -> QBufFits r ->
  Forall QGrowSite (fq_next_tail_sites fuel ffuel r) /\ QBufFits r'.
Proof.
  unfold fq_next_tail, fq_next_tail_sites. intros H Hf.
  destruct (match inc r with None => fq_search_from Head false r | Some _ => (r, QsRec) end) as [r1 sr] eqn:E1.
  assert (Hf1 : QBufFits r1).
  { destruct (inc r); [inversion E1; subst; exact Hf|apply (fq_search_from_fits _ _ _ _ _ E1 Hf)]. }
  assert (Hrest : match inc r1 with
      | Some s =>
          let '(r2, rr) := fq_resume fuel ffuel s true r1 in
          match rr with
          | QrErr e => (r2, QOErr e)
          | QrPanic x => (r2, QOPanic x)
          | QrFuel => (r2, QOFuel)
          | QrOk false => (r2, QONone)
          | QrOk true => (r2, QORec (fq_cur r2))
          end
      | None => (r1, QORec (fq_cur r1))
      end = (r', o) ->
      Forall QGrowSite match inc r1 with Some s => fq_resume_sites fuel ffuel s true r1 | None => [] end /\
      QBufFits r').
  { intros Hq. destruct (inc r1) as [s|]; [|inversion Hq; subst; auto].
    split.
    - eapply Forall_impl; [|apply (fq_resume_sites_ok fuel ffuel s true r1 Hf1)].
      intros g [Hfull Hp]. split; [apply Hp; reflexivity|exact Hfull].
    - destruct (fq_resume fuel ffuel s true r1) as [r2 rr] eqn:E2.
      pose proof (fq_resume_fits _ _ _ _ _ _ _ E2 Hf1) as Hf2.
      destruct rr as [[|]|e|x|]; inversion Hq; subst; exact Hf2. }
  destruct sr as [|s|e|x]; try (apply Hrest; exact H); inversion H; subst; auto.
Qed.

Lemma fq_next_post fuel ffuel r r' o : fq_next fuel ffuel r = (r', o) -> QBufFits r ->
  Forall QGrowSite (fq_next_sites fuel ffuel r) /\ QBufFits r'.
Proof.
  unfold fq_next, fq_next_sites. intros H Hf. destruct (qst r).
  - destruct (fq_init ffuel r) as [r1 ir] eqn:E1. pose proof (fq_init_fits _ _ _ _ E1 Hf) as Hf1.
    destruct ir as [[|]|e|]; [apply (fq_next_tail_post fuel ffuel (qset_st r1 QParsing) _ _ H Hf1)| | |];
      inversion H; subst; auto.
  - destruct (inc r); [apply (fq_next_tail_post _ _ _ _ _ H Hf)|].
    destruct (fq_increment r) as [r1|] eqn:E1; [|inversion H; subst; auto].
    apply (fq_next_tail_post _ _ _ _ _ H (fq_increment_fits _ _ E1 Hf)).
  - apply (fq_next_tail_post fuel ffuel (qset_st r QParsing) _ _ H Hf).
  - inversion H; subst. auto.
Qed.

Definition QSetSite (n : option nat) (is_new : bool) (s : fq) : Prop :=
  length (qbuf s) = qcap s /\ (is_new = true -> n = None -> p0 s = 0).

Lemma fq_set_loop_post rfuel ffuel : forall fuel n is_new r ps r' ps' res,
  fq_set_loop fuel rfuel ffuel n is_new r ps = (r', ps', res) -> QBufFits r ->
  Forall (QSetSite n is_new) (fq_set_loop_sites fuel rfuel ffuel n is_new r ps) /\ QBufFits r'.
Proof.
  induction fuel as [|f IH]; intros n is_new r ps r' ps' res H Hf; cbn [fq_set_loop fq_set_loop_sites] in *.
  { inversion H; subst; auto. }
  destruct (fq_state_eqb (qst r) QFinished); [inversion H; subst; auto|].
  assert (Hfound : forall r2, QBufFits r2 ->
     (let ps2 := ps ++ [fq_bp r2] in
      match fq_increment r2 with
      | None => (r2, ps2, QLPanic 3)
      | Some r4 => if reached n (length ps2) then (r4, ps2, QLDone)
                   else fq_set_loop f rfuel ffuel n is_new r4 ps2
      end) = (r', ps', res) ->
     Forall (QSetSite n is_new)
          (let ps2 := ps ++ [fq_bp r2] in
           match fq_increment r2 with
           | None => []
           | Some r4 => if reached n (length ps2) then [] else fq_set_loop_sites f rfuel ffuel n is_new r4 ps2
           end) /\ QBufFits r').
  { intros r2 Hf2 Hq. cbv zeta in *.
    destruct (fq_increment r2) as [r4|] eqn:Ei; [|inversion Hq; subst; auto].
    pose proof (fq_increment_fits _ _ Ei Hf2) as Hf4.
    destruct (reached n (length (ps ++ [fq_bp r2]))); [inversion Hq; subst; auto|].
    apply (IH _ _ _ _ _ _ _ Hq Hf4). }
  destruct (inc r) as [s|].
  - destruct (fq_resume rfuel ffuel s is_new (qset_inc r None)) as [r1 rr] eqn:E1.
    assert (Hf0 : QBufFits (qset_inc r None)) by exact Hf.
    pose proof (fq_resume_fits _ _ _ _ _ _ _ E1 Hf0) as Hf1.
    assert (S : Forall (QSetSite n is_new) (fq_resume_sites rfuel ffuel s is_new (qset_inc r None))).
    { eapply Forall_impl; [|apply (fq_resume_sites_ok rfuel ffuel s is_new _ Hf0)].
      intros g [Hfull Hp]. split; [exact Hfull|]. intros Hn _. apply Hp; exact Hn. }
    destruct rr as [[|]|e|x|]; try solve [inversion H; subst; rewrite app_nil_r; auto].
    + destruct (Hfound r1 Hf1 H) as [S2 F2]. split; [apply Forall_app; split; assumption|exact F2].
    + rewrite app_nil_r. destruct ps; inversion H; subst; auto.
  - destruct (fq_search_from Head false r) as [r1 sr] eqn:E1.
    pose proof (fq_search_from_fits _ _ _ _ _ E1 Hf) as Hf1.
    destruct sr as [|s|e|x]; [| |inversion H; subst; auto|inversion H; subst; auto].
    + apply (Hfound r1 Hf1 H).
    + destruct ps as [|p ps0]; [apply (IH _ _ _ _ _ _ _ H Hf1)|].
      destruct (below n (length (p :: ps0))) eqn:Eb; [|inversion H; subst; auto].
      destruct (IH _ _ _ _ _ _ _ H Hf1) as [S F]. split; [|exact F].
      eapply Forall_impl; [|exact S]. intros g [Hfull _]. split; [exact Hfull|].
      intros _ Hn. rewrite Hn in Eb. discriminate.
Qed.

Lemma fq_read_set_post fuel ffuel n r rs r' rs' o : fq_read_set fuel ffuel n r rs = (r', rs', o) -> QBufFits r ->
  Forall (QSetSite n true) (fq_read_set_sites fuel ffuel n r) /\ QBufFits r'.
Proof.
  unfold fq_read_set, fq_read_set_sites. intros H Hf.
  assert (Hgo : forall r0, QBufFits r0 ->
     (let '(r1, ps, lr) := fq_set_loop fuel fuel ffuel n true r0 [] in
      match lr with
      | QLDone => (r1, mkFqSet (qbuf r1) ps, QOSetOk)
      | QLErr e => (r1, mkFqSet (qsbuf rs) [], QOErr e)
      | QLPanic x => (r1, mkFqSet (qsbuf rs) ps, QOPanic x)
      | QLFuel => (r1, mkFqSet (qsbuf rs) ps, QOFuel)
      | QLNone => (r1, mkFqSet (qsbuf rs) ps, QONone)
      end) = (r', rs', o) ->
     Forall (QSetSite n true) (fq_set_loop_sites fuel fuel ffuel n true r0 []) /\ QBufFits r').
  { intros r0 Hf0 Hq.
    destruct (fq_set_loop fuel fuel ffuel n true r0 []) as [[r1 ps1] lr] eqn:E.
    destruct (fq_set_loop_post _ _ _ _ _ _ _ _ _ _ E Hf0) as [S F].
    assert (r1 = r') by (destruct lr; inversion Hq; reflexivity). subst r1. auto. }
  destruct (qst r).
  - destruct (fq_init ffuel r) as [r1 ir] eqn:E1. pose proof (fq_init_fits _ _ _ _ E1 Hf) as Hf1.
    destruct ir as [[|]|e|]; [apply (Hgo (qset_st r1 QPositioned) Hf1 H)| | |]; inversion H; subst; auto.
  - destruct (inc r); [apply (Hgo (qset_st r QPositioned) Hf H)|].
    destruct (fq_increment r) as [r1|] eqn:E1; [|inversion H; subst; auto].
    apply (Hgo (qset_st r1 QPositioned) (fq_increment_fits _ _ E1 Hf) H).
  - apply (Hgo r Hf H).
  - inversion H; subst. auto.
Qed.

Lemma fq_seek_fits ffuel r line byte_ r' o : fq_seek ffuel r line byte_ = (r', o) -> QBufFits r -> QBufFits r'.
Proof.
  unfold fq_seek. intros H Hf.
  destruct ((0 <=? Z.of_nat (p0 r) + (Z.of_nat byte_ - Z.of_nat (qbyte r)))%Z &&
            (Z.of_nat (p0 r) + (Z.of_nat byte_ - Z.of_nat (qbyte r)) <? Z.of_nat (length (qbuf r)))%Z && negb (fq_state_eqb (qst r) QNew)).
  { inversion H; subst. exact Hf. }
  destruct (src_seek (qsrc r) byte_) as [s' res] eqn:Es.
  destruct res as [k|]; [inversion H; subst; exact Hf|].
  match type of H with (let '(r1, fr) := fq_fill ffuel ?R in _) = _ => set (r0 := R) in * end.
  destruct (fq_fill ffuel r0) as [r1 fr] eqn:E1.
  assert (Hf1 : QBufFits r1) by (apply (fq_fill_len _ _ _ _ E1); unfold r0; fq_simpl; cbn [length]; lia).
  destruct fr; inversion H; subst; first [exact Hf1|unfold QBufFits; fq_simpl; cbn [length]; lia].
Qed.

(** ** the theorems (FASTQ) *)

Theorem fq_next_grows_only_when_needed fuel ffuel r r' o : fq_next fuel ffuel r = (r', o) -> QBufFits r ->
  GrowsWhenNeeded fq_site_event QGrowSite (qlog r) (qlog r') (fq_next_sites fuel ffuel r).
Proof.
  intros H Hf. split.
  - apply GrowLink_final. apply (fq_next_link _ _ _ _ _ H).
  - apply (fq_next_post _ _ _ _ _ H Hf).
Qed.

Theorem fq_read_set_grows_only_when_needed fuel ffuel n r rs r' rs' o :
  fq_read_set fuel ffuel n r rs = (r', rs', o) -> QBufFits r ->
  GrowsWhenNeeded fq_site_event (fun s => length (qbuf s) = qcap s /\ (n = None -> p0 s = 0))
                  (qlog r) (qlog r') (fq_read_set_sites fuel ffuel n r).
Proof.
  intros H Hf. split.
  - apply GrowLink_final. apply (fq_read_set_link _ _ _ _ _ _ _ _ H).
  - destruct (fq_read_set_post _ _ _ _ _ _ _ _ H Hf) as (S & _).
    eapply Forall_impl; [|exact S]. intros s [Hfs Hs]. split; [exact Hfs|]. intros Hn. apply Hs; auto.
Qed.

Theorem fq_buffer_fits_preserved :
  (forall c s p, QBufFits (fq_new c s p)) /\
  (forall fuel ffuel r r' o, fq_next fuel ffuel r = (r', o) -> QBufFits r -> QBufFits r') /\
  (forall fuel ffuel n r rs r' rs' o, fq_read_set fuel ffuel n r rs = (r', rs', o) -> QBufFits r -> QBufFits r') /\
  (forall ffuel r line byte_ r' o, fq_seek ffuel r line byte_ = (r', o) -> QBufFits r -> QBufFits r') /\
  (forall r p, QBufFits r -> QBufFits (fq_set_policy r p)).
Proof.
  splits.
  - intros c s p. unfold QBufFits. cbn. lia.
  - intros fuel ffuel r r' o H Hf. apply (fq_next_post _ _ _ _ _ H Hf).
  - intros fuel ffuel n r rs r' rs' o H Hf. apply (fq_read_set_post _ _ _ _ _ _ _ _ H Hf).
  - intros ffuel r line byte_ r' o H Hf. apply (fq_seek_fits _ _ _ _ _ _ H Hf).
  - intros r p Hf. exact Hf.
Qed.
