(** C14, interrupted reads are invisible at the level of the FASTQ reader
    (see InterruptP.v for the FASTA reader and the explanation). *)
From SeqIO Require Import Model.Base Model.Fastq Proofs.TraceP Proofs.FaultP Proofs.GrowP Proofs.InterruptP.

Definition fq_strip (r : fq) : fq := qset_log (qset_src r (strip_src (qsrc r))) (strip_ev (qlog r)).
Definition QFuelOk (ffuel : nat) (r : fq) : Prop := length (s_rs (qsrc r)) + 2 <= ffuel.

Lemma fq_strip_new c s p : fq_strip (fq_new c s p) = fq_new c (strip_src s) p.
Proof. reflexivity. Qed.

Lemma QFuelOk_src ffuel r r' : qsrc r' = qsrc r -> QFuelOk ffuel r -> QFuelOk ffuel r'.
Proof. unfold QFuelOk. intros ->. auto. Qed.

Lemma fq_fill_strip ffuel r : QFuelOk ffuel r ->
  fq_fill ffuel (fq_strip r) = (fq_strip (fst (fq_fill ffuel r)), snd (fq_fill ffuel r)) /\
  QFuelOk ffuel (fst (fq_fill ffuel r)).
Proof.
  intros Hf. unfold fq_fill, fq_strip. fq_simpl.
  destruct (fill_buf ffuel (qbuf r) (qcap r) (qsrc r) (qlog r) 0) as [[[b s] lg] res] eqn:E.
  pose proof (fill_buf_enough_fuel ffuel (qbuf r) (qcap r) (qsrc r) (qlog r) 0 Hf) as Hne. rewrite E in Hne. cbn [snd] in Hne.
  rewrite (fill_buf_strip _ ffuel _ _ _ _ (strip_ev (qlog r)) _ _ _ _ _ E Hne (le_n _)).
  destruct (fill_buf_trace _ _ _ _ _ _ _ _ _ _ E) as (added & -> & _).
  rewrite new_events_app. cbn [fst snd]. fq_simpl. rewrite strip_ev_app. split; [reflexivity|].
  unfold QFuelOk in *. fq_simpl. pose proof (fill_buf_script_len _ _ _ _ _ _ _ _ _ _ E). lia.
Qed.

(** destruct the innermost scrutinees first *)
Ltac dmi := repeat match goal with
  | |- context [match ?x with _ => _ end] =>
      lazymatch x with
      | context [match _ with _ => _ end] => fail
      | _ => destruct x eqn:?
      end
  end.

Ltac fq_proj := cbn [fst snd qbuf qcap qsrc p0 p1 pseq psep pqual inc qline qbyte qst qpolf qpolh qlog
  qset_buf qset_cap qset_src qset_p0 qset_p1 qset_seq qset_sep qset_qual qset_inc qset_line qset_byte
  qset_st qset_pol qset_log].

(** the functions that do not touch the source: same result on the stripped state *)
Lemma fq_validate_strip r :
  fq_validate (fq_strip r) = (fq_strip (fst (fq_validate r)), snd (fq_validate r)) /\
  qsrc (fst (fq_validate r)) = qsrc r.
Proof.
  destruct r as [b c s a0 a1 sq sp ql i ln by_ stt pf ph lg].
  unfold fq_validate, fq_strip, fq_error_pos. fq_proj. dmi; fq_proj; split; reflexivity.
Qed.

(** the four stages of [search] / [search_incomplete], named *)
Definition sst4 (clear : bool) (r : fq) : fq * qsres :=
  match fq_find_line (qbuf r) (pqual r) with
  | None => (r, QsPanic 24)
  | Some None => (qset_inc r (Some Qual), QsIncomplete Qual)
  | Some (Some x) => of_vres (fq_validate (if clear then qset_inc (qset_p1 r (x - 1)) None else qset_p1 r (x - 1)))
  end.
Definition sst3 (clear : bool) (r : fq) : fq * qsres :=
  match fq_find_line (qbuf r) (psep r) with
  | None => (r, QsPanic 23)
  | Some None => (qset_inc r (Some Sep), QsIncomplete Sep)
  | Some (Some x) => sst4 clear (qset_qual r x)
  end.
Definition sst2 (clear : bool) (r : fq) : fq * qsres :=
  match fq_find_line (qbuf r) (pseq r) with
  | None => (r, QsPanic 22)
  | Some None => (qset_inc r (Some Seq), QsIncomplete Seq)
  | Some (Some x) => sst3 clear (qset_sep r x)
  end.
Definition sst1 (clear : bool) (r : fq) : fq * qsres :=
  match fq_find_line (qbuf r) (p0 r) with
  | None => (r, QsPanic 21)
  | Some None => (qset_inc r (Some Head), QsIncomplete Head)
  | Some (Some x) => sst2 clear (qset_seq r x)
  end.

Lemma fq_search_from_stages from clear r :
  fq_search_from from clear r =
  match from with Head => sst1 clear r | Seq => sst2 clear r | Sep => sst3 clear r | Qual => sst4 clear r end.
Proof. destruct from; reflexivity. Qed.

Lemma sst4_strip clear r :
  sst4 clear (fq_strip r) = (fq_strip (fst (sst4 clear r)), snd (sst4 clear r)) /\ qsrc (fst (sst4 clear r)) = qsrc r.
Proof.
  unfold sst4. change (qbuf (fq_strip r)) with (qbuf r). change (pqual (fq_strip r)) with (pqual r).
  destruct (fq_find_line (qbuf r) (pqual r)) as [[x|]|]; try (split; reflexivity).
  destruct clear.
  - change (qset_inc (qset_p1 (fq_strip r) (x - 1)) None) with (fq_strip (qset_inc (qset_p1 r (x - 1)) None)).
    destruct (fq_validate_strip (qset_inc (qset_p1 r (x - 1)) None)) as [Hv Hs]. rewrite Hv.
    destruct (fq_validate (qset_inc (qset_p1 r (x - 1)) None)) as [rv v]. cbn [fst snd] in *.
    destruct v; cbn [of_vres fst snd]; split; try reflexivity; exact Hs.
  - change (qset_p1 (fq_strip r) (x - 1)) with (fq_strip (qset_p1 r (x - 1))).
    destruct (fq_validate_strip (qset_p1 r (x - 1))) as [Hv Hs]. rewrite Hv.
    destruct (fq_validate (qset_p1 r (x - 1))) as [rv v]. cbn [fst snd] in *.
    destruct v; cbn [of_vres fst snd]; split; try reflexivity; exact Hs.
Qed.

Lemma sst3_strip clear r :
  sst3 clear (fq_strip r) = (fq_strip (fst (sst3 clear r)), snd (sst3 clear r)) /\ qsrc (fst (sst3 clear r)) = qsrc r.
Proof.
  unfold sst3. change (qbuf (fq_strip r)) with (qbuf r). change (psep (fq_strip r)) with (psep r).
  destruct (fq_find_line (qbuf r) (psep r)) as [[x|]|]; try (split; reflexivity).
  change (qset_qual (fq_strip r) x) with (fq_strip (qset_qual r x)). apply (sst4_strip clear (qset_qual r x)).
Qed.

Lemma sst2_strip clear r :
  sst2 clear (fq_strip r) = (fq_strip (fst (sst2 clear r)), snd (sst2 clear r)) /\ qsrc (fst (sst2 clear r)) = qsrc r.
Proof.
  unfold sst2. change (qbuf (fq_strip r)) with (qbuf r). change (pseq (fq_strip r)) with (pseq r).
  destruct (fq_find_line (qbuf r) (pseq r)) as [[x|]|]; try (split; reflexivity).
  change (qset_sep (fq_strip r) x) with (fq_strip (qset_sep r x)). apply (sst3_strip clear (qset_sep r x)).
Qed.

Lemma sst1_strip clear r :
  sst1 clear (fq_strip r) = (fq_strip (fst (sst1 clear r)), snd (sst1 clear r)) /\ qsrc (fst (sst1 clear r)) = qsrc r.
Proof.
  unfold sst1. change (qbuf (fq_strip r)) with (qbuf r). change (p0 (fq_strip r)) with (p0 r).
  destruct (fq_find_line (qbuf r) (p0 r)) as [[x|]|]; try (split; reflexivity).
  change (qset_seq (fq_strip r) x) with (fq_strip (qset_seq r x)). apply (sst2_strip clear (qset_seq r x)).
Qed.

Lemma fq_search_from_strip from clear r :
  fq_search_from from clear (fq_strip r) =
    (fq_strip (fst (fq_search_from from clear r)), snd (fq_search_from from clear r)) /\
  qsrc (fst (fq_search_from from clear r)) = qsrc r.
Proof.
  rewrite !fq_search_from_stages. destruct from;
    [apply sst1_strip|apply sst2_strip|apply sst3_strip|apply sst4_strip].
Qed.

Lemma fq_increment_strip r : fq_increment (fq_strip r) = option_map fq_strip (fq_increment r) /\
  (forall r', fq_increment r = Some r' -> qsrc r' = qsrc r).
Proof.
  unfold fq_increment, fq_strip. fq_simpl. destruct (p1 r + 1 <? p0 r); split; try reflexivity; try discriminate.
  intros r' H. inversion H; subst. reflexivity.
Qed.

Lemma fq_grow_strip r : fq_grow (fq_strip r) = (fq_strip (fst (fq_grow r)), snd (fq_grow r)) /\
  qsrc (fst (fq_grow r)) = qsrc r.
Proof.
  unfold fq_grow, fq_strip. fq_simpl.
  destruct (qpolf r (qpolh r) (qcap r)) as [n|]; [destruct (n <=? qcap r)|]; split; reflexivity.
Qed.

Lemma fq_make_room_strip s r :
  fq_make_room s (fq_strip r) = (fq_strip (fst (fq_make_room s r)), snd (fq_make_room s r)) /\
  qsrc (fst (fq_make_room s r)) = qsrc r.
Proof.
  unfold fq_make_room, fq_strip. destruct s; cbv beta iota zeta delta [stage_leb stage_num Nat.leb]; fq_proj;
    repeat (match goal with |- context [if ?c then _ else _] => destruct c end; cbv beta iota zeta; fq_proj);
    split; reflexivity.
Qed.

Lemma fq_check_end_strip s r :
  fq_check_end s (fq_strip r) = (fq_strip (fst (fq_check_end s r)), snd (fq_check_end s r)) /\
  qsrc (fst (fq_check_end s r)) = qsrc r.
Proof.
  assert (Hother :
    (if length (qbuf (fq_strip r)) <? p0 (fq_strip r) then (fq_strip r, QrPanic 41)
     else if forallb (fun l => match trim_cr l with [] => true | _ => false end)
                     (pieces (skipn (p0 (fq_strip r)) (qbuf (fq_strip r))))
          then (fq_strip r, QrOk false)
          else match fq_error_pos (fq_strip r) (stage_num s) (negb (stage_leb s Head)) with
               | Some (l, id) => (fq_strip r, QrErr (FqUnexpectedEnd l id))
               | None => (fq_strip r, QrPanic 42)
               end) =
    (fq_strip (fst (if length (qbuf r) <? p0 r then (r, QrPanic 41)
     else if forallb (fun l => match trim_cr l with [] => true | _ => false end) (pieces (skipn (p0 r) (qbuf r)))
          then (r, QrOk false)
          else match fq_error_pos r (stage_num s) (negb (stage_leb s Head)) with
               | Some (l, id) => (r, QrErr (FqUnexpectedEnd l id))
               | None => (r, QrPanic 42)
               end)),
     snd (if length (qbuf r) <? p0 r then (r, QrPanic 41)
     else if forallb (fun l => match trim_cr l with [] => true | _ => false end) (pieces (skipn (p0 r) (qbuf r)))
          then (r, QrOk false)
          else match fq_error_pos r (stage_num s) (negb (stage_leb s Head)) with
               | Some (l, id) => (r, QrErr (FqUnexpectedEnd l id))
               | None => (r, QrPanic 42)
               end)) /\
    qsrc (fst (if length (qbuf r) <? p0 r then (r, QrPanic 41)
     else if forallb (fun l => match trim_cr l with [] => true | _ => false end) (pieces (skipn (p0 r) (qbuf r)))
          then (r, QrOk false)
          else match fq_error_pos r (stage_num s) (negb (stage_leb s Head)) with
               | Some (l, id) => (r, QrErr (FqUnexpectedEnd l id))
               | None => (r, QrPanic 42)
               end)) = qsrc r).
  { change (qbuf (fq_strip r)) with (qbuf r). change (p0 (fq_strip r)) with (p0 r).
    change (fq_error_pos (fq_strip r) (stage_num s) (negb (stage_leb s Head)))
      with (fq_error_pos r (stage_num s) (negb (stage_leb s Head))).
    destruct (length (qbuf r) <? p0 r); [split; reflexivity|].
    destruct (forallb _ _); [split; reflexivity|].
    destruct (fq_error_pos r (stage_num s) (negb (stage_leb s Head))) as [[l id]|]; split; reflexivity. }
  unfold fq_check_end. destruct s; try exact Hother.
  change (qset_p1 (fq_strip r) (length (qbuf (fq_strip r)))) with (fq_strip (qset_p1 r (length (qbuf r)))).
  destruct (fq_validate_strip (qset_p1 r (length (qbuf r)))) as [Hv Hs]. rewrite Hv.
  destruct (fq_validate (qset_p1 r (length (qbuf r)))) as [rv v]. cbn [fst snd] in *.
  destruct v; split; try reflexivity; exact Hs.
Qed.

Lemma fq_resume_strip ffuel mk : forall fuel s r, QFuelOk ffuel r ->
  fq_resume fuel ffuel s mk (fq_strip r) =
    (fq_strip (fst (fq_resume fuel ffuel s mk r)), snd (fq_resume fuel ffuel s mk r)) /\
  QFuelOk ffuel (fst (fq_resume fuel ffuel s mk r)).
Proof.
  induction fuel as [|f IH]; intros s r Hf; cbn [fq_resume]; [split; [reflexivity|exact Hf]|].
  change (qbuf (fq_strip r)) with (qbuf r). change (qcap (fq_strip r)) with (qcap r).
  change (p0 (fq_strip r)) with (p0 r).
  destruct (length (qbuf r) <? qcap r).
  { change (qset_st (fq_strip r) QFinished) with (fq_strip (qset_st r QFinished)).
    destruct (fq_check_end_strip s (qset_st r QFinished)) as [H1 Hs1]. split; [exact H1|].
    apply (QFuelOk_src _ r); [exact Hs1|exact Hf]. }
  assert (H1 : (if negb mk || (p0 r =? 0) then fq_grow (fq_strip r) else fq_make_room s (fq_strip r)) =
               (fq_strip (fst (if negb mk || (p0 r =? 0) then fq_grow r else fq_make_room s r)),
                snd (if negb mk || (p0 r =? 0) then fq_grow r else fq_make_room s r)) /\
               qsrc (fst (if negb mk || (p0 r =? 0) then fq_grow r else fq_make_room s r)) = qsrc r).
  { destruct (negb mk || (p0 r =? 0)); [apply fq_grow_strip|apply fq_make_room_strip]. }
  destruct H1 as [H1 Hs1]. rewrite H1.
  destruct (if negb mk || (p0 r =? 0) then fq_grow r else fq_make_room s r) as [r1 g]. cbn [fst snd] in *.
  pose proof (QFuelOk_src _ _ _ Hs1 Hf) as Hf1.
  destruct g; try (split; [reflexivity|exact Hf1]).
  destruct (fq_fill_strip ffuel r1 Hf1) as [H2 Hf2]. rewrite H2.
  destruct (fq_fill ffuel r1) as [r2 fr]. cbn [fst snd] in *.
  destruct fr; try (split; [reflexivity|exact Hf2]).
  destruct (fq_search_from_strip s true r2) as [H3 Hs3]. rewrite H3.
  destruct (fq_search_from s true r2) as [r3 sr]. cbn [fst snd] in *.
  pose proof (QFuelOk_src _ _ _ Hs3 Hf2) as Hf3.
  destruct sr as [|s'|e|x]; try (split; [reflexivity|exact Hf3]).
  apply IH. exact Hf3.
Qed.

Lemma fq_init_strip ffuel r : QFuelOk ffuel r ->
  fq_init ffuel (fq_strip r) = (fq_strip (fst (fq_init ffuel r)), snd (fq_init ffuel r)) /\
  QFuelOk ffuel (fst (fq_init ffuel r)).
Proof.
  intros Hf. unfold fq_init. destruct (fq_fill_strip ffuel r Hf) as [H1 Hf1]. rewrite H1.
  destruct (fq_fill ffuel r) as [r1 fr]. cbn [fst snd] in *.
  destruct fr as [[|n]|k|]; split; try reflexivity; exact Hf1.
Qed.

Lemma fq_next_tail_strip fuel ffuel r : QFuelOk ffuel r ->
  fq_next_tail fuel ffuel (fq_strip r) =
    (fq_strip (fst (fq_next_tail fuel ffuel r)), snd (fq_next_tail fuel ffuel r)) /\
  QFuelOk ffuel (fst (fq_next_tail fuel ffuel r)).
Proof.
  intros Hf. unfold fq_next_tail. change (inc (fq_strip r)) with (inc r).
  assert (H1 : match inc r with None => fq_search_from Head false (fq_strip r) | Some _ => (fq_strip r, QsRec) end =
               (fq_strip (fst (match inc r with None => fq_search_from Head false r | Some _ => (r, QsRec) end)),
                snd (match inc r with None => fq_search_from Head false r | Some _ => (r, QsRec) end)) /\
               qsrc (fst (match inc r with None => fq_search_from Head false r | Some _ => (r, QsRec) end)) = qsrc r).
  { destruct (inc r); [split; reflexivity|apply fq_search_from_strip]. }
  destruct H1 as [H1 Hs1]. rewrite H1.
  destruct (match inc r with None => fq_search_from Head false r | Some _ => (r, QsRec) end) as [r1 sr].
  cbn [fst snd] in *. pose proof (QFuelOk_src _ _ _ Hs1 Hf) as Hf1.
  assert (Hrest :
    match inc (fq_strip r1) with
    | Some s =>
        let '(r2, rr) := fq_resume fuel ffuel s true (fq_strip r1) in
        match rr with
        | QrErr e => (r2, QOErr e)
        | QrPanic x => (r2, QOPanic x)
        | QrFuel => (r2, QOFuel)
        | QrOk false => (r2, QONone)
        | QrOk true => (r2, QORec (fq_cur r2))
        end
    | None => (fq_strip r1, QORec (fq_cur (fq_strip r1)))
    end =
    (fq_strip (fst match inc r1 with
    | Some s =>
        let '(r2, rr) := fq_resume fuel ffuel s true r1 in
        match rr with
        | QrErr e => (r2, QOErr e)
        | QrPanic x => (r2, QOPanic x)
        | QrFuel => (r2, QOFuel)
        | QrOk false => (r2, QONone)
        | QrOk true => (r2, QORec (fq_cur r2))
        end
    | None => (r1, QORec (fq_cur r1))
    end), snd match inc r1 with
    | Some s =>
        let '(r2, rr) := fq_resume fuel ffuel s true r1 in
        match rr with
        | QrErr e => (r2, QOErr e)
        | QrPanic x => (r2, QOPanic x)
        | QrFuel => (r2, QOFuel)
        | QrOk false => (r2, QONone)
        | QrOk true => (r2, QORec (fq_cur r2))
        end
    | None => (r1, QORec (fq_cur r1))
    end) /\
    QFuelOk ffuel (fst match inc r1 with
    | Some s =>
        let '(r2, rr) := fq_resume fuel ffuel s true r1 in
        match rr with
        | QrErr e => (r2, QOErr e)
        | QrPanic x => (r2, QOPanic x)
        | QrFuel => (r2, QOFuel)
        | QrOk false => (r2, QONone)
        | QrOk true => (r2, QORec (fq_cur r2))
        end
    | None => (r1, QORec (fq_cur r1))
    end)).
  { change (inc (fq_strip r1)) with (inc r1). destruct (inc r1) as [s|]; [|split; [reflexivity|exact Hf1]].
    destruct (fq_resume_strip ffuel true fuel s r1 Hf1) as [H2 Hf2]. rewrite H2.
    destruct (fq_resume fuel ffuel s true r1) as [r2 rr]. cbn [fst snd] in *.
    destruct rr as [[|]|e|x|]; split; try reflexivity; exact Hf2. }
  destruct sr as [|s|e|x]; try exact Hrest; split; try reflexivity; exact Hf1.
Qed.

Theorem fq_next_strip fuel ffuel r : QFuelOk ffuel r ->
  fq_next fuel ffuel (fq_strip r) = (fq_strip (fst (fq_next fuel ffuel r)), snd (fq_next fuel ffuel r)) /\
  QFuelOk ffuel (fst (fq_next fuel ffuel r)).
Proof.
  intros Hf. unfold fq_next. change (qst (fq_strip r)) with (qst r). change (inc (fq_strip r)) with (inc r).
  destruct (qst r).
  - destruct (fq_init_strip ffuel r Hf) as [H1 Hf1]. rewrite H1.
    destruct (fq_init ffuel r) as [r1 ir]. cbn [fst snd] in *.
    destruct ir as [[|]|e|]; try (split; [reflexivity|exact Hf1]).
    apply (fq_next_tail_strip fuel ffuel (qset_st r1 QParsing)). exact Hf1.
  - destruct (inc r); [apply fq_next_tail_strip; exact Hf|].
    destruct (fq_increment_strip r) as [H1 Hs1]. rewrite H1.
    destruct (fq_increment r) as [r1|]; cbn [option_map]; [|split; [reflexivity|exact Hf]].
    apply fq_next_tail_strip. apply (QFuelOk_src _ r _ (Hs1 _ eq_refl) Hf).
  - apply (fq_next_tail_strip fuel ffuel (qset_st r QParsing)). exact Hf.
  - split; [reflexivity|exact Hf].
Qed.

Lemma fq_set_loop_strip rfuel ffuel : forall fuel n is_new r ps, QFuelOk ffuel r ->
  let x := fq_set_loop fuel rfuel ffuel n is_new r ps in
  fq_set_loop fuel rfuel ffuel n is_new (fq_strip r) ps = (fq_strip (fst (fst x)), snd (fst x), snd x) /\
  QFuelOk ffuel (fst (fst x)).
Proof.
  induction fuel as [|f IH]; intros n is_new r ps Hf; cbv zeta; cbn [fq_set_loop]; [split; [reflexivity|exact Hf]|].
  change (qst (fq_strip r)) with (qst r). change (inc (fq_strip r)) with (inc r).
  destruct (fq_state_eqb (qst r) QFinished); [split; [reflexivity|exact Hf]|].
  assert (Hfound : forall r2, QFuelOk ffuel r2 ->
    let y := (let ps2 := ps ++ [fq_bp r2] in
              match fq_increment r2 with
              | None => (r2, ps2, QLPanic 3)
              | Some r4 => if reached n (length ps2) then (r4, ps2, QLDone)
                           else fq_set_loop f rfuel ffuel n is_new r4 ps2
              end) in
    (let ps2 := ps ++ [fq_bp (fq_strip r2)] in
     match fq_increment (fq_strip r2) with
     | None => (fq_strip r2, ps2, QLPanic 3)
     | Some r4 => if reached n (length ps2) then (r4, ps2, QLDone)
                  else fq_set_loop f rfuel ffuel n is_new r4 ps2
     end) = (fq_strip (fst (fst y)), snd (fst y), snd y) /\ QFuelOk ffuel (fst (fst y))).
  { intros r2 Hf2. cbv zeta. change (fq_bp (fq_strip r2)) with (fq_bp r2).
    destruct (fq_increment_strip r2) as [H1 Hs1]. rewrite H1.
    destruct (fq_increment r2) as [r4|]; cbn [option_map]; [|split; [reflexivity|exact Hf2]].
    pose proof (QFuelOk_src _ r2 _ (Hs1 _ eq_refl) Hf2) as Hf4.
    destruct (reached n (length (ps ++ [fq_bp r2]))); [split; [reflexivity|exact Hf4]|].
    apply (IH n is_new r4 (ps ++ [fq_bp r2]) Hf4). }
  destruct (inc r) as [s|].
  - change (qset_inc (fq_strip r) None) with (fq_strip (qset_inc r None)).
    destruct (fq_resume_strip ffuel is_new rfuel s (qset_inc r None) Hf) as [H1 Hf1]. rewrite H1.
    destruct (fq_resume rfuel ffuel s is_new (qset_inc r None)) as [r1 rr]. cbn [fst snd] in *.
    destruct rr as [[|]|e|x|]; try (split; [reflexivity|exact Hf1]).
    + apply (Hfound r1 Hf1).
    + destruct ps; split; try reflexivity; exact Hf1.
  - destruct (fq_search_from_strip Head false r) as [H1 Hs1]. rewrite H1.
    destruct (fq_search_from Head false r) as [r1 sr]. cbn [fst snd] in *.
    pose proof (QFuelOk_src _ _ _ Hs1 Hf) as Hf1.
    destruct sr as [|s|e|x]; try (split; [reflexivity|exact Hf1]).
    + apply (Hfound r1 Hf1).
    + destruct ps as [|p ps0]; [apply (IH n is_new r1 [] Hf1)|].
      destruct (below n (length (p :: ps0))); [apply (IH n false r1 (p :: ps0) Hf1)|].
      split; [reflexivity|exact Hf1].
Qed.

Theorem fq_read_set_strip fuel ffuel n r rs : QFuelOk ffuel r ->
  let x := fq_read_set fuel ffuel n r rs in
  fq_read_set fuel ffuel n (fq_strip r) rs = (fq_strip (fst (fst x)), snd (fst x), snd x) /\
  QFuelOk ffuel (fst (fst x)).
Proof.
  intros Hf. cbv zeta. unfold fq_read_set. change (qst (fq_strip r)) with (qst r). change (inc (fq_strip r)) with (inc r).
  assert (Hgo : forall r0, QFuelOk ffuel r0 ->
    let y := (let '(r1, ps, lr) := fq_set_loop fuel fuel ffuel n true r0 [] in
      match lr with
      | QLDone => (r1, mkFqSet (qbuf r1) ps, QOSetOk)
      | QLErr e => (r1, mkFqSet (qsbuf rs) [], QOErr e)
      | QLPanic x => (r1, mkFqSet (qsbuf rs) ps, QOPanic x)
      | QLFuel => (r1, mkFqSet (qsbuf rs) ps, QOFuel)
      | QLNone => (r1, mkFqSet (qsbuf rs) ps, QONone)
      end) in
    (let '(r1, ps, lr) := fq_set_loop fuel fuel ffuel n true (fq_strip r0) [] in
      match lr with
      | QLDone => (r1, mkFqSet (qbuf r1) ps, QOSetOk)
      | QLErr e => (r1, mkFqSet (qsbuf rs) [], QOErr e)
      | QLPanic x => (r1, mkFqSet (qsbuf rs) ps, QOPanic x)
      | QLFuel => (r1, mkFqSet (qsbuf rs) ps, QOFuel)
      | QLNone => (r1, mkFqSet (qsbuf rs) ps, QONone)
      end) = (fq_strip (fst (fst y)), snd (fst y), snd y) /\ QFuelOk ffuel (fst (fst y))).
  { intros r0 Hf0. cbv zeta.
    destruct (fq_set_loop_strip fuel ffuel fuel n true r0 [] Hf0) as [H1 Hf1]. cbv zeta in H1, Hf1. rewrite H1.
    destruct (fq_set_loop fuel fuel ffuel n true r0 []) as [[r1 ps1] lr]. cbn [fst snd] in *.
    destruct lr; split; try reflexivity; exact Hf1. }
  destruct (qst r).
  - destruct (fq_init_strip ffuel r Hf) as [H1 Hf1]. rewrite H1.
    destruct (fq_init ffuel r) as [r1 ir]. cbn [fst snd] in *.
    destruct ir as [[|]|e|]; try (split; [reflexivity|exact Hf1]).
    apply (Hgo (qset_st r1 QPositioned)). exact Hf1.
  - destruct (inc r); [apply (Hgo (qset_st r QPositioned)); exact Hf|].
    destruct (fq_increment_strip r) as [H1 Hs1]. rewrite H1.
    destruct (fq_increment r) as [r1|]; cbn [option_map]; [|split; [reflexivity|exact Hf]].
    apply (Hgo (qset_st r1 QPositioned)). apply (QFuelOk_src _ r _ (Hs1 _ eq_refl) Hf).
  - apply (Hgo r Hf).
  - split; [reflexivity|exact Hf].
Qed.

Theorem fq_seek_strip ffuel r line byte_ : QFuelOk ffuel r ->
  fq_seek ffuel (fq_strip r) line byte_ =
    (fq_strip (fst (fq_seek ffuel r line byte_)), snd (fq_seek ffuel r line byte_)) /\
  QFuelOk ffuel (fst (fq_seek ffuel r line byte_)).
Proof.
  intros Hf. unfold fq_seek.
  change (qbyte (fq_strip r)) with (qbyte r). change (p0 (fq_strip r)) with (p0 r).
  change (qbuf (fq_strip r)) with (qbuf r). change (qst (fq_strip r)) with (qst r).
  destruct ((0 <=? Z.of_nat (p0 r) + (Z.of_nat byte_ - Z.of_nat (qbyte r)))%Z &&
            (Z.of_nat (p0 r) + (Z.of_nat byte_ - Z.of_nat (qbyte r)) <? Z.of_nat (length (qbuf r)))%Z && negb (fq_state_eqb (qst r) QNew)).
  { split; [reflexivity|exact Hf]. }
  change (qsrc (fq_strip r)) with (strip_src (qsrc r)).
  destruct (src_seek_strip (qsrc r) byte_) as [H1 Hrs]. rewrite H1.
  destruct (src_seek (qsrc r) byte_) as [s' res]. cbn [fst snd] in *.
  destruct res as [k|].
  { split; [reflexivity|]. unfold QFuelOk in *. cbn [fst snd]. fq_simpl. rewrite Hrs. exact Hf. }
  match goal with |- context [fq_fill ffuel ?R] =>
    match R with context [fq_strip] => fail 1 | _ => set (r0 := R) end end.
  assert (Hf0 : QFuelOk ffuel r0) by (unfold QFuelOk, r0 in *; fq_simpl; rewrite Hrs; exact Hf).
  destruct (fq_fill_strip ffuel r0 Hf0) as [H2 Hf2].
  change (qset_p1 (qset_p0 (qset_st (qset_inc (qset_byte (qset_line (qset_buf
            (qset_log (qset_src (fq_strip r) (strip_src s')) (EvSeek byte_ None :: qlog (fq_strip r))) []) line) byte_)
            None) QPositioned) 0) 0) with (fq_strip r0).
  rewrite H2. destruct (fq_fill ffuel r0) as [r1 fr]. cbn [fst snd] in *.
  destruct fr; split; try reflexivity; exact Hf2.
Qed.
