(** C14 (FASTQ), "all records returned before the failure are exactly the
    leading records of the input".

    A run of the FASTQ reader over a source whose read / seek scripts contain a
    failure is, call by call, IDENTICAL (same outcome, same record set, same
    reader state up to the source) to the run over the source whose scripts are
    cut just before that failure -- up to the call that returns the I/O error.
    Together with the fault-free refinement theorem [fq_hist_refines_cursor]
    (Proofs/FastqHistP.v) this gives: the observations before the first I/O
    error match a run of the abstract cursor machine over the specification
    stream.

    Structure (as in Proofs/FqInterruptP.v): the functions that do not touch the
    source commute with replacing the source ([SrcIndep]); [fill_buf] over the
    cut and the uncut source take the same steps until a read fails; this is
    lifted through [fq_fill], [fq_resume], [fq_init], [fq_next], [fq_set_loop],
    [fq_read_set], [fq_seek], then through histories. *)
From SeqIO Require Import Model.Base Model.Fastq Model.Views Spec.FastaSpec Spec.FastqSpec Spec.CursorQ
  Proofs.TraceP Proofs.FaultP Proofs.GrowP Proofs.InterruptP Proofs.FqInterruptP
  Proofs.Window Proofs.FastaInv Proofs.FastqInv Proofs.FastqNextP Proofs.FastqSetP Proofs.FastqSeekP
  Proofs.CursorP Proofs.CursorBridgeP Proofs.FastqHistP.

(* ------------------------------------------------------------------ *)
(** * The relation between the two runs *)

Definition rtail_ok (rt : list ritem) : Prop := match rt with [] => True | RFailI _ :: _ => True | _ => False end.
Definition stail_ok (st_ : list sitem) : Prop := match st_ with [] => True | SFailI _ :: _ => True | _ => False end.

(** [s0] is [s] with both scripts cut just before their first failure *)
Definition src_cut (s0 s : source) : Prop :=
  s_data s = s_data s0 /\ s_pos s = s_pos s0 /\
  (exists rt, s_rs s = s_rs s0 ++ rt /\ rtail_ok rt) /\
  (exists st_, s_ss s = s_ss s0 ++ st_ /\ stail_ok st_).

(** the same reader state (buffer, offsets, position, state flag, policy, log) over the cut source *)
Definition fq_cut (r0 r : fq) : Prop := r = qset_src r0 (qsrc r) /\ src_cut (qsrc r0) (qsrc r).

Definition is_qio (o : fq_out) : Prop := exists k, o = QOErr (FqIo k).

(** the reader [r] over another source *)
Definition qsw (s : source) (r : fq) : fq := qset_src r s.

Lemma fq_cut_inv r0 r : fq_cut r0 r -> exists s, r = qsw s r0 /\ src_cut (qsrc r0) s.
Proof. intros [H1 H2]. exists (qsrc r). split; assumption. Qed.

Lemma fq_cut_intro s r0 : src_cut (qsrc r0) s -> fq_cut r0 (qsw s r0).
Proof. intros H. split; [reflexivity | exact H]. Qed.

Lemma fq_cut_sw s r0 r0' : src_cut (qsrc r0) s -> qsrc r0' = qsrc r0 -> fq_cut r0' (qsw s r0').
Proof. intros H E. apply fq_cut_intro. rewrite E. exact H. Qed.

(** two results: equal outcome and related states, or the uncut run failed with an I/O error *)
Definition Rel {X} (isio : X -> Prop) (x0 x : fq * X) : Prop :=
  (snd x = snd x0 /\ fq_cut (fst x0) (fst x)) \/ isio (snd x).

Lemma Rel_same {X} (isio : X -> Prop) a0 a (x : X) : fq_cut a0 a -> Rel isio (a0, x) (a, x).
Proof. intros H. left. split; [reflexivity | exact H]. Qed.

(* ------------------------------------------------------------------ *)
(** * The source *)

Lemma src_cut_remaining s0 s : src_cut s0 s -> src_remaining s = src_remaining s0.
Proof. intros (Hd & Hp & _). unfold src_remaining. rewrite Hd, Hp. reflexivity. Qed.

(** one read: the same bytes and result and related sources, or the uncut source failed *)
Lemma src_read_cut s0 s offered : src_cut s0 s ->
  (snd (fst (src_read s offered)) = snd (fst (src_read s0 offered)) /\
   snd (src_read s offered) = snd (src_read s0 offered) /\
   src_cut (fst (fst (src_read s0 offered))) (fst (fst (src_read s offered)))) \/
  exists k, snd (src_read s offered) = RFailed k.
Proof.
  intros Hcut. pose proof (src_cut_remaining _ _ Hcut) as Hrem.
  destruct Hcut as (Hd & Hp & (rt & Hrs & Hrt) & Hss).
  unfold src_read. rewrite Hrs, Hrem, Hd, Hp.
  destruct (s_rs s0) as [|[m| |k] rs0]; cbn [app].
  - destruct rt as [|[m| |k] rt']; cbn [rtail_ok] in Hrt; try contradiction.
    + left. cbn [fst snd]. split; [reflexivity|]. split; [reflexivity|].
      unfold src_cut. cbn [s_data s_pos s_rs s_ss]. split; [reflexivity|]. split; [reflexivity|].
      split; [exists []; split; [reflexivity | exact I] | exact Hss].
    + right. exists k. reflexivity.
  - left. cbn [fst snd]. split; [reflexivity|]. split; [reflexivity|].
    unfold src_cut. cbn [s_data s_pos s_rs s_ss]. split; [reflexivity|]. split; [reflexivity|].
    split; [exists rt; split; [reflexivity | exact Hrt] | exact Hss].
  - left. cbn [fst snd]. split; [reflexivity|]. split; [reflexivity|].
    unfold src_cut. cbn [s_data s_pos s_rs s_ss]. split; [reflexivity|]. split; [reflexivity|].
    split; [exists rt; split; [reflexivity | exact Hrt] | exact Hss].
  - right. exists k. reflexivity.
Qed.

(** one seek *)
Lemma src_seek_cut s0 s p : src_cut s0 s ->
  (snd (src_seek s p) = snd (src_seek s0 p) /\ src_cut (fst (src_seek s0 p)) (fst (src_seek s p))) \/
  exists k, snd (src_seek s p) = Some k.
Proof.
  intros (Hd & Hp & Hrs & (st_ & Hss & Hst)).
  unfold src_seek. rewrite Hss, Hd.
  destruct (s_ss s0) as [|[|k] ss0]; cbn [app].
  - destruct st_ as [|[|k] st']; cbn [stail_ok] in Hst; try contradiction.
    + left. cbn [fst snd]. split; [reflexivity|].
      unfold src_cut. cbn [s_data s_pos s_rs s_ss]. split; [reflexivity|]. split; [reflexivity|].
      split; [exact Hrs | exists []; split; [reflexivity | exact I]].
    + right. exists k. reflexivity.
  - left. cbn [fst snd]. split; [reflexivity|].
    unfold src_cut. cbn [s_data s_pos s_rs s_ss]. split; [reflexivity|]. split; [reflexivity|].
    split; [exact Hrs | exists st_; split; [reflexivity | exact Hst]].
  - right. exists k. reflexivity.
Qed.

(** the refill loop *)
Definition FRel (x0 x : list byte * source * list ev * fill_res) : Prop :=
  (fst (fst (fst x)) = fst (fst (fst x0)) /\ snd (fst x) = snd (fst x0) /\ snd x = snd x0 /\
   src_cut (snd (fst (fst x0))) (snd (fst (fst x)))) \/
  exists k, snd x = FillErr k.

Lemma fill_buf_cut : forall fuel buf cap s0 s lg nr, src_cut s0 s ->
  FRel (fill_buf fuel buf cap s0 lg nr) (fill_buf fuel buf cap s lg nr).
Proof.
  induction fuel as [|f IH]; intros buf cap s0 s lg nr Hcut; cbn [fill_buf].
  { left. cbn [fst snd]. auto. }
  destruct (length buf <? cap); [|left; cbn [fst snd]; auto].
  destruct (src_read_cut s0 s (cap - length buf) Hcut) as [(Hdat & Hres & Hcut')|(k & Hk)].
  - destruct (src_read s0 (cap - length buf)) as [[s0' d0] res0].
    destruct (src_read s (cap - length buf)) as [[s' d] res]. cbn [fst snd] in *. subst d res.
    destruct res0 as [[|n]| |k].
    + left. cbn [fst snd]. auto.
    + apply IH. exact Hcut'.
    + apply IH. exact Hcut'.
    + right. exists k. reflexivity.
  - destruct (src_read s (cap - length buf)) as [[s' d] res]. cbn [fst snd] in *. subst res.
    right. exists k. destruct (src_read s0 (cap - length buf)) as [[s0' d0] res0]. reflexivity.
Qed.

Definition is_fillio (x : fill_res) : Prop := exists k, x = FillErr k.

Lemma fq_fill_cut ffuel r0 r : fq_cut r0 r -> Rel is_fillio (fq_fill ffuel r0) (fq_fill ffuel r).
Proof.
  intros Hcut. destruct (fq_cut_inv _ _ Hcut) as (s & -> & Hs).
  unfold fq_fill, qsw. fq_simpl.
  destruct (fill_buf_cut ffuel (qbuf r0) (qcap r0) (qsrc r0) s (qlog r0) 0 Hs) as [(H1 & H2 & H3 & H4)|(k & Hk)].
  - destruct (fill_buf ffuel (qbuf r0) (qcap r0) (qsrc r0) (qlog r0) 0) as [[[b0 s0'] lg0] res0].
    destruct (fill_buf ffuel (qbuf r0) (qcap r0) s (qlog r0) 0) as [[[b s'] lg] res].
    cbn [fst snd] in *. subst b lg res. left. cbn [fst snd]. split; [reflexivity|].
    split; [reflexivity|]. fq_simpl. exact H4.
  - destruct (fill_buf ffuel (qbuf r0) (qcap r0) s (qlog r0) 0) as [[[b s'] lg] res].
    cbn [fst snd] in *. subst res. right. exists k. reflexivity.
Qed.

(* ------------------------------------------------------------------ *)
(** * The functions that do not touch the source *)

Definition SrcIndep {X} (f : fq -> fq * X) : Prop :=
  forall s r, f (qsw s r) = (qsw s (fst (f r)), snd (f r)) /\ qsrc (fst (f r)) = qsrc r.

Lemma indep_cut {X} (f : fq -> fq * X) : SrcIndep f -> forall r0 r, fq_cut r0 r ->
  snd (f r) = snd (f r0) /\ fq_cut (fst (f r0)) (fst (f r)).
Proof.
  intros Hf r0 r Hcut. destruct (fq_cut_inv _ _ Hcut) as (s & -> & Hs).
  destruct (Hf s r0) as [H1 H2]. rewrite H1. cbn [fst snd]. split; [reflexivity|].
  apply (fq_cut_sw s r0); assumption.
Qed.

Lemma indep_Rel {X} (isio : X -> Prop) (f : fq -> fq * X) : SrcIndep f -> forall r0 r, fq_cut r0 r ->
  Rel isio (f r0) (f r).
Proof. intros Hf r0 r Hcut. left. apply indep_cut; assumption. Qed.

Lemma fq_validate_sw : SrcIndep fq_validate.
Proof.
  intros s r. destruct r as [b c s0 a0 a1 sq sp ql i ln by_ stt pf ph lg].
  unfold fq_validate, qsw, fq_error_pos. fq_proj. dmi; fq_proj; split; reflexivity.
Qed.

Lemma sst4_sw clear : SrcIndep (sst4 clear).
Proof.
  intros s r.
  unfold sst4. change (qbuf (qsw s r)) with (qbuf r). change (pqual (qsw s r)) with (pqual r).
  destruct (fq_find_line (qbuf r) (pqual r)) as [[x|]|]; try (split; reflexivity).
  destruct clear.
  - change (qset_inc (qset_p1 (qsw s r) (x - 1)) None) with (qsw s (qset_inc (qset_p1 r (x - 1)) None)).
    destruct (fq_validate_sw s (qset_inc (qset_p1 r (x - 1)) None)) as [Hv Hs]. rewrite Hv.
    destruct (fq_validate (qset_inc (qset_p1 r (x - 1)) None)) as [rv v]. cbn [fst snd] in *.
    destruct v; cbn [of_vres fst snd]; split; try reflexivity; exact Hs.
  - change (qset_p1 (qsw s r) (x - 1)) with (qsw s (qset_p1 r (x - 1))).
    destruct (fq_validate_sw s (qset_p1 r (x - 1))) as [Hv Hs]. rewrite Hv.
    destruct (fq_validate (qset_p1 r (x - 1))) as [rv v]. cbn [fst snd] in *.
    destruct v; cbn [of_vres fst snd]; split; try reflexivity; exact Hs.
Qed.

Lemma sst3_sw clear : SrcIndep (sst3 clear).
Proof.
  intros s r.
  unfold sst3. change (qbuf (qsw s r)) with (qbuf r). change (psep (qsw s r)) with (psep r).
  destruct (fq_find_line (qbuf r) (psep r)) as [[x|]|]; try (split; reflexivity).
  change (qset_qual (qsw s r) x) with (qsw s (qset_qual r x)). apply (sst4_sw clear s (qset_qual r x)).
Qed.

Lemma sst2_sw clear : SrcIndep (sst2 clear).
Proof.
  intros s r.
  unfold sst2. change (qbuf (qsw s r)) with (qbuf r). change (pseq (qsw s r)) with (pseq r).
  destruct (fq_find_line (qbuf r) (pseq r)) as [[x|]|]; try (split; reflexivity).
  change (qset_sep (qsw s r) x) with (qsw s (qset_sep r x)). apply (sst3_sw clear s (qset_sep r x)).
Qed.

Lemma sst1_sw clear : SrcIndep (sst1 clear).
Proof.
  intros s r.
  unfold sst1. change (qbuf (qsw s r)) with (qbuf r). change (p0 (qsw s r)) with (p0 r).
  destruct (fq_find_line (qbuf r) (p0 r)) as [[x|]|]; try (split; reflexivity).
  change (qset_seq (qsw s r) x) with (qsw s (qset_seq r x)). apply (sst2_sw clear s (qset_seq r x)).
Qed.

Lemma fq_search_from_sw from clear : SrcIndep (fq_search_from from clear).
Proof.
  intros s r. rewrite !fq_search_from_stages. destruct from;
    [apply sst1_sw|apply sst2_sw|apply sst3_sw|apply sst4_sw].
Qed.

Lemma fq_grow_sw : SrcIndep fq_grow.
Proof.
  intros s r. unfold fq_grow, qsw. fq_simpl.
  destruct (qpolf r (qpolh r) (qcap r)) as [n|]; [destruct (n <=? qcap r)|]; split; reflexivity.
Qed.

Lemma fq_make_room_sw st : SrcIndep (fq_make_room st).
Proof.
  intros s r.
  unfold fq_make_room, qsw. destruct st; cbv beta iota zeta delta [stage_leb stage_num Nat.leb]; fq_proj;
    repeat (match goal with |- context [if ?c then _ else _] => destruct c end; cbv beta iota zeta; fq_proj);
    split; reflexivity.
Qed.

Lemma fq_check_end_sw st : SrcIndep (fq_check_end st).
Proof.
  intros s r.
  assert (Hother :
    (if length (qbuf (qsw s r)) <? p0 (qsw s r) then (qsw s r, QrPanic 41)
     else if forallb (fun l => match trim_cr l with [] => true | _ => false end)
                     (pieces (skipn (p0 (qsw s r)) (qbuf (qsw s r))))
          then (qsw s r, QrOk false)
          else match fq_error_pos (qsw s r) (stage_num st) (negb (stage_leb st Head)) with
               | Some (l, id) => (qsw s r, QrErr (FqUnexpectedEnd l id))
               | None => (qsw s r, QrPanic 42)
               end) =
    (qsw s (fst (if length (qbuf r) <? p0 r then (r, QrPanic 41)
     else if forallb (fun l => match trim_cr l with [] => true | _ => false end) (pieces (skipn (p0 r) (qbuf r)))
          then (r, QrOk false)
          else match fq_error_pos r (stage_num st) (negb (stage_leb st Head)) with
               | Some (l, id) => (r, QrErr (FqUnexpectedEnd l id))
               | None => (r, QrPanic 42)
               end)),
     snd (if length (qbuf r) <? p0 r then (r, QrPanic 41)
     else if forallb (fun l => match trim_cr l with [] => true | _ => false end) (pieces (skipn (p0 r) (qbuf r)))
          then (r, QrOk false)
          else match fq_error_pos r (stage_num st) (negb (stage_leb st Head)) with
               | Some (l, id) => (r, QrErr (FqUnexpectedEnd l id))
               | None => (r, QrPanic 42)
               end)) /\
    qsrc (fst (if length (qbuf r) <? p0 r then (r, QrPanic 41)
     else if forallb (fun l => match trim_cr l with [] => true | _ => false end) (pieces (skipn (p0 r) (qbuf r)))
          then (r, QrOk false)
          else match fq_error_pos r (stage_num st) (negb (stage_leb st Head)) with
               | Some (l, id) => (r, QrErr (FqUnexpectedEnd l id))
               | None => (r, QrPanic 42)
               end)) = qsrc r).
  { change (qbuf (qsw s r)) with (qbuf r). change (p0 (qsw s r)) with (p0 r).
    change (fq_error_pos (qsw s r) (stage_num st) (negb (stage_leb st Head)))
      with (fq_error_pos r (stage_num st) (negb (stage_leb st Head))).
    destruct (length (qbuf r) <? p0 r); [split; reflexivity|].
    destruct (forallb _ _); [split; reflexivity|].
    destruct (fq_error_pos r (stage_num st) (negb (stage_leb st Head))) as [[l id]|]; split; reflexivity. }
  unfold fq_check_end. destruct st; try exact Hother.
  change (qset_p1 (qsw s r) (length (qbuf (qsw s r)))) with (qsw s (qset_p1 r (length (qbuf r)))).
  destruct (fq_validate_sw s (qset_p1 r (length (qbuf r)))) as [Hv Hs]. rewrite Hv.
  destruct (fq_validate (qset_p1 r (length (qbuf r)))) as [rv v]. cbn [fst snd] in *.
  destruct v; split; try reflexivity; exact Hs.
Qed.

(** [increment_record] *)
Lemma fq_increment_cut r0 r : fq_cut r0 r ->
  match fq_increment r0, fq_increment r with
  | Some a0, Some a => fq_cut a0 a
  | None, None => True
  | _, _ => False
  end.
Proof.
  intros Hcut. destruct (fq_cut_inv _ _ Hcut) as (s & -> & Hs).
  unfold fq_increment, qsw. fq_simpl. destruct (p1 r0 + 1 <? p0 r0); [exact I|].
  split; [reflexivity|]. fq_simpl. exact Hs.
Qed.

(** setters that do not concern the source keep the relation *)
Lemma fq_cut_set (g : fq -> fq) r0 r :
  (forall s a, g (qsw s a) = qsw s (g a)) -> (forall a, qsrc (g a) = qsrc a) ->
  fq_cut r0 r -> fq_cut (g r0) (g r).
Proof.
  intros Hg Hsrc Hcut. destruct (fq_cut_inv _ _ Hcut) as (s & -> & Hs).
  rewrite Hg. apply fq_cut_intro. rewrite Hsrc. exact Hs.
Qed.

Lemma fq_cut_st r0 r x : fq_cut r0 r -> fq_cut (qset_st r0 x) (qset_st r x).
Proof. apply (fq_cut_set (fun a => qset_st a x)); reflexivity. Qed.

Lemma fq_cut_inc r0 r x : fq_cut r0 r -> fq_cut (qset_inc r0 x) (qset_inc r x).
Proof. apply (fq_cut_set (fun a => qset_inc a x)); reflexivity. Qed.

Lemma fq_cut_fields r0 r : fq_cut r0 r ->
  qbuf r = qbuf r0 /\ qcap r = qcap r0 /\ p0 r = p0 r0 /\ inc r = inc r0 /\ qst r = qst r0 /\
  qline r = qline r0 /\ qbyte r = qbyte r0 /\ fq_cur r = fq_cur r0 /\ fq_bp r = fq_bp r0.
Proof.
  intros Hcut. destruct (fq_cut_inv _ _ Hcut) as (s & -> & Hs). repeat split; reflexivity.
Qed.

(* ------------------------------------------------------------------ *)
(** * The entry points *)

Definition is_qrio (x : qrres) : Prop := exists k, x = QrErr (FqIo k).
Definition is_qiio (x : qires) : Prop := exists k, x = QIErr (FqIo k).

Lemma fq_resume_cut ffuel mk : forall fuel st r0 r, fq_cut r0 r ->
  Rel is_qrio (fq_resume fuel ffuel st mk r0) (fq_resume fuel ffuel st mk r).
Proof.
  induction fuel as [|f IH]; intros st r0 r Hcut; cbn [fq_resume]; [apply Rel_same; exact Hcut|].
  destruct (fq_cut_fields _ _ Hcut) as (Eb & Ec & Ep & _). rewrite Eb, Ec, Ep.
  destruct (length (qbuf r0) <? qcap r0).
  { apply (indep_Rel is_qrio (fq_check_end st) (fq_check_end_sw st)). apply fq_cut_st. exact Hcut. }
  assert (H1 : snd (if negb mk || (p0 r0 =? 0) then fq_grow r else fq_make_room st r) =
               snd (if negb mk || (p0 r0 =? 0) then fq_grow r0 else fq_make_room st r0) /\
               fq_cut (fst (if negb mk || (p0 r0 =? 0) then fq_grow r0 else fq_make_room st r0))
                      (fst (if negb mk || (p0 r0 =? 0) then fq_grow r else fq_make_room st r))).
  { destruct (negb mk || (p0 r0 =? 0));
      [apply (indep_cut fq_grow fq_grow_sw) | apply (indep_cut (fq_make_room st) (fq_make_room_sw st))]; exact Hcut. }
  destruct H1 as [Hg Hcut1].
  destruct (if negb mk || (p0 r0 =? 0) then fq_grow r0 else fq_make_room st r0) as [r10 g0].
  destruct (if negb mk || (p0 r0 =? 0) then fq_grow r else fq_make_room st r) as [r1 g].
  cbn [fst snd] in *. subst g.
  destruct g0 as [|e|x]; try (apply Rel_same; exact Hcut1).
  destruct (fq_fill_cut ffuel r10 r1 Hcut1) as [[Hfr Hcut2]|(k & Hk)].
  2:{ destruct (fq_fill ffuel r1) as [r2 fr]. cbn [snd] in Hk. subst fr.
      right. destruct (fq_fill ffuel r10) as [r20 fr0]. exists k. reflexivity. }
  destruct (fq_fill ffuel r10) as [r20 fr0]. destruct (fq_fill ffuel r1) as [r2 fr].
  cbn [fst snd] in *. subst fr.
  destruct fr0 as [n|k|].
  - destruct (indep_cut (fq_search_from st true) (fq_search_from_sw st true) r20 r2 Hcut2) as [Hs Hcut3].
    destruct (fq_search_from st true r20) as [r30 sr0]. destruct (fq_search_from st true r2) as [r3 sr].
    cbn [fst snd] in *. subst sr.
    destruct sr0 as [|st'|e|x]; try (apply Rel_same; exact Hcut3).
    apply IH. exact Hcut3.
  - right. exists k. reflexivity.
  - apply Rel_same. exact Hcut2.
Qed.

Lemma fq_init_cut ffuel r0 r : fq_cut r0 r -> Rel is_qiio (fq_init ffuel r0) (fq_init ffuel r).
Proof.
  intros Hcut. unfold fq_init.
  destruct (fq_fill_cut ffuel r0 r Hcut) as [[Hfr Hcut2]|(k & Hk)].
  2:{ destruct (fq_fill ffuel r) as [r2 fr]. cbn [snd] in Hk. subst fr.
      right. destruct (fq_fill ffuel r0) as [r20 fr0]. exists k. reflexivity. }
  destruct (fq_fill ffuel r0) as [r20 fr0]. destruct (fq_fill ffuel r) as [r2 fr].
  cbn [fst snd] in *. subst fr.
  destruct fr0 as [[|n]|k|]; try (apply Rel_same; exact Hcut2).
  apply Rel_same. apply fq_cut_st. exact Hcut2.
Qed.

Lemma fq_next_tail_cut fuel ffuel r0 r : fq_cut r0 r ->
  Rel is_qio (fq_next_tail fuel ffuel r0) (fq_next_tail fuel ffuel r).
Proof.
  intros Hcut. unfold fq_next_tail.
  destruct (fq_cut_fields _ _ Hcut) as (_ & _ & _ & Ei & _). rewrite Ei.
  assert (H1 : snd (match inc r0 with None => fq_search_from Head false r | Some _ => (r, QsRec) end) =
               snd (match inc r0 with None => fq_search_from Head false r0 | Some _ => (r0, QsRec) end) /\
               fq_cut (fst (match inc r0 with None => fq_search_from Head false r0 | Some _ => (r0, QsRec) end))
                      (fst (match inc r0 with None => fq_search_from Head false r | Some _ => (r, QsRec) end))).
  { destruct (inc r0); [split; [reflexivity | exact Hcut]|].
    apply (indep_cut (fq_search_from Head false) (fq_search_from_sw Head false)). exact Hcut. }
  destruct H1 as [Hs Hcut1].
  destruct (match inc r0 with None => fq_search_from Head false r0 | Some _ => (r0, QsRec) end) as [r10 sr0].
  destruct (match inc r0 with None => fq_search_from Head false r | Some _ => (r, QsRec) end) as [r1 sr].
  cbn [fst snd] in *. subst sr.
  assert (Hrest : Rel is_qio
    (match inc r10 with
     | Some s =>
        let '(r2, rr) := fq_resume fuel ffuel s true r10 in
        match rr with
        | QrErr e => (r2, QOErr e)
        | QrPanic x => (r2, QOPanic x)
        | QrFuel => (r2, QOFuel)
        | QrOk false => (r2, QONone)
        | QrOk true => (r2, QORec (fq_cur r2))
        end
     | None => (r10, QORec (fq_cur r10))
     end)
    (match inc r1 with
     | Some s =>
        let '(r2, rr) := fq_resume fuel ffuel s true r1 in
        match rr with
        | QrErr e => (r2, QOErr e)
        | QrPanic x => (r2, QOPanic x)
        | QrFuel => (r2, QOFuel)
        | QrOk false => (r2, QONone)
        | QrOk true => (r2, QORec (fq_cur r2))
        end
     | None => (r1, QORec (fq_cur r1))
     end)).
  { destruct (fq_cut_fields _ _ Hcut1) as (_ & _ & _ & Ei1 & _ & _ & _ & Ecur1 & _). rewrite Ei1, Ecur1.
    destruct (inc r10) as [s|]; [|apply Rel_same; exact Hcut1].
    destruct (fq_resume_cut ffuel true fuel s r10 r1 Hcut1) as [[Hrr Hcut2]|(k & Hk)].
    2:{ destruct (fq_resume fuel ffuel s true r1) as [r2 rr]. cbn [snd] in Hk. subst rr.
        right. destruct (fq_resume fuel ffuel s true r10) as [r20 rr0]. exists k. reflexivity. }
    destruct (fq_resume fuel ffuel s true r10) as [r20 rr0]. destruct (fq_resume fuel ffuel s true r1) as [r2 rr].
    cbn [fst snd] in *. subst rr.
    destruct (fq_cut_fields _ _ Hcut2) as (_ & _ & _ & _ & _ & _ & _ & Ecur2 & _).
    destruct rr0 as [[|]|e|x|]; try rewrite Ecur2; apply Rel_same; exact Hcut2. }
  destruct sr0 as [|s|e|x]; try exact Hrest; apply Rel_same; exact Hcut1.
Qed.

Theorem fq_next_cut fuel ffuel r0 r : fq_cut r0 r ->
  Rel is_qio (fq_next fuel ffuel r0) (fq_next fuel ffuel r).
Proof.
  intros Hcut. unfold fq_next.
  destruct (fq_cut_fields _ _ Hcut) as (_ & _ & _ & Ei & Est & _). rewrite Ei, Est.
  destruct (qst r0).
  - destruct (fq_init_cut ffuel r0 r Hcut) as [[Hir Hcut1]|(k & Hk)].
    2:{ destruct (fq_init ffuel r) as [r1 ir]. cbn [snd] in Hk. subst ir.
        right. destruct (fq_init ffuel r0) as [r10 ir0]. exists k. reflexivity. }
    destruct (fq_init ffuel r0) as [r10 ir0]. destruct (fq_init ffuel r) as [r1 ir].
    cbn [fst snd] in *. subst ir.
    destruct ir0 as [[|]|e|]; try (apply Rel_same; exact Hcut1).
    apply fq_next_tail_cut. apply fq_cut_st. exact Hcut1.
  - destruct (inc r0); [apply fq_next_tail_cut; exact Hcut|].
    pose proof (fq_increment_cut r0 r Hcut) as Hi.
    destruct (fq_increment r0) as [a0|]; destruct (fq_increment r) as [a|]; try contradiction.
    + apply fq_next_tail_cut. exact Hi.
    + apply Rel_same. exact Hcut.
  - apply fq_next_tail_cut. apply fq_cut_st. exact Hcut.
  - apply Rel_same. exact Hcut.
Qed.

(** record sets *)
Definition is_qlio (x : qlres) : Prop := exists k, x = QLErr (FqIo k).

Definition Rel3 {X Y} (isio : Y -> Prop) (x0 x : fq * X * Y) : Prop :=
  (snd x = snd x0 /\ snd (fst x) = snd (fst x0) /\ fq_cut (fst (fst x0)) (fst (fst x))) \/ isio (snd x).

Lemma Rel3_same {X Y} (isio : Y -> Prop) a0 a (p : X) (y : Y) : fq_cut a0 a -> Rel3 isio (a0, p, y) (a, p, y).
Proof. intros H. left. cbn [fst snd]. auto. Qed.

Lemma fq_set_loop_cut rfuel ffuel : forall fuel n is_new r0 r ps, fq_cut r0 r ->
  Rel3 is_qlio (fq_set_loop fuel rfuel ffuel n is_new r0 ps) (fq_set_loop fuel rfuel ffuel n is_new r ps).
Proof.
  induction fuel as [|f IH]; intros n is_new r0 r ps Hcut; cbn [fq_set_loop]; [apply Rel3_same; exact Hcut|].
  destruct (fq_cut_fields _ _ Hcut) as (_ & _ & _ & Ei & Est & _). rewrite Ei, Est.
  destruct (fq_state_eqb (qst r0) QFinished); [apply Rel3_same; exact Hcut|].
  assert (Hfound : forall a0 a, fq_cut a0 a ->
    Rel3 is_qlio
      (let ps2 := ps ++ [fq_bp a0] in
       match fq_increment a0 with
       | None => (a0, ps2, QLPanic 3)
       | Some r4 => if reached n (length ps2) then (r4, ps2, QLDone)
                    else fq_set_loop f rfuel ffuel n is_new r4 ps2
       end)
      (let ps2 := ps ++ [fq_bp a] in
       match fq_increment a with
       | None => (a, ps2, QLPanic 3)
       | Some r4 => if reached n (length ps2) then (r4, ps2, QLDone)
                    else fq_set_loop f rfuel ffuel n is_new r4 ps2
       end)).
  { intros a0 a Ha. cbv zeta.
    destruct (fq_cut_fields _ _ Ha) as (_ & _ & _ & _ & _ & _ & _ & _ & Ebp). rewrite Ebp.
    pose proof (fq_increment_cut a0 a Ha) as Hi.
    destruct (fq_increment a0) as [b0|]; destruct (fq_increment a) as [b|]; try contradiction.
    - destruct (reached n (length (ps ++ [fq_bp a0]))); [apply Rel3_same; exact Hi|].
      apply IH. exact Hi.
    - apply Rel3_same. exact Ha. }
  destruct (inc r0) as [s|].
  - destruct (fq_resume_cut ffuel is_new rfuel s (qset_inc r0 None) (qset_inc r None) (fq_cut_inc _ _ None Hcut))
      as [[Hrr Hcut1]|(k & Hk)].
    2:{ destruct (fq_resume rfuel ffuel s is_new (qset_inc r None)) as [r1 rr]. cbn [snd] in Hk. subst rr.
        right. destruct (fq_resume rfuel ffuel s is_new (qset_inc r0 None)) as [r10 rr0]. exists k. reflexivity. }
    destruct (fq_resume rfuel ffuel s is_new (qset_inc r0 None)) as [r10 rr0].
    destruct (fq_resume rfuel ffuel s is_new (qset_inc r None)) as [r1 rr].
    cbn [fst snd] in *. subst rr.
    destruct rr0 as [[|]|e|x|]; try (apply Rel3_same; exact Hcut1).
    + apply (Hfound r10 r1 Hcut1).
    + destruct ps; apply Rel3_same; exact Hcut1.
  - destruct (indep_cut (fq_search_from Head false) (fq_search_from_sw Head false) r0 r Hcut) as [Hs Hcut1].
    destruct (fq_search_from Head false r0) as [r10 sr0]. destruct (fq_search_from Head false r) as [r1 sr].
    cbn [fst snd] in *. subst sr.
    destruct sr0 as [|s|e|x]; try (apply Rel3_same; exact Hcut1).
    + apply (Hfound r10 r1 Hcut1).
    + destruct ps as [|p ps0]; [apply IH; exact Hcut1|].
      destruct (below n (length (p :: ps0))); [apply IH; exact Hcut1|].
      apply Rel3_same. exact Hcut1.
Qed.

Theorem fq_read_set_cut fuel ffuel n r0 r rs : fq_cut r0 r ->
  Rel3 is_qio (fq_read_set fuel ffuel n r0 rs) (fq_read_set fuel ffuel n r rs).
Proof.
  intros Hcut. unfold fq_read_set.
  assert (Hgo : forall a0 a, fq_cut a0 a ->
    Rel3 is_qio
      (let '(r1, ps, lr) := fq_set_loop fuel fuel ffuel n true a0 [] in
       match lr with
       | QLDone => (r1, mkFqSet (qbuf r1) ps, QOSetOk)
       | QLErr e => (r1, mkFqSet (qsbuf rs) [], QOErr e)
       | QLPanic x => (r1, mkFqSet (qsbuf rs) ps, QOPanic x)
       | QLFuel => (r1, mkFqSet (qsbuf rs) ps, QOFuel)
       | QLNone => (r1, mkFqSet (qsbuf rs) ps, QONone)
       end)
      (let '(r1, ps, lr) := fq_set_loop fuel fuel ffuel n true a [] in
       match lr with
       | QLDone => (r1, mkFqSet (qbuf r1) ps, QOSetOk)
       | QLErr e => (r1, mkFqSet (qsbuf rs) [], QOErr e)
       | QLPanic x => (r1, mkFqSet (qsbuf rs) ps, QOPanic x)
       | QLFuel => (r1, mkFqSet (qsbuf rs) ps, QOFuel)
       | QLNone => (r1, mkFqSet (qsbuf rs) ps, QONone)
       end)).
  { intros a0 a Ha.
    destruct (fq_set_loop_cut fuel ffuel fuel n true a0 a [] Ha) as [(Hlr & Hps & Hcut1)|(k & Hk)].
    2:{ destruct (fq_set_loop fuel fuel ffuel n true a []) as [[r1 ps1] lr]. cbn [snd] in Hk. subst lr.
        right. destruct (fq_set_loop fuel fuel ffuel n true a0 []) as [[r10 ps10] lr0]. exists k. reflexivity. }
    destruct (fq_set_loop fuel fuel ffuel n true a0 []) as [[r10 ps10] lr0].
    destruct (fq_set_loop fuel fuel ffuel n true a []) as [[r1 ps1] lr].
    cbn [fst snd] in *. subst lr ps1.
    destruct (fq_cut_fields _ _ Hcut1) as (Eb & _). 
    destruct lr0; try rewrite Eb; apply Rel3_same; exact Hcut1. }
  destruct (fq_cut_fields _ _ Hcut) as (_ & _ & _ & Ei & Est & _). rewrite Ei, Est.
  destruct (qst r0).
  - destruct (fq_init_cut ffuel r0 r Hcut) as [[Hir Hcut1]|(k & Hk)].
    2:{ destruct (fq_init ffuel r) as [r1 ir]. cbn [snd] in Hk. subst ir.
        right. destruct (fq_init ffuel r0) as [r10 ir0]. exists k. reflexivity. }
    destruct (fq_init ffuel r0) as [r10 ir0]. destruct (fq_init ffuel r) as [r1 ir].
    cbn [fst snd] in *. subst ir.
    destruct ir0 as [[|]|e|]; try (apply Rel3_same; exact Hcut1).
    apply Hgo. apply fq_cut_st. exact Hcut1.
  - destruct (inc r0); [apply Hgo; apply fq_cut_st; exact Hcut|].
    pose proof (fq_increment_cut r0 r Hcut) as Hi.
    destruct (fq_increment r0) as [a0|]; destruct (fq_increment r) as [a|]; try contradiction.
    + apply Hgo. apply fq_cut_st. exact Hi.
    + apply Rel3_same. exact Hcut.
  - apply Hgo. exact Hcut.
  - apply Rel3_same. exact Hcut.
Qed.

(** [seek] *)
Theorem fq_seek_cut ffuel r0 r line byte_ : fq_cut r0 r ->
  Rel is_qio (fq_seek ffuel r0 line byte_) (fq_seek ffuel r line byte_).
Proof.
  intros Hcut. destruct (fq_cut_inv _ _ Hcut) as (s & -> & Hs). unfold fq_seek.
  change (qbyte (qsw s r0)) with (qbyte r0). change (p0 (qsw s r0)) with (p0 r0).
  change (qbuf (qsw s r0)) with (qbuf r0). change (qsrc (qsw s r0)) with s. change (qlog (qsw s r0)) with (qlog r0).
  change (qst (qsw s r0)) with (qst r0).
  destruct ((0 <=? Z.of_nat (p0 r0) + (Z.of_nat byte_ - Z.of_nat (qbyte r0)))%Z &&
            (Z.of_nat (p0 r0) + (Z.of_nat byte_ - Z.of_nat (qbyte r0)) <? Z.of_nat (length (qbuf r0)))%Z &&
            negb (fq_state_eqb (qst r0) QNew)).
  { apply Rel_same. split; [reflexivity|]. fq_simpl. exact Hs. }
  destruct (src_seek_cut (qsrc r0) s byte_ Hs) as [[Hres Hs1]|(k & Hk)].
  2:{ destruct (src_seek s byte_) as [s' res]. cbn [snd] in Hk. subst res.
      right. exists k. reflexivity. }
  destruct (src_seek (qsrc r0) byte_) as [s0' res0]. destruct (src_seek s byte_) as [s' res].
  cbn [fst snd] in *. subst res.
  destruct res0 as [k|].
  { right. exists k. reflexivity. }
  match goal with |- Rel _ (let '(_, _) := fq_fill ffuel ?A0 in _) (let '(_, _) := fq_fill ffuel ?A in _) =>
    assert (Ha : fq_cut A0 A) by (split; [reflexivity | fq_simpl; exact Hs1]);
    destruct (fq_fill_cut ffuel A0 A Ha) as [[Hfr Hcut2]|(k & Hk)];
    [ destruct (fq_fill ffuel A0) as [r20 fr0]; destruct (fq_fill ffuel A) as [r2 fr]
    | destruct (fq_fill ffuel A) as [r2 fr]; destruct (fq_fill ffuel A0) as [r20 fr0] ]
  end; cbn [fst snd] in *; subst fr.
  - destruct fr0 as [n|k|]; try (apply Rel_same; exact Hcut2). right. exists k. reflexivity.
  - right. exists k. reflexivity.
Qed.

Lemma fq_set_policy_cut r0 r p : fq_cut r0 r -> fq_cut (fq_set_policy r0 p) (fq_set_policy r p).
Proof. apply (fq_cut_set (fun a => fq_set_policy a p)); reflexivity. Qed.

Lemma fq_position_cut r0 r : fq_cut r0 r -> fq_position r = fq_position r0.
Proof.
  intros Hcut. destruct (fq_cut_fields _ _ Hcut) as (_ & _ & _ & _ & _ & El & Eb & _).
  unfold fq_position. rewrite El, Eb. reflexivity.
Qed.

(** the target statement *)
Theorem fq_calls_before_failure :
  (forall fuel ffuel r0 r r0' o0 r' o, fq_cut r0 r ->
     fq_next fuel ffuel r0 = (r0', o0) -> fq_next fuel ffuel r = (r', o) ->
     (o = o0 /\ fq_cut r0' r') \/ is_qio o) /\
  (forall fuel ffuel n r0 r rs r0' rs0' o0 r' rs' o, fq_cut r0 r ->
     fq_read_set fuel ffuel n r0 rs = (r0', rs0', o0) -> fq_read_set fuel ffuel n r rs = (r', rs', o) ->
     (o = o0 /\ rs' = rs0' /\ fq_cut r0' r') \/ is_qio o) /\
  (forall ffuel r0 r line byte_ r0' o0 r' o, fq_cut r0 r ->
     fq_seek ffuel r0 line byte_ = (r0', o0) -> fq_seek ffuel r line byte_ = (r', o) ->
     (o = o0 /\ fq_cut r0' r') \/ is_qio o) /\
  (forall r0 r p, fq_cut r0 r -> fq_cut (fq_set_policy r0 p) (fq_set_policy r p)) /\
  (forall r0 r, fq_cut r0 r -> fq_position r = fq_position r0).
Proof.
  split; [|split; [|split; [|split]]].
  - intros fuel ffuel r0 r r0' o0 r' o Hcut E0 E.
    pose proof (fq_next_cut fuel ffuel r0 r Hcut) as H. rewrite E0, E in H. exact H.
  - intros fuel ffuel n r0 r rs r0' rs0' o0 r' rs' o Hcut E0 E.
    pose proof (fq_read_set_cut fuel ffuel n r0 r rs Hcut) as H. rewrite E0, E in H. exact H.
  - intros ffuel r0 r line byte_ r0' o0 r' o Hcut E0 E.
    pose proof (fq_seek_cut ffuel r0 r line byte_ Hcut) as H. rewrite E0, E in H. exact H.
  - intros r0 r p. apply fq_set_policy_cut.
  - apply fq_position_cut.
Qed.

(* ------------------------------------------------------------------ *)
(** * Histories *)

(** the observation of a call that returned an I/O error ([fq_hstep] shows a
    failing read as [OErr], a failing seek as [OBad (QOErr _)]) *)
Definition is_ioobs (o : hobs) : Prop := exists k, o = OErr (FqIo k) \/ o = OBad (QOErr (FqIo k)).

(** related configurations: related readers, equal record sets *)
Definition CRel (c0 c : hconf) : Prop :=
  fq_cut (c_rd c0) (c_rd c) /\ snd (fst c) = snd (fst c0) /\ snd c = snd c0.

Lemma fq_hstep_cut inp fuel ffuel op c0 c : CRel c0 c ->
  (snd (fq_hstep inp fuel ffuel op c) = snd (fq_hstep inp fuel ffuel op c0) /\
   CRel (fst (fq_hstep inp fuel ffuel op c0)) (fst (fq_hstep inp fuel ffuel op c))) \/
  is_ioobs (snd (fq_hstep inp fuel ffuel op c)).
Proof.
  destruct c0 as [[r0 a0] b0]. destruct c as [[r a] b]. unfold CRel. cbn [c_rd fst snd].
  intros (Hcut & -> & ->).
  assert (Hnext : forall (f : fq_out -> hobs), (forall k, f (QOErr (FqIo k)) = OErr (FqIo k)) ->
    (snd (let '(r', o) := fq_next fuel ffuel r in (c_rd_put (r, a0, b0) r', f o)) =
     snd (let '(r', o) := fq_next fuel ffuel r0 in (c_rd_put (r0, a0, b0) r', f o)) /\
     CRel (fst (let '(r', o) := fq_next fuel ffuel r0 in (c_rd_put (r0, a0, b0) r', f o)))
          (fst (let '(r', o) := fq_next fuel ffuel r in (c_rd_put (r, a0, b0) r', f o)))) \/
    is_ioobs (snd (let '(r', o) := fq_next fuel ffuel r in (c_rd_put (r, a0, b0) r', f o)))).
  { intros f Hf. destruct (fq_next_cut fuel ffuel r0 r Hcut) as [[Ho Hc]|(k & Hk)].
    - destruct (fq_next fuel ffuel r0) as [r0' o0]. destruct (fq_next fuel ffuel r) as [r' o].
      cbn [fst snd] in *. subst o. left. split; [reflexivity|].
      unfold CRel, c_rd_put. cbn [c_rd fst snd]. auto.
    - destruct (fq_next fuel ffuel r) as [r' o]. cbn [fst snd] in *. subst o.
      right. exists k. left. apply Hf. }
  assert (Hset : forall n s,
    (snd (let '(r', x, o) := fq_read_set fuel ffuel n r (c_slot (r, a0, b0) s) in (c_put (r, a0, b0) r' s x, set_obs x o)) =
     snd (let '(r', x, o) := fq_read_set fuel ffuel n r0 (c_slot (r0, a0, b0) s) in (c_put (r0, a0, b0) r' s x, set_obs x o)) /\
     CRel (fst (let '(r', x, o) := fq_read_set fuel ffuel n r0 (c_slot (r0, a0, b0) s) in (c_put (r0, a0, b0) r' s x, set_obs x o)))
          (fst (let '(r', x, o) := fq_read_set fuel ffuel n r (c_slot (r, a0, b0) s) in (c_put (r, a0, b0) r' s x, set_obs x o)))) \/
    is_ioobs (snd (let '(r', x, o) := fq_read_set fuel ffuel n r (c_slot (r, a0, b0) s) in (c_put (r, a0, b0) r' s x, set_obs x o)))).
  { intros n s. change (c_slot (r, a0, b0) s) with (c_slot (r0, a0, b0) s).
    destruct (fq_read_set_cut fuel ffuel n r0 r (c_slot (r0, a0, b0) s) Hcut) as [(Ho & Hx & Hc)|(k & Hk)].
    - destruct (fq_read_set fuel ffuel n r0 (c_slot (r0, a0, b0) s)) as [[r0' x0] o0].
      destruct (fq_read_set fuel ffuel n r (c_slot (r0, a0, b0) s)) as [[r' x] o].
      cbn [fst snd] in *. subst o x. left. split; [reflexivity|].
      unfold CRel, c_put. destruct s; cbn [c_rd fst snd]; auto.
    - destruct (fq_read_set fuel ffuel n r (c_slot (r0, a0, b0) s)) as [[r' x] o]. cbn [fst snd] in *. subst o.
      right. exists k. left. reflexivity. }
  destruct op as [| |s|s n|s| |k]; cbn [fq_hstep c_rd fst snd].
  - apply (Hnext read_obs). reflexivity.
  - apply (Hnext owned_obs). reflexivity.
  - apply (Hset None s).
  - apply (Hset (Some n) s).
  - left. split; [reflexivity|]. unfold CRel. cbn [c_rd fst snd]. auto.
  - left. split; [rewrite (fq_position_cut r0 r Hcut); reflexivity|]. unfold CRel. cbn [c_rd fst snd]. auto.
  - destruct (nth_error (fq_spec_all inp) k) as [it|].
    2:{ left. split; [reflexivity|]. unfold CRel. cbn [c_rd fst snd]. auto. }
    destruct (fq_seek_cut ffuel r0 r (fst (coords it)) (snd (coords it)) Hcut) as [[Ho Hc]|(k' & Hk)].
    + destruct (fq_seek ffuel r0 (fst (coords it)) (snd (coords it))) as [r0' o0].
      destruct (fq_seek ffuel r (fst (coords it)) (snd (coords it))) as [r' o].
      cbn [fst snd] in *. subst o. left. split; [reflexivity|].
      unfold CRel, c_rd_put. cbn [c_rd fst snd]. auto.
    + destruct (fq_seek ffuel r (fst (coords it)) (snd (coords it))) as [r' o]. cbn [fst snd] in *. subst o.
      right. exists k'. right. reflexivity.
Qed.

Lemma fq_hrun_cut inp fuel ffuel : forall ops c0 c, CRel c0 c ->
  exists j, j <= length ops /\
    firstn j (fst (fq_hrun inp fuel ffuel ops c)) = firstn j (fst (fq_hrun inp fuel ffuel ops c0)) /\
    (j = length ops \/
     exists k, nth_error (fst (fq_hrun inp fuel ffuel ops c)) j = Some (OErr (FqIo k)) \/
               nth_error (fst (fq_hrun inp fuel ffuel ops c)) j = Some (OBad (QOErr (FqIo k)))).
Proof.
  induction ops as [|op ops IH]; intros c0 c HC.
  { exists 0. cbn [length fq_hrun fst firstn]. split; [lia|]. split; [reflexivity|]. left. reflexivity. }
  cbn [fq_hrun length].
  destruct (fq_hstep_cut inp fuel ffuel op c0 c HC) as [[Ho HC1]|(k & Hk)].
  - destruct (fq_hstep inp fuel ffuel op c0) as [c0' o0]. destruct (fq_hstep inp fuel ffuel op c) as [c' o].
    cbn [fst snd] in *. subst o.
    destruct (IH c0' c' HC1) as (j & Hj & Hpre & Hend).
    destruct (fq_hrun inp fuel ffuel ops c0') as [os0 c0'']. destruct (fq_hrun inp fuel ffuel ops c') as [os c''].
    cbn [fst snd] in *. exists (S j). split; [lia|]. split; [cbn [firstn]; rewrite Hpre; reflexivity|].
    destruct Hend as [->|Hend]; [left; reflexivity | right; exact Hend].
  - destruct (fq_hstep inp fuel ffuel op c) as [c' o]. cbn [fst snd] in *.
    destruct (fq_hrun inp fuel ffuel ops c') as [os c''].
    destruct (fq_hstep inp fuel ffuel op c0) as [c0' o0].
    destruct (fq_hrun inp fuel ffuel ops c0') as [os0 c0''].
    cbn [fst snd]. exists 0. split; [lia|]. split; [reflexivity|]. right. exists k.
    cbn [nth_error]. destruct Hk as [->| ->]; [left | right]; reflexivity.
Qed.

Lemma CRel_init cap0 inp rs1 rt ss1 st_ pol : rtail_ok rt -> stail_ok st_ ->
  CRel (fq_hconf0 cap0 inp rs1 ss1 pol) (fq_hconf0 cap0 inp (rs1 ++ rt) (ss1 ++ st_) pol).
Proof.
  intros Hrt Hst. unfold CRel, fq_hconf0. cbn [c_rd fst snd]. split; [|split; reflexivity].
  split; [reflexivity|]. unfold fq_new. cbn [qsrc]. unfold src_cut. cbn [s_data s_pos s_rs s_ss].
  split; [reflexivity|]. split; [reflexivity|].
  split; [exists rt | exists st_]; split; auto.
Qed.

Theorem fq_history_before_failure : forall inp cap0 rs1 rt ss1 st_ pol fuel ffuel ops,
  rtail_ok rt -> stail_ok st_ ->
  let obs  := fst (fq_hrun inp fuel ffuel ops (fq_hconf0 cap0 inp (rs1 ++ rt) (ss1 ++ st_) pol)) in
  let obs0 := fst (fq_hrun inp fuel ffuel ops (fq_hconf0 cap0 inp rs1 ss1 pol)) in
  exists j, j <= length ops /\ firstn j obs = firstn j obs0 /\
            (j = length ops \/ exists k, nth_error obs j = Some (OErr (FqIo k)) \/ nth_error obs j = Some (OBad (QOErr (FqIo k)))).
Proof.
  intros inp cap0 rs1 rt ss1 st_ pol fuel ffuel ops Hrt Hst. cbv zeta.
  apply fq_hrun_cut. apply CRel_init; assumption.
Qed.

(** prefixes of histories *)
Lemma fq_hrun_firstn inp fuel ffuel : forall j ops c,
  fst (fq_hrun inp fuel ffuel (firstn j ops) c) = firstn j (fst (fq_hrun inp fuel ffuel ops c)).
Proof.
  induction j as [|j IH]; intros ops c; [reflexivity|].
  destruct ops as [|op ops]; [reflexivity|]. cbn [firstn fq_hrun].
  destruct (fq_hstep inp fuel ffuel op c) as [c1 o1]. specialize (IH ops c1).
  destruct (fq_hrun inp fuel ffuel (firstn j ops) c1) as [os1 c2].
  destruct (fq_hrun inp fuel ffuel ops c1) as [os c3]. cbn [fst snd firstn] in *. rewrite IH. reflexivity.
Qed.

Lemma hist_ok_firstn inp j ops : hist_ok inp ops -> hist_ok inp (firstn j ops).
Proof.
  unfold hist_ok. intros H. revert j. induction H as [|op ops Hop _ IH]; intros [|j]; cbn [firstn]; constructor; auto.
Qed.

(** prefix closure of the runs of the cursor machine *)
Lemma hrun_firstn (I : Type) (is_rec : I -> bool) (stream : list I) h ops os h' :
  hrun I is_rec stream h ops os h' ->
  forall j, exists h'', hrun I is_rec stream h (firstn j ops) (firstn j os) h''.
Proof.
  intros H. induction H as [h|h op o h1 ops os h2 Hst _ IH]; intros j.
  - exists h. destruct j; constructor.
  - destruct j as [|j]; [exists h; constructor|].
    destruct (IH j) as (h'' & Hr). exists h''. cbn [firstn]. econstructor; eassumption.
Qed.

(** the observations before the first I/O error match a run of the cursor machine over
    the specification stream *)
Theorem fq_records_before_failure : forall inp cap0 rs1 rt ss1 st_ pol fuel ffuel ops,
  1 <= cap0 -> forallb item_ok rs1 = true -> forallb sitem_ok ss1 = true -> PolOk1 pol ->
  rtail_ok rt -> stail_ok st_ ->
  length rs1 + 2 <= ffuel -> 2 * length inp + 4 <= fuel -> hist_ok inp ops ->
  let obs := fst (fq_hrun inp fuel ffuel ops (fq_hconf0 cap0 inp (rs1 ++ rt) (ss1 ++ st_) pol)) in
  exists j os h',
    j <= length ops /\
    (j = length ops \/ exists k, nth_error obs j = Some (OErr (FqIo k)) \/ nth_error obs j = Some (OBad (QOErr (FqIo k)))) /\
    hrun fq_sitem fq_is_rec (fq_spec_all inp) h_init (firstn j ops) os h' /\
    Forall2 (obs_match inp) (firstn j obs) os.
Proof.
  intros inp cap0 rs1 rt ss1 st_ pol fuel ffuel ops Hc Hrs Hss Hp Hrt Hst Hf Hfu Hok. cbv zeta.
  destruct (fq_history_before_failure inp cap0 rs1 rt ss1 st_ pol fuel ffuel ops Hrt Hst) as (j & Hj & Hpre & Hend).
  cbv zeta in Hpre, Hend.
  destruct (fq_hist_refines_cursor inp cap0 rs1 ss1 pol fuel ffuel (firstn j ops) Hc Hrs Hss Hp Hf Hfu
              (hist_ok_firstn inp j ops Hok)) as (os & h' & Hr & Hm).
  exists j, os, h'. split; [exact Hj|]. split; [exact Hend|]. split; [exact Hr|].
  rewrite Hpre, <- fq_hrun_firstn. exact Hm.
Qed.

Print Assumptions fq_calls_before_failure.
Print Assumptions fq_history_before_failure.
Print Assumptions fq_records_before_failure.
