(** C06 building blocks, FASTQ reader: offset sanity (see SaneP.v for FASTA).
    The offsets a FASTQ reader state relies on depend on how far the search for
    the current record got ([inc]) and on the state flag; the predicate below
    says exactly which ones must be ordered and inside the buffer.  It holds
    for a new reader, is preserved by every entry point for every policy,
    capacity, input and fault script (also through calls that return errors),
    and excludes every panic site of the reader functions. *)
From SeqIO Require Import Model.Base Model.Fastq Proofs.TraceP Proofs.FqTraceP Proofs.GrowP.

(** offsets found so far are ordered and inside the buffer *)
Definition OffHead (r : fq) : Prop := p0 r <= length (qbuf r).
Definition OffSeq (r : fq) : Prop := p0 r < pseq r /\ pseq r <= length (qbuf r).
Definition OffSep (r : fq) : Prop := OffSeq r /\ pseq r < psep r /\ psep r <= length (qbuf r).
Definition OffQual (r : fq) : Prop := OffSep r /\ psep r < pqual r /\ pqual r <= length (qbuf r).
(** a complete LF-terminated record *)
Definition OffRec (r : fq) : Prop := OffQual r /\ pqual r <= p1 r /\ p1 r + 1 <= length (qbuf r).

(** the search is about to look for the end of line [s] *)
Definition StageOk (s : stage) (r : fq) : Prop :=
  match s with Head => OffHead r | Seq => OffSeq r | Sep => OffSep r | Qual => OffQual r end.

Definition FqSane (r : fq) : Prop :=
  match qst r with
  | QFinished => True
  | QNew => inc r = None /\ OffHead r
  | QParsing => match inc r with Some s => StageOk s r | None => OffRec r end
  | QPositioned => match inc r with Some s => StageOk s r | None => OffHead r end
  end.

Lemma fq_new_sane c s p : FqSane (fq_new c s p).
Proof. unfold FqSane, OffHead. cbn. auto. Qed.

Lemma StageOk_head s r : StageOk s r -> OffHead r.
Proof. unfold OffHead. destruct s; cbn [StageOk]; unfold OffQual, OffSep, OffSeq, OffHead; intros; lia. Qed.

(** everything depends only on the offsets and the buffer length *)
Lemma StageOk_ext s r r' :
  p0 r' = p0 r -> pseq r' = pseq r -> psep r' = psep r -> pqual r' = pqual r ->
  length (qbuf r) <= length (qbuf r') -> StageOk s r -> StageOk s r'.
Proof.
  intros A B C D E. destruct s; cbn [StageOk]; unfold OffQual, OffSep, OffSeq, OffHead;
    rewrite ?A, ?B, ?C, ?D; intros; lia.
Qed.

(* ------------------------------------------------------------------ *)

Lemma find_lf_bound l : forall p, find_lf l = Some p -> p < length l.
Proof.
  induction l as [|c l IH]; intros p H; cbn [find_lf] in H; [discriminate|].
  destruct (c =? LF); [inversion H; subst; cbn; lia|].
  destruct (find_lf l) as [q|]; [|discriminate]. cbn [option_map] in H. inversion H; subst.
  specialize (IH q eq_refl). cbn [length]. lia.
Qed.

Lemma find_line_spec b st : st <= length b ->
  fq_find_line b st = Some None \/ exists x, fq_find_line b st = Some (Some x) /\ st < x /\ x <= length b.
Proof.
  intros H. unfold fq_find_line.
  assert (E : (length b <? st) = false) by (apply Nat.ltb_ge; exact H). rewrite E.
  destruct (find_lf (skipn st b)) as [p|] eqn:Ef; [right|left; reflexivity].
  apply find_lf_bound in Ef. rewrite skipn_length in Ef. eexists. split; [reflexivity|]. lia.
Qed.

Lemma slice_some b i j : i <= j -> j <= length b -> exists l, slice b i j = Some l.
Proof.
  intros H1 H2. unfold slice.
  assert (E1 : (i <=? j) = true) by (apply Nat.leb_le; exact H1).
  assert (E2 : (j <=? length b) = true) by (apply Nat.leb_le; exact H2).
  rewrite E1, E2. eexists; reflexivity.
Qed.

Lemma error_pos_some r lo pid : (pid = true -> OffSeq r) ->
  exists l id, fq_error_pos r lo pid = Some (l, id).
Proof.
  intros H. unfold fq_error_pos. destruct pid; [|eexists _, _; reflexivity].
  destruct (H eq_refl) as [H1 H2].
  assert (E1 : (pseq r <? p0 r) = false) by (apply Nat.ltb_ge; lia). rewrite E1.
  destruct (1 <? pseq r - p0 r) eqn:E2; [apply Nat.ltb_lt in E2|eexists _, _; reflexivity].
  unfold bp_head. assert (E3 : (pseq r =? 0) = false) by (apply Nat.eqb_neq; lia). rewrite E3.
  destruct (slice_some (qbuf r) (p0 r + 1) (pseq r - 1)) as [l ->]; try lia.
  cbn [option_map]. eexists _, _; reflexivity.
Qed.

(** [validate] with the four offsets found and the record end inside the buffer *)
Lemma fq_validate_sane r r' v : fq_validate r = (r', v) ->
  OffQual r -> pqual r <= p1 r -> p1 r <= length (qbuf r) ->
  (forall x, v <> VPanic x) /\ (v = VOk -> r' = r) /\ (forall e, v = VErr e -> r' = qset_st r QFinished).
Proof.
  intros H (((A1 & A2) & B1 & B2) & C1 & C2) D1 D2. unfold fq_validate in H.
  destruct (nth_error (qbuf r) (p0 r)) as [sb|] eqn:E0.
  2:{ apply nth_error_None in E0. lia. }
  destruct (negb (sb =? AT)).
  { destruct (error_pos_some (qset_st r QFinished) 0 false) as (l & id & Hep); [discriminate|]. rewrite Hep in H.
    inversion H; subst. splits; try discriminate. intros e _. reflexivity. }
  destruct (nth_error (qbuf r) (psep r)) as [pb|] eqn:E1.
  2:{ apply nth_error_None in E1. lia. }
  destruct (negb (pb =? PLUS)).
  { destruct (error_pos_some (qset_st r QFinished) 2 true) as (l & id & Hep); [intros _; split; assumption|]. rewrite Hep in H.
    inversion H; subst. splits; try discriminate. intros e _. reflexivity. }
  unfold bp_seq, bp_qual in H.
  assert (E3 : (psep r =? 0) = false) by (apply Nat.eqb_neq; lia). rewrite E3 in H.
  destruct (slice_some (qbuf r) (pseq r) (psep r - 1)) as [ls Hs]; try lia.
  destruct (slice_some (qbuf r) (pqual r) (p1 r)) as [lq Hq]; try lia.
  rewrite Hs, Hq in H. cbn [option_map] in H.
  destruct (length (trim_cr ls) =? length (trim_cr lq)).
  { inversion H; subst. splits; try discriminate. reflexivity. }
  destruct (error_pos_some (qset_st r QFinished) 0 true) as (l & id & Hep); [intros _; split; assumption|]. rewrite Hep in H.
  inversion H; subst. splits; try discriminate. intros e _. reflexivity.
Qed.

(** the search from stage [from]: never panics; a record, a new pending stage, or an error that finishes the reader *)
Lemma fq_search_from_sane from clear r r' sr : fq_search_from from clear r = (r', sr) -> StageOk from r ->
  (forall x, sr <> QsPanic x) /\ qbuf r' = qbuf r /\
  match sr with
  | QsRec => OffRec r' /\ qst r' = qst r /\ inc r' = (if clear then None else inc r) /\ p0 r' = p0 r
  | QsIncomplete s => StageOk s r' /\ qst r' = qst r /\ inc r' = Some s /\ p0 r' = p0 r
  | QsErr _ => qst r' = QFinished
  | QsPanic _ => False
  end.
Proof.
  intros H S.
  (* the last stage and validation, from a state with pseq, psep, pqual found *)
  assert (Hlast : forall r3, OffQual r3 -> qst r3 = qst r -> inc r3 = inc r -> p0 r3 = p0 r -> qbuf r3 = qbuf r ->
    match fq_find_line (qbuf r3) (pqual r3) with
    | None => (r3, QsPanic 24)
    | Some None => (qset_inc r3 (Some Qual), QsIncomplete Qual)
    | Some (Some x) => of_vres (fq_validate (if clear then qset_inc (qset_p1 r3 (x - 1)) None else qset_p1 r3 (x - 1)))
    end = (r', sr) ->
    (forall x, sr <> QsPanic x) /\ qbuf r' = qbuf r /\
    match sr with
    | QsRec => OffRec r' /\ qst r' = qst r /\ inc r' = (if clear then None else inc r) /\ p0 r' = p0 r
    | QsIncomplete s => StageOk s r' /\ qst r' = qst r /\ inc r' = Some s /\ p0 r' = p0 r
    | QsErr _ => qst r' = QFinished
    | QsPanic _ => False
    end).
  { intros r3 Q3 Hq Hi Hp Hb Hx. pose proof Q3 as (((A1 & A2) & B1 & B2) & C1 & C2).
    destruct (find_line_spec (qbuf r3) (pqual r3) C2) as [E|(x & E & X1 & X2)]; rewrite E in Hx.
    - inversion Hx; subst. splits; try discriminate; auto.
    - set (r4 := if clear then qset_inc (qset_p1 r3 (x - 1)) None else qset_p1 r3 (x - 1)) in *.
      assert (Q4 : OffQual r4 /\ p1 r4 = x - 1 /\ qbuf r4 = qbuf r3 /\ qst r4 = qst r3 /\ p0 r4 = p0 r3 /\
                   (inc r4 = if clear then None else inc r3) /\ pqual r4 = pqual r3).
      { unfold r4. destruct clear; fq_simpl; splits; auto. }
      destruct Q4 as (Q4 & P4 & B4 & S4 & Z4 & I4 & U4).
      destruct (fq_validate r4) as [r5 v] eqn:Ev.
      destruct (fq_validate_sane _ _ _ Ev Q4) as (Np & Hok & Herr); [rewrite P4, U4; lia|rewrite P4, B4; lia|].
      destruct v as [|e|y]; cbn [of_vres] in Hx; inversion Hx; subst.
      + rewrite (Hok eq_refl). splits; try discriminate; try congruence.
        * unfold OffRec. rewrite P4, B4, U4. splits; auto; lia.
        * rewrite I4, Hi. reflexivity.
      + rewrite (Herr e eq_refl). splits; try discriminate; auto. fq_simpl. congruence.
      + exfalso. apply (Np y). reflexivity. }
  assert (Hsep : forall r2, OffSep r2 -> qst r2 = qst r -> inc r2 = inc r -> p0 r2 = p0 r -> qbuf r2 = qbuf r ->
    match fq_find_line (qbuf r2) (psep r2) with
    | None => (r2, QsPanic 23)
    | Some None => (qset_inc r2 (Some Sep), QsIncomplete Sep)
    | Some (Some x) =>
        match fq_find_line (qbuf (qset_qual r2 x)) (pqual (qset_qual r2 x)) with
        | None => (qset_qual r2 x, QsPanic 24)
        | Some None => (qset_inc (qset_qual r2 x) (Some Qual), QsIncomplete Qual)
        | Some (Some y) => of_vres (fq_validate (if clear then qset_inc (qset_p1 (qset_qual r2 x) (y - 1)) None
                                                  else qset_p1 (qset_qual r2 x) (y - 1)))
        end
    end = (r', sr) ->
    (forall x, sr <> QsPanic x) /\ qbuf r' = qbuf r /\
    match sr with
    | QsRec => OffRec r' /\ qst r' = qst r /\ inc r' = (if clear then None else inc r) /\ p0 r' = p0 r
    | QsIncomplete s => StageOk s r' /\ qst r' = qst r /\ inc r' = Some s /\ p0 r' = p0 r
    | QsErr _ => qst r' = QFinished
    | QsPanic _ => False
    end).
  { intros r2 Q2 Hq Hi Hp Hb Hx. pose proof Q2 as ((A1 & A2) & B1 & B2).
    destruct (find_line_spec (qbuf r2) (psep r2) B2) as [E|(x & E & X1 & X2)]; rewrite E in Hx.
    - inversion Hx; subst. splits; try discriminate; auto.
    - apply (Hlast (qset_qual r2 x)); auto. unfold OffQual, OffSep, OffSeq. fq_simpl. splits; auto. }
  assert (Hseq : forall r1, OffSeq r1 -> qst r1 = qst r -> inc r1 = inc r -> p0 r1 = p0 r -> qbuf r1 = qbuf r ->
    match fq_find_line (qbuf r1) (pseq r1) with
    | None => (r1, QsPanic 22)
    | Some None => (qset_inc r1 (Some Seq), QsIncomplete Seq)
    | Some (Some w) =>
      match fq_find_line (qbuf (qset_sep r1 w)) (psep (qset_sep r1 w)) with
      | None => (qset_sep r1 w, QsPanic 23)
      | Some None => (qset_inc (qset_sep r1 w) (Some Sep), QsIncomplete Sep)
      | Some (Some x) =>
        match fq_find_line (qbuf (qset_qual (qset_sep r1 w) x)) (pqual (qset_qual (qset_sep r1 w) x)) with
        | None => (qset_qual (qset_sep r1 w) x, QsPanic 24)
        | Some None => (qset_inc (qset_qual (qset_sep r1 w) x) (Some Qual), QsIncomplete Qual)
        | Some (Some y) => of_vres (fq_validate (if clear then qset_inc (qset_p1 (qset_qual (qset_sep r1 w) x) (y - 1)) None
                                                  else qset_p1 (qset_qual (qset_sep r1 w) x) (y - 1)))
        end
      end
    end = (r', sr) ->
    (forall x, sr <> QsPanic x) /\ qbuf r' = qbuf r /\
    match sr with
    | QsRec => OffRec r' /\ qst r' = qst r /\ inc r' = (if clear then None else inc r) /\ p0 r' = p0 r
    | QsIncomplete s => StageOk s r' /\ qst r' = qst r /\ inc r' = Some s /\ p0 r' = p0 r
    | QsErr _ => qst r' = QFinished
    | QsPanic _ => False
    end).
  { intros r1 Q1 Hq Hi Hp Hb Hx. pose proof Q1 as (A1 & A2).
    destruct (find_line_spec (qbuf r1) (pseq r1) A2) as [E|(w & E & X1 & X2)]; rewrite E in Hx.
    - inversion Hx; subst. splits; try discriminate; auto.
    - apply (Hsep (qset_sep r1 w)); auto. unfold OffSep, OffSeq. fq_simpl. splits; auto. }
  unfold fq_search_from in H.
  destruct from; cbn [stage_leb stage_num Nat.leb StageOk] in *.
  - pose proof S as S0. unfold OffHead in S0.
    destruct (find_line_spec (qbuf r) (p0 r) S0) as [E|(v & E & X1 & X2)]; rewrite E in H.
    + inversion H; subst. splits; try discriminate; auto.
    + apply (Hseq (qset_seq r v)); auto. unfold OffSeq. fq_simpl. auto.
  - apply (Hseq r); auto.
  - apply (Hsep r); auto.
  - apply (Hlast r); auto.
Qed.

Ltac mr_norm := cbv beta iota zeta; cbn [pseq psep pqual qset_p0 qset_buf qset_seq qset_sep qset_qual].

Lemma fq_make_room_sane s r r' g : fq_make_room s r = (r', g) -> StageOk s r ->
  g = QGOk /\ StageOk s r' /\ p0 r' = 0 /\ qst r' = qst r /\ inc r' = inc r.
Proof.
  intros H S. revert H. unfold fq_make_room.
  destruct s; cbv beta iota zeta delta [stage_leb stage_num Nat.leb]; mr_norm; cbn [StageOk] in S.
  - intros H; inversion H; subst. unfold StageOk, OffHead. fq_simpl. splits; auto. lia.
  - destruct S as (A1 & A2).
    assert (E1 : (pseq r <? p0 r) = false) by (apply Nat.ltb_ge; lia).
    rewrite E1. mr_norm. intros H; inversion H; subst. unfold StageOk, OffSeq. fq_simpl.
    rewrite skipn_length. splits; auto; lia.
  - destruct S as ((A1 & A2) & B1 & B2).
    assert (E1 : (pseq r <? p0 r) = false) by (apply Nat.ltb_ge; lia).
    assert (E2 : (psep r <? p0 r) = false) by (apply Nat.ltb_ge; lia).
    rewrite E1. mr_norm. rewrite E2. mr_norm. intros H; inversion H; subst.
    unfold StageOk, OffSep, OffSeq. fq_simpl. rewrite skipn_length. splits; auto; lia.
  - destruct S as (((A1 & A2) & B1 & B2) & C1 & C2).
    assert (E1 : (pseq r <? p0 r) = false) by (apply Nat.ltb_ge; lia).
    assert (E2 : (psep r <? p0 r) = false) by (apply Nat.ltb_ge; lia).
    assert (E3 : (pqual r <? p0 r) = false) by (apply Nat.ltb_ge; lia).
    rewrite E1. mr_norm. rewrite E2. mr_norm. rewrite E3. mr_norm. intros H; inversion H; subst.
    unfold StageOk, OffQual, OffSep, OffSeq. fq_simpl. rewrite skipn_length. splits; auto; lia.
Qed.

Lemma fq_grow_sane s r r' g : fq_grow r = (r', g) -> StageOk s r ->
  StageOk s r' /\ qst r' = qst r /\ inc r' = inc r /\ (forall x, g <> QGPanic x).
Proof.
  intros H S.
  destruct (fq_grow_run false _ _ _ H (no_ex' _)) as (_ & Hst & A & _ & B & C & D & Hi & Hb & _).
  splits; auto.
  - eapply StageOk_ext; [| | | | |exact S]; auto. rewrite Hb. lia.
  - intros x ->. unfold fq_grow in H.
    destruct (qpolf r (qpolh r) (qcap r)) as [n|]; [destruct (n <=? qcap r)|]; inversion H.
Qed.

Lemma fq_fill_sane_stage ffuel s r r' fr : fq_fill ffuel r = (r', fr) -> StageOk s r ->
  StageOk s r' /\ qst r' = qst r /\ inc r' = inc r.
Proof.
  intros H S.
  destruct (fq_fill_run false _ _ _ _ H) as (_ & _ & Hst & A & _ & B & C & D & Hi & _ & _ & (ap & Hb) & _).
  splits; auto. eapply StageOk_ext; [| | | | |exact S]; auto. rewrite Hb, app_length. lia.
Qed.

(** [check_end] (called with the state flag already [Finished]) never panics and leaves the reader finished *)
Lemma fq_check_end_sane s r r' rr : fq_check_end s r = (r', rr) -> StageOk s r -> qst r = QFinished ->
  qst r' = QFinished /\ (forall x, rr <> QrPanic x) /\ (rr = QrOk true -> p0 r' <= p1 r' + 1).
Proof.
  intros H S Hq. unfold fq_check_end in H.
  assert (Hother : s <> Qual ->
    (if length (qbuf r) <? p0 r then (r, QrPanic 41)
     else if forallb (fun l => match trim_cr l with [] => true | _ => false end) (pieces (skipn (p0 r) (qbuf r)))
          then (r, QrOk false)
          else match fq_error_pos r (stage_num s) (negb (stage_leb s Head)) with
               | Some (l, id) => (r, QrErr (FqUnexpectedEnd l id))
               | None => (r, QrPanic 42)
               end) = (r', rr) -> qst r' = QFinished /\ (forall x, rr <> QrPanic x) /\ (rr = QrOk true -> p0 r' <= p1 r' + 1)).
  { intros Hs Hx. pose proof (StageOk_head _ _ S) as S0. unfold OffHead in S0.
    assert (E : (length (qbuf r) <? p0 r) = false) by (apply Nat.ltb_ge; exact S0). rewrite E in Hx.
    destruct (forallb _ _); [inversion Hx; subst; splits; [exact Hq|discriminate|discriminate]|].
    destruct (error_pos_some r (stage_num s) (negb (stage_leb s Head))) as (l & id & Hep).
    { intros Hp. destruct s; cbn in Hp; try discriminate; cbn [StageOk] in S.
      - exact S.
      - apply S.
      - congruence. }
    rewrite Hep in Hx. inversion Hx; subst. splits; [exact Hq|discriminate|discriminate]. }
  destruct s; try (apply Hother; [discriminate|exact H]).
  cbn [StageOk] in S.
  destruct (fq_validate (qset_p1 r (length (qbuf r)))) as [r1 v] eqn:Ev.
  destruct (fq_validate_sane _ _ _ Ev) as (Np & Hok & Herr).
  { exact S. }
  { fq_simpl. destruct S as (_ & _ & C2). exact C2. }
  { fq_simpl. lia. }
  destruct v as [|e|x]; inversion H; subst.
  - rewrite (Hok eq_refl). splits; [exact Hq|discriminate|]. intros _. fq_simpl.
    destruct S as (((A1 & A2) & B1 & B2) & C1 & C2). lia.
  - rewrite (Herr e eq_refl). splits; [reflexivity|discriminate|discriminate].
  - exfalso. apply (Np x). reflexivity.
Qed.

(** what [resume] leaves behind when it does not deliver a record *)
Definition Pending (s0 : stage) (i0 : option stage) (q0 : fq_state) (r' : fq) : Prop :=
  qst r' = QFinished \/
  (qst r' = q0 /\ ((inc r' = i0 /\ StageOk s0 r') \/ exists s', inc r' = Some s' /\ StageOk s' r')).

Lemma fq_resume_sane ffuel mk : forall fuel s r r' res, fq_resume fuel ffuel s mk r = (r', res) ->
  StageOk s r ->
  (forall x, res <> QrPanic x) /\
  match res with
  | QrOk true => p0 r' <= p1 r' + 1 /\ (qst r' = QFinished \/ (OffRec r' /\ qst r' = qst r /\ inc r' = None))
  | QrOk false => qst r' = QFinished
  | _ => Pending s (inc r) (qst r) r'
  end.
Proof.
  induction fuel as [|f IH]; intros s r r' res H S; cbn [fq_resume] in H.
  { inversion H; subst. split; [discriminate|]. right. split; [reflexivity|]. left. auto. }
  destruct (length (qbuf r) <? qcap r).
  { destruct (fq_check_end_sane _ _ _ _ H) as (Hq & Np & Hp); [exact S|reflexivity|].
    split; [exact Np|]. destruct res as [[|]|e|x|]; auto; try (left; exact Hq). }
  destruct (if negb mk || (p0 r =? 0) then fq_grow r else fq_make_room s r) as [r1 g] eqn:E1.
  assert (H1 : StageOk s r1 /\ qst r1 = qst r /\ inc r1 = inc r /\ (forall x, g <> QGPanic x)).
  { destruct (negb mk || (p0 r =? 0)).
    - apply (fq_grow_sane _ _ _ _ E1 S).
    - destruct (fq_make_room_sane _ _ _ _ E1 S) as (-> & A & _ & B & C). splits; auto. discriminate. }
  destruct H1 as (S1 & Hq1 & Hi1 & Np1).
  assert (P1 : Pending s (inc r) (qst r) r1) by (right; split; [exact Hq1|left; auto]).
  destruct g as [|e|x]; [|inversion H; subst; split; [discriminate|exact P1]|exfalso; apply (Np1 x); reflexivity].
  destruct (fq_fill ffuel r1) as [r2 fr] eqn:E2.
  destruct (fq_fill_sane_stage _ _ _ _ _ E2 S1) as (S2 & Hq2 & Hi2).
  assert (P2 : Pending s (inc r) (qst r) r2) by (right; split; [congruence|left; split; [congruence|exact S2]]).
  destruct fr as [n|k|]; [|inversion H; subst; split; [discriminate|left; reflexivity]
                          |inversion H; subst; split; [discriminate|exact P2]].
  destruct (fq_search_from s true r2) as [r3 sr] eqn:E3.
  destruct (fq_search_from_sane _ _ _ _ _ E3 S2) as (Np3 & Hb3 & Hsr).
  destruct sr as [|s'|e|x].
  - inversion H; subst. split; [discriminate|]. destruct Hsr as (A & B & C & _). split.
    { destruct A as ((((a1 & a2) & b1 & b2) & c1 & c2) & d1 & d2). lia. }
    right. splits; auto. congruence.
  - destruct Hsr as (A & B & C & _).
    destruct (IH _ _ _ _ H A) as (Np & Hres). split; [exact Np|].
    destruct res as [[|]|e|x|]; auto.
    + destruct Hres as [Hp [Hf|(X & Y & Z)]]; (split; [exact Hp|]); [left; exact Hf|right; splits; auto; congruence].
    + destruct Hres as [Hf|(X & Y)]; [left; exact Hf|right]. split; [congruence|]. right.
      destruct Y as [(Y1 & Y2)|(s2 & Y1 & Y2)]; [exists s'; split; [congruence|exact Y2]|exists s2; auto].
    + destruct Hres as [Hf|(X & Y)]; [left; exact Hf|right]. split; [congruence|]. right.
      destruct Y as [(Y1 & Y2)|(s2 & Y1 & Y2)]; [exists s'; split; [congruence|exact Y2]|exists s2; auto].
    + destruct Hres as [Hf|(X & Y)]; [left; exact Hf|right]. split; [congruence|]. right.
      destruct Y as [(Y1 & Y2)|(s2 & Y1 & Y2)]; [exists s'; split; [congruence|exact Y2]|exists s2; auto].
  - inversion H; subst. split; [discriminate|]. left. exact Hsr.
  - exfalso. apply (Np3 x). reflexivity.
Qed.

(* ------------------------------------------------------------------ *)
(** * the entry points *)

(** what the common tail of [next] and the record-set loop need *)
Definition TailOk (r : fq) : Prop := match inc r with Some s => StageOk s r | None => OffHead r end.

Lemma Pending_sane_parsing s r' : Pending s (Some s) QParsing r' -> FqSane r'.
Proof.
  intros [Hf|(Hq & [(Hi & S)|(s' & Hi & S)])]; unfold FqSane; [rewrite Hf; exact I| |]; rewrite Hq, Hi; exact S.
Qed.

Lemma Pending_sane_positioned s r' : Pending s None QPositioned r' -> FqSane r'.
Proof.
  intros [Hf|(Hq & [(Hi & S)|(s' & Hi & S)])]; unfold FqSane; [rewrite Hf; exact I| |]; rewrite Hq, Hi;
    [apply (StageOk_head _ _ S)|exact S].
Qed.

Lemma fq_next_tail_sane fuel ffuel r r' o : fq_next_tail fuel ffuel r = (r', o) ->
  TailOk r -> qst r = QParsing -> FqSane r' /\ (forall x, o <> QOPanic x).
Proof.
  unfold fq_next_tail. intros H T Hq.
  (* the resume part, from a state with a pending stage *)
  assert (Hres : forall r1 s, inc r1 = Some s -> StageOk s r1 -> qst r1 = QParsing ->
     (let '(r2, rr) := fq_resume fuel ffuel s true r1 in
      match rr with
      | QrErr e => (r2, QOErr e)
      | QrPanic x => (r2, QOPanic x)
      | QrFuel => (r2, QOFuel)
      | QrOk false => (r2, QONone)
      | QrOk true => (r2, QORec (fq_cur r2))
      end) = (r', o) -> FqSane r' /\ (forall x, o <> QOPanic x)).
  { intros r1 s Hi S1 Hq1 Hx. destruct (fq_resume fuel ffuel s true r1) as [r2 rr] eqn:E2.
    destruct (fq_resume_sane _ _ _ _ _ _ _ E2 S1) as (Np & Hr). rewrite Hi, Hq1 in Hr.
    destruct rr as [[|]|e|x|]; inversion Hx; subst; (split; [|discriminate || idtac]).
    - destruct Hr as (_ & [Hf|(A & B & C)]); unfold FqSane; [rewrite Hf; exact I|rewrite B, C; exact A].
    - unfold FqSane. rewrite Hr. exact I.
    - apply (Pending_sane_parsing _ _ Hr).
    - apply (Pending_sane_parsing _ _ Hr).
    - intros y Hy. apply (Np x). reflexivity.
    - apply (Pending_sane_parsing _ _ Hr). }
  unfold TailOk in T. destruct (inc r) as [s0|] eqn:Ei.
  - (* a search is pending *)
    rewrite Ei in H. apply (Hres r s0 Ei T Hq H).
  - destruct (fq_search_from Head false r) as [r1 sr] eqn:E1.
    destruct (fq_search_from_sane _ _ _ _ _ E1 T) as (Np & _ & Hsr).
    destruct sr as [|s|e|x].
    + destruct Hsr as (A & B & C & _). rewrite Ei in C. rewrite C in H. inversion H; subst.
      split; [|discriminate]. unfold FqSane. rewrite B, Hq, C. exact A.
    + destruct Hsr as (A & B & C & _). rewrite C in H. apply (Hres r1 s C A); [congruence|exact H].
    + inversion H; subst. split; [|discriminate]. unfold FqSane. rewrite Hsr. exact I.
    + exfalso. apply (Np x). reflexivity.
Qed.

Lemma fq_init_sane ffuel r r' res : fq_init ffuel r = (r', res) -> FqSane r -> qst r = QNew ->
  match res with
  | QIOk true => inc r' = None /\ OffHead r' /\ qst r' = QNew
  | _ => FqSane r'
  end.
Proof.
  unfold fq_init. intros H S Hq. unfold FqSane in S. rewrite Hq in S. destruct S as [Hi S0].
  destruct (fq_fill ffuel r) as [r1 fr] eqn:E1.
  destruct (fq_fill_sane_stage _ Head _ _ _ E1 S0) as (S1 & Hq1 & Hi1).
  assert (Sane1 : FqSane r1) by (unfold FqSane; rewrite Hq1, Hq, Hi1, Hi; auto).
  destruct fr as [[|n]|k|]; inversion H; subst; auto.
  - unfold FqSane. fq_simpl. exact I.
  - splits; congruence || exact S1.
Qed.

Lemma fq_increment_sane r : OffRec r -> exists r', fq_increment r = Some r' /\ OffHead r' /\ inc r' = inc r /\ qst r' = qst r.
Proof.
  intros ((((a1 & a2) & b1 & b2) & c1 & c2) & d1 & d2). unfold fq_increment.
  assert (E : (p1 r + 1 <? p0 r) = false) by (apply Nat.ltb_ge; lia). rewrite E.
  eexists. split; [reflexivity|]. unfold OffHead. fq_simpl. auto.
Qed.

Theorem fq_next_sane fuel ffuel r r' o : fq_next fuel ffuel r = (r', o) -> FqSane r ->
  FqSane r' /\ (forall x, o <> QOPanic x).
Proof.
  unfold fq_next. intros H S. destruct (qst r) eqn:Eq.
  - destruct (fq_init ffuel r) as [r1 ir] eqn:E1. pose proof (fq_init_sane _ _ _ _ E1 S Eq) as Hi.
    destruct ir as [[|]|e|]; try (inversion H; subst; split; [exact Hi|discriminate]).
    destruct Hi as (Hi & S1 & _).
    apply (fq_next_tail_sane fuel ffuel (qset_st r1 QParsing) _ _ H); [|reflexivity].
    unfold TailOk. fq_simpl. rewrite Hi. exact S1.
  - unfold FqSane in S. rewrite Eq in S. destruct (inc r) as [s|] eqn:Ei.
    + apply (fq_next_tail_sane _ _ _ _ _ H); [unfold TailOk; rewrite Ei; exact S|exact Eq].
    + destruct (fq_increment_sane r S) as (r1 & E1 & S1 & Hi1 & Hq1). rewrite E1 in H.
      apply (fq_next_tail_sane _ _ _ _ _ H); [unfold TailOk; rewrite Hi1, Ei; exact S1|congruence].
  - unfold FqSane in S. rewrite Eq in S.
    apply (fq_next_tail_sane fuel ffuel (qset_st r QParsing) _ _ H); [|reflexivity]. exact S.
  - inversion H; subst. split; [unfold FqSane; rewrite Eq; exact I|discriminate].
Qed.

(** the state at the head of each iteration of the record-set loop *)
Definition LoopOk (r : fq) : Prop := qst r = QFinished \/ (qst r = QPositioned /\ TailOk r).

Lemma LoopOk_sane r : LoopOk r -> FqSane r.
Proof. intros [Hf|[Hq T]]; unfold FqSane; [rewrite Hf; exact I|rewrite Hq; exact T]. Qed.

Lemma fq_set_loop_sane rfuel ffuel : forall fuel n is_new r ps r' ps' res,
  fq_set_loop fuel rfuel ffuel n is_new r ps = (r', ps', res) -> LoopOk r ->
  FqSane r' /\ (forall x, res <> QLPanic x).
Proof.
  induction fuel as [|f IH]; intros n is_new r ps r' ps' res H L; cbn [fq_set_loop] in H.
  { inversion H; subst. split; [apply LoopOk_sane; exact L|discriminate]. }
  destruct (fq_state_eqb (qst r) QFinished) eqn:Ef.
  { inversion H; subst. split; [apply LoopOk_sane; exact L|discriminate]. }
  destruct L as [Hf|[Hq T]]; [rewrite Hf in Ef; discriminate|].
  assert (Hfound : forall r2, p0 r2 <= p1 r2 + 1 ->
     (qst r2 = QFinished \/ (OffRec r2 /\ qst r2 = QPositioned /\ inc r2 = None)) ->
     (let ps2 := ps ++ [fq_bp r2] in
      match fq_increment r2 with
      | None => (r2, ps2, QLPanic 3)
      | Some r4 => if reached n (length ps2) then (r4, ps2, QLDone)
                   else fq_set_loop f rfuel ffuel n is_new r4 ps2
      end) = (r', ps', res) -> FqSane r' /\ (forall x, res <> QLPanic x)).
  { intros r2 Hp Hc Hx. cbv zeta in Hx. unfold fq_increment in Hx.
    assert (E : (p1 r2 + 1 <? p0 r2) = false) by (apply Nat.ltb_ge; lia). rewrite E in Hx.
    match type of Hx with (if _ then (?R, _, _) else _) = _ => set (r4 := R) in * end.
    assert (L4 : LoopOk r4).
    { destruct Hc as [Hf|(A & B & C)]; [left; unfold r4; fq_simpl; exact Hf|right].
      unfold r4, TailOk, OffHead. fq_simpl. rewrite C. split; [exact B|].
      destruct A as (_ & _ & d2). exact d2. }
    destruct (reached n (length (ps ++ [fq_bp r2]))).
    - inversion Hx; subst. split; [apply LoopOk_sane; exact L4|discriminate].
    - apply (IH _ _ _ _ _ _ _ Hx L4). }
  unfold TailOk in T. destruct (inc r) as [s|] eqn:Ei.
  - destruct (fq_resume rfuel ffuel s is_new (qset_inc r None)) as [r1 rr] eqn:E1.
    assert (S0 : StageOk s (qset_inc r None)) by (eapply StageOk_ext; [| | | | |exact T]; reflexivity || auto).
    destruct (fq_resume_sane _ _ _ _ _ _ _ E1 S0) as (Np & Hr). cbn [inc qst qset_inc] in Hr. rewrite Hq in Hr.
    destruct rr as [[|]|e|x|].
    + destruct Hr as (Hp & Hc). apply (Hfound r1 Hp Hc H).
    + assert (Sr : FqSane r1) by (unfold FqSane; rewrite Hr; exact I).
      destruct ps; inversion H; subst; (split; [exact Sr|discriminate]).
    + inversion H; subst. split; [apply (Pending_sane_positioned _ _ Hr)|discriminate].
    + exfalso. apply (Np x). reflexivity.
    + inversion H; subst. split; [apply (Pending_sane_positioned _ _ Hr)|discriminate].
  - destruct (fq_search_from Head false r) as [r1 sr] eqn:E1.
    destruct (fq_search_from_sane _ _ _ _ _ E1 T) as (Np & _ & Hsr).
    destruct sr as [|s|e|x].
    + destruct Hsr as (A & B & C & _). apply (Hfound r1); [| |exact H].
      * destruct A as ((((a1 & a2) & b1 & b2) & c1 & c2) & d1 & d2). lia.
      * right. splits; auto; congruence.
    + destruct Hsr as (A & B & C & _).
      assert (L1 : LoopOk r1) by (right; split; [congruence|unfold TailOk; rewrite C; exact A]).
      destruct ps as [|p ps0]; [apply (IH _ _ _ _ _ _ _ H L1)|].
      destruct (below n (length (p :: ps0))); [apply (IH _ _ _ _ _ _ _ H L1)|].
      inversion H; subst. split; [apply LoopOk_sane; exact L1|discriminate].
    + inversion H; subst. split; [unfold FqSane; rewrite Hsr; exact I|discriminate].
    + exfalso. apply (Np x). reflexivity.
Qed.

Theorem fq_read_set_sane fuel ffuel n r rs r' rs' o : fq_read_set fuel ffuel n r rs = (r', rs', o) -> FqSane r ->
  FqSane r' /\ (forall x, o <> QOPanic x).
Proof.
  unfold fq_read_set. intros H S.
  assert (Hgo : forall r0, LoopOk r0 ->
     (let '(r1, ps, lr) := fq_set_loop fuel fuel ffuel n true r0 [] in
      match lr with
      | QLDone => (r1, mkFqSet (qbuf r1) ps, QOSetOk)
      | QLErr e => (r1, mkFqSet (qsbuf rs) [], QOErr e)
      | QLPanic x => (r1, mkFqSet (qsbuf rs) ps, QOPanic x)
      | QLFuel => (r1, mkFqSet (qsbuf rs) ps, QOFuel)
      | QLNone => (r1, mkFqSet (qsbuf rs) ps, QONone)
      end) = (r', rs', o) -> FqSane r' /\ (forall x, o <> QOPanic x)).
  { intros r0 L0 Hx.
    destruct (fq_set_loop fuel fuel ffuel n true r0 []) as [[r1 ps1] lr] eqn:E.
    destruct (fq_set_loop_sane _ _ _ _ _ _ _ _ _ _ E L0) as [S1 Np].
    destruct lr as [|e|x| |]; inversion Hx; subst; split; auto; try discriminate.
    exfalso. apply (Np x). reflexivity. }
  destruct (qst r) eqn:Eq.
  - destruct (fq_init ffuel r) as [r1 ir] eqn:E1. pose proof (fq_init_sane _ _ _ _ E1 S Eq) as Hi.
    destruct ir as [[|]|e|]; try (inversion H; subst; split; [exact Hi|discriminate]).
    destruct Hi as (Hi & S1 & _).
    apply (Hgo (qset_st r1 QPositioned)); [|exact H]. right. split; [reflexivity|].
    unfold TailOk. fq_simpl. rewrite Hi. exact S1.
  - unfold FqSane in S. rewrite Eq in S. destruct (inc r) as [s|] eqn:Ei.
    + apply (Hgo (qset_st r QPositioned)); [|exact H]. right. split; [reflexivity|].
      unfold TailOk. fq_simpl. rewrite Ei. exact S.
    + destruct (fq_increment_sane r S) as (r1 & E1 & S1 & Hi1 & Hq1). rewrite E1 in H.
      apply (Hgo (qset_st r1 QPositioned)); [|exact H]. right. split; [reflexivity|].
      unfold TailOk. fq_simpl. rewrite Hi1, Ei. exact S1.
  - unfold FqSane in S. rewrite Eq in S. apply (Hgo r); [|exact H]. right. split; [exact Eq|exact S].
  - inversion H; subst. split; [unfold FqSane; rewrite Eq; exact I|discriminate].
Qed.

Theorem fq_seek_sane ffuel r line byte_ r' o : fq_seek ffuel r line byte_ = (r', o) -> FqSane r ->
  FqSane r' /\ (forall x, o <> QOPanic x).
Proof.
  unfold fq_seek. intros H S.
  destruct ((0 <=? Z.of_nat (p0 r) + (Z.of_nat byte_ - Z.of_nat (qbyte r)))%Z &&
            (Z.of_nat (p0 r) + (Z.of_nat byte_ - Z.of_nat (qbyte r)) <? Z.of_nat (length (qbuf r)))%Z && negb (fq_state_eqb (qst r) QNew)) eqn:Ec.
  { apply andb_true_iff in Ec. destruct Ec as [Ec _].
    apply andb_true_iff in Ec. destruct Ec as [E1 E2]. apply Z.leb_le in E1. apply Z.ltb_lt in E2.
    inversion H; subst. split; [|discriminate]. unfold FqSane, OffHead. fq_simpl. lia. }
  destruct (src_seek (qsrc r) byte_) as [s' res] eqn:Es.
  destruct res as [k|].
  { inversion H; subst. split; [exact S|discriminate]. }
  match type of H with (let '(r1, fr) := fq_fill ffuel ?R in _) = _ => set (r0 := R) in * end.
  assert (S0 : StageOk Head r0) by (unfold r0, StageOk, OffHead; fq_simpl; cbn [length]; lia).
  destruct (fq_fill ffuel r0) as [r1 fr] eqn:E1.
  destruct (fq_fill_sane_stage _ _ _ _ _ E1 S0) as (S1 & Hq1 & Hi1).
  assert (Sane1 : FqSane r1).
  { unfold FqSane. rewrite Hq1, Hi1. unfold r0. fq_simpl. exact S1. }
  destruct fr; inversion H; subst; split; auto; try discriminate.
  unfold FqSane. fq_simpl. exact I.
Qed.

Lemma fq_set_policy_sane r p : FqSane r -> FqSane (fq_set_policy r p).
Proof. intros S. exact S. Qed.

(** ** summary (FASTQ) *)
Theorem fq_sane_preserved :
  (forall c s p, FqSane (fq_new c s p)) /\
  (forall fuel ffuel r r' o, fq_next fuel ffuel r = (r', o) -> FqSane r -> FqSane r') /\
  (forall fuel ffuel n r rs r' rs' o, fq_read_set fuel ffuel n r rs = (r', rs', o) -> FqSane r -> FqSane r') /\
  (forall ffuel r line byte_ r' o, fq_seek ffuel r line byte_ = (r', o) -> FqSane r -> FqSane r') /\
  (forall r p, FqSane r -> FqSane (fq_set_policy r p)).
Proof.
  splits.
  - apply fq_new_sane.
  - intros fuel ffuel r r' o H S. apply (fq_next_sane _ _ _ _ _ H S).
  - intros fuel ffuel n r rs r' rs' o H S. apply (fq_read_set_sane _ _ _ _ _ _ _ _ H S).
  - intros ffuel r line byte_ r' o H S. apply (fq_seek_sane _ _ _ _ _ _ H S).
  - intros r p S. exact S.
Qed.

Theorem fq_sane_no_panic :
  (forall fuel ffuel r x, FqSane r -> snd (fq_next fuel ffuel r) <> QOPanic x) /\
  (forall fuel ffuel n r rs x, FqSane r -> snd (fq_read_set fuel ffuel n r rs) <> QOPanic x) /\
  (forall ffuel r line byte_ x, FqSane r -> snd (fq_seek ffuel r line byte_) <> QOPanic x).
Proof.
  splits.
  - intros fuel ffuel r x S. destruct (fq_next fuel ffuel r) as [r' o] eqn:E. apply (fq_next_sane _ _ _ _ _ E S).
  - intros fuel ffuel n r rs x S. destruct (fq_read_set fuel ffuel n r rs) as [[r' rs'] o] eqn:E.
    apply (fq_read_set_sane _ _ _ _ _ _ _ _ E S).
  - intros ffuel r line byte_ x S. destruct (fq_seek ffuel r line byte_) as [r' o] eqn:E.
    apply (fq_seek_sane _ _ _ _ _ _ E S).
Qed.
