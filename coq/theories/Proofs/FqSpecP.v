(** Facts about the whole-input FASTQ specification [fq_spec] and the FASTQ
    writers: line cutting, fuel independence, the four-line step, writer
    round trip (C11), LF/CRLF renderings (C12), Spec-level facts of C02. *)
From SeqIO Require Import Model.Base Gen.WriteGen Model.Views Spec.FastaSpec Spec.FastqSpec.

(* ------------------------------------------------------------------ *)
(** * trim_cr *)

Lemma trim_cr_cons a r : r <> [] -> trim_cr (a :: r) = a :: trim_cr r.
Proof. destruct r; [congruence | reflexivity]. Qed.

Lemma trim_cr_snoc l c : trim_cr (l ++ [c]) = if c =? CR then l else l ++ [c].
Proof.
  induction l as [|a l IH].
  - reflexivity.
  - change ((a :: l) ++ [c]) with (a :: (l ++ [c])).
    rewrite trim_cr_cons by (destruct l; discriminate).
    rewrite IH. destruct (c =? CR); reflexivity.
Qed.

(** a line "ends in CR" *)
Definition ends_cr (l : list byte) : Prop := exists l', l = l' ++ [CR].

Lemma trim_cr_app_cr l : trim_cr (l ++ [CR]) = l.
Proof. rewrite trim_cr_snoc. reflexivity. Qed.

Lemma ends_cr_cases l :
  (ends_cr l /\ length l = S (length (trim_cr l))) \/ (~ ends_cr l /\ trim_cr l = l).
Proof.
  induction l as [|c l _] using rev_ind.
  - right. split; [intros [l' H]; destruct l'; discriminate | reflexivity].
  - rewrite trim_cr_snoc. destruct (c =? CR) eqn:E.
    + apply Nat.eqb_eq in E. subst c. left.
      split; [exists l; reflexivity | rewrite app_length; cbn [length]; lia].
    + right. split; [|reflexivity]. intros [l' H].
      apply app_inj_tail in H. destruct H as [_ H]. subst c.
      rewrite Nat.eqb_refl in E. discriminate.
Qed.

Lemma trim_cr_id l : ~ ends_cr l -> trim_cr l = l.
Proof. intros H. destruct (ends_cr_cases l) as [[H1 _]|[_ H1]]; [contradiction | exact H1]. Qed.

Lemma nocr_not_ends l : ~ In CR l -> ~ ends_cr l.
Proof. intros H [l' ->]. apply H. apply in_or_app. right. left. reflexivity. Qed.

Lemma not_ends_of_neq l : (forall l', l <> l' ++ [CR]) -> ~ ends_cr l.
Proof. intros H [l' E]. exact (H l' E). Qed.

Lemma trim_cr_nocr l : ~ In CR l -> trim_cr l = l.
Proof. intros H. apply trim_cr_id, nocr_not_ends, H. Qed.

(* ------------------------------------------------------------------ *)
(** * cut_line, count_lf *)

Lemma cut_line_app l r : ~ In LF l -> cut_line (l ++ LF :: r) = Some (l, r).
Proof.
  induction l as [|c l IH]; intros H.
  - reflexivity.
  - cbn [app cut_line]. destruct (c =? LF) eqn:E.
    + apply Nat.eqb_eq in E. exfalso. apply H. left. exact E.
    + rewrite IH; [reflexivity|]. intros H1. apply H. right. exact H1.
Qed.

Lemma cut_line_nolf l : ~ In LF l -> cut_line l = None.
Proof.
  induction l as [|c l IH]; intros H.
  - reflexivity.
  - cbn [cut_line]. destruct (c =? LF) eqn:E.
    + apply Nat.eqb_eq in E. exfalso. apply H. left. exact E.
    + rewrite IH; [reflexivity|]. intros H1. apply H. right. exact H1.
Qed.

Lemma cut_line_Some l a b : cut_line l = Some (a, b) -> l = a ++ LF :: b /\ ~ In LF a.
Proof.
  revert a b. induction l as [|c l IH]; intros a b H.
  - discriminate.
  - cbn [cut_line] in H. destruct (c =? LF) eqn:E.
    + apply Nat.eqb_eq in E. inversion H; subst. split; [reflexivity | intros []].
    + destruct (cut_line l) as [[a' b']|]; [|discriminate]. inversion H; subst.
      destruct (IH _ _ eq_refl) as [Hl Hn]. subst l. split; [reflexivity|].
      apply Nat.eqb_neq in E. intros [H1|H1]; [congruence | exact (Hn H1)].
Qed.

Lemma cut_line_None l : cut_line l = None -> ~ In LF l.
Proof.
  induction l as [|c l IH]; intros H.
  - intros [].
  - cbn [cut_line] in H. destruct (c =? LF) eqn:E; [discriminate|].
    destruct (cut_line l) as [[a' b']|]; [discriminate|].
    apply Nat.eqb_neq in E. intros [H1|H1]; [congruence | exact (IH eq_refl H1)].
Qed.

(** every text either has no LF or splits at its first LF *)
Lemma lf_split t : ~ In LF t \/ exists q r, t = q ++ LF :: r /\ ~ In LF q.
Proof.
  destruct (cut_line t) as [[q r]|] eqn:E.
  - right. exists q, r. apply cut_line_Some. exact E.
  - left. apply cut_line_None. exact E.
Qed.

Lemma cut_line_length l a b : cut_line l = Some (a, b) -> length l = length a + S (length b).
Proof.
  intros H. apply cut_line_Some in H. destruct H as [-> _].
  rewrite app_length. reflexivity.
Qed.

Lemma count_lf_app a b : count_lf (a ++ b) = count_lf a + count_lf b.
Proof. unfold count_lf. rewrite filter_app, app_length. reflexivity. Qed.

Lemma count_lf_cons_lf b : count_lf (LF :: b) = S (count_lf b).
Proof. reflexivity. Qed.

Lemma count_lf_nolf l : ~ In LF l -> count_lf l = 0.
Proof.
  induction l as [|c l IH]; intros H; [reflexivity|].
  unfold count_lf. cbn [filter]. destruct (c =? LF) eqn:E.
  - apply Nat.eqb_eq in E. exfalso. apply H. left. exact E.
  - apply IH. intros H1. apply H. right. exact H1.
Qed.

Lemma count_lf_split a b : ~ In LF a -> count_lf (a ++ LF :: b) = S (count_lf b).
Proof. intros H. rewrite count_lf_app, count_lf_cons_lf, (count_lf_nolf a H). reflexivity. Qed.

Lemma hd_app_lf (h x : list byte) : hd LF (h ++ LF :: x) = hd LF (h ++ [LF]).
Proof. destruct h; reflexivity. Qed.

(* ------------------------------------------------------------------ *)
(** * One step of fq_spec *)

Definition fq_step (rec : list byte -> nat -> nat -> list fq_sitem)
           (rest : list byte) (line byte_ : nat) : list fq_sitem :=
  match cut_line rest with
  | None =>
      if forallb blank (pieces rest) then []
      else [QErr (EUnexpectedEnd line None) line byte_]
  | Some (h, r1) =>
      match cut_line r1 with
      | None =>
          if forallb blank (pieces rest) then []
          else [QErr (EUnexpectedEnd (line + 1) (err_id h)) line byte_]
      | Some (s, r2) =>
          match cut_line r2 with
          | None =>
              if forallb blank (pieces rest) then []
              else [QErr (EUnexpectedEnd (line + 2) (err_id h)) line byte_]
          | Some (p, r3) =>
              let '(q, r4, last) :=
                match cut_line r3 with
                | Some (q, r4) => (q, r4, false)
                | None => (r3, [], true)
                end in
              let first := hd LF rest in
              if negb (first =? AT) then [QErr (EInvalidStart first line) line byte_]
              else
                let sepb := hd LF r2 in
                if negb (sepb =? PLUS) then [QErr (EInvalidSep sepb (line + 2) (err_id h)) line byte_]
                else if length (trim_cr s) =? length (trim_cr q) then
                  QRec (mkFqItem (trim_cr (tl h)) (trim_cr s) (trim_cr q) line byte_)
                  :: (if last then []
                      else rec r4 (line + 4)
                               (byte_ + length h + length s + length p + length q + 4))
                else [QErr (EUnequal (length (trim_cr s)) (length (trim_cr q)) line (err_id h)) line byte_]
          end
      end
  end.

Lemma fq_spec_S f rest l b : fq_spec (S f) rest l b = fq_step (fq_spec f) rest l b.
Proof. reflexivity. Qed.

(** ** fuel independence *)
Lemma fq_spec_fuel_eq : forall f1 f2 rest l b,
  length rest < f1 -> length rest < f2 -> fq_spec f1 rest l b = fq_spec f2 rest l b.
Proof.
  induction f1 as [|f1 IH]; intros f2 rest l b H1 H2; [lia|].
  destruct f2 as [|f2]; [lia|].
  rewrite !fq_spec_S. unfold fq_step.
  destruct (cut_line rest) as [[h r1]|] eqn:E1; [|reflexivity].
  destruct (cut_line r1) as [[s r2]|] eqn:E2; [|reflexivity].
  destruct (cut_line r2) as [[p r3]|] eqn:E3; [|reflexivity].
  destruct (cut_line r3) as [[q r4]|] eqn:E4; cbv beta iota zeta; [|reflexivity].
  apply cut_line_length in E1, E2, E3, E4.
  rewrite (IH f2 r4); [reflexivity| |]; lia.
Qed.

Lemma fq_spec_fuel : forall f rest l b,
  S (length rest) <= f -> fq_spec f rest l b = fq_spec (S (length rest)) rest l b.
Proof. intros f rest l b H. apply fq_spec_fuel_eq; lia. Qed.

(** the parse of a text at given coordinates, fuel hidden *)
Definition fq_parse (rest : list byte) (l b : nat) : list fq_sitem :=
  fq_spec (S (length rest)) rest l b.

Lemma fq_spec_all_parse inp : fq_spec_all inp = fq_parse inp 1 0.
Proof. reflexivity. Qed.

Lemma fq_spec_parse f rest l b : length rest < f -> fq_spec f rest l b = fq_parse rest l b.
Proof. intros H. apply fq_spec_fuel. lia. Qed.

(** ** the verdict on a group of four lines *)
Definition fq_verdict (h s p q : list byte) (line byte_ : nat) (cont : list fq_sitem)
  : list fq_sitem :=
  let first := hd LF (h ++ [LF]) in
  if negb (first =? AT) then [QErr (EInvalidStart first line) line byte_]
  else
    let sepb := hd LF (p ++ [LF]) in
    if negb (sepb =? PLUS) then [QErr (EInvalidSep sepb (line + 2) (err_id h)) line byte_]
    else if length (trim_cr s) =? length (trim_cr q) then
      QRec (mkFqItem (trim_cr (tl h)) (trim_cr s) (trim_cr q) line byte_) :: cont
    else [QErr (EUnequal (length (trim_cr s)) (length (trim_cr q)) line (err_id h)) line byte_].

Lemma fq_step_four rec h s p q r4 l b :
  ~ In LF h -> ~ In LF s -> ~ In LF p -> ~ In LF q ->
  fq_step rec (h ++ LF :: s ++ LF :: p ++ LF :: q ++ LF :: r4) l b =
  fq_verdict h s p q l b
    (rec r4 (l + 4) (b + length h + length s + length p + length q + 4)).
Proof.
  intros Hh Hs Hp Hq. unfold fq_step.
  rewrite (cut_line_app h _ Hh). cbv beta iota.
  rewrite (cut_line_app s _ Hs). cbv beta iota.
  rewrite (cut_line_app p _ Hp). cbv beta iota.
  rewrite (cut_line_app q _ Hq). cbv beta iota zeta.
  unfold fq_verdict.
  rewrite (hd_app_lf h (s ++ LF :: p ++ LF :: q ++ LF :: r4)), (hd_app_lf p (q ++ LF :: r4)).
  reflexivity.
Qed.

Lemma fq_step_four_last rec h s p q l b :
  ~ In LF h -> ~ In LF s -> ~ In LF p -> ~ In LF q ->
  fq_step rec (h ++ LF :: s ++ LF :: p ++ LF :: q) l b = fq_verdict h s p q l b [].
Proof.
  intros Hh Hs Hp Hq. unfold fq_step.
  rewrite (cut_line_app h _ Hh). cbv beta iota.
  rewrite (cut_line_app s _ Hs). cbv beta iota.
  rewrite (cut_line_app p _ Hp). cbv beta iota.
  rewrite (cut_line_nolf q Hq). cbv beta iota zeta.
  unfold fq_verdict.
  rewrite (hd_app_lf h (s ++ LF :: p ++ LF :: q)), (hd_app_lf p q).
  reflexivity.
Qed.

Ltac len := repeat (progress (rewrite ?app_length; cbn [length])); lia.

Lemma fq_parse_four h s p q r4 l b :
  ~ In LF h -> ~ In LF s -> ~ In LF p -> ~ In LF q ->
  fq_parse (h ++ LF :: s ++ LF :: p ++ LF :: q ++ LF :: r4) l b =
  fq_verdict h s p q l b
    (fq_parse r4 (l + 4) (b + length h + length s + length p + length q + 4)).
Proof.
  intros Hh Hs Hp Hq. unfold fq_parse at 1.
  rewrite fq_spec_S, fq_step_four by assumption.
  f_equal. apply fq_spec_parse. len.
Qed.

Lemma fq_parse_four_last h s p q l b :
  ~ In LF h -> ~ In LF s -> ~ In LF p -> ~ In LF q ->
  fq_parse (h ++ LF :: s ++ LF :: p ++ LF :: q) l b = fq_verdict h s p q l b [].
Proof.
  intros Hh Hs Hp Hq. unfold fq_parse.
  rewrite fq_spec_S. apply fq_step_four_last; assumption.
Qed.

Lemma fq_verdict_ok h s p q l b cont :
  hd LF (h ++ [LF]) = AT -> hd LF (p ++ [LF]) = PLUS ->
  length (trim_cr s) = length (trim_cr q) ->
  fq_verdict h s p q l b cont =
  QRec (mkFqItem (trim_cr (tl h)) (trim_cr s) (trim_cr q) l b) :: cont.
Proof.
  intros H1 H2 H3. unfold fq_verdict. rewrite H1, H2, H3.
  rewrite !Nat.eqb_refl. reflexivity.
Qed.

Lemma fq_spec_nil f l b : fq_spec f [] l b = [].
Proof. destruct f; reflexivity. Qed.

Lemma fq_parse_nil l b : fq_parse [] l b = [].
Proof. reflexivity. Qed.

(* ------------------------------------------------------------------ *)
(** * Expected items; LF / CRLF renderings of a list of records *)

Definition rec3 := (list byte * list byte * list byte)%type.

(** the items of records laid out from [(line, byte_)]; record [r] occupies [w r] bytes *)
Fixpoint fq_items (w : rec3 -> nat) (rs : list rec3) (line byte_ : nat) : list fq_sitem :=
  match rs with
  | [] => []
  | r :: rest =>
      QRec (mkFqItem (fst (fst r)) (snd (fst r)) (snd r) line byte_)
      :: fq_items w rest (line + 4) (byte_ + w r)
  end.

Definition eol (crlf : bool) : list byte := if crlf then [CR; LF] else [LF].
Definition eolcr (crlf : bool) : list byte := if crlf then [CR] else [].

(** the four lines of a record without the terminator of the fourth *)
Definition body (crlf : bool) (r : rec3) : list byte :=
  let '(h, s, q) := r in AT :: h ++ eol crlf ++ s ++ eol crlf ++ PLUS :: eol crlf ++ q.
Definition rec_text (crlf : bool) (r : rec3) : list byte := body crlf r ++ eol crlf.
Definition full (crlf : bool) (rs : list rec3) : list byte := concat (map (rec_text crlf) rs).
Definition rec_len (crlf : bool) (r : rec3) : nat := length (rec_text crlf r).

(** the rendering: uniform terminator, final terminator present or absent *)
Fixpoint render (crlf final : bool) (rs : list rec3) : list byte :=
  match rs with
  | [] => []
  | r :: rest =>
      body crlf r ++ match rest with
                     | [] => if final then eol crlf else []
                     | _ :: _ => eol crlf ++ render crlf final rest
                     end
  end.

Definition rec_ok (r : rec3) : Prop :=
  let '(h, s, q) := r in
  ~ In LF h /\ ~ In LF s /\ ~ In LF q /\
  ~ ends_cr h /\ ~ ends_cr s /\ ~ ends_cr q /\ length s = length q.

Lemma rec_text_shape crlf h s q Y :
  rec_text crlf (h, s, q) ++ Y =
  (AT :: h ++ eolcr crlf) ++ LF :: (s ++ eolcr crlf) ++ LF :: (PLUS :: eolcr crlf) ++ LF
    :: (q ++ eolcr crlf) ++ LF :: Y.
Proof.
  unfold rec_text, body.
  destruct crlf; cbn [eol eolcr app]; repeat (rewrite <- app_assoc; cbn [app]);
    rewrite ?app_nil_r; reflexivity.
Qed.

Lemma body_shape crlf h s q :
  body crlf (h, s, q) =
  (AT :: h ++ eolcr crlf) ++ LF :: (s ++ eolcr crlf) ++ LF :: (PLUS :: eolcr crlf) ++ LF :: q.
Proof.
  unfold body.
  destruct crlf; cbn [eol eolcr app]; repeat (rewrite <- app_assoc; cbn [app]);
    rewrite ?app_nil_r; reflexivity.
Qed.

Lemma rec_len_eq crlf h s q :
  rec_len crlf (h, s, q) =
  length (AT :: h ++ eolcr crlf) + length (s ++ eolcr crlf) + length (PLUS :: eolcr crlf)
  + length (q ++ eolcr crlf) + 4.
Proof.
  unfold rec_len. rewrite <- (app_nil_r (rec_text crlf (h, s, q))), rec_text_shape. len.
Qed.

Lemma trim_cr_eolcr crlf x : ~ ends_cr x -> trim_cr (x ++ eolcr crlf) = x.
Proof.
  intros H. destruct crlf; cbn [eolcr].
  - apply trim_cr_app_cr.
  - rewrite app_nil_r. apply trim_cr_id, H.
Qed.

Lemma nolf_eolcr crlf x : ~ In LF x -> ~ In LF (x ++ eolcr crlf).
Proof.
  intros H H1. apply in_app_or in H1. destruct H1 as [H1|H1]; [exact (H H1)|].
  destruct crlf; cbn [eolcr] in H1.
  - destruct H1 as [H1|[]]. discriminate.
  - destruct H1.
Qed.

Lemma nolf_cons c x : c <> LF -> ~ In LF x -> ~ In LF (c :: x).
Proof. intros H1 H2 [H|H]; [exact (H1 H) | exact (H2 H)]. Qed.

Lemma at_neq_lf : AT <> LF. Proof. discriminate. Qed.
Lemma plus_neq_lf : PLUS <> LF. Proof. discriminate. Qed.

Lemma nolf_sep crlf : ~ In LF (PLUS :: eolcr crlf).
Proof. apply nolf_cons; [exact plus_neq_lf|]. apply (nolf_eolcr crlf []). intros []. Qed.

Lemma fq_parse_coords X l b l' b' : l = l' -> b = b' -> fq_parse X l b = fq_parse X l' b'.
Proof. intros -> ->. reflexivity. Qed.

(** records with terminators, followed by anything *)
Lemma parse_full_app crlf : forall rs, Forall rec_ok rs -> forall X l b,
  fq_parse (full crlf rs ++ X) l b =
  fq_items (rec_len crlf) rs l b
  ++ fq_parse X (l + 4 * length rs) (b + length (full crlf rs)).
Proof.
  induction rs as [|[[h s] q] rs IH]; intros Hok X l b.
  - cbn [full map concat app fq_items length]. apply fq_parse_coords; lia.
  - inversion Hok as [|r0 rs0 Hr Hrs]; subst.
    destruct Hr as (Hh & Hs & Hq & Eh & Es & Eq & Hlen).
    unfold full. cbn [map concat]. fold (full crlf rs). rewrite <- app_assoc.
    rewrite rec_text_shape.
    rewrite fq_parse_four;
      [| apply nolf_cons; [exact at_neq_lf | apply nolf_eolcr, Hh]
       | apply nolf_eolcr, Hs | apply nolf_sep | apply nolf_eolcr, Hq].
    rewrite fq_verdict_ok;
      [| reflexivity | reflexivity | rewrite !trim_cr_eolcr by assumption; exact Hlen].
    cbn [tl]. rewrite !trim_cr_eolcr by assumption.
    cbn [fq_items app fst snd]. f_equal.
    replace (b + length (AT :: h ++ eolcr crlf) + length (s ++ eolcr crlf)
             + length (PLUS :: eolcr crlf) + length (q ++ eolcr crlf) + 4)
      with (b + rec_len crlf (h, s, q)) by (rewrite rec_len_eq; lia).
    rewrite IH by assumption. f_equal.
    apply fq_parse_coords; [cbn [length]; lia | rewrite app_length; unfold rec_len; lia].
Qed.

(** a last record without terminator *)
Lemma parse_body crlf h s q l b : rec_ok (h, s, q) ->
  fq_parse (body crlf (h, s, q)) l b = [QRec (mkFqItem h s q l b)].
Proof.
  intros (Hh & Hs & Hq & Eh & Es & Eq & Hlen).
  rewrite body_shape.
  rewrite fq_parse_four_last;
    [| apply nolf_cons; [exact at_neq_lf | apply nolf_eolcr, Hh]
     | apply nolf_eolcr, Hs | apply nolf_sep | exact Hq].
  rewrite fq_verdict_ok;
    [| reflexivity | reflexivity
     | rewrite trim_cr_eolcr, trim_cr_id by assumption; exact Hlen].
  cbn [tl]. rewrite !trim_cr_eolcr, trim_cr_id by assumption. reflexivity.
Qed.

Lemma render_true crlf rs : render crlf true rs = full crlf rs.
Proof.
  induction rs as [|r rs IH]; [reflexivity|].
  unfold full. cbn [render map concat]. fold (full crlf rs). unfold rec_text at 1.
  rewrite <- app_assoc. f_equal.
  destruct rs as [|r2 rs]; [symmetry; apply app_nil_r|]. rewrite IH. reflexivity.
Qed.

Lemma render_false_snoc crlf rs r : render crlf false (rs ++ [r]) = full crlf rs ++ body crlf r.
Proof.
  induction rs as [|r1 rs IH].
  - cbn [app render full map concat]. apply app_nil_r.
  - unfold full. cbn [app render map concat]. fold (full crlf rs). unfold rec_text at 1.
    rewrite <- !app_assoc. f_equal.
    destruct rs as [|r2 rs]; cbn [app]; cbn [app] in IH; rewrite IH; reflexivity.
Qed.

Lemma list_sum_nil : list_sum [] = 0.
Proof. reflexivity. Qed.
Lemma list_sum_cons x l : list_sum (x :: l) = x + list_sum l.
Proof. reflexivity. Qed.

Lemma fq_items_app w a c : forall l b,
  fq_items w (a ++ c) l b =
  fq_items w a l b ++ fq_items w c (l + 4 * length a) (b + list_sum (map w a)).
Proof.
  induction a as [|r a IH]; intros l b.
  - cbn [app fq_items length map]. rewrite list_sum_nil. f_equal; lia.
  - cbn [app fq_items length map]. rewrite list_sum_cons. f_equal. rewrite IH. f_equal. f_equal; lia.
Qed.

Lemma fq_items_ext w w' rs : (forall r, w r = w' r) -> forall l b,
  fq_items w rs l b = fq_items w' rs l b.
Proof.
  intros H. induction rs as [|r rs IH]; intros l b; [reflexivity|].
  cbn [fq_items]. rewrite IH, H. reflexivity.
Qed.

Lemma length_concat_map {A} (g : A -> list byte) (l : list A) :
  length (concat (map g l)) = list_sum (map (fun r => length (g r)) l).
Proof.
  induction l as [|x l IH]; [reflexivity|].
  cbn [map concat]. rewrite list_sum_cons, app_length, IH. reflexivity.
Qed.

Lemma full_length crlf rs : length (full crlf rs) = list_sum (map (rec_len crlf) rs).
Proof. apply length_concat_map. Qed.

(** every rendering of well-formed records parses to these records *)
Lemma parse_render crlf final rs l b : Forall rec_ok rs ->
  fq_parse (render crlf final rs) l b = fq_items (rec_len crlf) rs l b.
Proof.
  intros Hok. destruct final.
  - rewrite render_true, <- (app_nil_r (full crlf rs)), parse_full_app by assumption.
    rewrite fq_parse_nil. apply app_nil_r.
  - destruct rs as [|r0 rs0] using rev_ind; [reflexivity|].
    apply Forall_app in Hok. destruct Hok as [Hok Hr]. inversion Hr as [|r1 rs1 Hr0 _]; subst.
    destruct r0 as [[h s] q].
    rewrite render_false_snoc, parse_full_app, parse_body by assumption.
    rewrite fq_items_app. cbn [fq_items fst snd]. rewrite full_length. reflexivity.
Qed.

(** drop the byte offsets *)
Definition drop_byte (i : fq_sitem) : fq_sitem :=
  match i with
  | QRec x => QRec (mkFqItem (qi_head x) (qi_seq x) (qi_qual x) (qi_line x) 0)
  | QErr e l _ => QErr e l 0
  end.

Lemma drop_byte_items w rs : forall l b,
  map drop_byte (fq_items w rs l b) = fq_items (fun _ => 0) rs l 0.
Proof.
  induction rs as [|r rs IH]; intros l b; [reflexivity|].
  cbn [fq_items map drop_byte qi_head qi_seq qi_qual qi_line]. rewrite IH. reflexivity.
Qed.

Lemma fq_items_In w rs : forall l b i, In i (fq_items w rs l b) ->
  exists r ln bt, In r rs /\ i = QRec (mkFqItem (fst (fst r)) (snd (fst r)) (snd r) ln bt).
Proof.
  induction rs as [|r rs IH]; intros l b i H; [destruct H|].
  cbn [fq_items] in H. destruct H as [H|H].
  - exists r, l, b. split; [left; reflexivity | symmetry; exact H].
  - destruct (IH _ _ _ H) as (r' & ln & bt & Hin & E).
    exists r', ln, bt. split; [right; exact Hin | exact E].
Qed.

Lemma fq_items_length w rs : forall l b, length (fq_items w rs l b) = length rs.
Proof. induction rs as [|r rs IH]; intros l b; [reflexivity|]. cbn [fq_items length]. rewrite IH. reflexivity. Qed.

Lemma fq_items_nth w rs : forall k l b,
  nth_error (fq_items w rs l b) k =
  option_map (fun r => QRec (mkFqItem (fst (fst r)) (snd (fst r)) (snd r) (l + 4 * k)
                                      (b + list_sum (map w (firstn k rs)))))
             (nth_error rs k).
Proof.
  induction rs as [|r rs IH]; intros [|k] l b; cbn [fq_items nth_error option_map firstn map];
    rewrite ?list_sum_nil, ?list_sum_cons; try reflexivity.
  - do 3 f_equal; lia.
  - rewrite IH. destruct (nth_error rs k); cbn [option_map]; [|reflexivity].
    do 3 f_equal; lia.
Qed.

(* ------------------------------------------------------------------ *)
(** * C11: the FASTQ writers *)

Definition fq_w (r : rec3) : list byte := let '(h, s, q) := r in fqw_to h s q.

Lemma fq_w_text r : fq_w r = rec_text false r.
Proof.
  destruct r as [[h s] q]. unfold fq_w, fqw_to, gen_fq_write_to, rec_text, body.
  cbn [eol app]. repeat (rewrite <- app_assoc; cbn [app]). reflexivity.
Qed.

Definition fq_writable (r : rec3) : Prop :=
  let '(h, s, q) := r in
  ~ In LF h /\ (forall h', h <> h' ++ [CR]) /\
  ~ In LF s /\ ~ In CR s /\ ~ In LF q /\ ~ In CR q /\ length s = length q.

Lemma writable_ok r : fq_writable r -> rec_ok r.
Proof.
  destruct r as [[h s] q]. intros (Hh & Eh & Hs & Cs & Hq & Cq & Hlen).
  repeat split; try assumption;
    [apply not_ends_of_neq, Eh | apply nocr_not_ends, Cs | apply nocr_not_ends, Cq].
Qed.

Lemma full_false_w rs : concat (map fq_w rs) = full false rs.
Proof. unfold full. rewrite (map_ext fq_w (rec_text false) fq_w_text). reflexivity. Qed.

Lemma fq_many rs : Forall fq_writable rs ->
  fq_spec_all (concat (map fq_w rs)) = fq_items (fun r => length (fq_w r)) rs 1 0.
Proof.
  intros H. rewrite fq_spec_all_parse, full_false_w, <- (render_true false rs).
  rewrite parse_render by (eapply Forall_impl; [exact writable_ok | exact H]).
  apply fq_items_ext. intros r. unfold rec_len. rewrite fq_w_text. reflexivity.
Qed.

Lemma fq_many_nth rs : Forall fq_writable rs ->
  length (fq_spec_all (concat (map fq_w rs))) = length rs /\
  forall k h s q, nth_error rs k = Some (h, s, q) ->
    nth_error (fq_spec_all (concat (map fq_w rs))) k =
    Some (QRec (mkFqItem h s q (1 + 4 * k) (length (concat (map fq_w (firstn k rs)))))).
Proof.
  intros H. rewrite fq_many by assumption. split; [apply fq_items_length|].
  intros k h s q Hk. rewrite fq_items_nth, Hk. cbn [option_map fst snd].
  rewrite <- (length_concat_map fq_w (firstn k rs)). reflexivity.
Qed.

Lemma fq_roundtrip head seq qual :
  ~ In LF head -> (forall h', head <> h' ++ [CR]) ->
  ~ In LF seq -> ~ In CR seq -> ~ In LF qual -> ~ In CR qual -> length seq = length qual ->
  fq_spec_all (fqw_to head seq qual) = [QRec (mkFqItem head seq qual 1 0)].
Proof.
  intros H1 H2 H3 H4 H5 H6 H7.
  pose proof (fq_many [(head, seq, qual)]) as H.
  cbn [map concat fq_w fq_items fst snd] in H. rewrite app_nil_r in H. apply H.
  constructor; [|constructor]. cbn [fq_writable]. repeat split; assumption.
Qed.

Definition head_of (id : list byte) (desc : option (list byte)) : list byte :=
  match desc with Some d => id ++ SP :: d | None => id end.

Lemma fqw_parts_to id desc s q : fqw_parts id desc s q = fqw_to (head_of id desc) s q.
Proof.
  unfold fqw_parts, gen_fq_write_parts, fqw_to, gen_fq_write_to, head_of.
  destruct desc; cbn [app]; repeat (rewrite <- app_assoc; cbn [app]); reflexivity.
Qed.

Lemma fq_roundtrip_parts id desc seq qual :
  let head := match desc with Some d => id ++ SP :: d | None => id end in
  ~ In LF head -> (forall h', head <> h' ++ [CR]) ->
  ~ In LF seq -> ~ In CR seq -> ~ In LF qual -> ~ In CR qual -> length seq = length qual ->
  fq_spec_all (fqw_parts id desc seq qual) = [QRec (mkFqItem head seq qual 1 0)].
Proof. intros head. rewrite fqw_parts_to. apply fq_roundtrip. Qed.

(* ------------------------------------------------------------------ *)
(** * C12: LF / CRLF, with / without final terminator *)

Definition fq_clean (r : rec3) : Prop :=
  let '(h, s, q) := r in
  ~ In LF h /\ ~ In CR h /\ ~ In LF s /\ ~ In CR s /\ ~ In LF q /\ ~ In CR q /\
  length s = length q.

Lemma clean_ok r : fq_clean r -> rec_ok r.
Proof.
  destruct r as [[h s] q]. intros (Hh & Ch & Hs & Cs & Hq & Cq & Hlen).
  repeat split; try assumption; apply nocr_not_ends; assumption.
Qed.

Lemma clean_all_ok rs : Forall fq_clean rs -> Forall rec_ok rs.
Proof. apply Forall_impl. exact clean_ok. Qed.

Lemma fq_render_exact crlf final rs : Forall fq_clean rs ->
  fq_spec_all (render crlf final rs) = fq_items (rec_len crlf) rs 1 0.
Proof. intros H. rewrite fq_spec_all_parse. apply parse_render, clean_all_ok, H. Qed.

Lemma fq_render_nobyte crlf final rs : Forall fq_clean rs ->
  map drop_byte (fq_spec_all (render crlf final rs)) = fq_items (fun _ => 0) rs 1 0.
Proof. intros H. rewrite fq_render_exact by assumption. apply drop_byte_items. Qed.

Lemma fq_render_same rs : Forall fq_clean rs -> forall c1 f1 c2 f2,
  map drop_byte (fq_spec_all (render c1 f1 rs)) = map drop_byte (fq_spec_all (render c2 f2 rs)).
Proof. intros H c1 f1 c2 f2. rewrite !fq_render_nobyte by assumption. reflexivity. Qed.

Lemma fq_render_no_cr crlf final rs : Forall fq_clean rs ->
  forall i, In i (fq_spec_all (render crlf final rs)) ->
  exists x, i = QRec x /\ ~ In CR (qi_head x) /\ ~ In CR (qi_seq x) /\ ~ In CR (qi_qual x).
Proof.
  intros H i Hi. rewrite fq_render_exact in Hi by assumption.
  apply fq_items_In in Hi. destruct Hi as ([[h s] q] & ln & bt & Hin & ->).
  eexists. split; [reflexivity|]. cbn [fst snd qi_head qi_seq qi_qual].
  rewrite Forall_forall in H. destruct (H _ Hin) as (_ & Ch & _ & Cs & _ & Cq & _).
  repeat split; assumption.
Qed.

(* ------------------------------------------------------------------ *)
(** * C02, Spec level *)

(** ** an error ends the stream *)
Definition err_last (l : list fq_sitem) : Prop :=
  forall pre e a b post, l = pre ++ QErr e a b :: post -> post = [].

Lemma err_last_nil : err_last [].
Proof. intros pre e a b post H. destruct pre; discriminate. Qed.

Lemma err_last_err e a b : err_last [QErr e a b].
Proof.
  intros pre e' a' b' post H. destruct pre as [|x pre].
  - inversion H. reflexivity.
  - inversion H. destruct pre; discriminate.
Qed.

Lemma err_last_rec i l : err_last l -> err_last (QRec i :: l).
Proof.
  intros Hl pre e a b post H. destruct pre as [|x pre]; [discriminate|].
  inversion H; subst. exact (Hl pre e a b post eq_refl).
Qed.

Lemma fq_spec_err_last : forall f rest l b, err_last (fq_spec f rest l b).
Proof.
  induction f as [|f IH]; intros rest l b; [apply err_last_nil|].
  rewrite fq_spec_S. unfold fq_step.
  destruct (cut_line rest) as [[h r1]|];
    [|destruct (forallb blank (pieces rest)); [apply err_last_nil | apply err_last_err]].
  destruct (cut_line r1) as [[s r2]|];
    [|destruct (forallb blank (pieces rest)); [apply err_last_nil | apply err_last_err]].
  destruct (cut_line r2) as [[p r3]|];
    [|destruct (forallb blank (pieces rest)); [apply err_last_nil | apply err_last_err]].
  destruct (cut_line r3) as [[q r4]|]; cbv beta iota zeta;
    (destruct (negb _); [apply err_last_err|]);
    (destruct (negb _); [apply err_last_err|]);
    (destruct (_ =? _); [|apply err_last_err]);
    apply err_last_rec; [apply IH | apply err_last_nil].
Qed.

(** ** blank tail *)
Lemma fq_spec_blank f t l b :
  count_lf t <= 2 -> forallb blank (pieces t) = true -> fq_spec f t l b = [].
Proof.
  intros Hc Hb. destruct f as [|f]; [reflexivity|].
  rewrite fq_spec_S. unfold fq_step. rewrite Hb.
  destruct (cut_line t) as [[h r1]|] eqn:E1; [|reflexivity].
  destruct (cut_line r1) as [[s r2]|] eqn:E2; [|reflexivity].
  destruct (cut_line r2) as [[p r3]|] eqn:E3; [|reflexivity].
  exfalso.
  apply cut_line_Some in E1. destruct E1 as [E1 H1].
  apply cut_line_Some in E2. destruct E2 as [E2 H2].
  apply cut_line_Some in E3. destruct E3 as [E3 H3].
  subst t r1 r2. rewrite !count_lf_split in Hc by assumption. lia.
Qed.

Lemma blank_tail crlf rs tail : Forall fq_clean rs ->
  count_lf tail <= 2 -> forallb blank (pieces tail) = true ->
  fq_spec_all (render crlf true rs ++ tail) = fq_spec_all (render crlf true rs).
Proof.
  intros H Hc Hb. apply clean_all_ok in H.
  transitivity (fq_items (rec_len crlf) rs 1 0).
  - rewrite fq_spec_all_parse, render_true, parse_full_app by assumption.
    unfold fq_parse. rewrite fq_spec_blank by assumption. apply app_nil_r.
  - symmetry. rewrite fq_spec_all_parse. apply parse_render, H.
Qed.

(** ** the length verdict *)
Lemma verdict_lengths f h s p q t l b :
  ~ In LF h -> ~ In LF s -> ~ In LF p -> ~ In LF q ->
  hd LF (h ++ [LF]) = AT -> hd LF (p ++ [LF]) = PLUS ->
  fq_spec (S f) (h ++ LF :: s ++ LF :: p ++ LF :: q
                 ++ match t with Some r4 => LF :: r4 | None => [] end) l b =
  if length (trim_cr s) =? length (trim_cr q) then
    QRec (mkFqItem (trim_cr (tl h)) (trim_cr s) (trim_cr q) l b)
    :: match t with
       | Some r4 => fq_spec f r4 (l + 4) (b + length h + length s + length p + length q + 4)
       | None => []
       end
  else [QErr (EUnequal (length (trim_cr s)) (length (trim_cr q)) l (err_id h)) l b].
Proof.
  intros Hh Hs Hp Hq Hat Hplus. rewrite fq_spec_S.
  destruct t as [r4|]; [|rewrite app_nil_r];
    [rewrite fq_step_four by assumption | rewrite fq_step_four_last by assumption];
    unfold fq_verdict; rewrite Hat, Hplus, !Nat.eqb_refl; reflexivity.
Qed.

Lemma length_verdict f h s p q t l b :
  ~ In LF h -> ~ In LF s -> ~ In LF p -> ~ In LF q ->
  hd LF (h ++ [LF]) = AT -> hd LF (p ++ [LF]) = PLUS ->
  let text := h ++ LF :: s ++ LF :: p ++ LF :: q
              ++ match t with Some r4 => LF :: r4 | None => [] end in
  (length (trim_cr s) = length (trim_cr q) ->
   fq_spec (S f) text l b =
   QRec (mkFqItem (trim_cr (tl h)) (trim_cr s) (trim_cr q) l b)
   :: match t with
      | Some r4 => fq_spec f r4 (l + 4) (b + length h + length s + length p + length q + 4)
      | None => []
      end) /\
  (length (trim_cr s) <> length (trim_cr q) ->
   fq_spec (S f) text l b =
   [QErr (EUnequal (length (trim_cr s)) (length (trim_cr q)) l (err_id h)) l b]).
Proof.
  intros Hh Hs Hp Hq Hat Hplus text. unfold text.
  rewrite verdict_lengths by assumption. split; intros Hlen.
  - apply Nat.eqb_eq in Hlen. rewrite Hlen. reflexivity.
  - apply Nat.eqb_neq in Hlen. rewrite Hlen. reflexivity.
Qed.

(** ** which breach gives which error *)
Lemma kinds_end f rest l b :
  count_lf rest < 3 -> forallb blank (pieces rest) = false ->
  fq_spec (S f) rest l b =
  [QErr (EUnexpectedEnd (l + count_lf rest)
           (match cut_line rest with Some (h, _) => err_id h | None => None end)) l b].
Proof.
  intros Hc Hb. rewrite fq_spec_S. unfold fq_step. rewrite Hb.
  destruct (cut_line rest) as [[h r1]|] eqn:E1.
  2: { apply cut_line_None in E1. rewrite (count_lf_nolf _ E1), Nat.add_0_r. reflexivity. }
  apply cut_line_Some in E1. destruct E1 as [E1 H1].
  destruct (cut_line r1) as [[s r2]|] eqn:E2.
  2: { apply cut_line_None in E2.
       assert (Hn : count_lf rest = 1)
         by (rewrite E1, count_lf_split, count_lf_nolf by assumption; reflexivity).
       rewrite Hn. reflexivity. }
  apply cut_line_Some in E2. destruct E2 as [E2 H2].
  destruct (cut_line r2) as [[p r3]|] eqn:E3.
  2: { apply cut_line_None in E3.
       assert (Hn : count_lf rest = 2)
         by (rewrite E1, E2, !count_lf_split, count_lf_nolf by assumption; reflexivity).
       rewrite Hn. reflexivity. }
  exfalso. apply cut_line_Some in E3. destruct E3 as [E3 H3].
  rewrite E1, E2, E3, !count_lf_split in Hc by assumption. lia.
Qed.

Lemma kinds_start f h s p t l b text :
  text = h ++ LF :: s ++ LF :: p ++ LF :: t ->
  ~ In LF h -> ~ In LF s -> ~ In LF p ->
  hd LF text <> AT ->
  fq_spec (S f) text l b = [QErr (EInvalidStart (hd LF text) l) l b].
Proof.
  intros -> Hh Hs Hp Hat. rewrite hd_app_lf in *. apply Nat.eqb_neq in Hat.
  rewrite fq_spec_S.
  destruct (lf_split t) as [Ht | (q & r4 & -> & Hq)];
    [rewrite fq_step_four_last by assumption | rewrite fq_step_four by assumption];
    unfold fq_verdict; rewrite Hat; reflexivity.
Qed.

Lemma kinds_sep f h s p t l b text :
  text = h ++ LF :: s ++ LF :: p ++ LF :: t ->
  ~ In LF h -> ~ In LF s -> ~ In LF p ->
  hd LF text = AT -> hd LF (p ++ [LF]) <> PLUS ->
  fq_spec (S f) text l b = [QErr (EInvalidSep (hd LF (p ++ [LF])) (l + 2) (err_id h)) l b].
Proof.
  intros -> Hh Hs Hp Hat Hplus. rewrite hd_app_lf in Hat. apply Nat.eqb_neq in Hplus.
  rewrite fq_spec_S.
  destruct (lf_split t) as [Ht | (q & r4 & -> & Hq)];
    [rewrite fq_step_four_last by assumption | rewrite fq_step_four by assumption];
    unfold fq_verdict; rewrite Hat, Hplus, Nat.eqb_refl; reflexivity.
Qed.

Lemma kinds_unequal f h s p q t l b text :
  text = h ++ LF :: s ++ LF :: p ++ LF :: q
         ++ match t with Some r4 => LF :: r4 | None => [] end ->
  ~ In LF h -> ~ In LF s -> ~ In LF p -> ~ In LF q ->
  hd LF text = AT -> hd LF (p ++ [LF]) = PLUS ->
  length (trim_cr s) <> length (trim_cr q) ->
  fq_spec (S f) text l b =
  [QErr (EUnequal (length (trim_cr s)) (length (trim_cr q)) l (err_id h)) l b].
Proof.
  intros -> Hh Hs Hp Hq Hat Hplus Hlen. rewrite hd_app_lf in Hat.
  rewrite verdict_lengths by assumption.
  apply Nat.eqb_neq in Hlen. rewrite Hlen. reflexivity.
Qed.

(** a text with at least three LFs has three terminated lines *)
Lemma three_lf_decompose rest : 3 <= count_lf rest ->
  exists h s p t, rest = h ++ LF :: s ++ LF :: p ++ LF :: t /\
                  ~ In LF h /\ ~ In LF s /\ ~ In LF p.
Proof.
  intros Hc.
  destruct (lf_split rest) as [H|(h & r1 & -> & Hh)];
    [rewrite count_lf_nolf in Hc by assumption; lia|].
  rewrite count_lf_split in Hc by assumption.
  destruct (lf_split r1) as [H|(s & r2 & -> & Hs)];
    [rewrite count_lf_nolf in Hc by assumption; lia|].
  rewrite count_lf_split in Hc by assumption.
  destruct (lf_split r2) as [H|(p & r3 & -> & Hp)];
    [rewrite count_lf_nolf in Hc by assumption; lia|].
  exists h, s, p, r3. repeat split; assumption.
Qed.

(** the stream is records followed by at most one error *)
Lemma err_last_shape l : err_last l ->
  exists recs tl, l = map QRec recs ++ tl /\ (tl = [] \/ exists e a c, tl = [QErr e a c]).
Proof.
  induction l as [|x l IH]; intros H.
  - exists [], []. split; [reflexivity | left; reflexivity].
  - destruct x as [i|e a c].
    + destruct IH as (recs & tl & E & Htl).
      { intros pre e a c post E. apply (H (QRec i :: pre) e a c post). rewrite E. reflexivity. }
      exists (i :: recs), tl. split; [rewrite E; reflexivity | exact Htl].
    + assert (E : l = []) by (apply (H [] e a c l); reflexivity).
      subst l. exists [], [QErr e a c]. split; [reflexivity|]. right. exists e, a, c. reflexivity.
Qed.

Lemma fq_spec_shape f rest l b :
  exists recs tl, fq_spec f rest l b = map QRec recs ++ tl /\
                  (tl = [] \/ exists e a c, tl = [QErr e a c]).
Proof. apply err_last_shape, fq_spec_err_last. Qed.

(** ** helpers for concrete instances *)
Lemma last_neq_not_ends l : last l LF <> CR -> forall l', l <> l' ++ [CR].
Proof. intros H l' E. apply H. rewrite E. apply last_last. Qed.

Ltac nomem := vm_compute; intuition discriminate.

(** ** witnesses for what is false *)

(** regression (former defect, F2 residue): CRLF lines, fourth line ended by the end
    of input: "@a\r\nAB\r\n+\r\nABC" used to be accepted (raw lengths 3 = 3); it is
    now the UnequalLengths error with the trimmed lengths 2 and 3 *)
Lemma length_verdict_crlf_eof_regression :
  fq_spec_all ([64; 97; 13] ++ LF :: [65; 66; 13] ++ LF :: [43; 13] ++ LF :: [65; 66; 67]) =
  [QErr (EUnequal 2 3 1 (Some [97])) 1 0].
Proof. vm_compute. reflexivity. Qed.

(** three blank lines after the last record's terminator are one too many *)
Lemma blank_tail_3lf_refuted : exists rs tail,
  Forall fq_clean rs /\ count_lf tail = 3 /\ forallb blank (pieces tail) = true /\
  fq_spec_all (render false true rs) = [QRec (mkFqItem [97] [65] [73] 1 0)] /\
  fq_spec_all (render false true rs ++ tail) =
  [QRec (mkFqItem [97] [65] [73] 1 0); QErr (EInvalidStart LF 5) 5 9].
Proof.
  exists [([97], [65], [73])], [LF; LF; LF].
  split; [constructor; [|constructor]; cbn [fq_clean]; repeat split; nomem|].
  repeat split; vm_compute; reflexivity.
Qed.

(** fields must not end in CR: sequence "A\r" and quality "I\r" come back with the CR
    from the CRLF rendering and as "A", "I" from the LF rendering *)
Lemma render_cr_field_refuted : exists rs,
  Forall (fun r : rec3 => let '(h, s, q) := r in
            ~ In LF h /\ ~ In LF s /\ ~ In LF q /\ length s = length q) rs /\
  map drop_byte (fq_spec_all (render true true rs)) <>
  map drop_byte (fq_spec_all (render false true rs)).
Proof.
  exists [([97], [65; 13], [73; 13])].
  split; [constructor; [|constructor]; repeat split; nomem|].
  vm_compute. discriminate.
Qed.

Lemma render_lf_is_writer rs : render false true rs = concat (map fq_w rs).
Proof. rewrite render_true, full_false_w. reflexivity. Qed.

Lemma fq_render_nth crlf final rs : Forall fq_clean rs ->
  length (fq_spec_all (render crlf final rs)) = length rs /\
  forall k h s q, nth_error rs k = Some (h, s, q) ->
    nth_error (map drop_byte (fq_spec_all (render crlf final rs))) k =
    Some (QRec (mkFqItem h s q (1 + 4 * k) 0)).
Proof.
  intros H. split.
  - rewrite fq_render_exact by assumption. apply fq_items_length.
  - intros k h s q Hk. rewrite fq_render_nobyte by assumption.
    rewrite fq_items_nth, Hk. cbn [option_map fst snd].
    induction (firstn k rs) as [|x l IH]; [reflexivity|].
    cbn [map]. rewrite list_sum_cons. exact IH.
Qed.
