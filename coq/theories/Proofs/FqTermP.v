(** C06, termination of the FASTQ reader: the loops [fq_resume], [fq_set_loop]
    and [fill_buf] never run out of fuel [2 * |data| + 4] / [|read script| + 2],
    for EVERY policy (refusing, answering anything), every read script
    (interrupts, failures, short reads), every seek script and every history of
    calls on a new reader.

    The measures:
    - [fq_resume]: [fq_psi mk r = 2 * src_remaining + [buffer full] + [make_room still possible]]
      strictly decreases from one iteration to the next;
    - [fq_set_loop]: [fq_phi r = 2 * fq_m r + [no search pending]] with
      [fq_m r = (|buffer| - p0) + src_remaining] strictly decreases; it is bounded
      by [fq_left r = |buffer| + src_remaining <= |data|]. *)
From SeqIO Require Import Model.Base Model.Fastq Proofs.TraceP Proofs.FqTraceP Proofs.FaultP Proofs.GrowP
     Proofs.FastqGrowP Proofs.GrowSitesP Proofs.FqGrowSitesP Proofs.FqSaneP Proofs.InterruptP Proofs.FqInterruptP.

(* ------------------------------------------------------------------ *)
(** * The source and the refill loop: bytes are conserved *)

Lemma src_remaining_le s : src_remaining s <= length (s_data s).
Proof. unfold src_remaining. lia. Qed.

Lemma src_read_conserve s off s' data res : src_read s off = (s', data, res) ->
  s_data s' = s_data s /\ length data + src_remaining s' = src_remaining s /\
  match res with
  | RData n => length data = n /\ (n = 0 -> off = 0 \/ src_remaining s' = 0)
  | _ => data = []
  end.
Proof.
  unfold src_read, src_remaining.
  destruct (s_rs s) as [|[m| |k] rs]; cbv zeta.
  - remember (Nat.min off (length (s_data s) - s_pos s)) as n eqn:En.
    intros H; inversion H; subst s' data res; clear H.
    cbn [s_data s_pos]. rewrite firstn_length, skipn_length. splits; auto; lia.
  - remember (Nat.min (S m) (Nat.min off (length (s_data s) - s_pos s))) as n eqn:En.
    intros H; inversion H; subst s' data res; clear H.
    cbn [s_data s_pos]. rewrite firstn_length, skipn_length. splits; auto; lia.
  - intros H; inversion H; subst; clear H. cbn [s_data s_pos length]. splits; auto.
  - intros H; inversion H; subst; clear H. cbn [s_data s_pos length]. splits; auto.
Qed.

Lemma fill_buf_conserve : forall fuel buf cap s lg nr b s' lg' res,
  fill_buf fuel buf cap s lg nr = (b, s', lg', res) ->
  s_data s' = s_data s /\ length b + src_remaining s' = length buf + src_remaining s /\
  length buf <= length b /\
  (forall n, res = FillOk n -> cap <= length b \/ src_remaining s' = 0).
Proof.
  induction fuel as [|f IH]; intros buf cap s lg nr b s' lg' res H; cbn [fill_buf] in H.
  { inversion H; subst. splits; auto. intros n Hn; discriminate. }
  destruct (length buf <? cap) eqn:E; [apply Nat.ltb_lt in E|apply Nat.ltb_ge in E].
  2:{ inversion H; subst. splits; auto. }
  destruct (src_read s (cap - length buf)) as [[s1 data] rr] eqn:Er.
  destruct (src_read_conserve _ _ _ _ _ Er) as (D1 & C1 & R1).
  destruct rr as [[|n]| |k].
  - inversion H; subst. destruct R1 as [L1 Z1]. splits; auto; try lia.
  - destruct R1 as [L1 _].
    destruct (IH _ _ _ _ _ _ _ _ _ H) as (D2 & C2 & L2 & F2). rewrite app_length in *.
    splits; auto; try congruence; lia.
  - subst data. cbn [length] in C1.
    destruct (IH _ _ _ _ _ _ _ _ _ H) as (D2 & C2 & L2 & F2).
    splits; auto; try congruence; lia.
  - subst data. cbn [length] in C1. inversion H; subst. splits; auto; try lia.
    intros n Hn; discriminate.
Qed.

(** scripts without failure items (interrupts and short reads are allowed) stay so,
    and the refill loop does not fail on them *)
Definition rs_ok (i : ritem) : Prop := match i with RFailI _ => False | _ => True end.
Definition NoFailSrc (s : source) : Prop := Forall rs_ok (s_rs s) /\ Forall (fun i => i = SOk) (s_ss s).

Lemma src_read_nofail s off s' data res : src_read s off = (s', data, res) -> NoFailSrc s ->
  NoFailSrc s' /\ (forall k, res <> RFailed k).
Proof.
  unfold src_read, NoFailSrc. intros H [Hr Hs].
  destruct (s_rs s) as [|[m| |k] rs]; cbv zeta in H; inversion H; subst; clear H; cbn [s_rs s_ss];
    try (inversion Hr; subst); splits; auto; try discriminate.
Qed.

Lemma fill_buf_nofail : forall fuel buf cap s lg nr b s' lg' res,
  fill_buf fuel buf cap s lg nr = (b, s', lg', res) -> NoFailSrc s ->
  NoFailSrc s' /\ (forall k, res <> FillErr k).
Proof.
  induction fuel as [|f IH]; intros buf cap s lg nr b s' lg' res H N; cbn [fill_buf] in H.
  { inversion H; subst. split; [exact N|discriminate]. }
  destruct (length buf <? cap).
  2:{ inversion H; subst. split; [exact N|discriminate]. }
  destruct (src_read s (cap - length buf)) as [[s1 data] rr] eqn:Er.
  destruct (src_read_nofail _ _ _ _ _ Er N) as [N1 Hne].
  destruct rr as [[|n]| |k].
  - inversion H; subst. split; [exact N1|discriminate].
  - apply (IH _ _ _ _ _ _ _ _ _ H N1).
  - apply (IH _ _ _ _ _ _ _ _ _ H N1).
  - exfalso. apply (Hne k). reflexivity.
Qed.

(* ------------------------------------------------------------------ *)
(** * What the steps of the loops do to buffer, source and [p0] *)

Definition fq_left (r : fq) : nat := length (qbuf r) + src_remaining (qsrc r).
(** bytes not yet stepped over: the measure of the record-set loop *)
Definition fq_m (r : fq) : nat := (length (qbuf r) - p0 r) + src_remaining (qsrc r).

(** the data of the source is kept and no byte is gained *)
Definition Keeps (r r' : fq) : Prop :=
  s_data (qsrc r') = s_data (qsrc r) /\ fq_left r' <= fq_left r /\ fq_m r' <= fq_m r /\
  (NoFailSrc (qsrc r) -> NoFailSrc (qsrc r')).

Lemma Keeps_refl r : Keeps r r.
Proof. unfold Keeps. auto. Qed.

Lemma Keeps_trans a b c : Keeps a b -> Keeps b c -> Keeps a c.
Proof. unfold Keeps. intros (A1 & A2 & A3 & A4) (B1 & B2 & B3 & B4). splits; [congruence|lia|lia|auto]. Qed.

Lemma Keeps_same r r' : qbuf r' = qbuf r -> qsrc r' = qsrc r -> p0 r' = p0 r -> Keeps r r'.
Proof. unfold Keeps, fq_left, fq_m. intros -> -> ->. auto. Qed.

Lemma Keeps_fwd r r' : qbuf r' = qbuf r -> qsrc r' = qsrc r -> p0 r <= p0 r' -> Keeps r r'.
Proof. unfold Keeps, fq_left, fq_m. intros -> -> H. splits; auto; lia. Qed.

Lemma fq_fill_step ffuel r r' fr : fq_fill ffuel r = (r', fr) ->
  s_data (qsrc r') = s_data (qsrc r) /\
  length (qbuf r') + src_remaining (qsrc r') = length (qbuf r) + src_remaining (qsrc r) /\
  length (qbuf r) <= length (qbuf r') /\ qcap r' = qcap r /\ p0 r' = p0 r /\
  (forall n, fr = FillOk n -> qcap r <= length (qbuf r') \/ src_remaining (qsrc r') = 0) /\
  (QFuelOk ffuel r -> fr <> FillFuel /\ QFuelOk ffuel r') /\
  (NoFailSrc (qsrc r) -> NoFailSrc (qsrc r') /\ forall k, fr <> FillErr k).
Proof.
  unfold fq_fill. intros H.
  destruct (fill_buf ffuel (qbuf r) (qcap r) (qsrc r) (qlog r) 0) as [[[b s] lg] res] eqn:E.
  inversion H; subst r' fr; clear H. fq_simpl.
  destruct (fill_buf_conserve _ _ _ _ _ _ _ _ _ _ E) as (D & C & L & F).
  splits; auto.
  - intros Hf. unfold QFuelOk in *. fq_simpl. split.
    + pose proof (fill_buf_enough_fuel ffuel (qbuf r) (qcap r) (qsrc r) (qlog r) 0 Hf) as Hne.
      rewrite E in Hne. exact Hne.
    + pose proof (fill_buf_script_len _ _ _ _ _ _ _ _ _ _ E). lia.
  - apply (fill_buf_nofail _ _ _ _ _ _ _ _ _ _ E).
Qed.

Lemma fq_fill_keeps ffuel r r' fr : fq_fill ffuel r = (r', fr) -> Keeps r r'.
Proof.
  intros H. destruct (fq_fill_step _ _ _ _ H) as (D & C & L & _ & P & _ & _ & N).
  unfold Keeps, fq_left, fq_m. rewrite P. splits; auto; try lia. intros N0. apply (N N0).
Qed.

Lemma fq_grow_step r r' g : fq_grow r = (r', g) ->
  qbuf r' = qbuf r /\ qsrc r' = qsrc r /\ p0 r' = p0 r /\
  (g = QGOk -> qcap r <= length (qbuf r) -> qcap r < qcap r').
Proof.
  unfold fq_grow. intros H.
  destruct (qpolf r (qpolh r) (qcap r)) as [n|]; [destruct (n <=? qcap r) eqn:En|];
    inversion H; subst r' g; clear H; fq_simpl; splits; auto; try discriminate.
  intros _ Hfull. apply Nat.leb_gt in En.
  destruct (br_reserve_bounds_q (qbuf r) (qcap r) n En) as (_ & _ & B3). rewrite (B3 Hfull). exact En.
Qed.

Lemma fq_make_room_step s r r' g : fq_make_room s r = (r', g) ->
  qbuf r' = skipn (p0 r) (qbuf r) /\ qsrc r' = qsrc r /\ p0 r' = 0 /\ qcap r' = qcap r.
Proof.
  intros H. revert H. unfold fq_make_room. cbv beta iota zeta.
  destruct s; cbv beta iota zeta delta [stage_leb stage_num Nat.leb];
    cbn [pseq psep pqual qset_p0 qset_buf qset_seq qset_sep qset_qual];
    dm; intros H; inversion H; subst; fq_simpl; splits; reflexivity.
Qed.

Lemma fq_make_room_keeps s r r' g : fq_make_room s r = (r', g) -> Keeps r r'.
Proof.
  intros H. destruct (fq_make_room_step _ _ _ _ H) as (B & S & P & _).
  unfold Keeps, fq_left, fq_m. rewrite B, S, P, skipn_length. splits; auto; lia.
Qed.

Lemma fq_search_step s clear r r' sr : fq_search_from s clear r = (r', sr) ->
  qbuf r' = qbuf r /\ qcap r' = qcap r /\ qsrc r' = qsrc r /\ p0 r' = p0 r.
Proof.
  intros H. pose proof (fq_search_from_buf s clear r) as [Hb Hc].
  destruct (fq_search_from_strip s clear r) as [_ Hs]. rewrite H in Hb, Hc, Hs. cbn [fst] in *.
  destruct (fq_search_from_facts _ _ _ _ _ H) as (_ & _ & _ & Hp & _). auto.
Qed.

Lemma fq_check_end_step s r r' rr : fq_check_end s r = (r', rr) ->
  qbuf r' = qbuf r /\ qcap r' = qcap r /\ qsrc r' = qsrc r /\ p0 r' = p0 r /\ rr <> QrFuel.
Proof.
  intros H. destruct (fq_check_end_buf _ _ _ _ H) as [Hb Hc].
  destruct (fq_check_end_strip s r) as [_ Hs]. rewrite H in Hs. cbn [fst] in Hs.
  splits; auto.
  - unfold fq_check_end in H. destruct s;
      try (destruct (length (qbuf r) <? p0 r); [inversion H; subst; auto|];
           destruct (forallb _ _); [inversion H; subst; auto|];
           destruct (fq_error_pos _ _ _) as [[l id]|]; inversion H; subst; auto).
    destruct (fq_validate (qset_p1 r (length (qbuf r)))) as [r1 v] eqn:Ev.
    destruct (fq_validate_facts _ _ _ Ev) as (_ & _ & _ & _ & Hp).
    destruct v; inversion H; subst; exact Hp.
  - unfold fq_check_end in H. destruct s;
      try (destruct (length (qbuf r) <? p0 r); [inversion H; subst; discriminate|];
           destruct (forallb _ _); [inversion H; subst; discriminate|];
           destruct (fq_error_pos _ _ _) as [[l id]|]; inversion H; subst; discriminate).
    destruct (fq_validate (qset_p1 r (length (qbuf r)))) as [r1 v].
    destruct v; inversion H; subst; discriminate.
Qed.

Lemma fq_increment_step r r' : fq_increment r = Some r' ->
  qbuf r' = qbuf r /\ qcap r' = qcap r /\ qsrc r' = qsrc r /\ p0 r' = p1 r + 1 /\ p0 r <= p1 r + 1 /\
  inc r' = inc r /\ qst r' = qst r.
Proof.
  unfold fq_increment. destruct (p1 r + 1 <? p0 r) eqn:E; [discriminate|]. apply Nat.ltb_ge in E.
  intros H; inversion H; subst. fq_simpl. splits; auto.
Qed.

(* ------------------------------------------------------------------ *)
(** * [fq_resume] *)

Lemma fq_resume_keeps ffuel mk : forall fuel s r r' res,
  fq_resume fuel ffuel s mk r = (r', res) -> Keeps r r'.
Proof.
  induction fuel as [|f IH]; intros s r r' res H; cbn [fq_resume] in H.
  { inversion H; subst. apply Keeps_refl. }
  destruct (length (qbuf r) <? qcap r).
  { destruct (fq_check_end_step _ _ _ _ H) as (A & _ & B & C & _). apply Keeps_same; auto. }
  destruct (if negb mk || (p0 r =? 0) then fq_grow r else fq_make_room s r) as [r1 g] eqn:E1.
  assert (K1 : Keeps r r1).
  { destruct (negb mk || (p0 r =? 0)).
    - destruct (fq_grow_step _ _ _ E1) as (A & B & C & _). apply Keeps_same; auto.
    - apply (fq_make_room_keeps _ _ _ _ E1). }
  destruct g; try (inversion H; subst; exact K1).
  destruct (fq_fill ffuel r1) as [r2 fr] eqn:E2.
  pose proof (Keeps_trans _ _ _ K1 (fq_fill_keeps _ _ _ _ E2)) as K2.
  destruct fr as [n|k|]; [| |inversion H; subst; exact K2].
  2:{ inversion H; subst. eapply Keeps_trans; [exact K2|].
      unfold Keeps, fq_left, fq_m. fq_simpl. cbn [length]. splits; auto; lia. }
  destruct (fq_search_from s true r2) as [r3 sr] eqn:E3.
  destruct (fq_search_step _ _ _ _ _ E3) as (A & _ & B & C).
  pose proof (Keeps_trans _ _ _ K2 (Keeps_same _ _ A B C)) as K3.
  destruct sr; try (inversion H; subst; exact K3).
  eapply Keeps_trans; [exact K3|]. apply (IH _ _ _ _ H).
Qed.

(** the measure of [fq_resume]: twice the bytes the source can still deliver,
    plus one while the buffer is full, plus one while [make_room] can still act *)
Definition fq_psi (mk : bool) (r : fq) : nat :=
  2 * src_remaining (qsrc r) + (if length (qbuf r) <? qcap r then 0 else 1) +
  (if mk && negb (p0 r =? 0) then 1 else 0).

Lemma fq_psi_bound mk r : fq_psi mk r <= 2 * length (s_data (qsrc r)) + 2.
Proof.
  unfold fq_psi. pose proof (src_remaining_le (qsrc r)).
  destruct (length (qbuf r) <? qcap r); destruct (mk && negb (p0 r =? 0)); lia.
Qed.

Lemma fq_resume_terminates ffuel mk : forall fuel s r r' res,
  fq_resume fuel ffuel s mk r = (r', res) -> QBufFits r -> QFuelOk ffuel r -> fq_psi mk r < fuel ->
  res <> QrFuel.
Proof.
  induction fuel as [|f IH]; intros s r r' res H Hfit Hff Hpsi; [lia|]. cbn [fq_resume] in H.
  unfold fq_psi in Hpsi.
  destruct (length (qbuf r) <? qcap r) eqn:Efull.
  { apply (fq_check_end_step _ _ _ _ H). }
  apply Nat.ltb_ge in Efull. unfold QBufFits in Hfit.
  destruct (negb mk || (p0 r =? 0)) eqn:Eg.
  - (* grow *)
    assert (Emk : mk && negb (p0 r =? 0) = false) by (destruct mk; destruct (p0 r =? 0); cbn in *; congruence).
    rewrite Emk in Hpsi.
    destruct (fq_grow r) as [r1 g] eqn:E1.
    destruct (fq_grow_step _ _ _ E1) as (B1 & S1 & P1 & C1).
    pose proof (fq_grow_fits _ _ _ E1 Hfit) as Hfit1.
    destruct g; try (inversion H; subst; discriminate).
    specialize (C1 eq_refl Efull).
    destruct (fq_fill ffuel r1) as [r2 fr] eqn:E2.
    destruct (fq_fill_step _ _ _ _ E2) as (_ & Cn2 & L2 & C2 & P2 & F2 & Hfu & _).
    destruct (Hfu (QFuelOk_src _ _ _ S1 Hff)) as [Hne Hff2].
    pose proof (fq_fill_len _ _ _ _ E2 Hfit1) as Hfit2.
    destruct fr as [n|k|]; [|inversion H; subst; discriminate|congruence].
    destruct (fq_search_from s true r2) as [r3 sr] eqn:E3.
    destruct (fq_search_step _ _ _ _ _ E3) as (B3 & C3 & S3 & P3).
    destruct sr; try (inversion H; subst; discriminate).
    apply (IH _ _ _ _ H).
    + unfold QBufFits. rewrite B3, C3. exact Hfit2.
    + apply (QFuelOk_src _ _ _ S3 Hff2).
    + unfold fq_psi. rewrite B3, C3, S3, P3, P2, P1, Emk.
      specialize (F2 n eq_refl). rewrite B1, S1 in Cn2. rewrite C2.
      destruct (length (qbuf r2) <? qcap r1) eqn:E4; [apply Nat.ltb_lt in E4|apply Nat.ltb_ge in E4]; lia.
  - (* make_room *)
    assert (Emk : mk && negb (p0 r =? 0) = true) by (destruct mk; destruct (p0 r =? 0); cbn in *; congruence).
    rewrite Emk in Hpsi.
    destruct (fq_make_room s r) as [r1 g] eqn:E1.
    destruct (fq_make_room_step _ _ _ _ E1) as (B1 & S1 & P1 & C1).
    pose proof (fq_make_room_len _ _ _ _ E1 Hfit) as Hfit1.
    destruct g; try (inversion H; subst; discriminate).
    destruct (fq_fill ffuel r1) as [r2 fr] eqn:E2.
    destruct (fq_fill_step _ _ _ _ E2) as (_ & Cn2 & L2 & C2 & P2 & F2 & Hfu & _).
    destruct (Hfu (QFuelOk_src _ _ _ S1 Hff)) as [Hne Hff2].
    pose proof (fq_fill_len _ _ _ _ E2 Hfit1) as Hfit2.
    destruct fr as [n|k|]; [|inversion H; subst; discriminate|congruence].
    destruct (fq_search_from s true r2) as [r3 sr] eqn:E3.
    destruct (fq_search_step _ _ _ _ _ E3) as (B3 & C3 & S3 & P3).
    destruct sr; try (inversion H; subst; discriminate).
    apply (IH _ _ _ _ H).
    + unfold QBufFits. rewrite B3, C3. exact Hfit2.
    + apply (QFuelOk_src _ _ _ S3 Hff2).
    + unfold fq_psi. rewrite B3, C3, S3, P3, P2, P1.
      replace (mk && negb (0 =? 0)) with false by (destruct mk; reflexivity).
      rewrite S1 in Cn2.
      destruct (length (qbuf r2) <? qcap r2); lia.
Qed.

(* ------------------------------------------------------------------ *)
(** * [init], [next] *)

Lemma Keeps_st r x : Keeps r (qset_st r x).
Proof. apply Keeps_same; reflexivity. Qed.

Lemma fq_init_term ffuel r r' res : fq_init ffuel r = (r', res) ->
  Keeps r r' /\ (QFuelOk ffuel r -> res <> QIFuel).
Proof.
  unfold fq_init. intros H. destruct (fq_fill ffuel r) as [r1 fr] eqn:E1.
  pose proof (fq_fill_keeps _ _ _ _ E1) as K1.
  destruct (fq_fill_step _ _ _ _ E1) as (_ & _ & _ & _ & _ & _ & Hfu & _).
  destruct fr as [[|n]|k|]; inversion H; subst; split; try discriminate; auto.
  intros Hf. destruct (Hfu Hf) as [Hne _]. congruence.
Qed.

Lemma fq_next_tail_term fuel ffuel r r' o : fq_next_tail fuel ffuel r = (r', o) ->
  Keeps r r' /\
  (QBufFits r -> QFuelOk ffuel r -> 2 * length (s_data (qsrc r)) + 3 <= fuel -> o <> QOFuel) /\
  o <> QOSetOk /\ o <> QOOk.
Proof.
  unfold fq_next_tail. intros H.
  destruct (match inc r with None => fq_search_from Head false r | Some _ => (r, QsRec) end) as [r1 sr] eqn:E1.
  assert (H1 : qbuf r1 = qbuf r /\ qcap r1 = qcap r /\ qsrc r1 = qsrc r /\ p0 r1 = p0 r).
  { destruct (inc r); [inversion E1; subst; auto|apply (fq_search_step _ _ _ _ _ E1)]. }
  destruct H1 as (B1 & C1 & S1 & P1).
  pose proof (Keeps_same _ _ B1 S1 P1) as K1.
  assert (Hrest : match inc r1 with
      | Some s =>
          let '(r2, rr) := fq_resume fuel ffuel s true r1 in
          match rr with
          | QrErr e => (r2, QOErr e)
          | QrPanic x => (r2, QOPanic x)
          | QrFuel => (r2, QOFuel)
          | QrOk false => (r2, QONone)
          | QrOk true => (r2, QORec (fq_cur r2))
          end
      | None => (r1, QORec (fq_cur r1))
      end = (r', o) ->
      Keeps r r' /\
      (QBufFits r -> QFuelOk ffuel r -> 2 * length (s_data (qsrc r)) + 3 <= fuel -> o <> QOFuel) /\
      o <> QOSetOk /\ o <> QOOk).
  { intros Hq. destruct (inc r1) as [s|]; [|inversion Hq; subst; splits; auto; discriminate].
    destruct (fq_resume fuel ffuel s true r1) as [r2 rr] eqn:E2.
    pose proof (Keeps_trans _ _ _ K1 (fq_resume_keeps _ _ _ _ _ _ _ E2)) as K2.
    assert (Hnf : QBufFits r -> QFuelOk ffuel r -> 2 * length (s_data (qsrc r)) + 3 <= fuel -> rr <> QrFuel).
    { intros Hfit Hff Hfuel. apply (fq_resume_terminates _ _ _ _ _ _ _ E2).
      - unfold QBufFits in *. rewrite B1, C1. exact Hfit.
      - apply (QFuelOk_src _ _ _ S1 Hff).
      - pose proof (fq_psi_bound true r1) as Hb. rewrite S1 in Hb. lia. }
    destruct rr as [[|]|e|x|]; inversion Hq; subst; splits; auto; try discriminate.
    intros Hfit Hff Hfuel _. apply (Hnf Hfit Hff Hfuel). reflexivity. }
  destruct sr as [|s|e|x]; try (apply Hrest; exact H); inversion H; subst; splits; auto; discriminate.
Qed.

Lemma fq_next_term fuel ffuel r r' o : fq_next fuel ffuel r = (r', o) ->
  Keeps r r' /\
  (QBufFits r -> QFuelOk ffuel r -> 2 * length (s_data (qsrc r)) + 3 <= fuel -> o <> QOFuel) /\
  o <> QOSetOk /\ o <> QOOk.
Proof.
  unfold fq_next. intros H. destruct (qst r).
  - destruct (fq_init ffuel r) as [r1 ir] eqn:E1.
    destruct (fq_init_term _ _ _ _ E1) as [K1 Hn1].
    destruct ir as [[|]|e|].
    + destruct (fq_next_tail_term fuel ffuel (qset_st r1 QParsing) _ _ H) as (K2 & Hn2 & A & B).
      pose proof (Keeps_trans _ _ _ (Keeps_trans _ _ _ K1 (Keeps_st r1 QParsing)) K2) as K.
      splits; auto. intros Hfit Hff Hfuel. apply Hn2.
      * apply (fq_init_fits _ _ _ _ E1 Hfit).
      * pose proof (fq_init_strip ffuel r Hff) as [_ Hx]. rewrite E1 in Hx. exact Hx.
      * destruct K1 as (D & _). fq_simpl. rewrite D. exact Hfuel.
    + inversion H; subst; splits; auto; discriminate.
    + inversion H; subst; splits; auto; discriminate.
    + inversion H; subst; splits; auto; try discriminate.
      intros _ Hff _ _. apply (Hn1 Hff). reflexivity.
  - destruct (inc r); [apply (fq_next_tail_term _ _ _ _ _ H)|].
    destruct (fq_increment r) as [r1|] eqn:E1; [|inversion H; subst; splits; try discriminate; apply Keeps_refl].
    destruct (fq_increment_step _ _ E1) as (B1 & C1 & S1 & P1 & Q1 & _).
    destruct (fq_next_tail_term _ _ _ _ _ H) as (K2 & Hn2 & A & B).
    splits; auto.
    + eapply Keeps_trans; [|exact K2]. apply Keeps_fwd; auto. lia.
    + intros Hfit Hff Hfuel. apply Hn2.
      * apply (fq_increment_fits _ _ E1 Hfit).
      * apply (QFuelOk_src _ _ _ S1 Hff).
      * rewrite S1. exact Hfuel.
  - destruct (fq_next_tail_term fuel ffuel (qset_st r QParsing) _ _ H) as (K2 & Hn2 & A & B).
    splits; auto.
  - inversion H; subst. splits; try discriminate. apply Keeps_refl.
Qed.

(* ------------------------------------------------------------------ *)
(** * the record-set loop *)

Lemma fq_set_loop_keeps rfuel ffuel : forall fuel n is_new r ps r' ps' res,
  fq_set_loop fuel rfuel ffuel n is_new r ps = (r', ps', res) -> Keeps r r'.
Proof.
  induction fuel as [|f IH]; intros n is_new r ps r' ps' res H; cbn [fq_set_loop] in H.
  { inversion H; subst. apply Keeps_refl. }
  destruct (fq_state_eqb (qst r) QFinished); [inversion H; subst; apply Keeps_refl|].
  assert (Hfound : forall r2, Keeps r r2 ->
     (let ps2 := ps ++ [fq_bp r2] in
      match fq_increment r2 with
      | None => (r2, ps2, QLPanic 3)
      | Some r4 => if reached n (length ps2) then (r4, ps2, QLDone)
                   else fq_set_loop f rfuel ffuel n is_new r4 ps2
      end) = (r', ps', res) -> Keeps r r').
  { intros r2 K2 Hq. cbv zeta in Hq.
    destruct (fq_increment r2) as [r4|] eqn:Ei; [|inversion Hq; subst; exact K2].
    destruct (fq_increment_step _ _ Ei) as (B4 & _ & S4 & P4 & Q4 & _).
    assert (K4 : Keeps r r4) by (eapply Keeps_trans; [exact K2|apply Keeps_fwd; auto; lia]).
    destruct (reached n (length (ps ++ [fq_bp r2]))); [inversion Hq; subst; exact K4|].
    eapply Keeps_trans; [exact K4|]. apply (IH _ _ _ _ _ _ _ Hq). }
  destruct (inc r) as [s|].
  - destruct (fq_resume rfuel ffuel s is_new (qset_inc r None)) as [r1 rr] eqn:E1.
    pose proof (fq_resume_keeps _ _ _ _ _ _ _ E1) as K1.
    assert (K1' : Keeps r r1) by exact K1.
    destruct rr as [[|]|e|x|]; try (inversion H; subst; exact K1').
    + apply (Hfound r1 K1' H).
    + destruct ps; inversion H; subst; exact K1'.
  - destruct (fq_search_from Head false r) as [r1 sr] eqn:E1.
    destruct (fq_search_step _ _ _ _ _ E1) as (B1 & _ & S1 & P1).
    pose proof (Keeps_same _ _ B1 S1 P1) as K1.
    destruct sr as [|s|e|x]; try (inversion H; subst; exact K1).
    + apply (Hfound r1 K1 H).
    + destruct ps as [|p ps0]; [eapply Keeps_trans; [exact K1|]; apply (IH _ _ _ _ _ _ _ H)|].
      destruct (below n (length (p :: ps0))); [eapply Keeps_trans; [exact K1|]; apply (IH _ _ _ _ _ _ _ H)|].
      inversion H; subst; exact K1.
Qed.

(** the measure of the record-set loop *)
Definition fq_phi (r : fq) : nat := 2 * fq_m r + match inc r with None => 1 | Some _ => 0 end.

Lemma fq_set_loop_terminates rfuel ffuel : forall fuel n is_new r ps r' ps' res,
  fq_set_loop fuel rfuel ffuel n is_new r ps = (r', ps', res) ->
  LoopOk r -> QBufFits r -> QFuelOk ffuel r -> 2 * length (s_data (qsrc r)) + 3 <= rfuel ->
  (qst r = QFinished /\ 1 <= fuel) \/ fq_phi r + 2 <= fuel ->
  res <> QLFuel.
Proof.
  induction fuel as [|f IH]; intros n is_new r ps r' ps' res H L Hfit Hff Hrf Hc.
  { destruct Hc as [[_ Hc]|Hc]; lia. }
  cbn [fq_set_loop] in H.
  destruct (fq_state_eqb (qst r) QFinished) eqn:Ef.
  { inversion H; subst. discriminate. }
  destruct L as [Hf|[Hq T]]; [rewrite Hf in Ef; discriminate|].
  destruct Hc as [[Hf _]|Hc]; [rewrite Hf in Ef; discriminate|].
  assert (Hm : 2 * fq_m r + 2 <= S f) by (unfold fq_phi in Hc; lia).
  assert (Hfound : forall r2, p0 r2 <= p1 r2 + 1 ->
     (qst r2 = QFinished \/ (OffRec r2 /\ qst r2 = QPositioned /\ inc r2 = None)) ->
     QBufFits r2 -> QFuelOk ffuel r2 -> s_data (qsrc r2) = s_data (qsrc r) -> fq_m r2 <= fq_m r ->
     (let ps2 := ps ++ [fq_bp r2] in
      match fq_increment r2 with
      | None => (r2, ps2, QLPanic 3)
      | Some r4 => if reached n (length ps2) then (r4, ps2, QLDone)
                   else fq_set_loop f rfuel ffuel n is_new r4 ps2
      end) = (r', ps', res) -> res <> QLFuel).
  { intros r2 Hp Hc2 Hfit2 Hff2 Hd2 Hm2 Hx. cbv zeta in Hx. unfold fq_increment in Hx.
    assert (E : (p1 r2 + 1 <? p0 r2) = false) by (apply Nat.ltb_ge; lia). rewrite E in Hx.
    match type of Hx with (if _ then (?R, _, _) else _) = _ => set (r4 := R) in * end.
    assert (L4 : LoopOk r4).
    { destruct Hc2 as [Hf|(A & B & C)]; [left; unfold r4; fq_simpl; exact Hf|right].
      unfold r4, TailOk, OffHead. fq_simpl. rewrite C. split; [exact B|].
      destruct A as (_ & _ & d2). exact d2. }
    destruct (reached n (length (ps ++ [fq_bp r2]))).
    { inversion Hx; subst. discriminate. }
    apply (IH _ _ _ _ _ _ _ Hx L4).
    - exact Hfit2.
    - exact Hff2.
    - unfold r4. fq_simpl. rewrite Hd2. exact Hrf.
    - destruct Hc2 as [Hf|(A & B & C)].
      + left. split; [unfold r4; fq_simpl; exact Hf|lia].
      + right. unfold fq_phi, r4. unfold fq_m in *. fq_simpl. rewrite C.
        destruct A as ((((a1 & a2) & b1 & b2) & c1 & c2) & d1 & d2). lia. }
  unfold TailOk in T. destruct (inc r) as [s|] eqn:Ei.
  - destruct (fq_resume rfuel ffuel s is_new (qset_inc r None)) as [r1 rr] eqn:E1.
    assert (S0 : StageOk s (qset_inc r None)) by (eapply StageOk_ext; [| | | | |exact T]; reflexivity || auto).
    destruct (fq_resume_sane _ _ _ _ _ _ _ E1 S0) as (Np & Hr). cbn [inc qst qset_inc] in Hr. rewrite Hq in Hr.
    assert (Hfit0 : QBufFits (qset_inc r None)) by exact Hfit.
    assert (Hff0 : QFuelOk ffuel (qset_inc r None)) by exact Hff.
    pose proof (fq_resume_fits _ _ _ _ _ _ _ E1 Hfit0) as Hfit1.
    pose proof (fq_resume_strip ffuel is_new rfuel s (qset_inc r None) Hff0) as [_ Hff1].
    rewrite E1 in Hff1. cbn [fst] in Hff1.
    destruct (fq_resume_keeps _ _ _ _ _ _ _ E1) as (D1 & _ & M1 & _).
    change (s_data (qsrc (qset_inc r None))) with (s_data (qsrc r)) in D1.
    change (fq_m (qset_inc r None)) with (fq_m r) in M1.
    assert (Hnf : rr <> QrFuel).
    { apply (fq_resume_terminates _ _ _ _ _ _ _ E1 Hfit0 Hff0).
      pose proof (fq_psi_bound is_new (qset_inc r None)) as Hb.
      change (s_data (qsrc (qset_inc r None))) with (s_data (qsrc r)) in Hb. lia. }
    destruct rr as [[|]|e|x|].
    + destruct Hr as (Hp & Hc2). apply (Hfound r1 Hp Hc2 Hfit1 Hff1 D1 M1 H).
    + destruct ps; inversion H; subst; discriminate.
    + inversion H; subst. discriminate.
    + inversion H; subst. discriminate.
    + congruence.
  - destruct (fq_search_from Head false r) as [r1 sr] eqn:E1.
    destruct (fq_search_from_sane _ _ _ _ _ E1 T) as (Np & _ & Hsr).
    destruct (fq_search_step _ _ _ _ _ E1) as (B1 & C1 & S1 & P1).
    assert (Hfit1 : QBufFits r1) by (unfold QBufFits in *; rewrite B1, C1; exact Hfit).
    pose proof (QFuelOk_src _ _ _ S1 Hff) as Hff1.
    assert (M1 : fq_m r1 = fq_m r) by (unfold fq_m; rewrite B1, S1, P1; reflexivity).
    destruct sr as [|s|e|x].
    + destruct Hsr as (A & B & C & _). apply (Hfound r1); auto.
      * destruct A as ((((a1 & a2) & b1 & b2) & c1 & c2) & d1 & d2). lia.
      * right. splits; auto; congruence.
      * rewrite S1. reflexivity.
      * lia.
    + destruct Hsr as (A & B & C & _).
      assert (L1 : LoopOk r1) by (right; split; [congruence|unfold TailOk; rewrite C; exact A]).
      assert (Hrf1 : 2 * length (s_data (qsrc r1)) + 3 <= rfuel) by (rewrite S1; exact Hrf).
      assert (Hc1 : (qst r1 = QFinished /\ 1 <= f) \/ fq_phi r1 + 2 <= f).
      { right. unfold fq_phi in *. rewrite Ei in Hc. rewrite C, M1. lia. }
      destruct ps as [|p ps0]; [apply (IH _ _ _ _ _ _ _ H L1 Hfit1 Hff1 Hrf1 Hc1)|].
      destruct (below n (length (p :: ps0))); [apply (IH _ _ _ _ _ _ _ H L1 Hfit1 Hff1 Hrf1 Hc1)|].
      inversion H; subst. discriminate.
    + inversion H; subst. discriminate.
    + inversion H; subst. discriminate.
Qed.

Lemma fq_m_le_left r : fq_m r <= fq_left r.
Proof. unfold fq_m, fq_left. lia. Qed.

Lemma fq_read_set_term fuel ffuel n r rs r' rs' o : fq_read_set fuel ffuel n r rs = (r', rs', o) ->
  Keeps r r' /\
  (FqSane r -> QBufFits r -> QFuelOk ffuel r -> fq_left r <= length (s_data (qsrc r)) ->
   2 * length (s_data (qsrc r)) + 4 <= fuel -> o <> QOFuel) /\
  o <> QOOk /\ (forall x, o <> QORec x).
Proof.
  unfold fq_read_set. intros H.
  assert (Hgo : forall r0, Keeps r r0 ->
     (let '(r1, ps, lr) := fq_set_loop fuel fuel ffuel n true r0 [] in
      match lr with
      | QLDone => (r1, mkFqSet (qbuf r1) ps, QOSetOk)
      | QLErr e => (r1, mkFqSet (qsbuf rs) [], QOErr e)
      | QLPanic x => (r1, mkFqSet (qsbuf rs) ps, QOPanic x)
      | QLFuel => (r1, mkFqSet (qsbuf rs) ps, QOFuel)
      | QLNone => (r1, mkFqSet (qsbuf rs) ps, QONone)
      end) = (r', rs', o) ->
     Keeps r r' /\
     (LoopOk r0 -> QBufFits r0 -> QFuelOk ffuel r0 -> fq_left r <= length (s_data (qsrc r)) ->
      2 * length (s_data (qsrc r)) + 4 <= fuel -> o <> QOFuel) /\
     o <> QOOk /\ (forall x, o <> QORec x)).
  { intros r0 K0 Hx.
    destruct (fq_set_loop fuel fuel ffuel n true r0 []) as [[r1 ps1] lr] eqn:E.
    pose proof (Keeps_trans _ _ _ K0 (fq_set_loop_keeps _ _ _ _ _ _ _ _ _ _ E)) as K1.
    assert (Hnf : LoopOk r0 -> QBufFits r0 -> QFuelOk ffuel r0 -> fq_left r <= length (s_data (qsrc r)) ->
                  2 * length (s_data (qsrc r)) + 4 <= fuel -> lr <> QLFuel).
    { intros L0 Hfit0 Hff0 Hl Hfuel. destruct K0 as (D0 & Le0 & _).
      apply (fq_set_loop_terminates _ _ _ _ _ _ _ _ _ _ E L0 Hfit0 Hff0).
      - rewrite D0. lia.
      - right. unfold fq_phi. pose proof (fq_m_le_left r0). destruct (inc r0); lia. }
    destruct lr as [|e|x| |]; inversion Hx; subst; splits; auto; try discriminate.
    intros L0 Hfit0 Hff0 Hl Hfuel _. apply (Hnf L0 Hfit0 Hff0 Hl Hfuel). reflexivity. }
  destruct (qst r) eqn:Eq.
  - destruct (fq_init ffuel r) as [r1 ir] eqn:E1.
    destruct (fq_init_term _ _ _ _ E1) as [K1 Hn1].
    destruct ir as [[|]|e|].
    + destruct (Hgo (qset_st r1 QPositioned)) as (K & Hn & A & B); [exact K1|exact H|].
      splits; auto. intros S Hfit Hff Hl Hfuel.
      pose proof (fq_init_sane _ _ _ _ E1 S Eq) as Hi. cbn iota in Hi. destruct Hi as (Hi & S1 & _).
      apply Hn; auto.
      * right. split; [reflexivity|]. unfold TailOk. fq_simpl. rewrite Hi. exact S1.
      * apply (fq_init_fits _ _ _ _ E1 Hfit).
      * pose proof (fq_init_strip ffuel r Hff) as [_ Hx]. rewrite E1 in Hx. exact Hx.
    + inversion H; subst; splits; auto; discriminate.
    + inversion H; subst; splits; auto; discriminate.
    + inversion H; subst; splits; auto; try discriminate.
      intros _ _ Hff _ _ _. apply (Hn1 Hff). reflexivity.
  - destruct (inc r) as [s|] eqn:Ei.
    + destruct (Hgo (qset_st r QPositioned)) as (K & Hn & A & B); [apply Keeps_st|exact H|].
      splits; auto. intros S Hfit Hff Hl Hfuel. unfold FqSane in S. rewrite Eq, Ei in S.
      apply Hn; auto. right. split; [reflexivity|]. unfold TailOk. fq_simpl. rewrite Ei. exact S.
    + destruct (fq_increment r) as [r1|] eqn:E1.
      2:{ inversion H; subst; splits; try discriminate. apply Keeps_refl. }
      destruct (fq_increment_step _ _ E1) as (B1 & C1 & S1 & P1 & Q1 & I1 & _).
      assert (K1 : Keeps r (qset_st r1 QPositioned)) by (apply Keeps_fwd; auto; fq_simpl; lia).
      destruct (Hgo (qset_st r1 QPositioned)) as (K & Hn & A & B); [exact K1|exact H|].
      splits; auto. intros S Hfit Hff Hl Hfuel. unfold FqSane in S. rewrite Eq, Ei in S.
      destruct (fq_increment_sane r S) as (r1' & E1' & So1 & Hi1 & Hq1). rewrite E1 in E1'. inversion E1'; subst r1'.
      apply Hn; auto.
      * right. split; [reflexivity|]. unfold TailOk. fq_simpl. rewrite Hi1, Ei. exact So1.
      * apply (fq_increment_fits _ _ E1 Hfit).
      * apply (QFuelOk_src _ r); [exact S1|exact Hff].
  - destruct (Hgo r) as (K & Hn & A & B); [apply Keeps_refl|exact H|].
    splits; auto. intros S Hfit Hff Hl Hfuel. unfold FqSane in S. rewrite Eq in S.
    apply Hn; auto. right. split; [exact Eq|exact S].
  - inversion H; subst. splits; try discriminate. apply Keeps_refl.
Qed.

(* ------------------------------------------------------------------ *)
(** * [seek] *)

Lemma src_seek_facts s p s' res : src_seek s p = (s', res) ->
  s_data s' = s_data s /\ s_rs s' = s_rs s.
Proof.
  unfold src_seek. destruct (s_ss s) as [|[|k] ss]; intros H; inversion H; subst; auto.
Qed.

Lemma src_seek_nofail s p s' res : src_seek s p = (s', res) -> NoFailSrc s -> NoFailSrc s' /\ res = None.
Proof.
  unfold src_seek, NoFailSrc. intros H [Hr Hs].
  destruct (s_ss s) as [|[|k] ss]; inversion H; subst; clear H; cbn [s_rs s_ss]; try (inversion Hs; subst); auto.
  discriminate.
Qed.

Lemma fq_seek_term ffuel r line byte_ r' o : fq_seek ffuel r line byte_ = (r', o) ->
  s_data (qsrc r') = s_data (qsrc r) /\
  (fq_left r <= length (s_data (qsrc r)) -> fq_left r' <= length (s_data (qsrc r'))) /\
  (QFuelOk ffuel r -> o <> QOFuel) /\
  (o = QOOk \/ (exists k, o = QOErr (FqIo k)) \/ o = QOFuel) /\
  (NoFailSrc (qsrc r) -> NoFailSrc (qsrc r') /\ forall e, o <> QOErr e).
Proof.
  unfold fq_seek. intros H.
  destruct ((0 <=? Z.of_nat (p0 r) + (Z.of_nat byte_ - Z.of_nat (qbyte r)))%Z &&
            (Z.of_nat (p0 r) + (Z.of_nat byte_ - Z.of_nat (qbyte r)) <? Z.of_nat (length (qbuf r)))%Z && negb (fq_state_eqb (qst r) QNew)).
  { inversion H; subst. splits; auto; try discriminate. intros N. split; [exact N|discriminate]. }
  destruct (src_seek (qsrc r) byte_) as [s' res] eqn:Es.
  destruct (src_seek_facts _ _ _ _ Es) as [Ds Rs].
  pose proof (src_seek_nofail _ _ _ _ Es) as Ns.
  destruct res as [k|].
  { inversion H; subst. fq_simpl. splits; auto.
    - unfold src_seek in Es. unfold fq_left. fq_simpl. rewrite Ds.
      destruct (s_ss (qsrc r)) as [|[|k'] ss]; inversion Es; subst. unfold src_remaining. cbn [s_data s_pos]. auto.
    - discriminate.
    - right. left. exists k. reflexivity.
    - intros N. destruct (Ns N) as [_ Hx]. discriminate. }
  match type of H with (let '(r1, fr) := fq_fill ffuel ?R in _) = _ => set (r0 := R) in * end.
  destruct (fq_fill ffuel r0) as [r1 fr] eqn:E1.
  destruct (fq_fill_step _ _ _ _ E1) as (D1 & Cn1 & L1 & _ & _ & _ & Hfu & Hnf).
  assert (D0 : s_data (qsrc r0) = s_data (qsrc r)) by (unfold r0; fq_simpl; exact Ds).
  assert (Hl0 : fq_left r0 <= length (s_data (qsrc r0))).
  { unfold fq_left, r0. fq_simpl. cbn [length]. pose proof (src_remaining_le s'). lia. }
  assert (Hff0 : QFuelOk ffuel r -> QFuelOk ffuel r0).
  { unfold QFuelOk, r0. fq_simpl. rewrite Rs. auto. }
  assert (N0 : NoFailSrc (qsrc r) -> NoFailSrc (qsrc r1) /\ forall k, fr <> FillErr k).
  { intros N. apply Hnf. unfold r0. fq_simpl. apply (Ns N). }
  unfold fq_left in *.
  destruct fr as [m|k|]; inversion H; subst; fq_simpl; (split; [congruence|]); (split; [|split; [|split]]).
  - intros _. rewrite D1. lia.
  - discriminate.
  - left. reflexivity.
  - intros N. split; [apply (N0 N)|discriminate].
  - intros _. cbn [length]. rewrite D1. lia.
  - discriminate.
  - right. left. exists k. reflexivity.
  - intros N. destruct (N0 N) as [_ Hx]. exfalso. apply (Hx k). reflexivity.
  - intros _. rewrite D1. lia.
  - intros Hff. destruct (Hfu (Hff0 Hff)) as [Hne _]. congruence.
  - right. right. reflexivity.
  - intros N. split; [apply (N0 N)|discriminate].
Qed.

(* ------------------------------------------------------------------ *)
(** * The invariant and the theorem *)

Definition FqTerm (fuel ffuel : nat) (r : fq) : Prop :=
  FqSane r /\ QBufFits r /\
  fq_left r <= length (s_data (qsrc r)) /\
  2 * length (s_data (qsrc r)) + 4 <= fuel /\ length (s_rs (qsrc r)) + 2 <= ffuel.

Lemma FqTerm_keeps fuel ffuel r r' : FqSane r' -> QBufFits r' -> QFuelOk ffuel r' -> Keeps r r' ->
  FqTerm fuel ffuel r -> FqTerm fuel ffuel r'.
Proof.
  intros S F Q (D & L & _) (_ & _ & Hl & Hfu & _). unfold FqTerm. rewrite D. splits; auto. lia.
Qed.

Lemma fq_new_term c s p fuel ffuel :
  2 * length (s_data s) + 4 <= fuel -> length (s_rs s) + 2 <= ffuel -> FqTerm fuel ffuel (fq_new c s p).
Proof.
  intros Hf Hff. unfold FqTerm, QBufFits, fq_left. cbn [fq_new qbuf qcap qsrc length].
  pose proof (src_remaining_le s). splits; auto; try lia. apply fq_new_sane.
Qed.

Lemma fq_next_FqTerm fuel ffuel r r' o : fq_next fuel ffuel r = (r', o) -> FqTerm fuel ffuel r ->
  FqTerm fuel ffuel r' /\ o <> QOFuel /\ (forall x, o <> QOPanic x).
Proof.
  intros H T. pose proof T as (S & F & Hl & Hfu & Q).
  destruct (fq_next_sane _ _ _ _ _ H S) as [S' Np].
  destruct (fq_next_post _ _ _ _ _ H F) as [_ F'].
  pose proof (fq_next_strip fuel ffuel r Q) as [_ Q']. rewrite H in Q'. cbn [fst] in Q'.
  destruct (fq_next_term _ _ _ _ _ H) as (K & Hn & _).
  splits; auto.
  - apply (FqTerm_keeps _ _ _ _ S' F' Q' K T).
  - apply Hn; auto. lia.
Qed.

Lemma fq_read_set_FqTerm fuel ffuel n r rs r' rs' o : fq_read_set fuel ffuel n r rs = (r', rs', o) ->
  FqTerm fuel ffuel r -> FqTerm fuel ffuel r' /\ o <> QOFuel /\ (forall x, o <> QOPanic x).
Proof.
  intros H T. pose proof T as (S & F & Hl & Hfu & Q).
  destruct (fq_read_set_sane _ _ _ _ _ _ _ _ H S) as [S' Np].
  destruct (fq_read_set_post _ _ _ _ _ _ _ _ H F) as [_ F'].
  pose proof (fq_read_set_strip fuel ffuel n r rs Q) as [_ Q']. cbv zeta in Q'. rewrite H in Q'. cbn [fst] in Q'.
  destruct (fq_read_set_term _ _ _ _ _ _ _ _ H) as (K & Hn & _).
  splits; auto.
  apply (FqTerm_keeps _ _ _ _ S' F' Q' K T).
Qed.

Lemma fq_seek_FqTerm fuel ffuel r line byte_ r' o : fq_seek ffuel r line byte_ = (r', o) ->
  FqTerm fuel ffuel r -> FqTerm fuel ffuel r' /\ o <> QOFuel /\ (forall x, o <> QOPanic x).
Proof.
  intros H T. pose proof T as (S & F & Hl & Hfu & Q).
  destruct (fq_seek_sane _ _ _ _ _ _ H S) as [S' Np].
  pose proof (fq_seek_fits _ _ _ _ _ _ H F) as F'.
  pose proof (fq_seek_strip ffuel r line byte_ Q) as [_ Q']. rewrite H in Q'. cbn [fst] in Q'.
  destruct (fq_seek_term _ _ _ _ _ _ H) as (D & Hl' & Hn & _ & _).
  splits; auto.
  unfold FqTerm. splits; auto. rewrite D. exact Hfu.
Qed.

Lemma fq_set_policy_FqTerm fuel ffuel r p : FqTerm fuel ffuel r -> FqTerm fuel ffuel (fq_set_policy r p).
Proof. intros T. exact T. Qed.

Theorem fq_terminates :
  (forall c s p fuel ffuel, 2 * length (s_data s) + 4 <= fuel -> length (s_rs s) + 2 <= ffuel -> s_pos s = 0 ->
     FqTerm fuel ffuel (fq_new c s p)) /\
  (forall fuel ffuel r r' o, fq_next fuel ffuel r = (r', o) -> FqTerm fuel ffuel r ->
     FqTerm fuel ffuel r' /\ o <> QOFuel /\ (forall x, o <> QOPanic x)) /\
  (forall fuel ffuel n r rs r' rs' o, fq_read_set fuel ffuel n r rs = (r', rs', o) -> FqTerm fuel ffuel r ->
     FqTerm fuel ffuel r' /\ o <> QOFuel /\ (forall x, o <> QOPanic x)) /\
  (forall fuel ffuel r line byte_ r' o, fq_seek ffuel r line byte_ = (r', o) -> FqTerm fuel ffuel r ->
     FqTerm fuel ffuel r' /\ o <> QOFuel /\ (forall x, o <> QOPanic x)) /\
  (forall fuel ffuel r p, FqTerm fuel ffuel r -> FqTerm fuel ffuel (fq_set_policy r p)).
Proof.
  splits.
  - intros c s p fuel ffuel Hf Hff _. apply fq_new_term; assumption.
  - intros fuel ffuel r r' o H T. apply (fq_next_FqTerm _ _ _ _ _ H T).
  - intros fuel ffuel n r rs r' rs' o H T. apply (fq_read_set_FqTerm _ _ _ _ _ _ _ _ H T).
  - intros fuel ffuel r line byte_ r' o H T. apply (fq_seek_FqTerm _ _ _ _ _ _ _ H T).
  - intros fuel ffuel r p T. exact T.
Qed.

(* ------------------------------------------------------------------ *)
(** * Histories of calls ([fq_hrun] of FastqHistP.v) *)
From SeqIO Require Import Spec.FastqSpec Spec.CursorQ Proofs.FastqSetP Proofs.FastqHistP.

(** the only [OBad] observation a history can make is the I/O error of a [seek]
    ([fq_hstep] wraps every outcome of a seek other than [QOOk] in [OBad]) *)
Definition hobs_ok (ob : hobs) : Prop := forall o, ob = OBad o -> exists k, o = QOErr (FqIo k).
Definition hobs_good (ob : hobs) : Prop := forall o, ob <> OBad o.
Definition hop_seek_ok (inp : list byte) (op : hop) : Prop :=
  match op with HSeek k => k < length (fq_spec_all inp) | _ => True end.
Definition hop_no_seek (op : hop) : Prop := match op with HSeek _ => False | _ => True end.

Lemma c_rd_put_rd c r : c_rd (c_rd_put c r) = r.
Proof. reflexivity. Qed.
Lemma c_put_rd c r s x : c_rd (c_put c r s x) = r.
Proof. destruct s; reflexivity. Qed.

Lemma hobs_good_ok ob : hobs_good ob -> hobs_ok ob.
Proof. intros H o Ho. exfalso. apply (H o Ho). Qed.

Lemma fq_hstep_term inp fuel ffuel op c : FqTerm fuel ffuel (c_rd c) -> hop_seek_ok inp op ->
  let x := fq_hstep inp fuel ffuel op c in
  FqTerm fuel ffuel (c_rd (fst x)) /\ hobs_ok (snd x) /\
  (hop_no_seek op -> hobs_good (snd x)) /\
  (NoFailSrc (qsrc (c_rd c)) -> NoFailSrc (qsrc (c_rd (fst x))) /\ hobs_good (snd x)).
Proof.
  intros T Hop. cbv zeta.
  assert (Hnext : forall f : fq_out -> hobs,
            (forall o, o <> QOFuel -> (forall y, o <> QOPanic y) -> o <> QOSetOk -> o <> QOOk -> hobs_good (f o)) ->
            let x := (let '(r', o) := fq_next fuel ffuel (c_rd c) in (c_rd_put c r', f o)) in
            FqTerm fuel ffuel (c_rd (fst x)) /\ hobs_ok (snd x) /\
            (True -> hobs_good (snd x)) /\
            (NoFailSrc (qsrc (c_rd c)) -> NoFailSrc (qsrc (c_rd (fst x))) /\ hobs_good (snd x))).
  { intros f Hf. cbv zeta. destruct (fq_next fuel ffuel (c_rd c)) as [r' o] eqn:E. cbn [fst snd].
    rewrite c_rd_put_rd.
    destruct (fq_next_FqTerm _ _ _ _ _ E T) as (T' & Hn & Hp).
    destruct (fq_next_term _ _ _ _ _ E) as ((_ & _ & _ & N) & _ & A & B).
    pose proof (Hf o Hn Hp A B) as G. splits; auto. apply hobs_good_ok; exact G. }
  assert (Hset : forall n s,
            let x := (let '(r', y, o) := fq_read_set fuel ffuel n (c_rd c) (c_slot c s) in
                      (c_put c r' s y, set_obs y o)) in
            FqTerm fuel ffuel (c_rd (fst x)) /\ hobs_ok (snd x) /\
            (True -> hobs_good (snd x)) /\
            (NoFailSrc (qsrc (c_rd c)) -> NoFailSrc (qsrc (c_rd (fst x))) /\ hobs_good (snd x))).
  { intros n s. cbv zeta.
    destruct (fq_read_set fuel ffuel n (c_rd c) (c_slot c s)) as [[r' y] o] eqn:E. cbn [fst snd].
    rewrite c_put_rd.
    destruct (fq_read_set_FqTerm _ _ _ _ _ _ _ _ E T) as (T' & Hn & Hp).
    destruct (fq_read_set_term _ _ _ _ _ _ _ _ E) as ((_ & _ & _ & N) & _ & A & B).
    assert (G : hobs_good (set_obs y o)).
    { intros o' Ho'. destruct o; cbn [set_obs read_obs] in Ho'; try discriminate; try congruence;
        try (exfalso; apply (Hp site); reflexivity). }
    splits; auto. apply hobs_good_ok; exact G. }
  destruct op as [| |s|s n| | |k]; cbn [fq_hstep hop_no_seek].
  - apply (Hnext read_obs). intros o Hn Hp A B o' Ho'.
    destruct o; cbn [read_obs] in Ho'; try discriminate; try congruence; try (exfalso; apply (Hp site); reflexivity).
  - apply (Hnext owned_obs). intros o Hn Hp A B o' Ho'.
    destruct o; cbn [owned_obs read_obs] in Ho'; try discriminate; try congruence;
      try (exfalso; apply (Hp site); reflexivity).
  - apply (Hset None s).
  - apply (Hset (Some n) s).
  - cbn [fst snd]. splits; auto; try (intros o Ho; discriminate); try (intros _ o Ho; discriminate).
    intros N0. split; [exact N0|intros o Ho; discriminate].
  - cbn [fst snd]. splits; auto; try (intros o Ho; discriminate); try (intros _ o Ho; discriminate).
    intros N0. split; [exact N0|intros o Ho; discriminate].
  - cbn [hop_seek_ok] in Hop.
    destruct (nth_error (fq_spec_all inp) k) as [it|] eqn:En.
    2:{ apply nth_error_None in En. lia. }
    destruct (fq_seek ffuel (c_rd c) (fst (coords it)) (snd (coords it))) as [r' o] eqn:E. cbn [fst snd].
    rewrite c_rd_put_rd.
    destruct (fq_seek_FqTerm _ _ _ _ _ _ _ E T) as (T' & Hn & Hp).
    destruct (fq_seek_term _ _ _ _ _ _ E) as (_ & _ & _ & Hcl & N).
    splits; auto.
    + intros o' Ho'. destruct Hcl as [ -> | [ (j & ->) | -> ] ]; [discriminate| |congruence].
      inversion Ho'; subst. exists j. reflexivity.
    + intros [].
    + intros N0. destruct (N N0) as [N1 He]. split; [exact N1|].
      intros o' Ho'. destruct Hcl as [ -> | [ (j & ->) | -> ] ]; [discriminate| |congruence].
      apply (He (FqIo j)). reflexivity.
Qed.

Lemma fq_hrun_term inp fuel ffuel : forall ops c, FqTerm fuel ffuel (c_rd c) -> Forall (hop_seek_ok inp) ops ->
  Forall hobs_ok (fst (fq_hrun inp fuel ffuel ops c)) /\
  (Forall hop_no_seek ops -> Forall hobs_good (fst (fq_hrun inp fuel ffuel ops c))) /\
  (NoFailSrc (qsrc (c_rd c)) -> Forall hobs_good (fst (fq_hrun inp fuel ffuel ops c))).
Proof.
  induction ops as [|op ops IH]; intros c T Hops; cbn [fq_hrun].
  { cbn [fst]. splits; intros; constructor. }
  inversion Hops as [|? ? Hop Hrest]; subst.
  destruct (fq_hstep_term inp fuel ffuel op c T Hop) as (T1 & O1 & S1 & N1). cbv zeta in *.
  destruct (fq_hstep inp fuel ffuel op c) as [c1 o1]. cbn [fst snd] in *.
  destruct (IH c1 T1 Hrest) as (A & B & C).
  destruct (fq_hrun inp fuel ffuel ops c1) as [os c2]. cbn [fst] in *.
  splits.
  - constructor; assumption.
  - intros Hns. inversion Hns; subst. constructor; auto.
  - intros N0. destruct (N1 N0) as [N2 G]. constructor; auto.
Qed.

Lemma fq_hconf0_term cap0 inp rs ss pol fuel ffuel :
  2 * length inp + 4 <= fuel -> length rs + 2 <= ffuel ->
  FqTerm fuel ffuel (c_rd (fq_hconf0 cap0 inp rs ss pol)).
Proof. intros Hf Hff. unfold fq_hconf0, c_rd. cbn [fst]. apply fq_new_term; cbn [s_data s_rs]; assumption. Qed.

(** every history on a new reader: no call hangs, no call panics; the only
    outcome shown as [OBad] is the I/O error returned by a [seek] *)
Theorem fq_history_never_hangs_or_panics : forall inp cap0 rs ss pol fuel ffuel ops,
  2 * length inp + 4 <= fuel -> length rs + 2 <= ffuel ->
  Forall (fun op => match op with HSeek k => k < length (fq_spec_all inp) | _ => True end) ops ->
  Forall (fun ob => forall o, ob = OBad o -> exists k, o = QOErr (FqIo k))
         (fst (fq_hrun inp fuel ffuel ops (fq_hconf0 cap0 inp rs ss pol))).
Proof.
  intros inp cap0 rs ss pol fuel ffuel ops Hf Hff Hops.
  destruct (fq_hrun_term inp fuel ffuel ops _ (fq_hconf0_term cap0 inp rs ss pol fuel ffuel Hf Hff) Hops) as (A & _).
  exact A.
Qed.

(** the target statement holds for histories without seeks ... *)
Theorem fq_history_never_hangs_or_panics_no_seek : forall inp cap0 rs ss pol fuel ffuel ops,
  2 * length inp + 4 <= fuel -> length rs + 2 <= ffuel ->
  Forall (fun op => match op with HSeek _ => False | _ => True end) ops ->
  Forall (fun ob => forall o, ob <> OBad o) (fst (fq_hrun inp fuel ffuel ops (fq_hconf0 cap0 inp rs ss pol))).
Proof.
  intros inp cap0 rs ss pol fuel ffuel ops Hf Hff Hops.
  assert (Hops' : Forall (hop_seek_ok inp) ops).
  { eapply Forall_impl; [|exact Hops]. intros op H. destruct op; cbn [hop_seek_ok]; auto. destruct H. }
  destruct (fq_hrun_term inp fuel ffuel ops _ (fq_hconf0_term cap0 inp rs ss pol fuel ffuel Hf Hff) Hops') as (_ & B & _).
  apply B. exact Hops.
Qed.

(** ... and for scripts without failure items (interrupted and short reads allowed) *)
Theorem fq_history_never_hangs_or_panics_no_failure : forall inp cap0 rs ss pol fuel ffuel ops,
  2 * length inp + 4 <= fuel -> length rs + 2 <= ffuel ->
  Forall (fun i => match i with RFailI _ => False | _ => True end) rs -> Forall (fun i => i = SOk) ss ->
  Forall (fun op => match op with HSeek k => k < length (fq_spec_all inp) | _ => True end) ops ->
  Forall (fun ob => forall o, ob <> OBad o) (fst (fq_hrun inp fuel ffuel ops (fq_hconf0 cap0 inp rs ss pol))).
Proof.
  intros inp cap0 rs ss pol fuel ffuel ops Hf Hff Hrs Hss Hops.
  destruct (fq_hrun_term inp fuel ffuel ops _ (fq_hconf0_term cap0 inp rs ss pol fuel ffuel Hf Hff) Hops) as (_ & _ & C).
  apply C. split; assumption.
Qed.

(* ------------------------------------------------------------------ *)
(** * fixtures for the non-vacuity examples of Props/C06tq.v *)
From SeqIO Require Import Proofs.FastqHistEx.

(** outcome class: 0 end, 1 record, 2 set ok, 3 seek ok, 4 error, 5 panic, 6 out of fuel *)
Definition c06t_tag (o : fq_out) : nat * option fq_err :=
  match o with
  | QONone => (0, None) | QORec _ => (1, None) | QOSetOk => (2, None) | QOOk => (3, None)
  | QOErr e => (4, Some e) | QOPanic _ => (5, None) | QOFuel => (6, None)
  end.
(** a policy that always answers the current size (so never grants anything) *)
Definition pol_same : policy := fun _ c => Some c.
(** readers on [c04_inp] (three records of 11, 9 and 11 bytes) *)
Definition c06t_refuse : fq := fq_new 4 (mkSource c04_inp 0 [RDeliver 2; RInterrupt] [SFailI 7]) pol_refuse.
Definition c06t_same : fq := fq_new 11 (mkSource c04_inp 0 [RDeliver 2; RInterrupt] []) pol_same.

(** the invariant along calls, in projection form *)
Lemma FqTerm_next fuel ffuel r : FqTerm fuel ffuel r -> FqTerm fuel ffuel (fst (fq_next fuel ffuel r)).
Proof. intros T. destruct (fq_next fuel ffuel r) as [r' o] eqn:E. apply (fq_next_FqTerm _ _ _ _ _ E T). Qed.
Lemma FqTerm_read_set fuel ffuel n r rs :
  FqTerm fuel ffuel r -> FqTerm fuel ffuel (fst (fst (fq_read_set fuel ffuel n r rs))).
Proof.
  intros T. destruct (fq_read_set fuel ffuel n r rs) as [[r' rs'] o] eqn:E.
  apply (fq_read_set_FqTerm _ _ _ _ _ _ _ _ E T).
Qed.
Lemma FqTerm_seek fuel ffuel r line byte_ :
  FqTerm fuel ffuel r -> FqTerm fuel ffuel (fst (fq_seek ffuel r line byte_)).
Proof. intros T. destruct (fq_seek ffuel r line byte_) as [r' o] eqn:E. apply (fq_seek_FqTerm _ _ _ _ _ _ _ E T). Qed.

(** outcomes of the wrong kind do not occur *)
Theorem fq_outcome_kinds :
  (forall fuel ffuel r r' o, fq_next fuel ffuel r = (r', o) -> o <> QOSetOk /\ o <> QOOk) /\
  (forall fuel ffuel n r rs r' rs' o, fq_read_set fuel ffuel n r rs = (r', rs', o) ->
     o <> QOOk /\ (forall x, o <> QORec x)) /\
  (forall ffuel r line byte_ r' o, fq_seek ffuel r line byte_ = (r', o) ->
     o = QOOk \/ (exists k, o = QOErr (FqIo k)) \/ o = QOFuel).
Proof.
  split; [|split].
  - intros fuel ffuel r r' o H. apply (fq_next_term _ _ _ _ _ H).
  - intros fuel ffuel n r rs r' rs' o H. apply (fq_read_set_term _ _ _ _ _ _ _ _ H).
  - intros ffuel r line byte_ r' o H. apply (fq_seek_term _ _ _ _ _ _ H).
Qed.
