(** Event traces of the FASTQ reader model (see TraceP.v / FaTraceP.v): for
    every function of the model and EVERY state. *)
From SeqIO Require Import Model.Base Model.Fastq Proofs.TraceP.

Definition fq_core (r : fq) : core := mkCore (qcap r) (qpolf r) (qpolh r) (qlog r).

Definition fq_err_class (e : fq_err) : option adverse :=
  match e with FqIo k => Some (AIo k) | FqBufferLimit => Some ALimit | _ => None end.
Definition qgres_class (g : qgres) := match g with QGErr e => fq_err_class e | _ => None end.
Definition qrres_class (x : qrres) := match x with QrErr e => fq_err_class e | _ => None end.
Definition qsres_class (x : qsres) := match x with QsErr e => fq_err_class e | _ => None end.
Definition qires_class (x : qires) := match x with QIErr e => fq_err_class e | _ => None end.
Definition qlres_class (x : qlres) := match x with QLErr e => fq_err_class e | _ => None end.
Definition fq_out_class (o : fq_out) := match o with QOErr e => fq_err_class e | _ => None end.

Lemma qRun_eq ex a b : a = b -> Run ex a b None.
Proof. intros ->. apply Run_refl. Qed.

Lemma fq_fill_run ex ffuel r r' fr : fq_fill ffuel r = (r', fr) ->
  Run ex (fq_core r) (fq_core r') (fill_class fr) /\
  qcap r' = qcap r /\ qst r' = qst r /\ p0 r' = p0 r /\ p1 r' = p1 r /\ pseq r' = pseq r /\
  psep r' = psep r /\ pqual r' = pqual r /\ inc r' = inc r /\ qline r' = qline r /\ qbyte r' = qbyte r /\
  (exists ap, qbuf r' = qbuf r ++ ap) /\ (length (qbuf r) <= qcap r -> length (qbuf r') <= qcap r').
Proof.
  unfold fq_fill. intros H.
  destruct (fill_buf ffuel (qbuf r) (qcap r) (qsrc r) (qlog r) 0) as [[[b s] lg] res] eqn:E.
  inversion H; subst r' fr. clear H.
  destruct (fill_buf_trace _ _ _ _ _ _ _ _ _ _ E) as (added & -> & Hr & Ha & Hap & Hc).
  cbn [qcap qst p0 p1 pseq psep pqual inc qline qbyte qbuf qset_log qset_src qset_buf]. splits; auto.
  exists added. split; [|exact Ha].
  apply Step_no_grow; cbn [fq_core c_log c_polf c_polh c_cap qcap qpolf qpolh qlog qset_log qset_src qset_buf]; auto.
  apply reads_no_grow; exact Hr.
Qed.

Lemma br_reserve_bounds_q b c n : c < n ->
  c <= br_reserve b c (n - c) /\ br_reserve b c (n - c) <= n /\ (c <= length b -> br_reserve b c (n - c) = n).
Proof.
  intros Hlt. unfold br_reserve.
  destruct (n - c <=? c - length b) eqn:E; [apply Nat.leb_le in E | apply Nat.leb_gt in E].
  - splits; lia.
  - destruct b as [|x b]; cbn [length] in *; splits; lia.
Qed.

Lemma fq_grow_run ex r r' g : fq_grow r = (r', g) -> (ex = true -> qcap r <= length (qbuf r)) ->
  Run ex (fq_core r) (fq_core r') (qgres_class g) /\
  qst r' = qst r /\ p0 r' = p0 r /\ p1 r' = p1 r /\ pseq r' = pseq r /\ psep r' = psep r /\
  pqual r' = pqual r /\ inc r' = inc r /\ qbuf r' = qbuf r /\ qline r' = qline r /\ qbyte r' = qbyte r /\
  qcap r <= qcap r' /\ (g <> QGOk -> qcap r' = qcap r).
Proof.
  unfold fq_grow. intros H Hfull.
  destruct (qpolf r (qpolh r) (qcap r)) as [n|] eqn:Ea; [destruct (n <=? qcap r) eqn:En|];
    inversion H; subst r' g; clear H;
    cbn [qcap qst p0 p1 pseq psep pqual inc qbuf qline qbyte qset_log qset_pol qset_cap]; splits; auto; try congruence.
  - exists [EvGrow (qcap r) (Some n)]. split.
    + apply (Step_one_grow ex (fq_core r)); cbn [fq_core c_log c_polf c_polh c_cap qcap qpolf qpolh qlog qset_log qset_pol]; auto.
      apply ct_refuse; [apply ct_nil|]. cbn [ev_refuse]. exact En.
    + cbn [qgres_class fq_err_class AdverseSpec]. eexists _, []. splits; [reflexivity| |apply benign_nil].
      unfold ev_adverse. cbn [ev_fail ev_refuse]. rewrite En. reflexivity.
  - apply Nat.leb_gt in En. destruct (br_reserve_bounds_q (qbuf r) (qcap r) n En) as (B1 & B2 & B3).
    exists [EvGrow (qcap r) (Some n)]. split.
    + apply (Step_one_grow ex (fq_core r)); cbn [fq_core c_log c_polf c_polh c_cap qcap qpolf qpolh qlog qset_log qset_pol qset_cap]; auto.
      apply ct_grow; [apply ct_nil|exact En|exact B1|exact B2|]. intros Hex. apply B3. apply Hfull. exact Hex.
    + cbn [qgres_class AdverseSpec]. constructor; [|constructor].
      unfold ev_adverse. cbn [ev_fail ev_refuse]. apply Nat.leb_gt in En. rewrite En. reflexivity.
  - apply Nat.leb_gt in En. destruct (br_reserve_bounds_q (qbuf r) (qcap r) n En) as (B1 & B2 & B3). exact B1.
  - exists [EvGrow (qcap r) None]. split.
    + apply (Step_one_grow ex (fq_core r)); cbn [fq_core c_log c_polf c_polh c_cap qcap qpolf qpolh qlog qset_log qset_pol]; auto.
      apply ct_refuse; [apply ct_nil|]. reflexivity.
    + cbn [qgres_class fq_err_class AdverseSpec]. eexists _, []. splits; [reflexivity|reflexivity|apply benign_nil].
Qed.

Lemma fq_make_room_facts s r r' g : fq_make_room s r = (r', g) ->
  fq_core r' = fq_core r /\ qst r' = qst r /\ p0 r' = 0 /\ (forall e, g <> QGErr e) /\
  length (qbuf r') <= length (qbuf r).
Proof.
  unfold fq_make_room. intros H.
  assert (Hl : length (skipn (p0 r) (qbuf r)) <= length (qbuf r)) by (rewrite skipn_length; lia).
  destruct s; cbn [stage_leb stage_num Nat.leb] in H;
    repeat match type of H with context [if ?c then _ else _] => destruct c end;
    inversion H; subst; cbn; splits; auto; discriminate.
Qed.

Lemma fq_error_pos_st r x lo pid : fq_error_pos (qset_st r x) lo pid = fq_error_pos r lo pid.
Proof. reflexivity. Qed.

Lemma fq_validate_facts r r' v : fq_validate r = (r', v) ->
  fq_core r' = fq_core r /\ qbuf r' = qbuf r /\ (forall e, v = VErr e -> fq_err_class e = None) /\
  inc r' = inc r /\ p0 r' = p0 r.
Proof.
  unfold fq_validate. intros H.
  repeat match type of H with
         | context [match nth_error ?l ?n with _ => _ end] => destruct (nth_error l n)
         | context [match fq_error_pos ?a ?b ?c with _ => _ end] => destruct (fq_error_pos a b c) as [[? ?]|]
         | context [match bp_seq ?a ?b ?c with _ => _ end] => destruct (bp_seq a b c)
         | context [match bp_qual ?a ?b ?c with _ => _ end] => destruct (bp_qual a b c)
         | context [if ?c then _ else _] => destruct c
         end;
    inversion H; subst; cbn; splits; auto; intros e He; inversion He; subst; reflexivity.
Qed.

Lemma fq_search_from_facts from clear r r' sr : fq_search_from from clear r = (r', sr) ->
  fq_core r' = fq_core r /\ qbuf r' = qbuf r /\ qsres_class sr = None /\ p0 r' = p0 r /\
  (forall s, sr = QsIncomplete s -> inc r' = Some s).
Proof.
  unfold fq_search_from. intros H.
  destruct from; cbn [stage_leb stage_num Nat.leb] in H;
  repeat match type of H with
         | context [match fq_find_line ?b ?p with _ => _ end] => destruct (fq_find_line b p) as [[?|]|]
         end;
    try (inversion H; subst; cbn; splits; auto; intros s0 Hs0; inversion Hs0; subst; reflexivity);
    match type of H with of_vres (fq_validate ?R) = _ =>
      destruct (fq_validate R) as [rv v] eqn:Ev; destruct (fq_validate_facts _ _ _ Ev) as (Hc & Hb & He & Hi & Hp);
      destruct v; cbn [of_vres] in H; inversion H; subst; clear H;
      (splits; [rewrite Hc; destruct clear; reflexivity | rewrite Hb; destruct clear; reflexivity
               | cbn [qsres_class]; auto | rewrite Hp; destruct clear; reflexivity | intros s0 Hs0; discriminate])
    end.
Qed.

Lemma fq_check_end_facts s r r' rr : fq_check_end s r = (r', rr) ->
  fq_core r' = fq_core r /\ qrres_class rr = None.
Proof.
  unfold fq_check_end. intros H.
  assert (Hq : forall r0, fq_core r0 = fq_core r ->
            match fq_validate r0 with
            | (r1, VOk) => (r1, QrOk true) | (r1, VErr e) => (r1, QrErr e) | (r1, VPanic x) => (r1, QrPanic x)
            end = (r', rr) -> fq_core r' = fq_core r /\ qrres_class rr = None).
  { intros r0 H0 Hv. destruct (fq_validate r0) as [r1 v] eqn:Ev.
    destruct (fq_validate_facts _ _ _ Ev) as (Hc & _ & He & _).
    destruct v; inversion Hv; subst; (split; [congruence|]); cbn [qrres_class]; auto. }
  destruct s; try (apply (Hq (qset_p1 r (length (qbuf r))) eq_refl H));
    (destruct (length (qbuf r) <? p0 r); [inversion H; subst; auto|];
     destruct (forallb _ _); [inversion H; subst; auto|];
     destruct (fq_error_pos _ _ _) as [[l id]|]; inversion H; subst; auto).
Qed.

Lemma fq_resume_run ex ffuel mk : forall fuel s r r' res,
  fq_resume fuel ffuel s mk r = (r', res) ->
  Run ex (fq_core r) (fq_core r') (qrres_class res).
Proof.
  induction fuel as [|f IH]; intros s r r' res H; cbn [fq_resume] in H.
  { inversion H; subst. apply Run_refl. }
  destruct (length (qbuf r) <? qcap r) eqn:Efull; [apply Nat.ltb_lt in Efull | apply Nat.ltb_ge in Efull].
  { destruct (fq_check_end_facts _ _ _ _ H) as [Hc Hn]. rewrite Hn. apply qRun_eq. symmetry. exact Hc. }
  destruct (if negb mk || (p0 r =? 0) then fq_grow r else fq_make_room s r) as [r1 g] eqn:E1.
  assert (Hg : Run ex (fq_core r) (fq_core r1) (qgres_class g)).
  { destruct (negb mk || (p0 r =? 0)).
    - apply (fq_grow_run ex _ _ _ E1). intros _. exact Efull.
    - destruct (fq_make_room_facts _ _ _ _ E1) as (Hc & _ & _ & Hne & _).
      replace (qgres_class g) with (@None adverse).
      + apply qRun_eq. symmetry. exact Hc.
      + destruct g; try reflexivity. exfalso. apply (Hne e). reflexivity. }
  destruct g as [|e|x]; [|inversion H; subst; exact Hg|inversion H; subst; exact Hg].
  destruct (fq_fill ffuel r1) as [r2 fr] eqn:E2.
  destruct (fq_fill_run ex _ _ _ _ E2) as (Hf & _).
  destruct fr as [n|k|]; [|inversion H; subst; eapply Run_seq; eassumption|inversion H; subst; eapply Run_seq; eassumption].
  destruct (fq_search_from s true r2) as [r3 sr] eqn:E3.
  destruct (fq_search_from_facts _ _ _ _ _ E3) as (Hc & _ & Hcls & _).
  assert (H3 : Run ex (fq_core r) (fq_core r3) None).
  { eapply Run_seq; [exact Hg|]. eapply Run_seq; [exact Hf|]. apply qRun_eq. symmetry; exact Hc. }
  destruct sr as [|s'|e|x]; try (inversion H; subst; exact H3).
  - eapply Run_seq; [exact H3|]. eapply IH. exact H.
  - inversion H; subst. cbn [qrres_class]. cbn [qsres_class] in Hcls. rewrite Hcls. exact H3.
Qed.

Lemma fq_init_run ex ffuel r r' res : fq_init ffuel r = (r', res) ->
  Run ex (fq_core r) (fq_core r') (qires_class res).
Proof.
  unfold fq_init. intros H.
  destruct (fq_fill ffuel r) as [r1 fr] eqn:E1.
  destruct (fq_fill_run ex _ _ _ _ E1) as (Hf & _).
  destruct fr as [[|n]|k|]; inversion H; subst; exact Hf.
Qed.

Lemma fq_next_tail_run ex fuel ffuel r r' o : fq_next_tail fuel ffuel r = (r', o) ->
  Run ex (fq_core r) (fq_core r') (fq_out_class o).
Proof.
  unfold fq_next_tail. intros H.
  destruct (match inc r with None => fq_search_from Head false r | Some _ => (r, QsRec) end) as [r1 sr] eqn:E1.
  assert (H1 : fq_core r1 = fq_core r /\ qsres_class sr = None).
  { destruct (inc r).
    - inversion E1; subst. auto.
    - destruct (fq_search_from_facts _ _ _ _ _ E1) as (Hc & _ & Hcls & _). auto. }
  destruct H1 as [Hc Hcls].
  assert (R1 : Run ex (fq_core r) (fq_core r1) None) by (apply qRun_eq; symmetry; exact Hc).
  assert (Hrest : match inc r1 with
      | Some s =>
          let '(r2, rr) := fq_resume fuel ffuel s true r1 in
          match rr with
          | QrErr e => (r2, QOErr e)
          | QrPanic x => (r2, QOPanic x)
          | QrFuel => (r2, QOFuel)
          | QrOk false => (r2, QONone)
          | QrOk true => (r2, QORec (fq_cur r2))
          end
      | None => (r1, QORec (fq_cur r1))
      end = (r', o) -> Run ex (fq_core r) (fq_core r') (fq_out_class o)).
  { intros Hq. destruct (inc r1) as [s|]; [|inversion Hq; subst; exact R1].
    destruct (fq_resume fuel ffuel s true r1) as [r2 rr] eqn:E2.
    pose proof (fq_resume_run ex _ _ _ _ _ _ _ E2) as R2.
    pose proof (Run_seq _ _ _ _ _ R1 R2) as R.
    destruct rr as [[|]|e|x|]; inversion Hq; subst; exact R. }
  destruct sr as [|s|e|x]; try (apply Hrest; exact H).
  - inversion H; subst. cbn [fq_out_class]. cbn [qsres_class] in Hcls. rewrite Hcls. exact R1.
  - inversion H; subst. exact R1.
Qed.

Lemma fq_increment_facts r r' : fq_increment r = Some r' ->
  fq_core r' = fq_core r /\ qbuf r' = qbuf r /\ qst r' = qst r /\ inc r' = inc r.
Proof.
  unfold fq_increment. destruct (p1 r + 1 <? p0 r); [discriminate|].
  intros H; inversion H; subst. cbn. auto.
Qed.

Lemma fq_next_run ex fuel ffuel r r' o : fq_next fuel ffuel r = (r', o) ->
  Run ex (fq_core r) (fq_core r') (fq_out_class o).
Proof.
  unfold fq_next. intros H.
  destruct (qst r) eqn:Es.
  - destruct (fq_init ffuel r) as [r1 ir] eqn:E1.
    pose proof (fq_init_run ex _ _ _ _ E1) as R1.
    destruct ir as [[|]|e|]; try (inversion H; subst; exact R1).
    eapply Run_seq; [exact R1|]. apply (fq_next_tail_run ex fuel ffuel (qset_st r1 QParsing)). exact H.
  - destruct (inc r); [eapply fq_next_tail_run; exact H|].
    destruct (fq_increment r) as [r1|] eqn:E1; [|inversion H; subst; apply Run_refl].
    destruct (fq_increment_facts _ _ E1) as (Hc & _).
    eapply Run_seq; [apply qRun_eq; symmetry; exact Hc|]. eapply fq_next_tail_run; exact H.
  - apply (fq_next_tail_run ex fuel ffuel (qset_st r QParsing)). exact H.
  - inversion H; subst. apply Run_refl.
Qed.

Lemma fq_set_loop_run ex rfuel ffuel : forall fuel n is_new r ps r' ps' res,
  fq_set_loop fuel rfuel ffuel n is_new r ps = (r', ps', res) ->
  Run ex (fq_core r) (fq_core r') (qlres_class res).
Proof.
  induction fuel as [|f IH]; intros n is_new r ps r' ps' res H; cbn [fq_set_loop] in H.
  { inversion H; subst; apply Run_refl. }
  destruct (fq_state_eqb (qst r) QFinished); [inversion H; subst; apply Run_refl|].
  assert (Hfound : forall r2, Run ex (fq_core r) (fq_core r2) None ->
     (let ps2 := ps ++ [fq_bp r2] in
      match fq_increment r2 with
      | None => (r2, ps2, QLPanic 3)
      | Some r4 => if reached n (length ps2) then (r4, ps2, QLDone)
                   else fq_set_loop f rfuel ffuel n is_new r4 ps2
      end) = (r', ps', res) -> Run ex (fq_core r) (fq_core r') (qlres_class res)).
  { intros r2 R2 Hq. cbv zeta in Hq.
    destruct (fq_increment r2) as [r4|] eqn:Ei; [|inversion Hq; subst; exact R2].
    destruct (fq_increment_facts _ _ Ei) as (Hc & _).
    assert (R4 : Run ex (fq_core r) (fq_core r4) None).
    { eapply Run_seq; [exact R2|apply qRun_eq; symmetry; exact Hc]. }
    destruct (reached n (length (ps ++ [fq_bp r2]))); [inversion Hq; subst; exact R4|].
    eapply Run_seq; [exact R4|]. eapply IH. exact Hq. }
  destruct (inc r) as [s|].
  - destruct (fq_resume rfuel ffuel s is_new (qset_inc r None)) as [r1 rr] eqn:E1.
    pose proof (fq_resume_run ex _ _ _ _ _ _ _ E1) as R1.
    change (fq_core (qset_inc r None)) with (fq_core r) in R1.
    destruct rr as [[|]|e|x|]; try (inversion H; subst; exact R1).
    + apply (Hfound r1 R1 H).
    + destruct ps; inversion H; subst; exact R1.
  - destruct (fq_search_from Head false r) as [r1 sr] eqn:E1.
    destruct (fq_search_from_facts _ _ _ _ _ E1) as (Hc & _ & Hcls & _).
    assert (R1 : Run ex (fq_core r) (fq_core r1) None) by (apply qRun_eq; symmetry; exact Hc).
    destruct sr as [|s|e|x].
    + apply (Hfound r1 R1 H).
    + destruct ps as [|p ps0]; [eapply Run_seq; [exact R1|]; eapply IH; exact H|].
      destruct (below n (length (p :: ps0))); [eapply Run_seq; [exact R1|]; eapply IH; exact H|].
      inversion H; subst; exact R1.
    + inversion H; subst. cbn [qlres_class]. cbn [qsres_class] in Hcls. rewrite Hcls. exact R1.
    + inversion H; subst; exact R1.
Qed.

Lemma fq_read_set_run ex fuel ffuel n r rs r' rs' o :
  fq_read_set fuel ffuel n r rs = (r', rs', o) ->
  Run ex (fq_core r) (fq_core r') (fq_out_class o).
Proof.
  unfold fq_read_set. intros H.
  assert (Hgo : forall r0, Run ex (fq_core r) (fq_core r0) None ->
     (let '(r1, ps, lr) := fq_set_loop fuel fuel ffuel n true r0 [] in
      match lr with
      | QLDone => (r1, mkFqSet (qbuf r1) ps, QOSetOk)
      | QLErr e => (r1, mkFqSet (qsbuf rs) [], QOErr e)
      | QLPanic x => (r1, mkFqSet (qsbuf rs) ps, QOPanic x)
      | QLFuel => (r1, mkFqSet (qsbuf rs) ps, QOFuel)
      | QLNone => (r1, mkFqSet (qsbuf rs) ps, QONone)
      end) = (r', rs', o) -> Run ex (fq_core r) (fq_core r') (fq_out_class o)).
  { intros r0 R0 Hq.
    destruct (fq_set_loop fuel fuel ffuel n true r0 []) as [[r1 ps1] lr] eqn:E.
    pose proof (fq_set_loop_run ex _ _ _ _ _ _ _ _ _ _ E) as R1.
    pose proof (Run_seq _ _ _ _ _ R0 R1) as R.
    destruct lr; inversion Hq; subst; exact R. }
  destruct (qst r) eqn:Es.
  - destruct (fq_init ffuel r) as [r1 ir] eqn:E1.
    pose proof (fq_init_run ex _ _ _ _ E1) as R1.
    destruct ir as [[|]|e|]; try (inversion H; subst; exact R1).
    apply (Hgo (qset_st r1 QPositioned)); [exact R1|exact H].
  - destruct (inc r).
    + apply (Hgo (qset_st r QPositioned)); [apply qRun_eq; reflexivity|exact H].
    + destruct (fq_increment r) as [r1|] eqn:E1; [|inversion H; subst; apply Run_refl].
      destruct (fq_increment_facts _ _ E1) as (Hc & _).
      apply (Hgo (qset_st r1 QPositioned)); [apply qRun_eq; symmetry; exact Hc|exact H].
  - apply (Hgo r); [apply Run_refl|exact H].
  - inversion H; subst. apply Run_refl.
Qed.

Lemma fq_seek_run ex ffuel r line byte_ r' o : fq_seek ffuel r line byte_ = (r', o) ->
  Run ex (fq_core r) (fq_core r') (fq_out_class o).
Proof.
  unfold fq_seek. intros H.
  destruct ((0 <=? Z.of_nat (p0 r) + (Z.of_nat byte_ - Z.of_nat (qbyte r)))%Z &&
            (Z.of_nat (p0 r) + (Z.of_nat byte_ - Z.of_nat (qbyte r)) <? Z.of_nat (length (qbuf r)))%Z && negb (fq_state_eqb (qst r) QNew)).
  { inversion H; subst. apply qRun_eq. reflexivity. }
  destruct (src_seek (qsrc r) byte_) as [s' res] eqn:Es.
  destruct res as [k|].
  - inversion H; subst. exists [EvSeek byte_ (Some k)]. split.
    + apply Step_no_grow; reflexivity.
    + cbn [fq_out_class fq_err_class AdverseSpec]. eexists _, []. splits; [reflexivity|reflexivity|apply benign_nil].
  - match type of H with (let '(r1, fr) := fq_fill ffuel ?R in _) = _ => set (r0 := R) in * end.
    assert (R0 : Run ex (fq_core r) (fq_core r0) None).
    { exists [EvSeek byte_ None]. split; [apply Step_no_grow; reflexivity|]. repeat constructor. }
    destruct (fq_fill ffuel r0) as [r1 fr] eqn:E1.
    destruct (fq_fill_run ex _ _ _ _ E1) as (Hf & _).
    pose proof (Run_seq _ _ _ _ _ R0 Hf) as R.
    destruct fr; inversion H; subst; exact R.
Qed.

Lemma fq_set_policy_fields r p :
  let r' := fq_set_policy r p in
  qbuf r' = qbuf r /\ qcap r' = qcap r /\ qsrc r' = qsrc r /\ p0 r' = p0 r /\ p1 r' = p1 r /\
  pseq r' = pseq r /\ psep r' = psep r /\ pqual r' = pqual r /\ inc r' = inc r /\
  qline r' = qline r /\ qbyte r' = qbyte r /\ qst r' = qst r /\ qlog r' = qlog r /\
  qpolf r' = p /\ qpolh r' = [].
Proof. cbn. splits; reflexivity. Qed.
