(** C06, the unifying theorem for the FASTA reader: whatever the history of
    calls and whatever the failures of the source (reads and seeks, anywhere,
    any number of them), every record the reader returns is a record of the
    input.

    Method.  Between two operations the reader [r] is looked at through its
    HEALTHY TWIN [hl r]: the same reader state over the source whose two scripts
    are cut just before their first failure ([fa_cut (hl r) r], Proofs/FaPrefixP.v).
    The twin is in one of six states ([GSt]):
      - New, possibly after failed attempts of the first call ([InitMid]),
      - one of the four call-boundary states of the fault-free theory
        ([AtRec], [PosAt], [IncAt], [EndAt] of Proofs/FastaNextP.v, FastaSetP.v),
      - Dead: finished with an empty buffer (after a failed refill).
    One operation on [r] either behaves like the operation on the twin
    ([fa_calls_before_failure]) -- then the fault-free theory says what is
    returned and in which state the twin is left -- or it returns the I/O error;
    then the reader is New-after-a-failed-attempt again, or Dead, or (failed
    source seek) unchanged, and its NEW twin (the scripts cut before the NEXT
    failure) is in one of the six states again. *)
From Coq Require Import Sorting.Sorted.
From SeqIO Require Import Model.Base Model.Fasta Model.Views Spec.FastaSpec Spec.Cursor
     Proofs.Window Proofs.FastaScanP Proofs.FastaInv Proofs.FastaStream Proofs.FastaNextP
     Proofs.FastaInitP Proofs.ViewsP Proofs.ViewShiftP Proofs.FastaPosP Proofs.FastaTopP
     Proofs.FastaSetP Proofs.FastaSeekP
     Proofs.TraceP Proofs.FaTraceP Proofs.FaultP Proofs.GrowP Proofs.InterruptP Proofs.FinalErrP
     Proofs.FastaHistP Proofs.FaTermP Proofs.FaPrefixP Proofs.FaInitRetryP.

(* ------------------------------------------------------------------ *)
(** * Cutting the scripts of a source before their first failures *)

Fixpoint cut_rs (l : list ritem) : list ritem :=
  match l with
  | [] => []
  | RFailI _ :: _ => []
  | x :: t => x :: cut_rs t
  end.

Fixpoint cut_ss (l : list sitem) : list sitem :=
  match l with
  | [] => []
  | SFailI _ :: _ => []
  | x :: t => x :: cut_ss t
  end.

Definition cut_src (s : source) : source :=
  mkSource (s_data s) (s_pos s) (cut_rs (s_rs s)) (cut_ss (s_ss s)).

(** the healthy twin of a reader *)
Definition hl (r : fa) : fa := set_src r (cut_src (src r)).

Lemma cut_rs_spec l : exists rt, l = cut_rs l ++ rt /\ rtail_ok rt.
Proof.
  induction l as [|x t (rt & E & Hrt)]; [exists []; split; [reflexivity|exact I]|].
  destruct x as [m| |k]; cbn [cut_rs].
  - exists rt. cbn [app]. split; [f_equal; exact E|exact Hrt].
  - exists rt. cbn [app]. split; [f_equal; exact E|exact Hrt].
  - exists (RFailI k :: t). split; [reflexivity|exact I].
Qed.

Lemma cut_ss_spec l : exists rt, l = cut_ss l ++ rt /\ stail_ok rt.
Proof.
  induction l as [|x t (rt & E & Hrt)]; [exists []; split; [reflexivity|exact I]|].
  destruct x as [|k]; cbn [cut_ss].
  - exists rt. cbn [app]. split; [f_equal; exact E|exact Hrt].
  - exists (SFailI k :: t). split; [reflexivity|exact I].
Qed.

Lemma cut_rs_ok l : forallb item_ok (cut_rs l) = true.
Proof. induction l as [|[m| |k] t IH]; cbn [cut_rs forallb item_ok andb]; auto. Qed.

Lemma cut_ss_ok l : forallb sitem_ok (cut_ss l) = true.
Proof. induction l as [|[|k] t IH]; cbn [cut_ss forallb sitem_ok andb]; auto. Qed.

Lemma cut_rs_len l : length (cut_rs l) <= length l.
Proof. induction l as [|[m| |k] t IH]; cbn [cut_rs length]; lia. Qed.

Lemma cut_rs_app_ok a rt : forallb item_ok a = true -> rtail_ok rt -> cut_rs (a ++ rt) = a.
Proof.
  intros Ha Hrt. induction a as [|x a IH]; cbn [app].
  - destruct rt as [|[m| |k] rt]; cbn [rtail_ok] in Hrt; try contradiction; reflexivity.
  - cbn [forallb] in Ha. apply andb_true_iff in Ha. destruct Ha as [Hx Ha].
    destruct x as [m| |k]; [| |discriminate]; cbn [cut_rs]; rewrite (IH Ha); reflexivity.
Qed.

Lemma cut_ss_app_ok a rt : forallb sitem_ok a = true -> stail_ok rt -> cut_ss (a ++ rt) = a.
Proof.
  intros Ha Hrt. induction a as [|x a IH]; cbn [app].
  - destruct rt as [|[|k] rt]; cbn [stail_ok] in Hrt; try contradiction; reflexivity.
  - cbn [forallb] in Ha. apply andb_true_iff in Ha. destruct Ha as [Hx Ha].
    destruct x as [|k]; [|discriminate]; cbn [cut_ss]; rewrite (IH Ha); reflexivity.
Qed.

Lemma cut_src_cut s : src_cut (cut_src s) s.
Proof.
  unfold src_cut, cut_src. cbn [s_data s_pos s_rs s_ss].
  split; [reflexivity|]. split; [reflexivity|]. split; [apply cut_rs_spec|apply cut_ss_spec].
Qed.

Lemma hl_cut r : fa_cut (hl r) r.
Proof.
  unfold fa_cut, hl. split; [destruct r; reflexivity|]. fa_simpl. apply cut_src_cut.
Qed.

Lemma hl_nf r : no_fail (src (hl r)).
Proof. unfold no_fail, hl. fa_simpl. cbn [cut_src s_rs]. apply cut_rs_ok. Qed.

Lemma hl_sk r : seek_ok (src (hl r)).
Proof. unfold seek_ok, hl. fa_simpl. cbn [cut_src s_ss]. apply cut_ss_ok. Qed.

(** a fault-free cut of [s] is THE cut of [s] *)
Lemma src_cut_unique s0 s : src_cut s0 s -> no_fail s0 -> seek_ok s0 -> s0 = cut_src s.
Proof.
  intros (Hd & Hp & (rt & Hrs & Hrt) & (st_ & Hss & Hst)) Hnf Hsk.
  unfold cut_src. rewrite Hd, Hp, Hrs, Hss.
  rewrite (cut_rs_app_ok _ _ Hnf Hrt), (cut_ss_app_ok _ _ Hsk Hst). destruct s0; reflexivity.
Qed.

Lemma fa_cut_hl r0 r : fa_cut r0 r -> no_fail (src r0) -> seek_ok (src r0) -> r0 = hl r.
Proof.
  intros Hc Hnf Hsk. destruct (fa_cut_inv _ _ Hc) as (s & -> & Hs).
  unfold hl. fa_simpl. rewrite <- (src_cut_unique _ _ Hs Hnf Hsk). destruct r0; reflexivity.
Qed.

Lemma hl_fuel ffuel r : FuelOk ffuel r -> FuelOk ffuel (hl r).
Proof.
  unfold FuelOk, hl. fa_simpl. cbn [cut_src s_rs]. pose proof (cut_rs_len (s_rs (src r))). lia.
Qed.

(** changing only the seek script and the log *)
Definition reseat (r : fa) (ss' : list sitem) (lg : list ev) : fa :=
  set_log (set_src r (mkSource (s_data (src r)) (s_pos (src r)) (s_rs (src r)) ss')) lg.

Lemma hl_reseat r ss' lg : hl (reseat r ss' lg) = reseat (hl r) (cut_ss ss') lg.
Proof. destruct r. reflexivity. Qed.

(* ------------------------------------------------------------------ *)
(** * What every operation keeps, whatever the source does *)

Section Frame.
  Variables (inp : list byte) (ffuel : nat).

  Record Base0 (r : fa) : Prop := mkBase0 {
    b_data : s_data (src r) = inp;
    b_cap : 1 <= cap r;
    b_pol : PolOk (polf r);
    b_fuel : FuelOk ffuel r
  }.

  Lemma Run_frame a b cls : Run false a b cls -> c_polf b = c_polf a /\ c_cap a <= c_cap b.
  Proof.
    intros (added & [L F H A C] & _). split; [exact F|]. eapply CapTrace_mono; exact C.
  Qed.

  Lemma Base0_next fuel r r' o : fa_next fuel ffuel r = (r', o) -> Base0 r -> Base0 r' /\ cap r <= cap r'.
  Proof.
    intros H [D C P F].
    destruct (Run_frame _ _ _ (fa_next_run false _ _ _ _ _ H ltac:(discriminate))) as [Hp Hc].
    cbn [fa_core c_polf c_cap] in Hp, Hc.
    destruct (fa_next_shrinks _ _ _ _ _ H) as (Hd & _).
    destruct (fa_next_strip fuel ffuel r F) as [_ Hf]. rewrite H in Hf. cbn [fst] in Hf.
    split; [|exact Hc]. constructor; [congruence|lia|rewrite Hp; exact P|exact Hf].
  Qed.

  Lemma Base0_set fuel n r rs r' rs' o : fa_read_set fuel ffuel n r rs = (r', rs', o) -> Base0 r ->
    Base0 r' /\ cap r <= cap r'.
  Proof.
    intros H [D C P F].
    destruct (Run_frame _ _ _ (fa_read_set_run false _ _ _ _ _ _ _ _ H ltac:(discriminate))) as [Hp Hc].
    cbn [fa_core c_polf c_cap] in Hp, Hc.
    destruct (fa_read_set_shrinks _ _ _ _ _ _ _ _ H) as (Hd & _).
    destruct (fa_read_set_strip fuel ffuel n r rs F) as [_ Hf]. cbv zeta in Hf. rewrite H in Hf. cbn [fst] in Hf.
    split; [|exact Hc]. constructor; [congruence|lia|rewrite Hp; exact P|exact Hf].
  Qed.

  Lemma Base0_seek r line byte_ r' o : fa_seek ffuel r line byte_ = (r', o) -> Base0 r ->
    Base0 r' /\ cap r <= cap r'.
  Proof.
    intros H [D C P F].
    destruct (Run_frame _ _ _ (fa_seek_run false _ _ _ _ _ _ H)) as [Hp Hc].
    cbn [fa_core c_polf c_cap] in Hp, Hc.
    destruct (fa_seek_left _ _ _ _ _ _ H) as (Hd & _).
    destruct (fa_seek_strip ffuel r line byte_ F) as [_ Hf]. rewrite H in Hf. cbn [fst] in Hf.
    split; [|exact Hc]. constructor; [congruence|lia|rewrite Hp; exact P|exact Hf].
  Qed.
End Frame.

(* ------------------------------------------------------------------ *)
(** * Where an I/O error leaves the reader *)

Lemma next_io_cases fuel ffuel r r' k : fa_next fuel ffuel r = (r', OErr (FaIo k)) ->
  (st r = FNew /\ fa_init fuel ffuel r = (r', IErr (FaIo k))) \/ (st r' = FFinished /\ buf r' = []).
Proof.
  unfold fa_next. intros H. destruct (st r) eqn:Es.
  - destruct (fa_init fuel ffuel r) as [r1 ir] eqn:E1.
    destruct ir as [[|]|e|]; try discriminate.
    + right. apply (fa_next_tail_io_state _ _ _ _ _ H).
    + inversion H; subst. left. split; reflexivity.
  - destruct (fa_increment r) as [r1|]; [|discriminate]. right. apply (fa_next_tail_io_state _ _ _ _ _ H).
  - right. apply (fa_next_tail_io_state _ _ _ _ _ H).
  - right. apply (fa_next_tail_io_state _ _ _ _ _ H).
  - discriminate.
Qed.

Lemma set_io_cases fuel ffuel n r rs r' rs' k : fa_read_set fuel ffuel n r rs = (r', rs', OErr (FaIo k)) ->
  (st r = FNew /\ fa_init fuel ffuel r = (r', IErr (FaIo k)) /\ rs' = rs) \/
  (st r' = FFinished /\ buf r' = [] /\ fa_set_records rs' = []).
Proof.
  unfold fa_read_set. intros H.
  assert (Hgo : forall r0,
     fa_set_finish (fa_set_loop fuel fuel ffuel n true r0 (mkFaSet (sbuf rs) (spositions rs) 0)) = (r', rs', OErr (FaIo k)) ->
     st r' = FFinished /\ buf r' = [] /\ fa_set_records rs' = []).
  { intros r0 Hq. destruct (fa_set_loop fuel fuel ffuel n true r0 (mkFaSet (sbuf rs) (spositions rs) 0)) as [[r1 rs1] lr] eqn:E.
    unfold fa_set_finish in Hq. destruct lr as [|e|s| |]; try discriminate. inversion Hq; subst.
    destruct (fa_set_loop_io_state _ _ _ _ _ _ _ _ _ _ E) as [A B]. split; [exact A|]. split; [exact B|reflexivity]. }
  destruct (st r) eqn:Es.
  - destruct (fa_init fuel ffuel r) as [r1 ir] eqn:E1.
    destruct ir as [[|]|e|]; try discriminate.
    + right. apply (Hgo _ H).
    + inversion H; subst. left. split; [reflexivity|]. split; reflexivity.
  - destruct (fa_increment r) as [r1|]; [|discriminate]. right. apply (Hgo _ H).
  - right. apply (Hgo _ H).
  - right. apply (Hgo _ H).
  - discriminate.
Qed.

Lemma seek_io_cases ffuel r line byte_ r' k : fa_seek ffuel r line byte_ = (r', OErr (FaIo k)) ->
  (exists ss' lg, r' = reseat r ss' lg) \/ (st r' = FFinished /\ buf r' = []).
Proof.
  unfold fa_seek. intros H.
  destruct ((0 <=? Z.of_nat (start r) + (Z.of_nat byte_ - Z.of_nat (pbyte r)))%Z &&
            (Z.of_nat (start r) + (Z.of_nat byte_ - Z.of_nat (pbyte r)) <? Z.of_nat (length (buf r)))%Z && negb (fa_state_eqb (st r) FNew)); [discriminate|].
  destruct (src_seek (src r) byte_) as [s' res] eqn:Es.
  destruct res as [k'|].
  - inversion H; subst. left. unfold src_seek in Es.
    destruct (s_ss (src r)) as [|[|k0] ss0]; inversion Es; subst. eexists ss0, _. reflexivity.
  - match type of H with (let '(r1, fr) := fa_fill ffuel ?R in _) = _ => set (r0 := R) in * end.
    destruct (fa_fill ffuel r0) as [r1 fr] eqn:E1.
    destruct fr as [n|k'|]; try discriminate. inversion H; subst. right. split; reflexivity.
Qed.

Lemma zrange_empty p : ((0 <=? p)%Z && (p <? Z.of_nat 0)%Z) = false.
Proof.
  destruct (0 <=? p)%Z eqn:E; [|reflexivity]. apply Z.leb_le in E. cbn [andb]. apply Z.ltb_ge. lia.
Qed.

(** a seek that cannot take the in-buffer shortcut (New reader, or empty buffer) over a
    source whose next seek succeeds does not depend on the buffer, the offsets, the
    position or the source position it starts from *)
Lemma fa_seek_noshort ffuel r line byte_ x : st r = FNew \/ buf r = [] ->
  match s_ss (src r) with SFailI _ :: _ => False | _ => True end ->
  fa_seek ffuel r line byte_ =
  fa_seek ffuel (set_src (set_start (set_pbyte (set_buf r []) x) 0)
                         (mkSource (s_data (src r)) x (s_rs (src r)) (s_ss (src r)))) line byte_.
Proof.
  intros Hno Hss. unfold fa_seek. fa_simpl.
  assert (E1 : (((0 <=? Z.of_nat (start r) + (Z.of_nat byte_ - Z.of_nat (pbyte r)))%Z &&
            (Z.of_nat (start r) + (Z.of_nat byte_ - Z.of_nat (pbyte r)) <? Z.of_nat (length (buf r)))%Z) &&
            negb (fa_state_eqb (st r) FNew)) = false).
  { destruct Hno as [Hn|Hb].
    - rewrite Hn. cbn [fa_state_eqb negb]. apply andb_false_r.
    - rewrite Hb. cbn [length]. rewrite zrange_empty. reflexivity. }
  assert (E2 : (((0 <=? Z.of_nat 0 + (Z.of_nat byte_ - Z.of_nat x))%Z &&
            (Z.of_nat 0 + (Z.of_nat byte_ - Z.of_nat x) <? Z.of_nat (@length byte []))%Z) &&
            negb (fa_state_eqb (st r) FNew)) = false).
  { cbn [length]. rewrite zrange_empty. reflexivity. }
  rewrite E1, E2. unfold src_seek. cbn [s_ss s_data s_pos s_rs].
  destruct (s_ss (src r)) as [|[|k0] ss0]; [reflexivity|reflexivity|contradiction].
Qed.

(* ------------------------------------------------------------------ *)
(** * Inputs whose first non-blank line is a header *)

Lemma InitMid_hl inp r : InitMid inp (hl r) <-> InitMid inp r.
Proof.
  split; intros [[A1 A2 A3 A4 A5 A6 A7 A8 A9 A10] B]; (split; [constructor|]); assumption.
Qed.

Section Recs.
  Variables (inp : list byte) (fuel ffuel : nat) (pol : policy).
  Variables (pos0 ln0 : nat) (its : list (nat * nat * list nat)).
  Hypothesis Hpol : PolOk pol.
  Hypothesis Hff2 : 2 <= ffuel.
  Hypothesis Hfuel : length inp + 2 <= fuel.
  Hypothesis Hstart : fa_ostart_of inp = OsRecs pos0 ln0.
  Hypothesis Hstream : FaStream inp pos0 ln0 its.

  Notation LiveG := (Live inp ffuel 3 [] [] pol its).

  (** New, possibly after failed attempts of the first call *)
  Record GNew (r : fa) : Prop := mkGNew {
    gn_mid : InitMid inp r;
    gn_cap : 3 <= cap r;
    gn_pol : PolOk (polf r);
    gn_nf : no_fail (src r);
    gn_fuel : FuelOk ffuel r
  }.

  (** finished with an empty buffer: after a failed refill *)
  Record Dead (r : fa) : Prop := mkDead {
    dd_st : st r = FFinished;
    dd_buf : buf r = [];
    dd_data : s_data (src r) = inp;
    dd_cap : 1 <= cap r;
    dd_pol : PolOk (polf r);
    dd_nf : no_fail (src r);
    dd_fuel : FuelOk ffuel r
  }.

  (** the states of the healthy twin between two operations; [k]: index of the next
      undelivered record (meaningless when Dead) *)
  Inductive GSt (r : fa) : nat -> Prop :=
  | G_new : GNew r -> GSt r 0
  | G_at j off it :
      nth_error its j = Some it ->
      AtRec inp ffuel r off (i_s it) (i_line it) (scan_abs inp (S (i_s it)) []) -> GSt r (S j)
  | G_pos k off it :
      nth_error its k = Some it -> PosAt inp ffuel r off (i_s it) (i_line it) -> GSt r k
  | G_inc k off it :
      nth_error its k = Some it -> IncAt inp ffuel r off (i_s it) (i_line it) -> GSt r k
  | G_end off : EndAt inp ffuel r off -> GSt r (length its)
  | G_dead k : Dead r -> GSt r k.

  Lemma GSt_of_Live r k : LiveG r k -> GSt r k.
  Proof.
    intros HL. destruct HL as [|j r off it Hn Hat|k r off it Hn Hpos|k r off it Hn Hinc|r off Hend].
    - apply G_new. constructor.
      + apply InitMid_new. lia.
      + cbn [fa_new cap]. lia.
      + exact Hpol.
      + reflexivity.
      + unfold FuelOk. cbn [fa_new src s_rs length]. lia.
    - eapply G_at; eassumption.
    - eapply G_pos; eassumption.
    - eapply G_inc; eassumption.
    - eapply G_end; eassumption.
  Qed.

  Lemma GSt_cases r k : GSt r k -> (GNew r /\ k = 0) \/ Dead r \/ LiveG r k.
  Proof.
    intros H. destruct H as [Hn|j off it Hn Hat|k off it Hn Hpos|k off it Hn Hinc|off Hend|k Hd].
    - left. auto.
    - right. right. eapply LS_at; eassumption.
    - right. right. eapply LS_pos; eassumption.
    - right. right. eapply LS_inc; eassumption.
    - right. right. eapply LS_end; eassumption.
    - right. left. exact Hd.
  Qed.

  Lemma Common_nf r off : Common inp ffuel r off -> no_fail (src r).
  Proof. intros H. apply (w_nf _ _ _ _ (cm_win _ _ _ _ H)). Qed.

  Lemma GSt_nf r k : GSt r k -> no_fail (src r).
  Proof.
    intros H. destruct H as [Hn|j off it Hn Hat|k off it Hn Hpos|k off it Hn Hinc|off Hend|k Hd].
    - apply Hn.
    - apply (Common_nf r off). eapply AtRec_common; eassumption.
    - apply (Common_nf r off). apply Hpos.
    - apply (Common_nf r off). apply Hinc.
    - apply (Common_nf r off). apply Hend.
    - apply Hd.
  Qed.

  Lemma GSt_new_inv r k : GSt r k -> st r = FNew -> GNew r /\ k = 0.
  Proof.
    intros H Hst. destruct H as [Hn|j off it Hn Hat|k off it Hn Hpos|k off it Hn Hinc|off Hend|k Hd].
    - auto.
    - exfalso. destruct Hat as [_ _ _ _ _ _ _ _ _ _ Hres].
      destruct Hres as [(_ & E & _)|(sq & _ & _ & E & _)]; congruence.
    - exfalso. pose proof (pa_st _ _ _ _ _ _ Hpos). congruence.
    - exfalso. pose proof (ia_st _ _ _ _ _ _ Hinc). congruence.
    - exfalso. pose proof (ea_st _ _ _ _ Hend). congruence.
    - exfalso. pose proof (dd_st _ Hd). congruence.
  Qed.

  (* ---------------------------------------------------------------- *)
  (** ** only the seek script and the log change *)

  Lemma Win_reseat r off ss' lg : Win inp ffuel r off -> Win inp ffuel (reseat r ss' lg) off.
  Proof. intros [W1 W2 W3 W4 W5 W6 W7]. constructor; assumption. Qed.

  Lemma Common_reseat r off ss' lg : Common inp ffuel r off -> Common inp ffuel (reseat r ss' lg) off.
  Proof. intros [W E P C W3]. constructor; try assumption. apply Win_reseat; assumption. Qed.

  Lemma GSt_reseat r k ss' lg : GSt r k -> GSt (reseat r ss' lg) k.
  Proof.
    intros H. destruct H as [Hn|j off it Hn Hat|k off it Hn Hpos|k off it Hn Hinc|off Hend|k Hd].
    - apply G_new. destruct Hn as [[[A1 A2 A3 A4 A5 A6 A7 A8 A9 A10] B] C P N F].
      constructor; try assumption. split; [constructor|]; assumption.
    - apply (G_at _ j off it Hn). destruct Hat as [A1 A2 A3 A4 A5 A6 A7 A8 A9 A10 A11].
      constructor; try assumption. apply Win_reseat; assumption.
    - apply (G_pos _ k off it Hn). destruct Hpos as [A1 A2 A3 A4 A5 A6 A7 A8].
      constructor; try assumption. apply Common_reseat; assumption.
    - apply (G_inc _ k off it Hn). destruct Hinc as [A1 A2 A3 A4 A5 A6 A7 A8 A9].
      constructor; try assumption. apply Common_reseat; assumption.
    - apply (G_end _ off). destruct Hend as [A1 A2 A3].
      constructor; try assumption. apply Common_reseat; assumption.
    - apply G_dead. destruct Hd as [A1 A2 A3 A4 A5 A6 A7]. constructor; assumption.
  Qed.

  (* ---------------------------------------------------------------- *)
  (** ** the first call at the end of the source: "the refill read nothing" *)

  Lemma GNew_Win r : GNew r -> Win inp ffuel r (pbyte r).
  Proof. intros [[M _] C P N F]. constructor; try apply M; assumption. Qed.

  Lemma init_at_eof r : GNew r -> s_pos (src r) = length inp ->
    exists r1, fa_init fuel ffuel r = (r1, IOk false) /\ EndAt inp ffuel r1 (pbyte r1).
  Proof.
    intros G Heof. pose proof (GNew_Win r G) as W. destruct G as [[M Hlt] C P N F].
    unfold fa_init. destruct fuel as [|f] eqn:Ef; [lia|]. cbn [fa_first_byte].
    destruct (fa_fill_ok _ _ _ _ W) as (s' & lg' & Hfill & Hps' & Hds' & Hnf' & Hfu' & _ & _ & Hle').
    cbv zeta in Hfill. rewrite Hfill.
    set (e' := Nat.min (pbyte r + cap r) (length inp)) in *.
    assert (He : e' = length inp) by (unfold e' in *; lia).
    replace (e' - s_pos (src r)) with 0 by lia.
    eexists. split; [reflexivity|].
    pose proof (im_off _ _ M) as Hoff.
    assert (Hwl : length (window inp (pbyte r) e') = e' - pbyte r) by (apply window_length; lia).
    constructor; fa_simpl.
    - constructor; fa_simpl.
      + constructor; fa_simpl; rewrite ?Hps', ?Hwl; auto; try lia.
      + unfold EofKnown. fa_simpl. rewrite Hps'. lia.
      + exact P.
      + lia.
      + rewrite (im_start _ _ M). lia.
    - reflexivity.
    - apply (im_seqpos _ _ M).
  Qed.

  (* ---------------------------------------------------------------- *)
  (** ** one operation on the healthy twin *)

  Lemma Hff0 : length (@nil ritem) + 2 <= ffuel.
  Proof. cbn [length]. lia. Qed.

  Lemma Hrs0 : forallb item_ok (@nil ritem) = true.
  Proof. reflexivity. Qed.

  Definition ifacts := item_facts inp fuel ffuel 3 [] pos0 ln0 its (le_n 3) Hff0 Hfuel Hstream.
  Definition l_next := live_next inp fuel ffuel 3 [] [] pol pos0 ln0 its (le_n 3) Hrs0 Hpol Hff0 Hfuel Hstart Hstream.
  Definition l_set := live_set inp fuel ffuel 3 [] [] pol pos0 ln0 its (le_n 3) Hrs0 Hpol Hff0 Hfuel Hstart Hstream.
  Definition l_seek := live_seek inp fuel ffuel 3 [] [] pol pos0 ln0 its (le_n 3) Hrs0 Hpol Hff0 Hfuel Hstart Hstream.
  Definition l_first := its_first inp pos0 ln0 its Hstream.
  Definition l_gt := its_gt inp pos0 ln0 its Hstart Hstream.
  Definition l_wf := its_wf inp pos0 ln0 its Hstart Hstream.

  Lemma GNew_retry r : GNew r -> s_pos (src r) <> length inp -> RetryOk inp fuel ffuel r.
  Proof.
    intros G Hne. pose proof (im_pos _ _ (proj1 (gn_mid _ G))) as Hp.
    constructor; try apply G; [exact Hfuel|left; lia].
  Qed.

  Lemma gnext r k : GSt r k ->
    exists r' o, fa_next fuel ffuel r = (r', o) /\
      ((exists it, o = ORec (fa_cur r') /\ nth_error its k = Some it /\ rec_ok inp (fa_cur r') it /\
                   fa_position r' = Some (i_line it, i_s it) /\ GSt r' (S k)) \/
       (o = ONone /\ exists k', k <= k' /\ GSt r' k')).
  Proof.
    intros H. destruct (GSt_cases _ _ H) as [[G ->]|[D|HL]].
    - pose proof (im_st _ _ (proj1 (gn_mid _ G))) as Hst0.
      destruct (Nat.eq_dec (s_pos (src r)) (length inp)) as [Heof|Hne].
      + destruct (init_at_eof r G Heof) as (r1 & Heq & Hend).
        exists r1, ONone. split.
        * unfold fa_next. rewrite Hst0, Heq. reflexivity.
        * right. split; [reflexivity|]. exists (length its). split; [lia|]. eapply G_end; exact Hend.
      + pose proof (fa_init_retry_spec inp fuel ffuel r (gn_mid _ G) (GNew_retry r G Hne)) as Hinit.
        rewrite Hstart in Hinit.
        destruct Hinit as (r1 & off & Heq & W & He & Hs & Hsp & Hlt & Hgt & Hsq & Hpl & Hpb & Hst1 & Hc & Hpf & _ & _).
        destruct l_first as (it & Hn & His & Hil).
        destruct (ifacts 0 it Hn) as (_ & _ & Hends & _).
        destruct (next_tail_spec inp ffuel fuel (set_st r1 FParsing) off pos0 ln0) as (r' & off' & Heq' & Hat & Hrec & _);
          cbn [buf src cap start spos seqpos pline pbyte polf st set_st]; auto; try lia.
        * eapply Win_ext; [| | |exact W]; reflexivity.
        * rewrite Hpf. apply G.
        * pose proof (gn_cap _ G). lia.
        * exists r', (ORec (fa_cur r')). split.
          { unfold fa_next. rewrite Hst0, Heq. exact Heq'. }
          left. exists it. split; [reflexivity|]. split; [exact Hn|].
          rewrite <- His in Hat, Hrec. rewrite <- Hil in Hat.
          split; [unfold rec_ok; rewrite Hends; exact Hrec|].
          split; [eapply AtRec_position; eassumption|].
          eapply G_at; eassumption.
    - exists r, ONone. split; [apply next_finished; apply D|].
      right. split; [reflexivity|]. exists k. split; [lia|exact H].
    - destruct (l_next _ _ HL) as [(r' & it & Hn & Heq & Hrec & Hpos & HL') | (Hk & Heq)].
      + exists r', (ORec (fa_cur r')). split; [exact Heq|]. left. exists it.
        split; [reflexivity|]. split; [exact Hn|]. split; [exact Hrec|]. split; [exact Hpos|].
        apply GSt_of_Live. exact HL'.
      + exists r, ONone. split; [exact Heq|]. right. split; [reflexivity|]. exists k. split; [lia|exact H].
  Qed.

  Lemma gset n rs0 r k : count_ok n -> GSt r k ->
    exists r' rs' o, fa_read_set fuel ffuel n r rs0 = (r', rs', o) /\
      ((o = OSetOk /\ exists m, 1 <= m /\ k + m <= length its /\
                      SetRecs inp rs' (firstn m (skipn k its)) /\ GSt r' (k + m)) \/
       (o = ONone /\ rs' = rs0 /\ exists k', k <= k' /\ GSt r' k')).
  Proof.
    intros Hcnt H. destruct (GSt_cases _ _ H) as [[G ->]|[D|HL]].
    - pose proof (im_st _ _ (proj1 (gn_mid _ G))) as Hst0.
      destruct (Nat.eq_dec (s_pos (src r)) (length inp)) as [Heof|Hne].
      + destruct (init_at_eof r G Heof) as (r1 & Heq & Hend).
        exists r1, rs0, ONone. split.
        * unfold fa_read_set. rewrite Hst0, Heq. reflexivity.
        * right. split; [reflexivity|]. split; [reflexivity|].
          exists (length its). split; [lia|]. eapply G_end; exact Hend.
      + pose proof (fa_init_retry_spec inp fuel ffuel r (gn_mid _ G) (GNew_retry r G Hne)) as Hinit.
        rewrite Hstart in Hinit.
        destruct Hinit as (r1 & off & Heq & W & He & Hs & Hsp & Hlt & Hgt & Hsq & Hpl & Hpb & Hst1 & Hc & Hpf & _ & _).
        destruct l_first as (it & Hn0 & His & Hil).
        destruct (ifacts 0 it Hn0) as (H0 & Hs0 & _ & _).
        assert (Hdone : SetDone inp fuel ffuel 3 [] [] pol its n rs0 r 0).
        { apply (set_done_of inp fuel ffuel 3 [] [] pol its (le_n 3) Hff0 Hfuel).
          unfold fa_read_set. rewrite Hst0, Heq.
          apply (set_go_spec inp ffuel fuel n (set_st r1 FPositioned) rs0 off (i_s it) (i_line it)); auto.
          left. rewrite His, Hil.
          constructor; cbn [buf src cap start spos seqpos pline pbyte polf st set_st]; auto; try lia.
          constructor; cbn [buf src cap start spos seqpos pline pbyte polf st set_st]; auto; try lia.
          - eapply Win_ext; [| | |exact W]; reflexivity.
          - rewrite Hpf. apply G.
          - pose proof (gn_cap _ G). lia. }
        destruct Hdone as (r' & rs' & m & Heq' & H1m & Hkm & _ & Hrecs & HL' & _).
        exists r', rs', OSetOk. split; [exact Heq'|]. left. split; [reflexivity|].
        exists m. split; [exact H1m|]. split; [exact Hkm|]. split; [exact Hrecs|].
        apply GSt_of_Live. exact HL'.
    - exists r, rs0, ONone. split; [apply read_set_finished; apply D|].
      right. split; [reflexivity|]. split; [reflexivity|]. exists k. split; [lia|exact H].
    - destruct (l_set n rs0 _ _ Hcnt HL) as [(Hklt & r' & rs' & m & Heq & H1m & Hkm & _ & Hrecs & HL' & _) | (Hk & Heq)].
      + exists r', rs', OSetOk. split; [exact Heq|]. left. split; [reflexivity|].
        exists m. split; [exact H1m|]. split; [exact Hkm|]. split; [exact Hrecs|].
        apply GSt_of_Live. exact HL'.
      + exists r, rs0, ONone. split; [exact Heq|]. right. split; [reflexivity|]. split; [reflexivity|].
        exists k. split; [lia|exact H].
  Qed.

  Lemma seek_ok_head s : seek_ok s -> match s_ss s with SFailI _ :: _ => False | _ => True end.
  Proof.
    unfold seek_ok. destruct (s_ss s) as [|[|k0] t]; cbn [forallb sitem_ok andb]; auto. discriminate.
  Qed.

  (** a seek from a reader that cannot take the shortcut: New or Dead *)
  Lemma gseek_fresh r s line : st r = FNew \/ buf r = [] ->
    s_data (src r) = inp -> 1 <= cap r -> PolOk (polf r) -> no_fail (src r) -> FuelOk ffuel r ->
    seek_ok (src r) -> nth_error inp s = Some GT ->
    exists r' off', fa_seek ffuel r line s = (r', OOk) /\ PosAt inp ffuel r' off' s line /\ seek_ok (src r').
  Proof.
    intros Hno Hd Hc Hp Hnf Hf Hsk Hgt.
    rewrite (fa_seek_noshort ffuel r line s 0 Hno (seek_ok_head _ Hsk)).
    set (q := set_src (set_start (set_pbyte (set_buf r []) 0) 0)
                      (mkSource (s_data (src r)) 0 (s_rs (src r)) (s_ss (src r)))).
    destruct (seek_spec_gen inp ffuel q 0 s line) as (r' & off' & Heq & Hpos & Hsk' & _);
      unfold q; fa_simpl; cbn [s_data s_pos s_rs s_ss]; auto.
    - constructor; fa_simpl; cbn [s_data s_pos s_rs s_ss length]; auto; try lia.
    - exists r', off'. split; [exact Heq|]. split; [exact Hpos|exact Hsk'].
  Qed.

  Lemma gseek r k k' it : GSt r k -> seek_ok (src r) -> nth_error its k' = Some it ->
    exists r', fa_seek ffuel r (i_line it) (i_s it) = (r', OOk) /\ GSt r' k' /\ seek_ok (src r').
  Proof.
    intros H Hsk Hn. pose proof (l_gt k' it Hn) as Hgt.
    destruct (GSt_cases _ _ H) as [[G ->]|[D|HL]].
    - assert (Hc1 : 1 <= cap r) by (pose proof (gn_cap _ G); lia).
      destruct (gseek_fresh r (i_s it) (i_line it) (or_introl (im_st _ _ (proj1 (gn_mid _ G))))
                  (im_data _ _ (proj1 (gn_mid _ G))) Hc1 (gn_pol _ G) (gn_nf _ G) (gn_fuel _ G) Hsk Hgt)
        as (r' & off' & Heq & Hpos & Hsk').
      exists r'. split; [exact Heq|]. split; [eapply G_pos; eassumption|exact Hsk'].
    - destruct (gseek_fresh r (i_s it) (i_line it) (or_intror (dd_buf _ D))
                  (dd_data _ D) (dd_cap _ D) (dd_pol _ D) (dd_nf _ D) (dd_fuel _ D) Hsk Hgt)
        as (r' & off' & Heq & Hpos & Hsk').
      exists r'. split; [exact Heq|]. split; [eapply G_pos; eassumption|exact Hsk'].
    - destruct (l_seek r k k' it HL Hsk Hn) as (r' & Heq & HL' & Hsk' & _).
      exists r'. split; [exact Heq|]. split; [apply GSt_of_Live; exact HL'|exact Hsk'].
  Qed.

  (* ---------------------------------------------------------------- *)
  (** ** one operation on the reader itself, whatever its source does *)

  Definition RSt (r : fa) (k : nat) : Prop := Base0 inp ffuel r /\ GSt (hl r) k.

  Lemma dead_of r k : Base0 inp ffuel r -> st r = FFinished -> buf r = [] -> GSt (hl r) k.
  Proof.
    intros [D C P F] Hst Hb. apply G_dead. constructor; try assumption; [apply hl_nf|apply hl_fuel; exact F].
  Qed.

  Lemma new_of r : Base0 inp ffuel r -> InitMid inp r -> 3 <= cap r -> GSt (hl r) 0.
  Proof.
    intros [D C P F] HM Hc. apply G_new. constructor; try assumption.
    - apply InitMid_hl. exact HM.
    - apply hl_nf.
    - apply hl_fuel. exact F.
  Qed.

  Lemma twin_after r0' r' k : fa_cut r0' r' -> GSt r0' k -> ss r0' = cut_ss (ss r0') -> r0' = hl r'.
  Proof.
    intros Hc G Hs. apply fa_cut_hl; [exact Hc|eapply GSt_nf; exact G|].
    unfold seek_ok. fold (ss r0'). rewrite Hs. apply cut_ss_ok.
  Qed.

  Lemma ss_hl r : ss (hl r) = cut_ss (ss (hl r)).
  Proof.
    unfold ss, hl. fa_simpl. cbn [cut_src s_ss].
    generalize (s_ss (src r)). intros l. induction l as [|[|k0] t IH]; cbn [cut_ss]; [reflexivity| |reflexivity].
    f_equal. exact IH.
  Qed.

  Lemma rnext r k r' o : RSt r k -> fa_next fuel ffuel r = (r', o) ->
    (exists rc it, o = ORec rc /\ nth_error its k = Some it /\ rec_ok inp rc it /\
                   fa_position r' = Some (i_line it, i_s it) /\ RSt r' (S k)) \/
    (o = ONone /\ exists k', k <= k' /\ RSt r' k') \/
    (exists e, o = OErr (FaIo e) /\ RSt r' k).
  Proof.
    intros [B G] H. destruct (Base0_next _ _ _ _ _ _ H B) as [B' Hcap].
    destruct (gnext _ _ G) as (r0' & o0 & H0 & Hcase).
    destruct (fa_next_cut fuel ffuel (hl r) r r0' o0 r' o (hl_cut r) H0 H) as [(-> & Hc)|(e & ->)].
    - assert (Hs : ss r0' = cut_ss (ss r0')) by (rewrite (fa_next_ss _ _ _ _ _ H0); apply ss_hl).
      destruct Hcase as [(it & -> & Hn & Hrec & Hpos & G')|(-> & k' & Hk & G')].
      + left. pose proof (twin_after _ _ _ Hc G' Hs) as ->.
        exists (fa_cur (hl r')), it. split; [reflexivity|]. split; [exact Hn|]. split; [exact Hrec|].
        split; [exact Hpos|]. split; [exact B'|exact G'].
      + right. left. pose proof (twin_after _ _ _ Hc G' Hs) as ->.
        split; [reflexivity|]. exists k'. split; [exact Hk|]. split; [exact B'|exact G'].
    - right. right. exists e. split; [reflexivity|]. split; [exact B'|].
      destruct (next_io_cases _ _ _ _ _ H) as [(Hst & Hinit)|(Hst & Hbuf)].
      + destruct (GSt_new_inv _ _ G Hst) as [GN ->].
        apply new_of; [exact B'| |pose proof (gn_cap _ GN) as Hc3; change (cap (hl r)) with (cap r) in Hc3; lia].
        eapply fa_init_failed_mid; [|exact Hinit]. apply InitMid_hl. apply GN.
      + apply dead_of; assumption.
  Qed.

  Lemma rset n rs0 r k r' rs' o : count_ok n -> RSt r k -> fa_read_set fuel ffuel n r rs0 = (r', rs', o) ->
    (o = OSetOk /\ exists m, 1 <= m /\ k + m <= length its /\
                   SetRecs inp rs' (firstn m (skipn k its)) /\ RSt r' (k + m)) \/
    (o = ONone /\ rs' = rs0 /\ exists k', k <= k' /\ RSt r' k') \/
    (exists e, o = OErr (FaIo e) /\ (rs' = rs0 \/ fa_set_records rs' = []) /\ RSt r' k).
  Proof.
    intros Hcnt [B G] H. destruct (Base0_set _ _ _ _ _ _ _ _ _ H B) as [B' Hcap].
    destruct (gset n rs0 _ _ Hcnt G) as (r0' & rs0' & o0 & H0 & Hcase).
    destruct (fa_read_set_cut fuel ffuel n (hl r) r rs0 r0' rs0' o0 r' rs' o (hl_cut r) H0 H)
      as [(-> & -> & Hc)|(e & ->)].
    - assert (Hs : ss r0' = cut_ss (ss r0')) by (rewrite (fa_read_set_ss _ _ _ _ _ _ _ _ H0); apply ss_hl).
      destruct Hcase as [(-> & m & H1m & Hkm & Hrecs & G')|(-> & -> & k' & Hk & G')].
      + left. pose proof (twin_after _ _ _ Hc G' Hs) as ->.
        split; [reflexivity|]. exists m. split; [exact H1m|]. split; [exact Hkm|]. split; [exact Hrecs|].
        split; [exact B'|exact G'].
      + right. left. pose proof (twin_after _ _ _ Hc G' Hs) as ->.
        split; [reflexivity|]. split; [reflexivity|]. exists k'. split; [exact Hk|]. split; [exact B'|exact G'].
    - right. right. exists e. split; [reflexivity|].
      destruct (set_io_cases _ _ _ _ _ _ _ _ H) as [(Hst & Hinit & ->)|(Hst & Hbuf & Hrecs)].
      + split; [left; reflexivity|]. split; [exact B'|].
        destruct (GSt_new_inv _ _ G Hst) as [GN ->].
        apply new_of; [exact B'| |pose proof (gn_cap _ GN) as Hc3; change (cap (hl r)) with (cap r) in Hc3; lia].
        eapply fa_init_failed_mid; [|exact Hinit]. apply InitMid_hl. apply GN.
      + split; [right; exact Hrecs|]. split; [exact B'|]. apply dead_of; assumption.
  Qed.

  Lemma rseek r k k' it r' o : RSt r k -> nth_error its k' = Some it ->
    fa_seek ffuel r (i_line it) (i_s it) = (r', o) ->
    (o = OOk /\ RSt r' k') \/ (exists e, o = OErr (FaIo e) /\ RSt r' k).
  Proof.
    intros [B G] Hn H. destruct (Base0_seek _ _ _ _ _ _ _ H B) as [B' Hcap].
    destruct (gseek _ _ k' it G (hl_sk r) Hn) as (r0' & H0 & G' & Hsk).
    destruct (fa_seek_cut ffuel (hl r) r (i_line it) (i_s it) r0' OOk r' o (hl_cut r) H0 H) as [(-> & Hc)|(e & ->)].
    - left. split; [reflexivity|]. split; [exact B'|].
      rewrite <- (fa_cut_hl _ _ Hc (GSt_nf _ _ G') Hsk). exact G'.
    - right. exists e. split; [reflexivity|]. split; [exact B'|].
      destruct (seek_io_cases _ _ _ _ _ _ H) as [(ss' & lg & ->)|(Hst & Hbuf)].
      + rewrite hl_reseat. apply GSt_reseat. exact G.
      + apply dead_of; assumption.
  Qed.

  (* ---------------------------------------------------------------- *)
  (** ** histories *)

  Let items : list fa_oitem := map (fun it => let '(s, line, ends) := it in OiRec s line ends) its.
  Let tgt := tgt_of items.

  (** the stream items an observation shows *)
  Definition shows (ob : hobs) (l : list (nat * nat * list nat)) : Prop :=
    match ob with
    | HoRec rc => exists it, l = [it] /\ rec_ok inp rc it
    | HoOwned o => exists it, l = [it] /\ o = spec_owned inp it
    | HoSet rcs => Forall2 (rec_ok inp) rcs l
    | HoAbnormal _ => False
    | _ => l = []
    end.

  Definition HInv (h : hstate) (k : nat) (g : ghost) : Prop :=
    RSt (h_r h) k /\ SetRecs inp (h_s0 h) (fst g) /\ SetRecs inp (h_s1 h) (snd g) /\
    incl (fst g) its /\ incl (snd g) its.

  Lemma incl_run_gen {A} (X : list A) k m : incl (firstn m (skipn k X)) X.
  Proof.
    intros x Hx. apply In_firstn_my in Hx. clear m. revert k Hx. induction X as [|y t IH]; intros k Hx.
    - rewrite skipn_nil in Hx. destruct Hx.
    - destruct k as [|k]; [exact Hx|]. cbn [skipn] in Hx. right. eapply IH. exact Hx.
  Qed.

  Lemma incl_run k m : incl (firstn m (skipn k its)) its.
  Proof. apply incl_run_gen. Qed.

  Lemma firstn_length_firstn {A} m (X : list A) : firstn (length (firstn m X)) X = firstn m X.
  Proof.
    revert X. induction m as [|m IH]; intros X; [reflexivity|].
    destruct X as [|x X]; [reflexivity|]. cbn [firstn length]. f_equal. apply IH.
  Qed.

  Lemma gput_incl (g : ghost) slot l : incl (fst g) its -> incl (snd g) its -> incl l its ->
    incl (fst (gput g slot l)) its /\ incl (snd (gput g slot l)) its.
  Proof. intros A B C. destruct slot; cbn [gput fst snd]; auto. Qed.

  Lemma gget_incl (g : ghost) slot : incl (fst g) its -> incl (snd g) its -> incl (gget g slot) its.
  Proof. intros A B. destruct slot; cbn [gget]; auto. Qed.

  Lemma h_put_back h r' slot :
    h_s0 (h_put (h_with h r') slot (h_get h slot)) = h_s0 h /\
    h_s1 (h_put (h_with h r') slot (h_get h slot)) = h_s1 h.
  Proof. destruct slot; split; reflexivity. Qed.

  Lemma hstep_read_gen (owned : bool) h k g : HInv h k g ->
    let hs := fa_hstep fuel ffuel tgt h (if owned then HOwned else HNext) in
    exists l k', shows (snd hs) l /\ incl l its /\ HInv (fst hs) k' g /\
      l = firstn (length l) (skipn k its) /\ k + length l <= k'.
  Proof.
    intros (R & S0 & S1 & I0 & I1). cbv zeta.
    assert (Hstep : fa_hstep fuel ffuel tgt h (if owned then HOwned else HNext) =
              let '(r', o) := fa_next fuel ffuel (h_r h) in
              (h_with h r', if owned then match o with ORec rc => HoOwned (fa_to_owned rc) | _ => out_obs o end
                            else out_obs o)) by (destruct owned; reflexivity).
    rewrite Hstep. clear Hstep.
    destruct (fa_next fuel ffuel (h_r h)) as [r' o] eqn:E. cbn [fst snd].
    destruct (rnext _ _ _ _ R E) as [(rc & it & -> & Hn & Hrec & Hpos & R')|[(-> & k' & Hk & R')|(e & -> & R')]].
    - exists [it], (S k). cbn [length]. split.
      + destruct owned; cbn [shows out_obs]; exists it; (split; [reflexivity|]); [|exact Hrec].
        apply rec_ok_owned; [exact Hrec|]. apply (l_wf k it Hn).
      + split; [intros x [<-|[]]; eapply nth_error_In; exact Hn|].
        split; [split; [exact R'|auto]|].
        split; [rewrite (nth_error_skipn_cons _ _ _ Hn); reflexivity|lia].
    - exists [], k'. cbn [length]. split; [destruct owned; reflexivity|].
      split; [intros x []|]. split; [split; [exact R'|auto]|]. split; [reflexivity|lia].
    - exists [], k. cbn [length]. split; [destruct owned; reflexivity|].
      split; [intros x []|]. split; [split; [exact R'|auto]|]. split; [reflexivity|lia].
  Qed.

  Lemma hstep_set_gen (n : option nat) slot h k g : count_ok n -> HInv h k g ->
    let op := match n with None => HSet slot | Some nn => HSetExact slot nn end in
    let hs := fa_hstep fuel ffuel tgt h op in
    exists l k' g', shows (snd hs) l /\ incl l its /\ HInv (fst hs) k' g' /\
      l = firstn (length l) (skipn k its) /\ k + length l <= k'.
  Proof.
    intros Hn (R & S0 & S1 & I0 & I1). cbv zeta.
    set (op := match n with None => HSet slot | Some nn => HSetExact slot nn end).
    assert (Hstep : fa_hstep fuel ffuel tgt h op =
              let '(r', rs', o) := fa_read_set fuel ffuel n (h_r h) (h_get h slot) in
              (h_put (h_with h r') slot rs', match o with OSetOk => HoSet (fa_set_records rs') | _ => out_obs o end))
      by (unfold op; destruct n; reflexivity).
    rewrite Hstep. clear Hstep.
    destruct (fa_read_set fuel ffuel n (h_r h) (h_get h slot)) as [[r' rs'] o] eqn:E. cbn [fst snd].
    assert (Hr : h_r (h_put (h_with h r') slot rs') = r') by (destruct slot; reflexivity).
    destruct (rset n _ _ _ _ _ _ Hn R E)
      as [(-> & m & H1m & Hkm & Hrecs & R')|[(-> & -> & k' & Hk & R')|(e & -> & Hrs & R')]].
    - exists (firstn m (skipn k its)), (k + m), (gput g slot (firstn m (skipn k its))).
      split; [exact Hrecs|]. split; [apply incl_run|]. split.
      + unfold HInv. rewrite Hr. split; [exact R'|].
        destruct (slots_put inp (h_with h r') slot rs' g _ S0 S1 Hrecs) as [A B].
        destruct (gput_incl g slot _ I0 I1 (incl_run k m)) as [C D]. auto.
      + split; [symmetry; apply firstn_length_firstn|].
        rewrite firstn_length, skipn_length. lia.
    - exists [], k', g. split; [reflexivity|]. split; [intros x []|]. split.
      + unfold HInv. rewrite Hr. destruct (h_put_back h r' slot) as [-> ->]. auto.
      + cbn [length]. split; [reflexivity|lia].
    - destruct Hrs as [->|Hnil].
      + exists [], k, g. split; [reflexivity|]. split; [intros x []|]. split.
        * unfold HInv. rewrite Hr. destruct (h_put_back h r' slot) as [-> ->]. auto.
        * cbn [length]. split; [reflexivity|lia].
      + exists [], k, (gput g slot []). split; [reflexivity|]. split; [intros x []|]. split.
        * unfold HInv. rewrite Hr. split; [exact R'|].
          assert (Hrecs : SetRecs inp rs' []) by (unfold SetRecs; rewrite Hnil; constructor).
          destruct (slots_put inp (h_with h r') slot rs' g _ S0 S1 Hrecs) as [A B].
          destruct (gput_incl g slot [] I0 I1 ltac:(intros x [])) as [C D]. auto.
        * cbn [length]. split; [reflexivity|lia].
  Qed.

  Lemma hstep_seek_gen k0 h k g : HInv h k g ->
    let hs := fa_hstep fuel ffuel tgt h (HSeek k0) in
    exists k', shows (snd hs) [] /\ HInv (fst hs) k' g.
  Proof.
    intros (R & S0 & S1 & I0 & I1). cbv zeta.
    unfold fa_hstep, tgt, items. rewrite tgt_of_recs.
    destruct (nth_error its k0) as [it|] eqn:Hn; cbn [option_map].
    - destruct (fa_seek ffuel (h_r h) (i_line it) (i_s it)) as [r' o] eqn:E. cbn [fst snd].
      destruct (rseek _ _ k0 it _ _ R Hn E) as [(-> & R')|(e & -> & R')].
      + exists k0. split; [reflexivity|]. split; [exact R'|auto].
      + exists k. split; [reflexivity|]. split; [exact R'|auto].
    - cbn [fst snd]. exists k. split; [reflexivity|]. split; [exact R|auto].
  Qed.

  (** one operation: what it shows are items of the stream; reads show the run of
      items that starts at the cursor [k] and move the cursor past it; nothing but a
      seek moves the cursor backwards *)
  Lemma hstep_gen op h k g : hop_ok op -> HInv h k g ->
    let hs := fa_hstep fuel ffuel tgt h op in
    exists l k' g', shows (snd hs) l /\ incl l its /\ HInv (fst hs) k' g' /\
      (is_seek op = false -> k <= k') /\
      (is_read op = true -> l = firstn (length l) (skipn k its) /\ k + length l <= k').
  Proof.
    intros Hop Hst. destruct op as [| |slot|slot n|slot| |k0].
    - destruct (hstep_read_gen false h k g Hst) as (l & k' & A & B & C & D & E).
      exists l, k', g. cbv zeta. split; [exact A|]. split; [exact B|]. split; [exact C|]. split; [intros _; lia|auto].
    - destruct (hstep_read_gen true h k g Hst) as (l & k' & A & B & C & D & E).
      exists l, k', g. cbv zeta. split; [exact A|]. split; [exact B|]. split; [exact C|]. split; [intros _; lia|auto].
    - destruct (hstep_set_gen None slot h k g ltac:(intros nn E; discriminate) Hst) as (l & k' & g' & A & B & C & D & E).
      exists l, k', g'. cbv zeta. split; [exact A|]. split; [exact B|]. split; [exact C|]. split; [intros _; lia|auto].
    - assert (Hc : count_ok (Some n)) by (intros nn E; inversion E; subst; exact Hop).
      destruct (hstep_set_gen (Some n) slot h k g Hc Hst) as (l & k' & g' & A & B & C & D & E).
      exists l, k', g'. cbv zeta. split; [exact A|]. split; [exact B|]. split; [exact C|]. split; [intros _; lia|auto].
    - cbv zeta. cbn [fa_hstep fst snd]. destruct Hst as (R & S0 & S1 & I0 & I1).
      exists (gget g slot), k, g. split; [apply slots_get; assumption|].
      split; [apply gget_incl; assumption|]. split; [split; auto|]. split; [intros _; lia|discriminate].
    - cbv zeta. cbn [fa_hstep fst snd]. exists [], k, g. split; [reflexivity|]. split; [intros x []|].
      split; [exact Hst|]. split; [intros _; lia|discriminate].
    - destruct (hstep_seek_gen k0 h k g Hst) as (k' & A & C).
      exists [], k', g. cbv zeta. split; [exact A|]. split; [intros x []|]. split; [exact C|]. split; discriminate.
  Qed.

  Definition ob_genuine (ob : hobs * option (nat * nat)) : Prop := exists l, shows (fst ob) l /\ incl l its.

  Lemma hist_gen : forall ops h k g, Forall hop_ok ops -> HInv h k g ->
    Forall ob_genuine (fst (fa_hist fuel ffuel tgt ops h)).
  Proof.
    induction ops as [|op ops IH]; intros h k g Hops Hst; [constructor|].
    inversion Hops as [|? ? Hop Hops']; subst. rewrite fa_hist_fst_cons.
    destruct (hstep_gen op h k g Hop Hst) as (l & k' & g' & A & B & C & _).
    constructor; [exists l; split; [exact A|exact B]|]. eapply IH; eassumption.
  Qed.

  (** the cursor of the reads of a seek-free history only moves forwards: the runs of
      items they show are taken from the stream at increasing indices *)
  Inductive runs_from : nat -> list hop -> list (hobs * option (nat * nat)) -> Prop :=
  | rf_nil k : runs_from k [] []
  | rf_cons k op ops ob obs l k' :
      shows (fst ob) l -> incl l its ->
      (is_read op = true -> l = firstn (length l) (skipn k its) /\ k + length l <= k') -> k <= k' ->
      runs_from k' ops obs -> runs_from k (op :: ops) (ob :: obs).

  Lemma hist_order : forall ops h k g, Forall hop_ok ops -> Forall (fun o => is_seek o = false) ops ->
    HInv h k g -> runs_from k ops (fst (fa_hist fuel ffuel tgt ops h)).
  Proof.
    induction ops as [|op ops IH]; intros h k g Hops Hns Hst; [constructor|].
    inversion Hops as [|? ? Hop Hops']; subst. inversion Hns as [|? ? Hn1 Hns']; subst.
    rewrite fa_hist_fst_cons.
    destruct (hstep_gen op h k g Hop Hst) as (l & k' & g' & A & B & C & D & E).
    eapply rf_cons with (l := l) (k' := k'); auto. eapply IH; eassumption.
  Qed.

  Lemma HInv_after : forall ops h k g, Forall hop_ok ops -> HInv h k g ->
    exists k' g', HInv (snd (fa_hist fuel ffuel tgt ops h)) k' g'.
  Proof.
    induction ops as [|op ops IH]; intros h k g Hops Hst; [exists k, g; exact Hst|].
    inversion Hops as [|? ? Hop Hops']; subst. rewrite fa_hist_snd_cons.
    destruct (hstep_gen op h k g Hop Hst) as (l & k' & g' & _ & _ & C & _).
    eapply IH; eassumption.
  Qed.

  Lemma HInv_init cap0 rs sks pol0 : 3 <= cap0 -> PolOk pol0 -> length rs + 2 <= ffuel ->
    HInv (h_init inp cap0 rs sks pol0) 0 ([], []).
  Proof.
    intros Hc Hp Hf. unfold HInv, h_init. cbn [h_r h_s0 h_s1 fst snd].
    assert (B : Base0 inp ffuel (fa_new cap0 (mkSource inp 0 rs sks) pol0)).
    { constructor; cbn [fa_new src cap polf s_data]; auto; try lia. }
    split; [split; [exact B|]|].
    - apply new_of; [exact B| |cbn [fa_new cap]; exact Hc]. apply InitMid_new. lia.
    - split; [apply SetRecs_empty|]. split; [apply SetRecs_empty|]. split; intros x [].
  Qed.
End Recs.

(* ------------------------------------------------------------------ *)
(** * Inputs without any record: nothing but blank lines, or an invalid first line *)

Section NoRecs.
  Variables (inp : list byte) (fuel ffuel : nat).
  Hypothesis Hff2 : 2 <= ffuel.
  Hypothesis Hfuel : length inp + 2 <= fuel.
  Hypothesis Hstart : fa_ostart_of inp = OsEmpty \/ exists ln b, fa_ostart_of inp = OsInvalid ln b.
  Variable tgt : nat -> option (nat * nat).
  Hypothesis Hnot : forall k, tgt k = None.

  Definition quiet (o : fa_out) : Prop :=
    o = ONone \/ (exists l b, o = OErr (FaInvalidStart l b)) \/ exists e, o = OErr (FaIo e).

  (** the first call on the healthy twin finishes the reader without a record *)
  Lemma ntwin r0 : GNew inp ffuel r0 ->
    exists r1 first, st r1 = FFinished /\ (first = ONone \/ exists l b, first = OErr (FaInvalidStart l b)) /\
      fa_next fuel ffuel r0 = (r1, first) /\
      forall n rs0, fa_read_set fuel ffuel n r0 rs0 = (r1, rs0, first).
  Proof.
    intros G. pose proof (im_st _ _ (proj1 (gn_mid _ _ _ G))) as Hst0.
    destruct (Nat.eq_dec (s_pos (src r0)) (length inp)) as [Heof|Hne].
    - destruct (init_at_eof inp fuel ffuel Hff2 Hfuel r0 G Heof) as (r1 & Heq & Hend).
      destruct (init_dead_next fuel ffuel r0 r1 (IOk false) ONone Hst0 Heq eq_refl) as [A B].
      exists r1, ONone. split; [apply (ea_st _ _ _ _ Hend)|]. split; [left; reflexivity|]. split; assumption.
    - pose proof (fa_init_retry_spec inp fuel ffuel r0 (gn_mid _ _ _ G) (GNew_retry inp fuel ffuel Hff2 Hfuel r0 G Hne)) as Hinit.
      destruct Hstart as [Ho|(ln & b & Ho)]; rewrite Ho in Hinit; destruct Hinit as (r1 & Heq & Hfin).
      + destruct (init_dead_next fuel ffuel r0 r1 (IOk false) ONone Hst0 Heq eq_refl) as [A B].
        exists r1, ONone. split; [exact Hfin|]. split; [left; reflexivity|]. split; assumption.
      + destruct (init_dead_next fuel ffuel r0 r1 _ (OErr (FaInvalidStart ln b)) Hst0 Heq eq_refl) as [A B].
        exists r1, (OErr (FaInvalidStart ln b)). split; [exact Hfin|]. split; [right; eauto|]. split; assumption.
  Qed.

  Definition NSt (r : fa) : Prop :=
    Base0 inp ffuel r /\ (st r = FFinished \/ (InitMid inp r /\ 3 <= cap r)).

  Lemma NSt_twin r : Base0 inp ffuel r -> InitMid inp r -> 3 <= cap r -> GNew inp ffuel (hl r).
  Proof.
    intros [D C P F] HM Hc. constructor; try assumption.
    - apply InitMid_hl. exact HM.
    - apply hl_nf.
    - apply hl_fuel. exact F.
  Qed.

  Lemma nnext r r' o : NSt r -> fa_next fuel ffuel r = (r', o) -> NSt r' /\ quiet o.
  Proof.
    intros [B Hs] H. destruct (Base0_next _ _ _ _ _ _ H B) as [B' Hcap].
    destruct Hs as [Hfin|[HM Hc]].
    - rewrite (next_finished fuel ffuel r Hfin) in H. inversion H; subst.
      split; [split; [exact B|left; exact Hfin]|left; reflexivity].
    - destruct (ntwin _ (NSt_twin r B HM Hc)) as (r1 & first & Hfin & Hfirst & H0 & _).
      destruct (fa_next_cut fuel ffuel (hl r) r r1 first r' o (hl_cut r) H0 H) as [(-> & Hcut)|(e & ->)].
      + split; [split; [exact B'|left; rewrite (fa_cut_st _ _ Hcut); exact Hfin]|].
        destruct Hfirst as [->|(l & b & ->)]; [left; reflexivity|right; left; eauto].
      + split; [|right; right; eauto]. split; [exact B'|].
        destruct (next_io_cases _ _ _ _ _ H) as [(Hst & Hinit)|(Hst & Hbuf)].
        * right. split; [eapply fa_init_failed_mid; eassumption|lia].
        * left. exact Hst.
  Qed.

  Lemma nset n r rs0 r' rs' o : NSt r -> fa_read_set fuel ffuel n r rs0 = (r', rs', o) ->
    NSt r' /\ quiet o /\ (rs' = rs0 \/ fa_set_records rs' = []).
  Proof.
    intros [B Hs] H. destruct (Base0_set _ _ _ _ _ _ _ _ _ H B) as [B' Hcap].
    destruct Hs as [Hfin|[HM Hc]].
    - rewrite (read_set_finished fuel ffuel n r rs0 Hfin) in H. inversion H; subst.
      split; [split; [exact B|left; exact Hfin]|]. split; [left; reflexivity|left; reflexivity].
    - destruct (ntwin _ (NSt_twin r B HM Hc)) as (r1 & first & Hfin & Hfirst & _ & H0).
      destruct (fa_read_set_cut fuel ffuel n (hl r) r rs0 r1 rs0 first r' rs' o (hl_cut r) (H0 n rs0) H)
        as [(-> & -> & Hcut)|(e & ->)].
      + split; [split; [exact B'|left; rewrite (fa_cut_st _ _ Hcut); exact Hfin]|].
        split; [|left; reflexivity].
        destruct Hfirst as [->|(l & b & ->)]; [left; reflexivity|right; left; eauto].
      + destruct (set_io_cases _ _ _ _ _ _ _ _ H) as [(Hst & Hinit & ->)|(Hst & Hbuf & Hrecs)].
        * split; [split; [exact B'|]|]. { right. split; [eapply fa_init_failed_mid; eassumption|lia]. }
          split; [right; right; eauto|left; reflexivity].
        * split; [split; [exact B'|left; exact Hst]|]. split; [right; right; eauto|right; exact Hrecs].
  Qed.

  Definition NH (h : hstate) : Prop :=
    NSt (h_r h) /\ fa_set_records (h_s0 h) = [] /\ fa_set_records (h_s1 h) = [].

  Lemma quiet_obs o : quiet o -> shows inp (out_obs o) [].
  Proof. intros [->|[(l & b & ->)|(e & ->)]]; reflexivity. Qed.

  Lemma nstep op h : NH h -> shows inp (snd (fa_hstep fuel ffuel tgt h op)) [] /\ NH (fst (fa_hstep fuel ffuel tgt h op)).
  Proof.
    intros (N & E0 & E1).
    assert (Hset : forall n slot,
      let x := fa_read_set fuel ffuel n (h_r h) (h_get h slot) in
      shows inp (match snd x with OSetOk => HoSet (fa_set_records (snd (fst x))) | _ => out_obs (snd x) end) [] /\
      NH (h_put (h_with h (fst (fst x))) slot (snd (fst x)))).
    { intros n slot. cbv zeta.
      destruct (fa_read_set fuel ffuel n (h_r h) (h_get h slot)) as [[r' rs'] o] eqn:E. cbn [fst snd].
      destruct (nset _ _ _ _ _ _ N E) as (N' & Hq & Hrs).
      split.
      - pose proof (quiet_obs o Hq) as Hsh. destruct Hq as [->|[(l & b & ->)|(e & ->)]]; exact Hsh.
      - assert (Hr : fa_set_records rs' = []).
        { destruct Hrs as [->|Hr]; [destruct slot; assumption|exact Hr]. }
        unfold NH. destruct slot; cbn [h_put h_with h_r h_s0 h_s1]; auto. }
    destruct op as [| |slot|slot n|slot| |k0]; cbn [fa_hstep].
    - destruct (fa_next fuel ffuel (h_r h)) as [r' o] eqn:E. cbn [fst snd].
      destruct (nnext _ _ _ N E) as [N' Hq]. split; [apply quiet_obs; exact Hq|].
      unfold NH. cbn [h_with h_r h_s0 h_s1]. auto.
    - destruct (fa_next fuel ffuel (h_r h)) as [r' o] eqn:E. cbn [fst snd].
      destruct (nnext _ _ _ N E) as [N' Hq]. split.
      + pose proof (quiet_obs o Hq) as Hsh. destruct Hq as [->|[(l & b & ->)|(e & ->)]]; exact Hsh.
      + unfold NH. cbn [h_with h_r h_s0 h_s1]. auto.
    - specialize (Hset None slot). cbv zeta in Hset.
      destruct (fa_read_set fuel ffuel None (h_r h) (h_get h slot)) as [[r' rs'] o]. exact Hset.
    - specialize (Hset (Some n) slot). cbv zeta in Hset.
      destruct (fa_read_set fuel ffuel (Some n) (h_r h) (h_get h slot)) as [[r' rs'] o]. exact Hset.
    - cbn [fst snd]. split; [|split; auto].
      cbn [shows]. destruct slot; cbn [h_get]; [rewrite E0|rewrite E1]; constructor.
    - cbn [fst snd]. split; [reflexivity|split; auto].
    - rewrite Hnot. cbn [fst snd]. split; [reflexivity|split; auto].
  Qed.

  Lemma nhist : forall ops h, NH h ->
    Forall (fun ob => shows inp (fst ob) []) (fst (fa_hist fuel ffuel tgt ops h)).
  Proof.
    induction ops as [|op ops IH]; intros h N; [constructor|].
    rewrite fa_hist_fst_cons. destruct (nstep op h N) as [A B]. constructor; [exact A|apply IH; exact B].
  Qed.

  Lemma NH_init cap0 rs sks pol0 : 3 <= cap0 -> PolOk pol0 -> length rs + 2 <= ffuel ->
    NH (h_init inp cap0 rs sks pol0).
  Proof.
    intros Hc Hp Hf. unfold NH, h_init. cbn [h_r h_s0 h_s1].
    split; [|split; reflexivity]. split.
    - constructor; cbn [fa_new src cap polf s_data]; auto; try lia.
    - right. split; [apply InitMid_new; lia|exact Hc].
  Qed.
End NoRecs.

(* ------------------------------------------------------------------ *)
(** * The theorem against the line-based specification [fa_spec] *)

(** the view [rc] shows the record [x] of the specification: it is a view of the input
    at the offsets of a stream item that is, in content, line and byte, the record [x] *)
Definition RecShows (inp : list byte) (rc : fa_rec) (x : fa_item) : Prop :=
  exists s line ends, FastaTopP.item_rel inp (OiRec s line ends) (SRec x) /\ RecAt inp rc s ends.

Definition rec_genuine (inp : list byte) (rc : fa_rec) : Prop :=
  exists x, In (SRec x) (fa_spec inp) /\ RecShows inp rc x.

Definition genuine_ob (inp : list byte) (ob : hobs) : Prop :=
  match ob with
  | HoRec rc => rec_genuine inp rc
  | HoOwned (Some hs) => exists x, In x (fa_records inp) /\ item_owned x = Some hs
  | HoOwned None => False
  | HoSet rcs => Forall (rec_genuine inp) rcs
  | HoAbnormal _ => False
  | _ => True
  end.

Lemma Forall2_In_l {A B} (R : A -> B -> Prop) l1 l2 a : Forall2 R l1 l2 -> In a l1 -> exists b, In b l2 /\ R a b.
Proof.
  induction 1 as [|x y l1 l2 Hxy _ IH]; intros Hin; [destruct Hin|].
  destruct Hin as [->|Hin]; [exists y; split; [left; reflexivity|exact Hxy]|].
  destruct (IH Hin) as (b & Hb & Hr). exists b. split; [right; exact Hb|exact Hr].
Qed.

Lemma spec_rec_of_item inp its it :
  Forall2 (FastaTopP.item_rel inp) (map oirec its) (fa_spec inp) -> In it its ->
  exists x, In (SRec x) (fa_spec inp) /\ FastaTopP.item_rel inp (oirec it) (SRec x).
Proof.
  intros Hrel Hin.
  destruct (Forall2_In_l _ _ _ (oirec it) Hrel (in_map oirec _ _ Hin)) as (b & Hb & Hr).
  destruct it as [[s line] ends]. destruct b as [x|l c]; [|destruct Hr].
  exists x. split; [exact Hb|exact Hr].
Qed.

Lemma In_spec_records inp x : In (SRec x) (fa_spec inp) -> In x (fa_records inp).
Proof.
  intros H. unfold fa_records. apply in_flat_map. exists (SRec x). split; [exact H|left; reflexivity].
Qed.

Lemma item_rel_owned inp s line ends x : FastaTopP.item_rel inp (OiRec s line ends) (SRec x) ->
  spec_owned inp (s, line, ends) = item_owned x.
Proof.
  intros (Hwf & Hh & Hl & _ & _).
  unfold spec_owned, fa_to_owned, fa_owned_seq, i_s, i_ends, item_owned. cbn [fst snd].
  rewrite Hh, Hl. reflexivity.
Qed.

Lemma ob_genuine_spec inp its ob :
  Forall2 (FastaTopP.item_rel inp) (map oirec its) (fa_spec inp) ->
  ob_genuine inp its ob -> genuine_ob inp (fst ob).
Proof.
  intros Hrel (l & Hsh & Hincl). destruct (fst ob) as [rc|o|rcs|e| | | | |a]; cbn [shows genuine_ob] in *; auto.
  - destruct Hsh as (it & -> & Hrec).
    destruct (spec_rec_of_item inp its it Hrel (Hincl it (or_introl eq_refl))) as (x & Hx & Hr).
    exists x. split; [exact Hx|]. destruct it as [[s line] ends]. exists s, line, ends. split; [exact Hr|exact Hrec].
  - destruct Hsh as (it & -> & ->).
    destruct (spec_rec_of_item inp its it Hrel (Hincl it (or_introl eq_refl))) as (x & Hx & Hr).
    destruct it as [[s line] ends]. rewrite (item_rel_owned _ _ _ _ _ Hr). unfold item_owned.
    exists x. split; [apply In_spec_records; exact Hx|reflexivity].
  - induction Hsh as [|rc it rcs l Hrec _ IH]; [constructor|]. constructor.
    + destruct (spec_rec_of_item inp its it Hrel (Hincl it (or_introl eq_refl))) as (x & Hx & Hr).
      exists x. split; [exact Hx|]. destruct it as [[s line] ends]. exists s, line, ends. split; [exact Hr|exact Hrec].
    + apply IH. intros y Hy. apply Hincl. right. exact Hy.
Qed.

Lemma shows_nil_genuine inp ob : shows inp ob [] -> genuine_ob inp ob.
Proof.
  destruct ob as [rc|o|rcs|e| | | | |a]; cbn [shows genuine_ob]; auto.
  - intros (it & E & _). discriminate.
  - intros (it & E & _). discriminate.
  - intros H. inversion H. constructor.
Qed.

Lemma tgt_of_norecs items : items = [] \/ (exists ln b, items = [OiInvalidStart ln b]) -> forall k, tgt_of items k = None.
Proof.
  intros [->|(ln & b & ->)] k; unfold tgt_of; destruct k as [|[|k]]; reflexivity.
Qed.

Theorem fa_every_returned_record_is_genuine inp cap0 rs sks pol fuel ffuel ops :
  3 <= cap0 -> PolOk pol -> length rs + 2 <= ffuel -> length inp + 2 <= fuel -> Forall hop_ok ops ->
  Forall (fun ob => genuine_ob inp (fst ob))
         (fst (fa_hist fuel ffuel (tgt_spec inp) ops (h_init inp cap0 rs sks pol))).
Proof.
  intros Hcap Hpol Hff Hfuel Hops.
  assert (Hff2 : 2 <= ffuel) by lia.
  destruct (fa_ospec_exists inp) as (items & Hspec & Hrel).
  rewrite (fa_hist_ext fuel ffuel (tgt_spec inp) (tgt_of items));
    [|intros k; unfold tgt_spec; symmetry; apply (tgt_of_spec inp items (fa_spec inp) Hrel)].
  inversion Hspec as [Hos E | ln b Hos E | pos ln its Hos Hstream E].
  - eapply Forall_impl; [|apply (nhist inp fuel ffuel Hff2 Hfuel (or_introl Hos) (tgt_of []) (tgt_of_norecs [] (or_introl eq_refl)));
                          eapply NH_init; eassumption].
    intros ob Hsh. apply shows_nil_genuine. exact Hsh.
  - eapply Forall_impl; [|apply (nhist inp fuel ffuel Hff2 Hfuel (or_intror (ex_intro _ ln (ex_intro _ b Hos)))
                                   (tgt_of [OiInvalidStart ln b]) (tgt_of_norecs _ (or_intror (ex_intro _ ln (ex_intro _ b eq_refl)))));
                          eapply NH_init; eassumption].
    intros ob Hsh. apply shows_nil_genuine. exact Hsh.
  - subst items. eapply Forall_impl; [|apply (hist_gen inp fuel ffuel pol pos ln its Hpol Hff2 Hfuel Hos Hstream ops _ 0 ([], []) Hops);
                                       eapply HInv_init; eassumption].
    intros ob Hg. eapply ob_genuine_spec; [exact Hrel|exact Hg].
Qed.

(* ------------------------------------------------------------------ *)
(** * "... further genuine records IN ORDER": between two seeks the byte offsets of the
      returned records strictly increase *)

(** what the reads of a history deliver: views and owned copies, in order *)
Inductive dlv := DRec (rc : fa_rec) | DOwn (o : option (list byte * list byte)).

Fixpoint delivered_all (ops : list hop) (obs : list (hobs * option (nat * nat))) : list dlv :=
  match ops, obs with
  | op :: ops', o :: obs' =>
      match op, fst o with
      | HNext, HoRec rc => [DRec rc]
      | HOwned, HoOwned ow => [DOwn ow]
      | HSet _, HoSet rcs => map DRec rcs
      | HSetExact _ _, HoSet rcs => map DRec rcs
      | _, _ => []
      end ++ delivered_all ops' obs'
  | _, _ => []
  end.

Definition dlv_it (inp : list byte) (d : dlv) (it : nat * nat * list nat) : Prop :=
  match d with DRec rc => rec_ok inp rc it | DOwn o => o = spec_owned inp it end.

Definition dlv_is (inp : list byte) (d : dlv) (x : fa_item) : Prop :=
  match d with DRec rc => RecShows inp rc x | DOwn o => o = item_owned x end.

Definition ltS (a b : nat * nat * list nat) : Prop := i_s a < i_s b.

Lemma FaStream_sorted inp : forall its s line, FaStream inp s line its ->
  Forall (fun it => s <= i_s it) its /\ StronglySorted ltS its.
Proof.
  intros its s line H. induction H as [s line p a Hscan | s line p a rest Hscan Hrest [IH1 IH2]].
  - split; [constructor; [cbn; lia|constructor]|constructor; constructor].
  - unfold scan_abs in Hscan. destruct (fa_scan_pos _ _ _ _ _ _ Hscan) as [_ Hlt]. specialize (Hlt eq_refl).
    split.
    + constructor; [cbn; lia|]. eapply Forall_impl; [|exact IH1]. cbn. intros; lia.
    + constructor; [exact IH2|]. eapply Forall_impl; [|exact IH1]. unfold ltS. cbn [i_s fst]. intros; lia.
Qed.

Lemma sorted_app {A} (R : A -> A -> Prop) a b :
  StronglySorted R a -> StronglySorted R b -> (forall x y, In x a -> In y b -> R x y) -> StronglySorted R (a ++ b).
Proof.
  intros Ha Hb Hab. induction Ha as [|x a Ha IH Hx]; [exact Hb|].
  cbn [app]. constructor.
  - apply IH. intros u v Hu Hv. apply Hab; [right; exact Hu|exact Hv].
  - apply Forall_app. split; [exact Hx|]. apply Forall_forall. intros y Hy. apply Hab; [left; reflexivity|exact Hy].
Qed.

Lemma sorted_skipn {A} (R : A -> A -> Prop) : forall k l, StronglySorted R l -> StronglySorted R (skipn k l).
Proof.
  induction k as [|k IH]; intros l H; [exact H|]. destruct l as [|x l]; [constructor|].
  cbn [skipn]. apply IH. inversion H; assumption.
Qed.

Lemma sorted_firstn {A} (R : A -> A -> Prop) : forall n l, StronglySorted R l -> StronglySorted R (firstn n l).
Proof.
  induction n as [|n IH]; intros l H; [constructor|]. destruct l as [|x l]; [constructor|].
  cbn [firstn]. inversion H; subst. constructor; [apply IH; assumption|].
  apply Forall_forall. intros y Hy. apply In_firstn_my in Hy.
  match goal with HF : Forall _ l |- _ => rewrite Forall_forall in HF; apply HF; exact Hy end.
Qed.

(** in a sorted list, everything in the first [n] elements is below everything after them *)
Lemma sorted_split {A} (R : A -> A -> Prop) : forall n l x y, StronglySorted R l ->
  In x (firstn n l) -> In y (skipn n l) -> R x y.
Proof.
  induction n as [|n IH]; intros l x y H Hx Hy; [destruct Hx|].
  destruct l as [|z l]; [destruct Hx|]. cbn [firstn skipn] in *. inversion H as [|? ? Hs HF]; subst.
  destruct Hx as [->|Hx].
  - rewrite Forall_forall in HF. apply HF. clear -Hy. revert l Hy. induction n as [|n IHn]; intros l Hy; [exact Hy|].
    destruct l as [|w l]; [destruct Hy|]. right. apply IHn. exact Hy.
  - eapply IH; eassumption.
Qed.

Lemma incl_skipn_le {A} (l : list A) : forall k k', k <= k' -> incl (skipn k' l) (skipn k l).
Proof.
  intros k k' Hk. replace k' with (k + (k' - k)) by lia. rewrite <- Window.skipn_skipn.
  intros x Hx. generalize dependent (skipn k l). intros m. generalize (k' - k). intros j. revert m.
  induction j as [|j IH]; intros m Hx; [exact Hx|]. destruct m as [|y m]; [destruct Hx|]. right. apply IH. exact Hx.
Qed.

Section Order.
  Variables (inp : list byte) (its : list (nat * nat * list nat)).
  Hypothesis Hsorted : StronglySorted ltS its.

  Lemma runs_sorted k ops obs : runs_from inp its k ops obs ->
    exists l, Forall2 (dlv_it inp) (delivered_all ops obs) l /\ StronglySorted ltS l /\ incl l (skipn k its).
  Proof.
    induction 1 as [k|k op ops ob obs l1 k' Hsh Hincl Hread Hk _ (l2 & HF & Hs & Hi)].
    - exists []. split; [constructor|]. split; [constructor|intros x []].
    - assert (Hi' : incl l2 (skipn k its)) by (intros x Hx; apply (incl_skipn_le its k k' Hk); apply Hi; exact Hx).
      assert (Hskip : exists l, Forall2 (dlv_it inp) (delivered_all ops obs) l /\ StronglySorted ltS l /\ incl l (skipn k its))
        by (exists l2; auto).
      assert (Htake : forall ds, is_read op = true -> Forall2 (dlv_it inp) ds l1 ->
                exists l, Forall2 (dlv_it inp) (ds ++ delivered_all ops obs) l /\ StronglySorted ltS l /\ incl l (skipn k its)).
      { intros ds Hr Hds. destruct (Hread Hr) as [E Hle].
        exists (l1 ++ l2). split; [apply Forall2_app; assumption|]. split.
        - apply sorted_app; [rewrite E; apply sorted_firstn, sorted_skipn; exact Hsorted|exact Hs|].
          intros x y Hx Hy. rewrite E in Hx.
          apply (sorted_split ltS (length l1) (skipn k its) x y (sorted_skipn _ _ _ Hsorted) Hx).
          rewrite Window.skipn_skipn. apply (incl_skipn_le its (k + length l1) k' Hle). apply Hi. exact Hy.
        - apply incl_app; [|exact Hi']. rewrite E. intros x Hx. apply In_firstn_my in Hx. exact Hx. }
      cbn [delivered_all].
      destruct op as [| |slot|slot n|slot| |k0]; destruct (fst ob) as [rc|o|rcs|e| | | | |a];
        cbn [shows] in Hsh; try exact Hskip.
      + destruct Hsh as (it & -> & Hrec). apply Htake; [reflexivity|]. constructor; [exact Hrec|constructor].
      + destruct Hsh as (it & -> & Ho). apply Htake; [reflexivity|]. constructor; [exact Ho|constructor].
      + apply Htake; [reflexivity|]. clear -Hsh. induction Hsh; cbn [map]; constructor; auto.
      + apply Htake; [reflexivity|]. clear -Hsh. induction Hsh; cbn [map]; constructor; auto.
  Qed.
End Order.

Lemma fa_hist_app fuel ffuel tgt : forall ops1 ops2 h,
  fst (fa_hist fuel ffuel tgt (ops1 ++ ops2) h) =
  fst (fa_hist fuel ffuel tgt ops1 h) ++ fst (fa_hist fuel ffuel tgt ops2 (snd (fa_hist fuel ffuel tgt ops1 h))).
Proof.
  induction ops1 as [|op ops1 IH]; intros ops2 h; [reflexivity|].
  cbn [app]. rewrite !fa_hist_fst_cons, fa_hist_snd_cons, IH. reflexivity.
Qed.

Lemma fa_hist_length fuel ffuel tgt : forall ops h, length (fst (fa_hist fuel ffuel tgt ops h)) = length ops.
Proof.
  induction ops as [|op ops IH]; intros h; [reflexivity|]. rewrite fa_hist_fst_cons. cbn [length]. rewrite IH. reflexivity.
Qed.

Lemma fa_hist_skipn fuel ffuel tgt ops1 ops2 h :
  skipn (length ops1) (fst (fa_hist fuel ffuel tgt (ops1 ++ ops2) h)) =
  fst (fa_hist fuel ffuel tgt ops2 (snd (fa_hist fuel ffuel tgt ops1 h))).
Proof.
  rewrite fa_hist_app. rewrite <- (fa_hist_length fuel ffuel tgt ops1 h) at 1. apply skipn_app_exact.
Qed.

Lemma delivered_none inp : forall ops obs, Forall (fun ob => shows inp (fst ob) []) obs -> delivered_all ops obs = [].
Proof.
  induction ops as [|op ops IH]; intros obs H; [reflexivity|]. destruct obs as [|ob obs]; [reflexivity|].
  inversion H as [|? ? Hsh Hrest]; subst. cbn [delivered_all]. rewrite (IH obs Hrest), app_nil_r.
  destruct op as [| |slot|slot n|slot| |k0]; destruct (fst ob) as [rc|o|rcs|e| | | | |a]; cbn [shows] in Hsh; try reflexivity.
  - destruct Hsh as (it & E & _). discriminate.
  - destruct Hsh as (it & E & _). discriminate.
  - inversion Hsh. reflexivity.
  - inversion Hsh. reflexivity.
Qed.

Lemma sorted_transport {A B} (P : A -> B -> Prop) (f : A -> nat) (g : B -> nat) :
  (forall a b, P a b -> f a = g b) -> forall l xs, Forall2 P l xs ->
  StronglySorted (fun a a' => f a < f a') l -> StronglySorted (fun b b' => g b < g b') xs.
Proof.
  intros Hfg l xs H. induction H as [|a b l xs Hab H IH]; intros Hs; [constructor|].
  inversion Hs as [|? ? Hs' HF]; subst. constructor; [apply IH; exact Hs'|].
  clear IH Hs Hs'. induction H as [|a' b' l xs Hab' _ IH']; [constructor|].
  inversion HF; subst. constructor; [rewrite <- (Hfg _ _ Hab), <- (Hfg _ _ Hab'); assumption|apply IH'; assumption].
Qed.

Theorem fa_returned_records_in_order inp cap0 rs sks pol fuel ffuel ops1 ops2 :
  3 <= cap0 -> PolOk pol -> length rs + 2 <= ffuel -> length inp + 2 <= fuel ->
  Forall hop_ok (ops1 ++ ops2) -> Forall (fun o => is_seek o = false) ops2 ->
  let obs := fst (fa_hist fuel ffuel (tgt_spec inp) (ops1 ++ ops2) (h_init inp cap0 rs sks pol)) in
  exists xs, Forall2 (dlv_is inp) (delivered_all ops2 (skipn (length ops1) obs)) xs /\
             Forall (fun x => In (SRec x) (fa_spec inp)) xs /\
             StronglySorted (fun x y => fi_byte x < fi_byte y) xs.
Proof.
  intros Hcap Hpol Hff Hfuel Hops Hns. cbv zeta.
  assert (Hff2 : 2 <= ffuel) by lia.
  apply Forall_app in Hops. destruct Hops as [Hops1 Hops2].
  destruct (fa_ospec_exists inp) as (items & Hspec & Hrel).
  rewrite (fa_hist_ext fuel ffuel (tgt_spec inp) (tgt_of items));
    [|intros k; unfold tgt_spec; symmetry; apply (tgt_of_spec inp items (fa_spec inp) Hrel)].
  rewrite fa_hist_skipn.
  assert (Hnone : forall tgt, (forall k, tgt k = None) ->
            (fa_ostart_of inp = OsEmpty \/ exists ln b, fa_ostart_of inp = OsInvalid ln b) ->
            exists xs, Forall2 (dlv_is inp)
                (delivered_all ops2 (fst (fa_hist fuel ffuel tgt ops2
                   (snd (fa_hist fuel ffuel tgt ops1 (h_init inp cap0 rs sks pol)))))) xs /\
              Forall (fun x => In (SRec x) (fa_spec inp)) xs /\
              StronglySorted (fun x y => fi_byte x < fi_byte y) xs).
  { intros tgt Hnot Hos. exists []. rewrite (delivered_none inp).
    - split; [constructor|]. split; constructor.
    - pose proof (fa_hist_skipn fuel ffuel tgt ops1 ops2 (h_init inp cap0 rs sks pol)) as E. rewrite <- E.
      assert (HN : Forall (fun ob => shows inp (fst ob) [])
                     (fst (fa_hist fuel ffuel tgt (ops1 ++ ops2) (h_init inp cap0 rs sks pol)))).
      { apply (nhist inp fuel ffuel Hff2 Hfuel Hos tgt Hnot). eapply NH_init; eassumption. }
      clear -HN. revert HN. generalize (fst (fa_hist fuel ffuel tgt (ops1 ++ ops2) (h_init inp cap0 rs sks pol))).
      generalize (length ops1). intros n l. revert l. induction n as [|n IH]; intros l H; [exact H|].
      destruct l as [|x l]; [constructor|]. cbn [skipn]. apply IH. inversion H; assumption. }
  inversion Hspec as [Hos E | ln b Hos E | pos ln its Hos Hstream E].
  - apply Hnone; [apply tgt_of_norecs; left; reflexivity|left; exact Hos].
  - apply Hnone; [apply tgt_of_norecs; right; eauto|right; eauto].
  - subst items.
    destruct (HInv_after inp fuel ffuel pol pos ln its Hpol Hff2 Hfuel Hos Hstream ops1 _ 0 ([], []) Hops1
                (HInv_init inp fuel ffuel its Hff2 Hfuel cap0 rs sks pol Hcap Hpol Hff)) as (k1 & g1 & Hinv1).
    pose proof (hist_order inp fuel ffuel pol pos ln its Hpol Hff2 Hfuel Hos Hstream ops2 _ k1 g1 Hops2 Hns Hinv1) as Hruns.
    destruct (FaStream_sorted inp its pos ln Hstream) as [_ Hsorted].
    destruct (runs_sorted inp its Hsorted _ _ _ Hruns) as (l & HF & Hs & Hi).
    (* every delivered stream item is, in content and position, a record of the specification *)
    assert (Hxs : exists xs, Forall2 (fun it x => In (SRec x) (fa_spec inp) /\ FastaTopP.item_rel inp (oirec it) (SRec x)) l xs).
    { assert (Hl : incl l its) by (intros x Hx; apply Hi in Hx; apply (incl_skipn_le its 0 k1 ltac:(lia)); exact Hx).
      clear -Hl Hrel. induction l as [|it l IH]; [exists []; constructor|].
      destruct (spec_rec_of_item inp its it Hrel (Hl it (or_introl eq_refl))) as (x & Hx & Hr).
      destruct IH as (xs & IH); [intros y Hy; apply Hl; right; exact Hy|]. exists (x :: xs). constructor; auto. }
    destruct Hxs as (xs & Hxs). exists xs. split; [|split].
    + clear -HF Hxs. revert xs Hxs. induction HF as [|d it ds l Hd _ IH]; intros xs Hxs; inversion Hxs; subst; constructor.
      * match goal with Hy : _ /\ _ |- _ => destruct Hy as [_ Hr] end.
        destruct it as [[s line] ends]. destruct d as [rc|o]; cbn [dlv_it dlv_is] in *.
        -- exists s, line, ends. split; [exact Hr|exact Hd].
        -- rewrite Hd. apply (item_rel_owned _ _ _ _ _ Hr).
      * apply IH. assumption.
    + clear -Hxs. induction Hxs as [|it x l xs [Hx _] _ IH]; constructor; auto.
    + apply (sorted_transport _ i_s fi_byte) with (l := l) (2 := Hxs); [|exact Hs].
      intros [[s line] ends] x [_ (_ & _ & _ & _ & Hb)]. cbn [i_s fst]. symmetry. exact Hb.
Qed.

(* ------------------------------------------------------------------ *)
(** * The statements of Props/C06g.v *)

(** the target statement, literally *)
Theorem fa_every_returned_record_is_genuine_target : forall inp cap0 rs sks pol fuel ffuel ops,
  3 <= cap0 -> PolOk pol ->
  length rs + 2 <= ffuel -> 2 * length inp + 4 <= fuel -> Forall hop_ok ops ->
  let obs := fst (fa_hist fuel ffuel (tgt_spec inp) ops (h_init inp cap0 rs sks pol)) in
  Forall (fun ob =>
            match fst ob with
            | HoRec rc => exists it, In (SRec it) (fa_spec inp) /\ RecShows inp rc it
            | HoOwned (Some hs) => exists it, In it (fa_records inp) /\ item_owned it = Some hs
            | HoOwned None => False
            | HoSet rcs => Forall (fun rc => exists it, In (SRec it) (fa_spec inp) /\ RecShows inp rc it) rcs
            | HoAbnormal _ => False
            | _ => True
            end) obs.
Proof.
  intros inp cap0 rs sks pol fuel ffuel ops Hcap Hpol Hff Hfuel Hops. cbv zeta.
  exact (fa_every_returned_record_is_genuine inp cap0 rs sks pol fuel ffuel ops Hcap Hpol Hff ltac:(lia) Hops).
Qed.

(** what [RecShows] gives: the accessors of the view return the fields of the specification
    record, and the position of the record is the position of the view in the input *)
Lemma RecShows_views inp rc x : RecShows inp rc x ->
  fa_head rc = Some (fi_head x) /\ fa_lines rc = Some (fi_lines x) /\ fa_to_owned rc = item_owned x /\
  exists off e, rbuf rc = window inp off e /\ rstart rc + off = fi_byte x.
Proof.
  intros (s & line & ends & Hrel & Hat).
  pose proof Hrel as (Hwf & Hh & Hl & Hli & Hby).
  destruct (fa_view_shift_same inp rc s ends Hat Hwf) as (_ & Hv).
  destruct Hv as (Hv1 & _ & Hv3 & _ & _ & _ & Hto & _).
  split; [rewrite Hv1; exact Hh|]. split; [rewrite Hv3; exact Hl|].
  split; [rewrite Hto; apply (item_rel_owned inp s line ends x Hrel)|].
  destruct Hat as (off & e & Hb & _ & _ & Hs & _). exists off, e. split; [exact Hb|]. rewrite Hby. exact Hs.
Qed.

(** the invariant and its preservation, operation by operation (inputs with records) *)
Theorem fa_ops_whatever_the_source_does : forall inp fuel ffuel pos0 ln0 its,
  2 <= ffuel -> length inp + 2 <= fuel ->
  fa_ostart_of inp = OsRecs pos0 ln0 -> FaStream inp pos0 ln0 its ->
  (* a new reader *)
  (forall cap0 rs sks pol0, 3 <= cap0 -> PolOk pol0 -> length rs + 2 <= ffuel ->
     RSt inp ffuel its (fa_new cap0 (mkSource inp 0 rs sks) pol0) 0) /\
  (* next *)
  (forall r k r' o, RSt inp ffuel its r k -> fa_next fuel ffuel r = (r', o) ->
     (exists rc it, o = ORec rc /\ nth_error its k = Some it /\ rec_ok inp rc it /\
                    fa_position r' = Some (i_line it, i_s it) /\ RSt inp ffuel its r' (S k)) \/
     (o = ONone /\ exists k', k <= k' /\ RSt inp ffuel its r' k') \/
     (exists e, o = OErr (FaIo e) /\ RSt inp ffuel its r' k)) /\
  (* read_record_set(_exact) *)
  (forall n rs0 r k r' rs' o, count_ok n -> RSt inp ffuel its r k ->
     fa_read_set fuel ffuel n r rs0 = (r', rs', o) ->
     (o = OSetOk /\ exists m, 1 <= m /\ k + m <= length its /\
                    SetRecs inp rs' (firstn m (skipn k its)) /\ RSt inp ffuel its r' (k + m)) \/
     (o = ONone /\ rs' = rs0 /\ exists k', k <= k' /\ RSt inp ffuel its r' k') \/
     (exists e, o = OErr (FaIo e) /\ (rs' = rs0 \/ fa_set_records rs' = []) /\ RSt inp ffuel its r' k)) /\
  (* seek to the position of record k' *)
  (forall r k k' it r' o, RSt inp ffuel its r k -> nth_error its k' = Some it ->
     fa_seek ffuel r (i_line it) (i_s it) = (r', o) ->
     (o = OOk /\ RSt inp ffuel its r' k') \/ (exists e, o = OErr (FaIo e) /\ RSt inp ffuel its r' k)).
Proof.
  intros inp fuel ffuel pos0 ln0 its Hff2 Hfuel Hstart Hstream.
  pose (pol := pol_std). pose proof PolOk_std as Hpol.
  split; [|split; [|split]].
  - intros cap0 rs sks pol0 Hc Hp Hf.
    exact (proj1 (HInv_init inp fuel ffuel its Hff2 Hfuel cap0 rs sks pol0 Hc Hp Hf)).
  - exact (rnext inp fuel ffuel pol pos0 ln0 its Hpol Hff2 Hfuel Hstart Hstream).
  - exact (rset inp fuel ffuel pol pos0 ln0 its Hpol Hff2 Hfuel Hstart Hstream).
  - exact (rseek inp fuel ffuel pol pos0 ln0 its Hpol Hff2 Hfuel Hstart Hstream).
Qed.

(** the three kinds of states of the healthy twin, in plain terms *)
Lemma RSt_kinds inp ffuel its r k : RSt inp ffuel its r k ->
  s_data (src r) = inp /\
  ((st r = FNew /\ InitMid inp r) \/
   (st r = FFinished /\ buf r = []) \/
   (exists off, buf r = window inp off (s_pos (src r)) /\ pbyte r = start r + off /\ st r <> FNew)).
Proof.
  intros [B G]. split; [apply B|].
  destruct G as [Hn|j off it Hn Hat|k off it Hn Hpos|k off it Hn Hinc|off Hend|k Hd].
  - left. split; [apply (im_st _ _ (proj1 (gn_mid _ _ _ Hn)))|]. apply InitMid_hl. apply Hn.
  - right. right. exists off. pose proof (AtRec_common _ _ _ _ _ _ _ Hat) as [W _ _ _ W3].
    split; [apply W|]. split; [exact W3|].
    destruct Hat as [_ _ _ _ _ _ _ _ _ _ Hres]. change (st (hl r)) with (st r) in Hres.
    destruct Hres as [(_ & E & _)|(sq & _ & _ & E & _)]; congruence.
  - right. right. exists off. destruct (pa_cm _ _ _ _ _ _ Hpos) as [W _ _ _ W3].
    split; [apply W|]. split; [exact W3|]. pose proof (pa_st _ _ _ _ _ _ Hpos) as E. change (st (hl r)) with (st r) in E. congruence.
  - right. right. exists off. destruct (ia_cm _ _ _ _ _ _ Hinc) as [W _ _ _ W3].
    split; [apply W|]. split; [exact W3|]. pose proof (ia_st _ _ _ _ _ _ Hinc) as E. change (st (hl r)) with (st r) in E. congruence.
  - right. right. exists off. destruct (ea_cm _ _ _ _ Hend) as [W _ _ _ W3].
    split; [apply W|]. split; [exact W3|]. pose proof (ea_st _ _ _ _ Hend) as E. change (st (hl r)) with (st r) in E. congruence.
  - right. left. split; [apply (dd_st _ _ _ Hd)|apply (dd_buf _ _ _ Hd)].
Qed.

Print Assumptions fa_every_returned_record_is_genuine.
Print Assumptions fa_every_returned_record_is_genuine_target.
Print Assumptions fa_returned_records_in_order.
Print Assumptions fa_ops_whatever_the_source_does.
Print Assumptions RecShows_views.
Print Assumptions RSt_kinds.
