(** C06, the unifying theorem for the FASTQ reader: whatever the history of
    calls and whatever the failures of the source (reads and seeks, anywhere,
    any number of them), every record the reader returns is a record of the
    input.  Same method as Proofs/GenuineP.v (FASTA): the reader is looked at
    through its healthy twin [hlq r] (scripts cut before their first failures,
    Proofs/FqPrefixP.v), which is in a state of the fault-free theory ([HQ],
    Proofs/FastqSetP.v), or New after failed attempts of the first refill
    ([QMid]), or Dead (finished with an empty buffer after a failed refill). *)
From Coq Require Import Sorting.Sorted.
From SeqIO Require Import Model.Base Model.Fastq Model.Views Spec.FastaSpec Spec.FastqSpec Spec.CursorQ
  Proofs.TraceP Proofs.FqTraceP Proofs.FaultP Proofs.GrowP Proofs.InterruptP Proofs.FqInterruptP
  Proofs.Window Proofs.FastaInv Proofs.FqSpecP Proofs.FastqInv Proofs.FastqNextP Proofs.FastqSetP Proofs.FastqSeekP
  Proofs.CursorP Proofs.CursorBridgeP Proofs.FastqHistP Proofs.FinalErrP Proofs.FqTermP Proofs.FqPrefixP.
From SeqIO Require Proofs.FaInitRetryP Proofs.GenuineP.

(* ------------------------------------------------------------------ *)
(** * Cutting the scripts of a source before their first failures *)

Fixpoint qcut_rs (l : list ritem) : list ritem :=
  match l with
  | [] => []
  | RFailI _ :: _ => []
  | x :: t => x :: qcut_rs t
  end.

Fixpoint qcut_ss (l : list sitem) : list sitem :=
  match l with
  | [] => []
  | SFailI _ :: _ => []
  | x :: t => x :: qcut_ss t
  end.

Definition qcut_src (s : source) : source :=
  mkSource (s_data s) (s_pos s) (qcut_rs (s_rs s)) (qcut_ss (s_ss s)).

(** the healthy twin of a reader *)
Definition hlq (r : fq) : fq := qset_src r (qcut_src (qsrc r)).

Lemma qcut_rs_spec l : exists rt, l = qcut_rs l ++ rt /\ rtail_ok rt.
Proof.
  induction l as [|x t (rt & E & Hrt)]; [exists []; split; [reflexivity|exact I]|].
  destruct x as [m| |k]; cbn [qcut_rs].
  - exists rt. cbn [app]. split; [f_equal; exact E|exact Hrt].
  - exists rt. cbn [app]. split; [f_equal; exact E|exact Hrt].
  - exists (RFailI k :: t). split; [reflexivity|exact I].
Qed.

Lemma qcut_ss_spec l : exists rt, l = qcut_ss l ++ rt /\ stail_ok rt.
Proof.
  induction l as [|x t (rt & E & Hrt)]; [exists []; split; [reflexivity|exact I]|].
  destruct x as [|k]; cbn [qcut_ss].
  - exists rt. cbn [app]. split; [f_equal; exact E|exact Hrt].
  - exists (SFailI k :: t). split; [reflexivity|exact I].
Qed.

Lemma qcut_rs_ok l : forallb item_ok (qcut_rs l) = true.
Proof. induction l as [|[m| |k] t IH]; cbn [qcut_rs forallb item_ok andb]; auto. Qed.

Lemma qcut_ss_ok l : forallb sitem_ok (qcut_ss l) = true.
Proof. induction l as [|[|k] t IH]; cbn [qcut_ss forallb sitem_ok andb]; auto. Qed.

Lemma qcut_rs_len l : length (qcut_rs l) <= length l.
Proof. induction l as [|[m| |k] t IH]; cbn [qcut_rs length]; lia. Qed.

Lemma qcut_rs_app_ok a rt : forallb item_ok a = true -> rtail_ok rt -> qcut_rs (a ++ rt) = a.
Proof.
  intros Ha Hrt. induction a as [|x a IH]; cbn [app].
  - destruct rt as [|[m| |k] rt]; cbn [rtail_ok] in Hrt; try contradiction; reflexivity.
  - cbn [forallb] in Ha. apply andb_true_iff in Ha. destruct Ha as [Hx Ha].
    destruct x as [m| |k]; [| |discriminate]; cbn [qcut_rs]; rewrite (IH Ha); reflexivity.
Qed.

Lemma qcut_ss_app_ok a rt : forallb sitem_ok a = true -> stail_ok rt -> qcut_ss (a ++ rt) = a.
Proof.
  intros Ha Hrt. induction a as [|x a IH]; cbn [app].
  - destruct rt as [|[|k] rt]; cbn [stail_ok] in Hrt; try contradiction; reflexivity.
  - cbn [forallb] in Ha. apply andb_true_iff in Ha. destruct Ha as [Hx Ha].
    destruct x as [|k]; [|discriminate]; cbn [qcut_ss]; rewrite (IH Ha); reflexivity.
Qed.

Lemma qcut_src_cut s : src_cut (qcut_src s) s.
Proof.
  unfold src_cut, qcut_src. cbn [s_data s_pos s_rs s_ss].
  split; [reflexivity|]. split; [reflexivity|]. split; [apply qcut_rs_spec|apply qcut_ss_spec].
Qed.

Lemma hlq_cut r : fq_cut (hlq r) r.
Proof.
  unfold fq_cut, hlq. split; [destruct r; reflexivity|]. fq_simpl. apply qcut_src_cut.
Qed.

Lemma hlq_nf r : no_fail (qsrc (hlq r)).
Proof. unfold no_fail, hlq. fq_simpl. cbn [qcut_src s_rs]. apply qcut_rs_ok. Qed.

Lemma hlq_sk r : no_sfail (qsrc (hlq r)).
Proof. unfold no_sfail, hlq. fq_simpl. cbn [qcut_src s_ss]. apply qcut_ss_ok. Qed.

Lemma qsrc_cut_unique s0 s : src_cut s0 s -> no_fail s0 -> no_sfail s0 -> s0 = qcut_src s.
Proof.
  intros (Hd & Hp & (rt & Hrs & Hrt) & (st_ & Hss & Hst)) Hnf Hsk.
  unfold qcut_src. rewrite Hd, Hp, Hrs, Hss.
  rewrite (qcut_rs_app_ok _ _ Hnf Hrt), (qcut_ss_app_ok _ _ Hsk Hst). destruct s0; reflexivity.
Qed.

Lemma fq_cut_hlq r0 r : fq_cut r0 r -> no_fail (qsrc r0) -> no_sfail (qsrc r0) -> r0 = hlq r.
Proof.
  intros Hc Hnf Hsk. destruct (fq_cut_inv _ _ Hc) as (s & -> & Hs).
  unfold hlq, qsw. fq_simpl. rewrite <- (qsrc_cut_unique _ _ Hs Hnf Hsk). destruct r0; reflexivity.
Qed.

Lemma hlq_fuel ffuel r : QFuelOk ffuel r -> QFuelOk ffuel (hlq r).
Proof.
  unfold QFuelOk, hlq. fq_simpl. cbn [qcut_src s_rs]. pose proof (qcut_rs_len (s_rs (qsrc r))). lia.
Qed.

(** changing only the seek script and the log *)
Definition qreseat (r : fq) (ss' : list sitem) (lg : list ev) : fq :=
  qset_log (qset_src r (mkSource (s_data (qsrc r)) (s_pos (qsrc r)) (s_rs (qsrc r)) ss')) lg.

Lemma hlq_reseat r ss' lg : hlq (qreseat r ss' lg) = qreseat (hlq r) (qcut_ss ss') lg.
Proof. destruct r. reflexivity. Qed.

(* ------------------------------------------------------------------ *)
(** * What every operation keeps, whatever the source does *)

Section Frame.
  Variables (inp : list byte) (ffuel : nat).

  Record QBase0 (r : fq) : Prop := mkQBase0 {
    qb_data : s_data (qsrc r) = inp;
    qb_cap : 1 <= qcap r;
    qb_pol : PolOk1 (qpolf r);
    qb_fuel : QFuelOk ffuel r
  }.

  Lemma qRun_frame a b cls : Run false a b cls -> c_polf b = c_polf a /\ c_cap a <= c_cap b.
  Proof.
    intros (added & [L F H A C] & _). split; [exact F|]. eapply CapTrace_mono; exact C.
  Qed.

  Lemma QBase0_next fuel r r' o : fq_next fuel ffuel r = (r', o) -> QBase0 r -> QBase0 r' /\ qcap r <= qcap r'.
  Proof.
    intros H [D C P F].
    destruct (qRun_frame _ _ _ (fq_next_run false _ _ _ _ _ H)) as [Hp Hc].
    cbn [fq_core c_polf c_cap] in Hp, Hc.
    destruct (fq_next_term _ _ _ _ _ H) as ((Hd & _) & _).
    destruct (fq_next_strip fuel ffuel r F) as [_ Hf]. rewrite H in Hf. cbn [fst] in Hf.
    split; [|exact Hc]. constructor; [congruence|lia|rewrite Hp; exact P|exact Hf].
  Qed.

  Lemma QBase0_set fuel n r rs r' rs' o : fq_read_set fuel ffuel n r rs = (r', rs', o) -> QBase0 r ->
    QBase0 r' /\ qcap r <= qcap r'.
  Proof.
    intros H [D C P F].
    destruct (qRun_frame _ _ _ (fq_read_set_run false _ _ _ _ _ _ _ _ H)) as [Hp Hc].
    cbn [fq_core c_polf c_cap] in Hp, Hc.
    destruct (fq_read_set_term _ _ _ _ _ _ _ _ H) as ((Hd & _) & _).
    destruct (fq_read_set_strip fuel ffuel n r rs F) as [_ Hf]. cbv zeta in Hf. rewrite H in Hf. cbn [fst] in Hf.
    split; [|exact Hc]. constructor; [congruence|lia|rewrite Hp; exact P|exact Hf].
  Qed.

  Lemma QBase0_seek r line byte_ r' o : fq_seek ffuel r line byte_ = (r', o) -> QBase0 r ->
    QBase0 r' /\ qcap r <= qcap r'.
  Proof.
    intros H [D C P F].
    destruct (qRun_frame _ _ _ (fq_seek_run false _ _ _ _ _ _ H)) as [Hp Hc].
    cbn [fq_core c_polf c_cap] in Hp, Hc.
    destruct (fq_seek_term _ _ _ _ _ _ H) as (Hd & _).
    destruct (fq_seek_strip ffuel r line byte_ F) as [_ Hf]. rewrite H in Hf. cbn [fst] in Hf.
    split; [|exact Hc]. constructor; [congruence|lia|rewrite Hp; exact P|exact Hf].
  Qed.
End Frame.

(* ------------------------------------------------------------------ *)
(** * Where an I/O error leaves the reader *)

Lemma qnext_io_cases fuel ffuel r r' k : fq_next fuel ffuel r = (r', QOErr (FqIo k)) ->
  (qst r = QNew /\ fq_init ffuel r = (r', QIErr (FqIo k))) \/ (qst r' = QFinished /\ qbuf r' = []).
Proof.
  unfold fq_next. intros H. destruct (qst r) eqn:Es.
  - destruct (fq_init ffuel r) as [r1 ir] eqn:E1.
    destruct ir as [[|]|e|]; try discriminate.
    + right. apply (fq_next_tail_io_state _ _ _ _ _ H).
    + inversion H; subst. left. split; reflexivity.
  - right. destruct (inc r); [apply (fq_next_tail_io_state _ _ _ _ _ H)|].
    destruct (fq_increment r) as [r1|]; [|discriminate]. apply (fq_next_tail_io_state _ _ _ _ _ H).
  - right. apply (fq_next_tail_io_state _ _ _ _ _ H).
  - discriminate.
Qed.

Lemma qset_io_cases fuel ffuel n r rs r' rs' k : fq_read_set fuel ffuel n r rs = (r', rs', QOErr (FqIo k)) ->
  (qst r = QNew /\ fq_init ffuel r = (r', QIErr (FqIo k)) /\ rs' = rs) \/
  (qst r' = QFinished /\ qbuf r' = [] /\ qspos rs' = []).
Proof.
  rewrite read_set_unfold. intros H.
  assert (Hgo : forall r0, set_go fuel ffuel n rs r0 = (r', rs', QOErr (FqIo k)) ->
                           qst r' = QFinished /\ qbuf r' = [] /\ qspos rs' = []).
  { intros r0 Hq. unfold set_go in Hq.
    destruct (fq_set_loop fuel fuel ffuel n true r0 []) as [[r1 ps1] lr] eqn:E.
    destruct lr as [|e|x| |]; try discriminate. inversion Hq; subst.
    destruct (fq_set_loop_io_state _ _ _ _ _ _ _ _ _ _ E) as [A B]. split; [exact A|]. split; [exact B|reflexivity]. }
  destruct (qst r) eqn:Es.
  - destruct (fq_init ffuel r) as [r1 ir] eqn:E1.
    destruct ir as [[|]|e|]; try discriminate.
    + right. apply (Hgo _ H).
    + inversion H; subst. left. split; [reflexivity|]. split; reflexivity.
  - right. destruct (inc r); [apply (Hgo _ H)|].
    destruct (fq_increment r) as [r1|]; [|discriminate]. apply (Hgo _ H).
  - right. apply (Hgo _ H).
  - discriminate.
Qed.

Lemma qseek_io_cases ffuel r line byte_ r' k : fq_seek ffuel r line byte_ = (r', QOErr (FqIo k)) ->
  (exists ss' lg, r' = qreseat r ss' lg) \/ (qst r' = QFinished /\ qbuf r' = []).
Proof.
  rewrite fq_seek_unfold. cbv zeta. intros H.
  destruct ((0 <=? Z.of_nat (p0 r) + (Z.of_nat byte_ - Z.of_nat (qbyte r)))%Z &&
            (Z.of_nat (p0 r) + (Z.of_nat byte_ - Z.of_nat (qbyte r)) <? Z.of_nat (length (qbuf r)))%Z && negb (fq_state_eqb (qst r) QNew)); [discriminate|].
  destruct (src_seek (qsrc r) byte_) as [s' res] eqn:Es.
  destruct res as [k'|].
  - inversion H; subst. left. unfold src_seek in Es.
    destruct (s_ss (qsrc r)) as [|[|k0] ss0]; inversion Es; subst. eexists ss0, _. reflexivity.
  - match type of H with (let '(r1, fr) := fq_fill ffuel ?R in _) = _ => set (r0 := R) in * end.
    destruct (fq_fill ffuel r0) as [r1 fr] eqn:E1.
    destruct fr as [n|k'|]; try discriminate. inversion H; subst. right. split; reflexivity.
Qed.

Lemma qzrange_empty p : ((0 <=? p)%Z && (p <? Z.of_nat 0)%Z) = false.
Proof.
  destruct (0 <=? p)%Z eqn:E; [|reflexivity]. apply Z.leb_le in E. cbn [andb]. apply Z.ltb_ge. lia.
Qed.

(** a seek that cannot take the in-buffer shortcut (New reader, or empty buffer): the
    source is repositioned, the buffer refilled *)
Lemma fq_seek_real_branch ffuel r line byte_ : qst r = QNew \/ qbuf r = [] ->
  fq_seek ffuel r line byte_ =
    let '(s', res) := src_seek (qsrc r) byte_ in
    let r := qset_log (qset_src r s') (EvSeek byte_ res :: qlog r) in
    match res with
    | Some k => (r, QOErr (FqIo k))
    | None =>
        let r := qset_p1 (qset_p0 (qset_st (qset_inc (qset_byte (qset_line (qset_buf r []) line) byte_) None)
                                           QPositioned) 0) 0 in
        let '(r1, fr) := fq_fill ffuel r in
        match fr with
        | FillErr k => (qset_st (qset_buf r1 []) QFinished, QOErr (FqIo k))
        | FillFuel => (r1, QOFuel)
        | FillOk _ => (r1, QOOk)
        end
    end.
Proof.
  intros Hno. rewrite fq_seek_unfold. cbv zeta.
  assert (E1 : (((0 <=? Z.of_nat (p0 r) + (Z.of_nat byte_ - Z.of_nat (qbyte r)))%Z &&
            (Z.of_nat (p0 r) + (Z.of_nat byte_ - Z.of_nat (qbyte r)) <? Z.of_nat (length (qbuf r)))%Z) &&
            negb (fq_state_eqb (qst r) QNew)) = false).
  { destruct Hno as [Hn|Hb].
    - rewrite Hn. cbn [fq_state_eqb negb]. apply andb_false_r.
    - rewrite Hb. cbn [length]. rewrite qzrange_empty. reflexivity. }
  rewrite E1. reflexivity.
Qed.

(* ------------------------------------------------------------------ *)
(** * The states of the healthy twin, and one operation on it *)

Section Twin.
  Variables (inp : list byte) (fuel ffuel : nat).
  Hypothesis Hfuel : 2 * length inp + 4 <= fuel.

  Notation stream := (fq_spec_all inp).

  (** New, possibly after failed attempts of the first refill: the buffer is the part
      of the input the failed refills have read, nothing is consumed *)
  Record QMid (r : fq) : Prop := mkQMid {
    qm_st : qst r = QNew;
    qm_data : s_data (qsrc r) = inp;
    qm_buf : qbuf r = window inp 0 (s_pos (qsrc r));
    qm_pos : s_pos (qsrc r) <= length inp;
    qm_lt : length (qbuf r) < qcap r;
    qm_p0 : p0 r = 0;
    qm_inc : inc r = None;
    qm_line : qline r = 1;
    qm_byte : qbyte r = 0
  }.

  Record QMidT (r : fq) : Prop := mkQMidT {
    qt_mid : QMid r;
    qt_pol : PolOk1 (qpolf r);
    qt_nf : no_fail (qsrc r);
    qt_sk : no_sfail (qsrc r);
    qt_fuel : QFuelOk ffuel r
  }.

  (** finished with an empty buffer: after a failed refill *)
  Record QDead (r : fq) : Prop := mkQDead {
    qd_st : qst r = QFinished;
    qd_buf : qbuf r = [];
    qd_data : s_data (qsrc r) = inp;
    qd_cap : 1 <= qcap r;
    qd_pol : PolOk1 (qpolf r);
    qd_nf : no_fail (qsrc r);
    qd_sk : no_sfail (qsrc r);
    qd_fuel : QFuelOk ffuel r
  }.

  (** [k]: index of the next undelivered item of the stream (meaningless when Dead) *)
  Inductive QSt (r : fq) (k : nat) : Prop :=
  | Q_live : HQ inp ffuel r (skipn k stream) -> QSt r k
  | Q_mid : QMidT r -> skipn k stream = stream -> QSt r k
  | Q_dead : QDead r -> QSt r k.

  Lemma QSt_src r k : QSt r k -> no_fail (qsrc r) /\ no_sfail (qsrc r).
  Proof.
    intros [(off & H)|M _|D].
    - destruct (HQo_seek_base _ _ _ _ _ H) as (W & Sk & _). split; [apply (qw_nf _ _ _ _ W)|exact Sk].
    - split; apply M.
    - split; apply D.
  Qed.

  Lemma QMid_win r : QMidT r -> QWin inp ffuel r 0.
  Proof.
    intros [M P N S F]. constructor; try apply M; auto.
    - apply Nat.le_0_l.
    - pose proof (qm_lt _ M). lia.
  Qed.

  (** the first refill from such a state *)
  Lemma init_mid r : QMidT r ->
    exists r2, QB inp ffuel r2 0 /\ same_pos r r2 /\
      (fq_init ffuel r = (qset_st r2 QFinished, QIOk false) \/ fq_init ffuel r = (r2, QIOk true)).
  Proof.
    intros T. pose proof (QMid_win r T) as W. destruct T as [M Pol Nf Sk Fu].
    destruct (fq_fill_ok _ _ _ _ W) as (s' & lg' & Hfill & Hps' & Hds' & Hnf' & Hfu' & Hss' & _ & Hle').
    cbv zeta in Hfill. rewrite Nat.add_0_l in Hfill, Hps', Hle'.
    set (e' := Nat.min (qcap r) (length inp)) in *.
    set (r2 := qset_log (qset_src (qset_buf r (window inp 0 e')) s') lg') in *.
    rewrite (fq_init_fill _ _ _ _ Hfill).
    assert (Hwl : length (window inp 0 e') = e') by (rewrite window_length; unfold e'; lia).
    pose proof (qw_pos _ _ _ _ W) as Hpos. pose proof (qw_cap _ _ _ _ W) as Hcap.
    exists r2.
    assert (W2 : QWin inp ffuel r2 0).
    { constructor; unfold r2; cbn [qbuf qsrc qcap qset_log qset_src qset_buf];
        rewrite ?Hps', ?Hwl; auto; try lia; unfold e'; lia. }
    split.
    { split; [split; [exact W2|]; splits|].
      - unfold QEof, r2; cbn [qbuf qsrc qcap qset_log qset_src qset_buf]. rewrite Hwl, Hps'. unfold e'. lia.
      - exact Pol.
      - unfold r2; cbn [qcap qset_log qset_src qset_buf]. pose proof (qm_lt _ M). lia.
      - unfold no_sfail, r2; cbn [qsrc qset_log qset_src qset_buf]. rewrite Hss'. exact Sk. }
    split; [unfold same_pos, r2; splits; reflexivity|].
    destruct (e' - s_pos (qsrc r) =? 0); [left|right]; reflexivity.
  Qed.

  Lemma stream_skipn_hd k it rest : skipn k stream = it :: rest ->
    nth_error stream k = Some it /\ skipn (S k) stream = rest.
  Proof. apply skipn_cons_nth. Qed.

  Lemma skipn_stream_all : skipn (length stream) stream = [].
  Proof. apply skipn_all. Qed.

  (** outcome of [next] on the twin *)
  Inductive QNextOut (k : nat) (r' : fq) : fq_out -> Prop :=
  | QN_rec i : nth_error stream k = Some (QRec i) -> rec_at inp (fq_cur r') i ->
      QSt r' (S k) -> QNextOut k r' (QORec (fq_cur r'))
  | QN_err e l a : nth_error stream k = Some (QErr e l a) -> QSt r' (length stream) ->
      QNextOut k r' (QOErr (fq_err_of e))
  | QN_none k' : k <= k' -> QSt r' k' -> QNextOut k r' QONone.

  Lemma next_out_of k r' o : NextOut inp ffuel (skipn k stream) r' o -> QNextOut k r' o.
  Proof.
    intros [i rest Hit Hrec Hpos HQ'|e l a Hit Hpos HQ' Hf|Hit HQ' Hf].
    - destruct (stream_skipn_hd _ _ _ Hit) as [Hn Hs]. apply (QN_rec k r' i Hn Hrec).
      apply Q_live. rewrite Hs. exact HQ'.
    - destruct (stream_skipn_hd _ _ _ Hit) as [Hn Hs]. apply (QN_err k r' e l a Hn).
      apply Q_live. rewrite skipn_stream_all. exact HQ'.
    - apply (QN_none k r' (Nat.max k (length stream))); [lia|].
      apply Q_live. rewrite skipn_all2 by lia. exact HQ'.
  Qed.

  Lemma qnext r k : QSt r k -> exists r' o, fq_next fuel ffuel r = (r', o) /\ QNextOut k r' o.
  Proof.
    intros [H|T Hk|D].
    - destruct (gnext_step inp ffuel fuel r _ H ltac:(lia)) as (r' & o & Heq & HN).
      exists r', o. split; [exact Heq|]. apply next_out_of. exact HN.
    - destruct (init_mid r T) as (r2 & B2 & Hsame & Hinit).
      destruct Hsame as (S1 & S2 & S3 & S4 & S5 & S6 & S7 & S8 & S9 & S10 & S11 & S12).
      pose proof (qt_mid _ T) as M.
      unfold fq_next. rewrite (qm_st _ M).
      destruct Hinit as [->| ->].
      + eexists _, _. split; [reflexivity|].
        apply (QN_none k _ (Nat.max k (length stream))); [lia|]. apply Q_live. rewrite skipn_all2 by lia.
        exists 0. apply HQ_fin; auto.
        * eapply QB_ext; [| | | |exact B2]; reflexivity.
        * cbn [p0 qbyte qset_st]. rewrite S2, S9, (qm_p0 _ M), (qm_byte _ M). reflexivity.
      + assert (B2' : QB inp ffuel (qset_st r2 QParsing) 0) by (eapply QB_ext; [| | | |exact B2]; reflexivity).
        destruct (gtail_spec inp ffuel fuel (qset_st r2 QParsing) 0 0 1 B2') as (r' & o & Ht & HN);
          cbn [p0 qbyte qline qbuf inc qst qset_st]; auto; try lia.
        { rewrite S2, (qm_p0 _ M). reflexivity. }
        { rewrite S9. apply (qm_byte _ M). }
        { rewrite S8. apply (qm_line _ M). }
        { left. split; [rewrite S7; apply (qm_inc _ M)|rewrite S2, (qm_p0 _ M); lia]. }
        exists r', o. split; [exact Ht|]. apply next_out_of. rewrite Hk, fq_spec_all_parse. exact HN.
    - exists r, QONone. split; [unfold fq_next; rewrite (qd_st _ D); reflexivity|].
      apply (QN_none k r k); [lia|]. apply Q_dead. exact D.
  Qed.

  (** outcome of a set read on the twin *)
  Inductive QSetOut (k : nat) (rs : fq_set) (r1 : fq) (rs1 : fq_set) : fq_out -> Prop :=
  | QS_ok recs1 : recs1 <> [] -> Forall2 (rec_at inp) (fq_set_records rs1) recs1 ->
      map QRec recs1 = firstn (length recs1) (skipn k stream) -> QSt r1 (k + length recs1) ->
      QSetOut k rs r1 rs1 QOSetOk
  | QS_err e : qspos rs1 = [] -> k <= length stream -> QSt r1 (length stream) ->
      QSetOut k rs r1 rs1 (QOErr (fq_err_of e))
  | QS_none k' : k <= k' -> QSt r1 k' -> (rs1 = rs \/ qspos rs1 = []) -> QSetOut k rs r1 rs1 QONone.

  Lemma set_out_of n k rs r1 rs1 o : SetOut inp ffuel n (skipn k stream) rs r1 rs1 o -> QSetOut k rs r1 rs1 o.
  Proof.
    intros [recs1 items1 Hit Hne Hrecs HQ1 _ _|recs1 e l a Hit Hps HQ1 Hf _ _|Hit HQ1 Hf Hrs].
    - destruct (skipn_app_split _ _ _ _ Hit) as [Hfirst Hrest]. rewrite map_length in Hfirst, Hrest.
      apply (QS_ok k rs r1 rs1 recs1 Hne Hrecs); [symmetry; exact Hfirst|].
      apply Q_live. rewrite Hrest. exact HQ1.
    - apply QS_err; [exact Hps| |apply Q_live; rewrite skipn_stream_all; exact HQ1].
      destruct (Nat.le_gt_cases k (length stream)) as [Hle|Hgt]; [exact Hle|].
      rewrite skipn_all2 in Hit by lia. destruct recs1; discriminate.
    - apply (QS_none k rs r1 rs1 (Nat.max k (length stream))); [lia| |exact Hrs].
      apply Q_live. rewrite skipn_all2 by lia. exact HQ1.
  Qed.

  Lemma qset n rs r k : n_ok n -> QSt r k ->
    exists r1 rs1 o, fq_read_set fuel ffuel n r rs = (r1, rs1, o) /\ QSetOut k rs r1 rs1 o.
  Proof.
    intros Hn [H|T Hk|D].
    - destruct (gset_step inp ffuel fuel n r rs _ H Hn Hfuel) as (r1 & rs1 & o & Heq & HO).
      exists r1, rs1, o. split; [exact Heq|]. eapply set_out_of. exact HO.
    - destruct (init_mid r T) as (r2 & B2 & Hsame & Hinit).
      destruct Hsame as (S1 & S2 & S3 & S4 & S5 & S6 & S7 & S8 & S9 & S10 & S11 & S12).
      pose proof (qt_mid _ T) as M.
      rewrite read_set_unfold, (qm_st _ M).
      destruct Hinit as [->| ->].
      + eexists _, _, _. split; [reflexivity|].
        apply (QS_none k rs _ rs (Nat.max k (length stream))); [lia| |left; reflexivity].
        apply Q_live. rewrite skipn_all2 by lia.
        exists 0. apply HQ_fin; auto.
        * eapply QB_ext; [| | | |exact B2]; reflexivity.
        * cbn [p0 qbyte qset_st]. rewrite S2, S9, (qm_p0 _ M), (qm_byte _ M). reflexivity.
      + destruct (go_spec inp ffuel fuel n rs (qset_st r2 QPositioned) 0 (skipn k stream)) as (r1 & rs1 & o & Heq & HO); auto.
        { apply HQ_pos0; cbn [p0 qbyte qline qbuf inc qst qset_st]; auto; try lia.
          - rewrite S7. apply (qm_inc _ M).
          - eapply QB_ext; [| | | |exact B2]; reflexivity.
          - rewrite S2, S9, (qm_p0 _ M), (qm_byte _ M). reflexivity.
          - rewrite S2, (qm_p0 _ M). lia.
          - rewrite S8, S9, (qm_line _ M), (qm_byte _ M), Hk. apply fq_spec_all_parse. }
        exists r1, rs1, o. split; [exact Heq|]. eapply set_out_of. exact HO.
    - exists r, rs, QONone. split; [rewrite read_set_unfold, (qd_st _ D); reflexivity|].
      apply (QS_none k rs r rs k); [lia|apply Q_dead; exact D|left; reflexivity].
  Qed.

  (** a seek from a twin that cannot take the shortcut: New or Dead *)
  Lemma qseek_fresh r line byte_ : qst r = QNew \/ qbuf r = [] ->
    s_data (qsrc r) = inp -> 1 <= qcap r -> PolOk1 (qpolf r) -> no_fail (qsrc r) -> no_sfail (qsrc r) ->
    QFuelOk ffuel r -> byte_ <= length inp ->
    exists r', fq_seek ffuel r line byte_ = (r', QOOk) /\
      HQ inp ffuel r' (fq_parse (skipn byte_ inp) line byte_).
  Proof.
    intros Hno Hd Hc Hp Hnf Hsk Hf Hb.
    rewrite (fq_seek_real_branch ffuel r line byte_ Hno).
    destruct (src_seek_ok (qsrc r) byte_ Hsk) as (s' & -> & Hd' & Hp' & Hr' & Sk').
    set (q := qset_p1 (qset_p0 (qset_st (qset_inc (qset_byte (qset_line
               (qset_buf (qset_log (qset_src r s') (EvSeek byte_ None :: qlog r)) []) line) byte_) None) QPositioned) 0) 0).
    assert (W1 : QWin inp ffuel q byte_).
    { constructor; unfold q;
        cbn [qbuf qsrc qcap qset_p1 qset_p0 qset_st qset_inc qset_byte qset_line qset_buf qset_log qset_src].
      - rewrite Hp', window_nil. reflexivity.
      - rewrite Hd'. exact Hd.
      - lia.
      - lia.
      - cbn [length]. lia.
      - unfold no_fail. rewrite Hr'. exact Hnf.
      - rewrite Hr'. exact Hf. }
    destruct (fill_at inp ffuel q byte_ W1 Sk' Hp' Hp Hc) as (r2 & n & Hfill & B2 & Hsame).
    cbv zeta. fold q. rewrite Hfill. exists r2. split; [reflexivity|].
    exists byte_. eapply (proj1 (pos0_of_fill inp ffuel q r2 line byte_ eq_refl eq_refl eq_refl eq_refl eq_refl Hsame B2)).
  Qed.

  Lemma qseek r k k' it : QSt r k -> nth_error stream k' = Some it ->
    exists r', fq_seek ffuel r (fst (coords it)) (snd (coords it)) = (r', QOOk) /\ QSt r' k'.
  Proof.
    intros H Hn. destruct (stream_nth inp k' it Hn) as [Hb Hskip].
    destruct H as [H|T Hk|D].
    - destruct (seek_spec inp ffuel r _ (fst (coords it)) (snd (coords it)) H Hb) as (r' & Heq & HQ' & _ & _).
      exists r'. split; [exact Heq|]. apply Q_live. rewrite Hskip. exact HQ'.
    - pose proof (qt_mid _ T) as M.
      destruct (qseek_fresh r (fst (coords it)) (snd (coords it)) (or_introl (qm_st _ M)) (qm_data _ M)
                  ltac:(pose proof (qm_lt _ M); lia) (qt_pol _ T) (qt_nf _ T) (qt_sk _ T) (qt_fuel _ T) Hb)
        as (r' & Heq & HQ').
      exists r'. split; [exact Heq|]. apply Q_live. rewrite Hskip. exact HQ'.
    - destruct (qseek_fresh r (fst (coords it)) (snd (coords it)) (or_intror (qd_buf _ D)) (qd_data _ D)
                  (qd_cap _ D) (qd_pol _ D) (qd_nf _ D) (qd_sk _ D) (qd_fuel _ D) Hb)
        as (r' & Heq & HQ').
      exists r'. split; [exact Heq|]. apply Q_live. rewrite Hskip. exact HQ'.
  Qed.

  (* ---------------------------------------------------------------- *)
  (** ** one operation on the reader itself, whatever its source does *)

  Definition RQ (r : fq) (k : nat) : Prop := QBase0 inp ffuel r /\ QSt (hlq r) k.

  Lemma QMid_hlq r : QMid (hlq r) <-> QMid r.
  Proof. split; intros [A1 A2 A3 A4 A5 A6 A7 A8 A9]; constructor; assumption. Qed.

  Lemma qdead_of r k : QBase0 inp ffuel r -> qst r = QFinished -> qbuf r = [] -> QSt (hlq r) k.
  Proof.
    intros [D C P F] Hst Hb. apply Q_dead. constructor; try assumption;
      [apply hlq_nf|apply hlq_sk|apply hlq_fuel; exact F].
  Qed.

  Lemma qmid_of r k : QBase0 inp ffuel r -> QMid r -> skipn k stream = stream -> QSt (hlq r) k.
  Proof.
    intros [D C P F] HM Hk. apply Q_mid; [|exact Hk]. constructor; try assumption.
    - apply QMid_hlq. exact HM.
    - apply hlq_nf.
    - apply hlq_sk.
    - apply hlq_fuel. exact F.
  Qed.

  Lemma QSt_new_inv r0 k : QSt r0 k -> qst r0 = QNew -> QMid r0 /\ skipn k stream = stream.
  Proof.
    intros [(off & H)|T Hk|D] Hst.
    - destruct H as [Hq Hoff W Sk Hp0 H0 Hinc Hln Hby Pol Cap Hit|Hq B Hinc Hpb Hle1 Hle2 Hit
                    |Hq Hinc B Hpb Hle Hit|s Hq Hinc B Hpb HS Hno Hit|Hq B Hpb Hit]; try congruence.
      split; [|rewrite Hit; symmetry; apply fq_spec_all_parse].
      pose proof (qwin_len _ _ _ _ W) as Hl.
      constructor.
      + exact Hq.
      + apply (qw_data _ _ _ _ W).
      + apply (qw_buf _ _ _ _ W).
      + apply (qw_pos _ _ _ _ W).
      + rewrite Hl, Hp0. lia.
      + exact H0.
      + exact Hinc.
      + exact Hln.
      + exact Hby.
    - split; [apply T|exact Hk].
    - pose proof (qd_st _ D). congruence.
  Qed.

  (** a failed first refill keeps the reader New with a longer prefix of the input in its buffer *)
  Lemma init_failed_mid r r' e : QMid r -> fq_init ffuel r = (r', QIErr (FqIo e)) -> QMid r'.
  Proof.
    intros M H. unfold fq_init in H. destruct (fq_fill ffuel r) as [r1 fr] eqn:E.
    destruct fr as [[|n]|k'|]; inversion H; subst; clear H.
    unfold fq_fill in E.
    destruct (fill_buf ffuel (qbuf r) (qcap r) (qsrc r) (qlog r) 0) as [[[b s] lg] res] eqn:Ef.
    inversion E; subst; clear E.
    pose proof (qm_pos _ M) as Hp. pose proof (qm_data _ M) as Hd.
    destruct (FaInitRetryP.fill_buf_window _ _ _ _ _ _ _ _ _ _ Ef) as (D & P1 & P2 & Wb & L & F);
      [rewrite Hd; exact Hp|pose proof (qm_lt _ M); lia|].
    rewrite Hd in *.
    constructor; cbn [qst qsrc qbuf qcap p0 inc qline qbyte qset_log qset_src qset_buf]; try apply M; auto.
    - rewrite Wb, (qm_buf _ M). apply window_app; lia.
    - apply (F e). reflexivity.
  Qed.

  Lemma qtwin_after r0' r' k : fq_cut r0' r' -> QSt r0' k -> r0' = hlq r'.
  Proof. intros Hc G. destruct (QSt_src _ _ G) as [A B]. apply fq_cut_hlq; assumption. Qed.

  Definition q_next_cut := proj1 fq_calls_before_failure.
  Definition q_set_cut := proj1 (proj2 fq_calls_before_failure).
  Definition q_seek_cut := proj1 (proj2 (proj2 fq_calls_before_failure)).

  Lemma new_again r r' k e : QBase0 inp ffuel r' -> QSt (hlq r) k -> qst r = QNew ->
    fq_init ffuel r = (r', QIErr (FqIo e)) -> QSt (hlq r') k.
  Proof.
    intros B' G Hst Hinit. destruct (QSt_new_inv _ _ G Hst) as [M Hk].
    apply qmid_of; [exact B'| |exact Hk]. eapply init_failed_mid; [|exact Hinit]. apply QMid_hlq. exact M.
  Qed.

  Lemma rqnext r k r' o : RQ r k -> fq_next fuel ffuel r = (r', o) ->
    (exists rc i, o = QORec rc /\ nth_error stream k = Some (QRec i) /\ rec_at inp rc i /\ RQ r' (S k)) \/
    (exists e l a, o = QOErr (fq_err_of e) /\ nth_error stream k = Some (QErr e l a) /\ RQ r' (length stream)) \/
    (o = QONone /\ exists k', k <= k' /\ RQ r' k') \/
    (exists e, o = QOErr (FqIo e) /\ RQ r' k).
  Proof.
    intros [B G] H. destruct (QBase0_next _ _ _ _ _ _ H B) as [B' Hcap].
    destruct (qnext _ _ G) as (r0' & o0 & H0 & HN).
    destruct (q_next_cut fuel ffuel (hlq r) r r0' o0 r' o (hlq_cut r) H0 H) as [(-> & Hc)|(e & ->)].
    - destruct HN as [i Hn Hrec G'|e l a Hn G'|k' Hk G'].
      + left. pose proof (qtwin_after _ _ _ Hc G') as ->.
        exists (fq_cur (hlq r')), i. split; [reflexivity|]. split; [exact Hn|]. split; [exact Hrec|].
        split; [exact B'|exact G'].
      + right. left. pose proof (qtwin_after _ _ _ Hc G') as ->.
        exists e, l, a. split; [reflexivity|]. split; [exact Hn|]. split; [exact B'|exact G'].
      + right. right. left. pose proof (qtwin_after _ _ _ Hc G') as ->.
        split; [reflexivity|]. exists k'. split; [exact Hk|]. split; [exact B'|exact G'].
    - right. right. right. exists e. split; [reflexivity|]. split; [exact B'|].
      destruct (qnext_io_cases _ _ _ _ _ H) as [(Hst & Hinit)|(Hst & Hbuf)].
      + eapply new_again; eassumption.
      + apply qdead_of; assumption.
  Qed.

  Lemma rqset n rs r k r' rs' o : n_ok n -> RQ r k -> fq_read_set fuel ffuel n r rs = (r', rs', o) ->
    (o = QOSetOk /\ exists recs1, recs1 <> [] /\ Forall2 (rec_at inp) (fq_set_records rs') recs1 /\
        map QRec recs1 = firstn (length recs1) (skipn k stream) /\ RQ r' (k + length recs1)) \/
    (exists e, o = QOErr (fq_err_of e) /\ qspos rs' = [] /\ k <= length stream /\ RQ r' (length stream)) \/
    (o = QONone /\ (rs' = rs \/ qspos rs' = []) /\ exists k', k <= k' /\ RQ r' k') \/
    (exists e, o = QOErr (FqIo e) /\ (rs' = rs \/ qspos rs' = []) /\ RQ r' k).
  Proof.
    intros Hn [B G] H. destruct (QBase0_set _ _ _ _ _ _ _ _ _ H B) as [B' Hcap].
    destruct (qset n rs _ _ Hn G) as (r0' & rs0' & o0 & H0 & HO).
    destruct (q_set_cut fuel ffuel n (hlq r) r rs r0' rs0' o0 r' rs' o (hlq_cut r) H0 H)
      as [(-> & -> & Hc)|(e & ->)].
    - destruct HO as [recs1 Hne Hrecs Hrun G'|e Hps Hk G'|k' Hk G' Hrs].
      + left. pose proof (qtwin_after _ _ _ Hc G') as ->. split; [reflexivity|].
        exists recs1. splits; auto. split; [exact B'|exact G'].
      + right. left. pose proof (qtwin_after _ _ _ Hc G') as ->.
        exists e. splits; auto. split; [exact B'|exact G'].
      + right. right. left. pose proof (qtwin_after _ _ _ Hc G') as ->.
        split; [reflexivity|]. split; [exact Hrs|]. exists k'. split; [exact Hk|]. split; [exact B'|exact G'].
    - right. right. right. exists e. split; [reflexivity|].
      destruct (qset_io_cases _ _ _ _ _ _ _ _ H) as [(Hst & Hinit & ->)|(Hst & Hbuf & Hps)].
      + split; [left; reflexivity|]. split; [exact B'|]. eapply new_again; eassumption.
      + split; [right; exact Hps|]. split; [exact B'|]. apply qdead_of; assumption.
  Qed.

  (** only the seek script and the log change *)
  Lemma QWin_reseat r off ss' lg : QWin inp ffuel r off -> QWin inp ffuel (qreseat r ss' lg) off.
  Proof. intros [W1 W2 W3 W4 W5 W6 W7]. constructor; assumption. Qed.

  Lemma QB_reseat r off ss' lg : forallb sitem_ok ss' = true -> QB inp ffuel r off -> QB inp ffuel (qreseat r ss' lg) off.
  Proof.
    intros Hss ((W & E & P & C) & S). split; [split; [apply QWin_reseat; exact W|]; splits; assumption|exact Hss].
  Qed.

  Lemma HQo_reseat r off items ss' lg : forallb sitem_ok ss' = true ->
    HQo inp ffuel r off items -> HQo inp ffuel (qreseat r ss' lg) off items.
  Proof.
    intros Hss [Hq Hoff W Sk Hp0 H0 Hinc Hln Hby Pol Cap Hit|Hq B Hinc Hpb Hle1 Hle2 Hit
               |Hq Hinc B Hpb Hle Hit|s Hq Hinc B Hpb HS Hno Hit|Hq B Hpb Hit].
    - apply HQ_new; try assumption. subst off. apply QWin_reseat. exact W.
    - apply HQ_parsing; try assumption. apply QB_reseat; assumption.
    - apply HQ_pos0; try assumption. apply QB_reseat; assumption.
    - apply (HQ_pos1 _ _ _ _ _ s); try assumption. apply QB_reseat; assumption.
    - apply HQ_fin; try assumption. apply QB_reseat; assumption.
  Qed.

  Lemma QSt_reseat r k ss' lg : forallb sitem_ok ss' = true -> QSt r k -> QSt (qreseat r ss' lg) k.
  Proof.
    intros Hss [(off & H)|T Hk|D].
    - apply Q_live. exists off. apply HQo_reseat; assumption.
    - apply Q_mid; [|exact Hk]. destruct T as [[A1 A2 A3 A4 A5 A6 A7 A8 A9] P N S F].
      constructor; try assumption. constructor; assumption.
    - apply Q_dead. destruct D as [A1 A2 A3 A4 A5 A6 A7 A8]. constructor; assumption.
  Qed.

  Lemma rqseek r k k' it r' o : RQ r k -> nth_error stream k' = Some it ->
    fq_seek ffuel r (fst (coords it)) (snd (coords it)) = (r', o) ->
    (o = QOOk /\ RQ r' k') \/ (exists e, o = QOErr (FqIo e) /\ RQ r' k).
  Proof.
    intros [B G] Hn H. destruct (QBase0_seek _ _ _ _ _ _ _ H B) as [B' Hcap].
    destruct (qseek _ _ k' it G Hn) as (r0' & H0 & G').
    destruct (q_seek_cut ffuel (hlq r) r _ _ r0' QOOk r' o (hlq_cut r) H0 H) as [(-> & Hc)|(e & ->)].
    - left. split; [reflexivity|]. split; [exact B'|]. rewrite <- (qtwin_after _ _ _ Hc G'). exact G'.
    - right. exists e. split; [reflexivity|]. split; [exact B'|].
      destruct (qseek_io_cases _ _ _ _ _ _ H) as [(ss' & lg & ->)|(Hst & Hbuf)].
      + rewrite hlq_reseat. apply QSt_reseat; [apply qcut_ss_ok|exact G].
      + apply qdead_of; assumption.
  Qed.

  (* ---------------------------------------------------------------- *)
  (** ** histories *)

  (** the records an observation shows *)
  Definition qshows (ob : hobs) (l : list fq_item) : Prop :=
    match ob with
    | ORec rc => exists i, l = [i] /\ rec_at inp rc i
    | OOwned o => exists i, l = [i] /\ o = Some (qi_head i, qi_seq i, qi_qual i)
    | OSetOk recs => Forall2 (rec_at inp) recs l
    | OIter recs => Forall2 (rec_at inp) recs l
    | OBad o => (exists e, o = QOErr (FqIo e)) /\ l = []      (* only: a failed seek *)
    | _ => l = []
    end.

  Definition in_stream (l : list fq_item) : Prop := Forall (fun i => In (QRec i) stream) l.

  Definition qghost := (list fq_item * list fq_item)%type.
  Definition qgget (g : qghost) (s : bool) : list fq_item := if s then snd g else fst g.
  Definition qgput (g : qghost) (s : bool) (l : list fq_item) : qghost := if s then (fst g, l) else (l, snd g).

  Definition HQInv (c : hconf) (k : nat) (g : qghost) : Prop :=
    RQ (c_rd c) k /\
    Forall2 (rec_at inp) (fq_set_records (c_slot c false)) (fst g) /\
    Forall2 (rec_at inp) (fq_set_records (c_slot c true)) (snd g) /\
    in_stream (fst g) /\ in_stream (snd g).

  Definition q_is_seek (op : hop) : bool := match op with HSeek _ => true | _ => false end.
  Definition q_is_read (op : hop) : bool :=
    match op with HNext | HOwned | HSet _ | HSetExact _ _ => true | _ => false end.

  Lemma nth_skipn_cons {A} (l : list A) : forall k x, nth_error l k = Some x -> skipn k l = x :: skipn (S k) l.
  Proof.
    induction l as [|y l IH]; intros k x H; [destruct k; discriminate|].
    destruct k as [|k]; [inversion H; reflexivity|]. cbn [nth_error] in H. cbn [skipn]. apply IH. exact H.
  Qed.

  Lemma in_stream_run k recs : map QRec recs = firstn (length recs) (skipn k stream) -> in_stream recs.
  Proof.
    intros H. unfold in_stream. apply Forall_forall. intros i Hi.
    assert (Hin : In (QRec i) (map QRec recs)) by (apply in_map; exact Hi).
    rewrite H in Hin. clear -Hin. revert Hin. generalize (length recs). generalize stream. intros X n Hin.
    assert (Hin' : In (QRec i) (skipn k X)).
    { revert Hin. generalize (skipn k X). intros Y. revert Y. induction n as [|n IH]; intros Y Hin; [destruct Hin|].
      destruct Y as [|y Y]; [destruct Hin|]. cbn [firstn] in Hin. destruct Hin as [->|Hin]; [left; reflexivity|right; apply IH; exact Hin]. }
    clear Hin. revert k Hin'. induction X as [|y X IH]; intros k Hin.
    - rewrite skipn_nil in Hin. destruct Hin.
    - destruct k as [|k]; [exact Hin|]. cbn [skipn] in Hin. right. eapply IH. exact Hin.
  Qed.

  Lemma records_nil rs' : qspos rs' = [] -> fq_set_records rs' = [].
  Proof. intros H. unfold fq_set_records. rewrite H. reflexivity. Qed.

  Lemma slot_put_ok c r' s x (g : qghost) l :
    Forall2 (rec_at inp) (fq_set_records (c_slot c false)) (fst g) ->
    Forall2 (rec_at inp) (fq_set_records (c_slot c true)) (snd g) ->
    Forall2 (rec_at inp) (fq_set_records x) l ->
    Forall2 (rec_at inp) (fq_set_records (c_slot (c_put c r' s x) false)) (fst (qgput g s l)) /\
    Forall2 (rec_at inp) (fq_set_records (c_slot (c_put c r' s x) true)) (snd (qgput g s l)).
  Proof. intros A B C. destruct s; cbn [c_put c_slot qgput fst snd]; auto. Qed.

  Lemma slot_put_in (g : qghost) s l : in_stream (fst g) -> in_stream (snd g) -> in_stream l ->
    in_stream (fst (qgput g s l)) /\ in_stream (snd (qgput g s l)).
  Proof. intros A B C. destruct s; cbn [qgput fst snd]; auto. Qed.

  Lemma slot_put_same c r' s :
    fq_set_records (c_slot (c_put c r' s (c_slot c s)) false) = fq_set_records (c_slot c false) /\
    fq_set_records (c_slot (c_put c r' s (c_slot c s)) true) = fq_set_records (c_slot c true).
  Proof. destruct c as [[r a] b]. destruct s; split; reflexivity. Qed.

  Lemma qhstep_read (owned : bool) c k g : HQInv c k g ->
    let hs := fq_hstep inp fuel ffuel (if owned then HOwned else HNext) c in
    exists l k', qshows (snd hs) l /\ in_stream l /\ HQInv (fst hs) k' g /\
      map QRec l = firstn (length l) (skipn k stream) /\ k + length l <= k'.
  Proof.
    intros (R & S0 & S1 & I0 & I1). cbv zeta.
    assert (Hstep : fq_hstep inp fuel ffuel (if owned then HOwned else HNext) c =
              let '(r', o) := fq_next fuel ffuel (c_rd c) in
              (c_rd_put c r', if owned then owned_obs o else read_obs o)) by (destruct owned; reflexivity).
    rewrite Hstep. clear Hstep.
    destruct (fq_next fuel ffuel (c_rd c)) as [r' o] eqn:E. cbn [fst snd].
    assert (Hinv : forall k', RQ r' k' -> HQInv (c_rd_put c r') k' g).
    { intros k' R'. unfold HQInv. destruct c as [[r a] b]. cbn [c_rd c_rd_put c_slot fst snd] in *. auto. }
    destruct (rqnext _ _ _ _ R E) as [(rc & i & -> & Hn & Hrec & R')|[(e & l & a & -> & Hn & R')|[(-> & k' & Hk & R')|(e & -> & R')]]].
    - exists [i], (S k). cbn [length]. split.
      + destruct owned; cbn [qshows owned_obs read_obs]; exists i; (split; [reflexivity|]); [|exact Hrec].
        apply rec_at_owned with (inp := inp). exact Hrec.
      + split; [constructor; [eapply nth_error_In; exact Hn|constructor]|].
        split; [apply Hinv; exact R'|].
        split; [rewrite (nth_skipn_cons _ _ _ Hn); reflexivity|lia].
    - exists [], (length stream). cbn [length].
      assert (Hlt : k < length stream) by (apply nth_error_Some; rewrite Hn; discriminate).
      split; [destruct owned; reflexivity|]. split; [constructor|]. split; [apply Hinv; exact R'|].
      split; [reflexivity|lia].
    - exists [], k'. cbn [length]. split; [destruct owned; reflexivity|]. split; [constructor|].
      split; [apply Hinv; exact R'|]. split; [reflexivity|lia].
    - exists [], k. cbn [length]. split; [destruct owned; reflexivity|]. split; [constructor|].
      split; [apply Hinv; exact R'|]. split; [reflexivity|lia].
  Qed.

  Lemma qhstep_set (n : option nat) s c k g : n_ok n -> HQInv c k g ->
    let hs := fq_hstep inp fuel ffuel (set_hop s n) c in
    exists l k' g', qshows (snd hs) l /\ in_stream l /\ HQInv (fst hs) k' g' /\
      map QRec l = firstn (length l) (skipn k stream) /\ k + length l <= k'.
  Proof.
    intros Hn (R & S0 & S1 & I0 & I1). cbv zeta.
    assert (Hstep : fq_hstep inp fuel ffuel (set_hop s n) c =
                     let '(r', x, o) := fq_read_set fuel ffuel n (c_rd c) (c_slot c s) in
                     (c_put c r' s x, set_obs x o)) by (destruct n; reflexivity).
    rewrite Hstep. clear Hstep.
    destruct (fq_read_set fuel ffuel n (c_rd c) (c_slot c s)) as [[r' rs'] o] eqn:E. cbn [fst snd].
    assert (Hr : c_rd (c_put c r' s rs') = r') by (destruct s; reflexivity).
    assert (Hkeep : forall k', RQ r' k' -> rs' = c_slot c s -> HQInv (c_put c r' s rs') k' g).
    { intros k' R' ->. unfold HQInv. rewrite Hr. destruct (slot_put_same c r' s) as [-> ->]. auto. }
    assert (Hempty : forall k', RQ r' k' -> qspos rs' = [] -> HQInv (c_put c r' s rs') k' (qgput g s [])).
    { intros k' R' Hps. unfold HQInv. rewrite Hr.
      assert (Hx : Forall2 (rec_at inp) (fq_set_records rs') []) by (rewrite (records_nil _ Hps); constructor).
      destruct (slot_put_ok c r' s rs' g [] S0 S1 Hx) as [A B0].
      destruct (slot_put_in g s [] I0 I1 ltac:(constructor)) as [C D]. auto. }
    destruct (rqset n _ _ _ _ _ _ Hn R E)
      as [(-> & recs1 & Hne & Hrecs & Hrun & R')|[(e & -> & Hps & Hk & R')|[(-> & Hrs & k' & Hk & R')|(e & -> & Hrs & R')]]].
    - exists recs1, (k + length recs1), (qgput g s recs1).
      split; [exact Hrecs|]. pose proof (in_stream_run k recs1 Hrun) as Hin. split; [exact Hin|]. split.
      + unfold HQInv. rewrite Hr.
        destruct (slot_put_ok c r' s rs' g recs1 S0 S1 Hrecs) as [A B0].
        destruct (slot_put_in g s recs1 I0 I1 Hin) as [C D]. auto.
      + split; [exact Hrun|lia].
    - exists [], (length stream), (qgput g s []). split; [reflexivity|]. split; [constructor|].
      split; [apply Hempty; assumption|]. cbn [length]. split; [reflexivity|lia].
    - destruct Hrs as [Hrs|Hrs].
      + exists [], k', g. split; [reflexivity|]. split; [constructor|]. split; [apply Hkeep; assumption|].
        cbn [length]. split; [reflexivity|lia].
      + exists [], k', (qgput g s []). split; [reflexivity|]. split; [constructor|]. split; [apply Hempty; assumption|].
        cbn [length]. split; [reflexivity|lia].
    - destruct Hrs as [Hrs|Hrs].
      + exists [], k, g. split; [reflexivity|]. split; [constructor|]. split; [apply Hkeep; assumption|].
        cbn [length]. split; [reflexivity|lia].
      + exists [], k, (qgput g s []). split; [reflexivity|]. split; [constructor|]. split; [apply Hempty; assumption|].
        cbn [length]. split; [reflexivity|lia].
  Qed.

  Lemma qhstep_seek k0 c k g : HQInv c k g -> k0 < length stream ->
    let hs := fq_hstep inp fuel ffuel (HSeek k0) c in
    exists k', qshows (snd hs) [] /\ HQInv (fst hs) k' g.
  Proof.
    intros (R & S0 & S1 & I0 & I1) Hk0. cbv zeta. cbn [fq_hstep].
    destruct (nth_error stream k0) as [it|] eqn:Hn.
    2:{ apply nth_error_None in Hn. lia. }
    destruct (fq_seek ffuel (c_rd c) (fst (coords it)) (snd (coords it))) as [r' o] eqn:E. cbn [fst snd].
    assert (Hinv : forall k', RQ r' k' -> HQInv (c_rd_put c r') k' g).
    { intros k' R'. unfold HQInv. destruct c as [[r a] b]. cbn [c_rd c_rd_put c_slot fst snd] in *. auto. }
    destruct (rqseek _ _ k0 it _ _ R Hn E) as [(-> & R')|(e & -> & R')].
    - exists k0. split; [reflexivity|apply Hinv; exact R'].
    - exists k. split; [split; [exists e; reflexivity|reflexivity]|apply Hinv; exact R'].
  Qed.

  (** one operation: what it shows are records of the stream; reads show the run of records
      that starts at the cursor [k] and move the cursor past it; nothing but a seek moves the
      cursor backwards *)
  Lemma qhstep_gen op c k g : hop_ok fq_sitem stream op -> HQInv c k g ->
    let hs := fq_hstep inp fuel ffuel op c in
    exists l k' g', qshows (snd hs) l /\ in_stream l /\ HQInv (fst hs) k' g' /\
      (q_is_seek op = false -> k <= k') /\
      (q_is_read op = true -> map QRec l = firstn (length l) (skipn k stream) /\ k + length l <= k').
  Proof.
    intros Hop Hst. destruct op as [| |s|s n|s| |k0]; cbn [hop_ok] in Hop.
    - destruct (qhstep_read false c k g Hst) as (l & k' & A & B & C & D & E).
      exists l, k', g. cbv zeta. split; [exact A|]. split; [exact B|]. split; [exact C|]. split; [intros _; lia|auto].
    - destruct (qhstep_read true c k g Hst) as (l & k' & A & B & C & D & E).
      exists l, k', g. cbv zeta. split; [exact A|]. split; [exact B|]. split; [exact C|]. split; [intros _; lia|auto].
    - destruct (qhstep_set None s c k g I Hst) as (l & k' & g' & A & B & C & D & E).
      exists l, k', g'. cbv zeta. split; [exact A|]. split; [exact B|]. split; [exact C|]. split; [intros _; lia|auto].
    - destruct (qhstep_set (Some n) s c k g Hop Hst) as (l & k' & g' & A & B & C & D & E).
      exists l, k', g'. cbv zeta. split; [exact A|]. split; [exact B|]. split; [exact C|]. split; [intros _; lia|auto].
    - cbv zeta. cbn [fq_hstep fst snd]. destruct Hst as (R & S0 & S1 & I0 & I1).
      exists (qgget g s), k, g. split; [destruct s; assumption|].
      split; [destruct s; assumption|]. split; [split; auto|]. split; [intros _; lia|discriminate].
    - cbv zeta. cbn [fq_hstep fst snd]. exists [], k, g. split; [reflexivity|]. split; [constructor|].
      split; [exact Hst|]. split; [intros _; lia|discriminate].
    - destruct (qhstep_seek k0 c k g Hst Hop) as (k' & A & C).
      exists [], k', g. cbv zeta. split; [exact A|]. split; [constructor|]. split; [exact C|]. split; discriminate.
  Qed.

  Lemma fq_hrun_fst_cons op ops c :
    fst (fq_hrun inp fuel ffuel (op :: ops) c) =
    snd (fq_hstep inp fuel ffuel op c) :: fst (fq_hrun inp fuel ffuel ops (fst (fq_hstep inp fuel ffuel op c))).
  Proof.
    cbn [fq_hrun]. destruct (fq_hstep inp fuel ffuel op c) as [c1 o1]. cbn [fst snd].
    destruct (fq_hrun inp fuel ffuel ops c1) as [os c2]. reflexivity.
  Qed.

  Lemma fq_hrun_snd_cons op ops c :
    snd (fq_hrun inp fuel ffuel (op :: ops) c) =
    snd (fq_hrun inp fuel ffuel ops (fst (fq_hstep inp fuel ffuel op c))).
  Proof.
    cbn [fq_hrun]. destruct (fq_hstep inp fuel ffuel op c) as [c1 o1]. cbn [fst snd].
    destruct (fq_hrun inp fuel ffuel ops c1) as [os c2]. reflexivity.
  Qed.

  Definition qob_genuine (ob : hobs) : Prop := exists l, qshows ob l /\ in_stream l.

  Lemma qhist_gen : forall ops c k g, hist_ok inp ops -> HQInv c k g ->
    Forall qob_genuine (fst (fq_hrun inp fuel ffuel ops c)).
  Proof.
    induction ops as [|op ops IH]; intros c k g Hops Hst; [constructor|].
    inversion Hops as [|? ? Hop Hops']; subst. rewrite fq_hrun_fst_cons.
    destruct (qhstep_gen op c k g Hop Hst) as (l & k' & g' & A & B & C & _).
    constructor; [exists l; split; [exact A|exact B]|]. eapply IH; eassumption.
  Qed.

  Inductive qruns_from : nat -> list hop -> list hobs -> Prop :=
  | qrf_nil k : qruns_from k [] []
  | qrf_cons k op ops ob obs l k' :
      qshows ob l ->
      (q_is_read op = true -> map QRec l = firstn (length l) (skipn k stream) /\ k + length l <= k') -> k <= k' ->
      qruns_from k' ops obs -> qruns_from k (op :: ops) (ob :: obs).

  Lemma qhist_order : forall ops c k g, hist_ok inp ops -> Forall (fun o => q_is_seek o = false) ops ->
    HQInv c k g -> qruns_from k ops (fst (fq_hrun inp fuel ffuel ops c)).
  Proof.
    induction ops as [|op ops IH]; intros c k g Hops Hns Hst; [constructor|].
    inversion Hops as [|? ? Hop Hops']; subst. inversion Hns as [|? ? Hn1 Hns']; subst.
    rewrite fq_hrun_fst_cons.
    destruct (qhstep_gen op c k g Hop Hst) as (l & k' & g' & A & B & C & D & E).
    eapply qrf_cons with (l := l) (k' := k'); auto. eapply IH; eassumption.
  Qed.

  Lemma HQInv_after : forall ops c k g, hist_ok inp ops -> HQInv c k g ->
    exists k' g', HQInv (snd (fq_hrun inp fuel ffuel ops c)) k' g'.
  Proof.
    induction ops as [|op ops IH]; intros c k g Hops Hst; [exists k, g; exact Hst|].
    inversion Hops as [|? ? Hop Hops']; subst. rewrite fq_hrun_snd_cons.
    destruct (qhstep_gen op c k g Hop Hst) as (l & k' & g' & _ & _ & C & _).
    eapply IH; eassumption.
  Qed.

  Lemma HQInv_init cap0 rs ss pol : 1 <= cap0 -> PolOk1 pol -> length rs + 2 <= ffuel ->
    HQInv (fq_hconf0 cap0 inp rs ss pol) 0 ([], []).
  Proof.
    intros Hc Hp Hf. unfold HQInv, fq_hconf0. cbn [c_rd c_slot fst snd].
    assert (B : QBase0 inp ffuel (fq_new cap0 (mkSource inp 0 rs ss) pol)).
    { constructor; cbn [fq_new qsrc qcap qpolf s_data]; auto. }
    split; [split; [exact B|]|].
    - apply qmid_of; [exact B| |reflexivity].
      constructor; cbn [fq_new qst qsrc qbuf qcap p0 inc qline qbyte s_data s_pos length]; auto; try lia.
    - split; [constructor|]. split; [constructor|]. split; constructor.
  Qed.
End Twin.

(* ------------------------------------------------------------------ *)
(** * The theorem *)

Definition q_rec_genuine (inp : list byte) (rc : fq_rec) : Prop :=
  exists i, In (QRec i) (fq_spec_all inp) /\ rec_at inp rc i.

Definition q_genuine_ob (inp : list byte) (ob : hobs) : Prop :=
  match ob with
  | ORec rc => q_rec_genuine inp rc
  | OOwned o => exists i, In (QRec i) (fq_spec_all inp) /\ o = Some (qi_head i, qi_seq i, qi_qual i)
  | OSetOk recs => Forall (q_rec_genuine inp) recs
  | OIter recs => Forall (q_rec_genuine inp) recs
  | OBad o => exists e, o = QOErr (FqIo e)        (* only: a seek that failed with an I/O error *)
  | _ => True
  end.

Lemma qob_genuine_spec inp ob : qob_genuine inp ob -> q_genuine_ob inp ob.
Proof.
  intros (l & Hsh & Hin). unfold in_stream in Hin.
  assert (Hall : forall recs, Forall2 (rec_at inp) recs l -> Forall (q_rec_genuine inp) recs).
  { intros recs H. clear Hsh. revert Hin. induction H as [|rc i recs l' Hrc _ IH]; intros Hin; constructor.
    - exists i. split; [inversion Hin; assumption|exact Hrc].
    - apply IH. inversion Hin; assumption. }
  destruct ob as [rc|o|recs|recs|e| |p| |x]; cbn [qshows q_genuine_ob] in *; auto.
  - destruct Hsh as (i & -> & Hrec). exists i. split; [inversion Hin; assumption|exact Hrec].
  - destruct Hsh as (i & -> & ->). exists i. split; [inversion Hin; assumption|reflexivity].
  - destruct Hsh as [He _]. exact He.
Qed.

Theorem fq_every_returned_record_is_genuine : forall inp cap0 rs ss pol fuel ffuel ops,
  1 <= cap0 -> PolOk1 pol -> length rs + 2 <= ffuel -> 2 * length inp + 4 <= fuel -> hist_ok inp ops ->
  Forall (q_genuine_ob inp) (fst (fq_hrun inp fuel ffuel ops (fq_hconf0 cap0 inp rs ss pol))).
Proof.
  intros inp cap0 rs ss pol fuel ffuel ops Hc Hp Hf Hfuel Hops.
  eapply Forall_impl; [apply qob_genuine_spec|].
  eapply (qhist_gen inp fuel ffuel Hfuel ops _ 0 ([], []) Hops). eapply HQInv_init; eassumption.
Qed.

(* ------------------------------------------------------------------ *)
(** * In order *)

Definition ltQ (x y : fq_sitem) : Prop := snd (coords x) < snd (coords y).

Lemma parse_tail_lt inp a l it rest : a <= length inp ->
  fq_parse (skipn a inp) l a = it :: rest ->
  rest = [] \/ exists e, a < e /\ e <= length inp /\ rest = fq_parse (skipn e inp) (l + 4) e.
Proof.
  intros Ha.
  assert (Hend : forall k id, end_items (skipn a inp) k id l a = it :: rest -> rest = []).
  { intros k id. unfold end_items. destruct (forallb blank (pieces (skipn a inp))); intros H; inversion H.
    reflexivity. }
  assert (Hverd : forall f sb h s q cont, sverdict f sb h s q l a cont = it :: rest ->
                                          rest = [] \/ rest = cont).
  { intros f sb h s q cont. unfold sverdict.
    destruct (negb (f =? AT)); [intros H; inversion H; left; reflexivity|].
    destruct (negb (sb =? PLUS)); [intros H; inversion H; left; reflexivity|].
    destruct (_ =? _); intros H; inversion H; [right|left]; reflexivity. }
  destruct (abs_line inp a) as [b|] eqn:E1.
  2:{ rewrite (parse_eof_head inp a l E1). intros H. left. eapply Hend; exact H. }
  destruct (abs_line inp b) as [c|] eqn:E2.
  2:{ rewrite (parse_eof_seq inp a b l E1 E2). intros H. left. eapply Hend; exact H. }
  destruct (abs_line inp c) as [d|] eqn:E3.
  2:{ rewrite (parse_eof_sep inp a b c l E1 E2 E3). intros H. left. eapply Hend; exact H. }
  destruct (abs_line inp d) as [e|] eqn:E4.
  - rewrite (parse_four_term inp a b c d e l E1 E2 E3 E4). intros H.
    destruct (Hverd _ _ _ _ _ _ H) as [->| ->]; [left; reflexivity|].
    right. exists e. apply abs_line_cut in E1, E2, E3, E4. split; [lia|]. split; [lia|reflexivity].
  - rewrite (parse_four_last inp a b c d l E1 E2 E3 E4). intros H.
    destruct (Hverd _ _ _ _ _ _ H) as [->| ->]; left; reflexivity.
Qed.

Lemma parse_sorted inp : forall n its a l, length its <= n -> a <= length inp ->
  fq_parse (skipn a inp) l a = its ->
  Forall (fun it => a <= snd (coords it)) its /\ StronglySorted ltQ its.
Proof.
  induction n as [|n IH]; intros its a l Hn Ha H.
  - destruct its; [split; constructor|cbn [length] in Hn; lia].
  - destruct its as [|it rest]; [split; constructor|].
    pose proof (fq_parse_hd_coords _ _ _ _ _ H) as Hc.
    destruct (parse_tail_lt inp a l it rest Ha H) as [->|(e & Hlt & Hle & Hrest)].
    + split; [constructor; [rewrite Hc; cbn [snd]; lia|constructor]|constructor; constructor].
    + destruct (IH rest e (l + 4) ltac:(cbn [length] in Hn; lia) Hle (eq_sym Hrest)) as [A B].
      split.
      * constructor; [rewrite Hc; cbn [snd]; lia|]. eapply Forall_impl; [|exact A]. cbn. intros; lia.
      * constructor; [exact B|]. eapply Forall_impl; [|exact A]. unfold ltQ. rewrite Hc. cbn [snd]. intros; lia.
Qed.

Lemma stream_sorted inp : StronglySorted ltQ (fq_spec_all inp).
Proof.
  rewrite fq_spec_all_parse.
  apply (proj2 (parse_sorted inp (length (fq_parse inp 1 0)) (fq_parse inp 1 0) 0 1 (le_n _) (Nat.le_0_l _) eq_refl)).
Qed.

(** what the reads of a history deliver: views and owned copies, in order *)
Inductive qdlv := QDRec (rc : fq_rec) | QDOwn (o : option (list byte * list byte * list byte)).

Fixpoint q_delivered_all (ops : list hop) (obs : list hobs) : list qdlv :=
  match ops, obs with
  | op :: ops', o :: obs' =>
      match op, o with
      | HNext, ORec rc => [QDRec rc]
      | HOwned, OOwned ow => [QDOwn ow]
      | HSet _, OSetOk rcs => map QDRec rcs
      | HSetExact _ _, OSetOk rcs => map QDRec rcs
      | _, _ => []
      end ++ q_delivered_all ops' obs'
  | _, _ => []
  end.

Definition qdlv_is (inp : list byte) (d : qdlv) (i : fq_item) : Prop :=
  match d with
  | QDRec rc => rec_at inp rc i
  | QDOwn o => o = Some (qi_head i, qi_seq i, qi_qual i)
  end.

Lemma qruns_sorted inp k ops obs : qruns_from inp k ops obs ->
  exists l, Forall2 (qdlv_is inp) (q_delivered_all ops obs) l /\ StronglySorted ltQ (map QRec l) /\
            incl (map QRec l) (skipn k (fq_spec_all inp)).
Proof.
  pose proof (stream_sorted inp) as Hsorted.
  induction 1 as [k|k op ops ob obs l1 k' Hsh Hread Hk _ (l2 & HF & Hs & Hi)].
  - exists []. split; [constructor|]. split; [constructor|intros x []].
  - assert (Hi' : incl (map QRec l2) (skipn k (fq_spec_all inp)))
      by (intros x Hx; apply (GenuineP.incl_skipn_le (fq_spec_all inp) k k' Hk); apply Hi; exact Hx).
    assert (Hskip : exists l, Forall2 (qdlv_is inp) (q_delivered_all ops obs) l /\ StronglySorted ltQ (map QRec l) /\
                              incl (map QRec l) (skipn k (fq_spec_all inp)))
      by (exists l2; auto).
    assert (Htake : forall ds, q_is_read op = true -> Forall2 (qdlv_is inp) ds l1 ->
              exists l, Forall2 (qdlv_is inp) (ds ++ q_delivered_all ops obs) l /\ StronglySorted ltQ (map QRec l) /\
                        incl (map QRec l) (skipn k (fq_spec_all inp))).
    { intros ds Hr Hds. destruct (Hread Hr) as [E Hle].
      exists (l1 ++ l2). split; [apply Forall2_app; assumption|]. rewrite map_app. split.
      - apply GenuineP.sorted_app; [rewrite E; apply GenuineP.sorted_firstn, GenuineP.sorted_skipn; exact Hsorted|exact Hs|].
        intros x y Hx Hy. rewrite E in Hx.
        apply (GenuineP.sorted_split ltQ (length l1) (skipn k (fq_spec_all inp)) x y (GenuineP.sorted_skipn _ _ _ Hsorted) Hx).
        rewrite Window.skipn_skipn. apply (GenuineP.incl_skipn_le (fq_spec_all inp) (k + length l1) k' Hle). apply Hi. exact Hy.
      - apply incl_app; [|exact Hi']. rewrite E. intros x Hx. apply FastaHistP.In_firstn_my in Hx. exact Hx. }
    cbn [q_delivered_all].
    destruct op as [| |s|s n|s| |k0]; destruct ob as [rc|o|recs|recs|e| |p| |x];
      cbn [qshows] in Hsh; try exact Hskip.
    + destruct Hsh as (i & -> & Hrec). apply Htake; [reflexivity|]. constructor; [exact Hrec|constructor].
    + destruct Hsh as (i & -> & Ho). apply Htake; [reflexivity|]. constructor; [exact Ho|constructor].
    + apply Htake; [reflexivity|]. clear -Hsh. induction Hsh; cbn [map]; constructor; auto.
    + apply Htake; [reflexivity|]. clear -Hsh. induction Hsh; cbn [map]; constructor; auto.
Qed.

Lemma fq_hrun_app inp fuel ffuel : forall ops1 ops2 c,
  fst (fq_hrun inp fuel ffuel (ops1 ++ ops2) c) =
  fst (fq_hrun inp fuel ffuel ops1 c) ++ fst (fq_hrun inp fuel ffuel ops2 (snd (fq_hrun inp fuel ffuel ops1 c))).
Proof.
  induction ops1 as [|op ops1 IH]; intros ops2 c; [reflexivity|].
  cbn [app]. rewrite !fq_hrun_fst_cons, fq_hrun_snd_cons, IH. reflexivity.
Qed.

Lemma fq_hrun_length inp fuel ffuel : forall ops c, length (fst (fq_hrun inp fuel ffuel ops c)) = length ops.
Proof.
  induction ops as [|op ops IH]; intros c; [reflexivity|]. rewrite fq_hrun_fst_cons. cbn [length]. rewrite IH. reflexivity.
Qed.

Lemma fq_hrun_skipn inp fuel ffuel ops1 ops2 c :
  skipn (length ops1) (fst (fq_hrun inp fuel ffuel (ops1 ++ ops2) c)) =
  fst (fq_hrun inp fuel ffuel ops2 (snd (fq_hrun inp fuel ffuel ops1 c))).
Proof.
  rewrite fq_hrun_app. rewrite <- (fq_hrun_length inp fuel ffuel ops1 c) at 1.
  rewrite skipn_app, Nat.sub_diag, skipn_all. reflexivity.
Qed.

Lemma sorted_map_rec l : StronglySorted ltQ (map QRec l) -> StronglySorted (fun x y => qi_byte x < qi_byte y) l.
Proof.
  induction l as [|i l IH]; intros H; [constructor|]. cbn [map] in H. inversion H as [|? ? Hs HF]; subst.
  constructor; [apply IH; exact Hs|]. rewrite Forall_map in HF. exact HF.
Qed.

Theorem fq_returned_records_in_order : forall inp cap0 rs ss pol fuel ffuel ops1 ops2,
  1 <= cap0 -> PolOk1 pol -> length rs + 2 <= ffuel -> 2 * length inp + 4 <= fuel ->
  hist_ok inp (ops1 ++ ops2) -> Forall (fun o => q_is_seek o = false) ops2 ->
  let obs := fst (fq_hrun inp fuel ffuel (ops1 ++ ops2) (fq_hconf0 cap0 inp rs ss pol)) in
  exists xs, Forall2 (qdlv_is inp) (q_delivered_all ops2 (skipn (length ops1) obs)) xs /\
             Forall (fun i => In (QRec i) (fq_spec_all inp)) xs /\
             StronglySorted (fun x y => qi_byte x < qi_byte y) xs.
Proof.
  intros inp cap0 rs ss pol fuel ffuel ops1 ops2 Hc Hp Hf Hfuel Hops Hns. cbv zeta.
  apply hist_ok_app in Hops. destruct Hops as [Hops1 Hops2].
  rewrite fq_hrun_skipn.
  destruct (HQInv_after inp fuel ffuel Hfuel ops1 _ 0 ([], []) Hops1 (HQInv_init inp fuel ffuel Hfuel cap0 rs ss pol Hc Hp Hf))
    as (k1 & g1 & Hinv1).
  pose proof (qhist_order inp fuel ffuel Hfuel ops2 _ k1 g1 Hops2 Hns Hinv1) as Hruns.
  destruct (qruns_sorted inp _ _ _ Hruns) as (l & HF & Hs & Hi).
  exists l. split; [exact HF|]. split; [|apply sorted_map_rec; exact Hs].
  apply Forall_forall. intros i Hin.
  assert (Hx : In (QRec i) (skipn k1 (fq_spec_all inp))) by (apply Hi; apply in_map; exact Hin).
  apply (GenuineP.incl_skipn_le (fq_spec_all inp) 0 k1 ltac:(lia)). exact Hx.
Qed.

Print Assumptions fq_every_returned_record_is_genuine.
Print Assumptions fq_returned_records_in_order.

(* ------------------------------------------------------------------ *)
(** * The invariant and its preservation, operation by operation *)

Theorem fq_ops_whatever_the_source_does : forall inp fuel ffuel, 2 * length inp + 4 <= fuel ->
  (* a new reader *)
  (forall cap0 rs ss pol, 1 <= cap0 -> PolOk1 pol -> length rs + 2 <= ffuel ->
     RQ inp ffuel (fq_new cap0 (mkSource inp 0 rs ss) pol) 0) /\
  (* next *)
  (forall r k r' o, RQ inp ffuel r k -> fq_next fuel ffuel r = (r', o) ->
     (exists rc i, o = QORec rc /\ nth_error (fq_spec_all inp) k = Some (QRec i) /\ rec_at inp rc i /\
                   RQ inp ffuel r' (S k)) \/
     (exists e l a, o = QOErr (fq_err_of e) /\ nth_error (fq_spec_all inp) k = Some (QErr e l a) /\
                    RQ inp ffuel r' (length (fq_spec_all inp))) \/
     (o = QONone /\ exists k', k <= k' /\ RQ inp ffuel r' k') \/
     (exists e, o = QOErr (FqIo e) /\ RQ inp ffuel r' k)) /\
  (* read_record_set(_exact) *)
  (forall n rs r k r' rs' o, n_ok n -> RQ inp ffuel r k -> fq_read_set fuel ffuel n r rs = (r', rs', o) ->
     (o = QOSetOk /\ exists recs1, recs1 <> [] /\ Forall2 (rec_at inp) (fq_set_records rs') recs1 /\
         map QRec recs1 = firstn (length recs1) (skipn k (fq_spec_all inp)) /\ RQ inp ffuel r' (k + length recs1)) \/
     (exists e, o = QOErr (fq_err_of e) /\ qspos rs' = [] /\ k <= length (fq_spec_all inp) /\
                RQ inp ffuel r' (length (fq_spec_all inp))) \/
     (o = QONone /\ (rs' = rs \/ qspos rs' = []) /\ exists k', k <= k' /\ RQ inp ffuel r' k') \/
     (exists e, o = QOErr (FqIo e) /\ (rs' = rs \/ qspos rs' = []) /\ RQ inp ffuel r' k)) /\
  (* seek to the position of item k' *)
  (forall r k k' it r' o, RQ inp ffuel r k -> nth_error (fq_spec_all inp) k' = Some it ->
     fq_seek ffuel r (fst (coords it)) (snd (coords it)) = (r', o) ->
     (o = QOOk /\ RQ inp ffuel r' k') \/ (exists e, o = QOErr (FqIo e) /\ RQ inp ffuel r' k)).
Proof.
  intros inp fuel ffuel Hfuel. split; [|split; [|split]].
  - intros cap0 rs ss pol Hc Hp Hf. exact (proj1 (HQInv_init inp fuel ffuel Hfuel cap0 rs ss pol Hc Hp Hf)).
  - exact (rqnext inp fuel ffuel Hfuel).
  - exact (rqset inp fuel ffuel Hfuel).
  - exact (rqseek inp fuel ffuel Hfuel).
Qed.

(** the three kinds of states of the healthy twin, in plain terms *)
Lemma RQ_kinds inp ffuel r k : RQ inp ffuel r k ->
  s_data (qsrc r) = inp /\
  ((qst r = QNew /\ qbuf r = window inp 0 (s_pos (qsrc r)) /\ qbyte r = 0 /\ qline r = 1) \/
   (qst r = QFinished /\ qbuf r = []) \/
   (exists off, qbuf r = window inp off (s_pos (qsrc r)) /\ p0 r + off = qbyte r /\ qst r <> QNew)).
Proof.
  intros [B G]. split; [apply B|].
  destruct G as [(off & H)|T Hk|D].
  - destruct (HQo_seek_base _ _ _ _ _ H) as (W & _ & _ & _ & Hpb & _).
    destruct (fq_state_eqb (qst r) QNew) eqn:E.
    + left. assert (Hst : qst r = QNew) by (destruct (qst r); try discriminate; reflexivity).
      destruct H as [Hq Hoff W' Sk Hp0 H0 Hinc Hln Hby Pol Cap Hit|Hq| Hq | s Hq |Hq];
        change (qst (hlq r)) with (qst r) in Hq; try congruence.
      split; [exact Hst|]. split; [subst off; apply (qw_buf _ _ _ _ W)|]. split; [exact Hby|exact Hln].
    + right. right. exists off. split; [apply (qw_buf _ _ _ _ W)|]. split; [exact Hpb|].
      intros Hn. rewrite Hn in E. discriminate.
  - left. pose proof (qt_mid _ _ _ T) as M. split; [apply (qm_st _ _ M)|]. split; [apply (qm_buf _ _ M)|].
    split; [apply (qm_byte _ _ M)|apply (qm_line _ _ M)].
  - right. left. split; [apply (qd_st _ _ _ D)|apply (qd_buf _ _ _ D)].
Qed.

Print Assumptions fq_ops_whatever_the_source_does.
Print Assumptions RQ_kinds.
