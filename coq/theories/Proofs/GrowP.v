(** C09: the buffer grows only via the policy, the policy is asked with the
    current capacity, a buffer-limit error is returned iff the policy refused,
    [set_policy] keeps the stream, the built-in policies compute the documented
    sizes.  For EVERY reader state, fuel, policy and source script. *)
From SeqIO Require Import Model.Base Model.Fasta Model.Fastq Gen.PolicyGen
     Proofs.TraceP Proofs.FaTraceP Proofs.FqTraceP.

Ltac fa_simpl := cbn [buf cap src start seqpos pline pbyte spos st polf polh log
  set_buf set_cap set_src set_start set_seqpos set_pline set_pbyte set_spos set_st set_pol set_log].
Ltac fq_simpl := cbn [qbuf qcap qsrc p0 p1 pseq psep pqual inc qline qbyte qst qpolf qpolh qlog
  qset_buf qset_cap qset_src qset_p0 qset_p1 qset_seq qset_sep qset_qual qset_inc qset_line qset_byte
  qset_st qset_pol qset_log].

(* ------------------------------------------------------------------ *)
(** * Buffer-limit error iff the policy refused *)

(** [LimitSurfaces old new o lim]: [lim] is the buffer-limit outcome.
    - the policy refused during the call (answered [None] or a size not larger
      than the capacity it was asked with) IFF the outcome is the buffer-limit error;
    - the refusal is the newest event of the call (nothing was read and the
      policy was not asked again afterwards) and the only refusal. *)
Definition LimitSurfaces {O : Type} (old new : list ev) (o : O) (lim : O) : Prop :=
  let added := new_events new old in
  ((exists e, In e added /\ ev_refuse e = true) <-> o = lim) /\
  (forall e, In e added -> ev_refuse e = true ->
     exists rest, added = e :: rest /\ Forall (fun e' => ev_refuse e' = false) rest).

Lemma ev_adverse_limit e : ev_adverse e = Some ALimit <-> ev_refuse e = true.
Proof.
  unfold ev_adverse. destruct e as [o [n| |k]|t [k|]|c [n|]]; cbn [ev_fail ev_refuse];
    try (split; discriminate); try (destruct (n <=? c)); split; try discriminate; reflexivity.
Qed.

Lemma ev_adverse_none_refuse e : ev_adverse e = None -> ev_refuse e = false.
Proof.
  intros H. destruct (ev_refuse e) eqn:E; [|reflexivity]. apply ev_adverse_limit in E. congruence.
Qed.

Definition adverse_lim (a : option adverse) : bool := match a with Some ALimit => true | _ => false end.

Lemma Run_LimitSurfaces ex a b cls : Run ex a b cls ->
  let added := new_events (c_log b) (c_log a) in
  ((exists e, In e added /\ ev_refuse e = true) <-> adverse_lim cls = true) /\
  (forall e, In e added -> ev_refuse e = true ->
     exists rest, added = e :: rest /\ Forall (fun e' => ev_refuse e' = false) rest).
Proof.
  intros R. destruct (Run_added _ _ _ _ R) as [_ HS]. cbv zeta.
  set (added := new_events (c_log b) (c_log a)) in *. split.
  - split.
    + intros (e & Hin & He). apply ev_adverse_limit in He.
      destruct (AdverseSpec_in _ _ _ _ HS Hin He) as [-> _]. reflexivity.
    + intros Hl. destruct cls as [[k|]|]; cbn [adverse_lim] in Hl; try discriminate.
      destruct HS as (e & rest & -> & He & _). exists e. split; [left; reflexivity|]. apply ev_adverse_limit. exact He.
  - intros e Hin He. apply ev_adverse_limit in He.
    destruct (AdverseSpec_in _ _ _ _ HS Hin He) as [_ (rest & -> & Hr)].
    exists rest. split; [reflexivity|]. eapply Forall_impl; [|exact Hr]. intros e'. apply ev_adverse_none_refuse.
Qed.

Lemma fa_out_lim_iff o : adverse_lim (fa_out_class o) = true <-> o = OErr FaBufferLimit.
Proof. destruct o as [| | | |[k|l f|]| |]; cbn; split; intros H; try discriminate; try reflexivity. Qed.
Lemma fq_out_lim_iff o : adverse_lim (fq_out_class o) = true <-> o = QOErr FqBufferLimit.
Proof. destruct o as [| | | |[]| |]; cbn; split; intros H; try discriminate; try reflexivity. Qed.

Lemma fa_Run_limit ex r r' o : Run ex (fa_core r) (fa_core r') (fa_out_class o) ->
  LimitSurfaces (log r) (log r') o (OErr FaBufferLimit).
Proof.
  intros R. destruct (Run_LimitSurfaces _ _ _ _ R) as [L1 L2]. cbn [fa_core c_log] in *.
  split; [|exact L2]. rewrite L1. apply fa_out_lim_iff.
Qed.

Lemma fq_Run_limit ex r r' o : Run ex (fq_core r) (fq_core r') (fq_out_class o) ->
  LimitSurfaces (qlog r) (qlog r') o (QOErr FqBufferLimit).
Proof.
  intros R. destruct (Run_LimitSurfaces _ _ _ _ R) as [L1 L2]. cbn [fq_core c_log] in *.
  split; [|exact L2]. rewrite L1. apply fq_out_lim_iff.
Qed.

Lemma no_ex' (P : Prop) : false = true -> P.
Proof. discriminate. Qed.

Theorem fa_next_limit_iff_refuse fuel ffuel r r' o : fa_next fuel ffuel r = (r', o) ->
  LimitSurfaces (log r) (log r') o (OErr FaBufferLimit).
Proof. intros H. eapply fa_Run_limit. apply (fa_next_run false _ _ _ _ _ H). apply no_ex'. Qed.

Theorem fa_read_set_limit_iff_refuse fuel ffuel n r rs r' rs' o :
  fa_read_set fuel ffuel n r rs = (r', rs', o) -> LimitSurfaces (log r) (log r') o (OErr FaBufferLimit).
Proof. intros H. eapply fa_Run_limit. apply (fa_read_set_run false _ _ _ _ _ _ _ _ H). apply no_ex'. Qed.

Theorem fa_seek_limit_iff_refuse ffuel r line byte_ r' o : fa_seek ffuel r line byte_ = (r', o) ->
  LimitSurfaces (log r) (log r') o (OErr FaBufferLimit).
Proof. intros H. eapply fa_Run_limit. apply (fa_seek_run false _ _ _ _ _ _ H). Qed.

Theorem fq_next_limit_iff_refuse fuel ffuel r r' o : fq_next fuel ffuel r = (r', o) ->
  LimitSurfaces (qlog r) (qlog r') o (QOErr FqBufferLimit).
Proof. intros H. eapply fq_Run_limit. apply (fq_next_run false _ _ _ _ _ H). Qed.

Theorem fq_read_set_limit_iff_refuse fuel ffuel n r rs r' rs' o :
  fq_read_set fuel ffuel n r rs = (r', rs', o) -> LimitSurfaces (qlog r) (qlog r') o (QOErr FqBufferLimit).
Proof. intros H. eapply fq_Run_limit. apply (fq_read_set_run false _ _ _ _ _ _ _ _ H). Qed.

Theorem fq_seek_limit_iff_refuse ffuel r line byte_ r' o : fq_seek ffuel r line byte_ = (r', o) ->
  LimitSurfaces (qlog r) (qlog r') o (QOErr FqBufferLimit).
Proof. intros H. eapply fq_Run_limit. apply (fq_seek_run false _ _ _ _ _ _ H). Qed.

(* ------------------------------------------------------------------ *)
(** * The capacity changes only in [grow], as the policy directs *)

(** [PolicyDirected ex c pf h added c' pf' h']: what a call may do to
    capacity, policy and policy history, given the events [added] it logged:
    - ([CapTrace]) the capacity changes only at an [EvGrow] event whose answer
      is a larger size; every [EvGrow] event carries the capacity of that moment
      as its argument; the new capacity lies between the old one and the answer
      and, when [ex = true], IS the answer;
    - every answer in the log is the policy's answer to the capacity of that
      moment, given everything it was asked before;
    - the policy is kept and its history extended by the arguments. *)
Definition PolicyDirected (ex : bool) (c : nat) (pf : policy) (h : list nat) (added : list ev)
           (c' : nat) (pf' : policy) (h' : list nat) : Prop :=
  CapTrace ex c added c' /\ GrowAnswers pf h added /\ pf' = pf /\ h' = grow_args added ++ h.

Lemma Run_PolicyDirected ex a b cls : Run ex a b cls ->
  PolicyDirected ex (c_cap a) (c_polf a) (c_polh a) (new_events (c_log b) (c_log a))
                 (c_cap b) (c_polf b) (c_polh b).
Proof.
  intros R. destruct (Run_added _ _ _ _ R) as [[L F H A C] _]. unfold PolicyDirected. auto.
Qed.

(** consequences of [PolicyDirected] *)
Lemma PolicyDirected_changed ex c pf h added c' pf' h' :
  PolicyDirected ex c pf h added c' pf' h' -> c' <> c ->
  exists n, In (EvGrow c (Some n)) added /\ c < n.
Proof. intros (C & _) Hne. eapply CapTrace_changed; eassumption. Qed.

Lemma PolicyDirected_mono ex c pf h added c' pf' h' :
  PolicyDirected ex c pf h added c' pf' h' -> c <= c'.
Proof. intros (C & _). eapply CapTrace_mono; eassumption. Qed.

Lemma PolicyDirected_no_growth ex c pf h added c' pf' h' :
  PolicyDirected ex c pf h added c' pf' h' ->
  (forall a n, In (EvGrow a (Some n)) added -> n <= a) -> c' = c.
Proof. intros (C & _) Hno. eapply CapTrace_unchanged; eassumption. Qed.

(** with exact adoption the final capacity is the last accepted answer *)
Lemma CapTrace_exact_last c l c' :
  CapTrace true c l c' -> c' <> c ->
  exists a n l1 l2, l = l1 ++ EvGrow a (Some n) :: l2 /\ a < n /\ c' = n /\
                    (forall a' n', In (EvGrow a' (Some n')) l1 -> n' <= a').
Proof.
  induction 1 as [|e l c1 H IH Hg|ans l c1 H IH Hr|n l c1 c2 H IH Hlt Hle1 Hle2 Hex]; intros Hne.
  - congruence.
  - destruct (IH Hne) as (a & n & l1 & l2 & -> & Ha & Hc & Hl1). exists a, n, (e :: l1), l2. splits; auto.
    intros a' n' [->|Hin]; [discriminate|]. eapply Hl1; exact Hin.
  - destruct (IH Hne) as (a & n & l1 & l2 & -> & Ha & Hc & Hl1). exists a, n, (EvGrow c1 ans :: l1), l2. splits; auto.
    intros a' n' [Heq|Hin]; [|eapply Hl1; exact Hin]. inversion Heq; subst. cbn [ev_refuse] in Hr.
    apply Nat.leb_le. exact Hr.
  - exists c1, n, [], l. splits; auto. intros a' n' [].
Qed.

(** FASTA: for every state ([ex = false]) and, for states in which a pending
    incomplete search sits in a full buffer ([FullInc]; see
    [fa_invariants_preserved] in GrowSitesP.v), with exact adoption of the policy's answer *)
Theorem fa_next_policy_directed ex fuel ffuel r r' o : fa_next fuel ffuel r = (r', o) ->
  (ex = true -> FullInc r) ->
  PolicyDirected ex (cap r) (polf r) (polh r) (new_events (log r') (log r)) (cap r') (polf r') (polh r').
Proof. intros H Hf. apply (Run_PolicyDirected _ _ _ _ (fa_next_run ex _ _ _ _ _ H Hf)). Qed.

Theorem fa_read_set_policy_directed ex fuel ffuel n r rs r' rs' o :
  fa_read_set fuel ffuel n r rs = (r', rs', o) -> (ex = true -> FullInc r) ->
  PolicyDirected ex (cap r) (polf r) (polh r) (new_events (log r') (log r)) (cap r') (polf r') (polh r').
Proof. intros H Hf. apply (Run_PolicyDirected _ _ _ _ (fa_read_set_run ex _ _ _ _ _ _ _ _ H Hf)). Qed.

Lemma fa_fill_reads ffuel r r' fr : fa_fill ffuel r = (r', fr) ->
  exists added, log r' = added ++ log r /\ forallb is_read added = true /\
                cap r' = cap r /\ polf r' = polf r /\ polh r' = polh r.
Proof.
  unfold fa_fill. intros H.
  destruct (fill_buf ffuel (buf r) (cap r) (src r) (log r) 0) as [[[b s] lg] fres] eqn:E.
  destruct (fill_buf_trace _ _ _ _ _ _ _ _ _ _ E) as (added & -> & Hr & _).
  inversion H; subst. exists added. fa_simpl. auto.
Qed.

Theorem fa_seek_policy_untouched ffuel r line byte_ r' o : fa_seek ffuel r line byte_ = (r', o) ->
  cap r' = cap r /\ polf r' = polf r /\ polh r' = polh r /\
  forallb (fun e => negb (is_grow e)) (new_events (log r') (log r)) = true.
Proof.
  unfold fa_seek. intros H.
  destruct ((0 <=? Z.of_nat (start r) + (Z.of_nat byte_ - Z.of_nat (pbyte r)))%Z &&
            (Z.of_nat (start r) + (Z.of_nat byte_ - Z.of_nat (pbyte r)) <? Z.of_nat (length (buf r)))%Z && negb (fa_state_eqb (st r) FNew)).
  { inversion H; subst. fa_simpl. rewrite new_events_refl. auto. }
  destruct (src_seek (src r) byte_) as [s' res] eqn:Es.
  destruct res as [k|].
  - inversion H; subst. fa_simpl. rewrite new_events_cons. auto.
  - match type of H with (let '(r1, fr) := fa_fill ffuel ?R in _) = _ => set (r0 := R) in * end.
    destruct (fa_fill ffuel r0) as [r1 fr] eqn:E1.
    destruct (fa_fill_reads _ _ _ _ E1) as (added & L & Hr & Hc & Hf & Hh).
    assert (Hsame : cap r' = cap r1 /\ polf r' = polf r1 /\ polh r' = polh r1 /\ log r' = log r1)
      by (destruct fr; inversion H; subst; fa_simpl; auto).
    destruct Hsame as (Hc' & Hf' & Hh' & Hl'). rewrite Hc', Hf', Hh', Hl'.
    rewrite Hc, Hf, Hh, L. unfold r0. fa_simpl. splits; auto.
    change (added ++ EvSeek byte_ None :: log r) with (added ++ [EvSeek byte_ None] ++ log r).
    rewrite app_assoc, new_events_app, forallb_app. rewrite (reads_no_grow _ Hr). reflexivity.
Qed.

(** FASTQ: exact adoption in EVERY state (growth is attempted only after the
    check that the buffer is full) *)
Theorem fq_next_policy_directed fuel ffuel r r' o : fq_next fuel ffuel r = (r', o) ->
  PolicyDirected true (qcap r) (qpolf r) (qpolh r) (new_events (qlog r') (qlog r)) (qcap r') (qpolf r') (qpolh r').
Proof. intros H. apply (Run_PolicyDirected _ _ _ _ (fq_next_run true _ _ _ _ _ H)). Qed.

Theorem fq_read_set_policy_directed fuel ffuel n r rs r' rs' o :
  fq_read_set fuel ffuel n r rs = (r', rs', o) ->
  PolicyDirected true (qcap r) (qpolf r) (qpolh r) (new_events (qlog r') (qlog r)) (qcap r') (qpolf r') (qpolh r').
Proof. intros H. apply (Run_PolicyDirected _ _ _ _ (fq_read_set_run true _ _ _ _ _ _ _ _ H)). Qed.

Lemma fq_fill_reads ffuel r r' fr : fq_fill ffuel r = (r', fr) ->
  exists added, qlog r' = added ++ qlog r /\ forallb is_read added = true /\
                qcap r' = qcap r /\ qpolf r' = qpolf r /\ qpolh r' = qpolh r.
Proof.
  unfold fq_fill. intros H.
  destruct (fill_buf ffuel (qbuf r) (qcap r) (qsrc r) (qlog r) 0) as [[[b s] lg] fres] eqn:E.
  destruct (fill_buf_trace _ _ _ _ _ _ _ _ _ _ E) as (added & -> & Hr & _).
  inversion H; subst. exists added. fq_simpl. auto.
Qed.

Theorem fq_seek_policy_untouched ffuel r line byte_ r' o : fq_seek ffuel r line byte_ = (r', o) ->
  qcap r' = qcap r /\ qpolf r' = qpolf r /\ qpolh r' = qpolh r /\
  forallb (fun e => negb (is_grow e)) (new_events (qlog r') (qlog r)) = true.
Proof.
  unfold fq_seek. intros H.
  destruct ((0 <=? Z.of_nat (p0 r) + (Z.of_nat byte_ - Z.of_nat (qbyte r)))%Z &&
            (Z.of_nat (p0 r) + (Z.of_nat byte_ - Z.of_nat (qbyte r)) <? Z.of_nat (length (qbuf r)))%Z && negb (fq_state_eqb (qst r) QNew)).
  { inversion H; subst. fq_simpl. rewrite new_events_refl. auto. }
  destruct (src_seek (qsrc r) byte_) as [s' res] eqn:Es.
  destruct res as [k|].
  - inversion H; subst. fq_simpl. rewrite new_events_cons. auto.
  - match type of H with (let '(r1, fr) := fq_fill ffuel ?R in _) = _ => set (r0 := R) in * end.
    destruct (fq_fill ffuel r0) as [r1 fr] eqn:E1.
    destruct (fq_fill_reads _ _ _ _ E1) as (added & L & Hr & Hc & Hf & Hh).
    assert (Hsame : qcap r' = qcap r1 /\ qpolf r' = qpolf r1 /\ qpolh r' = qpolh r1 /\ qlog r' = qlog r1)
      by (destruct fr; inversion H; subst; fq_simpl; auto).
    destruct Hsame as (Hc' & Hf' & Hh' & Hl'). rewrite Hc', Hf', Hh', Hl'.
    rewrite Hc, Hf, Hh, L. unfold r0. fq_simpl. splits; auto.
    change (added ++ EvSeek byte_ None :: qlog r) with (added ++ [EvSeek byte_ None] ++ qlog r).
    rewrite app_assoc, new_events_app, forallb_app. rewrite (reads_no_grow _ Hr). reflexivity.
Qed.

(** [grow] itself: asked with the current capacity, adopts the answer *)
Theorem fa_grow_spec r :
  let c := cap r in let ans := polf r (polh r) c in
  let r' := fst (fa_grow r) in
  log r' = EvGrow c ans :: log r /\ polh r' = c :: polh r /\ polf r' = polf r /\
  match ans with
  | Some n => if n <=? c then snd (fa_grow r) = GErr FaBufferLimit /\ cap r' = c
              else snd (fa_grow r) = GOk /\ c <= cap r' <= n /\ (c <= length (buf r) -> cap r' = n)
  | None => snd (fa_grow r) = GErr FaBufferLimit /\ cap r' = c
  end.
Proof.
  cbv zeta. unfold fa_grow. destruct (polf r (polh r) (cap r)) as [n|]; [destruct (n <=? cap r) eqn:En|];
    cbn [fst snd log polh polf cap buf set_log set_pol set_cap]; splits; auto;
    apply Nat.leb_gt in En; destruct (br_reserve_bounds (buf r) (cap r) n En) as (B1 & B2 & B3); auto.
Qed.

Theorem fq_grow_spec r :
  let c := qcap r in let ans := qpolf r (qpolh r) c in
  let r' := fst (fq_grow r) in
  qlog r' = EvGrow c ans :: qlog r /\ qpolh r' = c :: qpolh r /\ qpolf r' = qpolf r /\
  match ans with
  | Some n => if n <=? c then snd (fq_grow r) = QGErr FqBufferLimit /\ qcap r' = c
              else snd (fq_grow r) = QGOk /\ c <= qcap r' <= n /\ (c <= length (qbuf r) -> qcap r' = n)
  | None => snd (fq_grow r) = QGErr FqBufferLimit /\ qcap r' = c
  end.
Proof.
  cbv zeta. unfold fq_grow. destruct (qpolf r (qpolh r) (qcap r)) as [n|]; [destruct (n <=? qcap r) eqn:En|];
    cbn [fst snd qlog qpolh qpolf qcap qbuf qset_log qset_pol qset_cap]; splits; auto;
    apply Nat.leb_gt in En; destruct (br_reserve_bounds_q (qbuf r) (qcap r) n En) as (B1 & B2 & B3); auto.
Qed.

(* ------------------------------------------------------------------ *)
(** * [set_policy] *)

(** a policy installed in mid-stream answers every later consultation, starting
    from an empty history; everything else of the reader state is untouched
    ([fa_set_policy_fields] / [fq_set_policy_fields]) *)
Theorem fa_set_policy_takes_over_next fuel ffuel r p r' o :
  fa_next fuel ffuel (fa_set_policy r p) = (r', o) ->
  let added := new_events (log r') (log r) in
  GrowAnswers p [] added /\ polf r' = p /\ polh r' = grow_args added.
Proof.
  intros H. destruct (fa_next_policy_directed false _ _ _ _ _ H (no_ex' _)) as (_ & A & F & Hh).
  cbv zeta. change (log (fa_set_policy r p)) with (log r) in *. cbn [fa_set_policy polf polh set_pol] in *.
  rewrite app_nil_r in Hh. auto.
Qed.

Theorem fa_set_policy_takes_over_read_set fuel ffuel n r rs p r' rs' o :
  fa_read_set fuel ffuel n (fa_set_policy r p) rs = (r', rs', o) ->
  let added := new_events (log r') (log r) in
  GrowAnswers p [] added /\ polf r' = p /\ polh r' = grow_args added.
Proof.
  intros H. destruct (fa_read_set_policy_directed false _ _ _ _ _ _ _ _ H (no_ex' _)) as (_ & A & F & Hh).
  cbv zeta. change (log (fa_set_policy r p)) with (log r) in *. cbn [fa_set_policy polf polh set_pol] in *.
  rewrite app_nil_r in Hh. auto.
Qed.

Theorem fq_set_policy_takes_over_next fuel ffuel r p r' o :
  fq_next fuel ffuel (fq_set_policy r p) = (r', o) ->
  let added := new_events (qlog r') (qlog r) in
  GrowAnswers p [] added /\ qpolf r' = p /\ qpolh r' = grow_args added.
Proof.
  intros H. destruct (fq_next_policy_directed _ _ _ _ _ H) as (_ & A & F & Hh).
  cbv zeta. change (qlog (fq_set_policy r p)) with (qlog r) in *. cbn [fq_set_policy qpolf qpolh qset_pol] in *.
  rewrite app_nil_r in Hh. auto.
Qed.

Theorem fq_set_policy_takes_over_read_set fuel ffuel n r rs p r' rs' o :
  fq_read_set fuel ffuel n (fq_set_policy r p) rs = (r', rs', o) ->
  let added := new_events (qlog r') (qlog r) in
  GrowAnswers p [] added /\ qpolf r' = p /\ qpolh r' = grow_args added.
Proof.
  intros H. destruct (fq_read_set_policy_directed _ _ _ _ _ _ _ _ H) as (_ & A & F & Hh).
  cbv zeta. change (qlog (fq_set_policy r p)) with (qlog r) in *. cbn [fq_set_policy qpolf qpolh qset_pol] in *.
  rewrite app_nil_r in Hh. auto.
Qed.
