(** C09 "only when needed": the states in which the readers consult the policy.
    For each function that can reach [grow] a mirror function lists, in order,
    the reader states in which [grow] is entered during the call (it follows
    the code of the model function and is tied to it by the link theorems: the
    [EvGrow] events the call logs are exactly the events of these states). *)
From SeqIO Require Import Model.Base Model.Fasta Model.Fastq
     Proofs.TraceP Proofs.FaTraceP Proofs.FqTraceP Proofs.GrowP.

(* ------------------------------------------------------------------ *)
(** * Linking grow events to a chronological list *)

Definition GrowLink (old new : list ev) (gs : list ev) : Prop :=
  exists added, new = added ++ old /\ filter is_grow added = rev gs.

Lemma GrowLink_refl l : GrowLink l l [].
Proof. exists []. split; reflexivity. Qed.

Lemma GrowLink_eq a b : b = a -> GrowLink a b [].
Proof. intros ->. apply GrowLink_refl. Qed.

Lemma GrowLink_trans a b c g1 g2 : GrowLink a b g1 -> GrowLink b c g2 -> GrowLink a c (g1 ++ g2).
Proof.
  intros (e1 & -> & F1) (e2 & -> & F2). exists (e2 ++ e1). split; [rewrite app_assoc; reflexivity|].
  rewrite filter_app, F1, F2, rev_app_distr. reflexivity.
Qed.

Lemma GrowLink_trans_nil_l a b c g : GrowLink a b [] -> GrowLink b c g -> GrowLink a c g.
Proof. intros H1 H2. apply (GrowLink_trans _ _ _ _ _ H1 H2). Qed.

Lemma GrowLink_trans_nil_r a b c g : GrowLink a b g -> GrowLink b c [] -> GrowLink a c g.
Proof. intros H1 H2. rewrite <- (app_nil_r g). apply (GrowLink_trans _ _ _ _ _ H1 H2). Qed.

Lemma filter_no_grow added : forallb (fun e => negb (is_grow e)) added = true -> filter is_grow added = [].
Proof.
  induction added as [|e l IH]; intros H; [reflexivity|].
  cbn [forallb] in H. apply andb_true_iff in H. destruct H as [He Hl]. cbn [filter].
  destruct (is_grow e); [discriminate|]. apply IH; exact Hl.
Qed.

Lemma GrowLink_no_grow old new added :
  new = added ++ old -> forallb (fun e => negb (is_grow e)) added = true -> GrowLink old new [].
Proof. intros -> H. exists added. split; [reflexivity|]. rewrite (filter_no_grow _ H). reflexivity. Qed.

Lemma GrowLink_final old new gs : GrowLink old new gs -> filter is_grow (new_events new old) = rev gs.
Proof. intros (added & -> & F). rewrite new_events_app. exact F. Qed.

(* ================================================================== *)
(** * FASTA *)

Definition BufFits (r : fa) : Prop := length (buf r) <= cap r.

(** the policy consultation made by [fa_grow] in state [s] *)
Definition fa_site_event (s : fa) : ev := EvGrow (cap s) (polf s (polh s) (cap s)).

(** growth is needed: the record starts at the buffer start and the buffer is full *)
Definition GrowSite (s : fa) : Prop := start s = 0 /\ length (buf s) = cap s.
Definition FullSite (s : fa) : Prop := length (buf s) = cap s.

(** states in which [fa_resume] enters [fa_grow] *)
Fixpoint fa_resume_sites (fuel ffuel : nat) (mk : bool) (r : fa) : list fa :=
  match fuel with
  | 0 => []
  | S f =>
      let grows := negb mk || (start r =? 0) in
      let '(r1, g) := if grows then fa_grow r else fa_make_room r in
      (if grows then [r] else []) ++
      match g with
      | GOk =>
          let '(r2, fr) := fa_fill ffuel r1 in
          match fr with
          | FillOk _ =>
              let '(r3, sr) := fa_search r2 in
              match sr with SFound false => fa_resume_sites f ffuel mk r3 | _ => [] end
          | _ => []
          end
      | _ => []
      end
  end.

Definition fa_next_tail_sites (fuel ffuel : nat) (r : fa) : list fa :=
  let '(r1, sr) := if fa_state_eqb (st r) FIncomplete then (r, SFound true) else fa_search r in
  match sr with
  | SPanic _ => []
  | SFound _ => if fa_state_eqb (st r1) FIncomplete then fa_resume_sites fuel ffuel true r1 else []
  end.

Definition fa_next_sites (fuel ffuel : nat) (r : fa) : list fa :=
  match st r with
  | FNew =>
      let '(r1, ir) := fa_init fuel ffuel r in
      match ir with IOk true => fa_next_tail_sites fuel ffuel (set_st r1 FParsing) | _ => [] end
  | FPositioned => fa_next_tail_sites fuel ffuel (set_st r FParsing)
  | FFinished => []
  | FParsing => match fa_increment r with None => [] | Some r1 => fa_next_tail_sites fuel ffuel r1 end
  | FIncomplete => fa_next_tail_sites fuel ffuel r
  end.

Fixpoint fa_set_loop_sites (fuel rfuel ffuel : nat) (n : option nat) (is_new : bool) (r : fa) (rs : fa_set)
  : list fa :=
  match fuel with
  | 0 => []
  | S f =>
      if fa_state_eqb (st r) FFinished then []
      else
        let found (r : fa) (rs : fa_set) : list fa :=
          let rs := fa_set_put rs r in
          match fa_increment r with
          | None => []
          | Some r => if reached n (snpos rs) then [] else fa_set_loop_sites f rfuel ffuel n is_new r rs
          end in
        if fa_state_eqb (st r) FIncomplete then
          let '(r1, rr) := fa_resume rfuel ffuel is_new r in
          fa_resume_sites rfuel ffuel is_new r ++
          match rr with
          | RsOk true => found (if fa_state_eqb (st r1) FFinished then r1 else set_st r1 FPositioned) rs
          | _ => []
          end
        else
          let '(r1, sr) := fa_search r in
          match sr with
          | SPanic _ => []
          | SFound true => found r1 rs
          | SFound false =>
              if snpos rs =? 0 then fa_set_loop_sites f rfuel ffuel n is_new r1 rs
              else if below n (snpos rs) then fa_set_loop_sites f rfuel ffuel n false r1 rs
              else []
          end
  end.

Definition fa_read_set_sites (fuel ffuel : nat) (n : option nat) (r : fa) (rs : fa_set) : list fa :=
  let go (r : fa) := fa_set_loop_sites fuel fuel ffuel n true r (mkFaSet (sbuf rs) (spositions rs) 0) in
  match st r with
  | FNew =>
      let '(r1, ir) := fa_init fuel ffuel r in
      match ir with IOk true => go (set_st r1 FPositioned) | _ => [] end
  | FFinished => []
  | FParsing => match fa_increment r with None => [] | Some r1 => go (set_st r1 FPositioned) end
  | FPositioned | FIncomplete => go r
  end.

(** ** the link to the log *)

Lemma fa_grow_link r : GrowLink (log r) (log (fst (fa_grow r))) [fa_site_event r].
Proof.
  exists [fa_site_event r]. unfold fa_grow, fa_site_event.
  destruct (polf r (polh r) (cap r)) as [n|]; [destruct (n <=? cap r)|]; cbn [fst]; fa_simpl; split; reflexivity.
Qed.

Lemma fa_make_room_log r r' g : fa_make_room r = (r', g) -> log r' = log r /\ cap r' = cap r /\ st r' = st r.
Proof.
  unfold fa_make_room. destruct ((spos r <? start r) || negb (all_geb (seqpos r) (start r)));
    intros H; inversion H; subst; fa_simpl; auto.
Qed.

Lemma fa_fill_link ffuel r r' fr : fa_fill ffuel r = (r', fr) -> GrowLink (log r) (log r') [].
Proof.
  intros H. destruct (fa_fill_reads _ _ _ _ H) as (added & L & Hr & _).
  eapply GrowLink_no_grow; [exact L|]. apply reads_no_grow; exact Hr.
Qed.

Lemma fa_search_log r r' sr : fa_search r = (r', sr) -> log r' = log r /\ cap r' = cap r.
Proof.
  intros H. destruct (fa_search_facts _ _ _ H) as (Hc & _).
  split; [apply (f_equal c_log Hc) | apply (f_equal c_cap Hc)].
Qed.

Lemma fa_increment_log r r' : fa_increment r = Some r' -> log r' = log r.
Proof. intros H. destruct (fa_increment_facts _ _ H) as (Hc & _). apply (f_equal c_log Hc). Qed.

Lemma fa_resume_link ffuel mk : forall fuel r r' res, fa_resume fuel ffuel mk r = (r', res) ->
  GrowLink (log r) (log r') (map fa_site_event (fa_resume_sites fuel ffuel mk r)).
Proof.
  induction fuel as [|f IH]; intros r r' res H; cbn [fa_resume fa_resume_sites] in *.
  { inversion H; subst. apply GrowLink_refl. }
  destruct (negb mk || (start r =? 0)).
  - pose proof (fa_grow_link r) as L1. destruct (fa_grow r) as [r1 g]. cbn [fst] in L1.
    rewrite map_app. cbn [map].
    destruct g as [|e|s]; try (inversion H; subst; exact L1).
    destruct (fa_fill ffuel r1) as [r2 fr] eqn:E2. pose proof (fa_fill_link _ _ _ _ E2) as L2.
    destruct fr as [n|k|]; try (inversion H; subst; apply (GrowLink_trans _ _ _ _ _ L1 L2)).
    destruct (fa_search r2) as [r3 sr] eqn:E3. destruct (fa_search_log _ _ _ E3) as [L3 _].
    assert (L13 : GrowLink (log r) (log r3) [fa_site_event r]).
    { rewrite L3. apply (GrowLink_trans _ _ _ _ _ L1 L2). }
    destruct sr as [[|]|s]; try (inversion H; subst; apply (GrowLink_trans_nil_r _ _ _ _ L13 (GrowLink_refl _))).
    apply (GrowLink_trans _ _ _ _ _ L13). apply (IH _ _ _ H).
  - destruct (fa_make_room r) as [r1 g] eqn:E1. destruct (fa_make_room_log _ _ _ E1) as (L1 & _).
    cbn [app].
    destruct g as [|e|s]; try (inversion H; subst; apply GrowLink_eq; exact L1).
    destruct (fa_fill ffuel r1) as [r2 fr] eqn:E2. pose proof (fa_fill_link _ _ _ _ E2) as L2. rewrite L1 in L2.
    destruct fr as [n|k|]; try (inversion H; subst; exact L2).
    destruct (fa_search r2) as [r3 sr] eqn:E3. destruct (fa_search_log _ _ _ E3) as [L3 _]. rewrite <- L3 in L2.
    destruct sr as [[|]|s]; try (inversion H; subst; exact L2).
    apply (GrowLink_trans_nil_l _ _ _ _ L2). apply (IH _ _ _ H).
Qed.

Lemma fa_first_byte_link ffuel : forall fuel r ln r' res, fa_first_byte fuel ffuel r ln = (r', res) ->
  GrowLink (log r) (log r') [].
Proof.
  induction fuel as [|f IH]; intros r ln r' res H; cbn [fa_first_byte] in H.
  { inversion H; subst. apply GrowLink_refl. }
  destruct (fa_fill ffuel r) as [r1 fr] eqn:E1. pose proof (fa_fill_link _ _ _ _ E1) as L1.
  destruct fr as [[|n]|k|]; try (inversion H; subst; exact L1).
  destruct (fb_scan (pieces (buf r1)) ln 0 0) as [[[l p] b]|[[l p] last]]; [inversion H; subst; exact L1|].
  apply IH in H. apply (GrowLink_trans_nil_l _ _ _ _ L1 H).
Qed.

Lemma fa_init_link fuel ffuel r r' res : fa_init fuel ffuel r = (r', res) -> GrowLink (log r) (log r') [].
Proof.
  unfold fa_init. intros H. destruct (fa_first_byte fuel ffuel r (pline r)) as [r1 fb] eqn:E1.
  pose proof (fa_first_byte_link _ _ _ _ _ _ E1) as L1.
  destruct fb as [ln pos b| |k|]; try (inversion H; subst; exact L1).
  destruct (b =? GT); inversion H; subst; exact L1.
Qed.

Lemma fa_next_tail_link fuel ffuel r r' o : fa_next_tail fuel ffuel r = (r', o) ->
  GrowLink (log r) (log r') (map fa_site_event (fa_next_tail_sites fuel ffuel r)).
Proof.
  unfold fa_next_tail, fa_next_tail_sites. intros H.
  destruct (if fa_state_eqb (st r) FIncomplete then (r, SFound true) else fa_search r) as [r1 sr] eqn:E1.
  assert (L1 : log r1 = log r).
  { destruct (fa_state_eqb (st r) FIncomplete); [inversion E1; reflexivity|apply (fa_search_log _ _ _ E1)]. }
  destruct sr as [b|s]; [|inversion H; subst; apply GrowLink_eq; exact L1].
  destruct (fa_state_eqb (st r1) FIncomplete); [|inversion H; subst; apply GrowLink_eq; exact L1].
  destruct (fa_resume fuel ffuel true r1) as [r2 rr] eqn:E2.
  pose proof (fa_resume_link _ _ _ _ _ _ E2) as L2. rewrite L1 in L2.
  destruct rr as [[|]|e|s|]; inversion H; subst; try exact L2.
  destruct (fa_state_eqb (st r2) FFinished); exact L2.
Qed.

Lemma fa_next_link fuel ffuel r r' o : fa_next fuel ffuel r = (r', o) ->
  GrowLink (log r) (log r') (map fa_site_event (fa_next_sites fuel ffuel r)).
Proof.
  unfold fa_next, fa_next_sites. intros H. destruct (st r).
  - destruct (fa_init fuel ffuel r) as [r1 ir] eqn:E1. pose proof (fa_init_link _ _ _ _ _ E1) as L1.
    destruct ir as [[|]|e|]; try (inversion H; subst; exact L1).
    apply (GrowLink_trans_nil_l _ _ _ _ L1). apply (fa_next_tail_link _ _ (set_st r1 FParsing) _ _ H).
  - destruct (fa_increment r) as [r1|] eqn:E1; [|inversion H; subst; apply GrowLink_refl].
    rewrite <- (fa_increment_log _ _ E1). apply (fa_next_tail_link _ _ _ _ _ H).
  - apply (fa_next_tail_link _ _ _ _ _ H).
  - apply (fa_next_tail_link _ _ (set_st r FParsing) _ _ H).
  - inversion H; subst. apply GrowLink_refl.
Qed.

Lemma fa_set_loop_link rfuel ffuel : forall fuel n is_new r rs r' rs' res,
  fa_set_loop fuel rfuel ffuel n is_new r rs = (r', rs', res) ->
  GrowLink (log r) (log r') (map fa_site_event (fa_set_loop_sites fuel rfuel ffuel n is_new r rs)).
Proof.
  induction fuel as [|f IH]; intros n is_new r rs r' rs' res H; cbn [fa_set_loop fa_set_loop_sites] in *.
  { inversion H; subst; apply GrowLink_refl. }
  destruct (fa_state_eqb (st r) FFinished); [inversion H; subst; apply GrowLink_refl|].
  assert (Hfound : forall is_new2 r2 rs2 g, GrowLink (log r) (log r2) g ->
     (let rs3 := fa_set_put rs2 r2 in
      match fa_increment r2 with
      | None => (r2, rs3, LPanic 3)
      | Some r4 => if reached n (snpos rs3) then (r4, rs3, LDone)
                   else fa_set_loop f rfuel ffuel n is_new2 r4 rs3
      end) = (r', rs', res) ->
     GrowLink (log r) (log r')
       (g ++ map fa_site_event
          (let rs3 := fa_set_put rs2 r2 in
           match fa_increment r2 with
           | None => []
           | Some r4 => if reached n (snpos rs3) then [] else fa_set_loop_sites f rfuel ffuel n is_new2 r4 rs3
           end))).
  { intros is_new2 r2 rs2 g L2 Hq. cbv zeta in *.
    destruct (fa_increment r2) as [r4|] eqn:Ei.
    2:{ inversion Hq; subst. cbn [map]. rewrite app_nil_r. exact L2. }
    rewrite <- (fa_increment_log _ _ Ei) in L2.
    destruct (reached n (snpos (fa_set_put rs2 r2))).
    { inversion Hq; subst. cbn [map]. rewrite app_nil_r. exact L2. }
    apply (GrowLink_trans _ _ _ _ _ L2). apply (IH _ _ _ _ _ _ _ Hq). }
  destruct (fa_state_eqb (st r) FIncomplete).
  - destruct (fa_resume rfuel ffuel is_new r) as [r1 rr] eqn:E1.
    pose proof (fa_resume_link _ _ _ _ _ _ E1) as L1. rewrite map_app.
    destruct rr as [[|]|e|s|]; try (inversion H; subst; cbn [map]; rewrite app_nil_r; exact L1).
    apply (Hfound is_new (if fa_state_eqb (st r1) FFinished then r1 else set_st r1 FPositioned) rs); [|exact H].
    destruct (fa_state_eqb (st r1) FFinished); exact L1.
  - destruct (fa_search r) as [r1 sr] eqn:E1. destruct (fa_search_log _ _ _ E1) as [L1 _].
    destruct sr as [[|]|s]; [| |inversion H; subst; apply GrowLink_eq; exact L1].
    + apply (Hfound is_new r1 rs []); [apply GrowLink_eq; exact L1|exact H].
    + destruct (snpos rs =? 0); [rewrite <- L1; apply (IH _ _ _ _ _ _ _ H)|].
      destruct (below n (snpos rs)); [rewrite <- L1; apply (IH _ _ _ _ _ _ _ H)|].
      inversion H; subst; apply GrowLink_eq; exact L1.
Qed.

Lemma fa_read_set_link fuel ffuel n r rs r' rs' o : fa_read_set fuel ffuel n r rs = (r', rs', o) ->
  GrowLink (log r) (log r') (map fa_site_event (fa_read_set_sites fuel ffuel n r rs)).
Proof.
  unfold fa_read_set, fa_read_set_sites. intros H.
  assert (Hgo : forall r0, GrowLink (log r) (log r0) [] ->
     fa_set_finish (fa_set_loop fuel fuel ffuel n true r0 (mkFaSet (sbuf rs) (spositions rs) 0)) = (r', rs', o) ->
     GrowLink (log r) (log r')
       (map fa_site_event (fa_set_loop_sites fuel fuel ffuel n true r0 (mkFaSet (sbuf rs) (spositions rs) 0)))).
  { intros r0 L0 Hq.
    destruct (fa_set_loop fuel fuel ffuel n true r0 (mkFaSet (sbuf rs) (spositions rs) 0)) as [[r1 rs1] lr] eqn:E.
    pose proof (fa_set_loop_link _ _ _ _ _ _ _ _ _ _ E) as L1.
    assert (r1 = r') by (unfold fa_set_finish in Hq; destruct lr; inversion Hq; reflexivity). subst r1.
    apply (GrowLink_trans_nil_l _ _ _ _ L0 L1). }
  destruct (st r).
  - destruct (fa_init fuel ffuel r) as [r1 ir] eqn:E1. pose proof (fa_init_link _ _ _ _ _ E1) as L1.
    destruct ir as [[|]|e|]; try (inversion H; subst; exact L1).
    apply (Hgo (set_st r1 FPositioned)); [exact L1|exact H].
  - destruct (fa_increment r) as [r1|] eqn:E1; [|inversion H; subst; apply GrowLink_refl].
    apply (Hgo (set_st r1 FPositioned)); [apply GrowLink_eq; apply (fa_increment_log _ _ E1)|exact H].
  - apply (Hgo r); [apply GrowLink_refl|exact H].
  - apply (Hgo r); [apply GrowLink_refl|exact H].
  - inversion H; subst. apply GrowLink_refl.
Qed.

(** ** the buffer never exceeds the capacity *)

Lemma fa_grow_fits r r' g : fa_grow r = (r', g) -> BufFits r -> BufFits r' /\ buf r' = buf r /\ st r' = st r /\ start r' = start r /\ (g <> GOk -> cap r' = cap r).
Proof.
  intros H Hf. destruct (fa_grow_run false _ _ _ H (no_ex' _)) as (_ & Hst & Hs & _ & _ & Hb & _ & _ & Hc & Hne).
  unfold BufFits in *. rewrite Hb. splits; auto. lia.
Qed.

Lemma fa_make_room_fits r r' g : fa_make_room r = (r', g) -> BufFits r -> BufFits r'.
Proof.
  intros H Hf. destruct (fa_make_room_run false _ _ _ H) as (_ & _ & Hc & Hl & _). unfold BufFits in *. lia.
Qed.

Lemma fa_fill_fits ffuel r r' fr : fa_fill ffuel r = (r', fr) -> BufFits r -> BufFits r'.
Proof.
  intros H Hf. destruct (fa_fill_run false _ _ _ _ H) as (_ & _ & _ & _ & _ & _ & _ & _ & _ & Hc). apply Hc. exact Hf.
Qed.

Lemma fa_search_fits r r' sr : fa_search r = (r', sr) -> BufFits r -> BufFits r'.
Proof.
  intros H Hf. destruct (fa_search_facts _ _ _ H) as (Hc & Hb & _). unfold BufFits in *.
  rewrite Hb, (f_equal c_cap Hc : cap r' = cap r). exact Hf.
Qed.

Lemma fa_increment_fits r r' : fa_increment r = Some r' -> BufFits r -> BufFits r'.
Proof.
  intros H Hf. destruct (fa_increment_facts _ _ H) as (Hc & Hb & _). unfold BufFits in *.
  rewrite Hb, (f_equal c_cap Hc : cap r' = cap r). exact Hf.
Qed.

(** one lemma for the resume loop: sites, capacity fit, and what the state
    looks like after a buffer-limit error *)
Lemma fa_resume_post ffuel mk : forall fuel r r' res, fa_resume fuel ffuel mk r = (r', res) ->
  BufFits r -> cap r <= length (buf r) -> st r = FIncomplete ->
  Forall (fun s => FullSite s /\ (mk = true -> start s = 0)) (fa_resume_sites fuel ffuel mk r) /\
  BufFits r' /\
  (res = RsErr FaBufferLimit -> st r' = FIncomplete /\ cap r' <= length (buf r')) /\
  res <> RsOk false /\ (forall l b, res <> RsErr (FaInvalidStart l b)) /\
  (forall k, res = RsErr (FaIo k) -> st r' = FFinished).
Proof.
  induction fuel as [|f IH]; intros r r' res H Hf Hfull Hst; cbn [fa_resume fa_resume_sites] in *.
  { inversion H; subst. splits; auto; discriminate. }
  destruct (negb mk || (start r =? 0)) eqn:Eg.
  - assert (Hsite : FullSite r /\ (mk = true -> start r = 0)).
    { split; [unfold FullSite, BufFits in *; lia|]. intros ->. cbn [negb orb] in Eg. apply Nat.eqb_eq. exact Eg. }
    destruct (fa_grow r) as [r1 g] eqn:E1.
    destruct (fa_grow_fits _ _ _ E1 Hf) as (Hf1 & Hb1 & Hst1 & Hs1 & Hne1).
    assert (Hgerr : forall e, g = GErr e -> e = FaBufferLimit).
    { intros e ->. unfold fa_grow in E1. destruct (polf r (polh r) (cap r)) as [n|]; [destruct (n <=? cap r)|];
        inversion E1; reflexivity. }
    destruct g as [|e|s].
    + destruct (fa_fill ffuel r1) as [r2 fr] eqn:E2. pose proof (fa_fill_fits _ _ _ _ E2 Hf1) as Hf2.
      destruct (fa_fill_run false _ _ _ _ E2) as (_ & _ & Hst2 & _).
      destruct fr as [n|k|];
        [|inversion H; subst; splits; try discriminate; [repeat constructor; apply Hsite|unfold BufFits; fa_simpl; cbn [length]; lia|reflexivity]
         |inversion H; subst; splits; auto; try discriminate; repeat constructor; apply Hsite].
      destruct (fa_search r2) as [r3 sr] eqn:E3. pose proof (fa_search_fits _ _ _ E3 Hf2) as Hf3.
      destruct (fa_search_facts _ _ _ E3) as (_ & _ & _ & _ & _ & _ & Hinc & _).
      destruct sr as [[|]|s]; try (inversion H; subst; splits; auto; try discriminate; repeat constructor; apply Hsite).
      destruct (Hinc eq_refl) as [Hst3 Hfull3].
      destruct (IH _ _ _ H Hf3 Hfull3 Hst3) as (S & F & L & N & N2 & N3). splits; auto.
      cbn [app]. constructor; [exact Hsite|exact S].
    + inversion H; subst. rewrite (Hgerr e eq_refl). splits; auto; try discriminate.
      * repeat constructor; apply Hsite.
      * intros _. split; [congruence|]. rewrite Hb1, (Hne1 ltac:(discriminate)). exact Hfull.
    + inversion H; subst. splits; auto; try discriminate. repeat constructor; apply Hsite.
  - destruct (fa_make_room r) as [r1 g] eqn:E1. pose proof (fa_make_room_fits _ _ _ E1 Hf) as Hf1.
    destruct (fa_make_room_run false _ _ _ E1) as (_ & Hst1 & _ & _ & _ & _ & Hne).
    cbn [app].
    destruct g as [|e|s]; [|exfalso; apply (Hne e); reflexivity|inversion H; subst; splits; auto; discriminate].
    destruct (fa_fill ffuel r1) as [r2 fr] eqn:E2. pose proof (fa_fill_fits _ _ _ _ E2 Hf1) as Hf2.
    destruct fr as [n|k|];
      [|inversion H; subst; splits; try discriminate; [constructor|unfold BufFits; fa_simpl; cbn [length]; lia|reflexivity]
       |inversion H; subst; splits; auto; discriminate].
    destruct (fa_search r2) as [r3 sr] eqn:E3. pose proof (fa_search_fits _ _ _ E3 Hf2) as Hf3.
    destruct (fa_search_facts _ _ _ E3) as (_ & _ & _ & _ & _ & _ & Hinc & _).
    destruct sr as [[|]|s]; try (inversion H; subst; splits; auto; discriminate).
    destruct (Hinc eq_refl) as [Hst3 Hfull3].
    apply (IH _ _ _ H Hf3 Hfull3 Hst3).
Qed.

Lemma fa_resume_fits ffuel mk : forall fuel r r' res, fa_resume fuel ffuel mk r = (r', res) ->
  BufFits r -> BufFits r'.
Proof.
  induction fuel as [|f IH]; intros r r' res H Hf; cbn [fa_resume] in H.
  { inversion H; subst. exact Hf. }
  destruct (if negb mk || (start r =? 0) then fa_grow r else fa_make_room r) as [r1 g] eqn:E1.
  assert (Hf1 : BufFits r1).
  { destruct (negb mk || (start r =? 0)); [apply (fa_grow_fits _ _ _ E1 Hf)|apply (fa_make_room_fits _ _ _ E1 Hf)]. }
  destruct g; try (inversion H; subst; exact Hf1).
  destruct (fa_fill ffuel r1) as [r2 fr] eqn:E2. pose proof (fa_fill_fits _ _ _ _ E2 Hf1) as Hf2.
  destruct fr; [|inversion H; subst; unfold BufFits; fa_simpl; cbn [length]; lia|inversion H; subst; exact Hf2].
  destruct (fa_search r2) as [r3 sr] eqn:E3. pose proof (fa_search_fits _ _ _ E3 Hf2) as Hf3.
  destruct sr as [[|]|s]; try (inversion H; subst; exact Hf3).
  apply (IH _ _ _ H Hf3).
Qed.

Lemma fa_first_byte_fits ffuel : forall fuel r ln r' res, fa_first_byte fuel ffuel r ln = (r', res) ->
  BufFits r -> BufFits r'.
Proof.
  induction fuel as [|f IH]; intros r ln r' res H Hf; cbn [fa_first_byte] in H.
  { inversion H; subst. exact Hf. }
  destruct (fa_fill ffuel r) as [r1 fr] eqn:E1. pose proof (fa_fill_fits _ _ _ _ E1 Hf) as Hf1.
  destruct fr as [[|n]|k|]; try (inversion H; subst; exact Hf1).
  destruct (fb_scan (pieces (buf r1)) ln 0 0) as [[[l p] b]|[[l p] last]]; [inversion H; subst; exact Hf1|].
  apply IH in H; [exact H|]. unfold BufFits in *. fa_simpl. rewrite skipn_length. lia.
Qed.

Lemma fa_init_fits fuel ffuel r r' res : fa_init fuel ffuel r = (r', res) -> BufFits r -> BufFits r'.
Proof.
  unfold fa_init. intros H Hf. destruct (fa_first_byte fuel ffuel r (pline r)) as [r1 fb] eqn:E1.
  pose proof (fa_first_byte_fits _ _ _ _ _ _ E1 Hf) as Hf1.
  destruct fb as [ln pos b| |k|]; try (inversion H; subst; exact Hf1).
  destruct (b =? GT); inversion H; subst; exact Hf1.
Qed.

(** outcomes after which the next call finds the reader in a regular state:
    everything except fuel exhaustion and panics (I/O errors are final or leave
    the reader [New], so they are regular too) *)
Definition fa_regular_out (o : fa_out) : Prop :=
  match o with OFuel | OPanic _ => False | _ => True end.

Lemma fa_next_tail_post fuel ffuel r r' o : fa_next_tail fuel ffuel r = (r', o) ->
  BufFits r -> FullInc r ->
  Forall GrowSite (fa_next_tail_sites fuel ffuel r) /\ BufFits r' /\ (fa_regular_out o -> FullInc r').
Proof.
  unfold fa_next_tail, fa_next_tail_sites. intros H Hf Hfull.
  destruct (if fa_state_eqb (st r) FIncomplete then (r, SFound true) else fa_search r) as [r1 sr] eqn:E1.
  assert (H1 : BufFits r1 /\ FullInc r1).
  { destruct (fa_state_eqb (st r) FIncomplete) eqn:Es.
    - inversion E1; subst. auto.
    - split; [apply (fa_search_fits _ _ _ E1 Hf)|].
      destruct (fa_search_facts _ _ _ E1) as (_ & _ & _ & _ & _ & _ & Hinc & Hno).
      intros Hs. destruct sr as [[|]|s]; try (apply Hinc; reflexivity);
        (rewrite (Hno ltac:(discriminate) Hs) in Es; discriminate). }
  destruct H1 as [Hf1 Hfull1].
  destruct sr as [b|s]; [|inversion H; subst; splits; auto; intros []].
  destruct (fa_state_eqb (st r1) FIncomplete) eqn:Es1.
  2:{ inversion H; subst. splits; auto. }
  assert (Hst1 : st r1 = FIncomplete) by (destruct (st r1); try discriminate; reflexivity).
  destruct (fa_resume fuel ffuel true r1) as [r2 rr] eqn:E2.
  destruct (fa_resume_post _ _ _ _ _ _ E2 Hf1 (Hfull1 Hst1) Hst1) as (S & F & L & N & N2 & N3).
  assert (S' : Forall GrowSite (fa_resume_sites fuel ffuel true r1)).
  { eapply Forall_impl; [|exact S]. intros s [Hfs Hs]. split; [apply Hs; reflexivity|exact Hfs]. }
  destruct rr as [[|]|e|s|]; inversion H; subst; splits; auto; try (intros []); try congruence.
  - destruct (fa_state_eqb (st r2) FFinished) eqn:E; exact F.
  - intros Hs. destruct (fa_state_eqb (st r2) FFinished) eqn:E; [|discriminate].
    rewrite Hs in E. discriminate.
  - destruct e as [k|l0 b0|].
    + intros Hs. rewrite (N3 k eq_refl) in Hs. discriminate.
    + exfalso. apply (N2 l0 b0). reflexivity.
    + intros _. apply (L eq_refl).
Qed.

Lemma FullInc_not_incomplete r : st r <> FIncomplete -> FullInc r.
Proof. intros H Hs. contradiction. Qed.

Lemma fa_next_post fuel ffuel r r' o : fa_next fuel ffuel r = (r', o) ->
  BufFits r -> FullInc r ->
  Forall GrowSite (fa_next_sites fuel ffuel r) /\ BufFits r' /\ (fa_regular_out o -> FullInc r').
Proof.
  unfold fa_next, fa_next_sites. intros H Hf Hfull. destruct (st r) eqn:Es.
  - destruct (fa_init fuel ffuel r) as [r1 ir] eqn:E1. pose proof (fa_init_fits _ _ _ _ _ E1 Hf) as Hf1.
    destruct (fa_init_run false _ _ _ _ _ E1) as [_ Hst1].
    assert (Hni : st r1 <> FIncomplete) by (destruct Hst1 as [->| ->]; [rewrite Es|]; discriminate).
    destruct ir as [[|]|e|]; try (inversion H; subst; splits; auto; intros _; apply FullInc_not_incomplete; exact Hni).
    apply (fa_next_tail_post _ _ (set_st r1 FParsing) _ _ H); [exact Hf1|]. apply FullInc_not_incomplete. discriminate.
  - destruct (fa_increment r) as [r1|] eqn:E1; [|inversion H; subst; splits; auto].
    destruct (fa_increment_facts _ _ E1) as (_ & _ & Hst & _).
    apply (fa_next_tail_post _ _ _ _ _ H); [apply (fa_increment_fits _ _ E1 Hf)|].
    apply FullInc_not_incomplete. rewrite Hst, Es. discriminate.
  - apply (fa_next_tail_post _ _ _ _ _ H Hf Hfull).
  - apply (fa_next_tail_post _ _ (set_st r FParsing) _ _ H); [exact Hf|]. apply FullInc_not_incomplete. discriminate.
  - inversion H; subst. splits; auto.
Qed.

Definition lres_regular (x : lres) : Prop :=
  match x with LFuel | LPanic _ => False | _ => True end.

Definition SetSite (n : option nat) (is_new : bool) (s : fa) : Prop :=
  FullSite s /\ (is_new = true -> n = None -> start s = 0).

Lemma fa_set_loop_post rfuel ffuel : forall fuel n is_new r rs r' rs' res,
  fa_set_loop fuel rfuel ffuel n is_new r rs = (r', rs', res) ->
  BufFits r -> FullInc r ->
  Forall (SetSite n is_new) (fa_set_loop_sites fuel rfuel ffuel n is_new r rs) /\
  BufFits r' /\ (lres_regular res -> FullInc r').
Proof.
  induction fuel as [|f IH]; intros n is_new r rs r' rs' res H Hf Hfull; cbn [fa_set_loop fa_set_loop_sites] in *.
  { inversion H; subst; splits; auto. }
  destruct (fa_state_eqb (st r) FFinished) eqn:Efin; [inversion H; subst; splits; auto|].
  assert (Hfound : forall r2 rs2, BufFits r2 -> st r2 <> FIncomplete ->
     (let rs3 := fa_set_put rs2 r2 in
      match fa_increment r2 with
      | None => (r2, rs3, LPanic 3)
      | Some r4 => if reached n (snpos rs3) then (r4, rs3, LDone)
                   else fa_set_loop f rfuel ffuel n is_new r4 rs3
      end) = (r', rs', res) ->
     Forall (SetSite n is_new)
          (let rs3 := fa_set_put rs2 r2 in
           match fa_increment r2 with
           | None => []
           | Some r4 => if reached n (snpos rs3) then [] else fa_set_loop_sites f rfuel ffuel n is_new r4 rs3
           end) /\ BufFits r' /\ (lres_regular res -> FullInc r')).
  { intros r2 rs2 Hf2 Hst2 Hq. cbv zeta in *.
    destruct (fa_increment r2) as [r4|] eqn:Ei; [|inversion Hq; subst; splits; auto; intros []].
    destruct (fa_increment_facts _ _ Ei) as (_ & _ & Hst & _).
    pose proof (fa_increment_fits _ _ Ei Hf2) as Hf4.
    assert (Hfull4 : FullInc r4) by (apply FullInc_not_incomplete; rewrite Hst; exact Hst2).
    destruct (reached n (snpos (fa_set_put rs2 r2))); [inversion Hq; subst; splits; auto|].
    apply (IH _ _ _ _ _ _ _ Hq Hf4 Hfull4). }
  destruct (fa_state_eqb (st r) FIncomplete) eqn:Einc.
  - assert (Hst : st r = FIncomplete) by (destruct (st r); try discriminate; reflexivity).
    destruct (fa_resume rfuel ffuel is_new r) as [r1 rr] eqn:E1.
    destruct (fa_resume_post _ _ _ _ _ _ E1 Hf (Hfull Hst) Hst) as (S & F & L & N & N2 & N3).
    assert (S' : Forall (SetSite n is_new) (fa_resume_sites rfuel ffuel is_new r)).
    { eapply Forall_impl; [|exact S]. intros s [Hfs Hs]. split; [exact Hfs|]. intros Hn _. apply Hs; exact Hn. }
    destruct rr as [[|]|e|s|].
    + destruct (Hfound (if fa_state_eqb (st r1) FFinished then r1 else set_st r1 FPositioned) rs) as (S2 & F2 & L2);
        [destruct (fa_state_eqb (st r1) FFinished); exact F| |exact H|].
      * destruct (fa_state_eqb (st r1) FFinished) eqn:E; [|discriminate].
        destruct (st r1); try discriminate E. discriminate.
      * splits; auto. apply Forall_app. split; assumption.
    + congruence.
    + inversion H; subst. rewrite app_nil_r. splits; auto. destruct e as [k|l0 b0|].
      * intros _ Hs. rewrite (N3 k eq_refl) in Hs. discriminate.
      * exfalso. apply (N2 l0 b0). reflexivity.
      * intros _ _. apply (L eq_refl).
    + inversion H; subst. rewrite app_nil_r. splits; auto. intros [].
    + inversion H; subst. rewrite app_nil_r. splits; auto. intros [].
  - destruct (fa_search r) as [r1 sr] eqn:E1. pose proof (fa_search_fits _ _ _ E1 Hf) as Hf1.
    destruct (fa_search_facts _ _ _ E1) as (_ & _ & _ & _ & _ & _ & Hinc & Hno).
    destruct sr as [[|]|s]; [| |inversion H; subst; splits; auto; intros []].
    + apply (Hfound r1 rs Hf1); [|exact H]. intros Hs. rewrite (Hno ltac:(discriminate) Hs) in Einc. discriminate.
    + assert (Hfull1 : FullInc r1) by (intros _; apply Hinc; reflexivity).
      destruct (snpos rs =? 0); [apply (IH _ _ _ _ _ _ _ H Hf1 Hfull1)|].
      destruct (below n (snpos rs)) eqn:Eb.
      * destruct (IH _ _ _ _ _ _ _ H Hf1 Hfull1) as (S & F & L). splits; auto.
        eapply Forall_impl; [|exact S]. intros s [Hfs _]. split; [exact Hfs|].
        intros _ Hn. rewrite Hn in Eb. discriminate.
      * inversion H; subst. splits; auto.
Qed.

Lemma fa_read_set_post fuel ffuel n r rs r' rs' o : fa_read_set fuel ffuel n r rs = (r', rs', o) ->
  BufFits r -> FullInc r ->
  Forall (SetSite n true) (fa_read_set_sites fuel ffuel n r rs) /\
  BufFits r' /\ (fa_regular_out o -> FullInc r').
Proof.
  unfold fa_read_set, fa_read_set_sites. intros H Hf Hfull.
  assert (Hgo : forall r0, BufFits r0 -> FullInc r0 ->
     fa_set_finish (fa_set_loop fuel fuel ffuel n true r0 (mkFaSet (sbuf rs) (spositions rs) 0)) = (r', rs', o) ->
     Forall (SetSite n true) (fa_set_loop_sites fuel fuel ffuel n true r0 (mkFaSet (sbuf rs) (spositions rs) 0)) /\
     BufFits r' /\ (fa_regular_out o -> FullInc r')).
  { intros r0 Hf0 Hfull0 Hq.
    destruct (fa_set_loop fuel fuel ffuel n true r0 (mkFaSet (sbuf rs) (spositions rs) 0)) as [[r1 rs1] lr] eqn:E.
    destruct (fa_set_loop_post _ _ _ _ _ _ _ _ _ _ E Hf0 Hfull0) as (S & F & L).
    unfold fa_set_finish in Hq. destruct lr as [|e|s| |]; inversion Hq; subst; splits; auto. }
  destruct (st r) eqn:Es.
  - destruct (fa_init fuel ffuel r) as [r1 ir] eqn:E1. pose proof (fa_init_fits _ _ _ _ _ E1 Hf) as Hf1.
    destruct (fa_init_run false _ _ _ _ _ E1) as [_ Hst1].
    assert (Hni : st r1 <> FIncomplete) by (destruct Hst1 as [->| ->]; [rewrite Es|]; discriminate).
    destruct ir as [[|]|e|]; try (inversion H; subst; splits; auto; intros _; apply FullInc_not_incomplete; exact Hni).
    apply (Hgo (set_st r1 FPositioned)); [exact Hf1| |exact H]. apply FullInc_not_incomplete. discriminate.
  - destruct (fa_increment r) as [r1|] eqn:E1; [|inversion H; subst; splits; auto].
    apply (Hgo (set_st r1 FPositioned)); [apply (fa_increment_fits _ _ E1 Hf)| |exact H].
    apply FullInc_not_incomplete. discriminate.
  - apply (Hgo r Hf Hfull H).
  - apply (Hgo r Hf Hfull H).
  - inversion H; subst. splits; auto.
Qed.

Lemma fa_seek_post ffuel r line byte_ r' o : fa_seek ffuel r line byte_ = (r', o) ->
  BufFits r -> FullInc r -> BufFits r' /\ FullInc r'.
Proof.
  unfold fa_seek. intros H Hf Hfull.
  destruct ((0 <=? Z.of_nat (start r) + (Z.of_nat byte_ - Z.of_nat (pbyte r)))%Z &&
            (Z.of_nat (start r) + (Z.of_nat byte_ - Z.of_nat (pbyte r)) <? Z.of_nat (length (buf r)))%Z && negb (fa_state_eqb (st r) FNew)).
  { inversion H; subst. split; [exact Hf|]. apply FullInc_not_incomplete. discriminate. }
  destruct (src_seek (src r) byte_) as [s' res] eqn:Es.
  destruct res as [k|]; [inversion H; subst; split; [exact Hf|exact Hfull]|].
  match type of H with (let '(r1, fr) := fa_fill ffuel ?R in _) = _ => set (r0 := R) in * end.
  destruct (fa_fill ffuel r0) as [r1 fr] eqn:E1.
  assert (Hf0 : BufFits r0) by (unfold BufFits, r0; fa_simpl; cbn [length]; lia).
  pose proof (fa_fill_fits _ _ _ _ E1 Hf0) as Hf1.
  destruct (fa_fill_run false _ _ _ _ E1) as (_ & _ & Hst & _).
  assert (Hn1 : st r1 <> FIncomplete) by (rewrite Hst; unfold r0; fa_simpl; discriminate).
  destruct fr; inversion H; subst;
    (split; [first [exact Hf1|unfold BufFits; fa_simpl; cbn [length]; lia]|apply FullInc_not_incomplete]); try exact Hn1.
  fa_simpl. discriminate.
Qed.

Lemma fa_set_policy_post r p : BufFits r -> FullInc r -> BufFits (fa_set_policy r p) /\ FullInc (fa_set_policy r p).
Proof. intros Hf Hfull. split; [exact Hf|exact Hfull]. Qed.

Lemma fa_new_inv c s p : BufFits (fa_new c s p) /\ FullInc (fa_new c s p).
Proof. split; [unfold BufFits; cbn; lia|apply FullInc_not_incomplete; discriminate]. Qed.

(** ** the theorems (FASTA) *)

(** [fa_resume] instrumented with the list of the states in which [fa_grow] is
    called (same style as [fq_resume_g] in FastqGrowP.v) *)
Fixpoint fa_resume_g (fuel ffuel : nat) (mk_room : bool) (r : fa) : fa * rres_b * list fa :=
  match fuel with
  | 0 => (r, RsFuel, [])
  | S f =>
      let g := negb mk_room || (start r =? 0) in
      let gs := if g then [r] else [] in
      let '(r1, gr) := if g then fa_grow r else fa_make_room r in
      match gr with
      | GErr e => (r1, RsErr e, gs)
      | GPanic s => (r1, RsPanic s, gs)
      | GOk =>
          let '(r2, fr) := fa_fill ffuel r1 in
          match fr with
          | FillErr k => (set_st (set_buf r2 []) FFinished, RsErr (FaIo k), gs)
          | FillFuel => (r2, RsFuel, gs)
          | FillOk _ =>
              let '(r3, sr) := fa_search r2 in
              match sr with
              | SPanic s => (r3, RsPanic s, gs)
              | SFound true => (r3, RsOk true, gs)
              | SFound false =>
                  let '(res, gs') := fa_resume_g f ffuel mk_room r3 in (res, gs ++ gs')
              end
          end
      end
  end.

(** the instrumentation changes nothing, and its list is [fa_resume_sites] *)
Lemma fa_resume_g_erase : forall fuel ffuel mk r,
  fa_resume_g fuel ffuel mk r = (fa_resume fuel ffuel mk r, fa_resume_sites fuel ffuel mk r).
Proof.
  induction fuel as [|f IH]; intros ffuel mk r; [reflexivity|].
  cbn [fa_resume_g fa_resume fa_resume_sites]. cbv zeta.
  destruct (negb mk || (start r =? 0)).
  - destruct (fa_grow r) as [r1 gr]. destruct gr; try (rewrite app_nil_r; reflexivity).
    destruct (fa_fill ffuel r1) as [r2 fr]. destruct fr; try (rewrite app_nil_r; reflexivity).
    destruct (fa_search r2) as [r3 sr]. destruct sr as [[|]|]; try (rewrite app_nil_r; reflexivity).
    rewrite IH. reflexivity.
  - destruct (fa_make_room r) as [r1 gr]. destruct gr; try reflexivity.
    destruct (fa_fill ffuel r1) as [r2 fr]. destruct fr; try reflexivity.
    destruct (fa_search r2) as [r3 sr]. destruct sr as [[|]|]; try reflexivity.
    rewrite IH. reflexivity.
Qed.

(** Inside [resume_incomplete_search] the FASTA reader consults the policy only
    with a completely full buffer, and only with the record at the start of the
    buffer unless making room is forbidden.  Every source (faulty or not), every
    policy, every state entered with a full buffer that fits its capacity. *)
Theorem fa_grow_only_when_full fuel ffuel mk r :
  length (buf r) = cap r -> st r = FIncomplete ->
  Forall (fun g => length (buf g) = cap g /\ (mk = false \/ start g = 0))
         (snd (fa_resume_g fuel ffuel mk r)).
Proof.
  intros Hfull Hst. rewrite fa_resume_g_erase. cbn [snd].
  destruct (fa_resume fuel ffuel mk r) as [r' res] eqn:E.
  destruct (fa_resume_post _ _ _ _ _ _ E) as (S & _); [unfold BufFits; lia|lia|exact Hst|].
  eapply Forall_impl; [|exact S]. intros s [Hf Hs]. split; [exact Hf|].
  destruct mk; [right; apply Hs; reflexivity|left; reflexivity].
Qed.

(** The [EvGrow] events a call logs are exactly the consultations made in the
    listed states, in order; and every listed state needs the growth: the
    record starts at offset 0 and the buffer is completely full. *)
Definition GrowsWhenNeeded {S : Type} (site_event : S -> ev) (P : S -> Prop)
           (old new : list ev) (sites : list S) : Prop :=
  filter is_grow (new_events new old) = rev (map site_event sites) /\ Forall P sites.

Theorem fa_next_grows_only_when_needed fuel ffuel r r' o : fa_next fuel ffuel r = (r', o) ->
  BufFits r -> FullInc r ->
  GrowsWhenNeeded fa_site_event GrowSite (log r) (log r') (fa_next_sites fuel ffuel r).
Proof.
  intros H Hf Hfull. split.
  - apply GrowLink_final. apply (fa_next_link _ _ _ _ _ H).
  - apply (fa_next_post _ _ _ _ _ H Hf Hfull).
Qed.

(** record sets: always with a full buffer; with the record at offset 0 for
    plain record sets ([n = None]); exact-count batches may grow instead of
    making room once the batch has records (by design of the code) *)
Theorem fa_read_set_grows_only_when_needed fuel ffuel n r rs r' rs' o :
  fa_read_set fuel ffuel n r rs = (r', rs', o) -> BufFits r -> FullInc r ->
  GrowsWhenNeeded fa_site_event (fun s => length (buf s) = cap s /\ (n = None -> start s = 0))
                  (log r) (log r') (fa_read_set_sites fuel ffuel n r rs).
Proof.
  intros H Hf Hfull. split.
  - apply GrowLink_final. apply (fa_read_set_link _ _ _ _ _ _ _ _ H).
  - destruct (fa_read_set_post _ _ _ _ _ _ _ _ H Hf Hfull) as (S & _).
    eapply Forall_impl; [|exact S]. intros s [Hfs Hs]. split; [exact Hfs|]. intros Hn. apply Hs; auto.
Qed.

(** the two state conditions hold initially and are kept by every operation
    (the second one unless the call ended in fuel exhaustion or a panic) *)
Theorem fa_invariants_preserved :
  (forall c s p, BufFits (fa_new c s p) /\ FullInc (fa_new c s p)) /\
  (forall fuel ffuel r r' o, fa_next fuel ffuel r = (r', o) -> BufFits r -> FullInc r ->
     BufFits r' /\ (fa_regular_out o -> FullInc r')) /\
  (forall fuel ffuel n r rs r' rs' o, fa_read_set fuel ffuel n r rs = (r', rs', o) -> BufFits r -> FullInc r ->
     BufFits r' /\ (fa_regular_out o -> FullInc r')) /\
  (forall ffuel r line byte_ r' o, fa_seek ffuel r line byte_ = (r', o) -> BufFits r -> FullInc r ->
     BufFits r' /\ FullInc r') /\
  (forall r p, BufFits r -> FullInc r -> BufFits (fa_set_policy r p) /\ FullInc (fa_set_policy r p)).
Proof.
  splits.
  - apply fa_new_inv.
  - intros fuel ffuel r r' o H Hf Hfull. apply (fa_next_post _ _ _ _ _ H Hf Hfull).
  - intros fuel ffuel n r rs r' rs' o H Hf Hfull. apply (fa_read_set_post _ _ _ _ _ _ _ _ H Hf Hfull).
  - intros ffuel r line byte_ r' o H Hf Hfull. apply (fa_seek_post _ _ _ _ _ _ H Hf Hfull).
  - intros r p. apply fa_set_policy_post.
Qed.

(** [FullInc] is kept by every call except one that runs out of fuel (or
    panics, which sane states never do: SaneP.v).  Since an I/O error while
    refilling is final, the former counter-example (a second consultation of the
    policy after an I/O error inside [resume_incomplete_search]) is gone.  The
    fuel exception is real: refill fuel 0 in the second call stops the loop
    right after it made room, leaving [Incomplete] with a buffer that has room. *)
Lemma fa_FullInc_lost_on_fuel_exhaustion :
  exists r, BufFits r /\ FullInc r /\
    let r1 := fst (fa_next 20 20 r) in
    (exists rc, snd (fa_next 20 20 r) = ORec rc) /\ FullInc r1 /\
    snd (fa_next 20 0 r1) = OFuel /\
    let r2 := fst (fa_next 20 0 r1) in
    st r2 = FIncomplete /\ length (buf r2) < cap r2.
Proof.
  exists (fa_new 7 (mkSource [62;97;10;65;67;10;62;98;10;71;71;71;71;10] 0 [] []) pol_std).
  split; [unfold BufFits; cbn; lia|]. split; [intros H; discriminate H|].
  cbv zeta. split; [vm_compute; eexists; reflexivity|]. split; [intros H; vm_compute in H; discriminate H|].
  vm_compute. repeat split. lia.
Qed.
