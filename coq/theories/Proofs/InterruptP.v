(** C14, "an interrupted read is retried and never surfaces or alters any
    result", at the level of the readers: running any entry point on the source
    whose read script has the [RInterrupt] items removed, from the corresponding
    state, gives the SAME outcome and the corresponding state -- for every state,
    policy, capacity, input and fault script (read and seek failures included),
    given the refill fuel that always suffices.  This file: FASTA. *)
From SeqIO Require Import Model.Base Model.Fasta Proofs.TraceP Proofs.FaultP Proofs.GrowP.

(** the same reader over the interrupt-free source; the log without the interrupted reads *)
Definition fa_strip (r : fa) : fa := set_log (set_src r (strip_src (src r))) (strip_ev (log r)).

(** refill fuel that suffices for the remaining read script *)
Definition FuelOk (ffuel : nat) (r : fa) : Prop := length (s_rs (src r)) + 2 <= ffuel.

Lemma fa_strip_new c s p : fa_strip (fa_new c s p) = fa_new c (strip_src s) p.
Proof. reflexivity. Qed.

Lemma strip_ev_app a b : strip_ev (a ++ b) = strip_ev a ++ strip_ev b.
Proof. apply filter_app. Qed.

Lemma fill_buf_script_len fuel : forall buf cap s lg nr b s' lg' res,
  fill_buf fuel buf cap s lg nr = (b, s', lg', res) -> length (s_rs s') <= length (s_rs s).
Proof.
  induction fuel as [|f IH]; intros buf cap s lg nr b s' lg' res H; cbn [fill_buf] in H.
  { inversion H; subst. lia. }
  destruct (length buf <? cap); [|inversion H; subst; lia].
  unfold src_read in H.
  destruct (s_rs s) as [|[m| |k] rs] eqn:Ers; cbv beta iota zeta in H.
  - destruct (Nat.min (cap - length buf) (src_remaining s)) as [|n].
    + inversion H; subst. cbn [s_rs length]. lia.
    + apply IH in H. cbn [s_rs length] in H. lia.
  - destruct (Nat.min (S m) (Nat.min (cap - length buf) (src_remaining s))) as [|n].
    + inversion H; subst. cbn [s_rs length]. lia.
    + apply IH in H. cbn [s_rs length] in *. lia.
  - apply IH in H. cbn [s_rs length] in *. lia.
  - inversion H; subst. cbn [s_rs length]. lia.
Qed.

Lemma fa_fill_strip ffuel r : FuelOk ffuel r ->
  fa_fill ffuel (fa_strip r) = (fa_strip (fst (fa_fill ffuel r)), snd (fa_fill ffuel r)) /\
  FuelOk ffuel (fst (fa_fill ffuel r)).
Proof.
  intros Hf. unfold fa_fill, fa_strip. fa_simpl.
  destruct (fill_buf ffuel (buf r) (cap r) (src r) (log r) 0) as [[[b s] lg] res] eqn:E.
  pose proof (fill_buf_enough_fuel ffuel (buf r) (cap r) (src r) (log r) 0 Hf) as Hne. rewrite E in Hne. cbn [snd] in Hne.
  rewrite (fill_buf_strip _ ffuel _ _ _ _ (strip_ev (log r)) _ _ _ _ _ E Hne (le_n _)).
  destruct (fill_buf_trace _ _ _ _ _ _ _ _ _ _ E) as (added & -> & _).
  rewrite new_events_app. cbn [fst snd]. fa_simpl. rewrite strip_ev_app. split; [reflexivity|].
  unfold FuelOk in *. fa_simpl. pose proof (fill_buf_script_len _ _ _ _ _ _ _ _ _ _ E). lia.
Qed.

(** the functions that do not touch the source *)
Lemma fa_search_strip r : fa_search (fa_strip r) = (fa_strip (fst (fa_search r)), snd (fa_search r)).
Proof.
  unfold fa_search, fa_strip. fa_simpl.
  destruct (length (buf r) <? spos r); [reflexivity|].
  destruct (fa_scan (skipn (spos r) (buf r)) (spos r) (seqpos r)) as [[found sp] sq].
  destruct found; [reflexivity|]. fa_simpl. destruct (length (buf r) <? cap r); reflexivity.
Qed.

Lemma fa_search_src r : src (fst (fa_search r)) = src r.
Proof.
  unfold fa_search. destruct (length (buf r) <? spos r); [reflexivity|].
  destruct (fa_scan (skipn (spos r) (buf r)) (spos r) (seqpos r)) as [[found sp] sq].
  destruct found; [reflexivity|]. fa_simpl. destruct (length (buf r) <? cap r); reflexivity.
Qed.

Lemma fa_grow_strip r : fa_grow (fa_strip r) = (fa_strip (fst (fa_grow r)), snd (fa_grow r)) /\
  src (fst (fa_grow r)) = src r.
Proof.
  unfold fa_grow, fa_strip. fa_simpl.
  destruct (polf r (polh r) (cap r)) as [n|]; [destruct (n <=? cap r)|]; split; reflexivity.
Qed.

Lemma fa_make_room_strip r : fa_make_room (fa_strip r) = (fa_strip (fst (fa_make_room r)), snd (fa_make_room r)) /\
  src (fst (fa_make_room r)) = src r.
Proof.
  unfold fa_make_room, fa_strip. fa_simpl.
  destruct ((spos r <? start r) || negb (all_geb (seqpos r) (start r))); split; reflexivity.
Qed.

Lemma fa_increment_strip r : fa_increment (fa_strip r) = option_map fa_strip (fa_increment r) /\
  (forall r', fa_increment r = Some r' -> src r' = src r).
Proof.
  unfold fa_increment, fa_strip. fa_simpl. destruct (spos r <? start r); split; try reflexivity; try discriminate.
  intros r' H. inversion H; subst. reflexivity.
Qed.

Lemma FuelOk_src ffuel r r' : src r' = src r -> FuelOk ffuel r -> FuelOk ffuel r'.
Proof. unfold FuelOk. intros ->. auto. Qed.

Lemma fa_resume_strip ffuel mk : forall fuel r, FuelOk ffuel r ->
  fa_resume fuel ffuel mk (fa_strip r) = (fa_strip (fst (fa_resume fuel ffuel mk r)), snd (fa_resume fuel ffuel mk r)) /\
  FuelOk ffuel (fst (fa_resume fuel ffuel mk r)).
Proof.
  induction fuel as [|f IH]; intros r Hf; cbn [fa_resume]; [split; [reflexivity|exact Hf]|].
  change (start (fa_strip r)) with (start r).
  assert (H1 : (if negb mk || (start r =? 0) then fa_grow (fa_strip r) else fa_make_room (fa_strip r)) =
               (fa_strip (fst (if negb mk || (start r =? 0) then fa_grow r else fa_make_room r)),
                snd (if negb mk || (start r =? 0) then fa_grow r else fa_make_room r)) /\
               src (fst (if negb mk || (start r =? 0) then fa_grow r else fa_make_room r)) = src r).
  { destruct (negb mk || (start r =? 0)); [apply fa_grow_strip|apply fa_make_room_strip]. }
  destruct H1 as [H1 Hs1]. rewrite H1.
  destruct (if negb mk || (start r =? 0) then fa_grow r else fa_make_room r) as [r1 g]. cbn [fst snd] in *.
  pose proof (FuelOk_src _ _ _ Hs1 Hf) as Hf1.
  destruct g; try (split; [reflexivity|exact Hf1]).
  destruct (fa_fill_strip ffuel r1 Hf1) as [H2 Hf2]. rewrite H2.
  destruct (fa_fill ffuel r1) as [r2 fr]. cbn [fst snd] in *.
  destruct fr; try (split; [reflexivity|exact Hf2]).
  rewrite fa_search_strip. pose proof (fa_search_src r2) as Hs3.
  destruct (fa_search r2) as [r3 sr]. cbn [fst snd] in *.
  pose proof (FuelOk_src _ _ _ Hs3 Hf2) as Hf3.
  destruct sr as [[|]|s]; try (split; [reflexivity|exact Hf3]).
  apply IH. exact Hf3.
Qed.

Lemma fa_first_byte_strip ffuel : forall fuel r ln, FuelOk ffuel r ->
  fa_first_byte fuel ffuel (fa_strip r) ln =
    (fa_strip (fst (fa_first_byte fuel ffuel r ln)), snd (fa_first_byte fuel ffuel r ln)) /\
  FuelOk ffuel (fst (fa_first_byte fuel ffuel r ln)).
Proof.
  induction fuel as [|f IH]; intros r ln Hf; cbn [fa_first_byte]; [split; [reflexivity|exact Hf]|].
  destruct (fa_fill_strip ffuel r Hf) as [H1 Hf1]. rewrite H1.
  destruct (fa_fill ffuel r) as [r1 fr]. cbn [fst snd] in *.
  destruct fr as [[|n]|k|]; try (split; [reflexivity|exact Hf1]).
  change (buf (fa_strip r1)) with (buf r1).
  destruct (fb_scan (pieces (buf r1)) ln 0 0) as [[[l p] b]|[[l p] last]]; [split; [reflexivity|exact Hf1]|].
  change (pbyte (fa_strip r1)) with (pbyte r1).
  apply (IH (set_pline (set_pbyte (set_buf r1 (skipn (p - 1 - last) (buf r1))) (pbyte r1 + (p - 1 - last))) (l - 1)) (l - 1)).
  exact Hf1.
Qed.

Lemma fa_init_strip fuel ffuel r : FuelOk ffuel r ->
  fa_init fuel ffuel (fa_strip r) = (fa_strip (fst (fa_init fuel ffuel r)), snd (fa_init fuel ffuel r)) /\
  FuelOk ffuel (fst (fa_init fuel ffuel r)).
Proof.
  intros Hf. unfold fa_init. change (pline (fa_strip r)) with (pline r).
  destruct (fa_first_byte_strip ffuel fuel r (pline r) Hf) as [H1 Hf1]. rewrite H1.
  destruct (fa_first_byte fuel ffuel r (pline r)) as [r1 fb]. cbn [fst snd] in *.
  destruct fb as [ln pos b| |k|]; try (split; [reflexivity|exact Hf1]).
  destruct (b =? GT); split; try reflexivity; exact Hf1.
Qed.

Lemma fa_next_tail_strip fuel ffuel r : FuelOk ffuel r ->
  fa_next_tail fuel ffuel (fa_strip r) = (fa_strip (fst (fa_next_tail fuel ffuel r)), snd (fa_next_tail fuel ffuel r)) /\
  FuelOk ffuel (fst (fa_next_tail fuel ffuel r)).
Proof.
  intros Hf. unfold fa_next_tail. change (st (fa_strip r)) with (st r).
  assert (H1 : (if fa_state_eqb (st r) FIncomplete then (fa_strip r, SFound true) else fa_search (fa_strip r)) =
               (fa_strip (fst (if fa_state_eqb (st r) FIncomplete then (r, SFound true) else fa_search r)),
                snd (if fa_state_eqb (st r) FIncomplete then (r, SFound true) else fa_search r)) /\
               src (fst (if fa_state_eqb (st r) FIncomplete then (r, SFound true) else fa_search r)) = src r).
  { destruct (fa_state_eqb (st r) FIncomplete); [split; reflexivity|]. split; [apply fa_search_strip|apply fa_search_src]. }
  destruct H1 as [H1 Hs1]. rewrite H1.
  destruct (if fa_state_eqb (st r) FIncomplete then (r, SFound true) else fa_search r) as [r1 sr]. cbn [fst snd] in *.
  pose proof (FuelOk_src _ _ _ Hs1 Hf) as Hf1.
  destruct sr as [b|s]; [|split; [reflexivity|exact Hf1]].
  change (st (fa_strip r1)) with (st r1).
  destruct (fa_state_eqb (st r1) FIncomplete); [|split; [reflexivity|exact Hf1]].
  destruct (fa_resume_strip ffuel true fuel r1 Hf1) as [H2 Hf2]. rewrite H2.
  destruct (fa_resume fuel ffuel true r1) as [r2 rr]. cbn [fst snd] in *.
  destruct rr as [[|]|e|s|]; try (split; [reflexivity|exact Hf2]).
  change (st (fa_strip r2)) with (st r2).
  destruct (fa_state_eqb (st r2) FFinished); split; try reflexivity; exact Hf2.
Qed.

Theorem fa_next_strip fuel ffuel r : FuelOk ffuel r ->
  fa_next fuel ffuel (fa_strip r) = (fa_strip (fst (fa_next fuel ffuel r)), snd (fa_next fuel ffuel r)) /\
  FuelOk ffuel (fst (fa_next fuel ffuel r)).
Proof.
  intros Hf. unfold fa_next. change (st (fa_strip r)) with (st r). destruct (st r).
  - destruct (fa_init_strip fuel ffuel r Hf) as [H1 Hf1]. rewrite H1.
    destruct (fa_init fuel ffuel r) as [r1 ir]. cbn [fst snd] in *.
    destruct ir as [[|]|e|]; try (split; [reflexivity|exact Hf1]).
    apply (fa_next_tail_strip fuel ffuel (set_st r1 FParsing)). exact Hf1.
  - destruct (fa_increment_strip r) as [H1 Hs1]. rewrite H1.
    destruct (fa_increment r) as [r1|]; cbn [option_map]; [|split; [reflexivity|exact Hf]].
    apply fa_next_tail_strip. apply (FuelOk_src _ _ _ (Hs1 _ eq_refl) Hf).
  - apply fa_next_tail_strip. exact Hf.
  - apply (fa_next_tail_strip fuel ffuel (set_st r FParsing)). exact Hf.
  - split; [reflexivity|exact Hf].
Qed.

Lemma fa_set_loop_strip rfuel ffuel : forall fuel n is_new r rs, FuelOk ffuel r ->
  let x := fa_set_loop fuel rfuel ffuel n is_new r rs in
  fa_set_loop fuel rfuel ffuel n is_new (fa_strip r) rs = (fa_strip (fst (fst x)), snd (fst x), snd x) /\
  FuelOk ffuel (fst (fst x)).
Proof.
  induction fuel as [|f IH]; intros n is_new r rs Hf; cbv zeta; cbn [fa_set_loop]; [split; [reflexivity|exact Hf]|].
  change (st (fa_strip r)) with (st r).
  destruct (fa_state_eqb (st r) FFinished); [split; [reflexivity|exact Hf]|].
  (* the continuation after a complete record *)
  assert (Hfound : forall r2 rs2, FuelOk ffuel r2 ->
    let y := (let rs3 := fa_set_put rs2 r2 in
              match fa_increment r2 with
              | None => (r2, rs3, LPanic 3)
              | Some r4 => if reached n (snpos rs3) then (r4, rs3, LDone)
                           else fa_set_loop f rfuel ffuel n is_new r4 rs3
              end) in
    (let rs3 := fa_set_put rs2 (fa_strip r2) in
     match fa_increment (fa_strip r2) with
     | None => (fa_strip r2, rs3, LPanic 3)
     | Some r4 => if reached n (snpos rs3) then (r4, rs3, LDone)
                  else fa_set_loop f rfuel ffuel n is_new r4 rs3
     end) = (fa_strip (fst (fst y)), snd (fst y), snd y) /\ FuelOk ffuel (fst (fst y))).
  { intros r2 rs2 Hf2. cbv zeta. change (fa_set_put rs2 (fa_strip r2)) with (fa_set_put rs2 r2).
    destruct (fa_increment_strip r2) as [H1 Hs1]. rewrite H1.
    destruct (fa_increment r2) as [r4|]; cbn [option_map]; [|split; [reflexivity|exact Hf2]].
    pose proof (FuelOk_src _ _ _ (Hs1 _ eq_refl) Hf2) as Hf4.
    destruct (reached n (snpos (fa_set_put rs2 r2))); [split; [reflexivity|exact Hf4]|].
    apply (IH n is_new r4 (fa_set_put rs2 r2) Hf4). }
  destruct (fa_state_eqb (st r) FIncomplete).
  - destruct (fa_resume_strip ffuel is_new rfuel r Hf) as [H1 Hf1]. rewrite H1.
    destruct (fa_resume rfuel ffuel is_new r) as [r1 rr]. cbn [fst snd] in *.
    destruct rr as [[|]|e|s|]; try (split; [reflexivity|exact Hf1]).
    change (st (fa_strip r1)) with (st r1).
    destruct (fa_state_eqb (st r1) FFinished).
    + apply (Hfound r1 rs Hf1).
    + apply (Hfound (set_st r1 FPositioned) rs Hf1).
  - rewrite fa_search_strip. pose proof (fa_search_src r) as Hs1.
    destruct (fa_search r) as [r1 sr]. cbn [fst snd] in *.
    pose proof (FuelOk_src _ _ _ Hs1 Hf) as Hf1.
    destruct sr as [[|]|s]; [| |split; [reflexivity|exact Hf1]].
    + apply (Hfound r1 rs Hf1).
    + destruct (snpos rs =? 0); [apply (IH n is_new r1 rs Hf1)|].
      destruct (below n (snpos rs)); [apply (IH n false r1 rs Hf1)|].
      split; [reflexivity|exact Hf1].
Qed.

Theorem fa_read_set_strip fuel ffuel n r rs : FuelOk ffuel r ->
  let x := fa_read_set fuel ffuel n r rs in
  fa_read_set fuel ffuel n (fa_strip r) rs = (fa_strip (fst (fst x)), snd (fst x), snd x) /\
  FuelOk ffuel (fst (fst x)).
Proof.
  intros Hf. cbv zeta. unfold fa_read_set. change (st (fa_strip r)) with (st r).
  assert (Hgo : forall r0, FuelOk ffuel r0 ->
    let y := fa_set_finish (fa_set_loop fuel fuel ffuel n true r0 (mkFaSet (sbuf rs) (spositions rs) 0)) in
    fa_set_finish (fa_set_loop fuel fuel ffuel n true (fa_strip r0) (mkFaSet (sbuf rs) (spositions rs) 0)) =
      (fa_strip (fst (fst y)), snd (fst y), snd y) /\ FuelOk ffuel (fst (fst y))).
  { intros r0 Hf0. cbv zeta.
    destruct (fa_set_loop_strip fuel ffuel fuel n true r0 (mkFaSet (sbuf rs) (spositions rs) 0) Hf0) as [H1 Hf1].
    cbv zeta in H1, Hf1. rewrite H1.
    destruct (fa_set_loop fuel fuel ffuel n true r0 (mkFaSet (sbuf rs) (spositions rs) 0)) as [[r1 rs1] lr].
    cbn [fst snd] in *. unfold fa_set_finish. destruct lr; split; try reflexivity; exact Hf1. }
  destruct (st r).
  - destruct (fa_init_strip fuel ffuel r Hf) as [H1 Hf1]. rewrite H1.
    destruct (fa_init fuel ffuel r) as [r1 ir]. cbn [fst snd] in *.
    destruct ir as [[|]|e|]; try (split; [reflexivity|exact Hf1]).
    apply (Hgo (set_st r1 FPositioned)). exact Hf1.
  - destruct (fa_increment_strip r) as [H1 Hs1]. rewrite H1.
    destruct (fa_increment r) as [r1|]; cbn [option_map]; [|split; [reflexivity|exact Hf]].
    apply (Hgo (set_st r1 FPositioned)). apply (FuelOk_src _ r _ (Hs1 _ eq_refl) Hf).
  - apply (Hgo r Hf).
  - apply (Hgo r Hf).
  - split; [reflexivity|exact Hf].
Qed.

Lemma src_seek_strip s p :
  src_seek (strip_src s) p = (strip_src (fst (src_seek s p)), snd (src_seek s p)) /\
  s_rs (fst (src_seek s p)) = s_rs s.
Proof. unfold src_seek, strip_src. cbn [s_ss s_data s_pos s_rs]. destruct (s_ss s) as [|[|k] ss]; split; reflexivity. Qed.

Theorem fa_seek_strip ffuel r line byte_ : FuelOk ffuel r ->
  fa_seek ffuel (fa_strip r) line byte_ =
    (fa_strip (fst (fa_seek ffuel r line byte_)), snd (fa_seek ffuel r line byte_)) /\
  FuelOk ffuel (fst (fa_seek ffuel r line byte_)).
Proof.
  intros Hf. unfold fa_seek.
  change (pbyte (fa_strip r)) with (pbyte r). change (start (fa_strip r)) with (start r).
  change (buf (fa_strip r)) with (buf r). change (st (fa_strip r)) with (st r).
  destruct ((0 <=? Z.of_nat (start r) + (Z.of_nat byte_ - Z.of_nat (pbyte r)))%Z &&
            (Z.of_nat (start r) + (Z.of_nat byte_ - Z.of_nat (pbyte r)) <? Z.of_nat (length (buf r)))%Z && negb (fa_state_eqb (st r) FNew)).
  { split; [reflexivity|exact Hf]. }
  change (src (fa_strip r)) with (strip_src (src r)).
  destruct (src_seek_strip (src r) byte_) as [H1 Hrs]. rewrite H1.
  destruct (src_seek (src r) byte_) as [s' res]. cbn [fst snd] in *.
  destruct res as [k|].
  { split; [reflexivity|]. unfold FuelOk in *. cbn [fst snd]. fa_simpl. rewrite Hrs. exact Hf. }
  match goal with |- context [fa_fill ffuel ?R] =>
    match R with context [fa_strip] => fail 1 | _ => set (r0 := R) end end.
  assert (Hf0 : FuelOk ffuel r0) by (unfold FuelOk, r0 in *; fa_simpl; rewrite Hrs; exact Hf).
  destruct (fa_fill_strip ffuel r0 Hf0) as [H2 Hf2].
  change (set_seqpos (set_start (set_spos (set_st (set_pbyte (set_pline (set_buf
            (set_log (set_src (fa_strip r) (strip_src s')) (EvSeek byte_ None :: log (fa_strip r))) []) line) byte_)
            FPositioned) 0) 0) []) with (fa_strip r0).
  rewrite H2. destruct (fa_fill ffuel r0) as [r1 fr]. cbn [fst snd] in *.
  destruct fr; split; try reflexivity; exact Hf2.
Qed.
