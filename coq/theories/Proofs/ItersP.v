(** C20 for the record-set iterators and the owned-record iterators (Model/Iters.v):
    what they yield, that the end is sticky, that the size hint brackets. *)
From SeqIO Require Import Model.Base Model.Fasta Model.Fastq Model.Views Model.Iters
     Spec.FastaSpec Spec.FastqSpec
     Proofs.SeqLinesP Proofs.TraceP Proofs.FaTraceP Proofs.FqTraceP Proofs.FinalErrP
     Proofs.Window Proofs.FastaInv Proofs.FastqInv Proofs.FastaNextP Proofs.FastaTopP Proofs.FastqNextP Proofs.AllocSetP.

(* ------------------------------------------------------------------ *)
(** * list helpers *)

Lemma it_firstn_repeat {A} (x : A) : forall k n, k <= n -> firstn k (repeat x n) = repeat x k.
Proof.
  induction k as [|k IH]; intros n H; [reflexivity|].
  destruct n as [|n]; [lia|]. cbn [repeat firstn]. f_equal. apply IH. lia.
Qed.

(** the first [n] of "the items, then the end for ever" *)
Lemma it_firstn_items_then_none {A} (l : list A) n :
  firstn n (map Some l ++ repeat None n) = firstn n (map Some l) ++ repeat None (n - length l).
Proof.
  rewrite firstn_app, map_length. f_equal. apply it_firstn_repeat. lia.
Qed.

Lemma it_map_repeat {A B} (f : A -> B) x n : map f (repeat x n) = repeat (f x) n.
Proof. induction n as [|n IH]; [reflexivity|]. cbn [repeat map]. f_equal. exact IH. Qed.

(* ------------------------------------------------------------------ *)
(** * an iterator whose items still to come are given by a list *)

Section DriveP.
  Context {St A : Type}.
  Variable next : St -> St * option A.
  Variable remaining : St -> list A.
  Hypothesis rem_none : forall s s', next s = (s', None) -> remaining s = [] /\ remaining s' = [].
  Hypothesis rem_some : forall s s' a, next s = (s', Some a) -> remaining s = a :: remaining s'.

  Lemma drive_run : forall n s,
    it_run next n s = firstn n (map Some (remaining s) ++ repeat None n).
  Proof.
    intros n s. rewrite it_firstn_items_then_none. revert s.
    induction n as [|n IH]; intros s; [reflexivity|].
    cbn [it_run]. destruct (next s) as [s' [a|]] eqn:E.
    - rewrite (rem_some _ _ _ E). cbn [map firstn length app]. f_equal. rewrite IH. f_equal.
    - destruct (rem_none _ _ E) as [E1 E2]. rewrite E1. cbn [map firstn length app].
      rewrite IH, E2. cbn [map firstn length app repeat]. rewrite firstn_nil. cbn [app].
      rewrite Nat.sub_0_r. reflexivity.
  Qed.

  Lemma drive_collect : forall fuel s, length (remaining s) <= fuel -> it_collect next fuel s = remaining s.
  Proof.
    induction fuel as [|f IH]; intros s H.
    - destruct (remaining s); [reflexivity|cbn [length] in H; lia].
    - cbn [it_collect]. destruct (next s) as [s' [a|]] eqn:E.
      + rewrite (rem_some _ _ _ E) in *. cbn [length] in H. f_equal. apply IH. lia.
      + destruct (rem_none _ _ E) as [E1 _]. rewrite E1. reflexivity.
  Qed.

  Lemma drive_after : forall n s, remaining (it_after next n s) = skipn n (remaining s).
  Proof.
    induction n as [|n IH]; intros s; [reflexivity|].
    cbn [it_after]. rewrite IH. destruct (next s) as [s' [a|]] eqn:E; cbn [fst].
    - rewrite (rem_some _ _ _ E). reflexivity.
    - destruct (rem_none _ _ E) as [E1 E2]. rewrite E1, E2. rewrite !skipn_nil. reflexivity.
  Qed.

  Lemma drive_fused s s' : next s = (s', None) -> forall n, it_run next n s' = repeat None n.
  Proof.
    intros E n. destruct (rem_none _ _ E) as [_ E2]. rewrite drive_run, E2. cbn [map app].
    apply it_firstn_repeat. lia.
  Qed.

  (** the state after [n] calls continues with the rest of the list *)
  Lemma drive_run_after : forall n m s,
    it_run next m (it_after next n s) = firstn m (map Some (skipn n (remaining s)) ++ repeat None m).
  Proof. intros n m s. rewrite drive_run, drive_after. reflexivity. Qed.
End DriveP.

(* ------------------------------------------------------------------ *)
(** * fasta::RecordSetIter *)

Lemma fa_set_iter_rem_none it it' :
  fa_set_iter_next it = (it', None) -> fa_set_iter_remaining it = [] /\ fa_set_iter_remaining it' = [].
Proof.
  unfold fa_set_iter_next, fa_set_iter_remaining. destruct it as [b rest [|n]]; cbn [fsi_take fsi_rest fsi_buf].
  - intros H; inversion H; subst. cbn [fsi_take fsi_rest fsi_buf firstn map]. split; reflexivity.
  - destruct rest as [|p rest]; intros H; inversion H; subst.
    cbn [fsi_take fsi_rest fsi_buf firstn map]. rewrite firstn_nil. split; reflexivity.
Qed.

Lemma fa_set_iter_rem_some it it' a :
  fa_set_iter_next it = (it', Some a) -> fa_set_iter_remaining it = a :: fa_set_iter_remaining it'.
Proof.
  unfold fa_set_iter_next, fa_set_iter_remaining. destruct it as [b rest [|n]]; cbn [fsi_take fsi_rest fsi_buf].
  - discriminate.
  - destruct rest as [|p rest]; intros H; inversion H; subst.
    cbn [fsi_take fsi_rest fsi_buf firstn map]. reflexivity.
Qed.

Lemma fa_set_into_iter_remaining rs : fa_set_iter_remaining (fa_set_into_iter rs) = fa_set_records rs.
Proof. reflexivity. Qed.

(** every call sequence on every state: the items still to come, then the end for ever *)
Lemma fa_set_iter_run_any n it :
  it_run fa_set_iter_next n it = firstn n (map Some (fa_set_iter_remaining it) ++ repeat None n).
Proof. apply drive_run; [exact fa_set_iter_rem_none | exact fa_set_iter_rem_some]. Qed.

Theorem fa_set_iter_yields_records rs n :
  it_run fa_set_iter_next n (fa_set_into_iter rs) = firstn n (map Some (fa_set_records rs) ++ repeat None n).
Proof. rewrite fa_set_iter_run_any, fa_set_into_iter_remaining. reflexivity. Qed.

(** [for rec in &set] *)
Theorem fa_set_iter_collect rs fuel : snpos rs <= fuel ->
  it_collect fa_set_iter_next fuel (fa_set_into_iter rs) = fa_set_records rs.
Proof.
  intros H. rewrite <- fa_set_into_iter_remaining.
  apply (drive_collect fa_set_iter_next fa_set_iter_remaining fa_set_iter_rem_none fa_set_iter_rem_some).
  rewrite fa_set_into_iter_remaining. unfold fa_set_records. rewrite map_length, firstn_length. lia.
Qed.

(** which entries these are: the first [npos] ones, never one beyond *)
Theorem fa_set_records_live rs : snpos rs <= length (spositions rs) ->
  length (fa_set_records rs) = snpos rs /\
  forall i, i < snpos rs ->
    nth_error (fa_set_records rs) i = option_map (fa_pos_rec (sbuf rs)) (nth_error (spositions rs) i).
Proof.
  intros H. unfold fa_set_records. split.
  - rewrite map_length, firstn_length. lia.
  - intros i Hi. change (fun p : nat * list nat => mkFaRec (sbuf rs) (fst p) (snd p)) with (fa_pos_rec (sbuf rs)).
    rewrite nth_error_map. f_equal.
    rewrite <- (firstn_skipn (snpos rs) (spositions rs)) at 2.
    rewrite nth_error_app1; [reflexivity|]. rewrite firstn_length. lia.
Qed.

(** [npos] beyond the vector: [Take] stops at the end of the slice -- all entries, no panic *)
Theorem fa_set_records_overlong rs : length (spositions rs) <= snpos rs ->
  fa_set_records rs = map (fa_pos_rec (sbuf rs)) (spositions rs).
Proof. intros H. unfold fa_set_records. rewrite firstn_all2 by exact H. reflexivity. Qed.

Theorem fa_set_iter_fused it it' : fa_set_iter_next it = (it', None) ->
  forall n, it_run fa_set_iter_next n it' = repeat None n.
Proof. apply (drive_fused _ _ fa_set_iter_rem_none fa_set_iter_rem_some). Qed.

(** the state reached after [k] calls has the records from the [k]-th on still to come *)
Theorem fa_set_iter_after rs k :
  fa_set_iter_remaining (it_after fa_set_iter_next k (fa_set_into_iter rs)) = skipn k (fa_set_records rs).
Proof.
  rewrite (drive_after _ _ fa_set_iter_rem_none fa_set_iter_rem_some), fa_set_into_iter_remaining. reflexivity.
Qed.

Theorem fa_set_iter_size_hint_brackets it :
  fst (fa_set_iter_size_hint it) <= length (fa_set_iter_remaining it) /\
  forall u, snd (fa_set_iter_size_hint it) = Some u -> length (fa_set_iter_remaining it) <= u.
Proof. cbn [fa_set_iter_size_hint fst snd]. split; [lia|discriminate]. Qed.

Theorem fa_set_iter_size_hint_reached rs k :
  let it := it_after fa_set_iter_next k (fa_set_into_iter rs) in
  let remaining := it_collect fa_set_iter_next (snpos rs) it in
  remaining = skipn k (fa_set_records rs) /\
  fst (fa_set_iter_size_hint it) <= length remaining /\
  forall u, snd (fa_set_iter_size_hint it) = Some u -> length remaining <= u.
Proof.
  cbv zeta. split; [|split; [cbn [fa_set_iter_size_hint fst]; lia | cbn [fa_set_iter_size_hint snd]; discriminate]].
  rewrite <- fa_set_iter_after.
  apply (drive_collect fa_set_iter_next fa_set_iter_remaining fa_set_iter_rem_none fa_set_iter_rem_some).
  rewrite fa_set_iter_after, skipn_length. unfold fa_set_records. rewrite map_length, firstn_length. lia.
Qed.

(* ------------------------------------------------------------------ *)
(** * fastq::RecordSetIter *)

Lemma fq_set_iter_rem_none it it' :
  fq_set_iter_next it = (it', None) -> fq_set_iter_remaining it = [] /\ fq_set_iter_remaining it' = [].
Proof.
  unfold fq_set_iter_next, fq_set_iter_remaining. destruct it as [b [|p rest]]; cbn [qsi_rest qsi_buf];
    intros H; inversion H; subst. split; reflexivity.
Qed.

Lemma fq_set_iter_rem_some it it' a :
  fq_set_iter_next it = (it', Some a) -> fq_set_iter_remaining it = a :: fq_set_iter_remaining it'.
Proof.
  unfold fq_set_iter_next, fq_set_iter_remaining. destruct it as [b [|p rest]]; cbn [qsi_rest qsi_buf];
    intros H; inversion H; subst. reflexivity.
Qed.

Lemma fq_set_into_iter_remaining rs : fq_set_iter_remaining (fq_set_into_iter rs) = fq_set_records rs.
Proof.
  unfold fq_set_iter_remaining, fq_set_into_iter, fq_set_records. cbn [qsi_rest qsi_buf].
  apply map_ext. intros [[[[a b] c] d] e]. reflexivity.
Qed.

Lemma fq_set_iter_run_any n it :
  it_run fq_set_iter_next n it = firstn n (map Some (fq_set_iter_remaining it) ++ repeat None n).
Proof. apply drive_run; [exact fq_set_iter_rem_none | exact fq_set_iter_rem_some]. Qed.

Theorem fq_set_iter_yields_records rs n :
  it_run fq_set_iter_next n (fq_set_into_iter rs) = firstn n (map Some (fq_set_records rs) ++ repeat None n).
Proof. rewrite fq_set_iter_run_any, fq_set_into_iter_remaining. reflexivity. Qed.

Theorem fq_set_iter_collect rs fuel : length (qspos rs) <= fuel ->
  it_collect fq_set_iter_next fuel (fq_set_into_iter rs) = fq_set_records rs.
Proof.
  intros H. rewrite <- fq_set_into_iter_remaining.
  apply (drive_collect fq_set_iter_next fq_set_iter_remaining fq_set_iter_rem_none fq_set_iter_rem_some).
  rewrite fq_set_into_iter_remaining. unfold fq_set_records. rewrite map_length. exact H.
Qed.

Theorem fq_set_iter_fused it it' : fq_set_iter_next it = (it', None) ->
  forall n, it_run fq_set_iter_next n it' = repeat None n.
Proof. apply (drive_fused _ _ fq_set_iter_rem_none fq_set_iter_rem_some). Qed.

Theorem fq_set_iter_after rs k :
  fq_set_iter_remaining (it_after fq_set_iter_next k (fq_set_into_iter rs)) = skipn k (fq_set_records rs).
Proof.
  rewrite (drive_after _ _ fq_set_iter_rem_none fq_set_iter_rem_some), fq_set_into_iter_remaining. reflexivity.
Qed.

Theorem fq_set_iter_size_hint_brackets it :
  fst (fq_set_iter_size_hint it) <= length (fq_set_iter_remaining it) /\
  forall u, snd (fq_set_iter_size_hint it) = Some u -> length (fq_set_iter_remaining it) <= u.
Proof. cbn [fq_set_iter_size_hint fst snd]. split; [lia|discriminate]. Qed.

Theorem fq_set_iter_size_hint_reached rs k :
  let it := it_after fq_set_iter_next k (fq_set_into_iter rs) in
  let remaining := it_collect fq_set_iter_next (length (qspos rs)) it in
  remaining = skipn k (fq_set_records rs) /\
  fst (fq_set_iter_size_hint it) <= length remaining /\
  forall u, snd (fq_set_iter_size_hint it) = Some u -> length remaining <= u.
Proof.
  cbv zeta. split; [|split; [cbn [fq_set_iter_size_hint fst]; lia | cbn [fq_set_iter_size_hint snd]; discriminate]].
  rewrite <- fq_set_iter_after.
  apply (drive_collect fq_set_iter_next fq_set_iter_remaining fq_set_iter_rem_none fq_set_iter_rem_some).
  rewrite fq_set_iter_after, skipn_length. unfold fq_set_records. rewrite map_length. lia.
Qed.

(* ------------------------------------------------------------------ *)
(** * FASTA reader: which outcomes [next] has and what state they leave *)

Lemma fa_grow_st r r' g : fa_grow r = (r', g) -> st r' = st r /\ (forall e, g = GErr e -> e = FaBufferLimit).
Proof.
  unfold fa_grow. destruct (polf r (polh r) (cap r)) as [n|]; [destruct (n <=? cap r)|];
    intros H; inversion H; subst; (split; [reflexivity|]); intros e He; inversion He; reflexivity.
Qed.

Lemma fa_resume_kinds ffuel mk : forall fuel r r' res, fa_resume fuel ffuel mk r = (r', res) ->
  res <> RsOk false /\
  (forall e, res = RsErr e -> e = FaBufferLimit \/ exists k, e = FaIo k) /\
  (res = RsErr FaBufferLimit -> st r = FIncomplete -> st r' = FIncomplete).
Proof.
  induction fuel as [|f IH]; intros r r' res H; cbn [fa_resume] in H.
  { inversion H; subst. splits; intros; discriminate. }
  destruct (if negb mk || (start r =? 0) then fa_grow r else fa_make_room r) as [r1 g] eqn:E1.
  assert (Hg : st r1 = st r /\ forall e, g = GErr e -> e = FaBufferLimit).
  { destruct (negb mk || (start r =? 0)).
    - apply (fa_grow_st _ _ _ E1).
    - destruct (fa_make_room_run false _ _ _ E1) as (_ & Hst & _ & _ & _ & _ & Hne).
      split; [exact Hst|]. intros e ->. exfalso. apply (Hne e). reflexivity. }
  destruct Hg as [Hst1 Hg].
  destruct g as [|e|s].
  - destruct (fa_fill ffuel r1) as [r2 fr] eqn:E2.
    destruct fr as [n|k|].
    + destruct (fa_search r2) as [r3 sr] eqn:E3.
      destruct (fa_search_facts _ _ _ E3) as (_ & _ & _ & _ & _ & _ & Hinc & _).
      destruct sr as [[|]|s]; try (inversion H; subst; splits; intros; discriminate).
      destruct (IH _ _ _ H) as (A & B & C). splits; auto.
      intros Hr _. apply C; [exact Hr|]. apply (Hinc eq_refl).
    + inversion H; subst. splits; try discriminate.
      intros e He. inversion He; subst. right. eexists; reflexivity.
    + inversion H; subst. splits; intros; discriminate.
  - inversion H; subst. rewrite (Hg e eq_refl). splits; try discriminate.
    + intros e' He. inversion He; subst. left. reflexivity.
    + intros _ Hs. congruence.
  - inversion H; subst. splits; intros; discriminate.
Qed.

Lemma fa_state_eqb_true a b : fa_state_eqb a b = true -> a = b.
Proof. destruct a, b; cbn; intros H; try discriminate; reflexivity. Qed.

Lemma fa_next_tail_kinds fuel ffuel r r' o : fa_next_tail fuel ffuel r = (r', o) ->
  o <> ONone /\ o <> OSetOk /\ o <> OOk /\
  (forall e, o = OErr e -> e = FaBufferLimit \/ exists k, e = FaIo k) /\
  (o = OErr FaBufferLimit -> st r' = FIncomplete).
Proof.
  unfold fa_next_tail. intros H.
  destruct (if fa_state_eqb (st r) FIncomplete then (r, SFound true) else fa_search r) as [r1 sr].
  destruct sr as [b|s]; [|inversion H; subst; splits; intros; discriminate].
  destruct (fa_state_eqb (st r1) FIncomplete) eqn:Es; [|inversion H; subst; splits; intros; discriminate].
  apply fa_state_eqb_true in Es.
  destruct (fa_resume fuel ffuel true r1) as [r2 rr] eqn:E2.
  destruct (fa_resume_kinds _ _ _ _ _ _ E2) as (A & B & C).
  destruct rr as [[|]|e|s|]; try (inversion H; subst; splits; intros; discriminate).
  - exfalso. apply A. reflexivity.
  - inversion H; subst. splits; try discriminate.
    + intros e' He. inversion He; subst. apply B. reflexivity.
    + intros He. inversion He; subst. apply C; [reflexivity|exact Es].
Qed.

Lemma fa_init_kinds fuel ffuel r r' res : fa_init fuel ffuel r = (r', res) ->
  (res = IOk false -> st r' = FFinished) /\
  (forall e, res = IErr e -> (exists k, e = FaIo k) \/ (exists l b, e = FaInvalidStart l b) /\ st r' = FFinished).
Proof.
  unfold fa_init. intros H. destruct (fa_first_byte fuel ffuel r (pline r)) as [r1 fb].
  destruct fb as [ln pos b| |k|].
  - destruct (b =? GT); inversion H; subst; (split; [discriminate|]); intros e He; inversion He; subst.
    right. split; [eexists _, _; reflexivity|reflexivity].
  - inversion H; subst. split; [reflexivity|discriminate].
  - inversion H; subst. split; [discriminate|]. intros e He. inversion He; subst. left. eexists; reflexivity.
  - inversion H; subst. split; discriminate.
Qed.

(** [next] reports the end only from a finished reader ... *)
Theorem fa_next_none_finished fuel ffuel r r' : fa_next fuel ffuel r = (r', ONone) -> st r' = FFinished.
Proof.
  unfold fa_next. intros H.
  assert (T : forall x, fa_next_tail fuel ffuel x = (r', ONone) -> st r' = FFinished).
  { intros x Hx. destruct (fa_next_tail_kinds _ _ _ _ _ Hx) as (A & _). exfalso. apply A. reflexivity. }
  destruct (st r) eqn:Es.
  - destruct (fa_init fuel ffuel r) as [r1 ir] eqn:E1. destruct (fa_init_kinds _ _ _ _ _ E1) as [A _].
    destruct ir as [[|]|e|]; try discriminate.
    + apply (T _ H).
    + inversion H; subst. apply A. reflexivity.
  - destruct (fa_increment r) as [r1|]; [apply (T _ H)|discriminate].
  - apply (T _ H).
  - apply (T _ H).
  - inversion H; subst. exact Es.
Qed.

(** ... and [OSetOk] / [OOk] are not outcomes of [next] *)
Lemma fa_next_out_kind fuel ffuel r r' o : fa_next fuel ffuel r = (r', o) -> o <> OSetOk /\ o <> OOk.
Proof.
  unfold fa_next. intros H.
  assert (T : forall x, fa_next_tail fuel ffuel x = (r', o) -> o <> OSetOk /\ o <> OOk).
  { intros x Hx. destruct (fa_next_tail_kinds _ _ _ _ _ Hx) as (_ & A & B & _). split; assumption. }
  destruct (st r) eqn:Es.
  - destruct (fa_init fuel ffuel r) as [r1 ir] eqn:E1.
    destruct ir as [[|]|e|]; try (inversion H; subst; split; discriminate). apply (T _ H).
  - destruct (fa_increment r) as [r1|]; [apply (T _ H)|inversion H; subst; split; discriminate].
  - apply (T _ H).
  - apply (T _ H).
  - inversion H; subst. split; discriminate.
Qed.

(** the state an error leaves *)
Theorem fa_next_err_state fuel ffuel r r' e : fa_next fuel ffuel r = (r', OErr e) ->
  match e with
  | FaInvalidStart _ _ => st r = FNew /\ st r' = FFinished
  | FaIo _ => (st r = FNew /\ st r' = FNew) \/ (st r' = FFinished /\ buf r' = [])
  | FaBufferLimit => st r' = FIncomplete
  end.
Proof.
  intros H. destruct e as [k|l b|].
  - apply (fa_next_io_buffer _ _ _ _ _ H).
  - unfold fa_next in H.
    assert (T : forall x, fa_next_tail fuel ffuel x = (r', OErr (FaInvalidStart l b)) -> False).
    { intros x Hx. destruct (fa_next_tail_kinds _ _ _ _ _ Hx) as (_ & _ & _ & A & _).
      destruct (A _ eq_refl) as [A1|[k A1]]; discriminate. }
    destruct (st r) eqn:Es; try (exfalso; apply (T _ H)).
    + destruct (fa_init fuel ffuel r) as [r1 ir] eqn:E1. destruct (fa_init_kinds _ _ _ _ _ E1) as [_ A].
      destruct ir as [[|]|e|]; try discriminate; [exfalso; apply (T _ H)|].
      inversion H; subst. destruct (A _ eq_refl) as [[k A1]|[_ A1]]; [discriminate|]. split; [reflexivity|exact A1].
    + destruct (fa_increment r) as [r1|]; [exfalso; apply (T _ H)|discriminate].
    + discriminate.
  - unfold fa_next in H.
    assert (T : forall x, fa_next_tail fuel ffuel x = (r', OErr FaBufferLimit) -> st r' = FIncomplete).
    { intros x Hx. destruct (fa_next_tail_kinds _ _ _ _ _ Hx) as (_ & _ & _ & _ & A). apply A. reflexivity. }
    destruct (st r) eqn:Es; try (apply (T _ H)).
    + destruct (fa_init fuel ffuel r) as [r1 ir] eqn:E1. destruct (fa_init_kinds _ _ _ _ _ E1) as [_ A].
      destruct ir as [[|]|e|]; try discriminate; [apply (T _ H)|].
      inversion H; subst. destruct (A _ eq_refl) as [[k A1]|[(l & b & A1) _]]; discriminate.
    + destruct (fa_increment r) as [r1|]; [apply (T _ H)|discriminate].
    + discriminate.
Qed.

(** a reader with a pending search (that is where a buffer-limit error leaves it) does not report the end *)
Lemma fa_next_incomplete_not_none fuel ffuel r : st r = FIncomplete -> snd (fa_next fuel ffuel r) <> ONone.
Proof.
  intros Hs. unfold fa_next. rewrite Hs. destruct (fa_next_tail fuel ffuel r) as [r' o] eqn:E.
  destruct (fa_next_tail_kinds _ _ _ _ _ E) as (A & _). exact A.
Qed.

(* ------------------------------------------------------------------ *)
(** * FASTQ reader *)

(** a format error: neither an I/O error nor the buffer limit *)
Definition fq_format_err (e : fq_err) : Prop :=
  match e with FqIo _ | FqBufferLimit => False | _ => True end.

Lemma fq_validate_st r r' v : fq_validate r = (r', v) ->
  (v = VOk -> qst r' = qst r) /\ (forall e, v = VErr e -> qst r' = QFinished /\ fq_format_err e) /\
  (qst r = QFinished -> qst r' = QFinished).
Proof.
  unfold fq_validate. intros H.
  repeat match type of H with
         | context [match nth_error ?l ?n with _ => _ end] => destruct (nth_error l n)
         | context [match fq_error_pos ?a ?b ?c with _ => _ end] => destruct (fq_error_pos a b c) as [[? ?]|]
         | context [match bp_seq ?a ?b ?c with _ => _ end] => destruct (bp_seq a b c)
         | context [match bp_qual ?a ?b ?c with _ => _ end] => destruct (bp_qual a b c)
         | context [if ?c then _ else _] => destruct c
         end;
    inversion H; subst; cbn; splits; auto; try discriminate;
    intros e He; inversion He; subst; (split; [reflexivity|exact I]).
Qed.

Lemma fq_search_from_st from clear r r' sr : fq_search_from from clear r = (r', sr) ->
  (forall e, sr = QsErr e -> qst r' = QFinished /\ fq_format_err e) /\
  (sr = QsRec -> qst r' = qst r) /\
  (forall s, sr = QsIncomplete s -> qst r' = qst r /\ inc r' = Some s).
Proof.
  unfold fq_search_from. intros H.
  destruct from; cbn [stage_leb stage_num Nat.leb] in H;
  repeat match type of H with
         | context [match fq_find_line ?b ?p with _ => _ end] => destruct (fq_find_line b p) as [[?|]|]
         end;
    try (inversion H; subst; cbn; splits; try discriminate; intros s0 Hs0; inversion Hs0; subst; split; reflexivity);
    match type of H with of_vres (fq_validate ?R) = _ =>
      destruct (fq_validate R) as [rv v] eqn:Ev; destruct (fq_validate_st _ _ _ Ev) as (Hok & Herr & _);
      destruct v; cbn [of_vres] in H; inversion H; subst; clear H;
      (splits; [intros e0 He0; inversion He0; subst; apply Herr; reflexivity || discriminate
               | intros Hr; try discriminate; rewrite (Hok eq_refl); destruct clear; reflexivity
               | intros s0 Hs0; discriminate])
    end.
Qed.

Lemma fq_check_end_st s r r' rr : fq_check_end s r = (r', rr) -> qst r = QFinished ->
  qst r' = QFinished /\ (forall e, rr = QrErr e -> fq_format_err e).
Proof.
  unfold fq_check_end. intros H Hq.
  assert (Hv : forall r0, qst r0 = QFinished ->
            match fq_validate r0 with
            | (r1, VOk) => (r1, QrOk true) | (r1, VErr e) => (r1, QrErr e) | (r1, VPanic x) => (r1, QrPanic x)
            end = (r', rr) -> qst r' = QFinished /\ (forall e, rr = QrErr e -> fq_format_err e)).
  { intros r0 H0 Hx. destruct (fq_validate r0) as [r1 v] eqn:Ev.
    destruct (fq_validate_st _ _ _ Ev) as (_ & Herr & Hfin).
    destruct v; inversion Hx; subst; (split; [apply Hfin; exact H0|]); intros e0 He0; inversion He0; subst.
    apply (Herr _ eq_refl). }
  destruct s; try (apply (Hv (qset_p1 r (length (qbuf r))) Hq H));
    (destruct (length (qbuf r) <? p0 r); [inversion H; subst; split; [exact Hq|discriminate]|];
     destruct (forallb _ _); [inversion H; subst; split; [exact Hq|discriminate]|];
     destruct (fq_error_pos _ _ _) as [[l id]|]; inversion H; subst; (split; [exact Hq|]);
     intros e0 He0; inversion He0; subst; exact I).
Qed.

Lemma fq_grow_st r r' g : fq_grow r = (r', g) ->
  qst r' = qst r /\ inc r' = inc r /\ (forall e, g = QGErr e -> e = FqBufferLimit).
Proof.
  unfold fq_grow. destruct (qpolf r (qpolh r) (qcap r)) as [n|]; [destruct (n <=? qcap r)|];
    intros H; inversion H; subst; (split; [reflexivity|split; [reflexivity|]]); intros e He; inversion He; reflexivity.
Qed.

Lemma fq_resume_kinds ffuel mk : forall fuel s r r' res, fq_resume fuel ffuel s mk r = (r', res) ->
  (res = QrOk false -> qst r' = QFinished) /\
  (forall e, res = QrErr e ->
     match e with
     | FqBufferLimit => inc r <> None -> qst r' = qst r /\ inc r' <> None
     | _ => qst r' = QFinished
     end).
Proof.
  induction fuel as [|f IH]; intros s r r' res H; cbn [fq_resume] in H.
  { inversion H; subst. split; [discriminate|]. intros e He. discriminate. }
  destruct (length (qbuf r) <? qcap r).
  { destruct (fq_check_end_st _ _ _ _ H eq_refl) as [Hq He]. split; [intros _; exact Hq|].
    intros e Hr. specialize (He e Hr). destruct e; try exact Hq; destruct He. }
  destruct (if negb mk || (p0 r =? 0) then fq_grow r else fq_make_room s r) as [r1 g] eqn:E1.
  assert (Hg : forall e, g = QGErr e -> e = FqBufferLimit /\ qst r1 = qst r /\ inc r1 = inc r).
  { intros e ->. destruct (negb mk || (p0 r =? 0)).
    - destruct (fq_grow_st _ _ _ E1) as (A & B & C). split; [apply C; reflexivity|]. split; assumption.
    - destruct (fq_make_room_facts _ _ _ _ E1) as (_ & _ & _ & Hne & _). exfalso. apply (Hne e). reflexivity. }
  destruct g as [|e|x].
  - destruct (fq_fill ffuel r1) as [r2 fr] eqn:E2.
    destruct fr as [n|k|].
    + destruct (fq_search_from s true r2) as [r3 sr] eqn:E3.
      destruct (fq_search_from_st _ _ _ _ _ E3) as (Herr & Hrec & Hinc).
      destruct sr as [|s'|e|x].
      * inversion H; subst. split; discriminate.
      * destruct (IH _ _ _ _ H) as [A B]. split; [exact A|]. intros e He. specialize (B e He).
        destruct e; try exact B. intros _. destruct (Hinc _ eq_refl) as [Hq3 Hi3].
        destruct B as [B1 B2]; [congruence|]. split; [|exact B2].
        rewrite B1, Hq3.
        (* the state flag is not touched by grow / make_room / fill *)
        destruct (fq_fill_run false _ _ _ _ E2) as (_ & Hfill).
        assert (Hq2 : qst r2 = qst r1) by (destruct Hfill as (_ & Hq2 & _); exact Hq2).
        rewrite Hq2. destruct (negb mk || (p0 r =? 0)).
        -- apply (fq_grow_st _ _ _ E1).
        -- apply (fq_make_room_facts _ _ _ _ E1).
      * inversion H; subst. split; [discriminate|]. intros e0 He0. inversion He0; subst.
        destruct (Herr _ eq_refl) as [Hq Hf]. destruct e0; try exact Hq; destruct Hf.
      * inversion H; subst. split; discriminate.
    + inversion H; subst. split; [discriminate|]. intros e0 He0. inversion He0; subst. reflexivity.
    + inversion H; subst. split; discriminate.
  - inversion H; subst. split; [discriminate|]. intros e0 He0. inversion He0; subst.
    destruct (Hg _ eq_refl) as (-> & A & B). intros Hi. split; [exact A|congruence].
  - inversion H; subst. split; discriminate.
Qed.

Lemma fq_next_tail_kinds fuel ffuel r r' o : fq_next_tail fuel ffuel r = (r', o) ->
  (o = QONone -> qst r' = QFinished) /\ o <> QOSetOk /\ o <> QOOk /\
  (forall e, o = QOErr e ->
     match e with
     | FqBufferLimit => qst r' = qst r /\ inc r' <> None
     | _ => qst r' = QFinished
     end).
Proof.
  unfold fq_next_tail. intros H.
  (* the resume part *)
  assert (Hres : forall r1 s, inc r1 = Some s -> qst r1 = qst r ->
     (let '(r2, rr) := fq_resume fuel ffuel s true r1 in
      match rr with
      | QrErr e => (r2, QOErr e)
      | QrPanic x => (r2, QOPanic x)
      | QrFuel => (r2, QOFuel)
      | QrOk false => (r2, QONone)
      | QrOk true => (r2, QORec (fq_cur r2))
      end) = (r', o) ->
     (o = QONone -> qst r' = QFinished) /\ o <> QOSetOk /\ o <> QOOk /\
     (forall e, o = QOErr e ->
        match e with
        | FqBufferLimit => qst r' = qst r /\ inc r' <> None
        | _ => qst r' = QFinished
        end)).
  { intros r1 s Hi Hq Hx. destruct (fq_resume fuel ffuel s true r1) as [r2 rr] eqn:E2.
    destruct (fq_resume_kinds _ _ _ _ _ _ _ E2) as [A B].
    destruct rr as [[|]|e|x|]; inversion Hx; subst; splits; try discriminate.
    - intros _. apply A. reflexivity.
    - intros e0 He0. inversion He0; subst. specialize (B _ eq_refl). destruct e0; try exact B.
      rewrite <- Hq. apply B. congruence. }
  destruct (inc r) as [s0|] eqn:Ei.
  - rewrite Ei in H. apply (Hres r s0 Ei eq_refl H).
  - destruct (fq_search_from Head false r) as [r1 sr] eqn:E1.
    destruct (fq_search_from_st _ _ _ _ _ E1) as (Herr & Hrec & Hinc).
    destruct sr as [|s|e|x].
    + destruct (inc r1) as [s1|] eqn:Ei1.
      * apply (Hres r1 s1 Ei1 (Hrec eq_refl) H).
      * inversion H; subst. splits; intros; discriminate.
    + destruct (Hinc _ eq_refl) as [Hq1 Hi1]. rewrite Hi1 in H. apply (Hres r1 s Hi1 Hq1 H).
    + inversion H; subst. splits; try discriminate. intros e0 He0. inversion He0; subst.
      destruct (Herr _ eq_refl) as [Hq Hf]. destruct e0; try exact Hq; destruct Hf.
    + inversion H; subst. splits; intros; discriminate.
Qed.

Lemma fq_init_kinds ffuel r r' res : fq_init ffuel r = (r', res) ->
  (res = QIOk false -> qst r' = QFinished) /\ (forall e, res = QIErr e -> exists k, e = FqIo k).
Proof.
  unfold fq_init. intros H. destruct (fq_fill ffuel r) as [r1 fr].
  destruct fr as [[|n]|k|]; inversion H; subst; (split; [try discriminate; reflexivity|]);
    intros e He; inversion He; subst. eexists; reflexivity.
Qed.

Theorem fq_next_none_finished fuel ffuel r r' : fq_next fuel ffuel r = (r', QONone) -> qst r' = QFinished.
Proof.
  unfold fq_next. intros H.
  assert (T : forall x, fq_next_tail fuel ffuel x = (r', QONone) -> qst r' = QFinished).
  { intros x Hx. destruct (fq_next_tail_kinds _ _ _ _ _ Hx) as (A & _). apply A. reflexivity. }
  destruct (qst r) eqn:Es.
  - destruct (fq_init ffuel r) as [r1 ir] eqn:E1. destruct (fq_init_kinds _ _ _ _ E1) as [A _].
    destruct ir as [[|]|e|]; try discriminate.
    + apply (T _ H).
    + inversion H; subst. apply A. reflexivity.
  - destruct (inc r); [apply (T _ H)|]. destruct (fq_increment r) as [r1|]; [apply (T _ H)|discriminate].
  - apply (T _ H).
  - inversion H; subst. exact Es.
Qed.

Lemma fq_next_out_kind fuel ffuel r r' o : fq_next fuel ffuel r = (r', o) -> o <> QOSetOk /\ o <> QOOk.
Proof.
  unfold fq_next. intros H.
  assert (T : forall x, fq_next_tail fuel ffuel x = (r', o) -> o <> QOSetOk /\ o <> QOOk).
  { intros x Hx. destruct (fq_next_tail_kinds _ _ _ _ _ Hx) as (_ & A & B & _). split; assumption. }
  destruct (qst r) eqn:Es.
  - destruct (fq_init ffuel r) as [r1 ir] eqn:E1.
    destruct ir as [[|]|e|]; try (inversion H; subst; split; discriminate). apply (T _ H).
  - destruct (inc r); [apply (T _ H)|].
    destruct (fq_increment r) as [r1|]; [apply (T _ H)|inversion H; subst; split; discriminate].
  - apply (T _ H).
  - inversion H; subst. split; discriminate.
Qed.

(** the state an error leaves *)
Theorem fq_next_err_state fuel ffuel r r' e : fq_next fuel ffuel r = (r', QOErr e) ->
  match e with
  | FqIo _ => (qst r = QNew /\ qst r' = QNew) \/ (qst r' = QFinished /\ qbuf r' = [])
  | FqBufferLimit => qst r' = QParsing /\ inc r' <> None
  | _ => qst r' = QFinished
  end.
Proof.
  intros H.
  assert (G : match e with
              | FqIo _ => True
              | FqBufferLimit => qst r' = QParsing /\ inc r' <> None
              | _ => qst r' = QFinished
              end).
  { unfold fq_next in H.
    assert (T : forall x, qst x = QParsing -> fq_next_tail fuel ffuel x = (r', QOErr e) ->
              match e with
              | FqIo _ => True
              | FqBufferLimit => qst r' = QParsing /\ inc r' <> None
              | _ => qst r' = QFinished
              end).
    { intros x Hq Hx. destruct (fq_next_tail_kinds _ _ _ _ _ Hx) as (_ & _ & _ & A). specialize (A _ eq_refl).
      destruct e; try exact A; [exact I|]. rewrite <- Hq. exact A. }
    destruct (qst r) eqn:Es.
    - destruct (fq_init ffuel r) as [r1 ir] eqn:E1. destruct (fq_init_kinds _ _ _ _ E1) as [_ A].
      destruct ir as [[|]|e0|]; try discriminate.
      + apply (T (qset_st r1 QParsing) eq_refl H).
      + inversion H; subst. destruct (A _ eq_refl) as [k ->]. exact I.
    - destruct (inc r); [apply (T _ Es H)|].
      destruct (fq_increment r) as [r1|] eqn:Einc; [|discriminate].
      destruct (fq_increment_facts _ _ Einc) as (_ & _ & Hq & _). apply (T r1); [congruence|exact H].
    - apply (T (qset_st r QParsing) eq_refl H).
    - discriminate. }
  destruct e; try exact G. apply (fq_next_io_buffer _ _ _ _ _ H).
Qed.

(* ------------------------------------------------------------------ *)
(** * RecordsIter / RecordsIntoIter *)

(** one step is one [next] of the reader, the outcome mapped through [to_owned_record] *)
Lemma fa_records_next_refines fuel ffuel r :
  fa_records_next fuel ffuel r = (fst (fa_next fuel ffuel r), fa_own_item (snd (fa_next fuel ffuel r))).
Proof. unfold fa_records_next. destruct (fa_next fuel ffuel r). reflexivity. Qed.

Theorem fa_records_iter_refines_next fuel ffuel : forall n r,
  it_run (fa_records_next fuel ffuel) n r = map (fun x => fa_own_item (fst x)) (fa_run fuel ffuel n r).
Proof.
  induction n as [|n IH]; intros r; [reflexivity|].
  cbn [it_run fa_run]. rewrite fa_records_next_refines.
  destruct (fa_next fuel ffuel r) as [r' o]. cbn [fst snd map]. f_equal. apply IH.
Qed.

Theorem fa_records_iter_end_sticky fuel ffuel r r' : fa_records_next fuel ffuel r = (r', None) ->
  st r' = FFinished /\
  (forall fuel2 ffuel2, fa_records_next fuel2 ffuel2 r' = (r', None)) /\
  (forall fuel2 ffuel2 n, it_run (fa_records_next fuel2 ffuel2) n r' = repeat None n).
Proof.
  rewrite fa_records_next_refines. intros H. inversion H as [[H1 H2]].
  destruct (fa_next fuel ffuel r) as [r1 o] eqn:E. cbn [fst snd] in *. subst r1.
  assert (Ho : o = ONone).
  { destruct o; try discriminate; try reflexivity. }
  subst o. pose proof (fa_next_none_finished _ _ _ _ E) as Hf.
  assert (S1 : forall fuel2 ffuel2, fa_records_next fuel2 ffuel2 r' = (r', None)).
  { intros. unfold fa_records_next. rewrite (fa_finished_sticky _ _ _ Hf). reflexivity. }
  split; [exact Hf|]. split; [exact S1|].
  intros fuel2 ffuel2 n. induction n as [|n IH]; [reflexivity|].
  cbn [it_run repeat]. rewrite S1. f_equal. exact IH.
Qed.

Theorem fa_records_iter_finished fuel ffuel r : st r = FFinished ->
  forall n, it_run (fa_records_next fuel ffuel) n r = repeat None n.
Proof.
  intros Hf n. induction n as [|n IH]; [reflexivity|].
  cbn [it_run repeat]. unfold fa_records_next at 1. rewrite (fa_finished_sticky _ _ _ Hf). f_equal. exact IH.
Qed.

(** what follows an [Err] item *)
Theorem fa_records_iter_after_err fuel ffuel r r' e : fa_records_next fuel ffuel r = (r', Some (ItErr e)) ->
  match e with
  | FaInvalidStart _ _ =>
      st r = FNew /\ forall fuel2 ffuel2 n, it_run (fa_records_next fuel2 ffuel2) n r' = repeat None n
  | FaIo _ =>
      (st r = FNew /\ st r' = FNew) \/
      (buf r' = [] /\ forall fuel2 ffuel2 n, it_run (fa_records_next fuel2 ffuel2) n r' = repeat None n)
  | FaBufferLimit =>
      st r' = FIncomplete /\ forall fuel2 ffuel2, snd (fa_records_next fuel2 ffuel2 r') <> None
  end.
Proof.
  rewrite fa_records_next_refines. intros H. inversion H as [[H1 H2]].
  destruct (fa_next fuel ffuel r) as [r1 o] eqn:E. cbn [fst snd] in *. subst r1.
  assert (Ho : o = OErr e).
  { destruct o; try discriminate; cbn [fa_own_item] in H2.
    - destruct (fa_to_owned r0); discriminate.
    - inversion H2; reflexivity. }
  subst o. pose proof (fa_next_err_state _ _ _ _ _ E) as Hs.
  destruct e as [k|l b|].
  - destruct Hs as [Hs|[Hs1 Hs2]]; [left; exact Hs|right]. split; [exact Hs2|].
    intros. apply fa_records_iter_finished. exact Hs1.
  - destruct Hs as [Hs1 Hs2]. split; [exact Hs1|]. intros. apply fa_records_iter_finished. exact Hs2.
  - split; [exact Hs|]. intros fuel2 ffuel2. rewrite fa_records_next_refines. cbn [snd].
    pose proof (fa_next_incomplete_not_none fuel2 ffuel2 r' Hs) as Hn.
    destruct (snd (fa_next fuel2 ffuel2 r')); cbn [fa_own_item]; try discriminate. congruence.
Qed.

Lemma fq_records_next_refines fuel ffuel r :
  fq_records_next fuel ffuel r = (fst (fq_next fuel ffuel r), fq_own_item (snd (fq_next fuel ffuel r))).
Proof. unfold fq_records_next. destruct (fq_next fuel ffuel r). reflexivity. Qed.

Theorem fq_records_iter_refines_next fuel ffuel : forall n r,
  it_run (fq_records_next fuel ffuel) n r = map (fun x => fq_own_item (fst x)) (fq_run fuel ffuel n r).
Proof.
  induction n as [|n IH]; intros r; [reflexivity|].
  cbn [it_run fq_run]. rewrite fq_records_next_refines.
  destruct (fq_next fuel ffuel r) as [r' o]. cbn [fst snd map]. f_equal. apply IH.
Qed.

Theorem fq_records_iter_finished fuel ffuel r : qst r = QFinished ->
  forall n, it_run (fq_records_next fuel ffuel) n r = repeat None n.
Proof.
  intros Hf n. induction n as [|n IH]; [reflexivity|].
  cbn [it_run repeat]. unfold fq_records_next at 1. rewrite (fq_finished_sticky _ _ _ Hf). f_equal. exact IH.
Qed.

Theorem fq_records_iter_end_sticky fuel ffuel r r' : fq_records_next fuel ffuel r = (r', None) ->
  qst r' = QFinished /\
  (forall fuel2 ffuel2, fq_records_next fuel2 ffuel2 r' = (r', None)) /\
  (forall fuel2 ffuel2 n, it_run (fq_records_next fuel2 ffuel2) n r' = repeat None n).
Proof.
  rewrite fq_records_next_refines. intros H. inversion H as [[H1 H2]].
  destruct (fq_next fuel ffuel r) as [r1 o] eqn:E. cbn [fst snd] in *. subst r1.
  assert (Ho : o = QONone).
  { destruct o; try discriminate; try reflexivity. }
  subst o. pose proof (fq_next_none_finished _ _ _ _ E) as Hf.
  split; [exact Hf|]. split.
  - intros. unfold fq_records_next. rewrite (fq_finished_sticky _ _ _ Hf). reflexivity.
  - intros. apply fq_records_iter_finished. exact Hf.
Qed.

Theorem fq_records_iter_after_err fuel ffuel r r' e : fq_records_next fuel ffuel r = (r', Some (ItErr e)) ->
  match e with
  | FqIo _ =>
      (qst r = QNew /\ qst r' = QNew) \/
      (qbuf r' = [] /\ forall fuel2 ffuel2 n, it_run (fq_records_next fuel2 ffuel2) n r' = repeat None n)
  | FqBufferLimit => qst r' = QParsing /\ inc r' <> None
  | _ => forall fuel2 ffuel2 n, it_run (fq_records_next fuel2 ffuel2) n r' = repeat None n
  end.
Proof.
  rewrite fq_records_next_refines. intros H. inversion H as [[H1 H2]].
  destruct (fq_next fuel ffuel r) as [r1 o] eqn:E. cbn [fst snd] in *. subst r1.
  assert (Ho : o = QOErr e).
  { destruct o; try discriminate; cbn [fq_own_item] in H2.
    - destruct (fq_to_owned r0); discriminate.
    - inversion H2; reflexivity. }
  subst o. pose proof (fq_next_err_state _ _ _ _ _ E) as Hs.
  destruct e; try (intros; apply fq_records_iter_finished; exact Hs); [|exact Hs].
  destruct Hs as [Hs|[Hs1 Hs2]]; [left; exact Hs|right]. split; [exact Hs2|].
  intros. apply fq_records_iter_finished. exact Hs1.
Qed.

(* ------------------------------------------------------------------ *)
(** * the owned-record iterators of a NEW reader against the whole-input specifications *)

(** the owned item that stands for one item of the specification *)
Definition fa_spec_own (it : fa_sitem) : own_item fa_err fa_owned :=
  match it with
  | SRec i => ItOk (fi_head i, concat (fi_lines i))
  | SInvalidStart l f => ItErr (FaInvalidStart l f)
  end.

Definition fq_spec_own (it : fq_sitem) : own_item fq_err fq_owned :=
  match it with
  | QRec i => ItOk (qi_head i, qi_seq i, qi_qual i)
  | QErr e _ _ => ItErr (fq_err_of e)
  end.

Lemma Forall2_map_eq {A B C} (R : A -> B -> Prop) (f : A -> C) (g : B -> C) :
  (forall a b, R a b -> f a = g b) -> forall l1 l2, Forall2 R l1 l2 -> map f l1 = map g l2.
Proof.
  intros H l1 l2 H2. induction H2 as [|a b l1 l2 Hab _ IH]; [reflexivity|].
  cbn [map]. f_equal; [apply H; exact Hab|exact IH].
Qed.

Lemma it_spec_list {A B} (f : A -> B) (l : list A) n :
  map (option_map f) (firstn n (map Some l ++ repeat None n)) =
  firstn n (map (fun i => Some (f i)) l ++ repeat None n).
Proof.
  rewrite <- firstn_map, map_app, map_map, it_map_repeat. reflexivity.
Qed.

Lemma fa_smatches_own o pos it : fa_smatches (o, pos) it -> fa_own_item o = option_map fa_spec_own it.
Proof.
  destruct it as [[i|l f]|]; destruct o; cbn [fa_smatches]; intros H; try contradiction.
  - destruct H as (_ & Hh & Hl & _). cbn [fa_own_item option_map fa_spec_own].
    unfold fa_to_owned, fa_owned_seq. rewrite Hh, Hl. reflexivity.
  - destruct e; try contradiction. destruct H as [-> ->]. reflexivity.
  - reflexivity.
Qed.

Theorem fa_records_iter_spec inp cap0 rs ss pol fuel ffuel n :
  3 <= cap0 -> forallb item_ok rs = true -> PolOk pol ->
  length rs + 2 <= ffuel -> length inp + 2 <= fuel ->
  it_run (fa_records_next fuel ffuel) n (fa_new cap0 (mkSource inp 0 rs ss) pol) =
  firstn n (map (fun i => Some (fa_spec_own i)) (fa_spec inp) ++ repeat None n).
Proof.
  intros H1 H2 H3 H4 H5. rewrite fa_records_iter_refines_next, <- it_spec_list.
  apply (Forall2_map_eq fa_smatches).
  - intros [o pos] it Hm. cbn [fst]. apply (fa_smatches_own _ _ _ Hm).
  - apply fa_next_refines_spec; assumption.
Qed.

Lemma fq_matches_own inp o pos it : fq_matches inp (o, pos) it -> fq_own_item o = option_map fq_spec_own it.
Proof.
  destruct it as [[i|e l b]|]; destruct o; cbn [fq_matches]; intros H; try contradiction.
  - destruct H as (Hh & Hs & Hq & _). cbn [fq_own_item option_map fq_spec_own].
    unfold fq_to_owned. rewrite Hh, Hs, Hq. reflexivity.
  - destruct H as [-> _]. reflexivity.
  - reflexivity.
Qed.

Theorem fq_records_iter_spec inp cap0 rs ss pol fuel ffuel n :
  1 <= cap0 -> forallb item_ok rs = true -> PolOk1 pol ->
  length rs + 2 <= ffuel -> length inp + 2 <= fuel ->
  it_run (fq_records_next fuel ffuel) n (fq_new cap0 (mkSource inp 0 rs ss) pol) =
  firstn n (map (fun i => Some (fq_spec_own i)) (fq_spec_all inp) ++ repeat None n).
Proof.
  intros H1 H2 H3 H4 H5. rewrite fq_records_iter_refines_next, <- it_spec_list.
  apply (Forall2_map_eq (fq_matches inp)).
  - intros [o pos] it Hm. cbn [fst]. apply (fq_matches_own _ _ _ _ Hm).
  - apply fq_next_refines_spec_gen; assumption.
Qed.

(* ------------------------------------------------------------------ *)
(** * what follows a buffer-limit error: the reader asks the policy again *)

(** the policy does not grant more than [c] at capacity [c], whatever it was asked before *)
Definition Refuses (p : policy) (c : nat) : Prop :=
  forall h, match p h c with None => True | Some n => n <= c end.

(** where a buffer-limit error leaves the FASTA reader *)
Definition FaLimited (r : fa) : Prop := st r = FIncomplete /\ start r = 0.

Lemma fa_grow_start r r' g : fa_grow r = (r', g) -> start r' = start r.
Proof.
  unfold fa_grow. destruct (polf r (polh r) (cap r)) as [n|]; [destruct (n <=? cap r)|];
    intros H; inversion H; subst; reflexivity.
Qed.

Lemma fa_resume_limit_site ffuel : forall fuel r r',
  fa_resume fuel ffuel true r = (r', RsErr FaBufferLimit) -> start r' = 0.
Proof.
  induction fuel as [|f IH]; intros r r' H; cbn [fa_resume] in H; [discriminate|].
  cbn [negb orb] in H.
  destruct (start r =? 0) eqn:E0.
  - apply Nat.eqb_eq in E0. destruct (fa_grow r) as [r1 g] eqn:E1.
    pose proof (fa_grow_start _ _ _ E1) as Hs1.
    destruct g as [|e|s]; [|inversion H; subst; congruence|discriminate].
    destruct (fa_fill ffuel r1) as [r2 fr]. destruct fr as [n|k|]; try discriminate.
    destruct (fa_search r2) as [r3 sr]. destruct sr as [[|]|s]; try discriminate. apply (IH _ _ H).
  - destruct (fa_make_room r) as [r1 g] eqn:E1.
    destruct (fa_make_room_run false _ _ _ E1) as (_ & _ & _ & _ & _ & _ & Hne).
    destruct g as [|e|s]; [|exfalso; apply (Hne e); reflexivity|discriminate].
    destruct (fa_fill ffuel r1) as [r2 fr]. destruct fr as [n|k|]; try discriminate.
    destruct (fa_search r2) as [r3 sr]. destruct sr as [[|]|s]; try discriminate. apply (IH _ _ H).
Qed.

Lemma fa_next_tail_limit_site fuel ffuel r r' :
  fa_next_tail fuel ffuel r = (r', OErr FaBufferLimit) -> start r' = 0.
Proof.
  unfold fa_next_tail. intros H.
  destruct (if fa_state_eqb (st r) FIncomplete then (r, SFound true) else fa_search r) as [r1 sr].
  destruct sr as [b|s]; [|discriminate].
  destruct (fa_state_eqb (st r1) FIncomplete); [|discriminate].
  destruct (fa_resume fuel ffuel true r1) as [r2 rr] eqn:E2.
  destruct rr as [[|]|e|s|]; try discriminate. inversion H; subst. apply (fa_resume_limit_site _ _ _ _ E2).
Qed.

Theorem fa_next_limit_state fuel ffuel r r' : fa_next fuel ffuel r = (r', OErr FaBufferLimit) -> FaLimited r'.
Proof.
  intros H. split; [apply (fa_next_err_state _ _ _ _ _ H)|].
  unfold fa_next in H. destruct (st r).
  - destruct (fa_init fuel ffuel r) as [r1 ir] eqn:E1. destruct (fa_init_kinds _ _ _ _ _ E1) as [_ A].
    destruct ir as [[|]|e|]; try discriminate; [apply (fa_next_tail_limit_site _ _ _ _ H)|].
    inversion H; subst. destruct (A _ eq_refl) as [[k A1]|[(l & b & A1) _]]; discriminate.
  - destruct (fa_increment r) as [r1|]; [apply (fa_next_tail_limit_site _ _ _ _ H)|discriminate].
  - apply (fa_next_tail_limit_site _ _ _ _ H).
  - apply (fa_next_tail_limit_site _ _ _ _ H).
  - discriminate.
Qed.

(** from there, a policy that still refuses gives the same error again: nothing but the
    policy's history and the log change *)
Theorem fa_next_limited_again fuel ffuel r : FaLimited r -> Refuses (polf r) (cap r) ->
  exists r', fa_next (S fuel) ffuel r = (r', OErr FaBufferLimit) /\
             FaLimited r' /\ polf r' = polf r /\ cap r' = cap r /\ buf r' = buf r /\ src r' = src r.
Proof.
  intros [Hst H0] Hp. unfold fa_next. rewrite Hst. unfold fa_next_tail. rewrite Hst. cbn [fa_state_eqb].
  rewrite Hst. cbn [fa_state_eqb]. cbn [fa_resume negb orb]. rewrite H0. cbn [Nat.eqb]. unfold fa_grow. specialize (Hp (polh r)).
  destruct (polf r (polh r) (cap r)) as [n|].
  - apply Nat.leb_le in Hp. rewrite Hp. eexists. split; [reflexivity|]. unfold FaLimited. cbn. auto.
  - eexists. split; [reflexivity|]. unfold FaLimited. cbn. auto.
Qed.

Theorem fa_records_iter_limit_forever fuel ffuel : forall n r,
  FaLimited r -> Refuses (polf r) (cap r) ->
  it_run (fa_records_next (S fuel) ffuel) n r = repeat (Some (ItErr FaBufferLimit)) n.
Proof.
  induction n as [|n IH]; intros r HL Hp; [reflexivity|].
  destruct (fa_next_limited_again fuel ffuel r HL Hp) as (r' & E & HL' & Ep & Ec & _).
  cbn [it_run repeat]. unfold fa_records_next at 1. rewrite E. cbn [fa_own_item]. f_equal.
  apply IH; [exact HL'|]. rewrite Ep, Ec. exact Hp.
Qed.

(** the same for FASTQ *)
Definition FqLimited (r : fq) : Prop :=
  qst r = QParsing /\ inc r <> None /\ p0 r = 0 /\ qcap r <= length (qbuf r).

Lemma fq_grow_fields r r' g : fq_grow r = (r', g) ->
  p0 r' = p0 r /\ qbuf r' = qbuf r /\ (g <> QGOk -> qcap r' = qcap r).
Proof.
  unfold fq_grow. destruct (qpolf r (qpolh r) (qcap r)) as [n|]; [destruct (n <=? qcap r)|];
    intros H; inversion H; subst; cbn; splits; auto. intros Hx. exfalso. apply Hx. reflexivity.
Qed.

Lemma fq_resume_limit_site ffuel : forall fuel s r r',
  fq_resume fuel ffuel s true r = (r', QrErr FqBufferLimit) -> p0 r' = 0 /\ qcap r' <= length (qbuf r').
Proof.
  induction fuel as [|f IH]; intros s r r' H; cbn [fq_resume] in H; [discriminate|].
  destruct (length (qbuf r) <? qcap r) eqn:Efull; [|apply Nat.ltb_ge in Efull].
  { destruct (fq_check_end_st _ _ _ _ H eq_refl) as [_ He]. destruct (He _ eq_refl). }
  cbn [negb orb] in H.
  assert (Hloop : forall r1, (let '(r2, fr) := fq_fill ffuel r1 in
            match fr with
            | FillErr k => (qset_st (qset_buf r2 []) QFinished, QrErr (FqIo k))
            | FillFuel => (r2, QrFuel)
            | FillOk _ =>
                match fq_search_from s true r2 with
                | (r3, QsRec) => (r3, QrOk true)
                | (r3, QsErr e) => (r3, QrErr e)
                | (r3, QsPanic x) => (r3, QrPanic x)
                | (r3, QsIncomplete s') => fq_resume f ffuel s' true r3
                end
            end) = (r', QrErr FqBufferLimit) -> p0 r' = 0 /\ qcap r' <= length (qbuf r')).
  { intros r1 Hx. destruct (fq_fill ffuel r1) as [r2 fr]. destruct fr as [n|k|]; try discriminate.
    destruct (fq_search_from s true r2) as [r3 sr] eqn:E3.
    destruct (fq_search_from_st _ _ _ _ _ E3) as (Herr & _).
    destruct sr as [|s'|e|x]; try discriminate.
    - apply (IH _ _ _ Hx).
    - inversion Hx; subst. destruct (Herr _ eq_refl) as [_ []]. }
  destruct (p0 r =? 0) eqn:E0.
  - apply Nat.eqb_eq in E0. destruct (fq_grow r) as [r1 g] eqn:E1.
    destruct (fq_grow_fields _ _ _ E1) as (A & B & C).
    destruct g as [|e|x]; [apply (Hloop _ H)| |discriminate].
    inversion H; subst. rewrite A, B, C by discriminate. split; [exact E0|exact Efull].
  - destruct (fq_make_room s r) as [r1 g] eqn:E1.
    destruct (fq_make_room_facts _ _ _ _ E1) as (_ & _ & _ & Hne & _).
    destruct g as [|e|x]; [apply (Hloop _ H)|exfalso; apply (Hne e); reflexivity|discriminate].
Qed.

Lemma fq_next_tail_limit_site fuel ffuel r r' :
  fq_next_tail fuel ffuel r = (r', QOErr FqBufferLimit) -> p0 r' = 0 /\ qcap r' <= length (qbuf r').
Proof.
  unfold fq_next_tail. intros H.
  destruct (match inc r with None => fq_search_from Head false r | Some _ => (r, QsRec) end) as [r1 sr] eqn:E1.
  assert (Hres : forall s,
     (let '(r2, rr) := fq_resume fuel ffuel s true r1 in
      match rr with
      | QrErr e => (r2, QOErr e)
      | QrPanic x => (r2, QOPanic x)
      | QrFuel => (r2, QOFuel)
      | QrOk false => (r2, QONone)
      | QrOk true => (r2, QORec (fq_cur r2))
      end) = (r', QOErr FqBufferLimit) -> p0 r' = 0 /\ qcap r' <= length (qbuf r')).
  { intros s Hx. destruct (fq_resume fuel ffuel s true r1) as [r2 rr] eqn:E2.
    destruct rr as [[|]|e|x|]; try discriminate. inversion Hx; subst. apply (fq_resume_limit_site _ _ _ _ _ E2). }
  destruct sr as [|s|e|x].
  - destruct (inc r1) as [s1|]; [apply (Hres _ H)|discriminate].
  - destruct (inc r1) as [s1|]; [apply (Hres _ H)|discriminate].
  - inversion H; subst. destruct (inc r) as [s0|]; [discriminate|].
    destruct (fq_search_from_st _ _ _ _ _ E1) as (Herr & _). destruct (Herr _ eq_refl) as [_ []].
  - discriminate.
Qed.

Theorem fq_next_limit_state fuel ffuel r r' : fq_next fuel ffuel r = (r', QOErr FqBufferLimit) -> FqLimited r'.
Proof.
  intros H. destruct (fq_next_err_state _ _ _ _ _ H) as [A B]. unfold FqLimited.
  split; [exact A|]. split; [exact B|].
  unfold fq_next in H. destruct (qst r).
  - destruct (fq_init ffuel r) as [r1 ir] eqn:E1. destruct (fq_init_kinds _ _ _ _ E1) as [_ A1].
    destruct ir as [[|]|e|]; try discriminate; [apply (fq_next_tail_limit_site _ _ _ _ H)|].
    inversion H; subst. destruct (A1 _ eq_refl) as [k A2]. discriminate.
  - destruct (inc r); [apply (fq_next_tail_limit_site _ _ _ _ H)|].
    destruct (fq_increment r) as [r1|]; [apply (fq_next_tail_limit_site _ _ _ _ H)|discriminate].
  - apply (fq_next_tail_limit_site _ _ _ _ H).
  - discriminate.
Qed.

Theorem fq_next_limited_again fuel ffuel r : FqLimited r -> Refuses (qpolf r) (qcap r) ->
  exists r', fq_next (S fuel) ffuel r = (r', QOErr FqBufferLimit) /\
             FqLimited r' /\ qpolf r' = qpolf r /\ qcap r' = qcap r /\ qbuf r' = qbuf r /\ qsrc r' = qsrc r.
Proof.
  intros (Hst & Hi & H0 & Hfull) Hp. unfold fq_next. rewrite Hst.
  destruct (inc r) as [s|] eqn:Ei; [|exfalso; apply Hi; reflexivity].
  unfold fq_next_tail. rewrite Ei. cbn [fq_resume].
  apply Nat.ltb_ge in Hfull. rewrite Hfull. cbn [negb orb]. rewrite H0. cbn [Nat.eqb].
  unfold fq_grow. specialize (Hp (qpolh r)). apply Nat.ltb_ge in Hfull.
  destruct (qpolf r (qpolh r) (qcap r)) as [n|].
  - apply Nat.leb_le in Hp. rewrite Hp, Ei. eexists. split; [reflexivity|]. unfold FqLimited. cbn.
    rewrite Ei. splits; auto; discriminate.
  - rewrite Ei. eexists. split; [reflexivity|]. unfold FqLimited. cbn. rewrite Ei. splits; auto; discriminate.
Qed.

Theorem fq_records_iter_limit_forever fuel ffuel : forall n r,
  FqLimited r -> Refuses (qpolf r) (qcap r) ->
  it_run (fq_records_next (S fuel) ffuel) n r = repeat (Some (ItErr FqBufferLimit)) n.
Proof.
  induction n as [|n IH]; intros r HL Hp; [reflexivity|].
  destruct (fq_next_limited_again fuel ffuel r HL Hp) as (r' & E & HL' & Ep & Ec & _).
  cbn [it_run repeat]. unfold fq_records_next at 1. rewrite E. cbn [fq_own_item]. f_equal.
  apply IH; [exact HL'|]. rewrite Ep, Ec. exact Hp.
Qed.

(* ------------------------------------------------------------------ *)
(** * the sets the reader fills: [npos] never exceeds the vector, the entries beyond it are
      the stale ones of the set passed in -- and the iterator does not reach them *)

Theorem fa_read_set_iter fuel ffuel n r rs r' rs' : fa_read_set fuel ffuel n r rs = (r', rs', OSetOk) ->
  snpos rs' <= length (spositions rs') /\
  skipn (snpos rs') (spositions rs') = skipn (snpos rs') (spositions rs) /\
  forall k, it_run fa_set_iter_next k (fa_set_into_iter rs') =
            firstn k (map Some (map (fa_pos_rec (buf r')) (firstn (snpos rs') (spositions rs'))) ++ repeat None k).
Proof.
  intros H. destruct (fa_read_set_frame _ _ _ _ _ _ _ _ H) as [_ Hw].
  destruct (Hw eq_refl) as (Hb & Hle & Hstale & _). split; [exact Hle|]. split; [exact Hstale|].
  intros k. rewrite fa_set_iter_yields_records. unfold fa_set_records. rewrite Hb. reflexivity.
Qed.
