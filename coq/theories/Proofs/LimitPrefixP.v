(** C09 (d)/(e): refusing policies and policy swaps do not disturb the stream.

    (d) A reader with an ARBITRARY policy [p] (it may refuse, or answer a size that is not
        larger, which [grow] treats as a refusal) behaves, call by call, exactly like the
        same reader with the never-refusing completion [pol_complete p] of that policy --
        until the call that returns the buffer-limit error.
    (e) Installing other never-refusing policies between [next()] calls leaves the stream
        of outcomes unchanged; after a buffer-limit error, installing a generous policy
        makes the SAME record come out and the stream continue.

    Structure as in Proofs/FaPrefixP.v / FqPrefixP.v, with the policy in the place of the
    source: functions that do not consult the policy commute with replacing it ([PolInd]);
    [grow] under [p] and under [pol_complete p] take the same step unless [p] refuses. *)
From SeqIO Require Import Model.Base Model.Fasta Model.Views Spec.FastaSpec Spec.Cursor
     Proofs.Window Proofs.FastaScanP Proofs.FastaInv Proofs.FastaStream Proofs.FastaNextP
     Proofs.FastaInitP Proofs.ViewsP Proofs.ViewShiftP Proofs.FastaPosP Proofs.FastaTopP
     Proofs.FastaSetP Proofs.FastaSeekP
     Proofs.TraceP Proofs.FaultP Proofs.GrowP Proofs.InterruptP Proofs.FastaHistP Proofs.FaPrefixP.

(* ------------------------------------------------------------------ *)
(** * The never-refusing completion of a policy *)

(** it answers what [p] answers whenever that is a larger size, and [2c+1] otherwise *)
Definition pol_complete (p : policy) : policy :=
  fun h c => match p h c with
             | Some n => if c <? n then Some n else Some (2 * c + 1)
             | None => Some (2 * c + 1)
             end.

Lemma pol_complete_PolOk p : PolOk (pol_complete p).
Proof.
  intros h c Hc. unfold pol_complete. destruct (p h c) as [n|].
  - destruct (c <? n) eqn:E.
    + apply Nat.ltb_lt in E. exists n. split; [reflexivity|exact E].
    + exists (2 * c + 1). split; [reflexivity|lia].
  - exists (2 * c + 1). split; [reflexivity|lia].
Qed.

(** a policy that never refuses is its own completion *)
Lemma pol_complete_id p h c n : p h c = Some n -> c < n -> pol_complete p h c = Some n.
Proof.
  intros H Hn. unfold pol_complete. rewrite H. apply Nat.ltb_lt in Hn. rewrite Hn. reflexivity.
Qed.

(* ------------------------------------------------------------------ *)
(** * FASTA: the relation *)

(** the same reader state (buffer, capacity, source, offsets, position, state flag,
    consultation history, event log); policy [p] on one side, its completion on the other *)
Definition fa_polrel (r0 r : fa) : Prop := r0 = set_pol r (pol_complete (polf r)) (polh r).

Definition is_lim (o : fa_out) : Prop := o = OErr FaBufferLimit.

(** two results: equal outcome and related states, or the run under [p] hit a refusal *)
Definition LRel {X} (isl : X -> Prop) (x0 x : fa * X) : Prop :=
  (snd x = snd x0 /\ fa_polrel (fst x0) (fst x)) \/ isl (snd x).

Lemma LRel_same {X} (isl : X -> Prop) a0 a (x : X) : fa_polrel a0 a -> LRel isl (a0, x) (a, x).
Proof. intros H. left. split; [reflexivity|exact H]. Qed.

(** functions that do not consult the policy *)
Definition PolInd {X} (f : fa -> fa * X) : Prop :=
  forall q h r, f (set_pol r q h) = (set_pol (fst (f r)) q h, snd (f r)) /\
                polf (fst (f r)) = polf r /\ polh (fst (f r)) = polh r.

Lemma polind_rel {X} (f : fa -> fa * X) : PolInd f -> forall r0 r, fa_polrel r0 r ->
  snd (f r) = snd (f r0) /\ fa_polrel (fst (f r0)) (fst (f r)).
Proof.
  intros Hf r0 r Hr. unfold fa_polrel in Hr. subst r0.
  destruct (Hf (pol_complete (polf r)) (polh r) r) as (E & Ef & Eh). rewrite E. cbn [fst snd].
  split; [reflexivity|]. unfold fa_polrel. rewrite Ef, Eh. reflexivity.
Qed.

Lemma polind_LRel {X} (isl : X -> Prop) (f : fa -> fa * X) : PolInd f -> forall r0 r, fa_polrel r0 r ->
  LRel isl (f r0) (f r).
Proof. intros Hf r0 r Hr. left. apply polind_rel; assumption. Qed.

(** setters of other fields keep the relation *)
Lemma fa_polrel_set (g : fa -> fa) r0 r :
  (forall q h a, g (set_pol a q h) = set_pol (g a) q h) -> (forall a, polf (g a) = polf a /\ polh (g a) = polh a) ->
  fa_polrel r0 r -> fa_polrel (g r0) (g r).
Proof.
  intros Hg Hp Hr. unfold fa_polrel in *. subst r0. rewrite Hg. destruct (Hp r) as [-> ->]. reflexivity.
Qed.

Lemma fa_polrel_st r0 r x : fa_polrel r0 r -> fa_polrel (set_st r0 x) (set_st r x).
Proof. apply (fa_polrel_set (fun a => set_st a x)); [reflexivity|intros a; split; reflexivity]. Qed.

Lemma fa_polrel_fields r0 r : fa_polrel r0 r ->
  buf r = buf r0 /\ cap r = cap r0 /\ src r = src r0 /\ start r = start r0 /\ seqpos r = seqpos r0 /\
  pline r = pline r0 /\ pbyte r = pbyte r0 /\ spos r = spos r0 /\ st r = st r0 /\ polh r = polh r0 /\
  log r = log r0 /\ polf r0 = pol_complete (polf r).
Proof. intros Hr. unfold fa_polrel in Hr. subst r0. repeat split; reflexivity. Qed.

(* ------------------------------------------------------------------ *)
(** * FASTA: the functions that do not consult the policy *)

Lemma fa_fill_pi ffuel : PolInd (fa_fill ffuel).
Proof.
  intros q h r. unfold fa_fill. fa_simpl.
  destruct (fill_buf ffuel (buf r) (cap r) (src r) (log r) 0) as [[[b s] lg] res].
  cbn [fst snd]. repeat split; reflexivity.
Qed.

Lemma fa_search_pi : PolInd fa_search.
Proof.
  intros q h r. unfold fa_search. fa_simpl.
  destruct (length (buf r) <? spos r); [repeat split; reflexivity|].
  destruct (fa_scan (skipn (spos r) (buf r)) (spos r) (seqpos r)) as [[found sp] sq].
  destruct found; [repeat split; reflexivity|]. fa_simpl.
  destruct (length (buf r) <? cap r); repeat split; reflexivity.
Qed.

Lemma fa_make_room_pi : PolInd fa_make_room.
Proof.
  intros q h r. unfold fa_make_room. fa_simpl.
  destruct ((spos r <? start r) || negb (all_geb (seqpos r) (start r))); repeat split; reflexivity.
Qed.

Lemma fa_increment_pol r0 r : fa_polrel r0 r ->
  match fa_increment r0, fa_increment r with
  | Some a0, Some a => fa_polrel a0 a
  | None, None => True
  | _, _ => False
  end.
Proof.
  intros Hr. unfold fa_polrel in Hr. subst r0. unfold fa_increment. fa_simpl.
  destruct (spos r <? start r); [exact I|]. reflexivity.
Qed.

Lemma fa_first_byte_pi ffuel : forall fuel ln, PolInd (fun r => fa_first_byte fuel ffuel r ln).
Proof.
  induction fuel as [|f IH]; intros ln q h r; cbn [fa_first_byte]; [repeat split; reflexivity|].
  destruct (fa_fill_pi ffuel q h r) as (E & Ef & Eh). rewrite E.
  destruct (fa_fill ffuel r) as [r1 fr]. cbn [fst snd] in *.
  destruct fr as [[|n]|k|]; try (repeat split; assumption).
  fa_simpl.
  destruct (fb_scan (pieces (buf r1)) ln 0 0) as [[[l p] b]|[[l p] last]].
  { repeat split; assumption. }
  match goal with |- fa_first_byte f ffuel ?A _ = _ /\ _ =>
    change A with (set_pol (set_pline (set_pbyte (set_buf r1 (skipn (p - 1 - last) (buf r1)))
                                                 (pbyte r1 + (p - 1 - last))) (l - 1)) q h) end.
  destruct (IH (l - 1) q h (set_pline (set_pbyte (set_buf r1 (skipn (p - 1 - last) (buf r1)))
                                                 (pbyte r1 + (p - 1 - last))) (l - 1))) as (E2 & Ef2 & Eh2).
  cbv beta in E2, Ef2, Eh2. rewrite E2. split; [reflexivity|].
  rewrite Ef2, Eh2. fa_simpl. split; assumption.
Qed.

Lemma fa_init_pi fuel ffuel : PolInd (fa_init fuel ffuel).
Proof.
  intros q h r. unfold fa_init. fa_simpl.
  destruct (fa_first_byte_pi ffuel fuel (pline r) q h r) as (E & Ef & Eh). cbv beta in E, Ef, Eh. rewrite E.
  destruct (fa_first_byte fuel ffuel r (pline r)) as [r1 fb]. cbn [fst snd] in *.
  destruct fb as [ln pos b| |k|]; try (repeat split; assumption).
  fa_simpl. destruct (b =? GT); repeat split; assumption.
Qed.

Lemma fa_seek_pi ffuel line byte_ : PolInd (fun r => fa_seek ffuel r line byte_).
Proof.
  intros q h r. unfold fa_seek. fa_simpl.
  destruct (((0 <=? Z.of_nat (start r) + (Z.of_nat byte_ - Z.of_nat (pbyte r)))%Z &&
            (Z.of_nat (start r) + (Z.of_nat byte_ - Z.of_nat (pbyte r)) <? Z.of_nat (length (buf r)))%Z) &&
            negb (fa_state_eqb (st r) FNew)).
  { repeat split; reflexivity. }
  destruct (src_seek (src r) byte_) as [s' res].
  destruct res as [k|]; [repeat split; reflexivity|].
  match goal with |- (let '(_, _) := fa_fill ffuel ?A in _) = _ /\ _ =>
    match goal with |- context [fst (let '(_, _) := fa_fill ffuel ?B in _)] =>
      change A with (set_pol B q h);
      destruct (fa_fill_pi ffuel q h B) as (E & Ef & Eh); rewrite E;
      destruct (fa_fill ffuel B) as [r1 fr]
    end
  end.
  cbn [fst snd] in *. fa_simpl_in Ef. fa_simpl_in Eh.
  destruct fr; repeat split; assumption.
Qed.

(* ------------------------------------------------------------------ *)
(** * FASTA: grow and the entry points *)

Definition is_glim (g : gres) : Prop := g = GErr FaBufferLimit.
Definition is_rlim (x : rres_b) : Prop := x = RsErr FaBufferLimit.

Lemma fa_grow_rel r0 r : fa_polrel r0 r -> LRel is_glim (fa_grow r0) (fa_grow r).
Proof.
  intros Hr. unfold fa_polrel in Hr. subst r0. unfold fa_grow. fa_simpl.
  destruct (polf r (polh r) (cap r)) as [n|] eqn:Ep; [|right; reflexivity].
  destruct (cap r <? n) eqn:E.
  - apply Nat.ltb_lt in E. rewrite (pol_complete_id _ _ _ _ Ep E).
    assert ((n <=? cap r) = false) as -> by (apply Nat.leb_gt; exact E).
    left. cbn [fst snd]. split; reflexivity.
  - apply Nat.ltb_ge in E. assert ((n <=? cap r) = true) as -> by (apply Nat.leb_le; exact E).
    right. reflexivity.
Qed.

Lemma fa_room_rel mk r0 r : fa_polrel r0 r -> LRel is_glim (fa_room mk r0) (fa_room mk r).
Proof.
  intros Hr. unfold fa_room. destruct (fa_polrel_fields _ _ Hr) as (_ & _ & _ & Es & _). rewrite Es.
  destruct (negb mk || (start r0 =? 0)); [apply fa_grow_rel; exact Hr|].
  apply (polind_LRel is_glim fa_make_room fa_make_room_pi). exact Hr.
Qed.

Lemma fa_resume_rel ffuel mk : forall fuel r0 r, fa_polrel r0 r ->
  LRel is_rlim (fa_resume fuel ffuel mk r0) (fa_resume fuel ffuel mk r).
Proof.
  induction fuel as [|f IH]; intros r0 r Hr; cbn [fa_resume]; [apply LRel_same; exact Hr|].
  change (if negb mk || (start r0 =? 0) then fa_grow r0 else fa_make_room r0) with (fa_room mk r0).
  change (if negb mk || (start r =? 0) then fa_grow r else fa_make_room r) with (fa_room mk r).
  destruct (fa_room_rel mk r0 r Hr) as [[Hg Hr1]|Hl].
  2:{ destruct (fa_room mk r) as [r1 g]. cbn [snd] in Hl. unfold is_glim in Hl. subst g.
      right. destruct (fa_room mk r0) as [r10 g0]. reflexivity. }
  destruct (fa_room mk r0) as [r10 g0]. destruct (fa_room mk r) as [r1 g]. cbn [fst snd] in *. subst g.
  destruct g0 as [|e|x]; try (apply LRel_same; exact Hr1).
  destruct (polind_rel (fa_fill ffuel) (fa_fill_pi ffuel) r10 r1 Hr1) as [Hfr Hr2].
  destruct (fa_fill ffuel r10) as [r20 fr0]. destruct (fa_fill ffuel r1) as [r2 fr]. cbn [fst snd] in *. subst fr.
  destruct fr0 as [n|k|].
  - destruct (polind_rel fa_search fa_search_pi r20 r2 Hr2) as [Hs Hr3].
    destruct (fa_search r20) as [r30 sr0]. destruct (fa_search r2) as [r3 sr]. cbn [fst snd] in *. subst sr.
    destruct sr0 as [[|]|x]; try (apply LRel_same; exact Hr3).
    apply IH. exact Hr3.
  - apply LRel_same. apply fa_polrel_st.
    apply (fa_polrel_set (fun a => set_buf a [])); [reflexivity|intros a; split; reflexivity|exact Hr2].
  - apply LRel_same. exact Hr2.
Qed.

Lemma fa_next_tail_rel fuel ffuel r0 r : fa_polrel r0 r ->
  LRel is_lim (fa_next_tail fuel ffuel r0) (fa_next_tail fuel ffuel r).
Proof.
  intros Hr. unfold fa_next_tail.
  destruct (fa_polrel_fields _ _ Hr) as (_ & _ & _ & _ & _ & _ & _ & _ & Est & _). rewrite Est.
  assert (H1 : snd (if fa_state_eqb (st r0) FIncomplete then (r, SFound true) else fa_search r) =
               snd (if fa_state_eqb (st r0) FIncomplete then (r0, SFound true) else fa_search r0) /\
               fa_polrel (fst (if fa_state_eqb (st r0) FIncomplete then (r0, SFound true) else fa_search r0))
                         (fst (if fa_state_eqb (st r0) FIncomplete then (r, SFound true) else fa_search r))).
  { destruct (fa_state_eqb (st r0) FIncomplete); [split; [reflexivity|exact Hr]|].
    apply (polind_rel fa_search fa_search_pi). exact Hr. }
  destruct H1 as [Hs Hr1].
  destruct (if fa_state_eqb (st r0) FIncomplete then (r0, SFound true) else fa_search r0) as [r10 sr0].
  destruct (if fa_state_eqb (st r0) FIncomplete then (r, SFound true) else fa_search r) as [r1 sr].
  cbn [fst snd] in *. subst sr.
  destruct sr0 as [b|x]; [|apply LRel_same; exact Hr1].
  destruct (fa_polrel_fields _ _ Hr1) as (Eb1 & _ & _ & Es1 & Eq1 & _ & _ & _ & Est1 & _).
  rewrite Est1. unfold fa_cur. rewrite Eb1, Es1, Eq1.
  destruct (fa_state_eqb (st r10) FIncomplete); [|apply LRel_same; exact Hr1].
  destruct (fa_resume_rel ffuel true fuel r10 r1 Hr1) as [[Hrr Hr2]|Hl].
  2:{ destruct (fa_resume fuel ffuel true r1) as [r2 rr]. cbn [snd] in Hl. unfold is_rlim in Hl. subst rr.
      right. destruct (fa_resume fuel ffuel true r10) as [r20 rr0]. reflexivity. }
  destruct (fa_resume fuel ffuel true r10) as [r20 rr0]. destruct (fa_resume fuel ffuel true r1) as [r2 rr].
  cbn [fst snd] in *. subst rr.
  destruct rr0 as [[|]|e|x|]; try (apply LRel_same; exact Hr2).
  destruct (fa_polrel_fields _ _ Hr2) as (Eb2 & _ & _ & Es2 & Eq2 & _ & _ & _ & Est2 & _).
  rewrite Est2. destruct (fa_state_eqb (st r20) FFinished).
  - rewrite Eb2, Es2, Eq2. apply LRel_same. exact Hr2.
  - fa_simpl. rewrite Eb2, Es2, Eq2. apply LRel_same. apply fa_polrel_st. exact Hr2.
Qed.

Theorem fa_next_rel fuel ffuel r0 r : fa_polrel r0 r ->
  LRel is_lim (fa_next fuel ffuel r0) (fa_next fuel ffuel r).
Proof.
  intros Hr. unfold fa_next.
  destruct (fa_polrel_fields _ _ Hr) as (_ & _ & _ & _ & _ & _ & _ & _ & Est & _). rewrite Est.
  destruct (st r0).
  - destruct (polind_rel (fa_init fuel ffuel) (fa_init_pi fuel ffuel) r0 r Hr) as [Hi Hr1].
    destruct (fa_init fuel ffuel r0) as [r10 ir0]. destruct (fa_init fuel ffuel r) as [r1 ir].
    cbn [fst snd] in *. subst ir.
    destruct ir0 as [[|]|e|]; try (apply LRel_same; exact Hr1).
    apply fa_next_tail_rel. apply fa_polrel_st. exact Hr1.
  - pose proof (fa_increment_pol r0 r Hr) as Hi.
    destruct (fa_increment r0) as [a0|]; destruct (fa_increment r) as [a|]; try contradiction.
    + apply fa_next_tail_rel. exact Hi.
    + apply LRel_same. exact Hr.
  - apply fa_next_tail_rel. exact Hr.
  - apply fa_next_tail_rel. apply fa_polrel_st. exact Hr.
  - apply LRel_same. exact Hr.
Qed.

(* ------------------------------------------------------------------ *)
(** * FASTA: record sets *)

Definition is_llim (x : lres) : Prop := x = LErr FaBufferLimit.

Definition LRel3 {X Y} (isl : Y -> Prop) (x0 x : fa * X * Y) : Prop :=
  (snd x = snd x0 /\ snd (fst x) = snd (fst x0) /\ fa_polrel (fst (fst x0)) (fst (fst x))) \/ isl (snd x).

Lemma LRel3_same {X Y} (isl : Y -> Prop) a0 a (p : X) (y : Y) : fa_polrel a0 a -> LRel3 isl (a0, p, y) (a, p, y).
Proof. intros H. left. cbn [fst snd]. auto. Qed.

Lemma fa_set_put_pol rs r0 r : fa_polrel r0 r -> fa_set_put rs r = fa_set_put rs r0.
Proof. intros Hr. unfold fa_polrel in Hr. subst r0. reflexivity. Qed.

Lemma fa_set_loop_rel rfuel ffuel : forall fuel n is_new r0 r rs, fa_polrel r0 r ->
  LRel3 is_llim (fa_set_loop fuel rfuel ffuel n is_new r0 rs) (fa_set_loop fuel rfuel ffuel n is_new r rs).
Proof.
  induction fuel as [|f IH]; intros n is_new r0 r rs Hr.
  { cbn [fa_set_loop]. apply LRel3_same. exact Hr. }
  assert (Hfound : forall a0 a rs2, fa_polrel a0 a ->
            LRel3 is_llim (sl_found f rfuel ffuel n is_new a0 rs2) (sl_found f rfuel ffuel n is_new a rs2)).
  { intros a0 a rs2 Ha. unfold sl_found. rewrite (fa_set_put_pol rs2 a0 a Ha).
    pose proof (fa_increment_pol a0 a Ha) as Hi.
    destruct (fa_increment a0) as [b0|]; destruct (fa_increment a) as [b|]; try contradiction.
    - destruct (reached n (snpos (fa_set_put rs2 a0))); [apply LRel3_same; exact Hi|].
      apply IH. exact Hi.
    - apply LRel3_same. exact Ha. }
  rewrite !fa_set_loop_S.
  destruct (fa_polrel_fields _ _ Hr) as (_ & _ & _ & _ & _ & _ & _ & _ & Est & _). rewrite Est.
  destruct (fa_state_eqb (st r0) FFinished); [apply LRel3_same; exact Hr|].
  destruct (fa_state_eqb (st r0) FIncomplete).
  - destruct (fa_resume_rel ffuel is_new rfuel r0 r Hr) as [[Hrr Hr1]|Hl].
    2:{ destruct (fa_resume rfuel ffuel is_new r) as [r1 rr]. cbn [snd] in Hl. unfold is_rlim in Hl. subst rr.
        right. destruct (fa_resume rfuel ffuel is_new r0) as [r10 rr0]. reflexivity. }
    destruct (fa_resume rfuel ffuel is_new r0) as [r10 rr0]. destruct (fa_resume rfuel ffuel is_new r) as [r1 rr].
    cbn [fst snd] in *. subst rr.
    destruct rr0 as [[|]|e|x|]; try (apply LRel3_same; exact Hr1).
    destruct (fa_polrel_fields _ _ Hr1) as (_ & _ & _ & _ & _ & _ & _ & _ & Est1 & _). rewrite Est1.
    destruct (fa_state_eqb (st r10) FFinished).
    + apply Hfound. exact Hr1.
    + apply Hfound. apply fa_polrel_st. exact Hr1.
  - destruct (polind_rel fa_search fa_search_pi r0 r Hr) as [Hs Hr1].
    destruct (fa_search r0) as [r10 sr0]. destruct (fa_search r) as [r1 sr]. cbn [fst snd] in *. subst sr.
    destruct sr0 as [[|]|x].
    + apply Hfound. exact Hr1.
    + destruct (snpos rs =? 0); [apply IH; exact Hr1|].
      destruct (below n (snpos rs)); [apply IH; exact Hr1|].
      apply LRel3_same. exact Hr1.
    + apply LRel3_same. exact Hr1.
Qed.

Theorem fa_read_set_rel fuel ffuel n r0 r rs : fa_polrel r0 r ->
  LRel3 is_lim (fa_read_set fuel ffuel n r0 rs) (fa_read_set fuel ffuel n r rs).
Proof.
  intros Hr. unfold fa_read_set.
  assert (Hgo : forall a0 a, fa_polrel a0 a ->
    LRel3 is_lim (fa_set_finish (fa_set_loop fuel fuel ffuel n true a0 (mkFaSet (sbuf rs) (spositions rs) 0)))
                 (fa_set_finish (fa_set_loop fuel fuel ffuel n true a (mkFaSet (sbuf rs) (spositions rs) 0)))).
  { intros a0 a Ha.
    destruct (fa_set_loop_rel fuel ffuel fuel n true a0 a (mkFaSet (sbuf rs) (spositions rs) 0) Ha)
      as [(Hlr & Hps & Hr1)|Hl].
    2:{ destruct (fa_set_loop fuel fuel ffuel n true a (mkFaSet (sbuf rs) (spositions rs) 0)) as [[r1 ps1] lr].
        cbn [snd] in Hl. unfold is_llim in Hl. subst lr. right. reflexivity. }
    destruct (fa_set_loop fuel fuel ffuel n true a0 (mkFaSet (sbuf rs) (spositions rs) 0)) as [[r10 ps10] lr0].
    destruct (fa_set_loop fuel fuel ffuel n true a (mkFaSet (sbuf rs) (spositions rs) 0)) as [[r1 ps1] lr].
    cbn [fst snd] in *. subst lr ps1. unfold fa_set_finish.
    destruct (fa_polrel_fields _ _ Hr1) as (Eb & _).
    destruct lr0; try rewrite Eb; apply LRel3_same; exact Hr1. }
  destruct (fa_polrel_fields _ _ Hr) as (_ & _ & _ & _ & _ & _ & _ & _ & Est & _). rewrite Est.
  destruct (st r0).
  - destruct (polind_rel (fa_init fuel ffuel) (fa_init_pi fuel ffuel) r0 r Hr) as [Hi Hr1].
    destruct (fa_init fuel ffuel r0) as [r10 ir0]. destruct (fa_init fuel ffuel r) as [r1 ir].
    cbn [fst snd] in *. subst ir.
    destruct ir0 as [[|]|e|]; try (apply LRel3_same; exact Hr1).
    apply Hgo. apply fa_polrel_st. exact Hr1.
  - pose proof (fa_increment_pol r0 r Hr) as Hi.
    destruct (fa_increment r0) as [a0|]; destruct (fa_increment r) as [a|]; try contradiction.
    + apply Hgo. apply fa_polrel_st. exact Hi.
    + apply LRel3_same. exact Hr.
  - apply Hgo. exact Hr.
  - apply Hgo. exact Hr.
  - apply LRel3_same. exact Hr.
Qed.

Theorem fa_seek_rel ffuel r0 r line byte_ : fa_polrel r0 r ->
  LRel is_lim (fa_seek ffuel r0 line byte_) (fa_seek ffuel r line byte_).
Proof. apply (polind_LRel is_lim (fun a => fa_seek ffuel a line byte_) (fa_seek_pi ffuel line byte_)). Qed.

Lemma fa_position_rel r0 r : fa_polrel r0 r -> fa_position r = fa_position r0.
Proof. intros Hr. unfold fa_polrel in Hr. subst r0. reflexivity. Qed.

(** a fresh reader with policy [p] is related to the fresh reader with the completed policy *)
Lemma fa_polrel_new cap0 s p : fa_polrel (fa_new cap0 s (pol_complete p)) (fa_new cap0 s p).
Proof. reflexivity. Qed.

(** installing a policy [q] on one side and its completion on the other re-establishes the
    relation (from ANY pair of states that differ in the policy fields only) *)
Lemma fa_polrel_set_policy r0 r q : set_pol r0 q [] = set_pol r q [] ->
  fa_polrel (fa_set_policy r0 (pol_complete q)) (fa_set_policy r q).
Proof.
  intros H. unfold fa_polrel, fa_set_policy. fa_simpl.
  apply (f_equal (fun a => set_pol a (pol_complete q) [])) in H. exact H.
Qed.

Theorem fa_calls_before_refusal :
  (forall fuel ffuel r0 r r0' o0 r' o, fa_polrel r0 r ->
     fa_next fuel ffuel r0 = (r0', o0) -> fa_next fuel ffuel r = (r', o) ->
     (o = o0 /\ fa_polrel r0' r') \/ o = OErr FaBufferLimit) /\
  (forall fuel ffuel n r0 r rs r0' rs0' o0 r' rs' o, fa_polrel r0 r ->
     fa_read_set fuel ffuel n r0 rs = (r0', rs0', o0) -> fa_read_set fuel ffuel n r rs = (r', rs', o) ->
     (o = o0 /\ rs' = rs0' /\ fa_polrel r0' r') \/ o = OErr FaBufferLimit) /\
  (forall ffuel r0 r line byte_ r0' o0 r' o, fa_polrel r0 r ->
     fa_seek ffuel r0 line byte_ = (r0', o0) -> fa_seek ffuel r line byte_ = (r', o) ->
     o = o0 /\ fa_polrel r0' r') /\
  (forall r0 r, fa_polrel r0 r -> fa_position r = fa_position r0).
Proof.
  split; [|split; [|split]].
  - intros fuel ffuel r0 r r0' o0 r' o Hr E0 E.
    pose proof (fa_next_rel fuel ffuel r0 r Hr) as H. rewrite E0, E in H. exact H.
  - intros fuel ffuel n r0 r rs r0' rs0' o0 r' rs' o Hr E0 E.
    pose proof (fa_read_set_rel fuel ffuel n r0 r rs Hr) as H. rewrite E0, E in H. exact H.
  - intros ffuel r0 r line byte_ r0' o0 r' o Hr E0 E.
    pose proof (polind_rel (fun a => fa_seek ffuel a line byte_) (fa_seek_pi ffuel line byte_) r0 r Hr) as H.
    cbv beta in H. rewrite E0, E in H. exact H.
  - exact fa_position_rel.
Qed.

(* ------------------------------------------------------------------ *)
(** * FASTA: histories *)

Definition h_polrel (h0 h : hstate) : Prop :=
  fa_polrel (h_r h0) (h_r h) /\ h_s0 h = h_s0 h0 /\ h_s1 h = h_s1 h0.

Lemma h_init_polrel inp cap0 rs sks pol :
  h_polrel (h_init inp cap0 rs sks (pol_complete pol)) (h_init inp cap0 rs sks pol).
Proof. unfold h_polrel, h_init. cbn [h_r h_s0 h_s1]. split; [reflexivity|split; reflexivity]. Qed.

Lemma fa_hstep_rel fuel ffuel tgt h0 h op : h_polrel h0 h ->
  (snd (fa_hstep fuel ffuel tgt h op) = snd (fa_hstep fuel ffuel tgt h0 op) /\
   h_polrel (fst (fa_hstep fuel ffuel tgt h0 op)) (fst (fa_hstep fuel ffuel tgt h op))) \/
  snd (fa_hstep fuel ffuel tgt h op) = HoErr FaBufferLimit.
Proof.
  destruct h0 as [r0 a0 b0], h as [r a b]. unfold h_polrel. cbn [h_r h_s0 h_s1]. intros (Hr & -> & ->).
  assert (Hget : forall slot, h_get (mkH r a0 b0) slot = h_get (mkH r0 a0 b0) slot) by (intros [|slot]; reflexivity).
  assert (Hset : forall n slot,
    let x0 := fa_read_set fuel ffuel n r0 (h_get (mkH r0 a0 b0) slot) in
    let x := fa_read_set fuel ffuel n r (h_get (mkH r0 a0 b0) slot) in
    ((match snd x with OSetOk => HoSet (fa_set_records (snd (fst x))) | _ => out_obs (snd x) end) =
     (match snd x0 with OSetOk => HoSet (fa_set_records (snd (fst x0))) | _ => out_obs (snd x0) end) /\
     h_polrel (h_put (h_with (mkH r0 a0 b0) (fst (fst x0))) slot (snd (fst x0)))
              (h_put (h_with (mkH r a0 b0) (fst (fst x))) slot (snd (fst x)))) \/
    (match snd x with OSetOk => HoSet (fa_set_records (snd (fst x))) | _ => out_obs (snd x) end) = HoErr FaBufferLimit).
  { intros n slot. cbv zeta.
    destruct (fa_read_set_rel fuel ffuel n r0 r (h_get (mkH r0 a0 b0) slot) Hr) as [(Ho & Hx & Hr')|Hl].
    - destruct (fa_read_set fuel ffuel n r0 (h_get (mkH r0 a0 b0) slot)) as [[r0' rs0'] o0].
      destruct (fa_read_set fuel ffuel n r (h_get (mkH r0 a0 b0) slot)) as [[r' rs'] o].
      cbn [fst snd] in *. subst o rs'. left. split; [reflexivity|].
      unfold h_polrel, h_with, h_put. destruct slot; cbn [h_r h_s0 h_s1]; auto.
    - destruct (fa_read_set fuel ffuel n r (h_get (mkH r0 a0 b0) slot)) as [[r' rs'] o].
      cbn [fst snd] in *. unfold is_lim in Hl. subst o. right. reflexivity. }
  destruct op as [| |slot|slot n|slot| |k]; cbn [fa_hstep h_r].
  - destruct (fa_next_rel fuel ffuel r0 r Hr) as [[Ho Hr']|Hl].
    + destruct (fa_next fuel ffuel r0) as [r0' o0]. destruct (fa_next fuel ffuel r) as [r' o].
      cbn [fst snd] in *. subst o. left. split; [reflexivity|].
      unfold h_polrel, h_with. cbn [h_r h_s0 h_s1]. auto.
    + destruct (fa_next fuel ffuel r) as [r' o]. cbn [fst snd] in *. unfold is_lim in Hl. subst o.
      right. reflexivity.
  - destruct (fa_next_rel fuel ffuel r0 r Hr) as [[Ho Hr']|Hl].
    + destruct (fa_next fuel ffuel r0) as [r0' o0]. destruct (fa_next fuel ffuel r) as [r' o].
      cbn [fst snd] in *. subst o. left. split; [reflexivity|].
      unfold h_polrel, h_with. cbn [h_r h_s0 h_s1]. auto.
    + destruct (fa_next fuel ffuel r) as [r' o]. cbn [fst snd] in *. unfold is_lim in Hl. subst o.
      right. reflexivity.
  - rewrite Hget. specialize (Hset None slot). cbv zeta in Hset.
    destruct (fa_read_set fuel ffuel None r0 (h_get (mkH r0 a0 b0) slot)) as [[r0' rs0'] o0].
    destruct (fa_read_set fuel ffuel None r (h_get (mkH r0 a0 b0) slot)) as [[r' rs'] o].
    exact Hset.
  - rewrite Hget. specialize (Hset (Some n) slot). cbv zeta in Hset.
    destruct (fa_read_set fuel ffuel (Some n) r0 (h_get (mkH r0 a0 b0) slot)) as [[r0' rs0'] o0].
    destruct (fa_read_set fuel ffuel (Some n) r (h_get (mkH r0 a0 b0) slot)) as [[r' rs'] o].
    exact Hset.
  - left. cbn [fst snd]. rewrite Hget. split; [reflexivity|]. unfold h_polrel. cbn [h_r h_s0 h_s1]. auto.
  - left. cbn [fst snd]. split; [reflexivity|]. unfold h_polrel. cbn [h_r h_s0 h_s1]. auto.
  - destruct (tgt k) as [[line byte_]|].
    + destruct (polind_rel (fun a => fa_seek ffuel a line byte_) (fa_seek_pi ffuel line byte_) r0 r Hr) as [Ho Hr'].
      cbv beta in Ho, Hr'.
      destruct (fa_seek ffuel r0 line byte_) as [r0' o0]. destruct (fa_seek ffuel r line byte_) as [r' o].
      cbn [fst snd] in *. subst o. left. split; [reflexivity|].
      unfold h_polrel, h_with. cbn [h_r h_s0 h_s1]. auto.
    + left. cbn [fst snd]. split; [reflexivity|]. unfold h_polrel. cbn [h_r h_s0 h_s1]. auto.
Qed.

Lemma fa_hist_rel fuel ffuel tgt : forall ops h0 h, h_polrel h0 h ->
  exists j, j <= length ops /\
    firstn j (fst (fa_hist fuel ffuel tgt ops h)) = firstn j (fst (fa_hist fuel ffuel tgt ops h0)) /\
    (j = length ops \/ exists p, nth_error (fst (fa_hist fuel ffuel tgt ops h)) j = Some (HoErr FaBufferLimit, p)).
Proof.
  induction ops as [|op ops IH]; intros h0 h Hc.
  { exists 0. cbn [length firstn]. split; [lia|]. split; [reflexivity|]. left. reflexivity. }
  rewrite !fa_hist_fst_cons.
  destruct (fa_hstep_rel fuel ffuel tgt h0 h op Hc) as [(Ho & Hc')|Hk].
  - destruct (IH _ _ Hc') as (j & Hj & Hpre & Hend).
    exists (S j). cbn [length firstn nth_error]. split; [lia|]. split.
    + rewrite Ho, Hpre. rewrite (fa_position_rel _ _ (proj1 Hc')). reflexivity.
    + destruct Hend as [->|Hend]; [left; reflexivity|right; exact Hend].
  - exists 0. cbn [length firstn nth_error]. split; [lia|]. split; [reflexivity|].
    right. rewrite Hk. eauto.
Qed.

Theorem fa_history_before_refusal inp cap0 rs sks pol fuel ffuel tgt ops :
  let obs  := fst (fa_hist fuel ffuel tgt ops (h_init inp cap0 rs sks pol)) in
  let obs0 := fst (fa_hist fuel ffuel tgt ops (h_init inp cap0 rs sks (pol_complete pol))) in
  exists j, j <= length ops /\ firstn j obs = firstn j obs0 /\
            (j = length ops \/ exists p, nth_error obs j = Some (HoErr FaBufferLimit, p)).
Proof. cbv zeta. apply fa_hist_rel. apply h_init_polrel. Qed.

Theorem fa_records_before_refusal inp cap0 rs sks pol fuel ffuel ops :
  3 <= cap0 -> forallb item_ok rs = true -> forallb sitem_ok sks = true ->
  length rs + 2 <= ffuel -> length inp + 2 <= fuel -> Forall hop_ok ops ->
  let obs := fst (fa_hist fuel ffuel (tgt_spec inp) ops (h_init inp cap0 rs sks pol)) in
  exists j items c' g',
    j <= length ops /\
    (j = length ops \/ exists p, nth_error obs j = Some (HoErr FaBufferLimit, p)) /\
    FaOSpec inp items /\ Forall2 (item_rel inp) items (fa_spec inp) /\
    hrun_ok inp (map to_citem items) (CAt 0) ([], []) (firstn j ops) (firstn j obs) c' g'.
Proof.
  intros Hcap Hrs Hsks Hff Hfuel Hops. cbv zeta.
  destruct (fa_hist_refines_spec inp cap0 rs sks (pol_complete pol) fuel ffuel ops Hcap Hrs Hsks
              (pol_complete_PolOk pol) Hff Hfuel Hops) as (items & c' & g' & Hspec & Hrel & Hrun).
  destruct (fa_history_before_refusal inp cap0 rs sks pol fuel ffuel (tgt_spec inp) ops) as (j & Hj & Hpre & Hend).
  destruct (hrun_firstn _ _ _ _ _ _ _ _ Hrun j) as (c1 & g1 & H1).
  exists j, items, c1, g1. split; [exact Hj|]. split; [exact Hend|]. split; [exact Hspec|]. split; [exact Hrel|].
  rewrite Hpre. exact H1.
Qed.

Lemma fa_hist_length fuel ffuel tgt : forall ops h, length (fst (fa_hist fuel ffuel tgt ops h)) = length ops.
Proof.
  induction ops as [|op ops IH]; intros h; [reflexivity|]. rewrite fa_hist_fst_cons. cbn [length]. rewrite IH. reflexivity.
Qed.

(** if no consultation is refused the whole history is the run of the completed policy *)
Corollary fa_history_no_refusal inp cap0 rs sks pol fuel ffuel tgt ops :
  let obs  := fst (fa_hist fuel ffuel tgt ops (h_init inp cap0 rs sks pol)) in
  let obs0 := fst (fa_hist fuel ffuel tgt ops (h_init inp cap0 rs sks (pol_complete pol))) in
  (forall p, ~ In (HoErr FaBufferLimit, p) obs) -> obs = obs0.
Proof.
  cbv zeta. intros Hno.
  destruct (fa_history_before_refusal inp cap0 rs sks pol fuel ffuel tgt ops) as (j & Hj & Hpre & Hend).
  cbv zeta in Hpre, Hend.
  destruct Hend as [->|(p & Hp)].
  - pose proof (fa_hist_length fuel ffuel tgt ops) as L.
    pose proof (L (h_init inp cap0 rs sks pol)) as L1.
    pose proof (L (h_init inp cap0 rs sks (pol_complete pol))) as L2.
    rewrite <- (firstn_all (fst (fa_hist fuel ffuel tgt ops (h_init inp cap0 rs sks pol)))), L1.
    rewrite <- (firstn_all (fst (fa_hist fuel ffuel tgt ops (h_init inp cap0 rs sks (pol_complete pol))))), L2.
    exact Hpre.
  - exfalso. apply (Hno p). eapply nth_error_In. exact Hp.
Qed.

(* ------------------------------------------------------------------ *)
(** * FASTA: the state in which a buffer-limit error leaves the reader *)

(** the reader is in the middle of the search for the end of the current record: the
    buffer is a full window of the input, the search state is a reachable state of the
    whole-input search [T]; NO hypothesis on the policy *)
Record MidSt (inp : list byte) (ffuel : nat) (r : fa) (off : nat) (T : bool * nat * list nat) : Prop := mkMidSt {
  ms_win : Win inp ffuel r off;
  ms_full : length (buf r) = cap r;
  ms_cap : 1 <= cap r;
  ms_lt : start r < spos r;
  ms_le : spos r <= length (buf r);
  ms_wf : SeqWf (start r) (spos r) (seqpos r);
  ms_inv : ScanInv inp r off T;
  ms_st : st r = FIncomplete
}.

Lemma fa_grow_cases r : length (buf r) = cap r -> 1 <= cap r ->
  (exists n, cap r < n /\
     fa_grow r = (set_cap (set_log (set_pol r (polf r) (cap r :: polh r))
                                   (EvGrow (cap r) (Some n) :: log r)) n, GOk)) \/
  (exists ans, fa_grow r = (set_log (set_pol r (polf r) (cap r :: polh r))
                                    (EvGrow (cap r) ans :: log r), GErr FaBufferLimit)).
Proof.
  intros Hfull Hc. unfold fa_grow.
  destruct (polf r (polh r) (cap r)) as [n|]; [|right; eexists; reflexivity].
  destruct (n <=? cap r) eqn:E; [right; eexists; reflexivity|].
  apply Nat.leb_gt in E. left. exists n. split; [exact E|].
  f_equal. f_equal. cbn [buf set_log set_pol]. unfold br_reserve. rewrite Hfull, Nat.sub_diag.
  assert ((n - cap r <=? 0) = false) as -> by (apply Nat.leb_gt; lia).
  destruct (buf r) as [|b0 bs] eqn:Eb; [cbn in Hfull; lia|]. lia.
Qed.

Lemma resume_limit inp ffuel mk : forall fuel r off T r',
  MidSt inp ffuel r off T ->
  fa_resume fuel ffuel mk r = (r', RsErr FaBufferLimit) ->
  exists off', MidSt inp ffuel r' off' T /\ start r' + off' = start r + off /\
               polf r' = polf r /\ pline r' = pline r /\ pbyte r' = pbyte r.
Proof.
  induction fuel as [|f IH]; intros r off T r' [W Hfull Hc1 Hst Hsp Hwf Hinv Hstate] H; [discriminate H|].
  cbn [fa_resume] in H.
  pose proof (win_len _ _ _ _ W) as Hl. pose proof (w_off _ _ _ _ W) as Hoff. pose proof (w_pos _ _ _ _ W) as Hpos.
  assert (Hge : Forall (fun x => start r <= x) (seqpos r)) by (eapply SeqWf_ge; eassumption).
  assert (Hstep :
    (exists r1 off1,
      (if negb mk || (start r =? 0) then fa_grow r else fa_make_room r) = (r1, GOk) /\
      Win inp ffuel r1 off1 /\ s_pos (src r1) = s_pos (src r) /\ src r1 = src r /\
      s_pos (src r) < off1 + cap r1 /\ 1 <= cap r1 /\
      start r1 + off1 = start r + off /\ spos r1 + off1 = spos r + off /\
      shift off1 (seqpos r1) = shift off (seqpos r) /\
      start r1 < spos r1 /\ spos r1 <= length (buf r1) /\ SeqWf (start r1) (spos r1) (seqpos r1) /\
      polf r1 = polf r /\ pline r1 = pline r /\ pbyte r1 = pbyte r /\ st r1 = st r) \/
    (exists r1, (if negb mk || (start r =? 0) then fa_grow r else fa_make_room r) = (r1, GErr FaBufferLimit) /\
      MidSt inp ffuel r1 off T /\ start r1 = start r /\ polf r1 = polf r /\ pline r1 = pline r /\ pbyte r1 = pbyte r)).
  { destruct (negb mk || (start r =? 0)) eqn:Eb.
    - destruct (fa_grow_cases r Hfull Hc1) as [(n & Hn & ->)|(ans & ->)].
      + left. eexists _, off. split; [reflexivity|].
        cbn [buf src cap start spos seqpos polf pline pbyte st set_cap set_log set_pol].
        split; [destruct W as [W1 W2 W3 W4 W5 W6 W7]; constructor; cbn [buf src cap set_cap set_log set_pol]; auto; lia|].
        splits; auto; try lia.
      + right. eexists. split; [reflexivity|].
        split; [|cbn [start polf pline pbyte set_log set_pol]; auto].
        constructor; cbn [buf src cap start spos seqpos st set_log set_pol]; auto.
        eapply Win_ext; [| | |exact W]; reflexivity.
    - left. apply orb_false_iff in Eb. destruct Eb as [Emk E0]. apply Nat.eqb_neq in E0.
      rewrite (fa_make_room_ok r) by (auto; lia).
      eexists _, (off + start r). split; [reflexivity|].
      cbn [buf src cap start spos seqpos polf pline pbyte st set_seqpos set_spos set_start set_buf].
      assert (Hw1 : skipn (start r) (buf r) = window inp (off + start r) (s_pos (src r))).
      { rewrite (skipn_window_buf _ _ _ _ _ W) by lia. f_equal. lia. }
      split.
      { destruct W as [W1 W2 W3 W4 W5 W6 W7].
        constructor; cbn [buf src cap set_seqpos set_spos set_start set_buf]; auto; try lia.
        rewrite skipn_length. lia. }
      rewrite skipn_length.
      splits; auto; try lia.
      + apply shift_rebase; assumption.
      + replace 0 with (start r - start r) by lia. apply SeqWf_rebase; [lia|assumption]. }
  destruct Hstep as [(r1 & off1 & Eroom & W1 & Hp1 & Hsrc1 & Hroom & Hc1' & Hs1 & Hsp1 & Hsh1 & Hst1 & Hspl1 & Hwf1
                     & Hpf1 & Hpl1 & Hpb1 & Hstt1)|(r1 & Eroom & HM & Hs1 & Hpf1 & Hpl1 & Hpb1)].
  2:{ rewrite Eroom in H. inversion H; subst r'. exists off. splits; auto; lia. }
  rewrite Eroom in H.
  destruct (fa_fill_ok _ _ _ _ W1) as (s' & lg' & Hfill & Hps' & Hds' & Hnf' & Hfu' & _ & _ & Hle').
  cbv zeta in Hfill. rewrite Hfill in H.
  set (e' := Nat.min (off1 + cap r1) (length inp)) in *.
  set (r2 := set_log (set_src (set_buf r1 (window inp off1 e')) s') lg') in *.
  assert (Hoff1 : off1 <= s_pos (src r1)) by (apply (w_off _ _ _ _ W1)).
  assert (Hwl : length (window inp off1 e') = e' - off1) by (apply window_length; unfold e'; lia).
  assert (W2 : Win inp ffuel r2 off1).
  { constructor; unfold r2; cbn [buf src cap set_log set_src set_buf]; rewrite ?Hps', ?Hwl; auto; try (unfold e'; lia). }
  assert (He2 : EofKnown inp r2).
  { unfold EofKnown, r2; cbn [buf src cap set_log set_src set_buf]. rewrite Hwl, Hps'. unfold e'. lia. }
  assert (Hsp2 : spos r2 <= length (buf r2)).
  { unfold r2; cbn [buf spos set_log set_src set_buf]. rewrite Hwl.
    pose proof (win_len _ _ _ _ W1). lia. }
  assert (Hinv2 : ScanInv inp r2 off1 T).
  { unfold ScanInv, r2; cbn [spos seqpos set_log set_src set_buf]. rewrite Hsp1, Hsh1. exact Hinv. }
  pose proof (search_spec inp ffuel r2 off1 T W2 He2 Hsp2 Hst1 Hwf1 Hinv2) as Hsearch.
  destruct (fa_search r2) as [r3 sr].
  inversion Hsearch as [sp sq HT Hlt Hle Hw Hne | sp sq HT Heof Hle1 Hle2 Hw | sp sq HT Hfull3 Hle1 Hle2 Hw]; subst r3 sr;
    try discriminate H.
  set (r3 := set_st (set_seqpos (set_spos r2 sp) sq) FIncomplete) in *.
  assert (W3 : Win inp ffuel r3 off1) by (eapply Win_ext; [| | |exact W2]; reflexivity).
  assert (Hfull3' : length (buf r3) = cap r3) by exact Hfull3.
  assert (Hle1' : spos r1 <= sp) by exact Hle1.
  assert (Hle2' : sp <= length (buf r3)) by exact Hle2.
  assert (Hw' : SeqWf (start r1) sp sq) by exact Hw.
  assert (HM3 : MidSt inp ffuel r3 off1 T).
  { constructor; auto;
      unfold r3, r2; cbn [buf cap start spos seqpos st set_st set_seqpos set_spos set_log set_src set_buf];
      try assumption; try lia. }
  destruct (IH r3 off1 T r' HM3 H) as (off' & HM' & Hs' & Hpf' & Hpl' & Hpb').
  exists off'. split; [exact HM'|].
  unfold r3, r2 in Hs', Hpf', Hpl', Hpb';
    cbn [start polf pline pbyte set_st set_seqpos set_spos set_log set_src set_buf] in Hs', Hpf', Hpl', Hpb'.
  splits; try congruence; lia.
Qed.

(** between calls, after a buffer-limit error: the search for the end of the record at [s]
    (header on line [line]) is suspended *)
Definition MidRec (inp : list byte) (ffuel : nat) (r : fa) (s line : nat) : Prop :=
  exists off, MidSt inp ffuel r off (scan_abs inp (S s) []) /\ start r + off = s /\ pbyte r = s /\ pline r = line.

Lemma next_tail_limit inp ffuel fuel r off s line r' :
  Win inp ffuel r off -> EofKnown inp r -> start r + off = s -> start r < length (buf r) ->
  nth_error inp s = Some GT -> (spos r = start r \/ spos r = S (start r)) -> seqpos r = [] ->
  st r = FParsing -> pbyte r = s -> pline r = line -> 1 <= cap r ->
  fa_next_tail fuel ffuel r = (r', OErr FaBufferLimit) ->
  MidRec inp ffuel r' s line /\ polf r' = polf r.
Proof.
  intros W He Hs Hlt Hgt Hsp Hsq Hst Hpb Hpl Hcap H.
  set (T := scan_abs inp (S s) []).
  unfold fa_next_tail in H. rewrite Hst in H. cbn [fa_state_eqb] in H.
  pose proof (win_len _ _ _ _ W) as Hl. pose proof (w_off _ _ _ _ W) as Hoff. pose proof (w_pos _ _ _ _ W) as Hpos.
  assert (Hb : nth_error (buf r) (start r) = Some GT).
  { rewrite (w_buf _ _ _ _ W). rewrite window_nth by lia. rewrite Nat.add_comm, Hs. exact Hgt. }
  set (ra := set_spos r (S (start r))).
  assert (Hsearch_eq : fa_search r = fa_search ra).
  { destruct Hsp as [Hsp|Hsp].
    - rewrite (fa_search_skip r GT) by (rewrite ?Hsp; auto). unfold ra. rewrite Hsp. reflexivity.
    - unfold ra. rewrite <- Hsp. destruct r; reflexivity. }
  rewrite Hsearch_eq in H.
  assert (Wa : Win inp ffuel ra off) by (eapply Win_ext; [| | |exact W]; reflexivity).
  assert (Hsa : search_case inp ra off T (fa_search ra)).
  { apply (search_spec inp ffuel ra off T Wa); unfold ra; cbn [buf cap src spos start seqpos set_spos]; auto; try lia.
    - rewrite Hsq. apply SeqWf_nil.
    - unfold ScanInv; cbn [spos seqpos set_spos]. rewrite Hsq. cbn [shift map].
      unfold T. f_equal. lia. }
  destruct (fa_search ra) as [r1 sr].
  inversion Hsa as [sp sq HT Hlt1 Hle Hw Hne | sp sq HT Heof Hle1 Hle2 Hw | sp sq HT Hfull Hle1 Hle2 Hw]; subst r1 sr.
  - exfalso. cbn [st set_seqpos set_spos] in H. unfold ra in H; cbn [st set_spos] in H. rewrite Hst in H.
    cbn [fa_state_eqb] in H. discriminate H.
  - exfalso. cbn [st set_seqpos set_spos set_st] in H. cbn [fa_state_eqb] in H. discriminate H.
  - assert (Hle1' : S (start r) <= sp) by exact Hle1.
    assert (Hle2' : sp <= length (buf r)) by exact Hle2.
    assert (Hw' : SeqWf (start r) sp sq) by exact Hw.
    assert (Hfull' : length (buf r) = cap r) by exact Hfull.
    cbn [st set_seqpos set_spos set_st] in H. cbn [fa_state_eqb] in H.
    set (r1 := set_st (set_seqpos (set_spos ra sp) sq) FIncomplete) in *.
    assert (W1 : Win inp ffuel r1 off) by (eapply Win_ext; [| | |exact W]; reflexivity).
    assert (HM1 : MidSt inp ffuel r1 off T).
    { constructor; auto; unfold r1, ra; cbn [buf cap start spos seqpos st set_st set_seqpos set_spos];
        try assumption; try lia. }
    destruct (fa_resume fuel ffuel true r1) as [r2 rr] eqn:Er.
    destruct rr as [[|]|e|x|]; try discriminate H.
    inversion H; subst r2 e. clear H.
    destruct (resume_limit inp ffuel true fuel r1 off T r' HM1 Er) as (off' & HM' & Hs' & Hpf' & Hpl' & Hpb').
    unfold r1, ra in Hs', Hpf', Hpl', Hpb'; cbn [start polf pline pbyte set_st set_seqpos set_spos] in Hs', Hpf', Hpl', Hpb'.
    split; [|exact Hpf'].
    exists off'. split; [exact HM'|]. splits; congruence.
Qed.

(** from the suspended state, a never-refusing policy delivers the record *)
Lemma mid_next_ok inp ffuel fuel r s line :
  MidRec inp ffuel r s line -> PolOk (polf r) -> length inp < fuel ->
  exists r' off', fa_next fuel ffuel r = (r', ORec (fa_cur r')) /\
    AtRec inp ffuel r' off' s line (scan_abs inp (S s) []) /\
    RecAt inp (fa_cur r') s (FastaNextP.ends_of (scan_abs inp (S s) [])) /\ polf r' = polf r.
Proof.
  intros (off & [W Hfull Hc1 Hlt Hle Hwf Hinv Hstate] & Hs & Hpb & Hpl) Hpol Hfuel.
  set (T := scan_abs inp (S s) []) in *.
  pose proof (w_pos _ _ _ _ W) as Hpos.
  unfold fa_next. rewrite Hstate. unfold fa_next_tail. rewrite Hstate. cbn [fa_state_eqb]. rewrite Hstate. cbn [fa_state_eqb].
  destruct (resume_spec inp ffuel true fuel r off T W Hfull Hc1 Hpol Hlt Hle Hwf Hinv Hstate ltac:(lia)) as
    (r2 & off2 & Heq & W2 & He2 & Hs2 & Hpol2 & Hpf2 & Hpl2 & Hpb2 & Hc2 & Hst2 & Hsp2 & _ & Hfound).
  rewrite Heq.
  destruct Hfound as [(HT2 & Hnf & Hw2 & Hne2 & Hlt2) | (sq2 & HT2 & Hsq2 & Hfin & Hw2 & Heof2)].
  - assert ((fa_state_eqb (st r2) FFinished) = false) as -> by (destruct (st r2); try reflexivity; congruence).
    eexists _, off2. split; [reflexivity|]. split; [|split; [|cbn [polf set_st]; exact Hpf2]].
    + constructor; cbn [buf src cap start spos seqpos pline pbyte polf st set_st]; auto; try lia; try congruence.
      * eapply Win_ext; [| | |exact W2]; reflexivity.
      * left. splits; auto.
    + fold T. rewrite HT2. cbn [FastaNextP.ends_of]. rewrite <- Hs, <- Hs2.
      apply (RecAt_cur inp ffuel (set_st r2 FParsing) off2).
      * eapply Win_ext; [| | |exact W2]; reflexivity.
      * cbn [buf seqpos set_st]. eapply Forall_impl; [|apply (SeqWf_le _ _ _ Hw2)]. cbn; intros; lia.
  - rewrite Hfin. cbn [fa_state_eqb].
    eexists _, off2. split; [reflexivity|]. split; [|split; [|exact Hpf2]].
    + constructor; auto; try lia; try congruence.
      right. exists sq2. splits; auto.
    + fold T. rewrite HT2. cbn [FastaNextP.ends_of]. rewrite <- Hs, <- Hs2.
      replace (shift off2 sq2 ++ [spos r2 + off2]) with (shift off2 (seqpos r2))
        by (rewrite Hsq2, shift_app; reflexivity).
      apply (RecAt_cur inp ffuel r2 off2 W2).
      rewrite Hsq2. apply Forall_app. split.
      * eapply Forall_impl; [|apply (SeqWf_le _ _ _ Hw2)]. cbn; intros; lia.
      * constructor; [lia|constructor].
Qed.

(** ... and a policy that refuses again leaves the reader suspended at the same record *)
Lemma mid_next_limit inp ffuel fuel r s line r' :
  MidRec inp ffuel r s line -> fa_next fuel ffuel r = (r', OErr FaBufferLimit) ->
  MidRec inp ffuel r' s line /\ polf r' = polf r.
Proof.
  intros (off & HM & Hs & Hpb & Hpl) H.
  pose proof (ms_st _ _ _ _ _ HM) as Hstate.
  unfold fa_next in H. rewrite Hstate in H. unfold fa_next_tail in H. rewrite Hstate in H.
  cbn [fa_state_eqb] in H. rewrite Hstate in H. cbn [fa_state_eqb] in H.
  destruct (fa_resume fuel ffuel true r) as [r2 rr] eqn:Er.
  destruct rr as [[|]|e|x|]; try discriminate H.
  inversion H; subst r2 e. clear H.
  destruct (resume_limit inp ffuel true fuel r off _ r' HM Er) as (off' & HM' & Hs' & Hpf' & Hpl' & Hpb').
  split; [|exact Hpf']. exists off'. split; [exact HM'|]. splits; congruence.
Qed.

(* ------------------------------------------------------------------ *)
(** * FASTA: the between-calls invariant without a hypothesis on the policy *)

Lemma set_pol_id r : set_pol r (polf r) (polh r) = r.
Proof. destruct r; reflexivity. Qed.

Lemma AtRec_pol inp ffuel r q h q' h' off s line T :
  AtRec inp ffuel (set_pol r q h) off s line T -> PolOk q' -> AtRec inp ffuel (set_pol r q' h') off s line T.
Proof.
  intros [W He HT Hs Hpb Hpl Hpol Hcap Hlt Hle Hres] Hq.
  constructor; try assumption.
  eapply Win_ext; [| | |exact W]; reflexivity.
Qed.

(** [AtRec] of Proofs/FastaNextP.v, whatever the policy is *)
Definition AtRecA (inp : list byte) (ffuel : nat) (r : fa) (off s line : nat) (T : bool * nat * list nat) : Prop :=
  AtRec inp ffuel (set_pol r pol_std (polh r)) off s line T.

Lemma AtRecA_ok inp ffuel r off s line T : AtRecA inp ffuel r off s line T -> PolOk (polf r) -> AtRec inp ffuel r off s line T.
Proof. intros H Hp. rewrite <- (set_pol_id r). eapply AtRec_pol; eassumption. Qed.

Lemma AtRecA_twin inp ffuel r off s line T : AtRecA inp ffuel r off s line T ->
  AtRec inp ffuel (set_pol r (pol_complete (polf r)) (polh r)) off s line T.
Proof. intros H. eapply AtRec_pol; [exact H|apply pol_complete_PolOk]. Qed.

Lemma AtRecA_rel inp ffuel r0 r off s line T : fa_polrel r0 r -> AtRec inp ffuel r0 off s line T -> AtRecA inp ffuel r off s line T.
Proof. intros Hr H. unfold fa_polrel in Hr. subst r0. unfold AtRecA. eapply AtRec_pol; [exact H|exact PolOk_std]. Qed.

Lemma AtRecA_set_policy inp ffuel r q off s line T : AtRecA inp ffuel r off s line T -> AtRecA inp ffuel (fa_set_policy r q) off s line T.
Proof.
  intros H. unfold AtRecA, fa_set_policy in *.
  change (set_pol (set_pol r q []) pol_std (polh (set_pol r q []))) with (set_pol r pol_std []).
  eapply AtRec_pol; [exact H|exact PolOk_std].
Qed.

Lemma MidRec_set_policy inp ffuel r q s line : MidRec inp ffuel r s line -> MidRec inp ffuel (fa_set_policy r q) s line.
Proof.
  intros (off & [W Hfull Hc1 Hlt Hle Hwf Hinv Hstate] & Hs & Hpb & Hpl). exists off. split; [|auto].
  constructor; try assumption. eapply Win_ext; [| | |exact W]; reflexivity.
Qed.

Lemma MidRec_twin inp ffuel r q h s line : MidRec inp ffuel r s line -> MidRec inp ffuel (set_pol r q h) s line.
Proof.
  intros (off & [W Hfull Hc1 Hlt Hle Hwf Hinv Hstate] & Hs & Hpb & Hpl). exists off. split; [|auto].
  constructor; try assumption. eapply Win_ext; [| | |exact W]; reflexivity.
Qed.

Lemma fa_polrel_refl_twin r : fa_polrel (set_pol r (pol_complete (polf r)) (polh r)) r.
Proof. reflexivity. Qed.

Lemma fa_polrel_cur r0 r : fa_polrel r0 r -> fa_cur r = fa_cur r0 /\ fa_position r = fa_position r0.
Proof. intros Hr. unfold fa_polrel in Hr. subst r0. split; reflexivity. Qed.

(** the common tail of [next] under an arbitrary policy: the record, or the buffer-limit
    error with the search suspended *)
Lemma next_tail_any inp ffuel fuel r off s line r' o :
  Win inp ffuel r off -> EofKnown inp r -> start r + off = s -> start r < length (buf r) ->
  nth_error inp s = Some GT -> (spos r = start r \/ spos r = S (start r)) -> seqpos r = [] ->
  st r = FParsing -> pbyte r = s -> pline r = line -> 1 <= cap r ->
  length inp < fuel ->
  fa_next_tail fuel ffuel r = (r', o) ->
  (o = OErr FaBufferLimit /\ MidRec inp ffuel r' s line) \/
  (o = ORec (fa_cur r') /\ exists off', AtRecA inp ffuel r' off' s line (scan_abs inp (S s) []) /\
     RecAt inp (fa_cur r') s (FastaNextP.ends_of (scan_abs inp (S s) []))).
Proof.
  intros W He Hs Hlt Hgt Hsp Hsq Hst Hpb Hpl Hcap Hfuel H.
  set (r0 := set_pol r (pol_complete (polf r)) (polh r)).
  assert (W0 : Win inp ffuel r0 off) by (eapply Win_ext; [| | |exact W]; reflexivity).
  destruct (next_tail_spec inp ffuel fuel r0 off s line W0 He Hs Hlt Hgt Hsp Hsq Hst Hpb Hpl (pol_complete_PolOk _) Hcap Hfuel)
    as (r0' & off' & E0 & Hat & Hrec & _).
  pose proof (fa_next_tail_rel fuel ffuel r0 r (fa_polrel_refl_twin r)) as HL. rewrite E0, H in HL.
  destruct HL as [[Ho Hr']|Hl]; cbn [fst snd] in *.
  - right. destruct (fa_polrel_cur _ _ Hr') as [Ec _]. rewrite Ec. split; [exact Ho|].
    exists off'. split; [eapply AtRecA_rel; eassumption|exact Hrec].
  - left. unfold is_lim in Hl. subst o. split; [reflexivity|].
    apply (next_tail_limit inp ffuel fuel r off s line r' W He Hs Hlt Hgt Hsp Hsq Hst Hpb Hpl Hcap H).
Qed.

(** one [next()] after a record was returned, arbitrary policy *)
Lemma next_after_rec_any inp ffuel fuel r off s line p a r' o :
  AtRecA inp ffuel r off s line (true, p, a) -> length inp < fuel ->
  fa_next fuel ffuel r = (r', o) ->
  (o = OErr FaBufferLimit /\ MidRec inp ffuel r' p (line + length a)) \/
  (o = ORec (fa_cur r') /\ exists off', AtRecA inp ffuel r' off' p (line + length a) (scan_abs inp (S p) []) /\
     RecAt inp (fa_cur r') p (FastaNextP.ends_of (scan_abs inp (S p) []))).
Proof.
  intros Hat Hfuel H. unfold AtRecA in Hat.
  destruct Hat as [W He HT Hs Hpb Hpl Hpol Hcap Hlt Hle Hres].
  fa_simpl_in W. fa_simpl_in He. fa_simpl_in Hs. fa_simpl_in Hpb. fa_simpl_in Hpl. fa_simpl_in Hcap.
  fa_simpl_in Hlt. fa_simpl_in Hle. fa_simpl_in Hres.
  assert (Wr : Win inp ffuel r off) by (eapply Win_ext; [| | |exact W]; reflexivity).
  assert (Her : EofKnown inp r) by exact He.
  destruct Hres as [(HTe & Hst & Hw & Hne & Hlt2) | (sq & HTe & _)]; [|discriminate].
  inversion HTe as [[Hp Ha]]. clear HTe.
  destruct (scan_abs_found_gt _ _ _ _ _ HT) as [Hsp Hgt].
  unfold fa_next in H. rewrite Hst in H. unfold fa_increment in H.
  assert ((spos r <? start r) = false) as E by (apply Nat.ltb_ge; lia). rewrite E in H. clear E.
  match type of H with fa_next_tail _ _ ?R = _ => set (r1 := R) in * end.
  assert (W1 : Win inp ffuel r1 off) by (eapply Win_ext; [| | |exact Wr]; reflexivity).
  subst p a.
  assert (Hla : line + length (seqpos r) = line + length (shift off (seqpos r))).
  { unfold shift. rewrite map_length. reflexivity. }
  apply (next_tail_any inp ffuel fuel r1 off (spos r + off) (line + length (shift off (seqpos r))) r' o W1);
    unfold r1; cbn [buf src cap start spos seqpos pline pbyte polf st set_seqpos set_start set_pbyte set_pline];
    auto; try lia.
Qed.

Lemma mid_next_any inp ffuel fuel r s line r' o :
  MidRec inp ffuel r s line -> length inp < fuel ->
  fa_next fuel ffuel r = (r', o) ->
  (o = OErr FaBufferLimit /\ MidRec inp ffuel r' s line) \/
  (o = ORec (fa_cur r') /\ exists off', AtRecA inp ffuel r' off' s line (scan_abs inp (S s) []) /\
     RecAt inp (fa_cur r') s (FastaNextP.ends_of (scan_abs inp (S s) []))).
Proof.
  intros HM Hfuel H.
  set (r0 := set_pol r (pol_complete (polf r)) (polh r)).
  destruct (mid_next_ok inp ffuel fuel r0 s line (MidRec_twin _ _ _ _ _ _ _ HM) (pol_complete_PolOk _) Hfuel)
    as (r0' & off' & E0 & Hat & Hrec & _).
  pose proof (fa_next_rel fuel ffuel r0 r (fa_polrel_refl_twin r)) as HL. rewrite E0, H in HL.
  destruct HL as [[Ho Hr']|Hl]; cbn [fst snd] in *.
  - right. destruct (fa_polrel_cur _ _ Hr') as [Ec _]. rewrite Ec. split; [exact Ho|].
    exists off'. split; [eapply AtRecA_rel; eassumption|exact Hrec].
  - left. unfold is_lim in Hl. subst o. split; [reflexivity|].
    apply (mid_next_limit inp ffuel fuel r s line r' HM H).
Qed.

(* ------------------------------------------------------------------ *)
(** * FASTA: runs of [next()] with policy swaps *)

Inductive pop := PNext | PSetPolicy (q : policy).

(** [PSetPolicy q]: the policy is replaced ([set_policy]), no outcome *)
Fixpoint fa_prun (fuel ffuel : nat) (ops : list pop) (r : fa) : list (fa_out * option (nat * nat)) :=
  match ops with
  | [] => []
  | PNext :: rest => let '(r', o) := fa_next fuel ffuel r in (o, fa_position r') :: fa_prun fuel ffuel rest r'
  | PSetPolicy q :: rest => fa_prun fuel ffuel rest (fa_set_policy r q)
  end.

Fixpoint pnexts (ops : list pop) : nat :=
  match ops with [] => 0 | PNext :: t => S (pnexts t) | PSetPolicy _ :: t => pnexts t end.

Definition pop_ok (op : pop) : Prop := match op with PSetPolicy q => PolOk q | PNext => True end.

Definition not_limit (o : fa_out * option (nat * nat)) : bool :=
  match fst o with OErr FaBufferLimit => false | _ => true end.

Lemma fa_prun_length fuel ffuel : forall ops r, length (fa_prun fuel ffuel ops r) = pnexts ops.
Proof.
  induction ops as [|[|q] ops IH]; intros r; cbn [fa_prun pnexts]; [reflexivity| |apply IH].
  destruct (fa_next fuel ffuel r) as [r' o]. cbn [length]. rewrite IH. reflexivity.
Qed.

(** what the reader still has to deliver: [rest] are the records not yet returned *)
Definition PInv (inp : list byte) (ffuel : nat) (r : fa) (rest : list (nat * nat * list nat)) : Prop :=
  (st r = FFinished /\ rest = []) \/
  (exists off s line cur, AtRecA inp ffuel r off s line (scan_abs inp (S s) []) /\ FaStream inp s line (cur :: rest)) \/
  (exists s line, MidRec inp ffuel r s line /\ FaStream inp s line rest).

Lemma PInv_set_policy inp ffuel r q rest : PInv inp ffuel r rest -> PInv inp ffuel (fa_set_policy r q) rest.
Proof.
  intros [[Hst ->]|[(off & s & line & cur & Hat & Hs)|(s & line & HM & Hs)]].
  - left. split; [exact Hst|reflexivity].
  - right. left. exists off, s, line, cur. split; [apply AtRecA_set_policy; exact Hat|exact Hs].
  - right. right. exists s, line. split; [apply MidRec_set_policy; exact HM|exact Hs].
Qed.

Lemma AtRecA_position inp ffuel r off s line T : AtRecA inp ffuel r off s line T -> fa_position r = Some (line, s).
Proof. intros H. apply (AtRec_position _ _ _ _ _ _ _ H). Qed.

Lemma AtRecA_finished inp ffuel r off s line p a : AtRecA inp ffuel r off s line (false, p, a) -> st r = FFinished.
Proof.
  intros [_ _ _ _ _ _ _ _ _ _ Hres]. destruct Hres as [(HTe & _) | (sq & _ & _ & Hst & _)]; [discriminate|exact Hst].
Qed.

Lemma pinv_step inp ffuel fuel r rest r' o : PInv inp ffuel r rest -> length inp < fuel ->
  fa_next fuel ffuel r = (r', o) ->
  (o = OErr FaBufferLimit /\ PInv inp ffuel r' rest) \/
  match rest with
  | [] => o = ONone /\ PInv inp ffuel r' []
  | it :: rest' => fa_matches inp (o, fa_position r') (Some it) /\ PInv inp ffuel r' rest'
  end.
Proof.
  intros [[Hst ->]|[(off & s & line & cur & Hat & Hs)|(s & line & HM & Hs)]] Hfuel H.
  - right. unfold fa_next in H. rewrite Hst in H. inversion H; subst. split; [reflexivity|]. left. auto.
  - destruct (FaStream_inv _ _ _ _ _ Hs) as [_ Hrest].
    destruct (scan_abs inp (S s) []) as [[f p] a] eqn:HT. destruct f.
    + destruct Hrest as [Hrest Hne]. destruct rest as [|it rest']; [congruence|].
      destruct (FaStream_inv _ _ _ _ _ Hrest) as [Hit _].
      destruct (next_after_rec_any inp ffuel fuel r off s line p a r' o Hat Hfuel H) as [[-> HM]|[-> (off' & Hat' & Hrec)]].
      * left. split; [reflexivity|]. right. right. exists p, (line + length a). split; assumption.
      * right. split.
        -- subst it. cbn [fa_matches]. split; [exact Hrec|]. eapply AtRecA_position; exact Hat'.
        -- right. left. exists off', p, (line + length a), it. split; assumption.
    + subst rest. right. pose proof (AtRecA_finished _ _ _ _ _ _ _ _ Hat) as Hst.
      unfold fa_next in H. rewrite Hst in H. inversion H; subst. split; [reflexivity|]. left. auto.
  - destruct rest as [|it rest']; [inversion Hs|].
    destruct (FaStream_inv _ _ _ _ _ Hs) as [Hit _].
    destruct (mid_next_any inp ffuel fuel r s line r' o HM Hfuel H) as [[-> HM']|[-> (off' & Hat' & Hrec)]].
    + left. split; [reflexivity|]. right. right. exists s, line. split; assumption.
    + right. split.
      * subst it. cbn [fa_matches]. split; [exact Hrec|]. eapply AtRecA_position; exact Hat'.
      * right. left. exists off', s, line, it. split; assumption.
Qed.

(** under a never-refusing policy no call returns the buffer-limit error *)
Lemma pinv_step_ok inp ffuel fuel r rest : PInv inp ffuel r rest -> length inp < fuel -> PolOk (polf r) ->
  exists r' o, fa_next fuel ffuel r = (r', o) /\ o <> OErr FaBufferLimit /\ polf r' = polf r.
Proof.
  intros [[Hst ->]|[(off & s & line & cur & Hat & Hs)|(s & line & HM & Hs)]] Hfuel Hpol.
  - exists r, ONone. unfold fa_next. rewrite Hst. split; [reflexivity|]. split; [discriminate|reflexivity].
  - destruct (scan_abs inp (S s) []) as [[f p] a] eqn:HT. destruct f.
    + destruct (next_after_rec inp ffuel fuel r off s line p a (AtRecA_ok _ _ _ _ _ _ _ Hat Hpol) Hfuel)
        as (r' & off' & Heq & _ & _ & Hpf).
      exists r', (ORec (fa_cur r')). split; [exact Heq|]. split; [discriminate|exact Hpf].
    + pose proof (AtRecA_finished _ _ _ _ _ _ _ _ Hat) as Hst.
      exists r, ONone. unfold fa_next. rewrite Hst. split; [reflexivity|]. split; [discriminate|reflexivity].
  - destruct (mid_next_ok inp ffuel fuel r s line HM Hpol Hfuel) as (r' & off' & Heq & _ & _ & Hpf).
    exists r', (ORec (fa_cur r')). split; [exact Heq|]. split; [discriminate|exact Hpf].
Qed.

Lemma firstn_S_cons {A} n (x : A) l : firstn (S n) (x :: l) = x :: firstn n l.
Proof. reflexivity. Qed.

Lemma prun_pinv inp ffuel fuel : length inp < fuel -> forall ops r rest m, PInv inp ffuel r rest ->
  length (filter not_limit (fa_prun fuel ffuel ops r)) <= m ->
  Forall2 (fa_matches inp) (filter not_limit (fa_prun fuel ffuel ops r))
          (firstn (length (filter not_limit (fa_prun fuel ffuel ops r))) (map Some rest ++ repeat None m)).
Proof.
  intros Hfuel. induction ops as [|[|q] ops IH]; intros r rest m HP Hm; cbn [fa_prun].
  - constructor.
  - cbn [fa_prun] in Hm. destruct (fa_next fuel ffuel r) as [r' o] eqn:E.
    destruct (pinv_step inp ffuel fuel r rest r' o HP Hfuel E) as [[-> HP']|Hstep].
    + cbn [filter not_limit fst] in *. apply IH; assumption.
    + destruct rest as [|it rest'].
      * destruct Hstep as [-> HP']. cbn [filter not_limit fst length] in *.
        destruct m as [|m]; [lia|]. cbn [map app repeat]. rewrite firstn_S_cons.
        constructor; [exact I|]. apply (IH r' [] m HP'). lia.
      * destruct Hstep as [Hmt HP'].
        assert (Hnl : not_limit (o, fa_position r') = true).
        { destruct it as [[s line] ends]. destruct o; cbn in Hmt; try contradiction. reflexivity. }
        cbn [filter] in *. rewrite Hnl in *. cbn [length] in *. cbn [map app]. rewrite firstn_S_cons.
        constructor; [exact Hmt|]. apply (IH r' rest' m HP'). lia.
  - cbn [fa_prun] in Hm. apply IH; [apply PInv_set_policy; exact HP|exact Hm].
Qed.

Lemma prun_pinv_ok inp ffuel fuel : length inp < fuel -> forall ops r rest, PInv inp ffuel r rest ->
  PolOk (polf r) -> Forall pop_ok ops ->
  Forall (fun o => not_limit o = true) (fa_prun fuel ffuel ops r).
Proof.
  intros Hfuel. induction ops as [|[|q] ops IH]; intros r rest HP Hpol Hops; cbn [fa_prun]; [constructor| |].
  - inversion Hops as [|? ? _ Hops']; subst.
    destruct (pinv_step_ok inp ffuel fuel r rest HP Hfuel Hpol) as (r' & o & E & Hne & Hpf). rewrite E.
    assert (HP' : exists rest', PInv inp ffuel r' rest').
    { destruct (pinv_step inp ffuel fuel r rest r' o HP Hfuel E) as [[-> _]|Hstep]; [congruence|].
      destruct rest as [|it rest']; [exists []; apply Hstep|exists rest'; apply Hstep]. }
    destruct HP' as (rest' & HP').
    constructor.
    + unfold not_limit. cbn [fst]. destruct o as [| | | |[]| |]; try reflexivity. congruence.
    + apply (IH r' rest' HP'); [rewrite Hpf; exact Hpol|exact Hops'].
  - inversion Hops as [|? ? Hq Hops']; subst. apply (IH _ rest); [apply PInv_set_policy; exact HP|exact Hq|exact Hops'].
Qed.

(** [next] never changes the policy *)
Lemma fa_grow_polf r : polf (fst (fa_grow r)) = polf r.
Proof. unfold fa_grow. destruct (polf r (polh r) (cap r)) as [n|]; [destruct (n <=? cap r)|]; reflexivity. Qed.

Lemma polind_polf {X} (f : fa -> fa * X) : PolInd f -> forall r, polf (fst (f r)) = polf r.
Proof. intros Hf r. apply (Hf (polf r) (polh r) r). Qed.

Lemma fa_resume_polf ffuel mk : forall fuel r, polf (fst (fa_resume fuel ffuel mk r)) = polf r.
Proof.
  induction fuel as [|f IH]; intros r; cbn [fa_resume]; [reflexivity|].
  assert (H1 : polf (fst (if negb mk || (start r =? 0) then fa_grow r else fa_make_room r)) = polf r).
  { destruct (negb mk || (start r =? 0)); [apply fa_grow_polf|apply (polind_polf _ fa_make_room_pi)]. }
  destruct (if negb mk || (start r =? 0) then fa_grow r else fa_make_room r) as [r1 g]. cbn [fst] in H1.
  destruct g; try exact H1.
  pose proof (polind_polf _ (fa_fill_pi ffuel) r1) as H2.
  destruct (fa_fill ffuel r1) as [r2 fr]. cbn [fst] in *.
  destruct fr as [n|k|]; cbn [fst]; fa_simpl; try congruence.
  pose proof (polind_polf _ fa_search_pi r2) as H3.
  destruct (fa_search r2) as [r3 sr]. cbn [fst] in *.
  destruct sr as [[|]|x]; cbn [fst]; try congruence.
Qed.

Lemma fa_next_tail_polf fuel ffuel r : polf (fst (fa_next_tail fuel ffuel r)) = polf r.
Proof.
  unfold fa_next_tail.
  assert (H1 : polf (fst (if fa_state_eqb (st r) FIncomplete then (r, SFound true) else fa_search r)) = polf r).
  { destruct (fa_state_eqb (st r) FIncomplete); [reflexivity|apply (polind_polf _ fa_search_pi)]. }
  destruct (if fa_state_eqb (st r) FIncomplete then (r, SFound true) else fa_search r) as [r1 sr]. cbn [fst] in H1.
  destruct sr as [b|x]; [|exact H1].
  destruct (fa_state_eqb (st r1) FIncomplete); [|exact H1].
  pose proof (fa_resume_polf ffuel true fuel r1) as H2.
  destruct (fa_resume fuel ffuel true r1) as [r2 rr]. cbn [fst] in H2.
  destruct rr as [[|]|e|x|]; cbn [fst]; try congruence.
  destruct (fa_state_eqb (st r2) FFinished); cbn [fst]; fa_simpl; congruence.
Qed.

Lemma fa_next_polf fuel ffuel r : polf (fst (fa_next fuel ffuel r)) = polf r.
Proof.
  unfold fa_next. destruct (st r).
  - pose proof (polind_polf _ (fa_init_pi fuel ffuel) r) as H1.
    destruct (fa_init fuel ffuel r) as [r1 ir]. cbn [fst] in H1.
    destruct ir as [[|]|e|]; try exact H1.
    rewrite fa_next_tail_polf. exact H1.
  - unfold fa_increment. destruct (spos r <? start r); [reflexivity|]. rewrite fa_next_tail_polf. reflexivity.
  - apply fa_next_tail_polf.
  - rewrite fa_next_tail_polf. reflexivity.
  - reflexivity.
Qed.

(* ------------------------------------------------------------------ *)
(** * FASTA: from a fresh reader *)

Section Fresh.
  Variables (inp : list byte) (cap0 : nat) (rs : list ritem) (ss : list sitem) (fuel ffuel : nat).
  Hypothesis Hcap : 3 <= cap0.
  Hypothesis Hrs : forallb item_ok rs = true.
  Hypothesis Hff : length rs + 2 <= ffuel.
  Hypothesis Hfuel : length inp + 2 <= fuel.

  Let oi (it : nat * nat * list nat) : fa_oitem := let '(s, line, ends) := it in OiRec s line ends.

  Lemma prun_pinv_o ops r rest m : PInv inp ffuel r rest ->
    length (filter not_limit (fa_prun fuel ffuel ops r)) <= m ->
    Forall2 (fa_omatches inp) (filter not_limit (fa_prun fuel ffuel ops r))
            (firstn (length (filter not_limit (fa_prun fuel ffuel ops r))) (map Some (map oi rest) ++ repeat None m)).
  Proof.
    intros HP Hm. rewrite <- (map_firstn_app_repeat oi). apply matches_lift.
    apply prun_pinv; [lia|exact HP|exact Hm].
  Qed.

  (** the first [next()] of a fresh reader: outcome and state afterwards *)
  Lemma fresh_first items pol r' o : FaOSpec inp items ->
    fa_next fuel ffuel (fa_new cap0 (mkSource inp 0 rs ss) pol) = (r', o) ->
    (o = OErr FaBufferLimit /\ exists its, items = map oi its /\ PInv inp ffuel r' its) \/
    match items with
    | [] => o = ONone /\ PInv inp ffuel r' []
    | it :: items' => fa_omatches inp (o, fa_position r') (Some it) /\
                      exists its, items' = map oi its /\ PInv inp ffuel r' its
    end.
  Proof.
    intros Hspec H.
    pose proof (fa_init_spec inp cap0 rs ss pol fuel ffuel Hcap Hrs Hff Hfuel) as Hinit. cbv zeta in Hinit.
    set (r0 := fa_new cap0 (mkSource inp 0 rs ss) pol) in *.
    assert (Hst0 : st r0 = FNew) by reflexivity.
    unfold fa_next in H. rewrite Hst0 in H.
    inversion Hspec as [Hos | ln b Hos | pos ln its Hos Hstream]; subst items; rewrite Hos in Hinit.
    - destruct Hinit as (r1 & Heq & Hfin). rewrite Heq in H. inversion H; subst. right.
      split; [reflexivity|]. left. auto.
    - destruct Hinit as (r1 & Heq & Hfin). rewrite Heq in H. inversion H; subst. right.
      split; [cbn; auto|]. exists []. split; [reflexivity|]. left. auto.
    - destruct Hinit as (r1 & off & Heq & W & He & Hs & Hsp & Hlt & Hgt & Hsq & Hpl & Hpb & Hst1 & Hc & Hpf & Hph & Hlog).
      rewrite Heq in H.
      destruct its as [|it its']; [inversion Hstream|].
      destruct (FaStream_inv _ _ _ _ _ Hstream) as [Hit _].
      assert (W1 : Win inp ffuel (set_st r1 FParsing) off) by (eapply Win_ext; [| | |exact W]; reflexivity).
      destruct (next_tail_any inp ffuel fuel (set_st r1 FParsing) off pos ln r' o W1) as [[-> HM]|[-> (off' & Hat & Hrec)]];
        cbn [buf src cap start spos seqpos pline pbyte polf st set_st]; auto; try lia.
      + left. split; [reflexivity|]. exists (it :: its'). split; [reflexivity|].
        right. right. exists pos, ln. split; assumption.
      + right. cbn [map]. split.
        * subst it. cbn [oi fa_omatches]. split; [exact Hrec|]. eapply AtRecA_position; exact Hat.
        * exists its'. split; [reflexivity|]. right. left. exists off', pos, ln, it. split; assumption.
  Qed.

  Lemma not_limit_omatches o it : fa_omatches inp o it -> not_limit o = true.
  Proof.
    destruct o as [o pos]. unfold not_limit. cbn [fst].
    destruct it as [[s line ends|l f]|]; destruct o as [| | | |[]| |]; cbn; try contradiction; reflexivity.
  Qed.

  Lemma prun_fresh items : FaOSpec inp items -> forall ops pol m,
    length (filter not_limit (fa_prun fuel ffuel ops (fa_new cap0 (mkSource inp 0 rs ss) pol))) <= m ->
    Forall2 (fa_omatches inp) (filter not_limit (fa_prun fuel ffuel ops (fa_new cap0 (mkSource inp 0 rs ss) pol)))
            (firstn (length (filter not_limit (fa_prun fuel ffuel ops (fa_new cap0 (mkSource inp 0 rs ss) pol))))
                    (map Some items ++ repeat None m)).
  Proof.
    intros Hspec. induction ops as [|[|q] ops IH]; intros pol m Hm; cbn [fa_prun].
    - constructor.
    - cbn [fa_prun] in Hm.
      destruct (fa_next fuel ffuel (fa_new cap0 (mkSource inp 0 rs ss) pol)) as [r' o] eqn:E.
      destruct (fresh_first items pol r' o Hspec E) as [[-> (its & -> & HP)]|Hstep].
      + cbn [filter not_limit fst] in *. apply prun_pinv_o; assumption.
      + destruct items as [|it items'].
        * destruct Hstep as [-> HP]. cbn [filter not_limit fst length] in *.
          destruct m as [|m]; [lia|]. cbn [map app repeat]. rewrite firstn_S_cons.
          constructor; [exact I|]. apply (prun_pinv_o ops r' [] m HP). lia.
        * destruct Hstep as [Hmt (its & -> & HP)].
          pose proof (not_limit_omatches _ _ Hmt) as Hnl.
          cbn [filter] in *. rewrite Hnl in *. cbn [length] in *. cbn [map app]. rewrite firstn_S_cons.
          constructor; [exact Hmt|]. apply (prun_pinv_o ops r' its m HP). lia.
    - cbn [fa_prun] in Hm. apply (IH q m Hm).
  Qed.

  Lemma prun_fresh_ok : forall ops pol, PolOk pol -> Forall pop_ok ops ->
    Forall (fun o => not_limit o = true) (fa_prun fuel ffuel ops (fa_new cap0 (mkSource inp 0 rs ss) pol)).
  Proof.
    induction ops as [|[|q] ops IH]; intros pol Hpol Hops; cbn [fa_prun]; [constructor| |].
    - inversion Hops as [|? ? _ Hops']; subst.
      destruct (fa_ospec_exists inp) as (items & Hspec & _).
      pose proof (fa_next_polf fuel ffuel (fa_new cap0 (mkSource inp 0 rs ss) pol)) as Hpf.
      destruct (fa_next fuel ffuel (fa_new cap0 (mkSource inp 0 rs ss) pol)) as [r' o] eqn:E. cbn [fst] in Hpf.
      change (polf (fa_new cap0 (mkSource inp 0 rs ss) pol)) with pol in Hpf.
      (* the completed twin returns the same or the limit error; the twin of a never-refusing policy ... *)
      assert (Hno : o <> OErr FaBufferLimit /\ exists its, PInv inp ffuel r' its).
      { pose proof (fa_init_spec inp cap0 rs ss pol fuel ffuel Hcap Hrs Hff Hfuel) as Hinit. cbv zeta in Hinit.
        destruct (fresh_first items pol r' o Hspec E) as [[-> (its & -> & HP)]|Hstep].
        - exfalso. unfold fa_next in E. change (st (fa_new cap0 (mkSource inp 0 rs ss) pol)) with FNew in E.
          inversion Hspec as [Hos | ln b Hos | pos ln its0 Hos Hstream]; rewrite Hos in Hinit.
          + destruct Hinit as (r1 & Heq & Hfin). rewrite Heq in E. discriminate E.
          + destruct Hinit as (r1 & Heq & Hfin). rewrite Heq in E. discriminate E.
          + destruct Hinit as (r1 & off & Heq & W & He & Hs & Hsp & Hlt & Hgt & Hsq & Hpl & Hpb & Hst1 & Hc & Hpf1 & Hph & Hlog).
            rewrite Heq in E.
            destruct (next_tail_spec inp ffuel fuel (set_st r1 FParsing) off pos ln) as (r2 & off2 & Heq2 & _);
              cbn [buf src cap start spos seqpos pline pbyte polf st set_st]; auto; try lia.
            * eapply Win_ext; [| | |exact W]; reflexivity.
            * rewrite Hpf1. exact Hpol.
            * rewrite Heq2 in E. discriminate E.
        - destruct items as [|it items'].
          + destruct Hstep as [-> HP]. split; [discriminate|]. exists []. exact HP.
          + destruct Hstep as [Hmt (its & _ & HP)]. split; [|exists its; exact HP].
            intros ->. apply not_limit_omatches in Hmt. discriminate Hmt. }
      destruct Hno as [Hne (its & HP)].
      constructor.
      + unfold not_limit. cbn [fst]. destruct o as [| | | |[]| |]; try reflexivity. congruence.
      + apply (prun_pinv_ok inp ffuel fuel ltac:(lia) ops r' its HP); [rewrite Hpf; exact Hpol|exact Hops'].
    - inversion Hops as [|? ? Hq Hops']; subst. apply (IH q Hq Hops').
  Qed.
End Fresh.

(** the reader after a run *)
Fixpoint fa_pstate (fuel ffuel : nat) (ops : list pop) (r : fa) : fa :=
  match ops with
  | [] => r
  | PNext :: rest => fa_pstate fuel ffuel rest (fst (fa_next fuel ffuel r))
  | PSetPolicy q :: rest => fa_pstate fuel ffuel rest (fa_set_policy r q)
  end.

Lemma fa_prun_app fuel ffuel : forall a b r,
  fa_prun fuel ffuel (a ++ b) r = fa_prun fuel ffuel a r ++ fa_prun fuel ffuel b (fa_pstate fuel ffuel a r).
Proof.
  induction a as [|[|q] a IH]; intros b r; cbn [app fa_prun fa_pstate]; [reflexivity| |apply IH].
  destruct (fa_next fuel ffuel r) as [r' o]. cbn [fst app]. rewrite IH. reflexivity.
Qed.

Lemma filter_all {A} (f : A -> bool) l : Forall (fun x => f x = true) l -> filter f l = l.
Proof. induction 1 as [|x l Hx _ IH]; [reflexivity|]. cbn [filter]. rewrite Hx, IH. reflexivity. Qed.

(** offset-based stream items against the line-based specification (as in [fa_next_refines_spec]) *)
Lemma omatches_smatches inp items l n m :
  Forall2 (item_rel inp) items (fa_spec inp) ->
  Forall2 (fa_omatches inp) l (firstn n (map Some items ++ repeat None m)) ->
  Forall2 fa_smatches l (firstn n (map Some (fa_spec inp) ++ repeat None m)).
Proof.
  intros Hrel H1.
  eapply (Forall2_trans2 (fa_omatches inp) (opt_rel (item_rel inp)) fa_smatches); [|exact H1|].
  - intros [o pos] oi si Ha Hq.
    destruct oi as [[s line ends|l0 f]|]; destruct si as [[i|l' f']|]; cbn in Hq; try contradiction.
    + destruct o as [|rc| | | | |]; cbn in Ha; try contradiction. destruct Ha as [Hat ->].
      destruct Hq as (Hwf & Hh & Hl & Hli & Hby).
      destruct (fa_view_shift_same inp rc s ends Hat Hwf) as (Hwf' & Hv).
      destruct Hv as (Hv1 & _ & Hv3 & _). cbn [fa_smatches].
      rewrite Hv1, Hv3, Hli, Hby. auto.
    + destruct o; cbn in Ha; try contradiction. destruct e; try contradiction.
      cbn. destruct Ha as [-> ->]. destruct Hq as [-> ->]. auto.
    + destruct o; cbn in Ha; try contradiction. exact I.
  - apply Forall2_firstn. apply Forall2_opt_stream. exact Hrel.
Qed.

Section FreshTop.
  Variables (inp : list byte) (cap0 : nat) (rs : list ritem) (ss : list sitem) (fuel ffuel : nat).
  Hypothesis Hcap : 3 <= cap0.
  Hypothesis Hrs : forallb item_ok rs = true.
  Hypothesis Hff : length rs + 2 <= ffuel.
  Hypothesis Hfuel : length inp + 2 <= fuel.

  (** whatever the policies are: the outcomes other than buffer-limit errors are the
      specification stream, in order, each item once *)
  Theorem fa_policy_ops_stream pol ops :
    let outs := filter not_limit (fa_prun fuel ffuel ops (fa_new cap0 (mkSource inp 0 rs ss) pol)) in
    Forall2 fa_smatches outs (firstn (length outs) (map Some (fa_spec inp) ++ repeat None (length outs))).
  Proof.
    cbv zeta. destruct (fa_ospec_exists inp) as (items & Hspec & Hrel).
    apply (omatches_smatches inp items _ _ _ Hrel).
    apply (prun_fresh inp cap0 rs ss fuel ffuel Hcap Hrs Hff Hfuel items Hspec ops pol). apply le_n.
  Qed.

  (** (e): swaps among never-refusing policies are invisible *)
  Theorem fa_policy_swap_transparent pol ops : PolOk pol -> Forall pop_ok ops ->
    Forall2 fa_smatches (fa_prun fuel ffuel ops (fa_new cap0 (mkSource inp 0 rs ss) pol))
            (firstn (pnexts ops) (map Some (fa_spec inp) ++ repeat None (pnexts ops))).
  Proof.
    intros Hpol Hops.
    pose proof (prun_fresh_ok inp cap0 rs ss fuel ffuel Hcap Hrs Hff Hfuel ops pol Hpol Hops) as Hok.
    pose proof (fa_policy_ops_stream pol ops) as H. cbv zeta in H.
    rewrite (filter_all _ _ Hok), fa_prun_length in H. exact H.
  Qed.

  Lemma pstate_pinv : forall ops r its, PInv inp ffuel r its -> exists its', PInv inp ffuel (fa_pstate fuel ffuel ops r) its'.
  Proof.
    induction ops as [|[|q] ops IH]; intros r its HP; cbn [fa_pstate].
    - exists its. exact HP.
    - destruct (fa_next fuel ffuel r) as [r' o] eqn:E. cbn [fst].
      destruct (pinv_step inp ffuel fuel r its r' o HP ltac:(lia) E) as [[_ HP']|Hstep].
      + apply (IH r' its HP').
      + destruct its as [|it its']; [apply (IH r' []); apply Hstep|apply (IH r' its'); apply Hstep].
    - apply (IH _ its). apply PInv_set_policy. exact HP.
  Qed.

  Lemma pstate_fresh : forall ops pol,
    (exists pol', fa_pstate fuel ffuel ops (fa_new cap0 (mkSource inp 0 rs ss) pol) = fa_new cap0 (mkSource inp 0 rs ss) pol') \/
    (exists its, PInv inp ffuel (fa_pstate fuel ffuel ops (fa_new cap0 (mkSource inp 0 rs ss) pol)) its).
  Proof.
    induction ops as [|[|q] ops IH]; intros pol; cbn [fa_pstate].
    - left. exists pol. reflexivity.
    - right. destruct (fa_ospec_exists inp) as (items & Hspec & _).
      destruct (fa_next fuel ffuel (fa_new cap0 (mkSource inp 0 rs ss) pol)) as [r' o] eqn:E. cbn [fst].
      assert (HP : exists its, PInv inp ffuel r' its).
      { destruct (fresh_first inp cap0 rs ss fuel ffuel Hcap Hrs Hff Hfuel items pol r' o Hspec E) as [[_ (its & _ & HP)]|Hstep].
        - exists its. exact HP.
        - destruct items as [|it items']; [exists []; apply Hstep|].
          destruct Hstep as [_ (its & _ & HP)]. exists its. exact HP. }
      destruct HP as (its & HP). apply (pstate_pinv ops r' its HP).
    - apply (IH q).
  Qed.

  (** after a generous policy is installed -- in ANY state a history can reach, in particular
      right after a buffer-limit error -- no call returns the buffer-limit error, and the
      non-error outcomes before and all outcomes after are the specification stream *)
  Theorem fa_generous_policy_resumes pol ops1 q ops2 : PolOk q -> Forall pop_ok ops2 ->
    let r0 := fa_new cap0 (mkSource inp 0 rs ss) pol in
    let outs1 := fa_prun fuel ffuel ops1 r0 in
    let outs2 := fa_prun fuel ffuel (PSetPolicy q :: ops2) (fa_pstate fuel ffuel ops1 r0) in
    fa_prun fuel ffuel (ops1 ++ PSetPolicy q :: ops2) r0 = outs1 ++ outs2 /\
    length outs1 = pnexts ops1 /\ length outs2 = pnexts ops2 /\
    Forall (fun o => not_limit o = true) outs2 /\
    Forall2 fa_smatches (filter not_limit outs1 ++ outs2)
            (firstn (length (filter not_limit outs1) + pnexts ops2)
                    (map Some (fa_spec inp) ++ repeat None (length (filter not_limit outs1) + pnexts ops2))).
  Proof.
    intros Hq Hops2. cbv zeta.
    set (r0 := fa_new cap0 (mkSource inp 0 rs ss) pol).
    assert (Hok : Forall (fun o => not_limit o = true)
                         (fa_prun fuel ffuel (PSetPolicy q :: ops2) (fa_pstate fuel ffuel ops1 r0))).
    { destruct (pstate_fresh ops1 pol) as [(pol' & E)|(its & HP)]; fold r0 in E || fold r0 in HP.
      - rewrite E. cbn [fa_prun].
        apply (prun_fresh_ok inp cap0 rs ss fuel ffuel Hcap Hrs Hff Hfuel ops2 q Hq Hops2).
      - cbn [fa_prun]. apply (prun_pinv_ok inp ffuel fuel ltac:(lia) ops2 _ its); [apply PInv_set_policy; exact HP|exact Hq|exact Hops2]. }
    split; [apply fa_prun_app|]. split; [apply fa_prun_length|].
    split; [exact (fa_prun_length fuel ffuel (PSetPolicy q :: ops2) _)|]. split; [exact Hok|].
    pose proof (fa_policy_ops_stream pol (ops1 ++ PSetPolicy q :: ops2)) as H. cbv zeta in H. fold r0 in H.
    rewrite fa_prun_app, filter_app, (filter_all _ _ Hok), app_length, (fa_prun_length _ _ (PSetPolicy q :: ops2)) in H.
    exact H.
  Qed.
End FreshTop.

Lemma pnexts_repeat n : pnexts (repeat PNext n) = n.
Proof. induction n as [|n IH]; [reflexivity|]. cbn [repeat pnexts]. rewrite IH. reflexivity. Qed.

Lemma pop_ok_repeat n : Forall pop_ok (repeat PNext n).
Proof. induction n as [|n IH]; cbn [repeat]; constructor; [exact I|exact IH]. Qed.

(** the combination the property has in mind: [n1] reads under an arbitrary (refusing)
    policy, then a generous policy is installed, then [n2] reads *)
Theorem fa_limit_then_generous_policy_resumes inp cap0 rs ss pol q fuel ffuel n1 n2 :
  3 <= cap0 -> forallb item_ok rs = true -> PolOk q ->
  length rs + 2 <= ffuel -> length inp + 2 <= fuel ->
  let r0 := fa_new cap0 (mkSource inp 0 rs ss) pol in
  let outs1 := fa_prun fuel ffuel (repeat PNext n1) r0 in
  let outs2 := fa_prun fuel ffuel (PSetPolicy q :: repeat PNext n2) (fa_pstate fuel ffuel (repeat PNext n1) r0) in
  fa_prun fuel ffuel (repeat PNext n1 ++ [PSetPolicy q] ++ repeat PNext n2) r0 = outs1 ++ outs2 /\
  length outs1 = n1 /\ length outs2 = n2 /\
  Forall (fun o => not_limit o = true) outs2 /\
  Forall2 fa_smatches (filter not_limit outs1 ++ outs2)
          (firstn (length (filter not_limit outs1) + n2)
                  (map Some (fa_spec inp) ++ repeat None (length (filter not_limit outs1) + n2))).
Proof.
  intros Hcap Hrs Hq Hff Hfuel. cbv zeta.
  pose proof (fa_generous_policy_resumes inp cap0 rs ss fuel ffuel Hcap Hrs Hff Hfuel pol (repeat PNext n1) q (repeat PNext n2)
                Hq (pop_ok_repeat n2)) as H.
  cbv zeta in H. rewrite !pnexts_repeat in H. exact H.
Qed.

(* ================================================================== *)
(** * FASTQ *)
From SeqIO Require Import Model.Fastq Spec.FastqSpec Spec.CursorQ
  Proofs.FqInterruptP Proofs.FqSpecP Proofs.FastqInv Proofs.FastqNextP Proofs.FastqSetP Proofs.FastqSeekP
  Proofs.CursorP Proofs.CursorBridgeP Proofs.FastqHistP Proofs.FqPrefixP.

Lemma pol_complete_PolOk1 p : PolOk1 (pol_complete p).
Proof. apply PolOk_PolOk1. apply pol_complete_PolOk. Qed.

Lemma pol_complete_ok p : PolOk (pol_complete p) /\ PolOk1 (pol_complete p).
Proof. split; [apply pol_complete_PolOk|apply pol_complete_PolOk1]. Qed.

(** the same reader state; policy [p] on one side, its completion on the other *)
Definition fq_polrel (a0 a : fq) : Prop := a0 = qset_pol a (pol_complete (qpolf a)) (qpolh a).

Definition is_qlim (o : fq_out) : Prop := o = QOErr FqBufferLimit.

Definition QLRel {X} (isl : X -> Prop) (x0 x : fq * X) : Prop :=
  (snd x = snd x0 /\ fq_polrel (fst x0) (fst x)) \/ isl (snd x).

Lemma QLRel_same {X} (isl : X -> Prop) a0 a (x : X) : fq_polrel a0 a -> QLRel isl (a0, x) (a, x).
Proof. intros H. left. split; [reflexivity|exact H]. Qed.

(** the reader [r] with another policy and consultation history *)
Definition qpw (q : policy) (h : list nat) (r : fq) : fq := qset_pol r q h.

Definition QPolInd {X} (f : fq -> fq * X) : Prop :=
  forall q h r, f (qpw q h r) = (qpw q h (fst (f r)), snd (f r)) /\
                qpolf (fst (f r)) = qpolf r /\ qpolh (fst (f r)) = qpolh r.

Lemma qpolind_rel {X} (f : fq -> fq * X) : QPolInd f -> forall a0 a, fq_polrel a0 a ->
  snd (f a) = snd (f a0) /\ fq_polrel (fst (f a0)) (fst (f a)).
Proof.
  intros Hf a0 a Hr. unfold fq_polrel in Hr. subst a0.
  destruct (Hf (pol_complete (qpolf a)) (qpolh a) a) as (E & Ef & Eh). unfold qpw in E. rewrite E. cbn [fst snd].
  split; [reflexivity|]. unfold fq_polrel. rewrite Ef, Eh. reflexivity.
Qed.

Lemma qpolind_QLRel {X} (isl : X -> Prop) (f : fq -> fq * X) : QPolInd f -> forall a0 a, fq_polrel a0 a ->
  QLRel isl (f a0) (f a).
Proof. intros Hf a0 a Hr. left. apply qpolind_rel; assumption. Qed.

Lemma qpolind_polf {X} (f : fq -> fq * X) : QPolInd f -> forall r, qpolf (fst (f r)) = qpolf r.
Proof. intros Hf r. apply (Hf (qpolf r) (qpolh r) r). Qed.

Lemma fq_polrel_set (g : fq -> fq) a0 a :
  (forall q h x, g (qpw q h x) = qpw q h (g x)) -> (forall x, qpolf (g x) = qpolf x /\ qpolh (g x) = qpolh x) ->
  fq_polrel a0 a -> fq_polrel (g a0) (g a).
Proof.
  intros Hg Hp Hr. unfold fq_polrel in *. subst a0.
  change (qset_pol a (pol_complete (qpolf a)) (qpolh a)) with (qpw (pol_complete (qpolf a)) (qpolh a) a).
  rewrite Hg. destruct (Hp a) as [-> ->]. reflexivity.
Qed.

Lemma fq_polrel_st a0 a x : fq_polrel a0 a -> fq_polrel (qset_st a0 x) (qset_st a x).
Proof. apply (fq_polrel_set (fun y => qset_st y x)); [reflexivity|intros y; split; reflexivity]. Qed.

Lemma fq_polrel_inc a0 a x : fq_polrel a0 a -> fq_polrel (qset_inc a0 x) (qset_inc a x).
Proof. apply (fq_polrel_set (fun y => qset_inc y x)); [reflexivity|intros y; split; reflexivity]. Qed.

Lemma fq_polrel_fields a0 a : fq_polrel a0 a ->
  qbuf a = qbuf a0 /\ qcap a = qcap a0 /\ p0 a = p0 a0 /\ inc a = inc a0 /\ qst a = qst a0 /\
  qline a = qline a0 /\ qbyte a = qbyte a0 /\ fq_cur a = fq_cur a0 /\ fq_bp a = fq_bp a0.
Proof. intros Hr. unfold fq_polrel in Hr. subst a0. repeat split; reflexivity. Qed.

(** ** the functions that do not consult the policy *)

Lemma fq_fill_pi ffuel : QPolInd (fq_fill ffuel).
Proof.
  intros q h r. unfold fq_fill, qpw. fq_simpl.
  destruct (fill_buf ffuel (qbuf r) (qcap r) (qsrc r) (qlog r) 0) as [[[b s] lg] res].
  cbn [fst snd]. repeat split; reflexivity.
Qed.

Lemma fq_validate_pi : QPolInd fq_validate.
Proof.
  intros q h r. destruct r as [b c s0 a0 a1 sq sp ql i ln by_ stt pf ph lg].
  unfold fq_validate, qpw, fq_error_pos. fq_proj. dmi; fq_proj; repeat split; reflexivity.
Qed.

Ltac vres_done Hf Hh := repeat split; first [reflexivity | exact Hf | exact Hh].

Lemma sst4_pi clear : QPolInd (sst4 clear).
Proof.
  intros q h r.
  unfold sst4. change (qbuf (qpw q h r)) with (qbuf r). change (pqual (qpw q h r)) with (pqual r).
  destruct (fq_find_line (qbuf r) (pqual r)) as [[x|]|]; try (repeat split; reflexivity).
  destruct clear.
  - change (qset_inc (qset_p1 (qpw q h r) (x - 1)) None) with (qpw q h (qset_inc (qset_p1 r (x - 1)) None)).
    destruct (fq_validate_pi q h (qset_inc (qset_p1 r (x - 1)) None)) as (Hv & Hf & Hh). rewrite Hv.
    destruct (fq_validate (qset_inc (qset_p1 r (x - 1)) None)) as [rv v]. cbn [fst snd] in *.
    destruct v; cbn [of_vres fst snd]; vres_done Hf Hh.
  - change (qset_p1 (qpw q h r) (x - 1)) with (qpw q h (qset_p1 r (x - 1))).
    destruct (fq_validate_pi q h (qset_p1 r (x - 1))) as (Hv & Hf & Hh). rewrite Hv.
    destruct (fq_validate (qset_p1 r (x - 1))) as [rv v]. cbn [fst snd] in *.
    destruct v; cbn [of_vres fst snd]; vres_done Hf Hh.
Qed.

Lemma sst3_pi clear : QPolInd (sst3 clear).
Proof.
  intros q h r.
  unfold sst3. change (qbuf (qpw q h r)) with (qbuf r). change (psep (qpw q h r)) with (psep r).
  destruct (fq_find_line (qbuf r) (psep r)) as [[x|]|]; try (repeat split; reflexivity).
  change (qset_qual (qpw q h r) x) with (qpw q h (qset_qual r x)). apply (sst4_pi clear q h (qset_qual r x)).
Qed.

Lemma sst2_pi clear : QPolInd (sst2 clear).
Proof.
  intros q h r.
  unfold sst2. change (qbuf (qpw q h r)) with (qbuf r). change (pseq (qpw q h r)) with (pseq r).
  destruct (fq_find_line (qbuf r) (pseq r)) as [[x|]|]; try (repeat split; reflexivity).
  change (qset_sep (qpw q h r) x) with (qpw q h (qset_sep r x)). apply (sst3_pi clear q h (qset_sep r x)).
Qed.

Lemma sst1_pi clear : QPolInd (sst1 clear).
Proof.
  intros q h r.
  unfold sst1. change (qbuf (qpw q h r)) with (qbuf r). change (p0 (qpw q h r)) with (p0 r).
  destruct (fq_find_line (qbuf r) (p0 r)) as [[x|]|]; try (repeat split; reflexivity).
  change (qset_seq (qpw q h r) x) with (qpw q h (qset_seq r x)). apply (sst2_pi clear q h (qset_seq r x)).
Qed.

Lemma fq_search_from_pi from clear : QPolInd (fq_search_from from clear).
Proof.
  intros q h r. rewrite !fq_search_from_stages. destruct from;
    [apply sst1_pi|apply sst2_pi|apply sst3_pi|apply sst4_pi].
Qed.

Lemma fq_make_room_pi st : QPolInd (fq_make_room st).
Proof.
  intros q h r.
  unfold fq_make_room, qpw. destruct st; cbv beta iota zeta delta [stage_leb stage_num Nat.leb]; fq_proj;
    repeat (match goal with |- context [if ?c then _ else _] => destruct c end; cbv beta iota zeta; fq_proj);
    repeat split; reflexivity.
Qed.

Lemma fq_check_end_pi st : QPolInd (fq_check_end st).
Proof.
  intros q h r.
  assert (Hother : forall X,
    X = (if length (qbuf r) <? p0 r then (r, QrPanic 41)
     else if forallb (fun l => match trim_cr l with [] => true | _ => false end) (pieces (skipn (p0 r) (qbuf r)))
          then (r, QrOk false)
          else match fq_error_pos r (stage_num st) (negb (stage_leb st Head)) with
               | Some (l, id) => (r, QrErr (FqUnexpectedEnd l id))
               | None => (r, QrPanic 42)
               end) ->
    (if length (qbuf (qpw q h r)) <? p0 (qpw q h r) then (qpw q h r, QrPanic 41)
     else if forallb (fun l => match trim_cr l with [] => true | _ => false end)
                     (pieces (skipn (p0 (qpw q h r)) (qbuf (qpw q h r))))
          then (qpw q h r, QrOk false)
          else match fq_error_pos (qpw q h r) (stage_num st) (negb (stage_leb st Head)) with
               | Some (l, id) => (qpw q h r, QrErr (FqUnexpectedEnd l id))
               | None => (qpw q h r, QrPanic 42)
               end) = (qpw q h (fst X), snd X) /\ qpolf (fst X) = qpolf r /\ qpolh (fst X) = qpolh r).
  { intros X ->.
    change (qbuf (qpw q h r)) with (qbuf r). change (p0 (qpw q h r)) with (p0 r).
    change (fq_error_pos (qpw q h r) (stage_num st) (negb (stage_leb st Head)))
      with (fq_error_pos r (stage_num st) (negb (stage_leb st Head))).
    destruct (length (qbuf r) <? p0 r); [repeat split; reflexivity|].
    destruct (forallb _ _); [repeat split; reflexivity|].
    destruct (fq_error_pos r (stage_num st) (negb (stage_leb st Head))) as [[l id]|]; repeat split; reflexivity. }
  unfold fq_check_end. destruct st; try (apply Hother; reflexivity).
  change (qset_p1 (qpw q h r) (length (qbuf (qpw q h r)))) with (qpw q h (qset_p1 r (length (qbuf r)))).
  destruct (fq_validate_pi q h (qset_p1 r (length (qbuf r)))) as (Hv & Hf & Hh). rewrite Hv.
  destruct (fq_validate (qset_p1 r (length (qbuf r)))) as [rv v]. cbn [fst snd] in *.
  destruct v; vres_done Hf Hh.
Qed.

Lemma fq_increment_pol a0 a : fq_polrel a0 a ->
  match fq_increment a0, fq_increment a with
  | Some b0, Some b => fq_polrel b0 b
  | None, None => True
  | _, _ => False
  end.
Proof.
  intros Hr. unfold fq_polrel in Hr. subst a0. unfold fq_increment. fq_simpl.
  destruct (p1 a + 1 <? p0 a); [exact I|]. reflexivity.
Qed.

Lemma fq_init_pi ffuel : QPolInd (fq_init ffuel).
Proof.
  intros q h r. unfold fq_init.
  destruct (fq_fill_pi ffuel q h r) as (E & Ef & Eh). rewrite E.
  destruct (fq_fill ffuel r) as [r1 fr]. cbn [fst snd] in *.
  destruct fr as [[|n]|k|]; repeat split; assumption.
Qed.

Lemma fq_seek_pi ffuel line byte_ : QPolInd (fun r => fq_seek ffuel r line byte_).
Proof.
  intros q h r. unfold fq_seek.
  change (qbyte (qpw q h r)) with (qbyte r). change (p0 (qpw q h r)) with (p0 r).
  change (qbuf (qpw q h r)) with (qbuf r). change (qsrc (qpw q h r)) with (qsrc r).
  change (qlog (qpw q h r)) with (qlog r). change (qst (qpw q h r)) with (qst r).
  destruct ((0 <=? Z.of_nat (p0 r) + (Z.of_nat byte_ - Z.of_nat (qbyte r)))%Z &&
            (Z.of_nat (p0 r) + (Z.of_nat byte_ - Z.of_nat (qbyte r)) <? Z.of_nat (length (qbuf r)))%Z &&
            negb (fq_state_eqb (qst r) QNew)).
  { repeat split; reflexivity. }
  destruct (src_seek (qsrc r) byte_) as [s' res].
  destruct res as [k|]; [repeat split; reflexivity|].
  match goal with |- (let '(_, _) := fq_fill ffuel ?A in _) = _ /\ _ =>
    match goal with |- context [fst (let '(_, _) := fq_fill ffuel ?B in _)] =>
      change A with (qpw q h B);
      destruct (fq_fill_pi ffuel q h B) as (E & Ef & Eh); rewrite E;
      destruct (fq_fill ffuel B) as [r1 fr]
    end
  end.
  cbn [fst snd] in *.
  destruct fr; vres_done Ef Eh.
Qed.

(** ** grow and the entry points *)

Definition is_qglim (g : qgres) : Prop := g = QGErr FqBufferLimit.
Definition is_qrlim (x : qrres) : Prop := x = QrErr FqBufferLimit.

Lemma fq_grow_rel a0 a : fq_polrel a0 a -> QLRel is_qglim (fq_grow a0) (fq_grow a).
Proof.
  intros Hr. unfold fq_polrel in Hr. subst a0. unfold fq_grow. fq_simpl.
  destruct (qpolf a (qpolh a) (qcap a)) as [n|] eqn:Ep; [|right; reflexivity].
  destruct (qcap a <? n) eqn:E.
  - apply Nat.ltb_lt in E. rewrite (pol_complete_id _ _ _ _ Ep E).
    assert ((n <=? qcap a) = false) as -> by (apply Nat.leb_gt; exact E).
    left. cbn [fst snd]. split; reflexivity.
  - apply Nat.ltb_ge in E. assert ((n <=? qcap a) = true) as -> by (apply Nat.leb_le; exact E).
    right. reflexivity.
Qed.

Lemma fq_resume_rel ffuel mk : forall fuel st a0 a, fq_polrel a0 a ->
  QLRel is_qrlim (fq_resume fuel ffuel st mk a0) (fq_resume fuel ffuel st mk a).
Proof.
  induction fuel as [|f IH]; intros st a0 a Hr; cbn [fq_resume]; [apply QLRel_same; exact Hr|].
  destruct (fq_polrel_fields _ _ Hr) as (Eb & Ec & Ep & _). rewrite Eb, Ec, Ep.
  destruct (length (qbuf a0) <? qcap a0).
  { apply (qpolind_QLRel is_qrlim (fq_check_end st) (fq_check_end_pi st)). apply fq_polrel_st. exact Hr. }
  assert (H1 : QLRel is_qglim (if negb mk || (p0 a0 =? 0) then fq_grow a0 else fq_make_room st a0)
                              (if negb mk || (p0 a0 =? 0) then fq_grow a else fq_make_room st a)).
  { destruct (negb mk || (p0 a0 =? 0)); [apply fq_grow_rel; exact Hr|].
    apply (qpolind_QLRel is_qglim (fq_make_room st) (fq_make_room_pi st)). exact Hr. }
  destruct H1 as [[Hg Hr1]|Hl].
  2:{ destruct (if negb mk || (p0 a0 =? 0) then fq_grow a else fq_make_room st a) as [r1 g].
      cbn [snd] in Hl. unfold is_qglim in Hl. subst g. right.
      destruct (if negb mk || (p0 a0 =? 0) then fq_grow a0 else fq_make_room st a0) as [r10 g0]. reflexivity. }
  destruct (if negb mk || (p0 a0 =? 0) then fq_grow a0 else fq_make_room st a0) as [r10 g0].
  destruct (if negb mk || (p0 a0 =? 0) then fq_grow a else fq_make_room st a) as [r1 g].
  cbn [fst snd] in *. subst g.
  destruct g0 as [|e|x]; try (apply QLRel_same; exact Hr1).
  destruct (qpolind_rel (fq_fill ffuel) (fq_fill_pi ffuel) r10 r1 Hr1) as [Hfr Hr2].
  destruct (fq_fill ffuel r10) as [r20 fr0]. destruct (fq_fill ffuel r1) as [r2 fr].
  cbn [fst snd] in *. subst fr.
  destruct fr0 as [n|k|].
  - destruct (qpolind_rel (fq_search_from st true) (fq_search_from_pi st true) r20 r2 Hr2) as [Hs Hr3].
    destruct (fq_search_from st true r20) as [r30 sr0]. destruct (fq_search_from st true r2) as [r3 sr].
    cbn [fst snd] in *. subst sr.
    destruct sr0 as [|st'|e|x]; try (apply QLRel_same; exact Hr3).
    apply IH. exact Hr3.
  - apply QLRel_same. apply fq_polrel_st.
    apply (fq_polrel_set (fun y => qset_buf y [])); [reflexivity|intros y; split; reflexivity|exact Hr2].
  - apply QLRel_same. exact Hr2.
Qed.

Lemma fq_next_tail_rel fuel ffuel a0 a : fq_polrel a0 a ->
  QLRel is_qlim (fq_next_tail fuel ffuel a0) (fq_next_tail fuel ffuel a).
Proof.
  intros Hr. unfold fq_next_tail.
  destruct (fq_polrel_fields _ _ Hr) as (_ & _ & _ & Ei & _). rewrite Ei.
  assert (H1 : snd (match inc a0 with None => fq_search_from Head false a | Some _ => (a, QsRec) end) =
               snd (match inc a0 with None => fq_search_from Head false a0 | Some _ => (a0, QsRec) end) /\
               fq_polrel (fst (match inc a0 with None => fq_search_from Head false a0 | Some _ => (a0, QsRec) end))
                         (fst (match inc a0 with None => fq_search_from Head false a | Some _ => (a, QsRec) end))).
  { destruct (inc a0); [split; [reflexivity | exact Hr]|].
    apply (qpolind_rel (fq_search_from Head false) (fq_search_from_pi Head false)). exact Hr. }
  destruct H1 as [Hs Hr1].
  destruct (match inc a0 with None => fq_search_from Head false a0 | Some _ => (a0, QsRec) end) as [r10 sr0].
  destruct (match inc a0 with None => fq_search_from Head false a | Some _ => (a, QsRec) end) as [r1 sr].
  cbn [fst snd] in *. subst sr.
  assert (Hrest : QLRel is_qlim
    (match inc r10 with
     | Some s =>
        let '(r2, rr) := fq_resume fuel ffuel s true r10 in
        match rr with
        | QrErr e => (r2, QOErr e)
        | QrPanic x => (r2, QOPanic x)
        | QrFuel => (r2, QOFuel)
        | QrOk false => (r2, QONone)
        | QrOk true => (r2, QORec (fq_cur r2))
        end
     | None => (r10, QORec (fq_cur r10))
     end)
    (match inc r1 with
     | Some s =>
        let '(r2, rr) := fq_resume fuel ffuel s true r1 in
        match rr with
        | QrErr e => (r2, QOErr e)
        | QrPanic x => (r2, QOPanic x)
        | QrFuel => (r2, QOFuel)
        | QrOk false => (r2, QONone)
        | QrOk true => (r2, QORec (fq_cur r2))
        end
     | None => (r1, QORec (fq_cur r1))
     end)).
  { destruct (fq_polrel_fields _ _ Hr1) as (_ & _ & _ & Ei1 & _ & _ & _ & Ecur1 & _). rewrite Ei1, Ecur1.
    destruct (inc r10) as [s|]; [|apply QLRel_same; exact Hr1].
    destruct (fq_resume_rel ffuel true fuel s r10 r1 Hr1) as [[Hrr Hr2]|Hl].
    2:{ destruct (fq_resume fuel ffuel s true r1) as [r2 rr]. cbn [snd] in Hl. unfold is_qrlim in Hl. subst rr.
        right. destruct (fq_resume fuel ffuel s true r10) as [r20 rr0]. reflexivity. }
    destruct (fq_resume fuel ffuel s true r10) as [r20 rr0]. destruct (fq_resume fuel ffuel s true r1) as [r2 rr].
    cbn [fst snd] in *. subst rr.
    destruct (fq_polrel_fields _ _ Hr2) as (_ & _ & _ & _ & _ & _ & _ & Ecur2 & _).
    destruct rr0 as [[|]|e|x|]; try rewrite Ecur2; apply QLRel_same; exact Hr2. }
  destruct sr0 as [|s|e|x]; try exact Hrest; apply QLRel_same; exact Hr1.
Qed.

Theorem fq_next_rel fuel ffuel a0 a : fq_polrel a0 a ->
  QLRel is_qlim (fq_next fuel ffuel a0) (fq_next fuel ffuel a).
Proof.
  intros Hr. unfold fq_next.
  destruct (fq_polrel_fields _ _ Hr) as (_ & _ & _ & Ei & Est & _). rewrite Ei, Est.
  destruct (qst a0).
  - destruct (qpolind_rel (fq_init ffuel) (fq_init_pi ffuel) a0 a Hr) as [Hir Hr1].
    destruct (fq_init ffuel a0) as [r10 ir0]. destruct (fq_init ffuel a) as [r1 ir].
    cbn [fst snd] in *. subst ir.
    destruct ir0 as [[|]|e|]; try (apply QLRel_same; exact Hr1).
    apply fq_next_tail_rel. apply fq_polrel_st. exact Hr1.
  - destruct (inc a0); [apply fq_next_tail_rel; exact Hr|].
    pose proof (fq_increment_pol a0 a Hr) as Hi.
    destruct (fq_increment a0) as [b0|]; destruct (fq_increment a) as [b|]; try contradiction.
    + apply fq_next_tail_rel. exact Hi.
    + apply QLRel_same. exact Hr.
  - apply fq_next_tail_rel. apply fq_polrel_st. exact Hr.
  - apply QLRel_same. exact Hr.
Qed.

(** ** record sets *)
Definition is_qllim (x : qlres) : Prop := x = QLErr FqBufferLimit.

Definition QLRel3 {X Y} (isl : Y -> Prop) (x0 x : fq * X * Y) : Prop :=
  (snd x = snd x0 /\ snd (fst x) = snd (fst x0) /\ fq_polrel (fst (fst x0)) (fst (fst x))) \/ isl (snd x).

Lemma QLRel3_same {X Y} (isl : Y -> Prop) a0 a (p : X) (y : Y) : fq_polrel a0 a -> QLRel3 isl (a0, p, y) (a, p, y).
Proof. intros H. left. cbn [fst snd]. auto. Qed.

Lemma fq_set_loop_rel rfuel ffuel : forall fuel n is_new a0 a ps, fq_polrel a0 a ->
  QLRel3 is_qllim (fq_set_loop fuel rfuel ffuel n is_new a0 ps) (fq_set_loop fuel rfuel ffuel n is_new a ps).
Proof.
  induction fuel as [|f IH]; intros n is_new a0 a ps Hr; cbn [fq_set_loop]; [apply QLRel3_same; exact Hr|].
  destruct (fq_polrel_fields _ _ Hr) as (_ & _ & _ & Ei & Est & _). rewrite Ei, Est.
  destruct (fq_state_eqb (qst a0) QFinished); [apply QLRel3_same; exact Hr|].
  assert (Hfound : forall b0 b, fq_polrel b0 b ->
    QLRel3 is_qllim
      (let ps2 := ps ++ [fq_bp b0] in
       match fq_increment b0 with
       | None => (b0, ps2, QLPanic 3)
       | Some r4 => if reached n (length ps2) then (r4, ps2, QLDone)
                    else fq_set_loop f rfuel ffuel n is_new r4 ps2
       end)
      (let ps2 := ps ++ [fq_bp b] in
       match fq_increment b with
       | None => (b, ps2, QLPanic 3)
       | Some r4 => if reached n (length ps2) then (r4, ps2, QLDone)
                    else fq_set_loop f rfuel ffuel n is_new r4 ps2
       end)).
  { intros b0 b Hb. cbv zeta.
    destruct (fq_polrel_fields _ _ Hb) as (_ & _ & _ & _ & _ & _ & _ & _ & Ebp). rewrite Ebp.
    pose proof (fq_increment_pol b0 b Hb) as Hi.
    destruct (fq_increment b0) as [c0|]; destruct (fq_increment b) as [c|]; try contradiction.
    - destruct (reached n (length (ps ++ [fq_bp b0]))); [apply QLRel3_same; exact Hi|].
      apply IH. exact Hi.
    - apply QLRel3_same. exact Hb. }
  destruct (inc a0) as [s|].
  - destruct (fq_resume_rel ffuel is_new rfuel s (qset_inc a0 None) (qset_inc a None) (fq_polrel_inc _ _ None Hr))
      as [[Hrr Hr1]|Hl].
    2:{ destruct (fq_resume rfuel ffuel s is_new (qset_inc a None)) as [r1 rr]. cbn [snd] in Hl.
        unfold is_qrlim in Hl. subst rr. right.
        destruct (fq_resume rfuel ffuel s is_new (qset_inc a0 None)) as [r10 rr0]. reflexivity. }
    destruct (fq_resume rfuel ffuel s is_new (qset_inc a0 None)) as [r10 rr0].
    destruct (fq_resume rfuel ffuel s is_new (qset_inc a None)) as [r1 rr].
    cbn [fst snd] in *. subst rr.
    destruct rr0 as [[|]|e|x|]; try (apply QLRel3_same; exact Hr1).
    + apply (Hfound r10 r1 Hr1).
    + destruct ps; apply QLRel3_same; exact Hr1.
  - destruct (qpolind_rel (fq_search_from Head false) (fq_search_from_pi Head false) a0 a Hr) as [Hs Hr1].
    destruct (fq_search_from Head false a0) as [r10 sr0]. destruct (fq_search_from Head false a) as [r1 sr].
    cbn [fst snd] in *. subst sr.
    destruct sr0 as [|s|e|x]; try (apply QLRel3_same; exact Hr1).
    + apply (Hfound r10 r1 Hr1).
    + destruct ps as [|p ps0]; [apply IH; exact Hr1|].
      destruct (below n (length (p :: ps0))); [apply IH; exact Hr1|].
      apply QLRel3_same. exact Hr1.
Qed.

Theorem fq_read_set_rel fuel ffuel n a0 a rs : fq_polrel a0 a ->
  QLRel3 is_qlim (fq_read_set fuel ffuel n a0 rs) (fq_read_set fuel ffuel n a rs).
Proof.
  intros Hr. unfold fq_read_set.
  assert (Hgo : forall b0 b, fq_polrel b0 b ->
    QLRel3 is_qlim
      (let '(r1, ps, lr) := fq_set_loop fuel fuel ffuel n true b0 [] in
       match lr with
       | QLDone => (r1, mkFqSet (qbuf r1) ps, QOSetOk)
       | QLErr e => (r1, mkFqSet (qsbuf rs) [], QOErr e)
       | QLPanic x => (r1, mkFqSet (qsbuf rs) ps, QOPanic x)
       | QLFuel => (r1, mkFqSet (qsbuf rs) ps, QOFuel)
       | QLNone => (r1, mkFqSet (qsbuf rs) ps, QONone)
       end)
      (let '(r1, ps, lr) := fq_set_loop fuel fuel ffuel n true b [] in
       match lr with
       | QLDone => (r1, mkFqSet (qbuf r1) ps, QOSetOk)
       | QLErr e => (r1, mkFqSet (qsbuf rs) [], QOErr e)
       | QLPanic x => (r1, mkFqSet (qsbuf rs) ps, QOPanic x)
       | QLFuel => (r1, mkFqSet (qsbuf rs) ps, QOFuel)
       | QLNone => (r1, mkFqSet (qsbuf rs) ps, QONone)
       end)).
  { intros b0 b Hb.
    destruct (fq_set_loop_rel fuel ffuel fuel n true b0 b [] Hb) as [(Hlr & Hps & Hr1)|Hl].
    2:{ destruct (fq_set_loop fuel fuel ffuel n true b []) as [[r1 ps1] lr]. cbn [snd] in Hl.
        unfold is_qllim in Hl. subst lr. right. reflexivity. }
    destruct (fq_set_loop fuel fuel ffuel n true b0 []) as [[r10 ps10] lr0].
    destruct (fq_set_loop fuel fuel ffuel n true b []) as [[r1 ps1] lr].
    cbn [fst snd] in *. subst lr ps1.
    destruct (fq_polrel_fields _ _ Hr1) as (Eb & _).
    destruct lr0; try rewrite Eb; apply QLRel3_same; exact Hr1. }
  destruct (fq_polrel_fields _ _ Hr) as (_ & _ & _ & Ei & Est & _). rewrite Ei, Est.
  destruct (qst a0).
  - destruct (qpolind_rel (fq_init ffuel) (fq_init_pi ffuel) a0 a Hr) as [Hir Hr1].
    destruct (fq_init ffuel a0) as [r10 ir0]. destruct (fq_init ffuel a) as [r1 ir].
    cbn [fst snd] in *. subst ir.
    destruct ir0 as [[|]|e|]; try (apply QLRel3_same; exact Hr1).
    apply Hgo. apply fq_polrel_st. exact Hr1.
  - destruct (inc a0); [apply Hgo; apply fq_polrel_st; exact Hr|].
    pose proof (fq_increment_pol a0 a Hr) as Hi.
    destruct (fq_increment a0) as [b0|]; destruct (fq_increment a) as [b|]; try contradiction.
    + apply Hgo. apply fq_polrel_st. exact Hi.
    + apply QLRel3_same. exact Hr.
  - apply Hgo. exact Hr.
  - apply QLRel3_same. exact Hr.
Qed.

Lemma fq_position_rel a0 a : fq_polrel a0 a -> fq_position a = fq_position a0.
Proof. intros Hr. unfold fq_polrel in Hr. subst a0. reflexivity. Qed.

Lemma fq_polrel_new cap0 s p : fq_polrel (fq_new cap0 s (pol_complete p)) (fq_new cap0 s p).
Proof. reflexivity. Qed.

Theorem fq_calls_before_refusal :
  (forall fuel ffuel a0 a a0' o0 a' o, fq_polrel a0 a ->
     fq_next fuel ffuel a0 = (a0', o0) -> fq_next fuel ffuel a = (a', o) ->
     (o = o0 /\ fq_polrel a0' a') \/ o = QOErr FqBufferLimit) /\
  (forall fuel ffuel n a0 a rs a0' rs0' o0 a' rs' o, fq_polrel a0 a ->
     fq_read_set fuel ffuel n a0 rs = (a0', rs0', o0) -> fq_read_set fuel ffuel n a rs = (a', rs', o) ->
     (o = o0 /\ rs' = rs0' /\ fq_polrel a0' a') \/ o = QOErr FqBufferLimit) /\
  (forall ffuel a0 a line byte_ a0' o0 a' o, fq_polrel a0 a ->
     fq_seek ffuel a0 line byte_ = (a0', o0) -> fq_seek ffuel a line byte_ = (a', o) ->
     o = o0 /\ fq_polrel a0' a') /\
  (forall a0 a, fq_polrel a0 a -> fq_position a = fq_position a0).
Proof.
  split; [|split; [|split]].
  - intros fuel ffuel a0 a a0' o0 a' o Hr E0 E.
    pose proof (fq_next_rel fuel ffuel a0 a Hr) as H. rewrite E0, E in H. exact H.
  - intros fuel ffuel n a0 a rs a0' rs0' o0 a' rs' o Hr E0 E.
    pose proof (fq_read_set_rel fuel ffuel n a0 a rs Hr) as H. rewrite E0, E in H. exact H.
  - intros ffuel a0 a line byte_ a0' o0 a' o Hr E0 E.
    pose proof (qpolind_rel (fun x => fq_seek ffuel x line byte_) (fq_seek_pi ffuel line byte_) a0 a Hr) as H.
    cbv beta in H. rewrite E0, E in H. exact H.
  - exact fq_position_rel.
Qed.

(** ** histories *)

Definition QCRel (c0 c : hconf) : Prop :=
  fq_polrel (c_rd c0) (c_rd c) /\ snd (fst c) = snd (fst c0) /\ snd c = snd c0.

Lemma fq_hstep_rel inp fuel ffuel op c0 c : QCRel c0 c ->
  (snd (fq_hstep inp fuel ffuel op c) = snd (fq_hstep inp fuel ffuel op c0) /\
   QCRel (fst (fq_hstep inp fuel ffuel op c0)) (fst (fq_hstep inp fuel ffuel op c))) \/
  snd (fq_hstep inp fuel ffuel op c) = OErr FqBufferLimit.
Proof.
  destruct c0 as [[a0 x0] y0]. destruct c as [[a x] y]. unfold QCRel. cbn [c_rd fst snd].
  intros (Hr & -> & ->).
  assert (Hnext : forall (f : fq_out -> hobs), f (QOErr FqBufferLimit) = OErr FqBufferLimit ->
    (snd (let '(r', o) := fq_next fuel ffuel a in (c_rd_put (a, x0, y0) r', f o)) =
     snd (let '(r', o) := fq_next fuel ffuel a0 in (c_rd_put (a0, x0, y0) r', f o)) /\
     QCRel (fst (let '(r', o) := fq_next fuel ffuel a0 in (c_rd_put (a0, x0, y0) r', f o)))
           (fst (let '(r', o) := fq_next fuel ffuel a in (c_rd_put (a, x0, y0) r', f o)))) \/
    snd (let '(r', o) := fq_next fuel ffuel a in (c_rd_put (a, x0, y0) r', f o)) = OErr FqBufferLimit).
  { intros f Hf. destruct (fq_next_rel fuel ffuel a0 a Hr) as [[Ho Hc]|Hl].
    - destruct (fq_next fuel ffuel a0) as [a0' o0]. destruct (fq_next fuel ffuel a) as [a' o].
      cbn [fst snd] in *. subst o. left. split; [reflexivity|].
      unfold QCRel, c_rd_put. cbn [c_rd fst snd]. auto.
    - destruct (fq_next fuel ffuel a) as [a' o]. cbn [fst snd] in *. unfold is_qlim in Hl. subst o.
      right. apply Hf. }
  assert (Hset : forall n s,
    (snd (let '(r', z, o) := fq_read_set fuel ffuel n a (c_slot (a, x0, y0) s) in (c_put (a, x0, y0) r' s z, set_obs z o)) =
     snd (let '(r', z, o) := fq_read_set fuel ffuel n a0 (c_slot (a0, x0, y0) s) in (c_put (a0, x0, y0) r' s z, set_obs z o)) /\
     QCRel (fst (let '(r', z, o) := fq_read_set fuel ffuel n a0 (c_slot (a0, x0, y0) s) in (c_put (a0, x0, y0) r' s z, set_obs z o)))
           (fst (let '(r', z, o) := fq_read_set fuel ffuel n a (c_slot (a, x0, y0) s) in (c_put (a, x0, y0) r' s z, set_obs z o)))) \/
    snd (let '(r', z, o) := fq_read_set fuel ffuel n a (c_slot (a, x0, y0) s) in (c_put (a, x0, y0) r' s z, set_obs z o))
    = OErr FqBufferLimit).
  { intros n s. change (c_slot (a, x0, y0) s) with (c_slot (a0, x0, y0) s).
    destruct (fq_read_set_rel fuel ffuel n a0 a (c_slot (a0, x0, y0) s) Hr) as [(Ho & Hx & Hc)|Hl].
    - destruct (fq_read_set fuel ffuel n a0 (c_slot (a0, x0, y0) s)) as [[a0' z0] o0].
      destruct (fq_read_set fuel ffuel n a (c_slot (a0, x0, y0) s)) as [[a' z] o].
      cbn [fst snd] in *. subst o z. left. split; [reflexivity|].
      unfold QCRel, c_put. destruct s; cbn [c_rd fst snd]; auto.
    - destruct (fq_read_set fuel ffuel n a (c_slot (a0, x0, y0) s)) as [[a' z] o]. cbn [fst snd] in *.
      unfold is_qlim in Hl. subst o. right. reflexivity. }
  destruct op as [| |s|s n|s| |k]; cbn [fq_hstep c_rd fst snd].
  - apply (Hnext read_obs). reflexivity.
  - apply (Hnext owned_obs). reflexivity.
  - apply (Hset None s).
  - apply (Hset (Some n) s).
  - left. split; [reflexivity|]. unfold QCRel. cbn [c_rd fst snd]. auto.
  - left. split; [rewrite (fq_position_rel a0 a Hr); reflexivity|]. unfold QCRel. cbn [c_rd fst snd]. auto.
  - destruct (nth_error (fq_spec_all inp) k) as [it|].
    2:{ left. split; [reflexivity|]. unfold QCRel. cbn [c_rd fst snd]. auto. }
    destruct (qpolind_rel (fun z => fq_seek ffuel z (fst (coords it)) (snd (coords it)))
                (fq_seek_pi ffuel (fst (coords it)) (snd (coords it))) a0 a Hr) as [Ho Hc].
    cbv beta in Ho, Hc.
    destruct (fq_seek ffuel a0 (fst (coords it)) (snd (coords it))) as [a0' o0].
    destruct (fq_seek ffuel a (fst (coords it)) (snd (coords it))) as [a' o].
    cbn [fst snd] in *. subst o. left. split; [reflexivity|].
    unfold QCRel, c_rd_put. cbn [c_rd fst snd]. auto.
Qed.

Lemma fq_hrun_rel inp fuel ffuel : forall ops c0 c, QCRel c0 c ->
  exists j, j <= length ops /\
    firstn j (fst (fq_hrun inp fuel ffuel ops c)) = firstn j (fst (fq_hrun inp fuel ffuel ops c0)) /\
    (j = length ops \/ nth_error (fst (fq_hrun inp fuel ffuel ops c)) j = Some (OErr FqBufferLimit)).
Proof.
  induction ops as [|op ops IH]; intros c0 c HC.
  { exists 0. cbn [length fq_hrun fst firstn]. split; [lia|]. split; [reflexivity|]. left. reflexivity. }
  cbn [fq_hrun length].
  destruct (fq_hstep_rel inp fuel ffuel op c0 c HC) as [[Ho HC1]|Hk].
  - destruct (fq_hstep inp fuel ffuel op c0) as [c0' o0]. destruct (fq_hstep inp fuel ffuel op c) as [c' o].
    cbn [fst snd] in *. subst o.
    destruct (IH c0' c' HC1) as (j & Hj & Hpre & Hend).
    destruct (fq_hrun inp fuel ffuel ops c0') as [os0 c0'']. destruct (fq_hrun inp fuel ffuel ops c') as [os c''].
    cbn [fst snd] in *. exists (S j). split; [lia|]. split; [cbn [firstn]; rewrite Hpre; reflexivity|].
    destruct Hend as [->|Hend]; [left; reflexivity | right; exact Hend].
  - destruct (fq_hstep inp fuel ffuel op c) as [c' o]. cbn [fst snd] in *.
    destruct (fq_hrun inp fuel ffuel ops c') as [os c''].
    destruct (fq_hstep inp fuel ffuel op c0) as [c0' o0].
    destruct (fq_hrun inp fuel ffuel ops c0') as [os0 c0''].
    cbn [fst snd]. exists 0. split; [lia|]. split; [reflexivity|]. right.
    cbn [nth_error]. rewrite Hk. reflexivity.
Qed.

Lemma QCRel_init cap0 inp rs ss pol :
  QCRel (fq_hconf0 cap0 inp rs ss (pol_complete pol)) (fq_hconf0 cap0 inp rs ss pol).
Proof. unfold QCRel, fq_hconf0. cbn [c_rd fst snd]. split; [reflexivity|split; reflexivity]. Qed.

Theorem fq_history_before_refusal : forall inp cap0 rs ss pol fuel ffuel ops,
  let obs  := fst (fq_hrun inp fuel ffuel ops (fq_hconf0 cap0 inp rs ss pol)) in
  let obs0 := fst (fq_hrun inp fuel ffuel ops (fq_hconf0 cap0 inp rs ss (pol_complete pol))) in
  exists j, j <= length ops /\ firstn j obs = firstn j obs0 /\
            (j = length ops \/ nth_error obs j = Some (OErr FqBufferLimit)).
Proof.
  intros inp cap0 rs ss pol fuel ffuel ops. cbv zeta. apply fq_hrun_rel. apply QCRel_init.
Qed.

Theorem fq_records_before_refusal : forall inp cap0 rs ss pol fuel ffuel ops,
  1 <= cap0 -> forallb item_ok rs = true -> forallb sitem_ok ss = true ->
  length rs + 2 <= ffuel -> 2 * length inp + 4 <= fuel -> hist_ok inp ops ->
  let obs := fst (fq_hrun inp fuel ffuel ops (fq_hconf0 cap0 inp rs ss pol)) in
  exists j os h',
    j <= length ops /\
    (j = length ops \/ nth_error obs j = Some (OErr FqBufferLimit)) /\
    hrun fq_sitem fq_is_rec (fq_spec_all inp) h_init (firstn j ops) os h' /\
    Forall2 (obs_match inp) (firstn j obs) os.
Proof.
  intros inp cap0 rs ss pol fuel ffuel ops Hc Hrs Hss Hf Hfu Hok. cbv zeta.
  destruct (fq_history_before_refusal inp cap0 rs ss pol fuel ffuel ops) as (j & Hj & Hpre & Hend).
  cbv zeta in Hpre, Hend.
  destruct (fq_hist_refines_cursor inp cap0 rs ss (pol_complete pol) fuel ffuel (firstn j ops) Hc Hrs Hss
              (pol_complete_PolOk1 pol) Hf Hfu (hist_ok_firstn inp j ops Hok)) as (os & h' & Hr & Hm).
  exists j, os, h'. split; [exact Hj|]. split; [exact Hend|]. split; [exact Hr|].
  rewrite Hpre, <- fq_hrun_firstn. exact Hm.
Qed.

(* ------------------------------------------------------------------ *)
(** * FASTQ: the state in which a buffer-limit error leaves the reader *)

Lemma fq_validate_facts r : inc (fst (fq_validate r)) = inc r /\ snd (fq_validate r) <> VErr FqBufferLimit.
Proof.
  destruct r as [b c s0 a0 a1 sq sp ql i ln by_ stt pf ph lg].
  unfold fq_validate, fq_error_pos. fq_proj. dmi; fq_proj; split; try reflexivity; discriminate.
Qed.

Lemma fq_check_end_no_limit s r : snd (fq_check_end s r) <> QrErr FqBufferLimit.
Proof.
  assert (Hother :
    snd (if length (qbuf r) <? p0 r then (r, QrPanic 41)
     else if forallb (fun l => match trim_cr l with [] => true | _ => false end) (pieces (skipn (p0 r) (qbuf r)))
          then (r, QrOk false)
          else match fq_error_pos r (stage_num s) (negb (stage_leb s Head)) with
               | Some (l, id) => (r, QrErr (FqUnexpectedEnd l id))
               | None => (r, QrPanic 42)
               end) <> QrErr FqBufferLimit).
  { destruct (length (qbuf r) <? p0 r); [discriminate|].
    destruct (forallb _ _); [discriminate|].
    destruct (fq_error_pos r (stage_num s) (negb (stage_leb s Head))) as [[l id]|]; discriminate. }
  unfold fq_check_end. destruct s; try exact Hother.
  destruct (fq_validate_facts (qset_p1 r (length (qbuf r)))) as [_ Hv].
  destruct (fq_validate (qset_p1 r (length (qbuf r)))) as [rv v]. cbn [snd] in *.
  destruct v; cbn [snd]; try discriminate. intros E. inversion E. subst. apply Hv. reflexivity.
Qed.

Lemma fq_grow_cases r : length (qbuf r) = qcap r -> 1 <= qcap r ->
  (exists n, qcap r < n /\
     fq_grow r = (qset_cap (qset_log (qset_pol r (qpolf r) (qcap r :: qpolh r))
                                     (EvGrow (qcap r) (Some n) :: qlog r)) n, QGOk)) \/
  (exists ans, fq_grow r = (qset_log (qset_pol r (qpolf r) (qcap r :: qpolh r))
                                     (EvGrow (qcap r) ans :: qlog r), QGErr FqBufferLimit)).
Proof.
  intros Hfull Hc. unfold fq_grow.
  destruct (qpolf r (qpolh r) (qcap r)) as [n|]; [|right; eexists; reflexivity].
  destruct (n <=? qcap r) eqn:E; [right; eexists; reflexivity|].
  apply Nat.leb_gt in E. left. exists n. split; [exact E|].
  f_equal. f_equal. cbn [qbuf qset_log qset_pol]. unfold br_reserve. rewrite Hfull, Nat.sub_diag.
  assert ((n - qcap r <=? 0) = false) as -> by (apply Nat.leb_gt; lia).
  destruct (qbuf r) as [|b0 bs] eqn:Eb; [cbn in Hfull; lia|]. lia.
Qed.

(** the search for the lines of the group at absolute offset [a] (line [l]) is suspended at
    stage [s]; NO hypothesis on the policy *)
Record QMidS (inp : list byte) (ffuel : nat) (r : fq) (off : nat) (s : stage) (a l : nat) : Prop := mkQMidS {
  qm_win : QWin inp ffuel r off;
  qm_eof : QEof inp r;
  qm_cap : 1 <= qcap r;
  qm_sinv : SInv inp r off s;
  qm_nolf : find_lf (skipn (sstart s r) (qbuf r)) = None;
  qm_a : p0 r + off = a;
  qm_byte : qbyte r = a;
  qm_line : qline r = l;
  qm_st : qst r = QParsing;
  qm_inc : inc r = Some s
}.

Definition QMid (inp : list byte) (ffuel : nat) (r : fq) (a l : nat) : Prop :=
  exists off s, QMidS inp ffuel r off s a l.

Lemma q_resume_limit inp ffuel a l mk : forall fuel r off s r',
  QMidS inp ffuel r off s a l ->
  fq_resume fuel ffuel s mk r = (r', QrErr FqBufferLimit) ->
  QMid inp ffuel r' a l.
Proof.
  induction fuel as [|f IH]; intros r off s r' [W Eo Cap HS Hno Ha Hby Hln Hst Hinc] H; [discriminate H|].
  cbn [fq_resume] in H.
  pose proof (qwin_len _ _ _ _ W) as Hl. pose proof (qw_off _ _ _ _ W) as Ho.
  pose proof (qw_pos _ _ _ _ W) as Hp. pose proof (qw_cap _ _ _ _ W) as Hc.
  pose proof (SInv_start _ _ _ _ HS) as [Hs1 Hs2].
  destruct (length (qbuf r) <? qcap r) eqn:Efull; [apply Nat.ltb_lt in Efull | apply Nat.ltb_ge in Efull].
  { exfalso. apply (fq_check_end_no_limit s (qset_st r QFinished)). rewrite H. reflexivity. }
  assert (Hstep :
    (exists r1 off1,
      (if negb mk || (p0 r =? 0) then fq_grow r else fq_make_room s r) = (r1, QGOk) /\
      QWin inp ffuel r1 off1 /\ qsrc r1 = qsrc r /\ length (qbuf r1) < qcap r1 /\
      SInv inp r1 off1 s /\
      p0 r1 + off1 = a /\ qbyte r1 = a /\ qline r1 = l /\ qst r1 = QParsing) \/
    (exists r1, (if negb mk || (p0 r =? 0) then fq_grow r else fq_make_room s r) = (r1, QGErr FqBufferLimit) /\
      QMidS inp ffuel r1 off s a l)).
  { destruct (negb mk || (p0 r =? 0)) eqn:Eb.
    - destruct (fq_grow_cases r ltac:(lia) Cap) as [(n & Hn & ->)|(ans & ->)].
      + left. eexists _, off. split; [reflexivity|].
        cbn [qbuf qsrc qcap p0 qbyte qline qst qpolf qset_cap qset_log qset_pol].
        split; [destruct W as [W1 W2 W3 W4 W5 W6 W7]; constructor;
                cbn [qbuf qsrc qcap qset_cap qset_log qset_pol]; auto; lia|].
        splits; auto; try lia.
      + right. eexists. split; [reflexivity|].
        constructor; cbn [qbuf qsrc qcap p0 qbyte qline qst inc qset_log qset_pol]; auto.
        eapply QWin_ext; [| | |exact W]; reflexivity.
    - left. apply orb_false_iff in Eb. destruct Eb as [_ E0]. apply Nat.eqb_neq in E0.
      destruct (fq_make_room_ok inp r off s HS) as
        (r1 & -> & Eb1 & Ep1 & Ec1 & Es1 & El1 & Ey1 & Et1 & Ef1 & _ & _ & _ & HS1).
      exists r1, (off + p0 r). split; [reflexivity|].
      assert (Hlen1 : length (qbuf r1) = length (qbuf r) - p0 r) by (rewrite Eb1, skipn_length; reflexivity).
      split.
      { constructor; rewrite ?Es1, ?Ec1, ?Hlen1; try apply W; try lia.
        rewrite Eb1, (skipn_qbuf _ _ _ _ _ W) by lia. f_equal. lia. }
      splits; auto; try lia; try congruence. }
  destruct Hstep as [(r1 & off1 & Eroom & W1 & Hsrc1 & Hroom & HS1 & Ha1 & Hby1 & Hln1 & Hst1)|(r1 & Eroom & HM)].
  2:{ rewrite Eroom in H. inversion H; subst r'. exists off, s. exact HM. }
  rewrite Eroom in H.
  destruct (fq_fill_ok _ _ _ _ W1) as (s' & lg' & Hfill & Hps' & Hds' & Hnf' & Hfu' & _ & _ & Hle').
  cbv zeta in Hfill. rewrite Hfill in H.
  set (e' := Nat.min (off1 + qcap r1) (length inp)) in *.
  set (r2 := qset_log (qset_src (qset_buf r1 (window inp off1 e')) s') lg') in *.
  pose proof (qwin_len _ _ _ _ W1) as Hl1. pose proof (qw_off _ _ _ _ W1) as Ho1.
  pose proof (qw_pos _ _ _ _ W1) as Hp1.
  assert (Hwl : length (window inp off1 e') = e' - off1) by (apply window_length; unfold e'; lia).
  assert (W2 : QWin inp ffuel r2 off1).
  { constructor; unfold r2; cbn [qbuf qsrc qcap qset_log qset_src qset_buf];
      rewrite ?Hps', ?Hwl; auto; try (unfold e'; lia). }
  assert (Eo2 : QEof inp r2).
  { unfold QEof, r2; cbn [qbuf qsrc qcap qset_log qset_src qset_buf]. rewrite Hwl, Hps'. unfold e'. lia. }
  assert (Cap2 : 1 <= qcap r2) by (unfold r2; cbn [qcap qset_log qset_src qset_buf]; lia).
  assert (HS2 : SInv inp r2 off1 s).
  { eapply SInv_mono; [| | | | |exact HS1]; try reflexivity.
    unfold r2; cbn [qbuf qset_log qset_src qset_buf]. rewrite Hwl. lia. }
  pose proof (FastqInv.search_spec inp ffuel off1 true s r2 W2 HS2) as Hsearch.
  destruct Hsearch as [(s3 & r3 & HX & Hb3 & HS3 & Hno3 & Hinc3)|(r3 & e & HX & Hb3 & Hinc3 & HS3 & H4 & He & Hle3)].
  - rewrite HX in H.
    pose proof Hb3 as (E1 & E2 & E3 & E4 & E5 & E6 & E7 & E8 & _).
    apply (IH r3 off1 s3 r'); [|exact H].
    constructor.
    + eapply QWin_ext; [| | |exact W2]; assumption.
    + eapply QEof_ext; [| | |exact Eo2]; assumption.
    + rewrite E2. exact Cap2.
    + exact HS3.
    + exact Hno3.
    + rewrite E4. exact Ha1.
    + rewrite E6. exact Hby1.
    + rewrite E5. exact Hln1.
    + rewrite E7. exact Hst1.
    + exact Hinc3.
  - rewrite HX in H.
    destruct (fq_validate_facts (qset_inc r3 None)) as [_ Hv].
    destruct (fq_validate (qset_inc r3 None)) as [rv v]. cbn [snd of_vres] in *.
    destruct v; cbn [of_vres] in H; try discriminate H.
    exfalso. inversion H. subst. apply Hv. reflexivity.
Qed.

Lemma q_tail_limit inp ffuel fuel r off a l r' :
  QWin inp ffuel r off -> QEof inp r -> 1 <= qcap r -> p0 r + off = a -> qbyte r = a -> qline r = l ->
  p0 r <= length (qbuf r) -> inc r = None -> qst r = QParsing ->
  fq_next_tail fuel ffuel r = (r', QOErr FqBufferLimit) -> QMid inp ffuel r' a l.
Proof.
  intros W Eo Cap Ha Hby Hln Hle Hinc Hst H.
  unfold fq_next_tail in H. rewrite Hinc in H.
  destruct (FastqInv.search_spec inp ffuel off false Head r W Hle)
    as [(s3 & r3 & HX & Hb3 & HS3 & Hno3 & Hinc3)|(r3 & e & HX & Hb3 & Hinc3 & HS3 & H4 & He & Hle3)].
  - rewrite HX in H. cbv beta iota zeta in H. rewrite Hinc3 in H.
    pose proof Hb3 as (E1 & E2 & E3 & E4 & E5 & E6 & E7 & E8 & _).
    destruct (fq_resume fuel ffuel s3 true r3) as [r2 rr] eqn:Er.
    destruct rr as [[|]|e0|x|]; try discriminate H.
    inversion H; subst r2 e0. clear H.
    apply (q_resume_limit inp ffuel a l true fuel r3 off s3 r'); [|exact Er].
    constructor.
    + eapply QWin_ext; [| | |exact W]; assumption.
    + eapply QEof_ext; [| | |exact Eo]; assumption.
    + rewrite E2. exact Cap.
    + exact HS3.
    + exact Hno3.
    + rewrite E4. exact Ha.
    + rewrite E6. exact Hby.
    + rewrite E5. exact Hln.
    + rewrite E7. exact Hst.
    + exact Hinc3.
  - exfalso. rewrite HX in H. cbv iota in H.
    destruct (fq_validate_facts r3) as [Hi Hv].
    destruct (fq_validate r3) as [rv v]. cbn [fst snd of_vres] in *.
    destruct v; cbn [of_vres] in H; cbv beta iota zeta in H.
    + rewrite Hi, Hinc3, Hinc in H. discriminate H.
    + inversion H. subst. apply Hv. reflexivity.
    + discriminate H.
Qed.

(** from the suspended state a never-refusing policy completes the group *)
Lemma qmid_next_ok inp ffuel fuel r a l : QMid inp ffuel r a l -> PolOk1 (qpolf r) -> length inp + 2 <= fuel ->
  exists r' o, fq_next fuel ffuel r = (r', o) /\ Post inp ffuel a l r' o.
Proof.
  intros (off & s & [W Eo Cap HS Hno Ha Hby Hln Hst Hinc]) Hpol Hfuel.
  unfold fq_next. rewrite Hst, Hinc. unfold fq_next_tail. rewrite Hinc. cbv beta iota zeta. rewrite Hinc.
  destruct (FastqNextP.resume_spec inp ffuel a l true fuel r off s) as (r' & rr & Hr & HP); auto.
  { unfold QBase. auto. }
  { pose proof (qw_pos _ _ _ _ W). destruct (length (qbuf r) <? qcap r); lia. }
  rewrite Hr. exists r', (qr_out r' rr). split; [|exact HP].
  destruct rr as [[|]|e|x|]; reflexivity.
Qed.

Lemma qmid_next_limit inp ffuel fuel r a l r' : QMid inp ffuel r a l ->
  fq_next fuel ffuel r = (r', QOErr FqBufferLimit) -> QMid inp ffuel r' a l.
Proof.
  intros (off & s & HM) H.
  pose proof (qm_st _ _ _ _ _ _ _ HM) as Hst. pose proof (qm_inc _ _ _ _ _ _ _ HM) as Hinc.
  unfold fq_next in H. rewrite Hst, Hinc in H. unfold fq_next_tail in H. rewrite Hinc in H.
  cbv beta iota zeta in H. rewrite Hinc in H.
  destruct (fq_resume fuel ffuel s true r) as [r2 rr] eqn:Er.
  destruct rr as [[|]|e0|x|]; try discriminate H.
  inversion H; subst r2 e0. clear H.
  apply (q_resume_limit inp ffuel a l true fuel r off s r' HM Er).
Qed.

(* ------------------------------------------------------------------ *)
(** * FASTQ: the between-calls invariant without a hypothesis on the policy *)

Lemma qset_pol_id r : qset_pol r (qpolf r) (qpolh r) = r.
Proof. destruct r; reflexivity. Qed.

Lemma QInv_pol inp ffuel r q h q' h' items :
  QInv inp ffuel (qset_pol r q h) items -> PolOk1 q' -> QInv inp ffuel (qset_pol r q' h') items.
Proof.
  unfold QInv. fq_simpl. destruct (qst r).
  - intros (W & Hp0 & H0 & Hinc & Hln & Hby & Pol & Cap & Hit) Hq.
    split; [eapply QWin_ext; [| | |exact W]; reflexivity|]. splits; assumption.
  - intros (off & (W & E & P & C) & Hrest) Hq. exists off. split; [|exact Hrest].
    split; [eapply QWin_ext; [| | |exact W]; reflexivity|]. split; [exact E|]. split; [exact Hq|exact C].
  - intros H _. exact H.
  - intros H _. exact H.
Qed.

(** [QInv] of Proofs/FastqNextP.v, whatever the policy is *)
Definition QInvA (inp : list byte) (ffuel : nat) (r : fq) (items : list fq_sitem) : Prop :=
  QInv inp ffuel (qset_pol r pol_std (qpolh r)) items.

Lemma QInvA_ok inp ffuel r items : QInvA inp ffuel r items -> PolOk1 (qpolf r) -> QInv inp ffuel r items.
Proof. intros H Hp. rewrite <- (qset_pol_id r). eapply QInv_pol; eassumption. Qed.

Lemma QInvA_of inp ffuel r items : QInv inp ffuel r items -> QInvA inp ffuel r items.
Proof. intros H. rewrite <- (qset_pol_id r) in H. eapply QInv_pol; [exact H|exact PolOk1_std]. Qed.

Lemma QInvA_twin inp ffuel r items : QInvA inp ffuel r items ->
  QInv inp ffuel (qset_pol r (pol_complete (qpolf r)) (qpolh r)) items.
Proof. intros H. eapply QInv_pol; [exact H|apply pol_complete_PolOk1]. Qed.

Lemma QInvA_rel inp ffuel a0 a items : fq_polrel a0 a -> QInv inp ffuel a0 items -> QInvA inp ffuel a items.
Proof. intros Hr H. unfold fq_polrel in Hr. subst a0. eapply QInv_pol; [exact H|exact PolOk1_std]. Qed.

Lemma QInvA_set_policy inp ffuel r q items : QInvA inp ffuel r items -> QInvA inp ffuel (fq_set_policy r q) items.
Proof.
  intros H. unfold QInvA, fq_set_policy in *.
  change (qset_pol (qset_pol r q []) pol_std (qpolh (qset_pol r q []))) with (qset_pol r pol_std []).
  eapply QInv_pol; [exact H|exact PolOk1_std].
Qed.

Lemma QMid_pol inp ffuel r q h a l : QMid inp ffuel r a l -> QMid inp ffuel (qset_pol r q h) a l.
Proof.
  intros (off & s & [W Eo Cap HS Hno Ha Hby Hln Hst Hinc]). exists off, s.
  constructor; try assumption. eapply QWin_ext; [| | |exact W]; reflexivity.
Qed.

Lemma fq_polrel_refl_twin r : fq_polrel (qset_pol r (pol_complete (qpolf r)) (qpolh r)) r.
Proof. reflexivity. Qed.

Ltac fq_simpl_in H := cbn [qbuf qcap qsrc p0 p1 pseq psep pqual inc qline qbyte qst qpolf qpolh qlog
  qset_buf qset_cap qset_src qset_p0 qset_p1 qset_seq qset_sep qset_qual qset_inc qset_line qset_byte
  qset_st qset_pol qset_log] in H.

Lemma q_next_limit inp ffuel fuel r items r' : QInvA inp ffuel r items ->
  fq_next fuel ffuel r = (r', QOErr FqBufferLimit) ->
  exists a l, QMid inp ffuel r' a l /\ items = fq_parse (skipn a inp) l a.
Proof.
  intros HQ H. unfold QInvA, QInv in HQ. fq_simpl_in HQ. unfold fq_next in H.
  destruct (qst r) eqn:Hst.
  - destruct HQ as (W0 & Hp0 & H0 & Hinc & Hln & Hby & _ & Cap & ->).
    assert (W : QWin inp ffuel r 0) by (eapply QWin_ext; [| | |exact W0]; reflexivity).
    destruct (fq_fill_ok _ _ _ _ W) as (s' & lg' & Hfill & Hps' & Hds' & Hnf' & Hfu' & _ & _ & Hle').
    cbv zeta in Hfill. rewrite Hp0, Nat.sub_0_r, Nat.add_0_l in Hfill.
    rewrite Nat.add_0_l in Hps'.
    set (e' := Nat.min (qcap r) (length inp)) in *.
    set (r2 := qset_log (qset_src (qset_buf r (window inp 0 e')) s') lg') in *.
    rewrite (fq_init_fill _ _ _ _ Hfill) in H.
    assert (Hwl : length (window inp 0 e') = e') by (rewrite window_length; unfold e'; lia).
    destruct (e' =? 0) eqn:Ee; [discriminate H | apply Nat.eqb_neq in Ee].
    assert (W2 : QWin inp ffuel r2 0).
    { constructor; unfold r2; cbn [qbuf qsrc qcap qset_log qset_src qset_buf];
        rewrite ?Hps', ?Hwl; auto; try apply W; try lia. }
    exists 0, 1. split; [|reflexivity].
    apply (q_tail_limit inp ffuel fuel (qset_st r2 QParsing) 0 0 1 r'); try exact H;
      unfold r2; cbn [p0 qbyte qline qbuf qcap qsrc inc qst qset_st qset_log qset_src qset_buf]; auto; try lia.
    + eapply QWin_ext; [| | |exact W2]; reflexivity.
    + unfold QEof; cbn [qbuf qsrc qcap qset_st qset_log qset_src qset_buf]. rewrite Hwl, Hps'. unfold e'. lia.
  - destruct HQ as (off & (W0 & Eo & _ & Cap) & Hinc & Hby & Hle1 & Hle2 & ->).
    assert (W : QWin inp ffuel r off) by (eapply QWin_ext; [| | |exact W0]; reflexivity).
    rewrite Hinc in H. unfold fq_increment in H.
    assert ((p1 r + 1 <? p0 r) = false) as E by (apply Nat.ltb_ge; lia). rewrite E in H. clear E.
    exists (p1 r + 1 + off), (qline r + 4). split; [|reflexivity].
    match type of H with fq_next_tail _ _ ?R = _ => set (r1 := R) in * end.
    apply (q_tail_limit inp ffuel fuel r1 off (p1 r + 1 + off) (qline r + 4) r'); try exact H;
      unfold r1; cbn [p0 qbyte qline qbuf qcap inc qst qset_p0 qset_line qset_byte]; auto; try lia.
    + eapply QWin_ext; [| | |exact W]; reflexivity.
  - contradiction.
  - discriminate H.
Qed.

(** one [next()] under an arbitrary policy *)
Lemma q_next_any inp ffuel fuel r items r' o : QInvA inp ffuel r items -> length inp + 2 <= fuel ->
  fq_next fuel ffuel r = (r', o) ->
  (o = QOErr FqBufferLimit /\ exists a l, QMid inp ffuel r' a l /\ items = fq_parse (skipn a inp) l a) \/
  (fq_matches inp (o, fq_position r') (hd_error items) /\ QInvA inp ffuel r' (tl items)).
Proof.
  intros HQ Hfuel H.
  set (a0 := qset_pol r (pol_complete (qpolf r)) (qpolh r)).
  destruct (next_step inp ffuel fuel a0 items (QInvA_twin _ _ _ _ HQ) Hfuel) as (a0' & o0 & E0 & Hm & HQ').
  pose proof (fq_next_rel fuel ffuel a0 r (fq_polrel_refl_twin r)) as HL. rewrite E0, H in HL.
  destruct HL as [[Ho Hr']|Hl]; cbn [fst snd] in *.
  - right. subst o. rewrite (fq_position_rel _ _ Hr'). split; [exact Hm|]. eapply QInvA_rel; eassumption.
  - left. unfold is_qlim in Hl. subst o. split; [reflexivity|].
    apply (q_next_limit inp ffuel fuel r items r' HQ H).
Qed.

Lemma qmid_next_any inp ffuel fuel r a l r' o : QMid inp ffuel r a l -> length inp + 2 <= fuel ->
  fq_next fuel ffuel r = (r', o) ->
  (o = QOErr FqBufferLimit /\ QMid inp ffuel r' a l) \/
  (fq_matches inp (o, fq_position r') (hd_error (fq_parse (skipn a inp) l a)) /\
   QInvA inp ffuel r' (tl (fq_parse (skipn a inp) l a))).
Proof.
  intros HM Hfuel H.
  set (a0 := qset_pol r (pol_complete (qpolf r)) (qpolh r)).
  destruct (qmid_next_ok inp ffuel fuel a0 a l (QMid_pol _ _ _ _ _ _ _ HM) (pol_complete_PolOk1 _) Hfuel)
    as (a0' & o0 & E0 & HP).
  apply Post_step in HP. destruct HP as [Hm HQ'].
  pose proof (fq_next_rel fuel ffuel a0 r (fq_polrel_refl_twin r)) as HL. rewrite E0, H in HL.
  destruct HL as [[Ho Hr']|Hl]; cbn [fst snd] in *.
  - right. subst o. rewrite (fq_position_rel _ _ Hr'). split; [exact Hm|]. eapply QInvA_rel; eassumption.
  - left. unfold is_qlim in Hl. subst o. split; [reflexivity|].
    apply (qmid_next_limit inp ffuel fuel r a l r' HM H).
Qed.

(** [next] never changes the policy *)
Lemma fq_grow_polf r : qpolf (fst (fq_grow r)) = qpolf r.
Proof. unfold fq_grow. destruct (qpolf r (qpolh r) (qcap r)) as [n|]; [destruct (n <=? qcap r)|]; reflexivity. Qed.

Lemma fq_resume_polf ffuel mk : forall fuel s r, qpolf (fst (fq_resume fuel ffuel s mk r)) = qpolf r.
Proof.
  induction fuel as [|f IH]; intros s r; cbn [fq_resume]; [reflexivity|].
  destruct (length (qbuf r) <? qcap r).
  { rewrite (qpolind_polf _ (fq_check_end_pi s)). reflexivity. }
  assert (H1 : qpolf (fst (if negb mk || (p0 r =? 0) then fq_grow r else fq_make_room s r)) = qpolf r).
  { destruct (negb mk || (p0 r =? 0)); [apply fq_grow_polf|apply (qpolind_polf _ (fq_make_room_pi s))]. }
  destruct (if negb mk || (p0 r =? 0) then fq_grow r else fq_make_room s r) as [r1 g]. cbn [fst] in H1.
  destruct g; try exact H1.
  pose proof (qpolind_polf _ (fq_fill_pi ffuel) r1) as H2.
  destruct (fq_fill ffuel r1) as [r2 fr]. cbn [fst] in *.
  destruct fr as [n|k|]; cbn [fst]; fq_simpl; try congruence.
  pose proof (qpolind_polf _ (fq_search_from_pi s true) r2) as H3.
  destruct (fq_search_from s true r2) as [r3 sr]. cbn [fst] in *.
  destruct sr as [|s'|e|x]; cbn [fst]; try congruence.
Qed.

Lemma fq_next_tail_polf fuel ffuel r : qpolf (fst (fq_next_tail fuel ffuel r)) = qpolf r.
Proof.
  unfold fq_next_tail.
  assert (H1 : qpolf (fst (match inc r with None => fq_search_from Head false r | Some _ => (r, QsRec) end)) = qpolf r).
  { destruct (inc r); [reflexivity|apply (qpolind_polf _ (fq_search_from_pi Head false))]. }
  destruct (match inc r with None => fq_search_from Head false r | Some _ => (r, QsRec) end) as [r1 sr]. cbn [fst] in H1.
  assert (Hrest : qpolf (fst (match inc r1 with
     | Some s =>
        let '(r2, rr) := fq_resume fuel ffuel s true r1 in
        match rr with
        | QrErr e => (r2, QOErr e)
        | QrPanic x => (r2, QOPanic x)
        | QrFuel => (r2, QOFuel)
        | QrOk false => (r2, QONone)
        | QrOk true => (r2, QORec (fq_cur r2))
        end
     | None => (r1, QORec (fq_cur r1))
     end)) = qpolf r).
  { destruct (inc r1) as [s|]; [|exact H1].
    pose proof (fq_resume_polf ffuel true fuel s r1) as H2.
    destruct (fq_resume fuel ffuel s true r1) as [r2 rr]. cbn [fst] in H2.
    destruct rr as [[|]|e|x|]; cbn [fst]; congruence. }
  destruct sr as [|s|e|x]; try exact Hrest; exact H1.
Qed.

Lemma fq_next_polf fuel ffuel r : qpolf (fst (fq_next fuel ffuel r)) = qpolf r.
Proof.
  unfold fq_next. destruct (qst r).
  - pose proof (qpolind_polf _ (fq_init_pi ffuel) r) as H1.
    destruct (fq_init ffuel r) as [r1 ir]. cbn [fst] in H1.
    destruct ir as [[|]|e|]; try exact H1.
    rewrite fq_next_tail_polf. exact H1.
  - destruct (inc r); [apply fq_next_tail_polf|].
    unfold fq_increment. destruct (p1 r + 1 <? p0 r); [reflexivity|]. rewrite fq_next_tail_polf. reflexivity.
  - rewrite fq_next_tail_polf. reflexivity.
  - reflexivity.
Qed.

(* ------------------------------------------------------------------ *)
(** * FASTQ: runs of [next()] with policy swaps *)

Fixpoint fq_prun (fuel ffuel : nat) (ops : list pop) (r : fq) : list (fq_out * (nat * nat)) :=
  match ops with
  | [] => []
  | PNext :: rest => let '(r', o) := fq_next fuel ffuel r in (o, fq_position r') :: fq_prun fuel ffuel rest r'
  | PSetPolicy q :: rest => fq_prun fuel ffuel rest (fq_set_policy r q)
  end.

Fixpoint fq_pstate (fuel ffuel : nat) (ops : list pop) (r : fq) : fq :=
  match ops with
  | [] => r
  | PNext :: rest => fq_pstate fuel ffuel rest (fst (fq_next fuel ffuel r))
  | PSetPolicy q :: rest => fq_pstate fuel ffuel rest (fq_set_policy r q)
  end.

Definition qnot_limit (o : fq_out * (nat * nat)) : bool :=
  match fst o with QOErr FqBufferLimit => false | _ => true end.

Lemma fq_prun_length fuel ffuel : forall ops r, length (fq_prun fuel ffuel ops r) = pnexts ops.
Proof.
  induction ops as [|[|q] ops IH]; intros r; cbn [fq_prun pnexts]; [reflexivity| |apply IH].
  destruct (fq_next fuel ffuel r) as [r' o]. cbn [length]. rewrite IH. reflexivity.
Qed.

Lemma fq_prun_app fuel ffuel : forall a b r,
  fq_prun fuel ffuel (a ++ b) r = fq_prun fuel ffuel a r ++ fq_prun fuel ffuel b (fq_pstate fuel ffuel a r).
Proof.
  induction a as [|[|q] a IH]; intros b r; cbn [app fq_prun fq_pstate]; [reflexivity| |apply IH].
  destruct (fq_next fuel ffuel r) as [r' o]. cbn [fst app]. rewrite IH. reflexivity.
Qed.

Definition QPInv (inp : list byte) (ffuel : nat) (r : fq) (items : list fq_sitem) : Prop :=
  QInvA inp ffuel r items \/ exists a l, QMid inp ffuel r a l /\ items = fq_parse (skipn a inp) l a.

Lemma QPInv_set_policy inp ffuel r q items : QPInv inp ffuel r items -> QPInv inp ffuel (fq_set_policy r q) items.
Proof.
  intros [H|(a & l & HM & ->)].
  - left. apply QInvA_set_policy. exact H.
  - right. exists a, l. split; [apply QMid_pol; exact HM|reflexivity].
Qed.

Lemma qpinv_step inp ffuel fuel r items r' o : QPInv inp ffuel r items -> length inp + 2 <= fuel ->
  fq_next fuel ffuel r = (r', o) ->
  (o = QOErr FqBufferLimit /\ QPInv inp ffuel r' items) \/
  (fq_matches inp (o, fq_position r') (hd_error items) /\ QPInv inp ffuel r' (tl items)).
Proof.
  intros [HQ|(a & l & HM & ->)] Hfuel H.
  - destruct (q_next_any inp ffuel fuel r items r' o HQ Hfuel H) as [[-> (a & l & HM & ->)]|[Hm HQ']].
    + left. split; [reflexivity|]. right. exists a, l. auto.
    + right. split; [exact Hm|left; exact HQ'].
  - destruct (qmid_next_any inp ffuel fuel r a l r' o HM Hfuel H) as [[-> HM']|[Hm HQ']].
    + left. split; [reflexivity|]. right. exists a, l. auto.
    + right. split; [exact Hm|left; exact HQ'].
Qed.

Lemma qnot_limit_matches inp o it : fq_matches inp o it -> qnot_limit o = true.
Proof.
  destruct o as [o pos]. unfold qnot_limit. cbn [fst].
  destruct it as [[i|e l b]|]; destruct o as [| | | |e'| |]; cbn [fq_matches]; try contradiction; try reflexivity.
  intros [-> _]. destruct e; reflexivity.
Qed.

Lemma qpinv_step_ok inp ffuel fuel r items : QPInv inp ffuel r items -> length inp + 2 <= fuel -> PolOk1 (qpolf r) ->
  exists r' o, fq_next fuel ffuel r = (r', o) /\ qnot_limit (o, fq_position r') = true.
Proof.
  intros [HQ|(a & l & HM & ->)] Hfuel Hpol.
  - destruct (next_step inp ffuel fuel r items (QInvA_ok _ _ _ _ HQ Hpol) Hfuel) as (r' & o & E & Hm & _).
    exists r', o. split; [exact E|]. eapply qnot_limit_matches; exact Hm.
  - destruct (qmid_next_ok inp ffuel fuel r a l HM Hpol Hfuel) as (r' & o & E & HP).
    apply Post_step in HP. exists r', o. split; [exact E|]. eapply qnot_limit_matches; apply HP.
Qed.

Lemma qprun_pinv inp ffuel fuel : length inp + 2 <= fuel -> forall ops r items m, QPInv inp ffuel r items ->
  length (filter qnot_limit (fq_prun fuel ffuel ops r)) <= m ->
  Forall2 (fq_matches inp) (filter qnot_limit (fq_prun fuel ffuel ops r))
          (firstn (length (filter qnot_limit (fq_prun fuel ffuel ops r))) (map Some items ++ repeat None m)).
Proof.
  intros Hfuel. induction ops as [|[|q] ops IH]; intros r items m HP Hm; cbn [fq_prun].
  - constructor.
  - cbn [fq_prun] in Hm. destruct (fq_next fuel ffuel r) as [r' o] eqn:E.
    destruct (qpinv_step inp ffuel fuel r items r' o HP Hfuel E) as [[-> HP']|[Hmt HP']].
    + cbn [filter qnot_limit fst] in *. apply IH; assumption.
    + pose proof (qnot_limit_matches _ _ _ Hmt) as Hnl.
      cbn [filter] in *. rewrite Hnl in *. cbn [length] in *.
      destruct items as [|it items']; cbn [hd_error tl map app] in *.
      * destruct m as [|m]; [lia|]. cbn [repeat]. rewrite firstn_S_cons.
        constructor; [exact Hmt|]. apply (IH r' [] m HP'). lia.
      * rewrite firstn_S_cons. constructor; [exact Hmt|]. apply (IH r' items' m HP'). lia.
  - cbn [fq_prun] in Hm. apply IH; [apply QPInv_set_policy; exact HP|exact Hm].
Qed.

Lemma qprun_pinv_ok inp ffuel fuel : length inp + 2 <= fuel -> forall ops r items, QPInv inp ffuel r items ->
  PolOk1 (qpolf r) -> Forall pop_ok ops ->
  Forall (fun o => qnot_limit o = true) (fq_prun fuel ffuel ops r).
Proof.
  intros Hfuel. induction ops as [|[|q] ops IH]; intros r items HP Hpol Hops; cbn [fq_prun]; [constructor| |].
  - inversion Hops as [|? ? _ Hops']; subst.
    destruct (qpinv_step_ok inp ffuel fuel r items HP Hfuel Hpol) as (r' & o & E & Hnl).
    pose proof (fq_next_polf fuel ffuel r) as Hpf. rewrite E in *. cbn [fst] in Hpf.
    assert (HP' : exists items', QPInv inp ffuel r' items').
    { destruct (qpinv_step inp ffuel fuel r items r' o HP Hfuel E) as [[_ HP']|[_ HP']]; eauto. }
    destruct HP' as (items' & HP').
    constructor; [exact Hnl|].
    apply (IH r' items' HP'); [rewrite Hpf; exact Hpol|exact Hops'].
  - inversion Hops as [|? ? Hq Hops']; subst.
    apply (IH _ items); [apply QPInv_set_policy; exact HP|exact Hq|exact Hops'].
Qed.

Lemma qpstate_pinv inp ffuel fuel : length inp + 2 <= fuel -> forall ops r items, QPInv inp ffuel r items ->
  exists items', QPInv inp ffuel (fq_pstate fuel ffuel ops r) items'.
Proof.
  intros Hfuel. induction ops as [|[|q] ops IH]; intros r items HP; cbn [fq_pstate].
  - exists items. exact HP.
  - destruct (fq_next fuel ffuel r) as [r' o] eqn:E. cbn [fst].
    destruct (qpinv_step inp ffuel fuel r items r' o HP Hfuel E) as [[_ HP']|[_ HP']]; eapply IH; exact HP'.
  - apply (IH _ items). apply QPInv_set_policy. exact HP.
Qed.

Lemma QPInv_new inp cap0 rs ss pol ffuel :
  1 <= cap0 -> forallb item_ok rs = true -> length rs + 2 <= ffuel ->
  QPInv inp ffuel (fq_new cap0 (mkSource inp 0 rs ss) pol) (fq_spec_all inp).
Proof.
  intros Hc Hrs Hf. left. unfold QInvA.
  change (qset_pol (fq_new cap0 (mkSource inp 0 rs ss) pol) pol_std (qpolh (fq_new cap0 (mkSource inp 0 rs ss) pol)))
    with (fq_new cap0 (mkSource inp 0 rs ss) pol_std).
  apply QInv_new; auto. exact PolOk1_std.
Qed.

Section FqTop.
  Variables (inp : list byte) (cap0 : nat) (rs : list ritem) (ss : list sitem) (fuel ffuel : nat).
  Hypothesis Hcap : 1 <= cap0.
  Hypothesis Hrs : forallb item_ok rs = true.
  Hypothesis Hff : length rs + 2 <= ffuel.
  Hypothesis Hfuel : length inp + 2 <= fuel.

  (** whatever the policies are: the outcomes other than buffer-limit errors are the
      specification stream, in order, each item once *)
  Theorem fq_policy_ops_stream pol ops :
    let outs := filter qnot_limit (fq_prun fuel ffuel ops (fq_new cap0 (mkSource inp 0 rs ss) pol)) in
    Forall2 (fq_matches inp) outs (firstn (length outs) (map Some (fq_spec_all inp) ++ repeat None (length outs))).
  Proof.
    cbv zeta. apply (qprun_pinv inp ffuel fuel Hfuel); [apply QPInv_new; assumption|apply le_n].
  Qed.

  Theorem fq_policy_swap_transparent pol ops : PolOk pol -> Forall pop_ok ops ->
    Forall2 (fq_matches inp) (fq_prun fuel ffuel ops (fq_new cap0 (mkSource inp 0 rs ss) pol))
            (firstn (pnexts ops) (map Some (fq_spec_all inp) ++ repeat None (pnexts ops))).
  Proof.
    intros Hpol Hops.
    pose proof (qprun_pinv_ok inp ffuel fuel Hfuel ops _ _ (QPInv_new inp cap0 rs ss pol ffuel Hcap Hrs Hff)
                  (PolOk_PolOk1 _ Hpol) Hops) as Hok.
    pose proof (fq_policy_ops_stream pol ops) as H. cbv zeta in H.
    rewrite (filter_all _ _ Hok), fq_prun_length in H. exact H.
  Qed.

  Theorem fq_generous_policy_resumes pol ops1 q ops2 : PolOk q -> Forall pop_ok ops2 ->
    let r0 := fq_new cap0 (mkSource inp 0 rs ss) pol in
    let outs1 := fq_prun fuel ffuel ops1 r0 in
    let outs2 := fq_prun fuel ffuel (PSetPolicy q :: ops2) (fq_pstate fuel ffuel ops1 r0) in
    fq_prun fuel ffuel (ops1 ++ PSetPolicy q :: ops2) r0 = outs1 ++ outs2 /\
    length outs1 = pnexts ops1 /\ length outs2 = pnexts ops2 /\
    Forall (fun o => qnot_limit o = true) outs2 /\
    Forall2 (fq_matches inp) (filter qnot_limit outs1 ++ outs2)
            (firstn (length (filter qnot_limit outs1) + pnexts ops2)
                    (map Some (fq_spec_all inp) ++ repeat None (length (filter qnot_limit outs1) + pnexts ops2))).
  Proof.
    intros Hq Hops2. cbv zeta.
    set (r0 := fq_new cap0 (mkSource inp 0 rs ss) pol).
    assert (Hok : Forall (fun o => qnot_limit o = true)
                         (fq_prun fuel ffuel (PSetPolicy q :: ops2) (fq_pstate fuel ffuel ops1 r0))).
    { destruct (qpstate_pinv inp ffuel fuel Hfuel ops1 r0 _ (QPInv_new inp cap0 rs ss pol ffuel Hcap Hrs Hff)) as (its & HP).
      cbn [fq_prun]. apply (qprun_pinv_ok inp ffuel fuel Hfuel ops2 _ its);
        [apply QPInv_set_policy; exact HP|exact (PolOk_PolOk1 _ Hq)|exact Hops2]. }
    split; [apply fq_prun_app|]. split; [apply fq_prun_length|].
    split; [exact (fq_prun_length fuel ffuel (PSetPolicy q :: ops2) _)|]. split; [exact Hok|].
    pose proof (fq_policy_ops_stream pol (ops1 ++ PSetPolicy q :: ops2)) as H. cbv zeta in H. fold r0 in H.
    rewrite fq_prun_app, filter_app, (filter_all _ _ Hok), app_length, (fq_prun_length _ _ (PSetPolicy q :: ops2)) in H.
    exact H.
  Qed.
End FqTop.

Theorem fq_limit_then_generous_policy_resumes inp cap0 rs ss pol q fuel ffuel n1 n2 :
  1 <= cap0 -> forallb item_ok rs = true -> PolOk q ->
  length rs + 2 <= ffuel -> length inp + 2 <= fuel ->
  let r0 := fq_new cap0 (mkSource inp 0 rs ss) pol in
  let outs1 := fq_prun fuel ffuel (repeat PNext n1) r0 in
  let outs2 := fq_prun fuel ffuel (PSetPolicy q :: repeat PNext n2) (fq_pstate fuel ffuel (repeat PNext n1) r0) in
  fq_prun fuel ffuel (repeat PNext n1 ++ [PSetPolicy q] ++ repeat PNext n2) r0 = outs1 ++ outs2 /\
  length outs1 = n1 /\ length outs2 = n2 /\
  Forall (fun o => qnot_limit o = true) outs2 /\
  Forall2 (fq_matches inp) (filter qnot_limit outs1 ++ outs2)
          (firstn (length (filter qnot_limit outs1) + n2)
                  (map Some (fq_spec_all inp) ++ repeat None (length (filter qnot_limit outs1) + n2))).
Proof.
  intros Hcap Hrs Hq Hff Hfuel. cbv zeta.
  pose proof (fq_generous_policy_resumes inp cap0 rs ss fuel ffuel Hcap Hrs Hff Hfuel pol (repeat PNext n1) q (repeat PNext n2)
                Hq (pop_ok_repeat n2)) as H.
  cbv zeta in H. rewrite !pnexts_repeat in H. exact H.
Qed.

(* ------------------------------------------------------------------ *)
(** * set_policy on both sides *)

(** installing [q] on one side and its completion on the other keeps the relation *)
Lemma fa_set_policy_rel r0 r q : fa_polrel r0 r -> fa_polrel (fa_set_policy r0 (pol_complete q)) (fa_set_policy r q).
Proof. intros Hr. apply fa_polrel_set_policy. unfold fa_polrel in Hr. subst r0. reflexivity. Qed.

Lemma fq_set_policy_rel a0 a q : fq_polrel a0 a -> fq_polrel (fq_set_policy a0 (pol_complete q)) (fq_set_policy a q).
Proof. intros Hr. unfold fq_polrel in Hr. subst a0. reflexivity. Qed.
