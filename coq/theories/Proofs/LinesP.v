(** Reusable lemmas about line splitting ([pieces], [lines_of]), line
    numbering ([numbered]), [trim_cr] and the FASTA grouping ([fa_group],
    [fa_spec]) over concatenated texts; the LF/CRLF renderings of a list of
    lines and the proof that they parse alike (C12, FASTA half). *)
From SeqIO Require Import Model.Base Spec.FastaSpec.

(* ------------------------------------------------------------------ *)
(** * Byte-free predicates *)

(** [l] does not contain the byte [b] (boolean check, stated as an equation) *)
Definition lacks (b : byte) (l : list byte) : Prop :=
  forallb (fun c => negb (c =? b)) l = true.
Notation no_lf := (lacks LF).
Notation no_cr := (lacks CR).
Notation no_gt := (lacks GT).

(** [l] does not end in CR *)
Definition no_trailing_cr (l : list byte) : Prop := (last l 0 =? CR) = false.

Lemma lacks_nil b : lacks b [].
Proof. reflexivity. Qed.

Lemma lacks_cons b c l : lacks b (c :: l) <-> c <> b /\ lacks b l.
Proof.
  unfold lacks; cbn [forallb].
  rewrite andb_true_iff, negb_true_iff, Nat.eqb_neq. tauto.
Qed.

Lemma lacks_app b l r : lacks b (l ++ r) <-> lacks b l /\ lacks b r.
Proof. unfold lacks. rewrite forallb_app, andb_true_iff. tauto. Qed.

Lemma lacks_Forall b l : lacks b l <-> Forall (fun c => c <> b) l.
Proof.
  induction l as [|c l IH].
  - split; intros; [constructor | apply lacks_nil].
  - rewrite lacks_cons, IH. split.
    + intros [H1 H2]; constructor; assumption.
    + intros H; inversion H; subst; split; assumption.
Qed.

Lemma lacks_firstn b n l : lacks b l -> lacks b (firstn n l).
Proof.
  intros H. rewrite <- (firstn_skipn n l) in H. apply lacks_app in H. tauto.
Qed.

Lemma lacks_skipn b n l : lacks b l -> lacks b (skipn n l).
Proof.
  intros H. rewrite <- (firstn_skipn n l) in H. apply lacks_app in H. tauto.
Qed.

Lemma lacks_tl b l : lacks b l -> lacks b (tl l).
Proof.
  destruct l as [|c l]; [trivial|]. intros H; apply lacks_cons in H; tauto.
Qed.

Lemma lacks_concat b ls : Forall (lacks b) ls <-> lacks b (concat ls).
Proof.
  induction ls as [|l ls IH]; cbn [concat].
  - split; intros; [apply lacks_nil | constructor].
  - rewrite lacks_app, <- IH. split.
    + intros H; inversion H; subst; split; assumption.
    + intros [H1 H2]; constructor; assumption.
Qed.

(* ------------------------------------------------------------------ *)
(** * trim_cr *)

Lemma trim_cr_cons2 c d r : trim_cr (c :: d :: r) = c :: trim_cr (d :: r).
Proof. reflexivity. Qed.

Lemma trim_cr_no_trailing l : no_trailing_cr l -> trim_cr l = l.
Proof.
  unfold no_trailing_cr.
  induction l as [|c l IH]; intros H; [reflexivity|].
  destruct l as [|d r].
  - cbn [last] in H. cbn [trim_cr]. rewrite H. reflexivity.
  - rewrite trim_cr_cons2. rewrite IH; [reflexivity|]. exact H.
Qed.

Lemma no_cr_no_trailing l : no_cr l -> no_trailing_cr l.
Proof.
  unfold no_trailing_cr.
  induction l as [|c l IH]; intros H; [reflexivity|].
  apply lacks_cons in H. destruct H as [Hc Hl].
  destruct l as [|d r].
  - cbn [last]. apply Nat.eqb_neq; exact Hc.
  - apply IH in Hl. exact Hl.
Qed.

Lemma trim_cr_no_cr l : no_cr l -> trim_cr l = l.
Proof. intros H. apply trim_cr_no_trailing, no_cr_no_trailing, H. Qed.

Lemma trim_cr_snoc_cr l : trim_cr (l ++ [CR]) = l.
Proof.
  induction l as [|c l IH]; [reflexivity|].
  destruct l as [|d r].
  - reflexivity.
  - change ((c :: d :: r) ++ [CR]) with (c :: d :: (r ++ [CR])).
    rewrite trim_cr_cons2. f_equal. exact IH.
Qed.

Lemma trim_cr_cons_nonnil c l : trim_cr (c :: l) = [] -> c = CR /\ l = [].
Proof.
  destruct l as [|d r].
  - cbn [trim_cr]. destruct (c =? CR) eqn:E; [|discriminate].
    apply Nat.eqb_eq in E. tauto.
  - rewrite trim_cr_cons2. discriminate.
Qed.

(* ------------------------------------------------------------------ *)
(** * pieces, lines_of over concatenations *)

(** the text whose lines are [ls], every line terminated by LF *)
Definition unlines (ls : list (list byte)) : list byte :=
  concat (map (fun l => l ++ [LF]) ls).

Lemma unlines_nil : unlines [] = [].
Proof. reflexivity. Qed.

Lemma unlines_cons l ls : unlines (l :: ls) = l ++ LF :: unlines ls.
Proof. unfold unlines; cbn [map concat]. rewrite <- app_assoc. reflexivity. Qed.

Lemma unlines_app a b : unlines (a ++ b) = unlines a ++ unlines b.
Proof. unfold unlines. rewrite map_app, concat_app. reflexivity. Qed.

Lemma unlines_concat lss : unlines (concat lss) = concat (map unlines lss).
Proof.
  induction lss as [|a lss IH]; [reflexivity|].
  cbn [concat map]. rewrite unlines_app, IH. reflexivity.
Qed.

Lemma unlines_length_cons l ls :
  length (unlines (l :: ls)) = length l + 1 + length (unlines ls).
Proof. rewrite unlines_cons, app_length. cbn [length]. lia. Qed.

Lemma pieces_nonnil l : pieces l <> [].
Proof.
  destruct l as [|c r]; cbn [pieces]; [discriminate|].
  destruct (c =? LF); [discriminate|]. destruct (pieces r); discriminate.
Qed.

(** a text without LF is one piece *)
Lemma pieces_no_lf l : no_lf l -> pieces l = [l].
Proof.
  induction l as [|c l IH]; intros H; [reflexivity|].
  apply lacks_cons in H. destruct H as [Hc Hl].
  cbn [pieces]. apply Nat.eqb_neq in Hc. rewrite Hc, (IH Hl). reflexivity.
Qed.

(** [pieces (l ++ LF :: r)] when [l] has no LF *)
Lemma pieces_app_lf l r : no_lf l -> pieces (l ++ LF :: r) = l :: pieces r.
Proof.
  induction l as [|c l IH]; intros H.
  - cbn [app pieces]. rewrite Nat.eqb_refl. reflexivity.
  - apply lacks_cons in H. destruct H as [Hc Hl].
    cbn [app pieces]. apply Nat.eqb_neq in Hc. rewrite Hc, (IH Hl). reflexivity.
Qed.

Lemma pieces_unlines_app ls t : Forall (lacks LF) ls ->
  pieces (unlines ls ++ t) = ls ++ pieces t.
Proof.
  induction 1 as [|l ls Hl Hls IH]; [reflexivity|].
  rewrite unlines_cons, <- app_assoc. cbn [app].
  rewrite pieces_app_lf by exact Hl. rewrite IH. reflexivity.
Qed.

(** the lines of a text in which every line is terminated *)
Lemma lines_of_unlines ls : Forall (lacks LF) ls -> lines_of (unlines ls) = ls.
Proof.
  intros H. unfold lines_of.
  rewrite <- (app_nil_r (unlines ls)), pieces_unlines_app by exact H.
  cbn [pieces]. rewrite last_last, removelast_last. reflexivity.
Qed.

(** the lines of a text whose last line has no terminator *)
Lemma lines_of_unlines_app ls t : Forall (lacks LF) ls -> no_lf t -> t <> [] ->
  lines_of (unlines ls ++ t) = ls ++ [t].
Proof.
  intros H Ht Hne. unfold lines_of.
  rewrite pieces_unlines_app by exact H. rewrite pieces_no_lf by exact Ht.
  rewrite last_last. destruct t; [congruence | reflexivity].
Qed.

Lemma lines_of_nil : lines_of [] = [].
Proof. reflexivity. Qed.

(* ------------------------------------------------------------------ *)
(** * numbered *)

Lemma numbered_app a b ln off :
  numbered (a ++ b) ln off =
  numbered a ln off ++ numbered b (ln + length a) (off + length (unlines a)).
Proof.
  revert ln off. induction a as [|l a IH]; intros ln off.
  - cbn [app numbered length]. rewrite unlines_nil. cbn [length].
    rewrite !Nat.add_0_r. reflexivity.
  - cbn [app numbered]. rewrite IH. cbn [app]. f_equal. f_equal.
    f_equal; [cbn [length]; lia | rewrite unlines_length_cons; lia].
Qed.

(* ------------------------------------------------------------------ *)
(** * fa_spec by lines *)

(** [fa_spec] as a function of the numbered lines *)
Definition fa_body (nls : list (nat * nat * list byte)) : list fa_sitem :=
  match skip_blank nls with
  | [] => []
  | (ln, off, l) :: _ =>
      if is_header l then map SRec (fa_group (skip_blank nls) None)
      else match l with
           | c :: _ => [SInvalidStart ln c]
           | [] => []
           end
  end.

Definition fa_spec_lines (ls : list (list byte)) : list fa_sitem :=
  fa_body (numbered ls 1 0).

Lemma fa_spec_by_lines inp : fa_spec inp = fa_spec_lines (lines_of inp).
Proof. reflexivity. Qed.

Lemma fa_body_blank ln off l r : blank l = true ->
  fa_body ((ln, off, l) :: r) = fa_body r.
Proof. intros H. unfold fa_body. cbn [skip_blank]. rewrite H. reflexivity. Qed.

Lemma fa_body_header ln off l r : blank l = false -> is_header l = true ->
  fa_body ((ln, off, l) :: r) = map SRec (fa_group ((ln, off, l) :: r) None).
Proof.
  intros Hb Hh. unfold fa_body. cbn [skip_blank]. rewrite Hb, Hh. reflexivity.
Qed.

Lemma fa_body_invalid ln off c l r : blank (c :: l) = false -> is_header (c :: l) = false ->
  fa_body ((ln, off, c :: l) :: r) = [SInvalidStart ln c].
Proof.
  intros Hb Hh. unfold fa_body. cbn [skip_blank]. rewrite Hb, Hh. reflexivity.
Qed.

Lemma blank_header h : blank (GT :: h) = false.
Proof.
  unfold blank. destruct (trim_cr (GT :: h)) eqn:E; [|reflexivity].
  apply trim_cr_cons_nonnil in E. destruct E as [E _]. discriminate E.
Qed.

(* ------------------------------------------------------------------ *)
(** * fa_group over appended record texts *)

Definition optl (cur : option fa_item) : list fa_item :=
  match cur with Some c => [c] | None => [] end.

Definition add_lines (c : fa_item) (ls : list (list byte)) : fa_item :=
  mkFaItem (fi_head c) (fi_lines c ++ ls) (fi_line c) (fi_byte c).

(** a line that [fa_group] appends unchanged to the current record *)
Definition seq_line (l : list byte) : Prop := is_header l = false /\ trim_cr l = l.

Lemma seq_line_lacks l : no_cr l -> no_gt l -> seq_line l.
Proof.
  intros Hc Hg. split; [|apply trim_cr_no_cr, Hc].
  destruct l as [|c l]; [reflexivity|]. cbn [is_header].
  apply lacks_cons in Hg. apply Nat.eqb_neq. tauto.
Qed.

Lemma fa_group_seq_lines ls0 : forall rest ln off c, Forall seq_line ls0 ->
  fa_group (numbered (ls0 ++ rest) ln off) (Some c) =
  fa_group (numbered rest (ln + length ls0) (off + length (unlines ls0)))
           (Some (add_lines c ls0)).
Proof.
  induction ls0 as [|l ls0 IH]; intros rest ln off c H.
  - cbn [app length]. rewrite unlines_nil. cbn [length]. rewrite !Nat.add_0_r.
    unfold add_lines. rewrite app_nil_r. destruct c; reflexivity.
  - inversion H as [|? ? [Hh Ht] Hr]; subst.
    cbn [app numbered fa_group]. rewrite Hh, Ht. cbn [option_map].
    rewrite IH by exact Hr. unfold add_lines; cbn [fi_head fi_lines fi_line fi_byte].
    rewrite <- app_assoc. cbn [app].
    rewrite unlines_length_cons. cbn [length].
    f_equal. f_equal; lia.
Qed.

(** a record as (header without '>', sequence lines) and its text *)
Definition rec_lines (r : list byte * list (list byte)) : list (list byte) :=
  (GT :: fst r) :: snd r.
Definition rec_text (r : list byte * list (list byte)) : list byte :=
  unlines (rec_lines r).

(** the items expected for records written back to back, first at line [ln],
    byte [off] *)
Fixpoint layout (rs : list (list byte * list (list byte))) (ln off : nat) : list fa_item :=
  match rs with
  | [] => []
  | r :: t => mkFaItem (fst r) (snd r) ln off
              :: layout t (ln + S (length (snd r))) (off + length (rec_text r))
  end.

Definition head_ok (h : list byte) : Prop := no_lf h /\ no_trailing_cr h.
Definition seqline_ok (l : list byte) : Prop := no_lf l /\ no_cr l /\ no_gt l.
Definition rec_ok (r : list byte * list (list byte)) : Prop :=
  head_ok (fst r) /\ Forall seqline_ok (snd r).

Lemma seqline_ok_seq_line ls : Forall seqline_ok ls -> Forall seq_line ls.
Proof.
  intros H. eapply Forall_impl; [|exact H].
  intros l (_ & Hc & Hg). apply seq_line_lacks; assumption.
Qed.

Lemma fa_group_records rs : forall ln off cur, Forall rec_ok rs ->
  fa_group (numbered (concat (map rec_lines rs)) ln off) cur = optl cur ++ layout rs ln off.
Proof.
  induction rs as [|[h ls] rs IH]; intros ln off cur H.
  - cbn [map concat numbered fa_group layout]. rewrite app_nil_r. reflexivity.
  - inversion H as [|? ? [[Hh1 Hh2] Hls] Hrs]; subst. cbn [fst snd] in *.
    cbn [map concat layout]. unfold rec_lines at 1. cbn [fst snd app numbered fa_group].
    cbn [is_header]. rewrite Nat.eqb_refl. cbn [tl].
    rewrite (trim_cr_no_trailing h Hh2).
    fold (optl cur). f_equal.
    rewrite fa_group_seq_lines by (apply seqline_ok_seq_line, Hls).
    rewrite IH by exact Hrs. cbn [optl app]. unfold add_lines; cbn [fi_head fi_lines fi_line fi_byte app].
    f_equal. f_equal.
    + lia.
    + unfold rec_text, rec_lines. cbn [fst snd]. rewrite unlines_length_cons.
      cbn [length]. lia.
Qed.

Lemma rec_lines_no_lf r : rec_ok r -> Forall (lacks LF) (rec_lines r).
Proof.
  intros [[Hh _] Hls]. unfold rec_lines. constructor.
  - apply lacks_cons. split; [discriminate | exact Hh].
  - eapply Forall_impl; [|exact Hls]. intros l (H & _). exact H.
Qed.

(** records written back to back parse to exactly those records *)
Theorem fa_spec_records rs : Forall rec_ok rs ->
  fa_spec (concat (map rec_text rs)) = map SRec (layout rs 1 0).
Proof.
  intros H. rewrite fa_spec_by_lines.
  assert (E : concat (map rec_text rs) = unlines (concat (map rec_lines rs))).
  { rewrite unlines_concat, map_map. reflexivity. }
  rewrite E, lines_of_unlines.
  2:{ apply Forall_concat. apply Forall_map. eapply Forall_impl; [|exact H].
      intros r Hr. apply rec_lines_no_lf, Hr. }
  destruct rs as [|[h ls] rs]; [reflexivity|].
  unfold fa_spec_lines.
  assert (E2 : numbered (concat (map rec_lines ((h, ls) :: rs))) 1 0 =
               (1, 0, GT :: h) :: numbered (ls ++ concat (map rec_lines rs)) 2 (0 + length (GT :: h) + 1)).
  { reflexivity. }
  rewrite E2. rewrite fa_body_header; [|apply blank_header|cbn [is_header]; apply Nat.eqb_refl].
  rewrite <- E2. rewrite fa_group_records by exact H. reflexivity.
Qed.

(** one record *)
Corollary fa_spec_record h ls : head_ok h -> Forall seqline_ok ls ->
  fa_spec (rec_text (h, ls)) = [SRec (mkFaItem h ls 1 0)].
Proof.
  intros Hh Hls.
  pose proof (fa_spec_records [(h, ls)]) as H. cbn [map concat layout fst snd] in H.
  rewrite app_nil_r in H. apply H. constructor; [split; assumption | constructor].
Qed.

(* ------------------------------------------------------------------ *)
(** * Files whose lines differ only by a trailing CR parse alike *)

(** an item without its byte offset *)
Inductive fa_pitem :=
| PRec (head : list byte) (lines : list (list byte)) (line : nat)
| PInvalidStart (line : nat) (found : byte).

Definition drop_item (x : fa_item) : fa_pitem := PRec (fi_head x) (fi_lines x) (fi_line x).
Definition drop_byte (i : fa_sitem) : fa_pitem :=
  match i with
  | SRec x => drop_item x
  | SInvalidStart ln c => PInvalidStart ln c
  end.

Definition line_eqv (l l' : list byte) : Prop :=
  trim_cr l = trim_cr l' /\ trim_cr (tl l) = trim_cr (tl l') /\
  is_header l = is_header l' /\ (blank l = false -> hd 0 l = hd 0 l').

Lemma line_eqv_refl l : line_eqv l l.
Proof. repeat split. Qed.

Lemma line_eqv_blank l l' : line_eqv l l' -> blank l = blank l'.
Proof. intros (H & _). unfold blank. rewrite H. reflexivity. Qed.

Lemma fa_group_eqv ls ls' : Forall2 line_eqv ls ls' ->
  forall ln off off' cur cur', option_map drop_item cur = option_map drop_item cur' ->
  map drop_item (fa_group (numbered ls ln off) cur) =
  map drop_item (fa_group (numbered ls' ln off') cur').
Proof.
  induction 1 as [|l l' ls ls' Hl Hls IH]; intros ln off off' cur cur' Hc.
  - cbn [numbered fa_group]. destruct cur, cur'; cbn in Hc |- *; congruence.
  - destruct Hl as (Ht & Htl & Hh & _).
    cbn [numbered fa_group]. rewrite <- Hh. destruct (is_header l).
    + rewrite !map_app. f_equal.
      * destruct cur, cur'; cbn in Hc |- *; congruence.
      * apply IH. cbn [option_map]. unfold drop_item; cbn [fi_head fi_lines fi_line].
        rewrite Htl. reflexivity.
    + apply IH. rewrite <- Ht.
      destruct cur as [c|], cur' as [c'|]; cbn [option_map] in Hc |- *; try congruence.
      unfold drop_item in *; cbn [fi_head fi_lines fi_line].
      injection Hc as H1 H2 H3. rewrite H1, H2, H3. reflexivity.
Qed.

Lemma fa_body_eqv ls ls' : Forall2 line_eqv ls ls' -> forall ln off off',
  map drop_byte (fa_body (numbered ls ln off)) =
  map drop_byte (fa_body (numbered ls' ln off')).
Proof.
  induction 1 as [|l l' ls ls' Hl Hls IH]; intros ln off off'; [reflexivity|].
  pose proof (line_eqv_blank _ _ Hl) as Hb.
  cbn [numbered]. destruct (blank l) eqn:Bl; symmetry in Hb.
  - rewrite !fa_body_blank by assumption. apply IH.
  - pose proof Hl as (Ht & Htl & Hh & Hhd). specialize (Hhd Bl).
    destruct (is_header l) eqn:Il; symmetry in Hh.
    + rewrite !fa_body_header by assumption. rewrite !map_map.
      change (fun x => drop_byte (SRec x)) with drop_item.
      apply (fa_group_eqv (l :: ls) (l' :: ls')); [constructor; assumption | reflexivity].
    + destruct l as [|c r]; [discriminate Bl|].
      destruct l' as [|c' r']; [discriminate Hb|].
      cbn [hd] in Hhd. subst c'.
      rewrite !fa_body_invalid by assumption. reflexivity.
Qed.

Theorem fa_spec_lines_eqv ls ls' : Forall2 line_eqv ls ls' ->
  map drop_byte (fa_spec_lines ls) = map drop_byte (fa_spec_lines ls').
Proof. intros H. apply fa_body_eqv, H. Qed.

(* ------------------------------------------------------------------ *)
(** * No CR in the parsed fields *)

(** a line whose contributions to the items (as header, as sequence line) are CR-free *)
Definition crfree_line (l : list byte) : Prop :=
  no_cr (trim_cr l) /\ no_cr (trim_cr (tl l)).

Definition clean_rec (x : fa_item) : Prop :=
  no_cr (fi_head x) /\ Forall (lacks CR) (fi_lines x).
Definition clean_item (i : fa_sitem) : Prop :=
  match i with SRec x => clean_rec x | SInvalidStart _ _ => True end.

Lemma fa_group_clean ls : Forall crfree_line ls -> forall ln off cur,
  Forall clean_rec (optl cur) -> Forall clean_rec (fa_group (numbered ls ln off) cur).
Proof.
  induction 1 as [|l ls [H1 H2] Hls IH]; intros ln off cur Hc.
  - cbn [numbered fa_group]. exact Hc.
  - cbn [numbered fa_group]. destruct (is_header l).
    + apply Forall_app. split; [exact Hc|].
      apply IH. cbn [optl]. constructor; [|constructor].
      split; cbn [fi_head fi_lines]; [exact H2 | constructor].
    + apply IH. destruct cur as [c|]; cbn [option_map optl] in Hc |- *; [|constructor].
      inversion Hc as [|? ? [Hc1 Hc2] _]; subst.
      constructor; [|constructor]. split; cbn [fi_head fi_lines]; [exact Hc1|].
      apply Forall_app. split; [exact Hc2 | constructor; [exact H1 | constructor]].
Qed.

Lemma fa_body_clean ls : Forall crfree_line ls -> forall ln off,
  Forall clean_item (fa_body (numbered ls ln off)).
Proof.
  induction 1 as [|l ls Hl Hls IH]; intros ln off; [constructor|].
  cbn [numbered]. destruct (blank l) eqn:Bl.
  - rewrite fa_body_blank by assumption. apply IH.
  - destruct (is_header l) eqn:Il.
    + rewrite fa_body_header by assumption. apply Forall_map.
      apply (fa_group_clean (l :: ls)); [constructor; assumption | constructor].
    + destruct l as [|c r]; [discriminate Bl|].
      rewrite fa_body_invalid by assumption. constructor; [exact I | constructor].
Qed.

(* ------------------------------------------------------------------ *)
(** * Rendering a list of lines with LF / CRLF terminators *)

(** the terminator: CRLF when [crlf], else LF *)
Definition term (crlf : bool) : list byte := if crlf then [CR; LF] else [LF].

(** [render ls ch final]: line i is followed by the terminator chosen by the
    i-th element of [ch] (LF when [ch] is too short); the last line gets its
    terminator only when [final]. *)
Fixpoint render (ls : list (list byte)) (ch : list bool) (final : bool) : list byte :=
  match ls with
  | [] => []
  | l :: r =>
      l ++ (match r with
            | [] => if final then term (hd false ch) else []
            | _ :: _ => term (hd false ch)
            end) ++ render r (tl ch) final
  end.

Definition addcr (b : bool) (l : list byte) : list byte := if b then l ++ [CR] else l.

(** the lines as the splitter sees them: with the CR of a CRLF terminator *)
Fixpoint decorate (ls : list (list byte)) (ch : list bool) : list (list byte) :=
  match ls with
  | [] => []
  | l :: r => addcr (hd false ch) l :: decorate r (tl ch)
  end.

Lemma term_addcr b l t : l ++ term b ++ t = addcr b l ++ LF :: t.
Proof. destruct b; cbn [term addcr app]; [rewrite <- app_assoc|]; reflexivity. Qed.

Lemma render_true ls : forall ch, render ls ch true = unlines (decorate ls ch).
Proof.
  induction ls as [|l r IH]; intros ch; [reflexivity|].
  cbn [render decorate]. rewrite unlines_cons, <- IH.
  destruct r; apply term_addcr.
Qed.

Lemma decorate_allLF ls : decorate ls [] = ls.
Proof. induction ls as [|l r IH]; [reflexivity|]. cbn [decorate hd tl addcr]. rewrite IH. reflexivity. Qed.

Lemma render_allLF ls : render ls [] true = unlines ls.
Proof. rewrite render_true, decorate_allLF. reflexivity. Qed.

(** without final terminator: the last line follows the terminated rest *)
Lemma render_snoc_false ls x : forall ch,
  render (ls ++ [x]) ch false = render ls ch true ++ x.
Proof.
  induction ls as [|l r IH]; intros ch.
  - cbn [app render]. rewrite !app_nil_r. reflexivity.
  - change ((l :: r) ++ [x]) with (l :: (r ++ [x])).
    cbn [render]. rewrite IH. rewrite <- !app_assoc. f_equal.
    destruct r; cbn [app]; rewrite <- ?app_assoc; reflexivity.
Qed.

(** an empty last line without terminator is no line at all *)
Lemma render_empty_last ls ch : render (ls ++ [[]]) ch false = render ls ch true.
Proof. rewrite render_snoc_false, app_nil_r. reflexivity. Qed.

Lemma addcr_no_lf b l : no_lf l -> no_lf (addcr b l).
Proof.
  intros H. destruct b; cbn [addcr]; [|exact H].
  apply lacks_app. split; [exact H | reflexivity].
Qed.

Lemma addcr_eqv b l : no_cr l -> line_eqv (addcr b l) l.
Proof.
  intros H. destruct b; cbn [addcr]; [|apply line_eqv_refl].
  pose proof (trim_cr_no_cr l H) as Ht.
  destruct l as [|c r].
  - repeat split. cbn. discriminate.
  - cbn [app]. unfold line_eqv.
    change (c :: r ++ [CR]) with ((c :: r) ++ [CR]). rewrite trim_cr_snoc_cr, Ht.
    cbn [app tl is_header hd]. rewrite trim_cr_snoc_cr.
    rewrite (trim_cr_no_cr r) by (apply lacks_cons in H; tauto).
    repeat split.
Qed.

Lemma decorate_no_lf ls : Forall (lacks LF) ls -> forall ch, Forall (lacks LF) (decorate ls ch).
Proof.
  induction 1 as [|l r Hl Hr IH]; intros ch; cbn [decorate]; constructor.
  - apply addcr_no_lf, Hl.
  - apply IH.
Qed.

Lemma decorate_eqv ls : Forall (lacks CR) ls -> forall ch, Forall2 line_eqv (decorate ls ch) ls.
Proof.
  induction 1 as [|l r Hl Hr IH]; intros ch; cbn [decorate]; constructor.
  - apply addcr_eqv, Hl.
  - apply IH.
Qed.

Lemma line_eqv_crfree l' l : line_eqv l' l -> no_cr l -> crfree_line l'.
Proof.
  intros (H1 & H2 & _) Hl. unfold crfree_line. rewrite H1, H2.
  rewrite (trim_cr_no_cr l Hl), (trim_cr_no_cr (tl l)) by (apply lacks_tl, Hl).
  split; [exact Hl | apply lacks_tl, Hl].
Qed.

Definition line_ok (l : list byte) : Prop := no_lf l /\ no_cr l.

Lemma line_ok_split ls : Forall line_ok ls -> Forall (lacks LF) ls /\ Forall (lacks CR) ls.
Proof.
  intros H; split; (eapply Forall_impl; [|exact H]); intros l [H1 H2]; assumption.
Qed.

(** the lines the splitter finds in a rendering: a list that is line-equivalent
    to some prefix-or-all of [ls] (all of it unless the unterminated last line
    is empty) *)
Lemma lines_of_render ls ch final : Forall line_ok ls ->
  exists ls0, Forall2 line_eqv (lines_of (render ls ch final)) ls0 /\
              Forall (lacks CR) ls0 /\
              (final = true \/ last ls [] <> [] -> ls0 = ls).
Proof.
  intros H. destruct final.
  - exists ls. apply line_ok_split in H. destruct H as [Hlf Hcr].
    rewrite render_true, lines_of_unlines by (apply decorate_no_lf, Hlf).
    split; [apply decorate_eqv, Hcr | split; [exact Hcr | reflexivity]].
  - destruct ls as [|l0 r0] eqn:E.
    { exists []. cbn [render]. rewrite lines_of_nil. repeat split; constructor. }
    rewrite <- E in *. assert (Hne : ls <> []) by (rewrite E; discriminate).
    clear E l0 r0.
    rewrite (app_removelast_last [] Hne) in H |- *.
    set (init := removelast ls) in *. set (x := last ls []) in *.
    apply Forall_app in H. destruct H as [Hi Hx].
    inversion Hx as [|? ? [Hx1 Hx2] _]; subst.
    apply line_ok_split in Hi. destruct Hi as [Hlf Hcr].
    rewrite render_snoc_false, render_true, last_last.
    destruct x as [|c t] eqn:Ex.
    + exists init. rewrite app_nil_r, lines_of_unlines by (apply decorate_no_lf, Hlf).
      split; [apply decorate_eqv, Hcr | split; [exact Hcr|]].
      intros [F|F]; [discriminate F | congruence].
    + rewrite <- Ex in *. exists (init ++ [x]).
      rewrite lines_of_unlines_app; [|apply decorate_no_lf, Hlf|exact Hx1|rewrite Ex; discriminate].
      split; [|split; [|reflexivity]].
      * apply Forall2_app; [apply decorate_eqv, Hcr | constructor; [apply line_eqv_refl | constructor]].
      * apply Forall_app. split; [exact Hcr | constructor; [exact Hx2 | constructor]].
Qed.

(** C12, FASTA: any mixture of LF and CRLF, with or without the final
    terminator, parses like the all-LF rendering, up to byte offsets *)
Theorem render_parse_alike ls ch final : Forall line_ok ls ->
  (final = true \/ last ls [] <> []) ->
  map drop_byte (fa_spec (render ls ch final)) = map drop_byte (fa_spec (render ls [] true)).
Proof.
  intros H Hf.
  destruct (lines_of_render ls ch final H) as (ls0 & Heq & _ & Hls0).
  rewrite (Hls0 Hf) in Heq.
  rewrite !fa_spec_by_lines.
  rewrite render_allLF, (lines_of_unlines ls) by (apply line_ok_split, H).
  apply fa_spec_lines_eqv, Heq.
Qed.

(** the corner left out above: an empty, unterminated last line does not exist
    in the text, so the file parses like the file without that line *)
Theorem render_parse_empty_last ls ch :
  fa_spec (render (ls ++ [[]]) ch false) = fa_spec (render ls ch true).
Proof. rewrite render_empty_last. reflexivity. Qed.

(** ... and the unrestricted statement is false *)
Theorem render_parse_alike_unrestricted_refuted :
  exists ls ch final, Forall line_ok ls /\
    map drop_byte (fa_spec (render ls ch final)) <> map drop_byte (fa_spec (render ls [] true)).
Proof.
  exists [[62; 97]; []], [], false. split.
  - repeat constructor.
  - vm_compute. discriminate.
Qed.

(** C12, FASTA: no CR in any returned header or sequence line, for every
    rendering (no restriction on the last line) *)
Theorem render_no_cr ls ch final : Forall line_ok ls ->
  Forall clean_item (fa_spec (render ls ch final)).
Proof.
  intros H.
  destruct (lines_of_render ls ch final H) as (ls0 & Heq & Hcr & _).
  rewrite fa_spec_by_lines. apply fa_body_clean.
  revert Hcr. induction Heq as [|l' l t' t Hl Ht IH]; intros Hcr; constructor.
  - inversion Hcr; subst. eapply line_eqv_crfree; eassumption.
  - inversion Hcr; subst. apply IH; assumption.
Qed.
