(** Composition of the reader models with the parallel protocol model.

    [Model/Par.v] abstracts the reader thread's [fill_data] closure to a script
    [(k, ScriptEnd | ScriptErr)]: k successful fills, then [None] or an error.
    Here the script is INSTANTIATED with what the FASTQ reader of
    [Model/Fastq.v] really does on an input ([fq_fill_seq]: [read_record_set]
    again and again until it does not return [Some(Ok)]), and the theorems of
    Proofs/ParContent.v / ParErr.v (all schedules) are combined with the
    refinement of the reader (Proofs/FastqSetP.v: [gset_step]) into statements
    about the RECORDS the consumer of [parallel_fastq] receives. *)
From SeqIO Require Import Model.Base Model.Fastq Model.Views Spec.FastaSpec Spec.FastqSpec Spec.CursorQ
  Proofs.Window Proofs.FastaInv Proofs.FqSpecP Proofs.ViewsP Proofs.FastqInv Proofs.FastqNextP
  Proofs.FastqSetP Proofs.FastqSeekP Proofs.CursorP Proofs.CursorBridgeP Proofs.FastqHistP Proofs.FastqHistEx.
From SeqIO Require Import Model.Fasta Spec.Cursor Proofs.FastaStream Proofs.FastaNextP Proofs.FastaTopP
  Proofs.FastaPosP Proofs.FastaInitP Proofs.FastaSetP Proofs.FastaSeekP Proofs.FastaHistP.
From SeqIO Require Import Model.Par Proofs.ParP Proofs.ParEx Proofs.ParInv Proofs.ParContent Proofs.ParZip
  Proofs.ParLive Proofs.ParErr.
Require Import Permutation.

(* ------------------------------------------------------------------ *)
(** * Lists *)

Lemma map_nth_seq {A} (l : list A) d : map (fun c => nth c l d) (seq 0 (length l)) = l.
Proof.
  induction l as [|x l IH]; [reflexivity|].
  cbn [length seq map nth]. f_equal. rewrite <- seq_shift, map_map. exact IH.
Qed.

Lemma Permutation_concat {A} (l l' : list (list A)) : Permutation l l' -> Permutation (concat l) (concat l').
Proof.
  induction 1 as [|x l l' _ IH|x y l|l l' l'' _ IH1 _ IH2]; cbn [concat].
  - constructor.
  - apply Permutation_app_head. exact IH.
  - rewrite !app_assoc. apply Permutation_app_tail. apply Permutation_app_comm.
  - eapply Permutation_trans; eassumption.
Qed.

Lemma Permutation_concat_map {A B} (f : A -> list B) l l' :
  Permutation l l' -> Permutation (concat (map f l)) (concat (map f l')).
Proof. intros H. apply Permutation_concat, Permutation_map, H. Qed.

(** looking the delivered content ids up in the list of batches *)
Definition batches_of {A} (batches : list (list A)) (dl : list (nat * nat)) : list (list A) :=
  map (fun p => nth (fst p) batches []) dl.

Lemma batches_of_all {A} (batches : list (list A)) (w : nat -> nat) :
  batches_of batches (map (fun c => (c, w c)) (seq 0 (length batches))) = batches.
Proof. unfold batches_of. rewrite map_map. cbn [fst]. apply map_nth_seq. Qed.

(* ------------------------------------------------------------------ *)
(** * The stream: leading records, first invalid item *)

(** the record items in front of the first non-record item *)
Definition lead_recs (l : list fq_sitem) : list fq_sitem := firstn (run_len fq_sitem fq_is_rec l) l.
(** the first non-record item, if any *)
Definition first_bad (l : list fq_sitem) : option fq_sitem := nth_error l (run_len fq_sitem fq_is_rec l).

Lemma lead_recs_app recs rest : lead_recs (map QRec recs ++ rest) = map QRec recs ++ lead_recs rest.
Proof.
  unfold lead_recs. rewrite run_len_recs.
  rewrite <- (map_length QRec recs) at 1. rewrite firstn_app_2. reflexivity.
Qed.

Lemma first_bad_app recs rest : first_bad (map QRec recs ++ rest) = first_bad rest.
Proof.
  unfold first_bad. rewrite run_len_recs. rewrite <- (map_length QRec recs) at 1.
  rewrite nth_error_app2 by lia. f_equal. lia.
Qed.

Lemma lead_recs_nil : lead_recs [] = [].
Proof. reflexivity. Qed.
Lemma first_bad_nil : first_bad [] = None.
Proof. reflexivity. Qed.
Lemma lead_recs_err e l a rest : lead_recs (QErr e l a :: rest) = [].
Proof. reflexivity. Qed.
Lemma first_bad_err e l a rest : first_bad (QErr e l a :: rest) = Some (QErr e l a).
Proof. reflexivity. Qed.

Lemma lead_recs_length l : length (lead_recs l) = run_len fq_sitem fq_is_rec l.
Proof.
  unfold lead_recs. induction l as [|i l IH]; [reflexivity|].
  cbn [run_len]. destruct (fq_is_rec i); [cbn [firstn length]; rewrite IH; reflexivity | reflexivity].
Qed.

Lemma lead_recs_all_rec l : Forall (fun it => fq_is_rec it = true) (lead_recs l).
Proof.
  unfold lead_recs. induction l as [|i l IH]; [constructor|].
  cbn [run_len]. destruct (fq_is_rec i) eqn:E; [cbn [firstn]; constructor; assumption | constructor].
Qed.

Lemma first_bad_not_rec l i : first_bad l = Some (QRec i) -> False.
Proof.
  unfold first_bad. induction l as [|x l IH]; [discriminate|].
  cbn [run_len]. destruct x as [j|e ln b]; cbn [fq_is_rec nth_error]; [exact IH | discriminate].
Qed.

Lemma first_bad_none_all l : first_bad l = None -> lead_recs l = l.
Proof.
  unfold first_bad, lead_recs. induction l as [|x l IH]; [reflexivity|].
  cbn [run_len]. destruct x as [j|e ln b]; cbn [fq_is_rec nth_error firstn]; [|discriminate].
  intros H. rewrite (IH H). reflexivity.
Qed.

(* ------------------------------------------------------------------ *)
(** * The reader thread's view of a FASTQ reader *)

Definition owned_t : Type := option (list byte * list byte * list byte).

(** [read_record_set] into a (recycled) set, again and again, until it does not
    return [Some(Ok)]; [m] bounds the number of calls.  Result: the owned
    contents of every filled set, in fill order, and the outcome that ended the
    sequence ([None]: bound [m] reached). *)
Fixpoint fq_fill_seq (m fuel ffuel : nat) (r : fq) (rs : fq_set) : list (list owned_t) * option fq_out :=
  match m with
  | 0 => ([], None)
  | S m' =>
      let '(r', rs', o) := fq_read_set fuel ffuel None r rs in
      match o with
      | QOSetOk => let '(bs, fin) := fq_fill_seq m' fuel ffuel r' rs' in
                   (map fq_to_owned (fq_set_records rs') :: bs, fin)
      | other => ([], Some other)
      end
  end.

(** the same with an ARBITRARY record set passed to every call ([sets i] is the
    set the i-th call of fill_data receives: in [read_parallel_init] a fresh
    one or one that the consumer has sent back) *)
Fixpoint fq_fill_seq_with (sets : nat -> fq_set) (i m fuel ffuel : nat) (r : fq)
  : list (list owned_t) * option fq_out :=
  match m with
  | 0 => ([], None)
  | S m' =>
      let '(r', rs', o) := fq_read_set fuel ffuel None r (sets i) in
      match o with
      | QOSetOk => let '(bs, fin) := fq_fill_seq_with sets (S i) m' fuel ffuel r' in
                   (map fq_to_owned (fq_set_records rs') :: bs, fin)
      | other => ([], Some other)
      end
  end.

(** ** the result of a set read does not depend on the set passed in *)

Lemma set_go_indep fuel ffuel n rs rs' r :
  fst (fst (set_go fuel ffuel n rs r)) = fst (fst (set_go fuel ffuel n rs' r)) /\
  snd (set_go fuel ffuel n rs r) = snd (set_go fuel ffuel n rs' r) /\
  (snd (set_go fuel ffuel n rs r) = QOSetOk ->
   snd (fst (set_go fuel ffuel n rs r)) = snd (fst (set_go fuel ffuel n rs' r))) /\
  qspos (snd (fst (set_go fuel ffuel n rs r))) = qspos (snd (fst (set_go fuel ffuel n rs' r))).
Proof.
  unfold set_go. destruct (fq_set_loop fuel fuel ffuel n true r []) as [[r1 ps] lr].
  destruct lr; cbn [fst snd qspos]; repeat split; intros; try reflexivity; try discriminate.
Qed.

(** [read_record_set(_exact)]: the reader afterwards and the outcome do not depend
    on the record set passed in; after [Some(Ok)] neither does the set (buffer
    and positions are built from scratch), so its records do not. *)
Lemma fq_read_set_indep_of_set fuel ffuel n r rs rs' :
  fst (fst (fq_read_set fuel ffuel n r rs)) = fst (fst (fq_read_set fuel ffuel n r rs')) /\
  snd (fq_read_set fuel ffuel n r rs) = snd (fq_read_set fuel ffuel n r rs') /\
  (snd (fq_read_set fuel ffuel n r rs) = QOSetOk ->
   snd (fst (fq_read_set fuel ffuel n r rs)) = snd (fst (fq_read_set fuel ffuel n r rs'))).
Proof.
  rewrite !read_set_unfold.
  destruct (qst r).
  - destruct (fq_init ffuel r) as [r1 ir]. destruct ir as [[|]|e|].
    + destruct (set_go_indep fuel ffuel n rs rs' (qset_st r1 QPositioned)) as (H1 & H2 & H3 & _). auto.
    + cbn [fst snd]. repeat split; intros; try reflexivity; discriminate.
    + cbn [fst snd]. repeat split; intros; try reflexivity; discriminate.
    + cbn [fst snd]. repeat split; intros; try reflexivity; discriminate.
  - destruct (inc r).
    + destruct (set_go_indep fuel ffuel n rs rs' (qset_st r QPositioned)) as (H1 & H2 & H3 & _). auto.
    + destruct (fq_increment r) as [r1|].
      * destruct (set_go_indep fuel ffuel n rs rs' (qset_st r1 QPositioned)) as (H1 & H2 & H3 & _). auto.
      * cbn [fst snd]. repeat split; intros; try reflexivity; discriminate.
  - destruct (set_go_indep fuel ffuel n rs rs' r) as (H1 & H2 & H3 & _). auto.
  - cbn [fst snd]. repeat split; intros; try reflexivity; discriminate.
Qed.

Corollary fq_read_set_records_indep fuel ffuel n r rs rs' :
  snd (fq_read_set fuel ffuel n r rs) = QOSetOk ->
  fq_set_records (snd (fst (fq_read_set fuel ffuel n r rs))) =
  fq_set_records (snd (fst (fq_read_set fuel ffuel n r rs'))).
Proof.
  intros H. destruct (fq_read_set_indep_of_set fuel ffuel n r rs rs') as (_ & _ & H3). rewrite (H3 H). reflexivity.
Qed.

(** hence threading one set through all calls is without loss of generality *)
Lemma fq_fill_seq_with_eq sets fuel ffuel : forall m i r rs,
  fq_fill_seq_with sets i m fuel ffuel r = fq_fill_seq m fuel ffuel r rs.
Proof.
  induction m as [|m IH]; intros i r rs; [reflexivity|].
  cbn [fq_fill_seq fq_fill_seq_with].
  destruct (fq_read_set_indep_of_set fuel ffuel None r (sets i) rs) as (H1 & H2 & H3).
  destruct (fq_read_set fuel ffuel None r (sets i)) as [[r1 rs1] o1].
  destruct (fq_read_set fuel ffuel None r rs) as [[r2 rs2] o2].
  cbn [fst snd] in H1, H2, H3. subst r2 o2.
  destruct o1; try reflexivity.
  rewrite <- (H3 eq_refl). rewrite (IH (S i) r1 rs1). reflexivity.
Qed.

Corollary fq_fill_seq_indep_of_set m fuel ffuel r rs rs' :
  fq_fill_seq m fuel ffuel r rs = fq_fill_seq m fuel ffuel r rs'.
Proof.
  rewrite <- (fq_fill_seq_with_eq (fun _ => rs) fuel ffuel m 0 r rs).
  apply fq_fill_seq_with_eq.
Qed.

(* ------------------------------------------------------------------ *)
(** * The fills against the specification stream *)

Lemma recs_owned inp rcs recs : Forall2 (rec_at inp) rcs recs ->
  map fq_to_owned rcs = map own_of (map QRec recs).
Proof.
  induction 1 as [|rc i rcs recs Hx _ IH]; cbn [map]; [reflexivity|].
  rewrite (rec_at_owned _ _ _ Hx), IH. reflexivity.
Qed.

(** From any state between calls in which the reader still has to deliver
    [items]: the fills deliver, in order and exactly once, the first [j]
    items, all of them records in front of the first invalid item; every
    filled set is non-empty; then the sequence ends with [None] — and then
    EVERY item was delivered — or with the error of the first invalid item,
    which is the last item of the stream.  Records of the call that meets the
    invalid item are dropped with it ([read_record_set] clears the set before
    it returns the error), hence [j] may be smaller than the number of leading
    records. *)
Lemma fq_fill_seq_gen inp ffuel fuel : 2 * length inp + 4 <= fuel ->
  forall m items r rs, HQ inp ffuel r items -> length items < m ->
  exists j,
    j <= length (lead_recs items) /\
    concat (fst (fq_fill_seq m fuel ffuel r rs)) = map own_of (firstn j items) /\
    Forall (fun b => b <> []) (fst (fq_fill_seq m fuel ffuel r rs)) /\
    match first_bad items with
    | None => snd (fq_fill_seq m fuel ffuel r rs) = Some QONone /\ j = length items
    | Some (QErr e l a) => snd (fq_fill_seq m fuel ffuel r rs) = Some (QOErr (fq_err_of e)) /\
                           items = lead_recs items ++ [QErr e l a]
    | Some (QRec _) => False
    end.
Proof.
  intros Hfuel. induction m as [|m IH]; intros items r rs HQr Hm; [lia|].
  cbn [fq_fill_seq].
  destruct (gset_step inp ffuel fuel None r rs items HQr I Hfuel) as (r1 & rs1 & o & E & HO). rewrite E.
  destruct HO as [recs1 items1 Hit Hne Hrecs HQ1 _ _|recs1 e l a Hit _ _ _ _ _|Hit _ _ _].
  - assert (Hl1 : 1 <= length recs1) by (destruct recs1; [contradiction | cbn [length]; lia]).
    assert (Hm1 : length items1 < m).
    { subst items. rewrite app_length, map_length in Hm. lia. }
    destruct (IH items1 r1 rs1 HQ1 Hm1) as (j & Hj & Hc & Hn & Hb).
    destruct (fq_fill_seq m fuel ffuel r1 rs1) as [bs fin]. cbn [fst snd] in *.
    exists (length recs1 + j). subst items.
    rewrite lead_recs_app, first_bad_app, app_length, map_length.
    split; [lia|]. split.
    { cbn [concat]. rewrite Hc, (recs_owned _ _ _ Hrecs).
      rewrite <- (map_length QRec recs1). rewrite firstn_app_2, map_app. reflexivity. }
    split.
    { constructor; [|exact Hn]. intros E0. apply map_eq_nil in E0.
      apply Forall2_len_eq in Hrecs. rewrite E0 in Hrecs. cbn [length] in Hrecs. lia. }
    destruct (first_bad items1) as [[i|e l a]|]; [exact Hb | |].
    + destruct Hb as [Hf Hi]. split; [exact Hf|]. rewrite <- app_assoc, <- Hi. reflexivity.
    + destruct Hb as [Hf Hi]. split; [exact Hf|]. rewrite app_length, map_length. lia.
  - cbn [fst snd]. exists 0. subst items.
    rewrite lead_recs_app, first_bad_app, first_bad_err, lead_recs_err, app_nil_r.
    split; [lia|]. split; [reflexivity|]. split; [constructor|]. split; reflexivity.
  - cbn [fst snd]. exists 0. subst items. rewrite first_bad_nil.
    split; [cbn [length]; lia|]. split; [reflexivity|]. split; [constructor|]. split; reflexivity.
Qed.

(** a fresh reader still has to deliver the whole stream *)
Lemma HQ_fresh inp cap0 rs ss pol fuel ffuel : std_cfg inp cap0 rs ss pol fuel ffuel ->
  HQ inp ffuel (fq_new cap0 (mkSource inp 0 rs ss) pol) (fq_spec_all inp).
Proof.
  intros (Hc & Hrs & Hss & Hp & Hf & _).
  pose proof (sim_rd _ _ _ _ (Sim_init inp cap0 rs ss pol ffuel Hc Hrs Hss Hp Hf)) as H.
  exact H.
Qed.

(** ** reader side *)
Theorem fq_fill_seq_spec inp cap0 rs ss pol fuel ffuel m :
  std_cfg inp cap0 rs ss pol fuel ffuel -> length (fq_spec_all inp) + 2 <= m ->
  let '(batches, fin) := fq_fill_seq m fuel ffuel (fq_new cap0 (mkSource inp 0 rs ss) pol) fq_set_empty in
  exists j,
    j <= length (lead_recs (fq_spec_all inp)) /\
    concat batches = map own_of (firstn j (fq_spec_all inp)) /\
    Forall (fun b => b <> []) batches /\
    match first_bad (fq_spec_all inp) with
    | None => fin = Some QONone /\ j = length (fq_spec_all inp)
    | Some (QErr e l a) => fin = Some (QOErr (fq_err_of e)) /\
                           fq_spec_all inp = lead_recs (fq_spec_all inp) ++ [QErr e l a]
    | Some (QRec _) => False
    end.
Proof.
  intros Hcfg Hm.
  pose proof (HQ_fresh _ _ _ _ _ _ _ Hcfg) as HQ0.
  destruct Hcfg as (_ & _ & _ & _ & _ & Hfu).
  destruct (fq_fill_seq_gen inp ffuel fuel Hfu m (fq_spec_all inp) _ fq_set_empty HQ0 ltac:(lia)) as (j & H).
  destruct (fq_fill_seq m fuel ffuel _ fq_set_empty) as [batches fin]. cbn [fst snd] in H.
  exists j. exact H.
Qed.

(* ------------------------------------------------------------------ *)
(** * Sequential reading of the same input, for comparison *)

(** [next()] again and again until it does not return a record *)
Fixpoint fq_next_seq (m fuel ffuel : nat) (r : fq) : list owned_t * option fq_out :=
  match m with
  | 0 => ([], None)
  | S m' =>
      let '(r', o) := fq_next fuel ffuel r in
      match o with
      | QORec rc => let '(l, fin) := fq_next_seq m' fuel ffuel r' in (fq_to_owned rc :: l, fin)
      | other => ([], Some other)
      end
  end.

Lemma lead_recs_cons i rest : lead_recs (QRec i :: rest) = QRec i :: lead_recs rest.
Proof. exact (lead_recs_app [i] rest). Qed.
Lemma first_bad_cons i rest : first_bad (QRec i :: rest) = first_bad rest.
Proof. exact (first_bad_app [i] rest). Qed.

Lemma fq_next_seq_gen inp ffuel fuel : length inp + 2 <= fuel ->
  forall m items r, HQ inp ffuel r items -> length items < m ->
  fst (fq_next_seq m fuel ffuel r) = map own_of (lead_recs items) /\
  snd (fq_next_seq m fuel ffuel r) =
    match first_bad items with
    | None => Some QONone
    | Some (QErr e l a) => Some (QOErr (fq_err_of e))
    | Some (QRec i) => None
    end.
Proof.
  intros Hfuel. induction m as [|m IH]; intros items r HQr Hm; [lia|].
  cbn [fq_next_seq].
  destruct (gnext_step inp ffuel fuel r items HQr Hfuel) as (r1 & o & E & HN). rewrite E.
  destruct HN as [i rest Hit Hrec _ HQ1|e l a Hit _ _ _|Hit _ _].
  - subst items. cbn [length] in Hm.
    destruct (IH rest r1 HQ1 ltac:(lia)) as [H1 H2].
    destruct (fq_next_seq m fuel ffuel r1) as [l fin]. cbn [fst snd] in *.
    rewrite lead_recs_cons, first_bad_cons. cbn [map own_of].
    rewrite (rec_at_owned _ _ _ Hrec), H1. split; [reflexivity | exact H2].
  - subst items. cbn [fst snd]. rewrite lead_recs_err, first_bad_err. split; reflexivity.
  - subst items. cbn [fst snd]. split; reflexivity.
Qed.

Theorem fq_next_seq_spec inp cap0 rs ss pol fuel ffuel m :
  std_cfg inp cap0 rs ss pol fuel ffuel -> length (fq_spec_all inp) + 2 <= m ->
  fst (fq_next_seq m fuel ffuel (fq_new cap0 (mkSource inp 0 rs ss) pol)) = map own_of (lead_recs (fq_spec_all inp)) /\
  snd (fq_next_seq m fuel ffuel (fq_new cap0 (mkSource inp 0 rs ss) pol)) =
    match first_bad (fq_spec_all inp) with
    | None => Some QONone
    | Some (QErr e l a) => Some (QOErr (fq_err_of e))
    | Some (QRec i) => None
    end.
Proof.
  intros Hcfg Hm. pose proof (HQ_fresh _ _ _ _ _ _ _ Hcfg) as HQ0.
  destruct Hcfg as (_ & _ & _ & _ & _ & Hfu).
  apply (fq_next_seq_gen inp ffuel fuel ltac:(lia) m (fq_spec_all inp) _ HQ0). lia.
Qed.

Lemma firstn_lead_recs j l : j <= length (lead_recs l) -> firstn j l = firstn j (lead_recs l).
Proof.
  unfold lead_recs. intros H. rewrite firstn_length in H. rewrite firstn_firstn. f_equal. lia.
Qed.

(** The fills of the reader thread against sequential reading of the same
    input with the same reader configuration: the outcome that ends the fills
    (the end, or THE error) is the outcome that ends sequential reading; the
    records of the filled sets are a prefix of the sequentially read records,
    and all of them when the input has no invalid record. *)
Theorem fq_fill_seq_vs_sequential inp cap0 rs ss pol fuel ffuel m :
  std_cfg inp cap0 rs ss pol fuel ffuel -> length (fq_spec_all inp) + 2 <= m ->
  let r0 := fq_new cap0 (mkSource inp 0 rs ss) pol in
  snd (fq_fill_seq m fuel ffuel r0 fq_set_empty) = snd (fq_next_seq m fuel ffuel r0) /\
  (exists j, concat (fst (fq_fill_seq m fuel ffuel r0 fq_set_empty)) = firstn j (fst (fq_next_seq m fuel ffuel r0))) /\
  (snd (fq_next_seq m fuel ffuel r0) = Some QONone ->
   concat (fst (fq_fill_seq m fuel ffuel r0 fq_set_empty)) = fst (fq_next_seq m fuel ffuel r0)).
Proof.
  intros Hcfg Hm. cbv zeta.
  destruct (fq_next_seq_spec _ _ _ _ _ _ _ _ Hcfg Hm) as [N1 N2].
  pose proof (fq_fill_seq_spec _ _ _ _ _ _ _ _ Hcfg Hm) as HF.
  destruct (fq_fill_seq m fuel ffuel _ fq_set_empty) as [batches fin]. cbn [fst snd].
  destruct HF as (j & Hj & Hc & _ & Hb).
  rewrite N1, N2, Hc. rewrite (firstn_lead_recs _ _ Hj), <- firstn_map.
  destruct (first_bad (fq_spec_all inp)) as [[i|e l a]|] eqn:Eb; [contradiction | |].
  - destruct Hb as [Hf _]. split; [exact Hf|]. split; [exists j; reflexivity|]. intros E; discriminate E.
  - destruct Hb as [Hf Hjl]. split; [exact Hf|]. split; [exists j; reflexivity|]. intros _.
    apply firstn_all2. rewrite map_length. subst j. rewrite (first_bad_none_all _ Eb). lia.
Qed.

(* ------------------------------------------------------------------ *)
(** * Composition with the protocol *)

(** the fill script the reader thread really plays *)
Definition script_of {A} (batches : list A) (fin : option fq_out) : nat * fill_end :=
  (length batches, match fin with Some QONone => ScriptEnd | _ => ScriptErr end).

(** the draining consumer, any script: all sets, once each; in order with one
    worker; the error iff the script ends with one *)
Lemma drain_all cfg s : wf_config cfg -> reachable cfg s -> final s = true ->
  consumer cfg = Drain -> rinit_ok cfg = true -> mfail s = false ->
  Permutation (delivered s) (map (fun c => (c, work cfg c)) (seq 0 (nfills cfg))) /\
  (nworkers cfg = 1 -> delivered s = map (fun c => (c, work cfg c)) (seq 0 (nfills cfg))) /\
  nerr_seen s = match fend cfg with ScriptEnd => 0 | ScriptErr => 1 end.
Proof.
  intros Hwf Hr Hfin Hc Hri Hmf.
  assert (Hp : patient cfg) by (left; exact Hc).
  destruct (delivered_exactly_once cfg s Hwf Hr Hfin Hp Hri Hmf) as (HP & _ & _).
  split; [exact HP|]. split.
  - intros Hn. exact (single_worker_order cfg s Hwf Hr Hfin Hp Hri Hmf Hn).
  - destruct (fend cfg) eqn:Ef.
    + destruct (error_enqueued_at_most_once cfg s Hwf Hr) as (Hle & Hone & Hsum).
      destruct (Nat.eq_dec (nerr s) 1) as [E1|E1].
      * destruct (Hone E1) as [Hx _]. congruence.
      * lia.
    + assert (Hew : err_waiting cfg) by (left; exact Hc).
      destruct (error_seen_once cfg s Hwf Hr Hfin Hew Ef Hri Hmf) as (H1 & _). exact H1.
Qed.

Theorem parallel_fastq_end_to_end inp cap0 rs ss pol fuel ffuel m n q w s :
  std_cfg inp cap0 rs ss pol fuel ffuel -> length (fq_spec_all inp) + 2 <= m -> 1 <= n -> 1 <= q ->
  let '(batches, fin) := fq_fill_seq m fuel ffuel (fq_new cap0 (mkSource inp 0 rs ss) pol) fq_set_empty in
  let cfg := mkConfig n q true None (script_of batches fin) Drain w in
  reachable cfg s -> final s = true -> mfail s = false ->
  exists j,
    j <= length (lead_recs (fq_spec_all inp)) /\
    Permutation (delivered s) (map (fun c => (c, w c)) (seq 0 (length batches))) /\
    Permutation (concat (map (fun p => nth (fst p) batches []) (delivered s)))
                (map own_of (firstn j (fq_spec_all inp))) /\
    (n = 1 -> concat (map (fun p => nth (fst p) batches []) (delivered s)) = map own_of (firstn j (fq_spec_all inp))) /\
    match first_bad (fq_spec_all inp) with
    | None => j = length (fq_spec_all inp) /\ fin = Some QONone /\ nerr_seen s = 0
    | Some (QErr e l a) => fin = Some (QOErr (fq_err_of e)) /\ nerr_seen s = 1 /\
                           fq_spec_all inp = lead_recs (fq_spec_all inp) ++ [QErr e l a]
    | Some (QRec _) => False
    end.
Proof.
  intros Hcfg Hm Hn Hq.
  pose proof (fq_fill_seq_spec _ _ _ _ _ _ _ _ Hcfg Hm) as HF.
  destruct (fq_fill_seq m fuel ffuel _ fq_set_empty) as [batches fin].
  cbv zeta. intros Hr Hfin Hmf.
  destruct HF as (j & Hj & Hc & _ & Hb).
  set (cfg := mkConfig n q true None (script_of batches fin) Drain w) in *.
  assert (Hwf : wf_config cfg) by (split; assumption).
  destruct (drain_all cfg s Hwf Hr Hfin eq_refl eq_refl Hmf) as (HP & Hord & Herr).
  change (nfills cfg) with (length batches) in HP, Hord. change (work cfg) with w in HP, Hord.
  change (nworkers cfg) with n in Hord.
  change (fend cfg) with (match fin with Some QONone => ScriptEnd | _ => ScriptErr end) in Herr.
  exists j. split; [exact Hj|]. split; [exact HP|].
  split.
  { pose proof (Permutation_concat _ _ (Permutation_map (fun p : nat * nat => nth (fst p) batches []) HP)) as HPc.
    fold (batches_of batches (map (fun c => (c, w c)) (seq 0 (length batches)))) in HPc.
    rewrite batches_of_all in HPc. rewrite <- Hc. exact HPc. }
  split.
  { intros H1. rewrite (Hord H1). rewrite <- Hc. f_equal. exact (batches_of_all batches w). }
  destruct (first_bad (fq_spec_all inp)) as [[i|e l a]|]; [exact Hb | |].
  - destruct Hb as [Hf Hs]. subst fin. split; [reflexivity|]. split; [exact Herr | exact Hs].
  - destruct Hb as [Hf Hs]. subst fin. split; [exact Hs|]. split; [reflexivity | exact Herr].
Qed.

Print Assumptions fq_read_set_indep_of_set.
Print Assumptions fq_fill_seq_spec.
Print Assumptions fq_fill_seq_vs_sequential.
Print Assumptions parallel_fastq_end_to_end.

(* ================================================================== *)
(** * FASTA *)

Definition fa_owned_t : Type := option (list byte * list byte).

(** the reader thread's view of a FASTA reader ([parallel_fasta]) *)
Fixpoint fa_fill_seq (m fuel ffuel : nat) (r : fa) (rs : fa_set) : list (list fa_owned_t) * option fa_out :=
  match m with
  | 0 => ([], None)
  | S m' =>
      let '(r', rs', o) := fa_read_set fuel ffuel None r rs in
      match o with
      | OSetOk => let '(bs, fin) := fa_fill_seq m' fuel ffuel r' rs' in
                  (map fa_to_owned (fa_set_records rs') :: bs, fin)
      | other => ([], Some other)
      end
  end.

Fixpoint fa_fill_seq_with (sets : nat -> fa_set) (i m fuel ffuel : nat) (r : fa)
  : list (list fa_owned_t) * option fa_out :=
  match m with
  | 0 => ([], None)
  | S m' =>
      let '(r', rs', o) := fa_read_set fuel ffuel None r (sets i) in
      match o with
      | OSetOk => let '(bs, fin) := fa_fill_seq_with sets (S i) m' fuel ffuel r' in
                  (map fa_to_owned (fa_set_records rs') :: bs, fin)
      | other => ([], Some other)
      end
  end.

(** ** independence of the set passed in.  The FASTA record set keeps stale
    entries behind [snpos]; two sets are equivalent when they show the same
    positions *)
Definition SetEqv (a b : fa_set) : Prop :=
  snpos a = snpos b /\ snpos a <= length (spositions a) /\ snpos b <= length (spositions b) /\
  firstn (snpos a) (spositions a) = firstn (snpos b) (spositions b).

Definition ResEqv (x y : fa * fa_set * lres) : Prop :=
  fst (fst x) = fst (fst y) /\ snd x = snd y /\ SetEqv (snd (fst x)) (snd (fst y)).

Lemma SetEqv_put a b r : SetEqv a b -> SetEqv (fa_set_put a r) (fa_set_put b r).
Proof.
  intros (E & La & Lb & F).
  destruct (set_put_spec a r La) as (A1 & A2 & A3 & _).
  destruct (set_put_spec b r Lb) as (B1 & B2 & B3 & _).
  unfold SetEqv. rewrite A3, B3, F. split; [lia|]. split; [exact A2|]. split; [exact B2 | reflexivity].
Qed.

Lemma ResEqv_same r a b lr : SetEqv a b -> ResEqv (r, a, lr) (r, b, lr).
Proof. intros H. split; [reflexivity|]. split; [reflexivity | exact H]. Qed.

Lemma set_found_eqv cont cont' n r a b :
  (forall r a b, SetEqv a b -> ResEqv (cont r a) (cont' r b)) -> SetEqv a b ->
  ResEqv (set_found cont n r a) (set_found cont' n r b).
Proof.
  intros Hc H. unfold set_found.
  pose proof (SetEqv_put a b r H) as Hp.
  destruct (fa_increment r) as [r1|]; [|apply ResEqv_same; exact Hp].
  destruct Hp as (E & Hrest). rewrite <- E.
  destruct (reached n (snpos (fa_set_put a r))).
  - apply ResEqv_same. split; assumption.
  - apply Hc. split; assumption.
Qed.

Lemma fa_set_loop_eqv rfuel ffuel n : forall f is_new r a b, SetEqv a b ->
  ResEqv (fa_set_loop f rfuel ffuel n is_new r a) (fa_set_loop f rfuel ffuel n is_new r b).
Proof.
  induction f as [|f IH]; intros is_new r a b H.
  - cbn [fa_set_loop]. apply ResEqv_same. exact H.
  - rewrite !fa_set_loop_S.
    destruct (fa_state_eqb (st r) FFinished); [apply ResEqv_same; exact H|].
    destruct (fa_state_eqb (st r) FIncomplete).
    + destruct (fa_resume rfuel ffuel is_new r) as [r1 rr].
      destruct rr as [[|]|e|s|]; try (apply ResEqv_same; exact H).
      apply set_found_eqv; [|exact H]. intros r' a' b' H'. apply IH. exact H'.
    + destruct (fa_search r) as [r1 sr].
      destruct sr as [[|]|s]; try (apply ResEqv_same; exact H).
      * apply set_found_eqv; [|exact H]. intros r' a' b' H'. apply IH. exact H'.
      * pose proof H as (E & _). rewrite <- E.
        destruct (snpos a =? 0); [apply IH; exact H|].
        destruct (below n (snpos a)); [apply IH; exact H | apply ResEqv_same; exact H].
Qed.

Lemma fa_set_finish_eqv x y : ResEqv x y ->
  fst (fst (fa_set_finish x)) = fst (fst (fa_set_finish y)) /\
  snd (fa_set_finish x) = snd (fa_set_finish y) /\
  (snd (fa_set_finish x) = OSetOk ->
   fa_set_records (snd (fst (fa_set_finish x))) = fa_set_records (snd (fst (fa_set_finish y)))).
Proof.
  destruct x as [[r a] lr], y as [[r' b] lr']. intros (E1 & E2 & (E & _ & _ & F)). cbn [fst snd] in *. subst r' lr'.
  unfold fa_set_finish. destruct lr; cbn [fst snd]; repeat split; intros; try reflexivity; try discriminate.
  unfold fa_set_records. cbn [sbuf snpos spositions]. rewrite F. reflexivity.
Qed.

(** [read_record_set(_exact)] (FASTA): the reader afterwards and the outcome
    do not depend on the record set passed in; after [Some(Ok)] neither do the
    records the set shows (its stale entries behind [npos] may differ) *)
Lemma fa_read_set_indep_of_set fuel ffuel n r rs rs' :
  fst (fst (fa_read_set fuel ffuel n r rs)) = fst (fst (fa_read_set fuel ffuel n r rs')) /\
  snd (fa_read_set fuel ffuel n r rs) = snd (fa_read_set fuel ffuel n r rs') /\
  (snd (fa_read_set fuel ffuel n r rs) = OSetOk ->
   fa_set_records (snd (fst (fa_read_set fuel ffuel n r rs))) =
   fa_set_records (snd (fst (fa_read_set fuel ffuel n r rs')))).
Proof.
  assert (Hgo : forall r1,
    let X := fa_set_finish (fa_set_loop fuel fuel ffuel n true r1 (mkFaSet (sbuf rs) (spositions rs) 0)) in
    let Y := fa_set_finish (fa_set_loop fuel fuel ffuel n true r1 (mkFaSet (sbuf rs') (spositions rs') 0)) in
    fst (fst X) = fst (fst Y) /\ snd X = snd Y /\
    (snd X = OSetOk -> fa_set_records (snd (fst X)) = fa_set_records (snd (fst Y)))).
  { intros r1. cbv zeta. apply fa_set_finish_eqv. apply fa_set_loop_eqv.
    unfold SetEqv. cbn [snpos spositions firstn]. repeat split; lia. }
  unfold fa_read_set.
  destruct (st r).
  - destruct (fa_init fuel ffuel r) as [r1 ir].
    destruct ir as [[|]|e|]; try (cbn [fst snd]; repeat split; intros; try reflexivity; discriminate).
    apply Hgo.
  - destruct (fa_increment r) as [r1|]; [apply Hgo|].
    cbn [fst snd]. repeat split; intros; try reflexivity; discriminate.
  - apply Hgo.
  - apply Hgo.
  - cbn [fst snd]. repeat split; intros; try reflexivity; discriminate.
Qed.

Lemma fa_fill_seq_with_eq sets fuel ffuel : forall m i r rs,
  fa_fill_seq_with sets i m fuel ffuel r = fa_fill_seq m fuel ffuel r rs.
Proof.
  induction m as [|m IH]; intros i r rs; [reflexivity|].
  cbn [fa_fill_seq fa_fill_seq_with].
  destruct (fa_read_set_indep_of_set fuel ffuel None r (sets i) rs) as (H1 & H2 & H3).
  destruct (fa_read_set fuel ffuel None r (sets i)) as [[r1 rs1] o1].
  destruct (fa_read_set fuel ffuel None r rs) as [[r2 rs2] o2].
  cbn [fst snd] in H1, H2, H3. subst r2 o2.
  destruct o1; try reflexivity.
  rewrite (H3 eq_refl). rewrite (IH (S i) r1 rs2). reflexivity.
Qed.

Corollary fa_fill_seq_indep_of_set m fuel ffuel r rs rs' :
  fa_fill_seq m fuel ffuel r rs = fa_fill_seq m fuel ffuel r rs'.
Proof.
  rewrite <- (fa_fill_seq_with_eq (fun _ => rs) fuel ffuel m 0 r rs).
  apply fa_fill_seq_with_eq.
Qed.

(** ** the fills against the stream of an input that starts with a header *)
Lemma fa_fill_seq_live inp fuel ffuel cap0 rs sks pol pos0 ln0 its :
  3 <= cap0 -> forallb item_ok rs = true -> PolOk pol -> length rs + 2 <= ffuel -> length inp + 2 <= fuel ->
  fa_ostart_of inp = OsRecs pos0 ln0 -> FaStream inp pos0 ln0 its ->
  forall m r rs0 k, Live inp ffuel cap0 rs sks pol its r k -> length its - k < m ->
  concat (fst (fa_fill_seq m fuel ffuel r rs0)) = map (spec_owned inp) (skipn k its) /\
  Forall (fun b => b <> []) (fst (fa_fill_seq m fuel ffuel r rs0)) /\
  snd (fa_fill_seq m fuel ffuel r rs0) = Some ONone.
Proof.
  intros Hcap Hrs Hpol Hff Hfuel Hstart Hstream.
  assert (Hwf : ItemsWf inp its).
  { pose proof (fa_stream_wf inp pos0 ln0 its Hstart Hstream) as Hwf.
    unfold ItemsWf. eapply Forall_impl; [|exact Hwf]. intros [[s l] e] Hx. exact Hx. }
  assert (Hcnt : count_ok None) by (intros nn E; discriminate E).
  induction m as [|m IH]; intros r rs0 k HL Hm; [lia|].
  cbn [fa_fill_seq].
  destruct (live_set inp fuel ffuel cap0 rs sks pol pos0 ln0 its Hcap Hrs Hpol Hff Hfuel Hstart Hstream
              None rs0 r k Hcnt HL)
    as [[Hk (r' & rs' & mm & E & H1 & Hle & _ & Hrecs & HL' & _)] | [Hk E]]; rewrite E.
  - destruct (IH r' rs' (k + mm) HL' ltac:(lia)) as (Hc & Hn & Hf).
    destruct (fa_fill_seq m fuel ffuel r' rs') as [bs fin]. cbn [fst snd] in *.
    assert (Ho : map fa_to_owned (fa_set_records rs') = map (spec_owned inp) (firstn mm (skipn k its))).
    { apply recs_ok_owned; [exact Hrecs | apply ItemsWf_firstn_skipn; exact Hwf]. }
    split.
    { cbn [concat]. rewrite Hc, Ho, <- map_app. f_equal.
      rewrite <- (Window.skipn_skipn its mm k). apply firstn_skipn. }
    split; [|exact Hf].
    constructor; [|exact Hn]. rewrite Ho. intros E0. apply map_eq_nil in E0.
    apply (f_equal (@length _)) in E0. rewrite firstn_length, skipn_length in E0. cbn [length] in E0. lia.
  - cbn [fst snd concat]. subst k. rewrite skipn_all. split; [reflexivity|]. split; [constructor | reflexivity].
Qed.

(** the records of the line-based specification, as owned copies *)
Lemma spec_owned_lines inp : forall items sps,
  Forall2 (fun (it : nat * nat * list nat) sp => let '(s, line, ends) := it in
             exists h ls, fa_head (mkFaRec inp s ends) = Some h /\
                          fa_lines (mkFaRec inp s ends) = Some ls /\
                          sp = SRec (mkFaItem h ls line s)) items sps ->
  map (spec_owned inp) items =
    map item_owned (flat_map (fun i => match i with SRec x => [x] | _ => [] end) sps) /\
  length items = length sps /\
  (forall l b, sps <> [SInvalidStart l b]).
Proof.
  induction 1 as [|[[s line] ends] sp items sps Hx _ IH].
  - split; [reflexivity|]. split; [reflexivity|]. intros l b E; discriminate E.
  - destruct Hx as (h & ls & Hh & Hl & ->). destruct IH as (IH1 & IH2 & _).
    split; [|split; [cbn [length]; rewrite IH2; reflexivity | intros l b E; discriminate E]].
    cbn [map flat_map app]. rewrite IH1. f_equal.
    unfold spec_owned, fa_to_owned, fa_owned_seq, i_s, i_ends, item_owned. cbn [fst snd fi_head fi_lines].
    rewrite Hh, Hl. reflexivity.
Qed.

(** ** reader side, FASTA: on an input whose first non-blank line is a header
    (or that has no such line) the fills deliver the records of the input, each
    once, in order, every set non-empty, and then the end; on an input with an
    invalid first line no set is filled and the error is reported *)
Theorem fa_fill_seq_spec inp cap0 rs sks pol fuel ffuel m :
  3 <= cap0 -> forallb item_ok rs = true -> PolOk pol ->
  length rs + 2 <= ffuel -> length inp + 2 <= fuel -> length (fa_spec inp) + 2 <= m ->
  let '(batches, fin) := fa_fill_seq m fuel ffuel (fa_new cap0 (mkSource inp 0 rs sks) pol) fa_set_empty in
  Forall (fun b => b <> []) batches /\
  match fa_spec inp with
  | [SInvalidStart l b] => batches = [] /\ fin = Some (OErr (FaInvalidStart l b))
  | _ => concat batches = map item_owned (fa_records inp) /\ fin = Some ONone
  end.
Proof.
  intros Hcap Hrs Hpol Hff Hfuel Hm.
  pose proof (fa_init_spec inp cap0 rs sks pol fuel ffuel Hcap Hrs Hff Hfuel) as Hinit. cbv zeta in Hinit.
  destruct (fa_ospec_complete inp) as [(Ho & Hs) | [(ln & b & Ho & Hs) | (pos & ln & its & Ho & Hst & Hf)]].
  - rewrite Ho in Hinit. destruct Hinit as (r1 & Heq & _).
    destruct (init_dead_next fuel ffuel (fa_new cap0 (mkSource inp 0 rs sks) pol) r1 (IOk false) ONone eq_refl Heq eq_refl) as [_ Hset].
    destruct m as [|m]; [lia|]. cbn [fa_fill_seq]. rewrite Hset.
    split; [constructor|]. unfold fa_records. rewrite Hs. split; reflexivity.
  - rewrite Ho in Hinit. destruct Hinit as (r1 & Heq & _).
    destruct (init_dead_next fuel ffuel (fa_new cap0 (mkSource inp 0 rs sks) pol) r1 (IErr (FaInvalidStart ln b)) (OErr (FaInvalidStart ln b)) eq_refl Heq eq_refl)
      as [_ Hset].
    destruct m as [|m]; [lia|]. cbn [fa_fill_seq]. rewrite Hset.
    split; [constructor|]. rewrite Hs. split; reflexivity.
  - destruct (spec_owned_lines inp its (fa_spec inp) Hf) as (Hown & Hlen & Hne).
    destruct (fa_fill_seq_live inp fuel ffuel cap0 rs sks pol pos ln its Hcap Hrs Hpol Hff Hfuel Ho Hst
                m _ fa_set_empty 0 (LS_new inp ffuel cap0 rs sks pol its) ltac:(lia)) as (Hc & Hn & Hfin).
    destruct (fa_fill_seq m fuel ffuel _ fa_set_empty) as [batches fin]. cbn [fst snd skipn] in *.
    split; [exact Hn|].
    assert (Hgoal : concat batches = map item_owned (fa_records inp) /\ fin = Some ONone).
    { split; [|exact Hfin]. rewrite Hc, Hown. reflexivity. }
    destruct (fa_spec inp) as [|[x|l b] [|y t]]; try exact Hgoal.
    exfalso. exact (Hne l b eq_refl).
Qed.

Print Assumptions fa_read_set_indep_of_set.
Print Assumptions fa_fill_seq_spec.

(* ------------------------------------------------------------------ *)
(** * Composition, generic in the batches *)

Lemma drain_batches {A} (batches : list (list A)) (fe : fill_end) n q w s :
  1 <= n -> 1 <= q ->
  let cfg := mkConfig n q true None (length batches, fe) Drain w in
  reachable cfg s -> final s = true -> mfail s = false ->
  Permutation (delivered s) (map (fun c => (c, w c)) (seq 0 (length batches))) /\
  Permutation (concat (map (fun p => nth (fst p) batches []) (delivered s))) (concat batches) /\
  (n = 1 -> concat (map (fun p => nth (fst p) batches []) (delivered s)) = concat batches) /\
  nerr_seen s = match fe with ScriptEnd => 0 | ScriptErr => 1 end.
Proof.
  intros Hn Hq cfg Hr Hfin Hmf.
  assert (Hwf : wf_config cfg) by (split; assumption).
  destruct (drain_all cfg s Hwf Hr Hfin eq_refl eq_refl Hmf) as (HP & Hord & Herr).
  change (nfills cfg) with (length batches) in HP, Hord. change (work cfg) with w in HP, Hord.
  change (nworkers cfg) with n in Hord. change (fend cfg) with fe in Herr.
  split; [exact HP|]. split; [|split; [|exact Herr]].
  - pose proof (Permutation_concat _ _ (Permutation_map (fun p : nat * nat => nth (fst p) batches []) HP)) as HPc.
    fold (batches_of batches (map (fun c => (c, w c)) (seq 0 (length batches)))) in HPc.
    rewrite batches_of_all in HPc. exact HPc.
  - intros H1. rewrite (Hord H1). f_equal. exact (batches_of_all batches w).
Qed.

Definition fa_script_of {A} (batches : list A) (fin : option fa_out) : nat * fill_end :=
  (length batches, match fin with Some ONone => ScriptEnd | _ => ScriptErr end).

Theorem parallel_fasta_end_to_end inp cap0 rs sks pol fuel ffuel m n q w s :
  3 <= cap0 -> forallb item_ok rs = true -> PolOk pol ->
  length rs + 2 <= ffuel -> length inp + 2 <= fuel -> length (fa_spec inp) + 2 <= m -> 1 <= n -> 1 <= q ->
  let '(batches, fin) := fa_fill_seq m fuel ffuel (fa_new cap0 (mkSource inp 0 rs sks) pol) fa_set_empty in
  let cfg := mkConfig n q true None (fa_script_of batches fin) Drain w in
  reachable cfg s -> final s = true -> mfail s = false ->
  Permutation (delivered s) (map (fun c => (c, w c)) (seq 0 (length batches))) /\
  match fa_spec inp with
  | [SInvalidStart l b] =>
      delivered s = [] /\ fin = Some (OErr (FaInvalidStart l b)) /\ nerr_seen s = 1
  | _ =>
      Permutation (concat (map (fun p => nth (fst p) batches []) (delivered s))) (map item_owned (fa_records inp)) /\
      (n = 1 -> concat (map (fun p => nth (fst p) batches []) (delivered s)) = map item_owned (fa_records inp)) /\
      fin = Some ONone /\ nerr_seen s = 0
  end.
Proof.
  intros Hcap Hrs Hpol Hff Hfuel Hm Hn Hq.
  pose proof (fa_fill_seq_spec inp cap0 rs sks pol fuel ffuel m Hcap Hrs Hpol Hff Hfuel Hm) as HF.
  destruct (fa_fill_seq m fuel ffuel _ fa_set_empty) as [batches fin].
  cbv zeta. unfold fa_script_of. intros Hr Hfin Hmf.
  destruct (drain_batches batches _ n q w s Hn Hq Hr Hfin Hmf) as (HP & HPc & Hord & Herr).
  split; [exact HP|]. destruct HF as [_ HF].
  assert (Hrec : concat batches = map item_owned (fa_records inp) /\ fin = Some ONone ->
    Permutation (concat (map (fun p => nth (fst p) batches []) (delivered s))) (map item_owned (fa_records inp)) /\
    (n = 1 -> concat (map (fun p => nth (fst p) batches []) (delivered s)) = map item_owned (fa_records inp)) /\
    fin = Some ONone /\ nerr_seen s = 0).
  { intros [Hc Hf]. rewrite <- Hc. subst fin. auto. }
  destruct (fa_spec inp) as [|[x|l b] [|y t]]; try (apply Hrec; exact HF).
  destruct HF as [Hb Hf]. subst batches fin. cbn [length seq map] in HP.
  split; [apply Permutation_nil; apply Permutation_sym; exact HP|]. split; [reflexivity | exact Herr].
Qed.

(* ------------------------------------------------------------------ *)
(** * Sequential reading of a FASTA input, for comparison *)

Fixpoint fa_next_seq (m fuel ffuel : nat) (r : fa) : list fa_owned_t * option fa_out :=
  match m with
  | 0 => ([], None)
  | S m' =>
      let '(r', o) := fa_next fuel ffuel r in
      match o with
      | ORec rc => let '(l, fin) := fa_next_seq m' fuel ffuel r' in (fa_to_owned rc :: l, fin)
      | other => ([], Some other)
      end
  end.

Lemma fa_next_seq_live inp fuel ffuel cap0 rs sks pol pos0 ln0 its :
  3 <= cap0 -> forallb item_ok rs = true -> PolOk pol -> length rs + 2 <= ffuel -> length inp + 2 <= fuel ->
  fa_ostart_of inp = OsRecs pos0 ln0 -> FaStream inp pos0 ln0 its ->
  forall m r k, Live inp ffuel cap0 rs sks pol its r k -> length its - k < m ->
  fa_next_seq m fuel ffuel r = (map (spec_owned inp) (skipn k its), Some ONone).
Proof.
  intros Hcap Hrs Hpol Hff Hfuel Hstart Hstream.
  induction m as [|m IH]; intros r k HL Hm; [lia|].
  cbn [fa_next_seq].
  destruct (live_next inp fuel ffuel cap0 rs sks pol pos0 ln0 its Hcap Hrs Hpol Hff Hfuel Hstart Hstream r k HL)
    as [(r' & it & Hn & E & Hrec & _ & HL') | [Hk E]]; rewrite E.
  - assert (Hk : k < length its) by (apply nth_error_Some; rewrite Hn; discriminate).
    rewrite (IH r' (S k) HL' ltac:(lia)).
    rewrite (nth_error_skipn_cons _ _ _ Hn). cbn [map]. f_equal. f_equal.
    apply rec_ok_owned; [exact Hrec|].
    exact (its_wf inp pos0 ln0 its Hstart Hstream k it Hn).
  - subst k. rewrite skipn_all. reflexivity.
Qed.

(** the fills of the reader thread against sequential reading with [next()]:
    the same records in the same order and the same final outcome *)
Theorem fa_fill_seq_vs_sequential inp cap0 rs sks pol fuel ffuel m :
  3 <= cap0 -> forallb item_ok rs = true -> PolOk pol ->
  length rs + 2 <= ffuel -> length inp + 2 <= fuel -> length (fa_spec inp) + 2 <= m ->
  let r0 := fa_new cap0 (mkSource inp 0 rs sks) pol in
  concat (fst (fa_fill_seq m fuel ffuel r0 fa_set_empty)) = fst (fa_next_seq m fuel ffuel r0) /\
  snd (fa_fill_seq m fuel ffuel r0 fa_set_empty) = snd (fa_next_seq m fuel ffuel r0).
Proof.
  intros Hcap Hrs Hpol Hff Hfuel Hm. cbv zeta.
  pose proof (fa_init_spec inp cap0 rs sks pol fuel ffuel Hcap Hrs Hff Hfuel) as Hinit. cbv zeta in Hinit.
  destruct (fa_ospec_complete inp) as [(Ho & Hs) | [(ln & b & Ho & Hs) | (pos & ln & its & Ho & Hst & Hf)]].
  - rewrite Ho in Hinit. destruct Hinit as (r1 & Heq & _).
    destruct (init_dead_next fuel ffuel (fa_new cap0 (mkSource inp 0 rs sks) pol) r1 (IOk false) ONone eq_refl Heq eq_refl)
      as [Hnx Hset].
    destruct m as [|m]; [lia|]. cbn [fa_fill_seq fa_next_seq]. rewrite Hset, Hnx. split; reflexivity.
  - rewrite Ho in Hinit. destruct Hinit as (r1 & Heq & _).
    destruct (init_dead_next fuel ffuel (fa_new cap0 (mkSource inp 0 rs sks) pol) r1 (IErr (FaInvalidStart ln b))
                (OErr (FaInvalidStart ln b)) eq_refl Heq eq_refl) as [Hnx Hset].
    destruct m as [|m]; [lia|]. cbn [fa_fill_seq fa_next_seq]. rewrite Hset, Hnx. split; reflexivity.
  - destruct (spec_owned_lines inp its (fa_spec inp) Hf) as (_ & Hlen & _).
    destruct (fa_fill_seq_live inp fuel ffuel cap0 rs sks pol pos ln its Hcap Hrs Hpol Hff Hfuel Ho Hst
                m _ fa_set_empty 0 (LS_new inp ffuel cap0 rs sks pol its) ltac:(lia)) as (Hc & _ & Hfin).
    rewrite (fa_next_seq_live inp fuel ffuel cap0 rs sks pol pos ln its Hcap Hrs Hpol Hff Hfuel Ho Hst
                m _ 0 (LS_new inp ffuel cap0 rs sks pol its) ltac:(lia)).
    cbn [fst snd]. split; [exact Hc | exact Hfin].
Qed.

Print Assumptions parallel_fasta_end_to_end.
Print Assumptions fa_fill_seq_vs_sequential.

(* ------------------------------------------------------------------ *)
(** * Material for the non-vacuity examples of Props/C15c.v *)

(** the fills of a FASTQ reader on [inp] at capacity [cap] (read script [c04_rs], default policy) *)
Definition c15c_fq (inp : list byte) (cap : nat) :=
  fq_fill_seq 5 (2 * length inp + 4) 50 (fq_new cap (mkSource inp 0 c04_rs [SOk]) pol_std) fq_set_empty.
(** the protocol configuration they induce: n workers, queue length q, draining consumer *)
Definition c15c_fq_cfg (inp : list byte) (cap n q : nat) : config :=
  mkConfig n q true None (script_of (fst (c15c_fq inp cap)) (snd (c15c_fq inp cap))) Drain (fun c => c + 1).
(** a complete run under the greedy scheduler of Model/Par.v *)
Definition c15c_fq_end (inp : list byte) (cap n q : nat) (last : bool) : state :=
  end_state (c15c_fq_cfg inp cap n q) (greedy last (c15c_fq_cfg inp cap n q) 300 init_state).

(** ">a\nAC\n>b\nG\n>c\nTT\nA\n" and an input with an invalid first line "\nA\n>a\n" *)
Definition c15c_fa_inp : list byte := [62; 97; 10; 65; 67; 10; 62; 98; 10; 71; 10; 62; 99; 10; 84; 84; 10; 65; 10].
Definition c15c_fa_bad : list byte := [10; 65; 10; 62; 97; 10].
Definition c15c_fa (inp : list byte) (cap : nat) :=
  fa_fill_seq 5 (length inp + 2) 9 (fa_new cap (mkSource inp 0 [RDeliver 0; RInterrupt; RDeliver 1] []) pol_std) fa_set_empty.
Definition c15c_fa_cfg (inp : list byte) (cap n q : nat) : config :=
  mkConfig n q true None (fa_script_of (fst (c15c_fa inp cap)) (snd (c15c_fa inp cap))) Drain (fun c => c + 1).
Definition c15c_fa_end (inp : list byte) (cap n q : nat) (last : bool) : state :=
  end_state (c15c_fa_cfg inp cap n q) (greedy last (c15c_fa_cfg inp cap n q) 300 init_state).
