(** Invariants of the parallel protocol, part C: what happens to the filled sets
    (content conservation, pairing with the work result, the end marker). *)
From SeqIO Require Import Model.Par Proofs.ParP Proofs.ParInv.
Require Import List Arith Bool Lia Permutation.
Import ListNotations.

Definition rexec (p : rpc_t) : list nat := match p with RExec _ c => [c] | _ => [] end.
Definition mpend (p : mpc_t) : list nat :=
  match p with MRecycle _ _ c _ => [c] | MGot (CData _ c _) => [c] | _ => [] end.

(** the filled sets on their way to the consumer, oldest stage first *)
Definition pipeline (s : state) : list nat :=
  map fst (delivered s) ++ mpend (mpc s) ++ flat_map msg_contents (doneq s)
  ++ map ajob_content (active s) ++ map snd (jobs s) ++ rexec (rpc s).

Definition contents (s : state) : list nat := pipeline s ++ lost s.

Definition inv_contents (s : state) : Prop :=
  forall x, cnt x (contents s) = if x <? length (filled s) then 1 else 0.

Ltac list_norm2 :=
  repeat rewrite ?map_app, ?flat_map_app, ?app_length, ?app_nil_r in *;
  cbn [map flat_map msg_tags msg_contents ajob_tag ajob_content fst snd app length
       rhold mhold opt_list rexec mpend] in *.

Lemma inv_contents_init : inv_contents init_state.
Proof. intros x; reflexivity. Qed.

Lemma inv_contents_step : forall cfg s e s',
  inv_contents s -> step cfg s e s' -> inv_contents s'.
Proof.
  intros cfg s e s' HI Hs x. specialize (HI x). unfold contents, pipeline in *.
  destruct Hs; try match goal with r : cres |- _ => destruct r end;
    unfold consume_effect; sst; rw_state; split_ifs; list_norm2; cnt_norm;
    try lia.
  all: match goal with
       | |- context [b2n (?a =? ?y)] =>
           destruct (b2n_eqb_cases a y) as [[? ->]|[? ->]];
           repeat match goal with
           | |- context [?u <? ?v] => destruct (Nat.ltb_spec u v)
           | H : context [?u <? ?v] |- _ => destruct (Nat.ltb_spec u v)
           end; lia
       end.
Qed.

Lemma inv_contents_reachable : forall cfg s, reachable cfg s -> inv_contents s.
Proof.
  intros cfg s Hr; induction Hr using reachable_ind'.
  - apply inv_contents_init.
  - eapply inv_contents_step; eauto.
Qed.

Lemma filled_seq : forall cfg s, reachable cfg s -> filled s = seq 0 (length (filled s)).
Proof.
  intros cfg s Hr; induction Hr using reachable_ind'.
  - reflexivity.
  - match goal with Hs : step _ _ _ _ |- _ => destruct Hs end;
      try match goal with r : cres |- _ => destruct r end;
      unfold consume_effect; sst; try assumption;
      rewrite app_length; cbn [length]; rewrite Nat.add_1_r, seq_S; cbn [plus]; congruence.
Qed.

Lemma contents_perm : forall s, inv_contents s ->
  Permutation (contents s) (seq 0 (length (filled s))).
Proof. intros s H; apply cnt_perm_seq; exact H. Qed.

(* ------------------------------------------------------------------ *)
(** * Pairing: every result travels with the set it was computed from *)

Definition msg_ok (cfg : config) (m : msg) : Prop :=
  match m with Data _ c o => o = work cfg c | _ => True end.
Definition ajob_ok (cfg : config) (a : ajob) : Prop :=
  match a with Send _ c o => o = work cfg c | _ => True end.
Definition mpc_ok (cfg : config) (p : mpc_t) : Prop :=
  match p with
  | MRecycle _ _ c o => o = work cfg c
  | MGot (CData _ c o) => o = work cfg c
  | _ => True
  end.
Definition pair_ok (cfg : config) (p : nat * nat) : Prop := snd p = work cfg (fst p).

Definition inv_pair (cfg : config) (s : state) : Prop :=
  Forall (msg_ok cfg) (doneq s) /\ Forall (ajob_ok cfg) (active s) /\
  mpc_ok cfg (mpc s) /\ Forall (pair_ok cfg) (delivered s).

Ltac forall_norm :=
  repeat match goal with
  | H : Forall _ (_ ++ _) |- _ => apply Forall_app in H; destruct H
  | H : Forall _ (_ :: _) |- _ => apply Forall_cons_iff in H; destruct H
  | |- Forall _ (_ ++ _) => apply Forall_app; split
  | |- Forall _ (_ :: _) => apply Forall_cons
  | |- Forall _ [] => apply Forall_nil
  end.

Lemma inv_pair_init : forall cfg, inv_pair cfg init_state.
Proof. intros cfg; unfold inv_pair; cbn; repeat split; constructor. Qed.

Lemma inv_pair_step : forall cfg s e s', inv_pair cfg s -> step cfg s e s' -> inv_pair cfg s'.
Proof.
  intros cfg s e s' (Hq & Ha & Hm & Hd) Hs.
  destruct Hs; try match goal with r : cres |- _ => destruct r end;
    unfold inv_pair, consume_effect; sst; rw_state; split_ifs;
    cbn [mpc_ok] in *; forall_norm;
    repeat match goal with |- _ /\ _ => split end; forall_norm;
    cbn [msg_ok ajob_ok pair_ok fst snd] in *; auto.
Qed.

Lemma inv_pair_reachable : forall cfg s, reachable cfg s -> inv_pair cfg s.
Proof.
  intros cfg s Hr; induction Hr using reachable_ind'.
  - apply inv_pair_init.
  - eapply inv_pair_step; eauto.
Qed.

Lemma msg_contents_tags_length : forall l,
  length (flat_map msg_contents l) = length (flat_map msg_tags l).
Proof.
  induction l as [|m l IH]; [reflexivity|].
  destruct m; cbn [flat_map msg_contents msg_tags app length]; lia.
Qed.

Lemma filled_ahead_bound : forall cfg s, wf_config cfg -> reachable cfg s ->
  length (filled s) <=
  length (delivered s) + length (mpend (mpc s)) + length (lost s) + qlen cfg.
Proof.
  intros cfg s Hwf Hr.
  pose proof (in_flight_bound cfg s Hwf Hr) as HF.
  pose proof (Permutation_length (contents_perm s (inv_contents_reachable cfg s Hr))) as HL.
  rewrite seq_length in HL. unfold contents, pipeline in HL.
  repeat rewrite app_length in HL. repeat rewrite map_length in HL.
  unfold in_flight in HF.
  pose proof (msg_contents_tags_length (doneq s)) as E.
  assert (length (rexec (rpc s)) = rexec_n (rpc s)) by (destruct (rpc s); reflexivity).
  lia.
Qed.

(* ------------------------------------------------------------------ *)
(** * The end marker *)

Definition end_sent (p : rpc_t) : bool :=
  match p with RScopeEnd | RExit | RDone => true | _ => false end.
Definition not_end (m : msg) : Prop := m <> MEnd.

(** MEnd is in the result channel only after all jobs have finished, and it is the
    last message *)
Definition invE (s : state) : Prop :=
  (Forall not_end (doneq s) \/ (end_sent (rpc s) = true /\ jobs s = [] /\ active s = [])) /\
  Forall not_end (removelast (doneq s)).

Lemma invE_init : invE init_state.
Proof. unfold invE; cbn; split; [left|]; constructor. Qed.

Lemma removelast_cons_forall : forall (P : msg -> Prop) m l,
  Forall P (removelast (m :: l)) -> Forall P (removelast l).
Proof.
  intros P m l H. destruct l as [|r l]; [constructor|].
  change (removelast (m :: r :: l)) with (m :: removelast (r :: l)) in H.
  apply Forall_cons_iff in H; tauto.
Qed.

Lemma invE_step : forall cfg s e s', invA cfg s -> invE s -> step cfg s e s' -> invE s'.
Proof.
  intros cfg s e s' HA (E1 & E2) Hs.
  unfold invA in HA; destruct HA as (_ & _ & _ & _ & _ & _ & _ & Iidle & _).
  destruct Hs; try match goal with r : cres |- _ => destruct r end;
    unfold invE, consume_effect; sst; rw_state; cbn [end_sent] in *;
    try (split; [exact E1|exact E2]).
  all: try rewrite removelast_last.
  all: try (apply removelast_cons_forall in E2).
  all: try (split; [|solve [assumption|constructor]]).
  all: try (destruct E1 as [E1|(E1 & E1j & E1a)]; try discriminate E1; nil_contra;
            try (apply Forall_cons_iff in E1; destruct E1);
            solve [ left; forall_norm; auto; discriminate
                  | right; auto
                  | split; [left|]; forall_norm; auto; discriminate
                  | forall_norm; auto; discriminate
                  | left; constructor ]).
Qed.

Lemma invE_reachable : forall cfg s, wf_config cfg -> reachable cfg s -> invE s.
Proof.
  intros cfg s Hwf Hr; induction Hr using reachable_ind'.
  - apply invE_init.
  - eapply invE_step; eauto. apply invA_reachable; auto.
Qed.

Lemma invE_head_end : forall s rest, invE s -> doneq s = MEnd :: rest ->
  rest = [] /\ end_sent (rpc s) = true /\ jobs s = [] /\ active s = [].
Proof.
  intros s rest (E1 & E2) Hq. rewrite Hq in *.
  split.
  - destruct rest as [|r rest]; [reflexivity|].
    change (removelast (MEnd :: r :: rest)) with (MEnd :: removelast (r :: rest)) in E2.
    apply Forall_cons_iff in E2. destruct E2 as [E2 _]. exfalso; apply E2; reflexivity.
  - destruct E1 as [E1|E1]; [|exact E1].
    apply Forall_cons_iff in E1. destruct E1 as [E1 _]. exfalso; apply E1; reflexivity.
Qed.

(** the reader leaves its loop on the normal path only when the script is exhausted *)
Definition invF (cfg : config) (s : state) : Prop :=
  match rpc s with
  | RSendErr => length (filled s) = nfills cfg /\ fend cfg = ScriptErr
  | RJoin | RSendEnd => length (filled s) = nfills cfg
  | _ => True
  end.

Lemma invF_step : forall cfg s e s', invA cfg s -> invF cfg s -> step cfg s e s' -> invF cfg s'.
Proof.
  intros cfg s e s' HA HF Hs.
  unfold invA in HA; destruct HA as (_ & _ & _ & _ & _ & _ & _ & _ & _ & _ & _ & Ifill & _).
  destruct Hs; try match goal with r : cres |- _ => destruct r end;
    unfold invF, consume_effect in *; sst; rw_state; split_ifs; try exact I; try exact HF;
    try tauto; try lia; try (split; [lia|assumption]).
  all: try (destruct (rpc s); tauto).
Qed.

Lemma invF_reachable : forall cfg s, wf_config cfg -> reachable cfg s -> invF cfg s.
Proof.
  intros cfg s Hwf Hr; induction Hr using reachable_ind'.
  - exact I.
  - eapply invF_step; eauto. apply invA_reachable; auto.
Qed.

(** with a script that ends normally no error message exists anywhere *)
Definition not_err (m : msg) : Prop := m <> MErr.
Definition invG (cfg : config) (s : state) : Prop :=
  fend cfg = ScriptEnd ->
  rpc s <> RSendErr /\ Forall not_err (doneq s) /\ mpc s <> MGot CErr.

Lemma invG_step : forall cfg s e s', invG cfg s -> step cfg s e s' -> invG cfg s'.
Proof.
  intros cfg s e s' HG Hs Hf. specialize (HG Hf). destruct HG as (G1 & G2 & G3).
  destruct Hs; try match goal with r : cres |- _ => destruct r end;
    unfold consume_effect; sst; rw_state; split_ifs;
    try congruence;
    (split; [|split]); try assumption; try discriminate; forall_norm; auto; try discriminate.
Qed.

Lemma invG_reachable : forall cfg s, reachable cfg s -> invG cfg s.
Proof.
  intros cfg s Hr; induction Hr using reachable_ind'.
  - intros _; cbn; repeat split; try discriminate; constructor.
  - eapply invG_step; eauto.
Qed.

(** a consumer that keeps calling next() until it returns None *)
Definition patient (cfg : config) : Prop :=
  consumer cfg = Drain \/ (consumer cfg = DrainStopErr /\ fend cfg = ScriptEnd).

Lemma patient_wants_first : forall cfg, patient cfg -> wants_first cfg = true.
Proof. intros cfg [H|[H _]]; unfold wants_first; rewrite H; reflexivity. Qed.

Lemma patient_continues : forall cfg s r n, patient cfg -> invG cfg s -> mpc s = MGot r ->
  r <> CNone -> continues cfg n r = true.
Proof.
  intros cfg s r n [H|[H Hf]] HG Hm Hr; unfold continues; rewrite H.
  - destruct r; congruence.
  - destruct (HG Hf) as (_ & _ & G3). destruct r; congruence.
Qed.

Definition main_finishing (p : mpc_t) : bool :=
  match p with MGot CNone | MDrop | MJoin | MRet | MDone => true | _ => false end.

(** with a patient consumer and no failing init closure nothing is lost, the reader
    never takes the early-exit path, and the consumer stops only when all is done *)
Definition invD (cfg : config) (s : state) : Prop :=
  patient cfg -> rinit_ok cfg = true -> mfail s = false ->
  lost s = [] /\
  (end_sent (rpc s) = true -> length (filled s) = nfills cfg) /\
  (main_finishing (mpc s) = true ->
     doneq s = [] /\ jobs s = [] /\ active s = [] /\ end_sent (rpc s) = true).

Lemma invD_step : forall cfg s e s',
  invA cfg s -> invE s -> invF cfg s -> invG cfg s -> invD cfg s -> step cfg s e s' -> invD cfg s'.
Proof.
  intros cfg s e s' HA HE HF HG HD Hs Hp Hr Hmf.
  pose proof (patient_wants_first cfg Hp) as Hw.
  pose proof (fun r n => patient_continues cfg s r n Hp HG) as Hc.
  pose proof (fun rest => invE_head_end s rest HE) as HEh.
  unfold invA in HA;
    destruct HA as (Ies & Idr & Ier & Irs & Idq & Ieq & Ii & Iidle & Iact & Icur & Irinit & Ifill & Imf & Idql).
  unfold invD in HD. unfold invF in HF.
  destruct Hs; try match goal with r : cres |- _ => destruct r end;
    unfold consume_effect in *; sst; rw_state;
    cbn [main_alive reader_alive main_finishing end_sent] in *;
    try (rewrite Hw in * ); try (erewrite Hc in * by (eauto; discriminate));
    try discriminate Hmf;
    specialize (HD Hp Hr Hmf); destruct HD as (D1 & D2 & D3);
    cbn [main_alive reader_alive main_finishing end_sent] in *.
  all: try (split; [|split]); try assumption.
  all: try (intros; discriminate).
  all: try rewrite Hr in *; cbn [end_sent] in *.
  all: try (intros; discriminate).
  all: try solve [split_ifs; intros; discriminate].
  all: try solve [apply D2; reflexivity].
  all: try solve [intros _; exact HF].
  (* steps taken while main may be finishing: contradiction or unchanged *)
  all: try solve [intros Hfin; destruct (D3 Hfin) as (Q1 & Q2 & Q3 & Q4);
                  nil_contra; try discriminate; repeat split; auto].
  (* recv End *)
  all: try solve [intros _; destruct (HEh _ eq_refl) as (Q1 & Q2 & Q3 & Q4); auto].
  (* recv Closed *)
  all: try solve [intros _; unfold senders in *;
                  destruct (jobs s); [|cbn [length] in *; lia];
                  destruct (active s); [|cbn [length] in *; lia];
                  destruct (rpc s); cbn [reader_alive reader_clone end_sent] in *;
                  rewrite ?Irs in *; cbn [b2n] in *; try lia; auto].
  (* drop *)
  all: try solve [destruct (D3 eq_refl) as (Q1 & _); rewrite Q1, D1; reflexivity].
  (* recv None by the reader / failing job send: main would have to be gone *)
  all: try solve [try intros _; destruct (mpc s); cbn [main_alive main_finishing] in *;
                  try discriminate;
                  destruct (D3 eq_refl) as (Q1 & Q2 & Q3 & Q4); nil_contra; discriminate].
Qed.

Lemma invD_reachable : forall cfg s, wf_config cfg -> reachable cfg s -> invD cfg s.
Proof.
  intros cfg s Hwf Hr; induction Hr using reachable_ind'.
  - intros _ _ _; cbn. repeat split; intros; discriminate.
  - eapply invD_step; eauto.
    + apply invA_reachable; auto.
    + apply (invE_reachable cfg); auto.
    + apply invF_reachable; auto.
    + apply invG_reachable; auto.
Qed.

(** main joins the reader before it returns *)
Definition main_joined (p : mpc_t) : bool := match p with MRet | MDone => true | _ => false end.
Definition invH (s : state) : Prop := main_joined (mpc s) = true -> rpc s = RDone.

Lemma invH_step : forall cfg s e s', invH s -> step cfg s e s' -> invH s'.
Proof.
  intros cfg s e s' HH Hs. unfold invH in *.
  destruct Hs; try match goal with r : cres |- _ => destruct r end;
    unfold consume_effect; sst; rw_state; split_ifs; cbn [main_joined] in *;
    try (intros; discriminate); auto;
    try (intros Hj; specialize (HH Hj); congruence).
Qed.

Lemma invH_reachable : forall cfg s, reachable cfg s -> invH s.
Proof.
  intros cfg s Hr; induction Hr using reachable_ind'.
  - intros H; discriminate.
  - eapply invH_step; eauto.
Qed.

(** C08_final_clean *)
Lemma final_clean : forall cfg s, wf_config cfg -> reachable cfg s -> final s = true ->
  mpc s = MDone /\ rpc s = RDone /\ jobs s = [] /\ active s = [] /\
  doneq s = [] /\ emptyq s = [] /\ cur s = None /\
  esend_live s = false /\ erecv_live s = false /\ drecv_live s = false /\ senders s = 0.
Proof.
  intros cfg s Hwf Hr Hf.
  pose proof (invA_reachable cfg s Hwf Hr) as HA. pose proof (invH_reachable cfg s Hr) as HH.
  unfold invA in HA;
    destruct HA as (Ies & Idr & Ier & Irs & Idq & Ieq & Ii & Iidle & Iact & Icur & _).
  unfold final in Hf. destruct (mpc s) eqn:Hm; try discriminate Hf.
  assert (Hrp : rpc s = RDone) by (apply HH; rewrite Hm; reflexivity).
  unfold senders. rewrite Hrp in *. cbn [main_alive reader_alive reader_clone] in *.
  destruct Iidle as [Hj Ha]. rewrite Irs, Hj, Ha. repeat split; auto.
Qed.

Lemma nodup_app_l : forall (l1 l2 : list nat), NoDup (l1 ++ l2) -> NoDup l1.
Proof.
  induction l1 as [|a l1 IH]; intros l2 H; [constructor|].
  cbn [app] in H. inversion H as [|? ? Hn Hd]; subst. constructor.
  - intros Hi; apply Hn; apply in_or_app; left; exact Hi.
  - eapply IH; exact Hd.
Qed.

(** C07_at_most_once *)
Lemma pipeline_nodup : forall cfg s, reachable cfg s -> NoDup (contents s).
Proof.
  intros cfg s Hr. eapply Permutation_NoDup.
  - apply Permutation_sym, contents_perm, (inv_contents_reachable cfg); exact Hr.
  - apply seq_NoDup.
Qed.

Lemma delivered_at_most_once : forall cfg s, reachable cfg s ->
  NoDup (map fst (delivered s)) /\
  (forall c, In c (map fst (delivered s)) -> In c (filled s)) /\
  (forall c o, In (c, o) (delivered s) -> o = work cfg c).
Proof.
  intros cfg s Hr. split; [|split].
  - pose proof (pipeline_nodup cfg s Hr) as H. unfold contents, pipeline in H.
    apply nodup_app_l in H. apply nodup_app_l in H. exact H.
  - intros c Hin. rewrite (filled_seq cfg s Hr). apply in_seq. split; [lia|]. cbn [plus].
    assert (Hc : In c (contents s)).
    { unfold contents, pipeline. apply in_or_app; left. apply in_or_app; left. exact Hin. }
    eapply Permutation_in in Hc; [|apply contents_perm, (inv_contents_reachable cfg); exact Hr].
    apply in_seq in Hc; lia.
  - intros c o Hin. destruct (inv_pair_reachable cfg s Hr) as (_ & _ & _ & Hd).
    rewrite Forall_forall in Hd. apply (Hd (c, o) Hin).
Qed.

(** C07_exactly_once *)
Lemma delivered_exactly_once : forall cfg s, wf_config cfg -> reachable cfg s ->
  final s = true -> patient cfg -> rinit_ok cfg = true -> mfail s = false ->
  Permutation (delivered s) (map (fun c => (c, work cfg c)) (seq 0 (nfills cfg))) /\
  length (filled s) = nfills cfg /\ lost s = [].
Proof.
  intros cfg s Hwf Hr Hf Hp Hri Hmf.
  destruct (final_clean cfg s Hwf Hr Hf) as (Hm & Hrp & Hj & Ha & Hq & _).
  destruct (invD_reachable cfg s Hwf Hr Hp Hri Hmf) as (D1 & D2 & _).
  assert (Hk : length (filled s) = nfills cfg) by (apply D2; rewrite Hrp; reflexivity).
  pose proof (contents_perm s (inv_contents_reachable cfg s Hr)) as HP.
  unfold contents, pipeline in HP. rewrite Hm, Hrp, Hj, Ha, Hq, D1, Hk in HP.
  cbn [mpend rexec map flat_map app] in HP. repeat rewrite app_nil_r in HP.
  split; [|split; assumption].
  destruct (inv_pair_reachable cfg s Hr) as (_ & _ & _ & Hd).
  assert (E : delivered s = map (fun c => (c, work cfg c)) (map fst (delivered s))).
  { clear - Hd. induction (delivered s) as [|[c o] l IH]; [reflexivity|].
    apply Forall_cons_iff in Hd. destruct Hd as [H1 H2]. unfold pair_ok in H1; cbn [fst snd] in H1.
    cbn [map fst]. rewrite <- IH by exact H2. subst o; reflexivity. }
  rewrite E. apply Permutation_map. exact HP.
Qed.

(* ------------------------------------------------------------------ *)
(** * One worker: delivery in fill order *)

Definition invO (cfg : config) (s : state) : Prop :=
  nworkers cfg = 1 ->
  (drecv_live s = true -> pipeline s = seq 0 (length (filled s))) /\
  (exists rest, seq 0 (length (filled s)) = map fst (delivered s) ++ rest).

Lemma length_le1_split : forall (l1 l2 : list ajob) a, length (l1 ++ a :: l2) <= 1 ->
  l1 = [] /\ l2 = [].
Proof.
  intros l1 l2 a H. rewrite app_length in H; cbn [length] in H.
  destruct l1; [destruct l2; [auto|cbn [length] in H; lia]|cbn [length] in H; lia].
Qed.

Lemma invO_step : forall cfg s e s', invA cfg s -> invO cfg s -> step cfg s e s' -> invO cfg s'.
Proof.
  intros cfg s e s' HA HO Hs Hn. specialize (HO Hn). destruct HO as (O1 & rest0 & O2).
  unfold invA in HA;
    destruct HA as (Ies & Idr & Ier & Irs & Idq & Ieq & Ii & Iidle & Iact & Icur & _).
  rewrite Hn in Iact. unfold pipeline in *.
  destruct Hs; try match goal with r : cres |- _ => destruct r end;
    unfold consume_effect in *; sst; rw_state; cbn [main_alive] in *;
    try (apply length_le1_split in Iact; destruct Iact; subst);
    list_norm2; repeat rewrite <- app_assoc in *; cbn [app] in *;
    try (split; [exact O1|exists rest0; exact O2]).
  all: try solve [split; [intros; discriminate|exists rest0; exact O2]].
  all: try solve [split_ifs; cbn [mpend rexec app] in *; rewrite ?app_nil_r in *;
                  (split; [exact O1|exists rest0; exact O2])].
  - (* consume Data *)
    split.
    + split_ifs; cbn [mpend app]; exact O1.
    + exists (flat_map msg_contents (doneq s) ++ map ajob_content (active s)
              ++ map snd (jobs s) ++ rexec (rpc s)).
      rewrite <- (O1 eq_refl). rewrite <- app_assoc. cbn [app]. reflexivity.
  - (* fill *)
    rewrite Nat.add_1_r, seq_S. cbn [plus]. split.
    + intros Hl. rewrite <- (O1 Hl). repeat rewrite <- app_assoc. reflexivity.
    + exists (rest0 ++ [length (filled s)]). rewrite O2, <- app_assoc. reflexivity.
Qed.

Lemma invO_reachable : forall cfg s, wf_config cfg -> reachable cfg s -> invO cfg s.
Proof.
  intros cfg s Hwf Hr; induction Hr using reachable_ind'.
  - intros _; cbn. split; [reflexivity|exists []; reflexivity].
  - eapply invO_step; eauto. apply invA_reachable; auto.
Qed.

(** C07_single_worker_order *)
Lemma single_worker_prefix : forall cfg s, wf_config cfg -> reachable cfg s ->
  nworkers cfg = 1 ->
  exists rest, seq 0 (length (filled s)) = map fst (delivered s) ++ rest.
Proof. intros cfg s Hwf Hr Hn. destruct (invO_reachable cfg s Hwf Hr Hn) as [_ H]; exact H. Qed.

Lemma single_worker_order : forall cfg s, wf_config cfg -> reachable cfg s ->
  final s = true -> patient cfg -> rinit_ok cfg = true -> mfail s = false ->
  nworkers cfg = 1 ->
  delivered s = map (fun c => (c, work cfg c)) (seq 0 (nfills cfg)).
Proof.
  intros cfg s Hwf Hr Hf Hp Hri Hmf Hn.
  destruct (delivered_exactly_once cfg s Hwf Hr Hf Hp Hri Hmf) as (HP & Hk & _).
  destruct (single_worker_prefix cfg s Hwf Hr Hn) as [rest Hpre].
  rewrite Hk in Hpre.
  assert (Hlen : length (delivered s) = nfills cfg).
  { rewrite (Permutation_length HP), map_length, seq_length; reflexivity. }
  assert (Hrest : rest = []).
  { apply (f_equal (@length nat)) in Hpre. rewrite seq_length, app_length, map_length in Hpre.
    destruct rest; [reflexivity|cbn [length] in Hpre; lia]. }
  subst rest. rewrite app_nil_r in Hpre.
  destruct (inv_pair_reachable cfg s Hr) as (_ & _ & _ & Hd).
  rewrite Hpre. clear - Hd. induction (delivered s) as [|[c o] l IH]; [reflexivity|].
  apply Forall_cons_iff in Hd. destruct Hd as [H1 H2]. unfold pair_ok in H1; cbn [fst snd] in H1.
  cbn [map fst]. rewrite <- IH by exact H2. subst o; reflexivity.
Qed.

(** C07_end_after_all *)
Lemma end_after_all : forall cfg s ok s', wf_config cfg -> reachable cfg s ->
  apply cfg s (ESendEnd ok) = Some s' ->
  jobs s = [] /\ active s = [] /\ rexec (rpc s) = [].
Proof.
  intros cfg s ok s' Hwf Hr Ha.
  pose proof (invA_reachable cfg s Hwf Hr) as HA.
  unfold invA in HA; destruct HA as (_ & _ & _ & _ & _ & _ & _ & Iidle & _).
  apply apply_step in Ha. inversion Ha; subst;
    match goal with H : rpc s = _ |- _ => rewrite H in * end; cbn [rexec]; tauto.
Qed.

Lemma end_is_last : forall cfg s, wf_config cfg -> reachable cfg s ->
  forall l1 l2, doneq s = l1 ++ MEnd :: l2 ->
  l2 = [] /\ jobs s = [] /\ active s = [] /\ end_sent (rpc s) = true.
Proof.
  intros cfg s Hwf Hr l1 l2 Hq.
  destruct (invE_reachable cfg s Hwf Hr) as (E1 & E2). rewrite Hq in *.
  split.
  - destruct l2 as [|m l2]; [reflexivity|exfalso].
    assert (Hrl : removelast (l1 ++ MEnd :: m :: l2) = l1 ++ MEnd :: removelast (m :: l2)).
    { rewrite removelast_app by discriminate.
      change (removelast (MEnd :: m :: l2)) with (MEnd :: removelast (m :: l2)). reflexivity. }
    rewrite Hrl in E2. apply Forall_app in E2. destruct E2 as [_ E2].
    apply Forall_cons_iff in E2. destruct E2 as [E2 _]. apply E2; reflexivity.
  - destruct E1 as [E1|E1]; [|tauto]. exfalso.
    apply Forall_app in E1. destruct E1 as [_ E1].
    apply Forall_cons_iff in E1. destruct E1 as [E1 _]. apply E1; reflexivity.
Qed.


Lemma content_conservation : forall cfg s, reachable cfg s ->
  Permutation (contents s) (seq 0 (length (filled s))) /\ filled s = seq 0 (length (filled s)).
Proof.
  intros cfg s Hr; split;
    [apply contents_perm, (inv_contents_reachable cfg); assumption|apply (filled_seq cfg); assumption].
Qed.
